namespace T
inductive Val | null | bool (b : Bool) | int (i : Int) | str (s : String) | list (xs : List Val)
deriving Repr, Inhabited

inductive Expr | lit (v : Val) | var (n : String) | add (a b : Expr) | cond (c t f : Expr)
deriving Repr, Inhabited

inductive Node
  | text (s : String)
  | print (e : Expr)
  | ifN (c : Expr) (thn : List Node) (els : List Node)
  | forN (v : String) (seq : Expr) (body : List Node)
  | setN (v : String) (e : Expr)
deriving Repr, Inhabited

abbrev Ctx := List (String × Val)
def Ctx.get (c : Ctx) (n : String) : Val := (c.lookup n).getD .null
def Ctx.set (c : Ctx) (n : String) (v : Val) : Ctx := (n, v) :: c

def truthy : Val → Bool
  | .null => false | .bool b => b | .int i => i != 0 | .str s => s != "" | .list xs => !xs.isEmpty

def eval (c : Ctx) : Expr → Except String Val
  | .lit v => pure v
  | .var n => pure (c.get n)
  | .add a b => do
    match (← eval c a), (← eval c b) with
    | .int x, .int y => pure (.int (x + y))
    | _, _ => throw "type"
  | .cond g t f => do if truthy (← eval c g) then eval c t else eval c f

def vshow : Val → String
  | .null => "" | .bool b => toString b | .int i => toString i | .str s => s | .list _ => "[list]"

mutual
def render (c : Ctx) : Node → Except String (Ctx × String)
  | .text s => pure (c, s)
  | .print e => do pure (c, vshow (← eval c e))
  | .setN v e => do pure (c.set v (← eval c e), "")
  | .ifN g t f => do if truthy (← eval c g) then renderAll c t else renderAll c f
  | .forN v s body => do
    match ← eval c s with
    | .list xs => renderLoop c v xs body
    | _ => pure (c, "")
def renderAll (c : Ctx) : List Node → Except String (Ctx × String)
  | [] => pure (c, "")
  | n :: ns => do
    let (c1, o1) ← render c n
    let (c2, o2) ← renderAll c1 ns
    pure (c2, o1 ++ o2)
def renderLoop (c : Ctx) (v : String) (xs : List Val) (body : List Node) : Except String (Ctx × String) :=
  match xs with
  | [] => pure (c, "")
  | x :: rest => do
    let (c1, o1) ← renderAll (c.set v x) body
    let (c2, o2) ← renderLoop c1 v rest body
    pure (c2, o1 ++ o2)
end

theorem render_if_true (c : Ctx) (g : Expr) (t f : List Node) (v : Val)
    (h : eval c g = .ok v) (ht : truthy v = true) :
    render c (.ifN g t f) = renderAll c t := by
  simp [render, h, ht, bind, Except.bind]

#eval render [] (.forN "i" (.lit (.list [.int 1, .int 2])) [.print (.add (.var "i") (.lit (.int 1))), .text ";"])
end T
