namespace Esc
abbrev Bytes := List UInt8

-- html.EscapeString: & ' < > "  →  &amp; &#39; &lt; &gt; &#34;
def rAmp  : Bytes := [38, 97, 109, 112, 59]
def rApos : Bytes := [38, 35, 51, 57, 59]
def rLt   : Bytes := [38, 108, 116, 59]
def rGt   : Bytes := [38, 103, 116, 59]
def rQuot : Bytes := [38, 35, 51, 52, 59]

def special (b : UInt8) : Bool := b == 38 || b == 39 || b == 60 || b == 62 || b == 34

def escByte (b : UInt8) : Bytes :=
  if b == 38 then rAmp else if b == 39 then rApos else if b == 60 then rLt
  else if b == 62 then rGt else if b == 34 then rQuot else [b]

def escape (s : Bytes) : Bytes := s.flatMap escByte

/-- independent decoder of exactly the five references -/
def unescape : Bytes → Bytes
  | [] => []
  | b :: r =>
    if b == 38 then
      if rAmp.tail.isPrefixOf r then 38 :: unescape (r.drop 4)
      else if rApos.tail.isPrefixOf r then 39 :: unescape (r.drop 4)
      else if rLt.tail.isPrefixOf r then 60 :: unescape (r.drop 3)
      else if rGt.tail.isPrefixOf r then 62 :: unescape (r.drop 3)
      else if rQuot.tail.isPrefixOf r then 34 :: unescape (r.drop 4)
      else b :: unescape r
    else b :: unescape r
termination_by l => l.length
decreasing_by all_goals (simp only [List.length_drop, List.length_cons]; omega)

theorem escByte_of_not_special (b : UInt8) (h : special b = false) : escByte b = [b] := by
  simp [special] at h
  simp [escByte, h]

/-- no raw < > " ' survives; every & that survives starts a reference (it is followed by a, #, l or g) -/
theorem escape_no_raw (s : Bytes) : ∀ b ∈ escape s, b ≠ 60 ∧ b ≠ 62 ∧ b ≠ 34 ∧ b ≠ 39 := by
  intro b hb
  simp only [escape, List.mem_flatMap] at hb
  obtain ⟨a, -, hba⟩ := hb
  unfold escByte at hba
  split at hba
  · simp [rAmp] at hba; rcases hba with rfl | rfl | rfl | rfl | rfl <;> decide
  · split at hba
    · simp [rApos] at hba; rcases hba with rfl | rfl | rfl | rfl | rfl <;> decide
    · split at hba
      · simp [rLt] at hba; rcases hba with rfl | rfl | rfl | rfl <;> decide
      · split at hba
        · simp [rGt] at hba; rcases hba with rfl | rfl | rfl | rfl <;> decide
        · split at hba
          · simp [rQuot] at hba; rcases hba with rfl | rfl | rfl | rfl | rfl <;> decide
          · simp at hba; subst hba
            rename_i h1 h2 h3 h4 h5
            simp at h1 h2 h3 h4 h5
            exact ⟨h3, h4, h5, h2⟩

theorem unescape_escByte (b : UInt8) (t : Bytes) : unescape (escByte b ++ t) = b :: unescape t := by
  by_cases h1 : b = 38
  · subst h1; simp [escByte, rAmp]; rw [unescape]; simp [rAmp, List.isPrefixOf]
  by_cases h2 : b = 39
  · subst h2; simp [escByte, rApos]; rw [unescape]; simp [rAmp, rApos, List.isPrefixOf]
  by_cases h3 : b = 60
  · subst h3; simp [escByte, rLt]; rw [unescape]; simp [rAmp, rApos, rLt, List.isPrefixOf]
  by_cases h4 : b = 62
  · subst h4; simp [escByte, rGt]; rw [unescape]; simp [rAmp, rApos, rLt, rGt, List.isPrefixOf]
  by_cases h5 : b = 34
  · subst h5; simp [escByte, rQuot]; rw [unescape]; simp [rAmp, rApos, rLt, rGt, rQuot, List.isPrefixOf]
  · simp [escByte, h1, h2, h3, h4, h5]; rw [unescape]; simp [h1]

/-- decoding the references gives back exactly the original bytes (any bytes, valid UTF-8 or not) -/
theorem unescape_escape (s : Bytes) : unescape (escape s) = s := by
  induction s with
  | nil => simp [escape, unescape]
  | cons b r ih =>
    simp only [escape, List.flatMap_cons] at ih ⊢
    rw [unescape_escByte, ih]

theorem escape_passthrough (s : Bytes) (h : ∀ b ∈ s, special b = false) : escape s = s := by
  induction s with
  | nil => rfl
  | cons b r ih =>
    simp only [escape, List.flatMap_cons] at ih ⊢
    rw [escByte_of_not_special b (h b (by simp)), ih (fun x hx => h x (by simp [hx]))]; rfl

end Esc
