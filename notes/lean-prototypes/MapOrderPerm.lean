namespace MapOrder

/-- strictly sorted lists with the same members are equal (core-only; no Mathlib) -/
theorem eq_of_sorted_of_mem_iff {α} (lt : α → α → Prop)
    (irrefl : ∀ a, ¬ lt a a) (asymm : ∀ a b, lt a b → ¬ lt b a) :
    ∀ (l₁ l₂ : List α), l₁.Pairwise lt → l₂.Pairwise lt → (∀ a, a ∈ l₁ ↔ a ∈ l₂) → l₁ = l₂
  | [], [], _, _, _ => rfl
  | [], b :: _, _, _, h => by have := (h b).mpr (by simp); simp at this
  | a :: _, [], _, _, h => by have := (h a).mp (by simp); simp at this
  | a :: t₁, b :: t₂, h₁, h₂, h => by
    rw [List.pairwise_cons] at h₁ h₂
    have hab : a = b := by
      have ha : a ∈ b :: t₂ := (h a).mp (by simp)
      have hb : b ∈ a :: t₁ := (h b).mpr (by simp)
      rcases List.mem_cons.mp ha with rfl | ha'
      · rfl
      · rcases List.mem_cons.mp hb with rfl | hb'
        · rfl
        · exact absurd (h₁.1 b hb') (asymm _ _ (h₂.1 a ha'))
    subst hab
    congr 1
    apply eq_of_sorted_of_mem_iff lt irrefl asymm t₁ t₂ h₁.2 h₂.2
    intro x
    constructor
    · intro hx
      have : x ∈ a :: t₂ := (h x).mp (List.mem_cons_of_mem _ hx)
      rcases List.mem_cons.mp this with rfl | h'
      · exact absurd (h₁.1 x hx) (irrefl x)
      · exact h'
    · intro hx
      have : x ∈ a :: t₁ := (h x).mpr (List.mem_cons_of_mem _ hx)
      rcases List.mem_cons.mp this with rfl | h'
      · exact absurd (h₂.1 x hx) (irrefl x)
      · exact h'

/-- "collect the keys, sort them, then visit in that order" does not depend on the order in
    which the Go runtime hands out the keys -/
theorem sortedKeys_perm_invariant (ks₁ ks₂ : List Nat) (hp : ks₁.Perm ks₂) (hn : ks₁.Nodup) :
    ks₁.mergeSort (· ≤ ·) = ks₂.mergeSort (· ≤ ·) := by
  have hn₂ : ks₂.Nodup := hp.nodup_iff.mp hn
  have s₁ := List.pairwise_mergeSort (le := fun a b : Nat => decide (a ≤ b))
    (by intro a b c; simp; omega) (by intro a b; simp; omega) ks₁
  have s₂ := List.pairwise_mergeSort (le := fun a b : Nat => decide (a ≤ b))
    (by intro a b c; simp; omega) (by intro a b; simp; omega) ks₂
  have p₁ := List.mergeSort_perm ks₁ (fun a b => decide (a ≤ b))
  have p₂ := List.mergeSort_perm ks₂ (fun a b => decide (a ≤ b))
  have n₁ : (ks₁.mergeSort (fun a b => decide (a ≤ b))).Nodup := p₁.nodup_iff.mpr hn
  have n₂ : (ks₂.mergeSort (fun a b => decide (a ≤ b))).Nodup := p₂.nodup_iff.mpr hn₂
  apply eq_of_sorted_of_mem_iff (fun a b : Nat => a < b) (by intro a; omega) (by intro a b; omega)
  · -- ≤-sorted and duplicate-free ⇒ <-sorted
    have := List.Pairwise.and s₁ n₁
    exact this.imp (by intro a b h; simp at h; omega)
  · have := List.Pairwise.and s₂ n₂
    exact this.imp (by intro a b h; simp at h; omega)
  · intro a
    rw [p₁.mem_iff, p₂.mem_iff, hp.mem_iff]

end MapOrder
