namespace PoolModel

abbrev Id := Nat
abbrev Name := String
abbrev Src := String

/-- abstract parse and render: a root's children are determined by the source, output by the children -/
def parse (s : Src) : List String := [s]
def renderChildren (cs : List String) : String := String.join cs

structure Facts where
  renderReleasesRoot : Bool
def Facts.ok (F : Facts) : Prop := F.renderReleasesRoot = false

structure St where
  heap  : Id → List String
  next  : Id
  free  : List Id
  cache : List (Name × Id)

inductive Op
  | register (n : Name) (s : Src)
  | parseOnly (s : Src)
  | render (n : Name)
  | gc (keep : Id → Bool)

/-- the pool hands out any free object the oracle picks, or a new one -/
def get (pick : Option Nat) (st : St) : Id × St :=
  match pick.bind (fun i => st.free[i]?) with
  | some id => (id, { st with free := st.free.erase id })
  | none => (st.next, { st with next := st.next + 1 })

def setHeap (st : St) (id : Id) (cs : List String) : St :=
  { st with heap := fun j => if j = id then cs else st.heap j }

def step (F : Facts) (pick : Option Nat) (st : St) : Op → St × Option String
  | .register n s =>
    let (id, st1) := get pick st
    let st2 := setHeap st1 id (parse s)
    ({ st2 with cache := (n, id) :: st2.cache }, none)
  | .parseOnly s =>
    let (id, st1) := get pick st
    (setHeap st1 id (parse s), none)
  | .render n =>
    match st.cache.lookup n with
    | none => (st, some "ERR")
    | some id =>
      let out := renderChildren (st.heap id)
      if F.renderReleasesRoot then
        let st1 := setHeap st id []                       -- ReleaseRootNode: children = nil
        ({ st1 with free := id :: st1.free }, some out)   -- RootNodePool.Put
      else (st, some out)
  | .gc keep => ({ st with free := st.free.filter keep }, none)

def run (F : Facts) : St → List (Option Nat × Op) → List (Option String)
  | _, [] => []
  | st, (pick, op) :: rest =>
    let (st', o) := step F pick st op
    o :: run F st' rest

/-- the pool-free machine: a fresh engine in a fresh process -/
def stepPure (c : List (Name × Src)) : Op → List (Name × Src) × Option String
  | .register n s => ((n, s) :: c, none)
  | .parseOnly _ => (c, none)
  | .render n => (c, some (match c.lookup n with | none => "ERR" | some s => renderChildren (parse s)))
  | .gc _ => (c, none)

def runPure : List (Name × Src) → List Op → List (Option String)
  | _, [] => []
  | c, op :: rest => let (c', o) := stepPure c op; o :: runPure c' rest

/-- ownership invariant relating the pooled state to the pure cache -/
structure Inv (st : St) (c : List (Name × Src)) : Prop where
  names    : st.cache.map (·.1) = c.map (·.1)
  content  : ∀ n id, st.cache.lookup n = some id → ∃ s, c.lookup n = some s ∧ st.heap id = parse s
  owned    : ∀ n id, (n, id) ∈ st.cache → id ∉ st.free ∧ id < st.next
  freeOld  : ∀ id ∈ st.free, id < st.next
  nodup    : st.free.Nodup            -- every released object is in the pool once

theorem lookup_none_iff {α β} [BEq α] [LawfulBEq α] (l : List (α × β)) (a : α) :
    l.lookup a = none ↔ a ∉ l.map (·.1) := by
  induction l with
  | nil => simp
  | cons p t ih =>
    obtain ⟨k, v⟩ := p
    by_cases h : a = k
    · subst h; simp [List.lookup]
    · have : (a == k) = false := by simpa using h
      simp [List.lookup, this, ih, h]

theorem mem_of_lookup {α β} [BEq α] [LawfulBEq α] : ∀ (l : List (α × β)) (a : α) (b : β),
    l.lookup a = some b → (a, b) ∈ l
  | [], _, _, h => by simp at h
  | (k, v) :: t, a, b, h => by
    by_cases hk : a = k
    · subst hk; simp [List.lookup] at h; subst h; simp
    · have hb : (a == k) = false := by simpa using hk
      simp [List.lookup, hb] at h
      exact List.mem_cons_of_mem _ (mem_of_lookup t a b h)

theorem get_spec (pick : Option Nat) (st : St) (c) (h : Inv st c) :
    let r := get pick st
    Inv r.2 c ∧ r.1 ∉ r.2.free ∧ r.1 < r.2.next ∧ (∀ n, (n, r.1) ∉ r.2.cache) ∧ r.2.heap = st.heap ∧ r.2.cache = st.cache := by
  unfold get
  split
  · rename_i id hid
    have hmem : id ∈ st.free := by
      cases pick with
      | none => simp at hid
      | some i => simp at hid; exact List.mem_of_getElem? hid
    refine ⟨⟨h.names, h.content, ?_, ?_, h.nodup.erase id⟩, h.nodup.not_mem_erase, h.freeOld id hmem, ?_, rfl, rfl⟩
    · intro n j hj
      exact ⟨fun hf => (h.owned n j hj).1 (List.mem_of_mem_erase hf), (h.owned n j hj).2⟩
    · intro j hj; exact h.freeOld j (List.mem_of_mem_erase hj)
    · intro n hn; exact (h.owned n id hn).1 hmem
  · refine ⟨⟨h.names, h.content, ?_, ?_, h.nodup⟩, ?_, Nat.lt_succ_self _, ?_, rfl, rfl⟩
    · intro n j hj; exact ⟨(h.owned n j hj).1, Nat.lt_succ_of_lt (h.owned n j hj).2⟩
    · intro j hj; exact Nat.lt_succ_of_lt (h.freeOld j hj)
    · intro hf; exact absurd (h.freeOld _ hf) (Nat.lt_irrefl _)
    · intro n hn; exact absurd (h.owned n _ hn).2 (Nat.lt_irrefl _)


/-- one step of the pooled machine simulates the pure machine and keeps the invariant -/
theorem step_sim (F : Facts) (hF : F.ok) (pick : Option Nat) (st : St) (c) (h : Inv st c) (op : Op) :
    (step F pick st op).2 = (stepPure c op).2 ∧ Inv (step F pick st op).1 (stepPure c op).1 := by
  cases op with
  | register n s =>
    obtain ⟨hi, hnf, hlt, hnc, hheap, hcache⟩ := get_spec pick st c h
    simp only [step, stepPure]
    generalize get pick st = r at hi hnf hlt hnc hheap hcache
    obtain ⟨id, st1⟩ := r
    simp only at hi hnf hlt hnc hheap hcache ⊢
    refine ⟨trivial, ⟨?_, ?_, ?_, ?_, ?_⟩⟩
    · simp [setHeap, hi.names]
    · intro m j hm
      simp only [setHeap, List.lookup] at hm ⊢
      by_cases hmn : m = n
      · subst hmn; simp at hm; subst hm; simp [List.lookup]
      · have hb : (m == n) = false := by simpa using hmn
        simp only [hb] at hm
        obtain ⟨s', hs', hh⟩ := hi.content m j hm
        refine ⟨s', by simp [List.lookup, hb, hs'], ?_⟩
        have : j ≠ id := by
          intro hj; subst hj
          exact hnc m (mem_of_lookup _ _ _ hm)
        simp [this, hh]
    · intro m j hm
      simp only [setHeap, List.mem_cons, Prod.mk.injEq] at hm
      rcases hm with ⟨-, rfl⟩ | hm
      · exact ⟨hnf, hlt⟩
      · exact hi.owned m j hm
    · exact hi.freeOld
    · exact hi.nodup
  | parseOnly s =>
    obtain ⟨hi, hnf, hlt, hnc, hheap, hcache⟩ := get_spec pick st c h
    simp only [step, stepPure]
    generalize get pick st = r at hi hnf hlt hnc hheap hcache
    obtain ⟨id, st1⟩ := r
    simp only at hi hnf hlt hnc hheap hcache ⊢
    refine ⟨trivial, ⟨hi.names, ?_, hi.owned, hi.freeOld, hi.nodup⟩⟩
    intro m j hm
    obtain ⟨s', hs', hh⟩ := hi.content m j hm
    refine ⟨s', hs', ?_⟩
    have : j ≠ id := by
      intro hj; subst hj
      exact hnc m (mem_of_lookup _ _ _ hm)
    simp [setHeap, this, hh]
  | render n =>
    simp only [step, stepPure]
    cases hl : st.cache.lookup n with
    | none =>
      have : c.lookup n = none := by
        rw [lookup_none_iff] at hl ⊢; rwa [← h.names]
      simp [this, h]
    | some id =>
      obtain ⟨s, hs, hh⟩ := h.content n id hl
      have hr : F.renderReleasesRoot = false := hF
      simp [hr, hs, hh, h]
  | gc keep =>
    simp only [step, stepPure]
    refine ⟨trivial, ⟨h.names, h.content, ?_, ?_, h.nodup.filter _⟩⟩
    · intro m j hm
      exact ⟨fun hf => (h.owned m j hm).1 (List.mem_filter.mp hf).1, (h.owned m j hm).2⟩
    · intro j hj; exact h.freeOld j (List.mem_filter.mp hj).1

/-- C01 (prototype): for every history and every behaviour of the pools the outputs are those
    of the pool-free machine -/
theorem history_independence (F : Facts) (hF : F.ok) :
    ∀ (ops : List (Option Nat × Op)) (st : St) (c), Inv st c →
      run F st ops = runPure c (ops.map (·.2))
  | [], _, _, _ => rfl
  | (pick, op) :: rest, st, c, h => by
    obtain ⟨ho, hi⟩ := step_sim F hF pick st c h op
    simp only [run, runPure, List.map_cons]
    rw [ho, history_independence F hF rest _ _ hi]

/-- with the pinned facts the second render of a cached template is empty -/
def st0 : St := { heap := fun _ => [], next := 0, free := [], cache := [] }
example : run ⟨true⟩ st0 [(none, .register "t" "hello"), (none, .render "t"), (none, .render "t")]
    = [none, some "hello", some ""] := by decide
example : runPure [] [.register "t" "hello", .render "t", .render "t"] = [none, some "hello", some "hello"] := by decide
/-- …and a later parse makes the old template render the new body -/
example : run ⟨true⟩ st0 [(none, .register "a" "A"), (none, .render "a"), (some 0, .register "b" "B"), (none, .render "a")]
    = [none, some "A", none, some "B"] := by decide

end PoolModel
