namespace Pratt

abbrev Op := Nat   -- operator id; precedence given by a table function

inductive Tok | atom (n : Nat) | op (o : Op) | lp | rp
deriving DecidableEq, Repr

inductive E | atom (n : Nat) | bin (o : Op) (l r : E)
deriving DecidableEq, Repr

inductive Res | ok (e : E) (rest : List Tok) | err | oof
deriving DecidableEq, Repr

variable (prec : Op → Nat)

mutual
/-- Go: parseBinaryPrec(minPrec) = parseOperand ; loop -/
def parseExpr : Nat → Nat → List Tok → Res
  | 0, _, _ => .oof
  | f+1, m, ts =>
    match parseOperand f ts with
    | .ok a ts1 => parseLoop f m a ts1
    | r => r
def parseLoop : Nat → Nat → E → List Tok → Res
  | 0, _, _, _ => .oof
  | f+1, m, left, ts =>
    match ts with
    | .op o :: ts' =>
      if prec o < m then .ok left ts
      else match parseExpr f (prec o + 1) ts' with
        | .ok r ts2 => parseLoop f m (.bin o left r) ts2
        | x => x
    | _ => .ok left ts
def parseOperand : Nat → List Tok → Res
  | 0, _ => .oof
  | f+1, ts =>
    match ts with
    | .atom n :: ts' => .ok (.atom n) ts'
    | .lp :: ts' =>
      match parseExpr f 1 ts' with
      | .ok e (.rp :: ts2) => .ok e ts2
      | .ok _ _ => .err
      | x => x
    | _ => .err
end

/-- minimal-parenthesis printer for left-associative operators -/
def pr : Nat → E → List Tok
  | _, .atom n => [.atom n]
  | p, .bin o l r =>
    let s := pr (prec o) l ++ [.op o] ++ pr (prec o + 1) r
    if prec o < p then [.lp] ++ s ++ [.rp] else s

/-- the token after the printed expression does not continue it at level p -/
def Hd (p : Nat) : List Tok → Prop
  | .op o :: _ => prec o ≤ p
  | _ => True

-- monotonicity of fuel
mutual
theorem parseExpr_mono : ∀ f m ts r, parseExpr prec f m ts = r → r ≠ .oof → ∀ f', f ≤ f' → parseExpr prec f' m ts = r
  | 0, _, _, _, h, hr, _, _ => by simp [parseExpr] at h; exact absurd h.symm hr
  | f+1, m, ts, r, h, hr, f', hf => by
    obtain ⟨g, rfl⟩ : ∃ g, f' = g + 1 := ⟨f' - 1, by omega⟩
    have hfg : f ≤ g := by omega
    simp only [parseExpr] at h ⊢
    cases ho : parseOperand prec f ts with
    | ok a ts1 =>
      rw [ho] at h
      rw [parseOperand_mono f ts _ ho (by simp) g hfg]
      exact parseLoop_mono f m a ts1 r h hr g hfg
    | err => rw [ho] at h; rw [parseOperand_mono f ts _ ho (by simp) g hfg]; exact h
    | oof => rw [ho] at h; exact absurd h.symm hr
theorem parseLoop_mono : ∀ f m l ts r, parseLoop prec f m l ts = r → r ≠ .oof → ∀ f', f ≤ f' → parseLoop prec f' m l ts = r
  | 0, _, _, _, _, h, hr, _, _ => by simp [parseLoop] at h; exact absurd h.symm hr
  | f+1, m, l, ts, r, h, hr, f', hf => by
    obtain ⟨g, rfl⟩ : ∃ g, f' = g + 1 := ⟨f' - 1, by omega⟩
    have hfg : f ≤ g := by omega
    simp only [parseLoop] at h ⊢
    split at h
    · rename_i o ts'
      split at h
      · simp_all
      · rename_i hlt
        simp only [hlt, ite_false]
        cases he : parseExpr prec f (prec o + 1) ts' with
        | ok r2 ts2 =>
          rw [he] at h
          rw [parseExpr_mono f _ ts' _ he (by simp) g hfg]
          exact parseLoop_mono f m _ ts2 r h hr g hfg
        | err => rw [he] at h; rw [parseExpr_mono f _ ts' _ he (by simp) g hfg]; exact h
        | oof => rw [he] at h; exact absurd h.symm hr
    · exact h
theorem parseOperand_mono : ∀ f ts r, parseOperand prec f ts = r → r ≠ .oof → ∀ f', f ≤ f' → parseOperand prec f' ts = r
  | 0, _, _, h, hr, _, _ => by simp [parseOperand] at h; exact absurd h.symm hr
  | f+1, ts, r, h, hr, f', hf => by
    obtain ⟨g, rfl⟩ : ∃ g, f' = g + 1 := ⟨f' - 1, by omega⟩
    have hfg : f ≤ g := by omega
    simp only [parseOperand] at h ⊢
    split at h
    · exact h
    · rename_i ts'
      cases he : parseExpr prec f 1 ts' with
      | ok e ts2 =>
        rw [he] at h
        rw [parseExpr_mono f 1 ts' _ he (by simp) g hfg]
        exact h
      | err => rw [he] at h; rw [parseExpr_mono f 1 ts' _ he (by simp) g hfg]; exact h
      | oof => rw [he] at h; simp at h; exact absurd h.symm hr
    · exact h
end


/-- the loop started on `e` stops immediately when the next token does not continue at level m -/
theorem parseLoop_stop (f m : Nat) (e : E) (rest : List Tok)
    (h : match rest with | .op o :: _ => prec o < m | _ => True) :
    parseLoop prec (f+1) m e rest = .ok e rest := by
  simp only [parseLoop]
  split
  · rename_i o ts'; simp at h; simp [h]
  · rfl

/-- core round-trip lemma: parsing the printed `e` at any level `m ≤ p` brings the parser into
    the loop state with `left = e` -/
theorem parse_pr : ∀ (e : E) (p m : Nat) (rest : List Tok) (f : Nat) (r : Res),
    m ≤ p → (∀ o, 1 ≤ prec o) → Hd prec p rest →
    parseLoop prec f m e rest = r → r ≠ .oof →
    ∃ k, ∀ f', k ≤ f' → parseExpr prec f' m (pr prec p e ++ rest) = r
  | .atom n, p, m, rest, f, r, hmp, hpos, hd, hl, hr => by
    refine ⟨f + 2, fun f' hf' => ?_⟩
    obtain ⟨g, rfl⟩ : ∃ g, f' = g + 1 := ⟨f' - 1, by omega⟩
    obtain ⟨g', rfl⟩ : ∃ g', g = g' + 1 := ⟨g - 1, by omega⟩
    simp only [pr, parseExpr, parseOperand, List.cons_append, List.nil_append]
    exact parseLoop_mono prec f m _ rest r hl hr _ (by omega)
  | .bin o l r', p, m, rest, f, r, hmp, hpos, hd, hl, hr => by
    -- the unparenthesised body parses, at any level m' ≤ prec o, into loop state (bin o l r')
    have body : ∀ (m' : Nat) (rest' : List Tok) (f0 : Nat) (r0 : Res), m' ≤ prec o → Hd prec (prec o) rest' →
        parseLoop prec f0 m' (.bin o l r') rest' = r0 → r0 ≠ .oof →
        ∃ k, ∀ f', k ≤ f' → parseExpr prec f' m' (pr prec (prec o) l ++ [.op o] ++ pr prec (prec o + 1) r' ++ rest') = r0 := by
      intro m' rest' f0 r0 hm' hd' hl0 hr0
      -- right operand: parse at prec o + 1, then its loop stops at rest'
      have hstopR : parseLoop prec 1 (prec o + 1) r' rest' = .ok r' rest' := by
        apply parseLoop_stop
        cases rest' with
        | nil => trivial
        | cons t ts => cases t <;> simp_all [Hd] <;> omega
      obtain ⟨kr, hkr⟩ := parse_pr r' (prec o + 1) (prec o + 1) rest' 1 _ (Nat.le_refl _) hpos
        (by cases rest' with
            | nil => trivial
            | cons t ts => cases t <;> simp_all [Hd] <;> omega) hstopR (by simp)
      -- loop state after l: consumes `op o`, parses r', continues with (bin o l r')
      have hloopL : parseLoop prec (max kr f0 + 1) m' l (.op o :: (pr prec (prec o + 1) r' ++ rest')) = r0 := by
        simp only [parseLoop]
        have : ¬ prec o < m' := by omega
        simp only [this, ite_false]
        rw [hkr (max kr f0) (Nat.le_max_left _ _)]
        exact parseLoop_mono prec f0 m' _ rest' r0 hl0 hr0 _ (Nat.le_max_right _ _)
      obtain ⟨kl, hkl⟩ := parse_pr l (prec o) m' (.op o :: (pr prec (prec o + 1) r' ++ rest')) _ r0 hm' hpos
        (by simp [Hd]) hloopL hr0
      refine ⟨kl, fun f' hf' => ?_⟩
      have := hkl f' hf'
      simpa [List.append_assoc] using this
    by_cases hparen : prec o < p
    · -- parenthesised
      have hin : parseLoop prec 1 1 (.bin o l r') (.rp :: rest) = .ok (.bin o l r') (.rp :: rest) :=
        parseLoop_stop prec 0 1 _ _ trivial
      obtain ⟨k, hk⟩ := body 1 (.rp :: rest) 1 _ (hpos o) trivial hin (by simp)
      refine ⟨max k f + 2, fun f' hf' => ?_⟩
      obtain ⟨g, rfl⟩ : ∃ g, f' = g + 1 := ⟨f' - 1, by omega⟩
      obtain ⟨g', rfl⟩ : ∃ g', g = g' + 1 := ⟨g - 1, by omega⟩
      simp only [pr, hparen, ite_true, parseExpr, parseOperand, List.cons_append, List.nil_append, List.append_assoc]
      have h1 := hk g' (by omega)
      simp only [List.append_assoc, List.cons_append, List.nil_append] at h1
      rw [h1]
      exact parseLoop_mono prec f m _ rest r hl hr _ (by omega)
    · -- no parentheses
      have hpo : p ≤ prec o := by omega
      obtain ⟨k, hk⟩ := body m rest f r (by omega)
        (by cases rest with
            | nil => trivial
            | cons t ts => cases t <;> simp_all [Hd] <;> omega) hl hr
      refine ⟨k, fun f' hf' => ?_⟩
      simp only [pr, hparen, ite_false]
      exact hk f' hf'

end Pratt
