namespace Slice
variable {α : Type}

/-- extension.go filterSlice on a list, after the "omitted length" repair (Go ints as Int) -/
def normStart (n start : Int) : Int :=
  let s0 := if start < 0 then n + start else start
  if s0 < 0 then 0 else s0

def endIdx (n s1 : Int) : Option Int → Int
  | none => n
  | some l => if l ≥ 0 then (if s1 + l > n then n else s1 + l) else (if n + l < s1 then s1 else n + l)

def goSlice (xs : List α) (start : Int) (len : Option Int) : List α :=
  let n : Int := xs.length
  let s1 := normStart n start
  if s1 ≥ n then [] else (xs.drop s1.toNat).take (endIdx n s1 len - s1).toNat

/-- Twig's index rules (PHP array_slice / mb_substr), written independently with drop/take -/
def specOff (n start : Int) : Nat := if start ≥ 0 then start.toNat else (n + start).toNat   -- toNat clamps at 0
def specSlice (xs : List α) (start : Int) (len : Option Int) : List α :=
  let rest := xs.drop (specOff xs.length start)
  match len with
  | none => rest
  | some l => if l ≥ 0 then rest.take l.toNat else rest.take ((rest.length : Int) + l).toNat

theorem normStart_toNat (n start : Int) : (normStart n start).toNat = specOff n start := by
  unfold normStart specOff; simp only []; (repeat' split) <;> omega

theorem normStart_nonneg (n start : Int) : 0 ≤ normStart n start := by
  unfold normStart; simp only []; (repeat' split) <;> omega

theorem goSlice_eq_spec (xs : List α) (start : Int) (len : Option Int) :
    goSlice xs start len = specSlice xs start len := by
  unfold goSlice specSlice
  simp only []
  have hnn := normStart_nonneg xs.length start
  have hto := normStart_toNat xs.length start
  generalize normStart (xs.length : Int) start = s1 at hnn hto
  rw [← hto]
  by_cases h : s1 ≥ xs.length
  · simp only [h, ite_true]
    have : xs.length ≤ s1.toNat := by omega
    rw [List.drop_eq_nil_of_le this]
    cases len with
    | none => rfl
    | some l => simp only []; split <;> simp
  · simp only [h, ite_false]
    have hlen : (xs.drop s1.toNat).length = xs.length - s1.toNat := List.length_drop
    cases len with
    | none =>
      simp only [endIdx]
      apply List.take_of_length_le; omega
    | some l =>
      simp only [endIdx]
      by_cases hl : l ≥ 0
      · simp only [hl, ite_true]
        split
        · rw [List.take_of_length_le (by omega), List.take_of_length_le (by omega)]
        · congr 1; omega
      · simp only [hl, ite_false]
        congr 1
        split <;> omega

/-- non-vacuity and the pinned defect: with the old sentinel (-1 for "no length") slice(1) drops the last element -/
example : goSlice [1, 2, 3, 4, 5] 1 none = [2, 3, 4, 5] := by decide
example : goSlice [1, 2, 3, 4, 5] 1 (some (-1)) = [2, 3, 4] := by decide
example : goSlice [1, 2, 3, 4, 5] (-2) none = [4, 5] := by decide
example : goSlice [1, 2, 3, 4, 5] (-9) (some 2) = [1, 2] := by decide

end Slice
