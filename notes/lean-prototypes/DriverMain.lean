import Lean.Data.Json
import Probe.Basic
open Lean

def hexVal (c : Char) : Option UInt8 :=
  if '0' ≤ c ∧ c ≤ '9' then some (c.toNat - '0'.toNat).toUInt8
  else if 'a' ≤ c ∧ c ≤ 'f' then some (c.toNat - 'a'.toNat + 10).toUInt8 else none

def unhex : List Char → Option (List UInt8)
  | [] => some []
  | a :: b :: r => do let x ← hexVal a; let y ← hexVal b; let t ← unhex r; pure ((x * 16 + y) :: t)
  | _ => none

def step (line : String) : String :=
  match Json.parse line with
  | .error e => s!"bad-op {e}"
  | .ok j =>
    match j.getObjValAs? String "op", j.getObjValAs? String "src" with
    | .ok "find", .ok src =>
      match unhex src.toList with
      | some bs => toString (Scan.findOpener bs)
      | none => "bad-hex"
    | _, _ => "bad-op"

partial def loop (h : IO.FS.Stream) (out : IO.FS.Stream) : IO Unit := do
  let line ← h.getLine
  if line.isEmpty then return ()
  out.putStrLn (step line)
  loop h out

def main : IO Unit := do
  loop (← IO.getStdin) (← IO.getStdout)
