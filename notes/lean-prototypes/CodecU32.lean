namespace Codec
abbrev Bytes := List UInt8

def u32le (n : Nat) : Bytes :=
  [(n % 256).toUInt8, (n / 256 % 256).toUInt8, (n / 65536 % 256).toUInt8, (n / 16777216 % 256).toUInt8]

def rdU32 : Bytes → Option (Nat × Bytes)
  | a :: b :: c :: d :: r => some (a.toNat + b.toNat * 256 + c.toNat * 65536 + d.toNat * 16777216, r)
  | _ => none

theorem toUInt8_toNat_of_lt {n : Nat} (h : n < 256) : n.toUInt8.toNat = n := by
  simp [Nat.toUInt8, UInt8.toNat_ofNat', Nat.mod_eq_of_lt h]

theorem rdU32_u32le (n : Nat) (h : n < 4294967296) (r : Bytes) : rdU32 (u32le n ++ r) = some (n, r) := by
  simp only [u32le, rdU32, List.cons_append, List.nil_append]
  have h0 : n % 256 < 256 := Nat.mod_lt _ (by decide)
  have h1 : n / 256 % 256 < 256 := Nat.mod_lt _ (by decide)
  have h2 : n / 65536 % 256 < 256 := Nat.mod_lt _ (by decide)
  have h3 : n / 16777216 % 256 < 256 := Nat.mod_lt _ (by decide)
  rw [toUInt8_toNat_of_lt h0, toUInt8_toNat_of_lt h1, toUInt8_toNat_of_lt h2, toUInt8_toNat_of_lt h3]
  congr 2
  omega

/-- writeString / readString of compiled.go: uint32(len(s)) truncates -/
def wrStr (s : Bytes) : Bytes := u32le (s.length % 4294967296) ++ s
def rdStr (bs : Bytes) : Option (Bytes × Bytes) :=
  match rdU32 bs with
  | some (n, r) => if n ≤ r.length then some (r.take n, r.drop n) else none
  | none => none

theorem rdStr_wrStr (s r : Bytes) (h : s.length < 4294967296) : rdStr (wrStr s ++ r) = some (s, r) := by
  simp only [wrStr, rdStr, List.append_assoc]
  rw [rdU32_u32le _ (Nat.mod_lt _ (by decide))]
  simp [Nat.mod_eq_of_lt h]

end Codec
