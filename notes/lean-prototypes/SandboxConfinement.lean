namespace Sbx

inductive Expr
  | var (n : String)
  | filter (e : Expr) (f : String)
  | call (f : String) (args : List Expr)

inductive Node
  | print (e : Expr)
  | forN (seq : Expr) (body : List Node)
  | apply (f : String) (body : List Node)
  | include (tpl : Nat) (sandboxed only : Bool)
  | extends (tpl : Nat)

structure Facts where
  chokeFilter : Bool      -- ApplyFilter checks the policy
  chokeFunc   : Bool      -- CallFunction checks the policy
  onlyPropagates : Bool   -- include … only: fresh context inherits ctx.sandboxed
  extendsPropagates : Bool
def Facts.ok (F : Facts) : Prop :=
  F.chokeFilter = true ∧ F.chokeFunc = true ∧ F.onlyPropagates = true ∧ F.extendsPropagates = true

/-- an invocation of a user callback; `inside` is the ghost flag: are we in the dynamic extent
    of a sandboxed include? -/
structure Event where
  name : String
  inside : Bool
deriving DecidableEq

structure Ctx where
  sandboxed : Bool   -- the code's flag
  inside : Bool      -- ghost

abbrev Policy := String → Bool
abbrev M := Except String (List Event)

def invoke (pol : Policy) (check : Bool) (c : Ctx) (f : String) : M :=
  if check && c.sandboxed && !pol f then .error "security violation"
  else .ok [⟨f, c.inside⟩]

mutual
def evalE (F : Facts) (pol : Policy) (c : Ctx) : Expr → M
  | .var _ => .ok []
  | .filter e f => do
    let t1 ← evalE F pol c e
    let t2 ← invoke pol F.chokeFilter c f
    pure (t1 ++ t2)
  | .call f args => do
    let t1 ← evalEs F pol c args
    let t2 ← invoke pol F.chokeFunc c f
    pure (t1 ++ t2)
def evalEs (F : Facts) (pol : Policy) (c : Ctx) : List Expr → M
  | [] => .ok []
  | e :: es => do
    let t1 ← evalE F pol c e
    let t2 ← evalEs F pol c es
    pure (t1 ++ t2)
end

/-- how an include/extends site derives the context of the template it transfers to -/
def deriveInclude (F : Facts) (c : Ctx) (sb only : Bool) : Ctx :=
  if only || sb then
    -- NewRenderContext resets the flag; the include sets it / the repair propagates it
    { sandboxed := sb || (F.onlyPropagates && c.sandboxed), inside := sb || c.inside }
  else { sandboxed := c.sandboxed, inside := c.inside }   -- Clone inherits
def deriveExtends (F : Facts) (c : Ctx) : Ctx :=
  { sandboxed := F.extendsPropagates && c.sandboxed, inside := c.inside }

/- Rendering one template is structural on its nodes; transfer to another template goes
   through `go`, which the fuel-indexed top level supplies. -/
mutual
def render (F : Facts) (pol : Policy) (go : Ctx → Nat → M) (c : Ctx) : Node → M
  | .print e => evalE F pol c e
  | .forN seq body => do
    let t1 ← evalE F pol c seq
    let t2 ← renderAll F pol go c body
    pure (t1 ++ t2)
  | .apply f body => do
    let t1 ← renderAll F pol go c body
    let t2 ← invoke pol F.chokeFilter c f
    pure (t1 ++ t2)
  | .include t sb only => go (deriveInclude F c sb only) t
  | .extends t => go (deriveExtends F c) t
def renderAll (F : Facts) (pol : Policy) (go : Ctx → Nat → M) (c : Ctx) : List Node → M
  | [] => .ok []
  | n :: ns => do
    let t1 ← render F pol go c n
    let t2 ← renderAll F pol go c ns
    pure (t1 ++ t2)
end

def renderTpl (F : Facts) (pol : Policy) (tpls : Nat → List Node) : Nat → Ctx → Nat → M
  | 0, _, _ => .error "fuel"
  | fuel+1, c, t => renderAll F pol (renderTpl F pol tpls fuel) c (tpls t)

def Good (pol : Policy) (t : List Event) : Prop := ∀ ev ∈ t, ev.inside = true → pol ev.name = true
def CtxOk (c : Ctx) : Prop := c.inside = true → c.sandboxed = true

theorem Good.nil (pol) : Good pol [] := by intro ev h; simp at h
theorem Good.append {pol} {a b : List Event} (ha : Good pol a) (hb : Good pol b) : Good pol (a ++ b) := by
  intro ev h; rcases List.mem_append.mp h with h | h
  · exact ha ev h
  · exact hb ev h

theorem invoke_good (pol : Policy) (c : Ctx) (f : String) (t) (hc : CtxOk c)
    (h : invoke pol true c f = .ok t) : Good pol t := by
  unfold invoke at h
  split at h
  · simp at h
  · rename_i hn
    injection h with h; subst h
    intro ev hev hin
    simp at hev; subst hev
    have hs := hc hin
    simp [hs] at hn
    exact hn

/-- bind inversion for the trace monad -/
theorem bind_ok {α β} {x : Except String α} {f : α → Except String β} {b : β}
    (h : (x >>= f) = .ok b) : ∃ a, x = .ok a ∧ f a = .ok b := by
  cases x with
  | error e => simp [bind, Except.bind] at h
  | ok a => exact ⟨a, rfl, h⟩

mutual
theorem evalE_good (F : Facts) (hF : F.ok) (pol) (c) (hc : CtxOk c) : ∀ (e : Expr) (t), evalE F pol c e = .ok t → Good pol t
  | .var _, t, h => by simp [evalE] at h; subst h; exact Good.nil pol
  | .filter e f, t, h => by
    simp only [evalE] at h
    obtain ⟨t1, h1, h⟩ := bind_ok h
    obtain ⟨t2, h2, h⟩ := bind_ok h
    injection h with h; subst h
    rw [hF.1] at h2
    exact (evalE_good F hF pol c hc e t1 h1).append (invoke_good pol c f t2 hc h2)
  | .call f args, t, h => by
    simp only [evalE] at h
    obtain ⟨t1, h1, h⟩ := bind_ok h
    obtain ⟨t2, h2, h⟩ := bind_ok h
    injection h with h; subst h
    rw [hF.2.1] at h2
    exact (evalEs_good F hF pol c hc args t1 h1).append (invoke_good pol c f t2 hc h2)
theorem evalEs_good (F : Facts) (hF : F.ok) (pol) (c) (hc : CtxOk c) : ∀ (es : List Expr) (t), evalEs F pol c es = .ok t → Good pol t
  | [], t, h => by simp [evalEs] at h; subst h; exact Good.nil pol
  | e :: es, t, h => by
    simp only [evalEs] at h
    obtain ⟨t1, h1, h⟩ := bind_ok h
    obtain ⟨t2, h2, h⟩ := bind_ok h
    injection h with h; subst h
    exact (evalE_good F hF pol c hc e t1 h1).append (evalEs_good F hF pol c hc es t2 h2)
end

mutual
theorem render_good (F : Facts) (hF : F.ok) (pol) (go : Ctx → Nat → M)
    (hgo : ∀ c t tr, CtxOk c → go c t = .ok tr → Good pol tr) (c : Ctx) (hc : CtxOk c) :
    ∀ (n : Node) (t), render F pol go c n = .ok t → Good pol t
  | .print e, t, h => by
    rw [render] at h; exact evalE_good F hF pol c hc e t h
  | .forN seq body, t, h => by
    rw [render] at h
    obtain ⟨t1, h1, h⟩ := bind_ok h
    obtain ⟨t2, h2, h⟩ := bind_ok h
    injection h with h; subst h
    exact (evalE_good F hF pol c hc seq t1 h1).append (renderAll_good F hF pol go hgo c hc body t2 h2)
  | .apply f body, t, h => by
    rw [render] at h
    obtain ⟨t1, h1, h⟩ := bind_ok h
    obtain ⟨t2, h2, h⟩ := bind_ok h
    injection h with h; subst h
    rw [hF.1] at h2
    exact (renderAll_good F hF pol go hgo c hc body t1 h1).append (invoke_good pol c f t2 hc h2)
  | .include tp sb only, t, h => by
    rw [render] at h
    refine hgo _ tp t ?_ h
    intro hin
    have hp := hF.2.2.1
    unfold deriveInclude at hin ⊢
    split at hin <;> simp_all [CtxOk] <;> cases sb <;> simp_all
  | .extends tp, t, h => by
    rw [render] at h
    refine hgo _ tp t ?_ h
    intro hin
    have hp := hF.2.2.2
    simp_all [CtxOk, deriveExtends]
theorem renderAll_good (F : Facts) (hF : F.ok) (pol) (go : Ctx → Nat → M)
    (hgo : ∀ c t tr, CtxOk c → go c t = .ok tr → Good pol tr) (c : Ctx) (hc : CtxOk c) :
    ∀ (ns : List Node) (t), renderAll F pol go c ns = .ok t → Good pol t
  | [], t, h => by rw [renderAll] at h; injection h with h; subst h; exact Good.nil pol
  | n :: ns, t, h => by
    rw [renderAll] at h
    obtain ⟨t1, h1, h⟩ := bind_ok h
    obtain ⟨t2, h2, h⟩ := bind_ok h
    injection h with h; subst h
    exact (render_good F hF pol go hgo c hc n t1 h1).append (renderAll_good F hF pol go hgo c hc ns t2 h2)
end

/-- C06 (prototype): every callback invoked in the dynamic extent of a sandboxed include is
    allowed by the policy — for every template set, program, policy, nesting depth and fuel -/
theorem confinement (F : Facts) (hF : F.ok) (pol) (tpls) :
    ∀ (fuel : Nat) (c : Ctx) (t : Nat) (tr), CtxOk c → renderTpl F pol tpls fuel c t = .ok tr → Good pol tr
  | 0, _, _, _, _, h => by simp [renderTpl] at h
  | fuel+1, c, t, tr, hc, h => by
    rw [renderTpl] at h
    exact renderAll_good F hF pol _ (fun c' t' tr' hc' h' => confinement F hF pol tpls fuel c' t' tr' hc' h') c hc _ tr h

/-- the pinned facts let a forbidden filter run in the middle of a chain -/
def pinned : Facts := ⟨false, false, false, false⟩
def polNoForbidden : Policy := fun f => f != "forbidden"
def tplsEx : Nat → List Node
  | 0 => [.include 1 true false]
  | _ => [.print (.filter (.filter (.var "x") "forbidden") "upper")]
example : renderTpl pinned polNoForbidden tplsEx 3 ⟨false, false⟩ 0
    = .ok [⟨"forbidden", true⟩, ⟨"upper", true⟩] := by rfl
/-- non-vacuity: with the repaired facts the same program is refused -/
example : renderTpl ⟨true, true, true, true⟩ polNoForbidden tplsEx 3 ⟨false, false⟩ 0
    = .error "security violation" := by rfl

end Sbx
