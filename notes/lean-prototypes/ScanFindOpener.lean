namespace Scan
abbrev Bytes := List UInt8

/-- position of the leftmost tag opener `{{`, `{%`, `{#` (Go: FindNextTag / min over strings.Index) -/
def isOpen2 (b : UInt8) : Bool := b == 123 || b == 37 || b == 35   -- '{' '%' '#'

def findOpener : Bytes → Option Nat
  | [] => none
  | [_] => none
  | a :: b :: r =>
    if a == 123 && isOpen2 b then some 0
    else (findOpener (b :: r)).map (· + 1)

/-- literal text: contains no opener and does not end in '{' -/
def NoOpener (l : Bytes) : Prop := findOpener l = none

theorem findOpener_append_opener (l : Bytes) (b : UInt8) (r : Bytes)
    (h : NoOpener l) (hl : l.getLast? ≠ some 123) (hb : isOpen2 b = true) :
    findOpener (l ++ 123 :: b :: r) = some l.length := by
  induction l with
  | nil => simp [findOpener, hb]
  | cons a t ih =>
    cases t with
    | nil =>
      have ha : a ≠ 123 := by simpa using hl
      simp [findOpener, hb]
      intro h1; exact absurd (by simpa using h1) ha
    | cons c t' =>
      simp only [NoOpener, findOpener] at h
      split at h
      · simp at h
      · rename_i hne
        have h' : NoOpener (c :: t') := by
          simp only [NoOpener]; cases hfo : findOpener (c :: t') <;> simp_all
        have hl' : (c :: t').getLast? ≠ some 123 := by simpa [List.getLast?_cons_cons] using hl
        have := ih h' hl'
        simp only [List.cons_append, findOpener, List.length_cons]
        rw [if_neg hne]
        simp only [List.cons_append] at this
        rw [this]; simp
end Scan
