/-
  TwigModel.Basic — shared vocabulary of the executable model.

  * `Bytes` = `List UInt8`: Go strings are byte strings (not necessarily UTF-8).
  * byte-level helpers that transliterate the `strings` functions twig uses.
  Core Lean only (no Mathlib) so that the driver links as a `lean_exe`.
-/
namespace Twig

abbrev Bytes := List UInt8

/-- ASCII literal → bytes (model source files only use ASCII literals). -/
def b (s : String) : Bytes := s.toUTF8.toList

/-- Go's `isWhitespace` / the cutset of `strings.TrimSpace` restricted to ASCII
    (twig trims template text with its own helpers that use exactly these four;
    `strings.TrimSpace` additionally strips \v \f 0x85 0xA0 – see `isSpaceGo`). -/
def isWs (c : UInt8) : Bool := c == 32 || c == 9 || c == 10 || c == 13

/-- `unicode.IsSpace` on a single byte < 0x80 as used by `strings.TrimSpace`'s ASCII fast path:
    '\t', '\n', '\v', '\f', '\r', ' '. (Non-ASCII space runes are handled in `trimSpaceGo`.) -/
def isSpaceAscii (c : UInt8) : Bool := c == 32 || (9 ≤ c && c ≤ 13)

def dropWhileEnd (p : UInt8 → Bool) (s : Bytes) : Bytes :=
  (s.reverse.dropWhile p).reverse

/-- twig's `trimLeadingWhitespace` / `trimTrailingWhitespace` (whitespace.go): space, tab, CR, LF. -/
def trimLeadWs (s : Bytes) : Bytes := s.dropWhile isWs
def trimTrailWs (s : Bytes) : Bytes := dropWhileEnd isWs s

/-- `strings.TrimSpace` on ASCII-only whitespace.  The model is exact when the string has no
    non-ASCII Unicode space at its ends (U+0085, U+00A0, U+1680, U+2000.., U+3000 …); the harness
    generators never put those at the ends of tag contents, and the correspondence run would show
    the difference. -/
def trimSpace (s : Bytes) : Bytes := dropWhileEnd isSpaceAscii (s.dropWhile isSpaceAscii)

/-- `strings.HasPrefix`. -/
def hasPrefix (p : Bytes) (s : Bytes) : Bool := p.isPrefixOf s

/-- `strings.Index(s, pat)` as an `Option Nat`. -/
def indexOf (pat : Bytes) : Bytes → Option Nat
  | [] => if pat.isEmpty then some 0 else none
  | c :: r =>
    if pat.isPrefixOf (c :: r) then some 0
    else (indexOf pat r).map (· + 1)

/-- `strings.IndexByte`. -/
def indexByte (c : UInt8) : Bytes → Option Nat
  | [] => none
  | x :: r => if x == c then some 0 else (indexByte c r).map (· + 1)

def containsSub (pat s : Bytes) : Bool := (indexOf pat s).isSome

/-- `countNewlines`. -/
def countNl (s : Bytes) : Nat := (s.filter (· == 10)).length

def asciiLower (s : Bytes) : Bytes :=
  s.map fun c => if 65 ≤ c && c ≤ 90 then c + 32 else c

def isDigit (c : UInt8) : Bool := 48 ≤ c && c ≤ 57
def isAlpha (c : UInt8) : Bool := (97 ≤ c && c ≤ 122) || (65 ≤ c && c ≤ 90)
def isIdentStart (c : UInt8) : Bool := isAlpha c || c == 95
def isIdentChar (c : UInt8) : Bool := isAlpha c || isDigit c || c == 95

/-! ### hex transport encoding (driver protocol) -/

def hexDigit (n : UInt8) : Char :=
  if n < 10 then Char.ofNat (48 + n.toNat) else Char.ofNat (87 + n.toNat)

def toHex (bs : Bytes) : String :=
  String.ofList (bs.flatMap fun c => [hexDigit (c / 16), hexDigit (c % 16)])

def hexVal (c : Char) : Option UInt8 :=
  if '0' ≤ c ∧ c ≤ '9' then some (c.toNat - '0'.toNat).toUInt8
  else if 'a' ≤ c ∧ c ≤ 'f' then some (c.toNat - 'a'.toNat + 10).toUInt8 else none

def unhexL : List Char → Option Bytes
  | [] => some []
  | a :: c :: r => do
    let x ← hexVal a; let y ← hexVal c; let t ← unhexL r; pure ((x * 16 + y) :: t)
  | _ => none

def unhex (s : String) : Option Bytes := unhexL s.toList

/-! ### decimal printing of integers as bytes (`strconv.Itoa`) -/

def natDigits (n : Nat) : Bytes := (toString n).toUTF8.toList

def intToBytes (i : Int) : Bytes :=
  if i < 0 then 45 :: natDigits i.natAbs else natDigits i.natAbs

end Twig
