/-
  TwigModel.Conc — the concurrency model behind property C02
  ("concurrent use of one configured engine is safe and equals serial use").

  STRENGTH: PARTIAL.  A Lean model cannot exhibit the Go memory model, the runtime's race and
  `concurrent map writes` detectors, or the internals of `sync.Pool`.  What this module carries is
    (1) the *lockset discipline* of the code, read off the Go sources by the extractor
        (`TwigGen.Shared`: every access of a shared location with the mutex held), and
    (2) the *schedule independence of the bookkeeping logic* (template cache, relative names),
        as a hand transliteration of `Engine.Load` / `RegisterString` / `Render`.
  Both are executed over arbitrary interleavings (`Schedule`), and the theorems in
  `TwigProofs/C02.lean` quantify over every schedule.

  Part 1 (namespace `Twig.Conc`): threads are lists of atomic actions *generated from the facts*:
  lock/unlock of a mutex in R or W mode, read/write of a shared location, get/put of the pooled
  tokenizer with ownership, access to the pooled object.  `exec` interleaves them; `hasRace` is the
  lockset definition of a race (plus ownership hand-off for the pooled object).

  Part 2 (namespace `Twig.Conc.Sem`): the semantic model.  Template names and sources are numbers,
  the loader is a static function, the cache is a partial map, a call is a resumption that asks
  for templates by name.  Micro-steps are the critical sections of the Go code.
-/
namespace Twig.Conc

/-! ## Part 1 — facts, actions, interleaving, lockset races -/

/-- One access of a shared location, as emitted by the extractor. `lock = 0` / `mode = 0`: no mutex
    held; `mode = 1`: read lock; `mode = 2`: write lock (a plain `sync.Mutex` counts as write). -/
structure Row where
  fn : Nat
  ord : Nat
  loc : Nat
  write : Bool
  lock : Nat
  mode : Nat
  region : Nat
  conc : Bool
  deriving DecidableEq, Repr

/-- The five concurrent entry points, in the order the extractor lists them. -/
inductive Entry where
  | render | renderTo | load | parseTemplate | registerString
  deriving DecidableEq, Repr

def Entry.idx : Entry → Nat
  | .render => 0 | .renderTo => 1 | .load => 2 | .parseTemplate => 3 | .registerString => 4

def entryNames : List String :=
  ["Engine.Render", "Engine.RenderTo", "Engine.Load", "Engine.ParseTemplate", "Engine.RegisterString"]

/-- The facts the model is parameterised by (see `Facts.ofRaw` for how the generated tables map here). -/
structure Facts where
  rows : List Row
  /-- number of locations: location ids are `0 … nLocs-1` -/
  nLocs : Nat
  /-- locations that are fields of the pooled tokenizer (exclusive ownership between Get and Put) -/
  perCall : List Nat
  /-- for each entry point (by `Entry.idx`): the functions with rows reachable from it -/
  reach : List (List Nat)
  /-- for each entry point: can it reach `Parser.Parse` -/
  parseReach : List Bool
  entryNamesOk : Bool
  parseStepFound : Bool
  /-- `p.tokens` is the result of a method of the pooled tokenizer (aliases its buffer) -/
  tokensFromPooled : Bool
  /-- `ReleaseTokenizer` is a plain statement placed before the step that reads the tokens -/
  releaseBeforeRead : Bool
  /-- the parse function also hands something to a pool it did not take an object from -/
  foreignRelease : Bool
  /-- a relative template name takes its base from a field of `Engine` -/
  relFromEngine : Bool
  relUnknown : Bool
  /-- `Engine.Render` / `Engine.RenderTo` assign an engine field -/
  renderWritesEngine : Bool
  /-- the cache fill of `Engine.Load` re-reads the cache under the write lock -/
  loadRechecks : Bool
  unrecognised : Nat
  deriving Repr

abbrev RawRow := Nat × Nat × Nat × Bool × Nat × Nat × Nat × Bool

def Row.ofRaw : RawRow → Row
  | (fn, ord, loc, w, lock, mode, region, conc) => ⟨fn, ord, loc, w, lock, mode, region, conc⟩

/-- Build `Facts` from the plain tables of `TwigGen.Shared`. -/
def Facts.ofRaw
    (accesses : List RawRow)
    (locations : List (Nat × String × String × Nat × String))
    (entryReach : List (String × List Nat))
    (parseReachableFrom : List Bool)
    (parseStep : String) (parseGets : List String) (tokensFromPooled : Bool)
    (parseReleases : List (String × String × Bool × Bool))
    (renderEngineWrites : List String)
    (relativeNameSources : List (String × String × String))
    (loadRechecks : Bool) (unrecognised : List String) : Facts where
  rows := accesses.map Row.ofRaw
  nLocs := locations.length
  perCall := locations.filterMap fun (id, _, _, _, pool) => if pool != "" then some id else none
  reach := entryReach.map (·.2)
  parseReach := parseReachableFrom
  entryNamesOk := entryReach.map (·.1) == entryNames
  parseStepFound := parseStep != ""
  tokensFromPooled := tokensFromPooled
  releaseBeforeRead := parseReleases.any fun (pool, _, deferred, before) => before && !deferred && parseGets.contains pool
  foreignRelease := parseReleases.any fun (pool, _, _, _) => !parseGets.contains pool
  relFromEngine := relativeNameSources.any fun (_, kind, _) => kind == "engine"
  relUnknown := relativeNameSources.any fun (_, kind, _) => kind != "engine" && kind != "ctx"
  renderWritesEngine := !renderEngineWrites.isEmpty
  loadRechecks := loadRechecks
  unrecognised := unrecognised.length

/-- functions (with rows) reachable from entry point `e` -/
def Facts.reachOf (F : Facts) (e : Entry) : List Nat := F.reach.getD e.idx []

def Facts.parseReachOf (F : Facts) (e : Entry) : Bool := F.parseReach.getD e.idx false

/-- rows of functions reachable from some entry point: the accesses that can run concurrently
    (configuration methods are not among them: the property starts "once an engine is configured") -/
def Facts.concRows (F : Facts) : List Row := F.rows.filter fun r => F.reach.any (·.contains r.fn)

def Facts.isPerCall (F : Facts) (l : Nat) : Bool := F.perCall.contains l

/-- rows of the shared (not per-call) location `l` that can run concurrently -/
def Facts.rowsAt (F : Facts) (l : Nat) : List Row := F.concRows.filter fun r => r.loc == l && !F.isPerCall r.loc

/-- `m` is held at every row, in write mode at every write -/
def lockedBy (m : Nat) (rows : List Row) : Bool :=
  m != 0 && rows.all fun r => r.lock == m && r.mode != 0 && (!r.write || r.mode == 2)

/-- A shared location is fine when nothing concurrent writes it (read-only or written by configuration
    only) or all its concurrent accesses hold one mutex, the writes in write mode. -/
def Facts.locOk (F : Facts) (l : Nat) : Bool :=
  let rows := F.rowsAt l
  rows.all (fun r => !r.write) ||
  match rows with
  | [] => true
  | r :: _ => lockedBy r.lock rows

/-- The pooled tokenizer is not reachable by two goroutines: it goes back to the pool only after the
    last read of the token list that aliases its buffer, and nothing else is put into a pool. -/
def Facts.poolOk (F : Facts) : Bool :=
  F.parseStepFound && !(F.tokensFromPooled && F.releaseBeforeRead) && !F.foreignRelease

/-- `Shared.ok`: the obligation on the generated facts. -/
def Shared.ok (F : Facts) : Bool :=
  F.unrecognised == 0 && F.entryNamesOk &&
  F.concRows.all (fun r => r.loc < F.nLocs) &&
  (List.range F.nLocs).all F.locOk &&
  F.poolOk &&
  !F.relFromEngine && !F.relUnknown && !F.renderWritesEngine

/-- Atomic actions of a thread. -/
inductive Action where
  | lock (m : Nat) (w : Bool)
  | unlock (m : Nat)
  | access (loc : Nat) (write : Bool)
  /-- take a tokenizer from the pool -/
  | get
  /-- hand it back -/
  | put
  /-- touch the pooled tokenizer (or the token buffer that aliases it) last taken -/
  | obj (write : Bool)
  deriving DecidableEq, Repr

/-- actions of one row: the access bracketed by the mutex the code holds there -/
def rowActs (r : Row) : List Action :=
  if r.mode == 0 then [.access r.loc r.write]
  else [.lock r.lock (r.mode == 2), .access r.loc r.write, .unlock r.lock]

/-- the parse block of a call: `GetTokenizer`, tokenizing (all per-call rows), then — in the order
    the facts report — reading the tokens and `ReleaseTokenizer`. -/
def parseActs (F : Facts) (pc : List Row) : List Action :=
  [.get, .obj true] ++ pc.map (fun r => .obj r.write) ++
    (if F.tokensFromPooled then
       (if F.releaseBeforeRead then [.put, .obj false] else [.obj false, .put])
     else [.put])

/-- The action list of one API call: every shared access of every function it can reach, then the
    parse block when it can reach the parser.  (An over-approximation of every path through the call:
    for the lockset criterion only the set of (location, kind, lockset) triples matters.) -/
def threadOf (F : Facts) (e : Entry) : List Action :=
  let rows := F.rows.filter fun r => (F.reachOf e).contains r.fn
  (rows.filter fun r => !F.isPerCall r.loc).flatMap rowActs ++
    (if F.parseReachOf e then parseActs F (rows.filter fun r => F.isPerCall r.loc) else [])

/-- A location of the dynamic model. -/
inductive Loc where
  | shared (id : Nat)
  | obj (id : Nat)
  deriving DecidableEq, Repr

/-- One access in an execution. `locks`: mutexes held with `true` = write mode.  For pooled objects:
    `owned` = the thread held the object (between its get and put), `epoch` = time of the get. -/
structure Event where
  tid : Nat
  loc : Loc
  write : Bool
  locks : List (Nat × Bool)
  owned : Bool
  epoch : Nat
  deriving DecidableEq, Repr

structure Thread where
  todo : List Action
  held : List (Nat × Bool) := []
  owns : Bool := false
  /-- the object last taken and the epoch of that get; kept after `put` (the dangling alias) -/
  objId : Nat := 0
  epoch : Nat := 0
  deriving Repr

structure State where
  n : Nat
  threads : Nat → Thread
  /-- free objects of the pool, most recently put first -/
  free : List Nat := []
  nextObj : Nat := 1
  clock : Nat := 0
  /-- most recent event first -/
  trace : List Event := []

def eraseLock (m : Nat) : List (Nat × Bool) → List (Nat × Bool)
  | [] => []
  | (m', w) :: rest => if m' == m then rest else (m', w) :: eraseLock m rest

/-- can a thread acquire `m` in mode `w` while another thread holds `held`? -/
def compatible (held : List (Nat × Bool)) (m : Nat) (w : Bool) : Bool :=
  held.all fun (m', w') => m' != m || (!w && !w')

def State.canLock (st : State) (tid m : Nat) (w : Bool) : Bool :=
  (List.range st.n).all fun j => j == tid || compatible (st.threads j).held m w

def State.upd (st : State) (tid : Nat) (t : Thread) : Nat → Thread :=
  fun j => if j == tid then t else st.threads j

/-- A schedule: which thread moves next, and — when that move is a pool get — whether the pool hands
    out a used object (if it has one) or a fresh one (`sync.Pool` may do either). -/
abbrev Schedule := List (Nat × Bool)

def step (st : State) (mv : Nat × Bool) : State :=
  let tid := mv.1
  let t := st.threads tid
  match t.todo with
  | [] => st
  | a :: rest =>
    match a with
    | .lock m w =>
      if st.canLock tid m w then
        { st with threads := st.upd tid { t with todo := rest, held := (m, w) :: t.held } }
      else st
    | .unlock m =>
      { st with threads := st.upd tid { t with todo := rest, held := eraseLock m t.held } }
    | .access l w =>
      { st with threads := st.upd tid { t with todo := rest },
                trace := ⟨tid, .shared l, w, t.held, true, 0⟩ :: st.trace }
    | .get =>
      match mv.2, st.free with
      | true, o :: free' =>
        { st with threads := st.upd tid { t with todo := rest, owns := true, objId := o, epoch := st.clock + 1 },
                  free := free', clock := st.clock + 1 }
      | _, _ =>
        { st with threads := st.upd tid { t with todo := rest, owns := true, objId := st.nextObj, epoch := st.clock + 1 },
                  nextObj := st.nextObj + 1, clock := st.clock + 1 }
    | .put =>
      if t.owns then
        { st with threads := st.upd tid { t with todo := rest, owns := false }, free := t.objId :: st.free }
      else
        { st with threads := st.upd tid { t with todo := rest } }
    | .obj w =>
      { st with threads := st.upd tid { t with todo := rest },
                trace := ⟨tid, .obj t.objId, w, t.held, t.owns, t.epoch⟩ :: st.trace }

def initState (F : Facts) (calls : List Entry) : State where
  n := calls.length
  threads := fun i => match calls[i]? with
    | some e => { todo := threadOf F e }
    | none => { todo := [] }

def exec (F : Facts) (calls : List Entry) (sched : Schedule) : State :=
  sched.foldl step (initState F calls)

/-- a common mutex held in conflicting modes (two read locks of an RWMutex do not conflict) -/
def commonLock (l1 l2 : List (Nat × Bool)) : Bool :=
  l1.any fun (m1, w1) => l2.any fun (m2, w2) => m1 == m2 && (w1 || w2)

/-- Two accesses race: different threads, same location, at least one a write, and
    * shared location: no common mutex held in a conflicting mode (lockset discipline);
    * pooled object: not ordered by ownership hand-off — the access of the earlier owner happened
      after it had put the object back (so it is unordered with everything the later owner does). -/
def conflict (e1 e2 : Event) : Bool :=
  e1.tid != e2.tid && e1.loc == e2.loc && (e1.write || e2.write) &&
  match e1.loc with
  | .shared _ => !commonLock e1.locks e2.locks
  | .obj _ => (!e1.owned && e1.epoch < e2.epoch) || (!e2.owned && e2.epoch < e1.epoch)

def hasRaceB (tr : List Event) : Bool := tr.any fun e1 => tr.any fun e2 => conflict e1 e2

def hasRace (st : State) : Prop := hasRaceB st.trace = true

instance (st : State) : Decidable (hasRace st) := inferInstanceAs (Decidable (_ = true))

/-- Static view of a thread: the events its action list can produce, with the lockset and the
    ownership flag computed from its own earlier actions only. -/
structure SEvent where
  loc : Option Nat      -- `some l` shared location, `none` the pooled object
  write : Bool
  locks : List (Nat × Bool)
  owned : Bool
  deriving DecidableEq, Repr

def sevs : List (Nat × Bool) → Bool → List Action → List SEvent
  | _, _, [] => []
  | h, o, .lock m w :: as => sevs ((m, w) :: h) o as
  | h, o, .unlock m :: as => sevs (eraseLock m h) o as
  | h, o, .access l w :: as => ⟨some l, w, h, true⟩ :: sevs h o as
  | h, _, .get :: as => sevs h true as
  | h, _, .put :: as => sevs h false as
  | h, o, .obj w :: as => ⟨none, w, h, o⟩ :: sevs h o as

def Event.static (e : Event) : SEvent :=
  match e.loc with
  | .shared l => ⟨some l, e.write, e.locks, e.owned⟩
  | .obj _ => ⟨none, e.write, e.locks, e.owned⟩

/-! ### The pinned tree, reduced to the rows that matter (regression copy of the emitter's output on
    the pinned snapshot; location ids: 0 = Engine.currentTemplate, 1 = Engine.templates,
    2 = FileSystemLoader.templatePaths; functions: 0 = Engine.Render, 1 = Engine.Load,
    2 = IncludeNode.Render, 3 = FileSystemLoader.Load; mutex 1 = Engine.mu). -/
def pinnedFacts : Facts where
  rows := [
    ⟨0, 0, 0, false, 0, 0, 0, true⟩,   -- Engine.Render  read  Engine.currentTemplate [no lock]
    ⟨0, 1, 0, true,  0, 0, 0, true⟩,   -- Engine.Render  write Engine.currentTemplate [no lock]
    ⟨0, 2, 0, true,  0, 0, 0, true⟩,   -- Engine.Render  write Engine.currentTemplate [no lock] (deferred restore)
    ⟨1, 0, 1, false, 1, 1, 1, true⟩,   -- Engine.Load    read  Engine.templates [Engine.mu R]
    ⟨1, 1, 1, true,  1, 2, 2, true⟩,   -- Engine.Load    write Engine.templates [Engine.mu W]
    ⟨2, 0, 0, false, 0, 0, 0, true⟩,   -- IncludeNode.Render read Engine.currentTemplate [no lock]
    ⟨3, 0, 2, false, 0, 0, 0, true⟩,   -- FileSystemLoader.Load read  templatePaths [no lock]
    ⟨3, 1, 2, true,  0, 0, 0, true⟩ ]  -- FileSystemLoader.Load write templatePaths [no lock]
  nLocs := 3
  perCall := []
  reach := [[0, 1, 2, 3], [0, 1, 2, 3], [1, 3], [], []]
  parseReach := [true, true, true, true, true]
  entryNamesOk := true
  parseStepFound := true
  tokensFromPooled := true
  releaseBeforeRead := true
  foreignRelease := true
  relFromEngine := true
  relUnknown := false
  renderWritesEngine := true
  loadRechecks := false
  unrecognised := 0

/-- The same rows after the repair series (what the emitter reports for the fixed tree, reduced the
    same way): used for non-vacuity examples. -/
def fixedFactsSmall : Facts where
  rows := [
    ⟨1, 0, 1, false, 1, 1, 1, true⟩,   -- Engine.Load read  Engine.templates [Engine.mu R]
    ⟨1, 1, 1, true,  1, 2, 2, true⟩,   -- Engine.Load write Engine.templates [Engine.mu W]
    ⟨4, 0, 1, true,  1, 2, 1, true⟩,   -- Engine.RegisterString write Engine.templates [Engine.mu W]
    ⟨3, 0, 2, false, 2, 2, 1, true⟩,   -- FileSystemLoader.Load read  templatePaths [pathsMu]
    ⟨3, 1, 2, true,  2, 2, 1, true⟩,   -- FileSystemLoader.Load write templatePaths [pathsMu]
    ⟨5, 0, 3, true,  0, 0, 0, true⟩ ]  -- ZeroAllocTokenizer.GetStringConstant write tempStrings (per call)
  nLocs := 4
  perCall := [3]
  reach := [[1, 3, 5], [1, 3, 5], [1, 3, 5], [5], [4, 5]]
  parseReach := [true, true, true, true, true]
  entryNamesOk := true
  parseStepFound := true
  tokensFromPooled := true
  releaseBeforeRead := false
  foreignRelease := false
  relFromEngine := false
  relUnknown := false
  renderWritesEngine := false
  loadRechecks := false
  unrecognised := 0

/-! ## Part 2 — the semantic model: cache bookkeeping and relative names -/
namespace Sem

/-- A template: its source (a number stands for the text) and whether it was registered
    (`loader == nil` in Go) or came from a loader. -/
structure Tpl where
  src : Nat
  reg : Bool
  deriving DecidableEq, Repr

abbrev Cache := Nat → Option Tpl

structure Cfg where
  /-- static loader contents: name → source ("loaders static") -/
  loader : Nat → Option Nat
  /-- `environment.cache` -/
  cacheOn : Bool
  /-- resolution of a relative reference against a base template name (`filepath.Join(Dir(base), ref)`) -/
  join : Nat → Nat → Nat
  /-- FACT: the base name is read from an engine-wide field (pinned tree) instead of the render context -/
  relFromEngine : Bool := false
  /-- FACT: `Engine.Load` re-checks the cache under the write lock before filling (not in the code today) -/
  recheck : Bool := false

def Cfg.loaderTpl (cfg : Cfg) (n : Nat) : Option Tpl := (cfg.loader n).map fun s => ⟨s, false⟩

/-- is the cache entry served? (`ok && (e.environment.cache || tmpl.loader == nil)`) -/
def Cfg.hit (cfg : Cfg) : Option Tpl → Bool
  | some t => cfg.cacheOn || t.reg
  | none => false

/-- What `Engine.Load(n)` returns when it reads the cache in state `c`: the served entry, else the
    loader's template.  (Auto-reload does not change this while the loaders are static: the
    modification time it compares is the one recorded at load.) -/
def Cfg.resolve (cfg : Cfg) (c : Cache) (n : Nat) : Option Tpl :=
  if cfg.hit (c n) then c n else cfg.loaderTpl n

/-- A call as a resumption: it finishes with an output, or asks the engine for a template by
    absolute name, or by a name relative to the template it is rendering. The continuation receives
    what `Load` returned (`none` = not found). Includes, extends, imports are such requests. -/
inductive Prog where
  | done (out : Nat)
  | needs (n : Nat) (k : Option Tpl → Prog)
  | needsRel (r : Nat) (k : Option Tpl → Prog)

/-- An API call. `run base isRender p`: Load / Render / RenderTo / ParseTemplate — `base` is the
    name the call was started with, `isRender` whether it is Render/RenderTo.
    `register n src`: RegisterString. -/
inductive Call where
  | run (base : Nat) (isRender : Bool) (p : Prog)
  | register (n : Nat) (src : Nat)

inductive Phase where
  /-- not started (pinned: the first step of a render writes the engine-wide name) -/
  | start (p : Prog)
  | ready (p : Prog)
  /-- `Load` missed, has loaded and parsed `t`, and is about to store it under the write lock -/
  | fill (n : Nat) (t : Tpl) (k : Option Tpl → Prog)
  /-- `RegisterString` has parsed and is about to store under the write lock -/
  | regWrite (n : Nat) (src : Nat)
  | finished (out : Nat)
  | idle

structure Thread where
  base : Nat := 0
  isRender : Bool := false
  /-- pinned: the engine-wide name saved at the start of the render, restored at its end -/
  prev : Nat := 0
  phase : Phase := .idle

structure State where
  cache : Cache
  /-- pinned: `Engine.currentTemplate` -/
  cur : Nat := 0
  threads : Nat → Thread
  /-- every resolution of a relative name: (thread, reference, resolved name) -/
  rel : List (Nat × Nat × Nat) := []

def upd (ths : Nat → Thread) (i : Nat) (t : Thread) : Nat → Thread :=
  fun j => if j = i then t else ths j

def setCache (c : Cache) (n : Nat) (t : Tpl) : Cache := fun m => if m = n then some t else c m

/-- One atomic step of thread `i`. Each case is one critical section (or one unsynchronised access)
    of the Go code:
    * `ready (needs n k)`: `e.mu.RLock(); tmpl, ok := e.templates[n]; e.mu.RUnlock()` and the local
      work that follows (loader, parser) — local work commutes with everything;
    * `fill`: `e.mu.Lock(); e.templates[n] = template; e.mu.Unlock()`;
    * `regWrite`: the same store in `RegisterString`. -/
def step (cfg : Cfg) (st : State) (i : Nat) : State :=
  let t := st.threads i
  match t.phase with
  | .start p =>
    if cfg.relFromEngine && t.isRender then
      { st with cur := t.base, threads := upd st.threads i { t with prev := st.cur, phase := .ready p } }
    else
      { st with threads := upd st.threads i { t with phase := .ready p } }
  | .ready (.done o) =>
    if cfg.relFromEngine && t.isRender then
      { st with cur := t.prev, threads := upd st.threads i { t with phase := .finished o } }
    else
      { st with threads := upd st.threads i { t with phase := .finished o } }
  | .ready (.needs n k) =>
    let r := cfg.resolve st.cache n
    if cfg.hit (st.cache n) then
      { st with threads := upd st.threads i { t with phase := .ready (k r) } }
    else
      match r with
      | some tpl =>
        if cfg.cacheOn then
          { st with threads := upd st.threads i { t with phase := .fill n tpl k } }
        else
          { st with threads := upd st.threads i { t with phase := .ready (k r) } }
      | none => { st with threads := upd st.threads i { t with phase := .ready (k r) } }
  | .ready (.needsRel r k) =>
    let b := if cfg.relFromEngine then st.cur else t.base
    { st with threads := upd st.threads i { t with phase := .ready (.needs (cfg.join b r) k) },
              rel := (i, r, cfg.join b r) :: st.rel }
  | .fill n tpl k =>
    match cfg.recheck, st.cache n with
    | true, some c =>
      if c.reg then
        { st with threads := upd st.threads i { t with phase := .ready (k (some c)) } }
      else
        { st with cache := setCache st.cache n tpl,
                  threads := upd st.threads i { t with phase := .ready (k (some tpl)) } }
    | _, _ =>
      { st with cache := setCache st.cache n tpl,
                threads := upd st.threads i { t with phase := .ready (k (some tpl)) } }
  | .regWrite n s =>
    { st with cache := setCache st.cache n ⟨s, true⟩,
              threads := upd st.threads i { t with phase := .finished 0 } }
  | .finished _ => st
  | .idle => st

def initThread : Call → Thread
  | .run b r p => { base := b, isRender := r, phase := .start p }
  | .register n s => { phase := .regWrite n s }

def initState (c0 : Cache) (calls : List Call) : State where
  cache := c0
  threads := fun i => match calls[i]? with
    | some c => initThread c
    | none => {}

def exec (cfg : Cfg) (c0 : Cache) (calls : List Call) (sched : List Nat) : State :=
  sched.foldl (step cfg) (initState c0 calls)

/-- the value call `i` returned, if it has returned -/
def result (st : State) (i : Nat) : Option Nat :=
  match (st.threads i).phase with
  | .finished o => some o
  | _ => none

/-- The output of a call executed atomically on the cache `c0`: every request is answered by what
    `Load` returns on `c0` (a load's own cache fills do not change what later loads return). -/
def specOut (cfg : Cfg) (c0 : Cache) (base : Nat) : Prog → Nat
  | .done o => o
  | .needs n k => specOut cfg c0 base (k (cfg.resolve c0 n))
  | .needsRel r k => specOut cfg c0 base (k (cfg.resolve c0 (cfg.join base r)))

/-- what a call returns when it runs alone on the configured engine -/
def resultAlone (cfg : Cfg) (c0 : Cache) : Call → Nat
  | .run b _ p => specOut cfg c0 b p
  | .register _ _ => 0

/-- names registered by the concurrent calls -/
def regNames : List Call → List Nat
  | [] => []
  | .register n _ :: cs => n :: regNames cs
  | .run _ _ _ :: cs => regNames cs

/-- `p` never asks for a name in `R` (along the path it takes on `c0`) -/
def avoids (cfg : Cfg) (c0 : Cache) (R : List Nat) (base : Nat) : Prog → Bool
  | .done _ => true
  | .needs n k => !R.contains n && avoids cfg c0 R base (k (cfg.resolve c0 n))
  | .needsRel r k =>
    !R.contains (cfg.join base r) && avoids cfg c0 R base (k (cfg.resolve c0 (cfg.join base r)))

/-- The workload of the property: no call asks for a name that another call registers at the same
    time ("RegisterString of distinct fresh names"). -/
def noConcurrentRegistrationOfRequestedName (cfg : Cfg) (c0 : Cache) (calls : List Call) : Bool :=
  calls.all fun
    | .run b _ p => avoids cfg c0 (regNames calls) b p
    | .register _ _ => true

/-! ### Real-time order and linearizability (used for the lost-update witness) -/

def firstIdx (sched : List Nat) (i : Nat) : Option Nat := sched.findIdx? (· == i)

def lastIdx (sched : List Nat) (i : Nat) : Option Nat :=
  (sched.reverse.findIdx? (· == i)).map fun k => sched.length - 1 - k

/-- call `i` made its last step before call `j` made its first: `i` returned before `j` was invoked -/
def precedes (sched : List Nat) (i j : Nat) : Bool :=
  match lastIdx sched i, firstIdx sched j with
  | some a, some b => a < b
  | _, _ => false

def posIn (order : List Nat) (i : Nat) : Nat := (order.findIdx? (· == i)).getD order.length

/-- `order` keeps every real-time precedence of the schedule -/
def respects (sched : List Nat) (n : Nat) (order : List Nat) : Bool :=
  (List.range n).all fun i => (List.range n).all fun j =>
    !precedes sched i j || posIn order i < posIn order j

/-- run the calls one after another in `order`, `fuel` steps each (small-step serial schedule) -/
def serialSched (order : List Nat) (fuel : Nat) : List Nat := order.flatMap fun i => List.replicate fuel i

def results (st : State) (n : Nat) : List (Option Nat) := (List.range n).map (result st)

/-- One call executed atomically ("the calls ran one after another"): big-step version of `step`,
    threading the cache. A miss with caching on stores what was loaded. -/
def runProg (cfg : Cfg) (base : Nat) : Prog → Cache → Nat × Cache
  | .done o, c => (o, c)
  | .needs n k, c =>
    let r := cfg.resolve c n
    match cfg.hit (c n), cfg.cacheOn, r with
    | false, true, some t => runProg cfg base (k r) (setCache c n t)
    | _, _, _ => runProg cfg base (k r) c
  | .needsRel ref k, c =>
    let n := cfg.join base ref
    let r := cfg.resolve c n
    match cfg.hit (c n), cfg.cacheOn, r with
    | false, true, some t => runProg cfg base (k r) (setCache c n t)
    | _, _, _ => runProg cfg base (k r) c

def runCall (cfg : Cfg) : Call → Cache → Nat × Cache
  | .run b _ p, c => runProg cfg b p c
  | .register n s, c => (0, setCache c n ⟨s, true⟩)

/-- serial execution in the given order: (call index, value returned) -/
def serialRun (cfg : Cfg) (calls : List Call) : Cache → List Nat → List (Nat × Nat)
  | _, [] => []
  | c, i :: rest =>
    match calls[i]? with
    | some call => (i, (runCall cfg call c).1) :: serialRun cfg calls (runCall cfg call c).2 rest
    | none => serialRun cfg calls c rest

/-- all permutations of a list (small lists only) -/
def perms : List Nat → List (List Nat)
  | [] => [[]]
  | x :: xs => (perms xs).flatMap fun p => (List.range (p.length + 1)).map fun k => p.take k ++ x :: p.drop k

/-- Is there a serial order, consistent with real time, in which every call returns what it returned
    in the concurrent execution `sched`? -/
def linearizableB (cfg : Cfg) (c0 : Cache) (calls : List Call) (sched : List Nat) : Bool :=
  let n := calls.length
  let st := exec cfg c0 calls sched
  (perms (List.range n)).any fun order =>
    respects sched n order &&
      (serialRun cfg calls c0 order).all fun (i, o) => result st i == some o

/-- output code of a loaded template: 0 = not found, otherwise the source number -/
def code : Option Tpl → Nat
  | none => 0
  | some t => t.src

/-- `Engine.Load(n)` / `Engine.Render(n, _)` of a template without includes -/
def loadCall (n : Nat) : Call := .run n false (.needs n fun t => .done (code t))
def renderCall (n : Nat) : Call := .run n true (.needs n fun t => .done (code t))

/-- a render of template `n` (in "directory" `n`) that includes `./r` -/
def renderRelCall (n r : Nat) : Call :=
  .run n true (.needs n fun _ => .needsRel r fun t => .done (code t))

end Sem
end Twig.Conc
