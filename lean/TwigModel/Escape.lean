/-
  TwigModel.Escape — the two HTML escaping routines of twig and independent decoders for them.

  Go ↔ Lean
    extension.go  filterEscape → escapeHTML → html.EscapeString     ↔ `escReg`      (byte-wise, table `escTable`)
    render_filter.go ApplyFilter, `case "e", "escape"` (fallback)    ↔ `escFallback` (rune-wise, table `fbTable`)
    the registration table of CoreExtension.GetFilters               ↔ `escapeNames`
    ApplyFilter's dispatch (environment first, then the fallback)    ↔ `applyFilter`

  `unescape5` / `unescapeFb` are *independent* decoders of exactly the five references each routine emits
  (they are specifications, not transliterations of Go code; on the Go side the harness uses
  html.UnescapeString as the independent decoder).

  Trusted about the Go standard library: html.EscapeString is the byte-wise replacer given by `escTable`
  (checked exhaustively by the harness on all byte pairs), and, for the fallback only, that
  `for _, c := range s` / `WriteRune(c)` copy a valid UTF-8 sequence unchanged and turn every byte that does not
  start one into U+FFFD (`runeLen` is a transliteration of utf8.DecodeRuneInString's acceptance test; the
  harness compares `escFallback` with the real loop on all byte pairs, every code point and random bytes).
  Core Lean only.
-/
import TwigModel.Basic
namespace Twig.Escape

/-! ### the registered filter: html.EscapeString -/

def rAmp  : Bytes := [38, 97, 109, 112, 59]        -- &amp;
def rApos : Bytes := [38, 35, 51, 57, 59]          -- &#39;
def rLt   : Bytes := [38, 108, 116, 59]            -- &lt;
def rGt   : Bytes := [38, 103, 116, 59]            -- &gt;
def rQuot : Bytes := [38, 35, 51, 52, 59]          -- &#34;

-- FACT: html/escape.go `htmlEscaper = strings.NewReplacer("&","&amp;", "'","&#39;", "<","&lt;", ">","&gt;", `"`,"&#34;")`
def escTable : List (UInt8 × Bytes) :=
  [(38, rAmp), (39, rApos), (60, rLt), (62, rGt), (34, rQuot)]

def special (b : UInt8) : Bool := b == 38 || b == 39 || b == 60 || b == 62 || b == 34

def escByteWith (table : List (UInt8 × Bytes)) (b : UInt8) : Bytes :=
  match table.lookup b with
  | some r => r
  | none => [b]

def escByte (b : UInt8) : Bytes := escByteWith escTable b

/-- `html.EscapeString` on the bytes of a Go string (any bytes, valid UTF-8 or not) -/
def escReg (s : Bytes) : Bytes := s.flatMap escByte

/-- independent decoder of exactly the five references `escReg` emits; everything else is copied -/
def unescape5 : Bytes → Bytes
  | [] => []
  | b :: r =>
    if b == 38 then
      if rAmp.tail.isPrefixOf r then 38 :: unescape5 (r.drop 4)
      else if rApos.tail.isPrefixOf r then 39 :: unescape5 (r.drop 4)
      else if rLt.tail.isPrefixOf r then 60 :: unescape5 (r.drop 3)
      else if rGt.tail.isPrefixOf r then 62 :: unescape5 (r.drop 3)
      else if rQuot.tail.isPrefixOf r then 34 :: unescape5 (r.drop 4)
      else b :: unescape5 r
    else b :: unescape5 r
termination_by l => l.length
decreasing_by all_goals (simp only [List.length_drop, List.length_cons]; omega)

/-! ### the built-in fallback of ApplyFilter (used when the name is not found in the environment) -/

def rQuotFb : Bytes := [38, 113, 117, 111, 116, 59]  -- &quot;

-- FACT: render_filter.go ApplyFilter `case "e", "escape"`: '&'→"&amp;" '<'→"&lt;" '>'→"&gt;" '"'→"&quot;" '\''→"&#39;"
def fbTable : List (UInt8 × Bytes) :=
  [(38, rAmp), (60, rLt), (62, rGt), (34, rQuotFb), (39, rApos)]

def escByteFb (b : UInt8) : Bytes := escByteWith fbTable b

def isCont (b : UInt8) : Bool := 0x80 ≤ b && b ≤ 0xBF

/-- utf8.first / utf8.acceptRanges: size of the sequence a lead byte announces and the range its second byte
    must lie in; `none` for bytes that cannot start a multi-byte sequence (0x80–0xC1, 0xF5–0xFF) -/
def leadInfo (b0 : UInt8) : Option (Nat × UInt8 × UInt8) :=
  if 0xC2 ≤ b0 && b0 ≤ 0xDF then some (2, 0x80, 0xBF)
  else if b0 == 0xE0 then some (3, 0xA0, 0xBF)
  else if (0xE1 ≤ b0 && b0 ≤ 0xEC) || b0 == 0xEE || b0 == 0xEF then some (3, 0x80, 0xBF)
  else if b0 == 0xED then some (3, 0x80, 0x9F)
  else if b0 == 0xF0 then some (4, 0x90, 0xBF)
  else if 0xF1 ≤ b0 && b0 ≤ 0xF3 then some (4, 0x80, 0xBF)
  else if b0 == 0xF4 then some (4, 0x80, 0x8F)
  else none

/-- utf8.DecodeRuneInString's acceptance test: `some n` = the input starts with a valid encoding of n bytes,
    `none` = it does not (Go then yields U+FFFD and advances by ONE byte). -/
def runeLen : Bytes → Option Nat
  | [] => none
  | b0 :: r =>
    if b0 < 0x80 then some 1 else
    match leadInfo b0 with
    | none => none
    | some (sz, lo, hi) =>
      match r with
      | [] => none
      | b1 :: r1 =>
        if !(lo ≤ b1 && b1 ≤ hi) then none
        else if sz == 2 then some 2
        else match r1 with
          | [] => none
          | b2 :: r2 =>
            if !isCont b2 then none
            else if sz == 3 then some 3
            else match r2 with
              | [] => none
              | b3 :: _ => if isCont b3 then some 4 else none

def replacement : Bytes := [0xEF, 0xBF, 0xBD]   -- U+FFFD

/-- the loop `for _, c := range str { switch c { …entities… default: b.WriteRune(c) } }`.
    The first argument counts the bytes of an already accepted multi-byte sequence that remain to be copied. -/
def fbGo : Nat → Bytes → Bytes
  | _, [] => []
  | k + 1, b :: r => b :: fbGo k r
  | 0, b :: r =>
    match runeLen (b :: r) with
    | none => replacement ++ fbGo 0 r
    | some n => if n == 1 then escByteFb b ++ fbGo 0 r else b :: fbGo (n - 1) r

def escFallback (s : Bytes) : Bytes := fbGo 0 s

/-- valid UTF-8 in Go's sense: the range loop never produces a decoding error -/
def validGo : Nat → Bytes → Bool
  | _, [] => true
  | k + 1, _ :: r => validGo k r
  | 0, b :: r =>
    match runeLen (b :: r) with
    | none => false
    | some n => validGo (n - 1) r

def validUtf8 (s : Bytes) : Bool := validGo 0 s

/-- independent decoder of the five references the fallback emits -/
def unescapeFb : Bytes → Bytes
  | [] => []
  | b :: r =>
    if b == 38 then
      if rAmp.tail.isPrefixOf r then 38 :: unescapeFb (r.drop 4)
      else if rApos.tail.isPrefixOf r then 39 :: unescapeFb (r.drop 4)
      else if rLt.tail.isPrefixOf r then 60 :: unescapeFb (r.drop 3)
      else if rGt.tail.isPrefixOf r then 62 :: unescapeFb (r.drop 3)
      else if rQuotFb.tail.isPrefixOf r then 34 :: unescapeFb (r.drop 5)
      else b :: unescapeFb r
    else b :: unescapeFb r
termination_by l => l.length
decreasing_by all_goals (simp only [List.length_drop, List.length_cons]; omega)

/-! ### names and dispatch -/

-- FACT: extension.go CoreExtension.GetFilters registers `"escape": e.filterEscape` and `"e": e.filterEscape`
-- (the same method value under both names)
def escapeNames : List String := ["escape", "e"]

-- FACT: render_filter.go ApplyFilter's built-in switch has the single case `case "e", "escape":`
def fallbackNames : List String := ["e", "escape"]

/-- `ApplyFilter(name, s)` restricted to the escape filter: with an environment (every engine made by
    `twig.New()` has one, with CoreExtension registered) the registered function is used; with a nil
    environment (`NewRenderContext(nil, …)`, `LoadFromCompiled(c, nil, nil)`) the built-in fallback.
    `none` = some other filter / "filter not found". -/
def applyFilter (envPresent : Bool) (name : String) (s : Bytes) : Option Bytes :=
  if envPresent && escapeNames.contains name then some (escReg s)
  else if fallbackNames.contains name then some (escFallback s)
  else none

end Twig.Escape
