/-
  TwigModel.ParseExpr — the expression parser of parser.go after the precedence-climbing repair:
  parseExpression / parseBinaryPrec / parseOperand / parseSimpleExpression / parseFilters /
  parseTest / parseConditionalExpression / parseArrayExpression / parseMapExpression, and after the
  repair that lets a subscript bind tighter than a prefix operator (parseSubscript; `-xs[1]` is `-(xs[1])`).

  The Go parser walks an index over the token array; here the parser consumes a token list and
  returns the rest.  All functions are structurally recursive on a fuel argument (call depth);
  `exprFuel` tokens suffices for every token list (each call either consumes a token or is
  followed by one that does) — `.error .fuel` is never produced with that fuel on the inputs of the
  correspondence run (the harness would report it).
-/
import TwigModel.Scan
import TwigModel.Ast
namespace Twig

def perr {α} (msg : String) : R α := .error (.error .parse [] msg)

/-- operator precedence (`getOperatorPrecedence`); 0 = PREC_LOWEST. FACT: tied to TwigGen.Prec. -/
def BinOp.prec : BinOp → Nat
  | .or => 1 | .and => 2
  | .eq | .ne | .lt | .gt | .le | .ge | .in_ | .notIn | .matches_ | .startsWith | .endsWith => 3
  | .add | .sub | .concat => 4
  | .mul | .div | .mod => 5
  | .pow => 6
def precCompare : Nat := 3

def isP (t : Token) (c : UInt8) : Bool := t.kind == PUNCT && t.val == [c]
def isName (t : Token) (s : String) : Bool := t.kind == NAME && t.val == b s

/-- OPERATOR token text → operator (unknown operator characters have PREC_LOWEST and stop the loop) -/
def opOfSymbol (v : Bytes) : Option BinOp :=
  if v == b "==" then some .eq else if v == b "!=" then some .ne
  else if v == b "<" then some .lt else if v == b ">" then some .gt
  else if v == b "<=" then some .le else if v == b ">=" then some .ge
  else if v == b "+" then some .add else if v == b "-" then some .sub
  else if v == b "~" then some .concat else if v == b "*" then some .mul
  else if v == b "/" then some .div else if v == b "%" then some .mod
  else if v == b "^" then some .pow else if v == b "&&" then some .and
  else none

inductive Peek
  | op (o : BinOp) (width : Nat)
  | isT (neg : Bool) (width : Nat)
  | notDefined
  | none

/-- `peekBinaryOperator` -/
def peekBinary (ts : List Token) : Peek :=
  match ts with
  | [] => .none
  | t :: r =>
    if t.kind == OPERATOR then
      match opOfSymbol t.val with
      | some o => .op o 1
      | none => .none
    else if t.kind != NAME then .none
    else
      let next : Bytes := match r with
        | n :: _ => if n.kind == NAME then n.val else []
        | [] => []
      if t.val == b "and" then .op .and 1
      else if t.val == b "or" then .op .or 1
      else if t.val == b "in" then .op .in_ 1
      else if t.val == b "matches" then .op .matches_ 1
      else if t.val == b "not" then
        if next == b "in" then .op .notIn 2 else if next == b "defined" then .notDefined else .none
      else if t.val == b "is" then
        if next == b "not" then .isT true 2 else .isT false 1
      else if t.val == b "starts" then (if next == b "with" then .op .startsWith 2 else .none)
      else if t.val == b "ends" then (if next == b "with" then .op .endsWith 2 else .none)
      else .none

/-- `processEscapeSequences` -/
def unescapeStr : Bytes → Bytes
  | 92 :: c :: r =>
    (if c == 110 then 10 else if c == 114 then 13 else if c == 116 then 9 else c) :: unescapeStr r
  | c :: r => c :: unescapeStr r
  | [] => []

/-- NUMBER token → literal -/
def numLit (v : Bytes) : Expr :=
  let ip := v.takeWhile isDigit
  let rest := v.dropWhile isDigit
  let n : Int := digitsToNat ip
  if n > maxExact then .unsup "integer literal above 2^53"
  else match rest with
    | [] => .int n
    | 46 :: fr => if fr.all (· == 48) then .int n else .unsup "non-integral float literal"
    | _ => .unsup "malformed number"

mutual

def parseExpression : Nat → List Token → R (Expr × List Token)
  | 0, _ => .error .fuel
  | f+1, ts => do
    let (e, r) ← parseBinaryPrec f 1 ts
    match r with
    | t :: r' => if isP t 63 then parseConditional f e r' else pure (e, r)
    | [] => pure (e, r)

/-- after the `?` -/
def parseConditional : Nat → Expr → List Token → R (Expr × List Token)
  | 0, _, _ => .error .fuel
  | f+1, c, ts => do
    let (t, r) ← parseExpression f ts
    match r with
    | col :: r' =>
      if isP col 58 then do
        let (e, r'') ← parseExpression f r'
        pure (.cond c t e, r'')
      else perr "expected ':' after true expression in conditional"
    | [] => perr "expected ':' after true expression in conditional"

def parseBinaryPrec : Nat → Nat → List Token → R (Expr × List Token)
  | 0, _, _ => .error .fuel
  | f+1, minPrec, ts => do
    let (left, r) ← parseOperand f ts
    parseLoop f minPrec left r

/-- the `for { … }` loop of parseBinaryPrec -/
def parseLoop : Nat → Nat → Expr → List Token → R (Expr × List Token)
  | 0, _, _, _ => .error .fuel
  | f+1, minPrec, left, ts =>
    match peekBinary ts with
    | .none => pure (left, ts)
    | .notDefined => parseLoop f minPrec (.unary .not (.test left (b "defined") [])) (ts.drop 2)
    | .isT neg w =>
      if precCompare < minPrec then pure (left, ts)
      else
        let r := ts.drop w
        match r with
        | n :: r' =>
          if n.kind == NAME then do
            let (e, r'') ← parseTest f left neg n.val r'
            parseLoop f minPrec e r''
          else do
            let (right, r'') ← parseBinaryPrec f (precCompare + 1) r
            parseLoop f minPrec (.badBinary left right) r''
        | [] => do
          let (right, r'') ← parseBinaryPrec f (precCompare + 1) r
          parseLoop f minPrec (.badBinary left right) r''
    | .op o w =>
      if o.prec < minPrec then pure (left, ts)
      else do
        let (right, r) ← parseBinaryPrec f (o.prec + 1) (ts.drop w)
        parseLoop f minPrec (.binary o left right) r

/-- `parseTest`: the test name has been consumed -/
def parseTest : Nat → Expr → Bool → Bytes → List Token → R (Expr × List Token)
  | 0, _, _, _, _ => .error .fuel
  | f+1, left, neg, name, ts => do
    let (args, r) ← match ts with
      | t :: r' => if isP t 40 then parseArgs f 41 "expected closing parenthesis after test arguments" r' else pure ([], ts)
      | [] => pure ([], ts)
    let e := Expr.test left name args
    pure (if neg then .unary .not e else e, r)

/-- comma-separated expressions up to the closing punctuation `close` (the opener has been consumed) -/
def parseArgs : Nat → UInt8 → String → List Token → R (List Expr × List Token)
  | 0, _, _, _ => .error .fuel
  | f+1, close, msg, ts =>
    match ts with
    | [] => perr msg
    | t :: r => if isP t close then pure ([], r) else parseArgsLoop f close msg ts

def parseArgsLoop : Nat → UInt8 → String → List Token → R (List Expr × List Token)
  | 0, _, _, _ => .error .fuel
  | f+1, close, msg, ts => do
    let (e, r) ← parseExpression f ts
    match r with
    | t :: r' =>
      if isP t 44 then do
        let (es, r'') ← parseArgsLoop f close msg r'
        pure (e :: es, r'')
      else if isP t close then pure ([e], r')
      else perr msg
    | [] => perr msg

def parseOperand : Nat → List Token → R (Expr × List Token)
  | 0, _ => .error .fuel
  | f+1, ts => do
    let (e, r) ← parseSimple f ts
    parseSuffix f e r

/-- `[index]` and `|filter` suffixes -/
def parseSuffix : Nat → Expr → List Token → R (Expr × List Token)
  | 0, _, _ => .error .fuel
  | f+1, e, ts =>
    match ts with
    | t :: r =>
      if isP t 91 then do
        let (i, r') ← parseExpression f r
        match r' with
        | c :: r'' => if isP c 93 then parseSuffix f (.item e i) r'' else perr "expected closing bracket after array index"
        | [] => perr "expected closing bracket after array index"
      else if isP t 124 then do
        let (e', r') ← parseFilters f e ts
        parseSuffix f e' r'
      else pure (e, ts)
    | [] => pure (e, ts)

/-- the `[index]` suffixes of the operand of a prefix operator (`parseSubscript` in the loop of
    `parseSimpleExpression`): a subscript binds tighter than `not` / `-` / `+`; a filter does not -/
def parseSubs : Nat → Expr → List Token → R (Expr × List Token)
  | 0, _, _ => .error .fuel
  | f+1, e, ts =>
    match ts with
    | t :: r =>
      if isP t 91 then do
        let (i, r') ← parseExpression f r
        match r' with
        | c :: r'' => if isP c 93 then parseSubs f (.item e i) r'' else perr "expected closing bracket after array index"
        | [] => perr "expected closing bracket after array index"
      else pure (e, ts)
    | [] => pure (e, ts)

/-- `parseFilters`: ts starts with `|` -/
def parseFilters : Nat → Expr → List Token → R (Expr × List Token)
  | 0, _, _ => .error .fuel
  | f+1, e, ts =>
    match ts with
    | t :: r =>
      if isP t 124 then
        match r with
        | n :: r' =>
          if n.kind == NAME then do
            let (args, r'') ← match r' with
              | p :: r2 => if isP p 40 then parseArgs f 41 "expected closing parenthesis after filter arguments" r2 else pure ([], r')
              | [] => pure ([], r')
            parseFilters f (.filter e n.val args) r''
          else perr "expected filter name"
        | [] => perr "expected filter name"
      else pure (e, ts)
    | [] => pure (e, ts)

def parseSimple : Nat → List Token → R (Expr × List Token)
  | 0, _ => .error .fuel
  | f+1, ts =>
    match ts with
    | [] => perr "unexpected end of template"
    | t :: r =>
      if isName t "not" then do
        let (e, r') ← parseSimple f r; let (e', r'') ← parseSubs f e r'; pure (.unary .not e', r'')
      else if t.kind == OPERATOR && t.val == [45] then do
        let (e, r') ← parseSimple f r; let (e', r'') ← parseSubs f e r'; pure (.unary .neg e', r'')
      else if t.kind == OPERATOR && t.val == [43] then do
        let (e, r') ← parseSimple f r; let (e', r'') ← parseSubs f e r'; pure (.unary .pos e', r'')
      else if t.kind == STRING then pure (.str (unescapeStr t.val), r)
      else if t.kind == NUMBER then pure (numLit t.val, r)
      else if t.kind == NAME then
        if t.val == b "true" then pure (.bool true, r)
        else if t.val == b "false" then pure (.bool false, r)
        else if t.val == b "null" || t.val == b "nil" then pure (.null, r)
        else match r with
          | p :: r' =>
            if isP p 40 then do
              let (args, r'') ← parseArgs f 41 "expected closing parenthesis after function arguments" r'
              pure (.call t.val args, r'')
            else parseAttrs f (.var t.val) r
          | [] => pure (.var t.val, r)
      else if isP t 91 then do
        let (items, r') ← parseArgs f 93 "expected closing bracket after array items" r
        pure (.array items, r')
      else if isP t 123 then parseMap f r
      else if isP t 40 then do
        let (e, r') ← parseExpression f r
        match r' with
        | c :: r'' => if isP c 41 then pure (e, r'') else perr "expected closing parenthesis"
        | [] => perr "expected closing parenthesis"
      else perr "unexpected token in expression"

/-- `.name` and `.name(args)` chains after a variable -/
def parseAttrs : Nat → Expr → List Token → R (Expr × List Token)
  | 0, _, _ => .error .fuel
  | f+1, e, ts =>
    match ts with
    | d :: r =>
      if isP d 46 then
        match r with
        | n :: r' =>
          if n.kind == NAME then
            match r' with
            | p :: r'' =>
              if isP p 40 then do
                let (args, r3) ← parseArgs f 41 "expected closing parenthesis after method arguments" r''
                parseAttrs f (.mcall e n.val args) r3
              else parseAttrs f (.attr e n.val) r'
            | [] => parseAttrs f (.attr e n.val) r'
          else perr "expected attribute name"
        | [] => perr "expected attribute name"
      else pure (e, ts)
    | [] => pure (e, ts)

/-- `parseMapExpression`: the `{` has been consumed -/
def parseMap : Nat → List Token → R (Expr × List Token)
  | 0, _ => .error .fuel
  | f+1, ts =>
    match ts with
    | [] => perr "expected closing brace after map items"
    | t :: r =>
      if isP t 125 then pure (.hash [], r)
      else do
        let (kvs, r') ← parseMapLoop f ts
        pure (.hash kvs, r')

def parseMapLoop : Nat → List Token → R (List Expr × List Token)
  | 0, _ => .error .fuel
  | f+1, ts => do
    let (k, r) ← parseExpression f ts
    match r with
    | c :: r1 =>
      if isP c 58 then do
        let (v, r2) ← parseExpression f r1
        match r2 with
        | t :: r3 =>
          if isP t 44 then do
            let (kvs, r4) ← parseMapLoop f r3
            pure (k :: v :: kvs, r4)
          else if isP t 125 then pure ([k, v], r3)
          else perr "expected closing brace after map items"
        | [] => perr "expected closing brace after map items"
      else perr "expected ':' after map key"
    | [] => perr "expected ':' after map key"

end

def exprFuel (ts : List Token) : Nat := 8 * ts.length + 16

end Twig
