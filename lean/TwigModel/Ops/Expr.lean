import TwigModel.Proto
open Lean
namespace Twig.Ops

/-- driver ops of the Expr area (see the module TwigModel.Expr); `none` = not one of ours -/
def exprOps (op : String) (j : Json) : Option (Except String Json) :=
  match op with
  | _ => none

end Twig.Ops
