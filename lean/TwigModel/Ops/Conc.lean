import TwigModel.Proto
open Lean
namespace Twig.Ops

/-- driver ops of the Conc area (see the module TwigModel.Conc); `none` = not one of ours -/
def concOps (op : String) (j : Json) : Option (Except String Json) :=
  match op with
  | _ => none

end Twig.Ops
