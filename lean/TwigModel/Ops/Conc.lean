import TwigModel.Proto
import TwigModel.Conc
open Lean
namespace Twig.Ops
open Twig.Conc Twig.Conc.Sem

private def lookupNat (tbl : List (Nat × Nat)) (n : Nat) : Option Nat :=
  (tbl.find? (·.1 == n)).map (·.2)

private def natPairs (a : Array Json) : Except String (List (Nat × Nat)) :=
  a.toList.mapM fun x => do
    let p ← x.getArr?
    match p.toList with
    | [n, s] => pure (← n.getNat?, ← s.getNat?)
    | _ => throw "expected [name, src]"

private def semCall (j : Json) : Except String Call := do
  let k ← Proto.getStr j "k"
  let n ← Proto.getNat j "n"
  match k with
  | "load" => pure (loadCall n)
  | "render" => pure (renderCall n)
  | "renderRel" => pure (renderRelCall n (← Proto.getNat j "r"))
  | "register" => pure (.register n (← Proto.getNat j "src"))
  | _ => throw s!"unknown call kind {k}"

private def optNat : Option Nat → Json
  | some n => Json.num n
  | none => Json.null

/-- driver ops of the Conc area.

  `conc_sem` — run the semantic model of TwigModel.Conc on one case:
    in : {"cacheOn": bool, "recheck": bool, "relFromEngine": bool, "loader": [[name, src], …],
          "calls": [{"k": "load"|"render"|"renderRel"|"register", "n": name, "r": ref, "src": src}, …],
          "sched": [thread index, …]}        (names, sources: numbers; `join base ref = base + ref`)
    out: {"results": [src | null, …]   value returned by each call (0 = not found; for load/render the
                                        source number of the template it got), null = not returned yet
          "cache":   [[name, src, registered], …] for every name mentioned
          "rel":     [[thread, ref, resolved], …]
          "linearizable": bool,
          "serial":  [[call, value], …] the calls executed one after another in index order}
-/
def concOps (op : String) (j : Json) : Option (Except String Json) :=
  match op with
  | "conc_sem" => some do
      let cacheOn ← Proto.getBool j "cacheOn"
      let recheck := (Proto.getBool j "recheck").toOption.getD false
      let relE := (Proto.getBool j "relFromEngine").toOption.getD false
      let loader ← natPairs (← Proto.getArr j "loader")
      let callsJ ← Proto.getArr j "calls"
      let calls ← callsJ.toList.mapM semCall
      let schedJ ← Proto.getArr j "sched"
      let sched ← schedJ.toList.mapM fun x => x.getNat?
      if calls.length > 6 then throw "at most 6 calls (linearizability enumerates the orders)"
      let cfg : Cfg := { loader := lookupNat loader, cacheOn := cacheOn, join := fun b r => b + r,
                         relFromEngine := relE, recheck := recheck }
      let c0 : Cache := fun _ => none
      let st := Sem.exec cfg c0 calls sched
      let names := (loader.map (·.1) ++ regNames calls).eraseDups
      let cache := names.filterMap fun n => (st.cache n).map fun t =>
        Json.arr #[Json.num n, Json.num t.src, Json.bool t.reg]
      pure (Proto.ok [
        ("results", Json.arr ((results st calls.length).map optNat).toArray),
        ("cache", Json.arr cache.toArray),
        ("rel", Json.arr (st.rel.reverse.map fun (i, r, n) => Json.arr #[Json.num i, Json.num r, Json.num n]).toArray),
        ("linearizable", Json.bool (linearizableB cfg c0 calls sched)),
        ("serial", Json.arr ((serialRun cfg calls c0 (List.range calls.length)).map
            fun (i, o) => Json.arr #[Json.num i, Json.num o]).toArray)])
  | _ => none

end Twig.Ops
