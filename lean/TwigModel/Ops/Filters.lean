import TwigModel.Proto
open Lean
namespace Twig.Ops

/-- driver ops of the Filters area (see the module TwigModel.Filters); `none` = not one of ours -/
def filtersOps (op : String) (j : Json) : Option (Except String Json) :=
  match op with
  | _ => none

end Twig.Ops
