import TwigModel.Proto
import TwigModel.Filters
open Lean
namespace Twig.Ops
open Twig.Flt

/-!
  Driver ops of the Filters area (property C19).

  `filters_apply`   {"cases": [case, …]}  →  {"res": [res, …]}
      case = {"f": name, "v": val, "args": [val, …], "cm": [[rune, upper, lower], …]}
      val  = {"k":"null"} | {"k":"bool","b":true} | {"k":"int","i":"-12"}
           | {"k":"float","neg":false,"m":"125","e":2}          (value ±m/10^e)
           | {"k":"str","s":hex}
           | {"k":"list","ty":"any|int|str","arr":false,"items":[scalar val, …]}
           | {"k":"map","ty":"any|int|str","items":[[hexkey, scalar val], …]}   (later duplicates win)
      res  = {"r":"ok","v":out} | {"r":"err"} | {"r":"panic"} | {"r":"unsupported"}
      out  = {"k":"null"} | {"k":"bool"|"int"|"float"|"str","s":hex of toString}
           | {"k":"list","ty":…,"arr":…,"items":[out, …]} | {"k":"map","ty":…,"items":[[hexkey,out], …]} (key order)
  `filters_items`   {"vals": [val, …]}  →  {"res": [[out, …], …]}     the for-loop view
  `filters_spaces`  {} → {"spaces": [rune, …], "encs": [hex, …]}       the model's unicode.IsSpace set and TrimSpace cut set
  `filters_known`   {"cases": [case, …]} → {"res": [class | null, …]}  recorded-finding class of an input (knownClass)
  `filters_numpipe` {"cases": [{"m":"1005","k":3,"p":2}, …]} → {"res": [{"round":"101","fixed":"100","fixed_pipe":"100","spec":"101","cmp":"lt"}, …]}
      (round = the digit-string rounding of filterRound; fixed = %.pf hybrid model; fixed_pipe = full binary64 pipeline; spec = exact)
-/

open Proto

def getNatStr (j : Json) (k : String) : Except String Nat := do
  let s ← getStr j k
  match s.toNat? with
  | some n => pure n
  | none => throw s!"bad natural in {k}"

def getIntStr (j : Json) (k : String) : Except String Int := do
  let s ← getStr j k
  match s.toInt? with
  | some n => pure n
  | none => throw s!"bad integer in {k}"

def decodeTy (s : String) : Except String ElemTy :=
  match s with
  | "any" => pure .any
  | "int" => pure .int
  | "str" => pure .str
  | _ => throw s!"bad element type {s}"

def decodeScalar (j : Json) : Except String Scalar := do
  match (← getStr j "k") with
  | "null" => pure .null
  | "bool" => pure (.bool (← getBool j "b"))
  | "int" => pure (.int (← getIntStr j "i"))
  | "float" => pure (.dec (← getBool j "neg") (← getNatStr j "m") (← getNat j "e"))
  | "str" => pure (.str (← getBytes j "s"))
  | k => throw s!"not a scalar: {k}"

def decodeVal (j : Json) : Except String Val := do
  match (← getStr j "k") with
  | "list" =>
    let ty ← decodeTy (← getStr j "ty")
    let arr ← getBool j "arr"
    let items ← (← getArr j "items").toList.mapM decodeScalar
    pure (.list ty arr items)
  | "map" =>
    let ty ← decodeTy (← getStr j "ty")
    let items ← (← getArr j "items").toList.mapM fun e => do
      match e with
      | .arr #[k, v] => pure ((← asBytes k), (← decodeScalar v))
      | _ => throw "bad map entry"
    pure (.map ty (mapOfList items))
  | _ => pure (.sc (← decodeScalar j))

def tyName : ElemTy → String
  | .any => "any" | .int => "int" | .str => "str"

def encodeScalar (s : Scalar) : Json :=
  match s with
  | .null => ok [("k", "null")]
  | .bool _ => ok [("k", "bool"), ("s", hex s.toStr)]
  | .int _ => ok [("k", "int"), ("s", hex s.toStr)]
  | .dec .. => ok [("k", "float"), ("s", hex s.toStr)]
  | .str _ => ok [("k", "str"), ("s", hex s.toStr)]

def encodeVal : Val → Json
  | .sc s => encodeScalar s
  | .list ty arr xs => ok [("k", "list"), ("ty", tyName ty), ("arr", arr), ("items", Json.arr (xs.map encodeScalar).toArray)]
  | .map ty kvs => ok [("k", "map"), ("ty", tyName ty),
      ("items", Json.arr ((mapSorted kvs).map fun kv => Json.arr #[hex kv.1, encodeScalar kv.2]).toArray)]

def encodeRes : Res → Json
  | .ok v => ok [("r", "ok"), ("v", encodeVal v)]
  | .err => ok [("r", "err")]
  | .panic => ok [("r", "panic")]
  | .unsupported => ok [("r", "unsupported")]

def decodeCm (j : Json) : Except String CaseMap := do
  match j.getObjVal? "cm" with
  | .error _ => pure CaseMap.asciiOnly
  | .ok (.arr rows) =>
    let t ← rows.toList.mapM fun row => do
      match row with
      | .arr #[r, u, l] => pure ((← r.getNat?), (← u.getNat?), (← l.getNat?))
      | _ => throw "bad cm row"
    pure (CaseMap.ofTable t)
  | .ok _ => throw "bad cm"

def runCase (j : Json) : Except String Json := do
  let f ← getStr j "f"
  let v ← decodeVal (← getObj j "v")
  let args ← (← getArr j "args").toList.mapM decodeVal
  let cm ← decodeCm j
  pure (encodeRes (applyFilter cm f v args))

def ordName : Ordering → String
  | .lt => "lt" | .eq => "eq" | .gt => "gt"

/-- driver ops of the Filters area (see the module TwigModel.Filters); `none` = not one of ours -/
def filtersOps (op : String) (j : Json) : Option (Except String Json) :=
  match op with
  | "filters_apply" => some do
    let cases ← getArr j "cases"
    let res ← cases.toList.mapM runCase
    pure (ok [("res", Json.arr res.toArray)])
  | "filters_items" => some do
    let vals ← (← getArr j "vals").toList.mapM decodeVal
    pure (ok [("res", Json.arr (vals.map fun v => Json.arr ((items v).map encodeScalar).toArray).toArray)])
  | "filters_numpipe" => some do
    let cases ← getArr j "cases"
    let res ← cases.toList.mapM fun c => do
      let m ← getNatStr c "m"
      let k ← getNat c "k"
      let p ← getNat c "p"
      let spec := if k ≤ p then m * 10 ^ (p - k) else Num.specRoundDiv m (10 ^ (k - p))
      pure (ok [("round", toString (Num.goRoundN m k p)),
                ("fixed", toString (Num.goFixedN m k p)), ("fixed_pipe", toString (Num.pipeFixed m k p)),
                ("spec", toString spec), ("cmp", ordName (Num.flCmp m k))])
    pure (ok [("res", Json.arr res.toArray)])
  | "filters_spaces" => some do
    -- every rune the model treats as `unicode.IsSpace` (FACT check against Go's tables)
    pure (ok [("spaces", Json.arr (((List.range 0x110000).filter Utf8.isSpaceRune).map fun (r : Nat) => (r : Json)).toArray),
              ("encs", Json.arr (spaceEncs.map hex).toArray)])
  | "filters_known" => some do
    let cases ← getArr j "cases"
    let res ← cases.toList.mapM fun c => do
      let f ← getStr c "f"
      let v ← decodeVal (← getObj c "v")
      let args ← (← getArr c "args").toList.mapM decodeVal
      pure (match knownClass f v args with | some s => Json.str s | none => Json.null)
    pure (ok [("res", Json.arr res.toArray)])
  | _ => none

end Twig.Ops
