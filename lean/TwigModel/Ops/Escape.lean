import TwigModel.Proto
import TwigModel.Escape
open Lean
namespace Twig.Ops
open Twig.Escape

def mapStrs (j : Json) (f : Bytes → Json) : Except String (Array Json) := do
  let strs ← Proto.getArr j "strs"
  strs.mapM fun x => do let bs ← Proto.asBytes x; pure (f bs)

/-- driver ops of the Escape area; every op takes a batch {strs: [hex]} and answers {outs: [...]}:
    escape_reg        html.EscapeString model (`escReg`)                         → outs: [hex]
    escape_fallback   ApplyFilter's built-in fallback (`escFallback`)            → outs: [hex], valid: [bool] (validUtf8)
    escape_unescape5  independent decoder of the five references of escReg       → outs: [hex]
    escape_unescape_fb  … of the fallback's references                           → outs: [hex]
    escape_apply {env: bool, name: string, strs}  `applyFilter`                   → outs: [hex | null]
    escape_names {}   the FACT name tables                                        → {registered: [..], fallback: [..]} -/
def escapeOps (op : String) (j : Json) : Option (Except String Json) :=
  match op with
  | "escape_reg" => some do
      let outs ← mapStrs j fun bs => Proto.hex (escReg bs)
      pure (Proto.ok [("outs", Json.arr outs)])
  | "escape_fallback" => some do
      let outs ← mapStrs j fun bs => Proto.hex (escFallback bs)
      let valid ← mapStrs j fun bs => Json.bool (validUtf8 bs)
      pure (Proto.ok [("outs", Json.arr outs), ("valid", Json.arr valid)])
  | "escape_unescape5" => some do
      let outs ← mapStrs j fun bs => Proto.hex (unescape5 bs)
      pure (Proto.ok [("outs", Json.arr outs)])
  | "escape_unescape_fb" => some do
      let outs ← mapStrs j fun bs => Proto.hex (unescapeFb bs)
      pure (Proto.ok [("outs", Json.arr outs)])
  | "escape_apply" => some do
      let env ← Proto.getBool j "env"
      let name ← Proto.getStr j "name"
      let outs ← mapStrs j fun bs =>
        match applyFilter env name bs with
        | some o => Proto.hex o
        | none => Json.null
      pure (Proto.ok [("outs", Json.arr outs)])
  | "escape_names" => some (pure (Proto.ok [
      ("registered", Json.arr (escapeNames.map Json.str).toArray),
      ("fallback", Json.arr (fallbackNames.map Json.str).toArray)]))
  | _ => none

end Twig.Ops
