import TwigModel.Proto
open Lean
namespace Twig.Ops

/-- driver ops of the Escape area (see the module TwigModel.Escape); `none` = not one of ours -/
def escapeOps (op : String) (j : Json) : Option (Except String Json) :=
  match op with
  | _ => none

end Twig.Ops
