import TwigModel.Proto
import TwigModel.AttrCache
open Lean
namespace Twig.Ops
open Twig.AttrCache

/-
  JSON formats (all strings are plain JSON strings; the harness only generates ASCII names and values)

  env    : [ {"name": s, "fields": [[name, exported, embedded, ty]…], "methods": [[name, exported, ptrRecv, numIn, body]…]} … ]
           ty   = "s" (scalar) | "S<id>" (struct) | "P<id>" (pointer to struct);   a type's id is its position
           body = null (no result) | {"c": s} (constant) | {"f": i} (i-th field of the receiver)
  val    : null | {"k":"s","v":s} | {"k":"st","id":n,"r":s,"f":[val…]} | {"k":"pt","id":n,"r":s,"f":[val…]}
           | {"k":"np","id":n,"r":s} | {"k":"sm","e":[[key,val]…]} | {"k":"tm","r":s,"e":[[key,val]…]}
           | {"k":"pm","r":s,"e":[[key,val]…]} | {"k":"o","r":s}
  facts  : {"keyType":b,"keyAttr":b,"fullPath":b,"typedMap":b,"maxSize":n,"numToEvict":n}   (absent = codeFacts)
  oracle : {"kind":"oldest"|"newest"|"mod"|"all","k":n}                                 (absent = oldest numToEvict)

  attr_run   {env, vals:[val…], hist:[[valIndex, attr, item?]…], facts?, oracle?}
             → {"res":[printed result per step], "hits":n, "misses":n, "evictions":n, "len":n, "currSize":n,
                "maxLen":n}
  attr_types {env, qs:[[typeId, attr]…]}
             → {"sets":[[[value method names],[pointer method names]] per type],
                "resolved":[[fieldIndex,[fieldPath…],isMethod,methodIndex,ptrMethod] per q]}
-/

namespace AttrCacheJson

def parseTy (s : String) : Except String FTy :=
  if s == "s" then pure .scalar
  else match s.toList with
    | 'S' :: ds => match (String.ofList ds).toNat? with
      | some n => pure (.struct n)
      | none => throw s!"bad ty {s}"
    | 'P' :: ds => match (String.ofList ds).toNat? with
      | some n => pure (.ptr n)
      | none => throw s!"bad ty {s}"
    | _ => throw s!"bad ty {s}"

def parseField (j : Json) : Except String FieldDesc := do
  let a ← j.getArr?
  if a.size != 4 then throw "field: want 4 items"
  let ty ← parseTy (← a[3]!.getStr?)
  pure { name := ← a[0]!.getStr?, exported := ← a[1]!.getBool?, embedded := ← a[2]!.getBool?, ty := ty }

def parseBody (j : Json) : Except String MBody :=
  if j.isNull then pure .noResult
  else match j.getObjVal? "c" with
    | .ok c => do pure (.const (← c.getStr?))
    | .error _ => do pure (.recvField (← j.getObjValAs? Nat "f"))

def parseMethod (j : Json) : Except String MethodDesc := do
  let a ← j.getArr?
  if a.size != 5 then throw "method: want 5 items"
  pure { name := ← a[0]!.getStr?, exported := ← a[1]!.getBool?, ptrRecv := ← a[2]!.getBool?,
         numIn := ← a[3]!.getNat?, body := ← parseBody a[4]! }

def parseStruct (j : Json) : Except String StructDesc := do
  let fs ← (← Proto.getArr j "fields").toList.mapM parseField
  let ms ← (← Proto.getArr j "methods").toList.mapM parseMethod
  pure { name := ← Proto.getStr j "name", fields := fs, methods := ms }

def parseEnv (j : Json) : Except String Env := do
  (← Proto.getArr j "env").mapM parseStruct

def parseVal : Nat → Json → Except String Val
  | 0, _ => throw "value nested too deeply"
  | n + 1, j =>
    if j.isNull then pure .nil else do
    let k ← Proto.getStr j "k"
    let entries : Except String (List (String × Val)) := do
      (← Proto.getArr j "e").toList.mapM (fun p => do
        let a ← p.getArr?
        if a.size != 2 then throw "entry: want 2 items"
        pure (← a[0]!.getStr?, ← parseVal n a[1]!))
    let fields : Except String (List Val) := do
      (← Proto.getArr j "f").toList.mapM (parseVal n)
    match k with
    | "s" => pure (.scalar (← Proto.getStr j "v"))
    | "st" => pure (.struct (← Proto.getNat j "id") (← Proto.getStr j "r") (← fields))
    | "pt" => pure (.ptrTo (← Proto.getNat j "id") (← Proto.getStr j "r") (← fields))
    | "np" => pure (.nilPtr (← Proto.getNat j "id") (← Proto.getStr j "r"))
    | "sm" => pure (.smap (← entries))
    | "tm" => pure (.tmap (← Proto.getStr j "r") (← entries))
    | "pm" => pure (.pmap (← Proto.getStr j "r") (← entries))
    | "o" => pure (.other (← Proto.getStr j "r"))
    | _ => throw s!"bad value kind {k}"

def parseFacts (j : Json) : Except String Facts :=
  match j.getObjVal? "facts" with
  | .error _ => pure codeFacts
  | .ok f => do
    pure { keyHasType := ← Proto.getBool f "keyType", keyHasAttr := ← Proto.getBool f "keyAttr",
           fullPath := ← Proto.getBool f "fullPath", typedMapAttr := ← Proto.getBool f "typedMap",
           maxSize := ← Proto.getNat f "maxSize", numToEvict := ← Proto.getNat f "numToEvict" }

def parseOracle (F : Facts) (j : Json) : Except String Oracle :=
  match j.getObjVal? "oracle" with
  | .error _ => pure (oracleOldest F.numToEvict)
  | .ok o => do
    let k ← Proto.getNat o "k"
    match ← Proto.getStr o "kind" with
    | "oldest" => pure (oracleOldest k)
    | "newest" => pure (oracleNewest k)
    | "mod" => pure (oracleMod k)
    | "all" => pure (fun _ c => c.keys)
    | s => throw s!"bad oracle {s}"

structure Stats where
  res : Array Json := #[]
  hits : Nat := 0
  misses : Nat := 0
  evictions : Nat := 0
  maxLen : Nat := 0

def typeOfObj : Val → Option TypeId
  | .struct T _ _ => some T
  | .ptrTo T _ _ => some T
  | _ => none

/-- one step of the history, with bookkeeping for the report (the result itself is `getAttribute`/`getItem`) -/
def stepRun (F : Facts) (env : Env) (ω : Oracle) (n : Nat) (c : Cache) (st : Stats)
    (obj : Val) (a : String) (item : Bool) : Cache × Stats :=
  if item then (c, { st with res := st.res.push (Json.str (getItem obj a).print) })
  else
    let (r, c') := getAttribute F env (ω n c) c obj a
    let st := { st with res := st.res.push (Json.str r.print), maxLen := max st.maxLen c'.m.length }
    match typeOfObj obj with
    | none => (c', st)
    | some T =>
      if (c.get (mkKey F T a)).isSome then (c', { st with hits := st.hits + 1 })
      else (c', { st with misses := st.misses + 1,
                          evictions := st.evictions + (if c.currSize ≥ Int.ofNat F.maxSize then 1 else 0) })

def runAll (F : Facts) (env : Env) (ω : Oracle) (vals : Array Val) :
    List (Nat × String × Bool) → Nat → Cache → Stats → Cache × Stats
  | [], _, c, st => (c, st)
  | (vi, a, item) :: rest, n, c, st =>
    let (c', st') := stepRun F env ω n c st (vals[vi]?.getD .nil) a item
    runAll F env ω vals rest (n + 1) c' st'

def parseStep (j : Json) : Except String (Nat × String × Bool) := do
  let a ← j.getArr?
  if a.size < 2 then throw "step: want [valIndex, attr, item?]"
  let item := if a.size ≥ 3 then (a[2]!.getBool?).toOption.getD false else false
  pure (← a[0]!.getNat?, ← a[1]!.getStr?, item)

def resolvedJson (r : Resolved) : Json :=
  Json.arr #[Json.num (JsonNumber.fromInt r.fieldIndex), Json.arr (r.fieldPath.map (fun (n : Nat) => (n : Json))).toArray,
    Json.bool r.isMethod, Json.num (JsonNumber.fromInt r.methodIndex), Json.bool r.ptrMethod]

def namesJson (ms : List MethodRef) : Json := Json.arr (ms.map (fun m => Json.str m.name)).toArray

end AttrCacheJson

open AttrCacheJson in
/-- driver ops of the AttrCache area (see the module TwigModel.AttrCache); `none` = not one of ours -/
def attrCacheOps (op : String) (j : Json) : Option (Except String Json) :=
  match op with
  | "attr_run" => some do
      let env ← parseEnv j
      let F ← parseFacts j
      let ω ← parseOracle F j
      let vals ← (← Proto.getArr j "vals").toList.mapM (parseVal 16)
      let hist ← (← Proto.getArr j "hist").toList.mapM parseStep
      let (c, st) := runAll F env ω vals.toArray hist 0 Cache.empty {}
      pure (Proto.ok [("res", Json.arr st.res), ("hits", st.hits), ("misses", st.misses),
        ("evictions", st.evictions), ("len", c.m.length), ("currSize", Json.num (JsonNumber.fromInt c.currSize)),
        ("maxLen", st.maxLen)])
  | "attr_types" => some do
      let env ← parseEnv j
      let qs ← (← Proto.getArr j "qs").toList.mapM (fun q => do
        let a ← q.getArr?
        if a.size != 2 then throw "q: want [typeId, attr]"
        pure (← a[0]!.getNat?, ← a[1]!.getStr?))
      let sets := (List.range env.size).map (fun T =>
        Json.arr #[namesJson (methodSet env T false), namesJson (methodSet env T true)])
      pure (Proto.ok [("sets", Json.arr sets.toArray),
        ("resolved", Json.arr (qs.map (fun q => resolvedJson (resolveCode env q.1 q.2))).toArray)])
  | _ => none

end Twig.Ops
