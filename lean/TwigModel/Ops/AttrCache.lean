import TwigModel.Proto
open Lean
namespace Twig.Ops

/-- driver ops of the AttrCache area (see the module TwigModel.AttrCache); `none` = not one of ours -/
def attrCacheOps (op : String) (j : Json) : Option (Except String Json) :=
  match op with
  | _ => none

end Twig.Ops
