import TwigModel.Proto
import TwigModel.Scan
open Lean
namespace Twig.Ops

def tokensJson (ts : List Token) : Json :=
  Json.arr (ts.map fun t => Json.arr #[Json.num t.kind, Proto.hex t.val]).toArray

def scanErrJson : ScanErr → Json
  | .unclosedVar => "unclosed-var"
  | .unclosedBlock => "unclosed-block"
  | .unclosedComment => "unclosed-comment"

def scanResult : Except ScanErr (List Token) → Json
  | .ok ts => Proto.ok [("tokens", tokensJson ts)]
  | .error e => Proto.ok [("err", scanErrJson e)]

/-- ops: scan_html, scan_opt (raw token streams of the two tokenizers), tokenize (what the parser sees),
    lex (TokenizeExpression), trimspace -/
def scanOps (op : String) (j : Json) : Option (Except String Json) :=
  match op with
  | "scan_html" => some do
      let s ← Proto.getBytes j "src"
      let ws := (Proto.getBool j "ws").toOption.getD false
      pure (scanResult (if ws then (scanHtml s).map applyWs else scanHtml s))
  | "scan_opt" => some do
      let s ← Proto.getBytes j "src"
      let ws := (Proto.getBool j "ws").toOption.getD false
      pure (scanResult (if ws then (scanOpt s).map applyWs else scanOpt s))
  | "tokenize" => some do let s ← Proto.getBytes j "src"; pure (scanResult (tokenize s))
  | "lex" => some do let s ← Proto.getBytes j "src"; pure (Proto.ok [("tokens", tokensJson (lexExpr s))])
  | "trimspace" => some do let s ← Proto.getBytes j "src"; pure (Proto.ok [("out", Proto.hex (trimSpaceGo s))])
  | _ => none

end Twig.Ops
