import TwigModel.Proto
open Lean
namespace Twig.Ops

/-- driver ops of the MapOrder area (see the module TwigModel.MapOrder); `none` = not one of ours -/
def mapOrderOps (op : String) (j : Json) : Option (Except String Json) :=
  match op with
  | _ => none

end Twig.Ops
