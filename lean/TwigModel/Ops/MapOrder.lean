import TwigModel.Proto
import TwigModel.MapOrder
open Lean
namespace Twig.Ops
open Twig.MapOrder

private def decodeUtf8 (bs : Bytes) : Option (List Char) :=
  (String.fromUTF8? (ByteArray.mk bs.toArray)).map String.toList

private def encodeUtf8 (cs : List Char) : Bytes := (String.ofList cs).toUTF8.toList

private def convertOne (fmt : Bytes) : Json :=
  match decodeUtf8 fmt with
  | some cs => Proto.hex (encodeUtf8 (convertDateFormat (charTable dateTable) cs))
  | none => Json.null   -- format is not valid UTF-8: Go substitutes U+FFFD, not modelled

/-- keys travel as: int → integer, uint → natural, str → hex, float → integer rank or `null` (a NaN key),
    other → [ident, selfEq, printedHex, tyNameHex, goSyntaxHex] -/
private def parseKey (cls : String) (idx : Nat) (j : Json) : Except String GoKey :=
  match cls with
  | "int" => do let i ← j.getInt?; pure (.int i)
  | "uint" => do let n ← j.getNat?; pure (.uint n)
  | "str" => do let s ← Proto.asBytes j; pure (.str s)
  | "float" =>
      match j with
      | Json.null => pure (.nan idx)
      | _ => do let i ← j.getInt?; pure (.float i)
  | "other" => do
      let a ← j.getArr?
      match a.toList with
      | [i, se, p, t, g] => do
          let n ← i.getNat?
          let se ← se.getBool?
          let p ← Proto.asBytes p
          let t ← Proto.asBytes t
          let g ← Proto.asBytes g
          pure (.other n se p t g)
      | _ => throw "other key: want [ident, selfEq, printedHex, tyNameHex, goSyntaxHex]"
  | _ => throw s!"unknown key class {cls}"

private def keyJson : GoKey → Json
  | .int i => Json.num (JsonNumber.fromInt i)
  | .uint n => Json.num (JsonNumber.fromNat n)
  | .float r => Json.num (JsonNumber.fromInt r)
  | .nan _ => Json.null
  | .str s => Proto.hex s
  | .other i se p t g => Json.arr #[Json.num (JsonNumber.fromNat i), Json.bool se, Proto.hex p, Proto.hex t, Proto.hex g]

/-- driver ops of the MapOrder area (see the module TwigModel.MapOrder); `none` = not one of ours

  * `maporder_datefmt`       {fmts: [hex…]}                → {outs: [hex | null…]}   repaired convertDateFormat
  * `maporder_datefmt_pinned`{fmt: hex, order: [hex…]}      → {out: hex}              pinned algorithm, table visited in `order` (letters)
  * `maporder_sort_keys`     {cls: int|uint|float|str|other, keys: […]} → {sorted: […], determined: bool}
        keys: ints / naturals / rank-or-null / hex strings / [ident, selfEq, printedHex, tyNameHex, goSyntaxHex];
        `sorted` lists what can be observed of the keys (`GoKey.obs`) in `sortKeys` order;
        `determined` = any two keys the comparator ties are observably equal (`KeysDetermined`)
-/
def mapOrderOps (op : String) (j : Json) : Option (Except String Json) :=
  match op with
  | "maporder_datefmt" => some do
      let fmts ← Proto.getArr j "fmts"
      let outs ← fmts.toList.mapM fun f => do
        let bs ← Proto.asBytes f
        pure (convertOne bs)
      pure (Proto.ok [("outs", Json.arr outs.toArray)])
  | "maporder_datefmt_pinned" => some do
      let fmt ← Proto.getBytes j "fmt"
      let order ← Proto.getArr j "order"
      let letters ← order.toList.mapM fun o => do
        let bs ← Proto.asBytes o
        match decodeUtf8 bs with
        | some [c] => pure c
        | _ => throw "order: want one-character letters"
      let tbl := charTable dateTable
      let ord : CharTable := letters.filterMap fun c => (tbl.lookup c).map fun g => (c, g)
      match decodeUtf8 fmt with
      | some cs => pure (Proto.ok [("out", Proto.hex (encodeUtf8 (convertDateFormatPinned ord cs)))])
      | none => pure (Proto.ok [("out", Json.null)])
  | "maporder_sort_keys" => some do
      let cls ← Proto.getStr j "cls"
      let ks ← Proto.getArr j "keys"
      let keys ← (ks.toList.zipIdx).mapM fun (k, i) => parseKey cls i k
      let sorted := sortKeys keys
      let determined := keys.all fun a => keys.all fun c => a.obs == c.obs || keyLess a c || keyLess c a
      pure (Proto.ok [("sorted", Json.arr (sorted.map fun k => keyJson k.obs).toArray), ("determined", Json.bool determined)])
  | _ => none

end Twig.Ops
