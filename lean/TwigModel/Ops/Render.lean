import TwigModel.Proto
import TwigModel.Render
open Lean
namespace Twig.Ops

/-- JSON → Val: null | bool | integer | {"s":hex} | {"l":[…]} | {"m":[[hexkey,val],…]}; nesting depth ≤ fuel -/
def valOfJsonF : Nat → Json → Except String Val
  | 0, _ => throw "value nested too deeply"
  | f+1, j =>
    match j with
    | .null => pure .null
    | .bool x => pure (.bool x)
    | .num n => if n.exponent == 0 then pure (.int n.mantissa) else throw "non-integer number"
    | .obj _ =>
      match j.getObjVal? "s" with
      | .ok s => do pure (.str (← Proto.asBytes s))
      | .error _ =>
        match j.getObjVal? "l" with
        | .ok (.arr xs) => do pure (.list (← xs.toList.mapM (valOfJsonF f)))
        | _ =>
          match j.getObjVal? "m" with
          | .ok (.arr kvs) => do
            let ps ← kvs.toList.mapM fun kv => match kv with
              | .arr #[k, v] => do pure ((← Proto.asBytes k), (← valOfJsonF f v))
              | _ => throw "bad map entry"
            pure (.map (ps.foldl (fun acc kv => mapInsert kv.1 kv.2 acc) []))
          | _ => throw "bad value object"
    | _ => throw "bad value"

def valOfJson (j : Json) : Except String Val := valOfJsonF 64 j

def bytesList (j : Json) (k : String) : Except String (List Bytes) :=
  match j.getObjVal? k with
  | .ok (.arr xs) => xs.toList.mapM Proto.asBytes
  | _ => pure []

def errClassStr : ErrClass → String
  | .parse => "parse" | .notFound => "notFound" | .security => "security" | .render => "render"

def kindStr : CbKind → String
  | .filter => "filter" | .function => "function" | .test => "test"

def errJson : Err → Json
  | .error cls causes msg => Proto.ok [("err", Json.str (errClassStr cls)),
      ("causes", Json.arr (causes.map (fun (n : Nat) => (n : Json))).toArray), ("msg", Json.str msg)]
  | .unsupported why => Proto.ok [("unsupported", Json.str why)]
  | .fuel => Proto.ok [("fuel", Json.bool true)]

def parseAll : List (Bytes × Bytes) → R (List (Bytes × List Node))
  | [] => .ok []
  | (n, src) :: r => do
    let nodes ← parseTemplate src
    let rest ← parseAll r
    .ok ((n, nodes) :: rest)

/-- ops: render (whole pipeline: scan → parse → render), parse (ok / parse error + AST dump) -/
def renderOps (op : String) (j : Json) : Option (Except String Json) :=
  match op with
  | "render" => some do
    let tplsJ ← Proto.getArr j "templates"
    let tpls ← tplsJ.toList.mapM fun t => match t with
      | .arr #[n, s] => do pure ((← Proto.asBytes n), (← Proto.asBytes s))
      | _ => throw "bad template entry"
    let main ← Proto.getBytes j "main"
    let ctxV ← match j.getObjVal? "ctx" with
      | .ok c => valOfJson c
      | .error _ => pure (.map [])
    let vars := match ctxV with
      | .map kvs => kvs
      | _ => []
    let globalsV ← match j.getObjVal? "globals" with
      | .ok c => valOfJson c
      | .error _ => pure (.map [])
    let globals := match globalsV with
      | .map kvs => kvs
      | _ => []
    let pol := j.getObjVal? "policy"
    let (hasPolicy, af, afn) ← match pol with
      | .ok (.obj o) => do
        let pj := Json.obj o
        pure (true, (← bytesList pj "filters"), (← bytesList pj "functions"))
      | _ => pure (false, [], [])
    let spy := (j.getObjVal? "spy").toOption.getD (Json.mkObj [])
    let failAt := (Proto.getNat j "failAt").toOption
    let facts := if (Proto.getStr j "facts").toOption == some "pinned" then SbxFacts.pinned else SbxFacts.fixed
    match parseAll tpls with
    | .error e => pure (errJson e)
    | .ok parsed =>
      let E : Env := { tpls := parsed, F := facts, hasPolicy := hasPolicy, allowedFilters := af, allowedFunctions := afn,
                       spyFilters := (bytesList spy "filters").toOption.getD [],
                       spyFunctions := (bytesList spy "functions").toOption.getD [],
                       spyTests := (bytesList spy "tests").toOption.getD [], failAt := failAt, globals := globals }
      match renderEntry E main vars with
      | .error e => pure (errJson e)
      | .ok (out, trace) =>
        pure (Proto.ok [("out", Proto.hex out),
          ("trace", Json.arr (trace.map (fun ev => Json.arr #[Json.str (kindStr ev.kind), Proto.hex ev.name, Json.bool ev.inside, Json.bool ev.spy])).toArray)])
  | "parse" => some do
    let src ← Proto.getBytes j "src"
    match parseTemplate src with
    | .error e => pure (errJson e)
    | .ok nodes => pure (Proto.ok [("ok", Json.bool true), ("ast", Json.str (toString (repr nodes)))])
  | _ => none

end Twig.Ops
