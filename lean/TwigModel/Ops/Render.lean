import TwigModel.Proto
open Lean
namespace Twig.Ops

/-- driver ops of the Render area (see the module TwigModel.Render); `none` = not one of ours -/
def renderOps (op : String) (j : Json) : Option (Except String Json) :=
  match op with
  | _ => none

end Twig.Ops
