import TwigModel.Proto
open Lean
namespace Twig.Ops

/-- driver ops of the Pool area (see the module TwigModel.Pool); `none` = not one of ours -/
def poolOps (op : String) (j : Json) : Option (Except String Json) :=
  match op with
  | _ => none

end Twig.Ops
