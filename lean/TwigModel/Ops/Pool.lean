/-
  Driver ops of the Pool area (model: TwigModel/Pool.lean, property C01).

  pool_run       {"facts": "fixed" | "pinned", "oracle": {"kind": "lifo"|"fifo"|"fresh"|"seed", "seed": N}, "ops": [OP…]}
  pool_run_pure  {"ops": [OP…]}
     → {"outs": [OUT…], "free": <objects pooled at the end>, "next": <objects allocated>, "gets": <pool Gets>}

  OP   {"k":"register","e":E,"n":NAME,"src":SRC} | {"k":"parse","e":E,"src":SRC}
     | {"k":"render","e":E,"n":NAME,"vars":[[NAME, HEX | [HEX…]]…]} | {"k":"setcache","e":E,"on":BOOL}
     | {"k":"gc","mode":"all"|"none"|"mod","m":M,"r":R}       (mod: drops the pooled objects with id % M = R)
  SRC  {"bad":BOOL,"nodes":[NODE…]}
  NODE {"t":"text","s":HEX} | {"t":"print","v":V} | {"t":"if","v":V,"then":[…],"else":[…]}
     | {"t":"for","x":X,"xs":XS,"body":[…]} | {"t":"include","n":NAME} | {"t":"extends","n":NAME}
     | {"t":"block","n":B,"body":[…]} | {"t":"fail"}
  OUT  {"k":"unit"|"parsed"|"rendered", "ok":BOOL (parsed), "out":HEX | "err":CLASS (rendered), "stale":BOOL}
       CLASS = not-found | render-error | depth | unsupported
-/
import TwigModel.Proto
import TwigModel.Pool
open Lean
namespace Twig.Ops

open Twig.Pool

def poolMapM {α β : Type} (f : α → Except String β) : List α → Except String (List β)
  | [] => pure []
  | a :: r => do let x ← f a; let xs ← poolMapM f r; pure (x :: xs)

/-- nodes nest: recursion on an explicit depth bound (no `partial`) -/
def poolNode : Nat → Json → Except String Node
  | 0, _ => throw "template nested too deeply"
  | d + 1, j => do
    let t ← Proto.getStr j "t"
    let kids (k : String) : Except String (List Node) := do
      let a ← Proto.getArr j k
      poolMapM (poolNode d) a.toList
    match t with
    | "text" => return .text (← Proto.getBytes j "s")
    | "print" => return .print (← Proto.getStr j "v")
    | "if" => return .ifv (← Proto.getStr j "v") (← kids "then") (← kids "else")
    | "for" => return .forv (← Proto.getStr j "x") (← Proto.getStr j "xs") (← kids "body")
    | "include" => return .incl (← Proto.getStr j "n")
    | "extends" => return .ext (← Proto.getStr j "n")
    | "block" => return .block (← Proto.getStr j "n") (← kids "body")
    | "fail" => return .fail
    | _ => throw s!"unknown node {t}"

def poolSrc (j : Json) : Except String Src := do
  let bad := (Proto.getBool j "bad").toOption.getD false
  let a ← Proto.getArr j "nodes"
  let ns ← poolMapM (poolNode 64) a.toList
  return ⟨ns, bad⟩

def poolVar (j : Json) : Except String (String × CVal) := do
  let a ← j.getArr?
  match a.toList with
  | [n, v] =>
    let name ← n.getStr?
    match v with
    | .str _ => return (name, .s (← Proto.asBytes v))
    | .arr items => return (name, .l (← poolMapM Proto.asBytes items.toList))
    | _ => throw "bad value"
  | _ => throw "bad binding"

def poolOp (j : Json) : Except String Op := do
  let k ← Proto.getStr j "k"
  match k with
  | "register" => return .register (← Proto.getNat j "e") (← Proto.getStr j "n") (← poolSrc (← Proto.getObj j "src"))
  | "parse" => return .parseOnly (← Proto.getNat j "e") (← poolSrc (← Proto.getObj j "src"))
  | "render" =>
    let vs ← Proto.getArr j "vars"
    return .render (← Proto.getNat j "e") (← Proto.getStr j "n") (← poolMapM poolVar vs.toList)
  | "setcache" => return .setCache (← Proto.getNat j "e") (← Proto.getBool j "on")
  | "gc" =>
    let mode ← Proto.getStr j "mode"
    match mode with
    | "all" => return .gc fun _ => false
    | "none" => return .gc fun _ => true
    | "mod" =>
      let m ← Proto.getNat j "m"
      let r ← Proto.getNat j "r"
      return .gc fun id => id % (m + 1) != r
    | _ => throw s!"unknown gc mode {mode}"
  | _ => throw s!"unknown op kind {k}"

def poolOracle (j : Json) : Except String Oracle := do
  match (Proto.getObj j "oracle").toOption with
  | none => return Oracle.lifo
  | some o =>
    let kind ← Proto.getStr o "kind"
    match kind with
    | "lifo" => return Oracle.lifo
    | "fifo" => return Oracle.fifo
    | "fresh" => return Oracle.fresh
    | "seed" => return Oracle.seeded (← Proto.getNat o "seed")
    | _ => throw s!"unknown oracle {kind}"

def poolErr : Err → String
  | .notFound => "not-found"
  | .render => "render-error"
  | .depth => "depth"
  | .unsupported => "unsupported"

def poolOut (o : StepOut) : Json :=
  let st : (String × Json) := ("stale", Json.bool o.stale)
  match o.out with
  | .unit => Proto.ok [("k", "unit"), st]
  | .parsed ok => Proto.ok [("k", "parsed"), ("ok", Json.bool ok), st]
  | .rendered (.ok out) => Proto.ok [("k", "rendered"), ("out", Proto.hex out), st]
  | .rendered (.err e) => Proto.ok [("k", "rendered"), ("err", Json.str (poolErr e)), st]

/-- driver ops of the Pool area; `none` = not one of ours -/
def poolOps (op : String) (j : Json) : Option (Except String Json) :=
  match op with
  | "pool_run" => some do
      let facts := match (Proto.getStr j "facts").toOption with
        | some "pinned" => pinnedFacts
        | _ => fixedFacts
      let ω ← poolOracle j
      let ops ← poolMapM poolOp (← Proto.getArr j "ops").toList
      let r := run facts ω ops
      pure (Proto.ok [("outs", Json.arr (r.2.map poolOut).toArray), ("free", Json.num r.1.free.length),
        ("next", Json.num r.1.next), ("gets", Json.num r.1.tick)])
  | "pool_run_pure" => some do
      let ops ← poolMapM poolOp (← Proto.getArr j "ops").toList
      let r := runPure ops
      pure (Proto.ok [("outs", Json.arr (r.2.map poolOut).toArray)])
  | "pool_facts_ok" => some do
      let facts := match (Proto.getStr j "facts").toOption with
        | some "pinned" => pinnedFacts
        | _ => fixedFacts
      pure (Proto.ok [("ok", Json.bool facts.okb)])
  | _ => none

end Twig.Ops
