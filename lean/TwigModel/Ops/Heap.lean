import TwigModel.Proto
open Lean
namespace Twig.Ops

/-- driver ops of the Heap area (see the module TwigModel.Heap); `none` = not one of ours -/
def heapOps (op : String) (j : Json) : Option (Except String Json) :=
  match op with
  | _ => none

end Twig.Ops
