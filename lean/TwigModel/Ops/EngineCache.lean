import TwigModel.Proto
open Lean
namespace Twig.Ops

/-- driver ops of the EngineCache area (see the module TwigModel.EngineCache); `none` = not one of ours -/
def engineCacheOps (op : String) (j : Json) : Option (Except String Json) :=
  match op with
  | _ => none

end Twig.Ops
