import TwigModel.Proto
import TwigModel.EngineCache
open Lean
namespace Twig.Ops
open Twig.EngineCache

/-- one operation: a JSON array `[tag, int …]`
    ["cache",b] ["auto",b] ["dev",b] ["addloader",ts] ["regstr",n,s] ["regtpl",n,s]
    ["put",i,n,s,t] ["del",i,n] ["touch",i,n,t] ["load",n] ["render",n]      (b, ts: 0/1; t may be negative) -/
def ecParseOp (j : Json) : Except String Op := do
  let a ← j.getArr?
  let tag ← (a[0]?.getD Json.null).getStr?
  let int (k : Nat) : Except String Int := (a[k]?.getD Json.null).getInt?
  let nat (k : Nat) : Except String Nat := (a[k]?.getD Json.null).getNat?
  let bool (k : Nat) : Except String Bool := do let v ← nat k; pure (v != 0)
  match tag with
  | "cache" => pure (.setCache (← bool 1))
  | "auto" => pure (.setAutoReload (← bool 1))
  | "dev" => pure (.setDevMode (← bool 1))
  | "addloader" => pure (.registerLoader (← bool 1))
  | "regstr" => pure (.registerString (← nat 1) (← nat 2))
  | "regtpl" => pure (.registerTemplate (← nat 1) (← nat 2))
  | "put" => pure (.loaderPut (← nat 1) (← nat 2) (← nat 3) (← int 4))
  | "del" => pure (.loaderDelete (← nat 1) (← nat 2))
  | "touch" => pure (.loaderTouch (← nat 1) (← nat 2) (← int 3))
  | "load" => pure (.load (← nat 1))
  | "render" => pure (.render (← nat 1))
  | t => throw s!"enginecache: unknown op tag {t}"

/-- -2 = no output, -1 = ErrTemplateNotFound, s ≥ 0 = served version s -/
def ecOutJson : Out → Json
  | .quiet => Json.num (-2 : Int)
  | .notFound => Json.num (-1 : Int)
  | .served s => Json.num (s : Nat)

def ecCalledName : Op → Option Nat
  | .load n => some n
  | .render n => some n
  | _ => none

/-- everything compared after a step, as one flat array of integers:
    `[out, spec, flags, cachedMask, loads…, stats…]` — `flags` = cache + 2·autoReload + 4·debug; `cachedMask` has
    bit n set iff name n is a key of `Engine.templates`; `loads`/`stats` = the `Load` / `GetModifiedTime` call
    counters per loader and name (loader-major, names `0 … names-1`) -/
def ecStepJson (names : Nat) (o : Out) (σ : State) (spec : Json) : Json :=
  let ns := List.range names
  let ls := List.range σ.loaders.length
  let nums (f : Nat → Nat → Nat) : List Json := ls.flatMap fun i => ns.map fun n => Json.num (f i n)
  let flags : Nat := (if σ.cache then 1 else 0) + (if σ.autoReload then 2 else 0) + (if σ.debug then 4 else 0)
  let mask : Nat := ns.foldl (fun acc n => if (σ.templates n).isSome then acc + 2 ^ n else acc) 0
  Json.arr ([ecOutJson o, spec, Json.num flags, Json.num mask] ++ nums σ.loads ++ nums σ.stats).toArray

/-- run the model step by step; beside each step put what the *specification* (`Spec.expected`, computed from
    the history alone) says the call must return (-2 for steps that are not calls) -/
def ecRun (names : Nat) (ops : List Op) : List Json :=
  let rec go (σ : State) (done : List Op) : List Op → List Json
    | [] => []
    | op :: rest =>
      let r := step σ op
      let spec := match ecCalledName op with
        | some n => ecOutJson (Spec.expectedR done n)
        | none => Json.num (-2 : Int)
      ecStepJson names r.2 r.1 spec :: go r.1 (op :: done) rest
  go init [] ops

/-- driver ops of the EngineCache area (see the module TwigModel.EngineCache); `none` = not one of ours
    * `enginecache_run {names: k, ops: [[tag, …], …]}` → `{steps: [[out, spec, flags, cachedMask, loads…, stats…], …]}` -/
def engineCacheOps (op : String) (j : Json) : Option (Except String Json) :=
  match op with
  | "enginecache_run" => some do
      let names ← Proto.getNat j "names"
      let arr ← Proto.getArr j "ops"
      let ops ← arr.toList.mapM ecParseOp
      pure (Proto.ok [("steps", Json.arr (ecRun names ops).toArray)])
  | _ => none

end Twig.Ops
