import TwigModel.Proto
open Lean
namespace Twig.Ops

/-- driver ops of the Codec area (see the module TwigModel.Codec); `none` = not one of ours -/
def codecOps (op : String) (j : Json) : Option (Except String Json) :=
  match op with
  | _ => none

end Twig.Ops
