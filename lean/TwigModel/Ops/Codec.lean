import TwigModel.Proto
import TwigModel.Codec
open Lean
namespace Twig.Ops
open Twig.Codec

/-- timestamps travel as decimal strings (JSON numbers would lose precision on the Go side) -/
def getI64 (j : Json) (k : String) : Except String Int64 := do
  let s ← Proto.getStr j k
  match s.toInt? with
  | some i =>
    if -9223372036854775808 ≤ i ∧ i ≤ 9223372036854775807 then pure (Int64.ofInt i)
    else throw s!"{k} out of int64 range"
  | none => throw s!"bad integer in {k}"

def i64Json (t : Int64) : Json := Json.str (toString t.toInt)

def decodeErrName : DecodeErr → String
  | .empty => "empty" | .badVersion => "bad-version" | .name => "name" | .source => "source"
  | .lastModified => "last-modified" | .compileTime => "compile-time"
  | .astLength => "ast-length" | .astData => "ast-data"

/-- transport only (not part of the model): FNV-1a 64 so that large decoded fields need not travel back -/
def fnv64 (bs : Bytes) : UInt64 :=
  bs.foldl (fun h c => (h ^^^ c.toUInt64) * 1099511628211) 14695981039346656037

def fieldJson (digest : Bool) (bs : Bytes) : Json :=
  if digest then Json.str s!"{bs.length}:{(fnv64 bs).toNat}" else Proto.hex bs

def compiledFields (digest : Bool) (c : Compiled) : List (String × Json) :=
  [("name", fieldJson digest c.name), ("source", fieldJson digest c.source), ("lm", i64Json c.lastModified),
   ("ct", i64Json c.compileTime), ("ast", fieldJson digest c.ast)]

/-- answer of `codec_decode` for one input:
    class = "ok" | "err"; bin = "ok" | <binary error kind>;
    gob = "not-consulted" | "accept-empty" | "reject" (GobFacts, first byte 0x01) | "opaque" (first byte ≠ 0x01:
    the model does not say what encoding/gob does; `class` is then the answer *if gob rejects*);
    alloc = bytes the binary decoder passes to make() on this input (allocBin). -/
def decodeAnswer (bs : Bytes) (digest : Bool := false) (fb : Bool := gobFallbackOnV1) : Json :=
  let bin := decodeBin bs
  let binS := match bin with | .ok _ => "ok" | .error e => decodeErrName e
  let gobS : String :=
    match bin, bs with
    | .ok _, _ => "not-consulted"
    | .error _, [] => "not-consulted"
    | .error _, 1 :: _ => if fb then (match gobModel bs with | some _ => "accept-empty" | none => "reject") else "not-consulted"
    | .error _, _ => "opaque"
  let allocN : Nat := allocBin lengthCheckedBeforeAlloc bs
  match decodeFor fb gobModel bs with
  | .ok c => Proto.ok ([("class", Json.str "ok"), ("bin", Json.str binS), ("gob", Json.str gobS), ("alloc", Json.num allocN)] ++ compiledFields digest c)
  | .error e => Proto.ok [("class", Json.str "err"), ("err", Json.str (decodeErrName e)), ("bin", Json.str binS), ("gob", Json.str gobS), ("alloc", Json.num allocN)]

/-- optional request field "fallback_v1" overrides the FACT `gobFallbackOnV1` (used to try a repaired tree) -/
def fbOf (j : Json) : Bool := (Proto.getBool j "fallback_v1").toOption.getD gobFallbackOnV1

/-- ops:
    codec_facts {}                                                   → {gob_fallback_on_v1, length_checked_before_alloc: bool}
    codec_encode {name, source, ast: hex, lm, ct: decimal strings}  → {out: hex, fits: bool}
    codec_decode {data: hex}                                         → decodeAnswer
    codec_decode_batch {datas: [hex]}                                → {results: [decodeAnswer]}
    codec_variants {data: hex, cuts: [k], muts: [[pos, byte]], junk: hex, digest: bool}
        → {results: [decodeAnswer of data[:k] for each cut, of data with data[pos]=byte for each mut, of data++junk
           if junk is non-empty]}; with digest=true decoded fields are returned as "<length>:<fnv1a-64>"
    codec_truncations {data: hex}                                    → {results: [decodeAnswer of every strict prefix, by length]} -/
def codecOps (op : String) (j : Json) : Option (Except String Json) :=
  match op with
  | "codec_encode" => some do
      let name ← Proto.getBytes j "name"
      let source ← Proto.getBytes j "source"
      let ast ← Proto.getBytes j "ast"
      let lm ← getI64 j "lm"
      let ct ← getI64 j "ct"
      let c : Compiled := ⟨name, source, lm, ct, ast⟩
      pure (Proto.ok [("out", Proto.hex (encode c)), ("fits", Json.bool (decide c.fits))])
  | "codec_facts" => some (pure (Proto.ok [("gob_fallback_on_v1", Json.bool gobFallbackOnV1),
      ("length_checked_before_alloc", Json.bool lengthCheckedBeforeAlloc)]))
  | "codec_decode" => some do
      let d ← Proto.getBytes j "data"
      pure (decodeAnswer d false (fbOf j))
  | "codec_decode_batch" => some do
      let ds ← Proto.getArr j "datas"
      let rs ← ds.mapM fun d => do let bs ← Proto.asBytes d; pure (decodeAnswer bs false (fbOf j))
      pure (Proto.ok [("results", Json.arr rs)])
  | "codec_variants" => some do
      let d ← Proto.getBytes j "data"
      let cuts ← Proto.getArr j "cuts"
      let muts ← Proto.getArr j "muts"
      let junk ← Proto.getBytes j "junk"
      let digest := (Proto.getBool j "digest").toOption.getD false
      let r1 ← cuts.mapM fun c => do let k ← c.getNat?; pure (decodeAnswer (d.take k) digest (fbOf j))
      let r2 ← muts.mapM fun m => do
        let a ← m.getArr?
        match a with
        | #[p, v] => do
          let pos ← p.getNat?; let val ← v.getNat?
          pure (decodeAnswer (d.set pos val.toUInt8) digest (fbOf j))
        | _ => throw "mut must be [pos, byte]"
      let r3 := if junk.isEmpty then #[] else #[decodeAnswer (d ++ junk) digest (fbOf j)]
      pure (Proto.ok [("results", Json.arr (r1 ++ r2 ++ r3))])
  | "codec_truncations" => some do
      let d ← Proto.getBytes j "data"
      let rs := (List.range d.length).map fun k => decodeAnswer (d.take k) false (fbOf j)
      pure (Proto.ok [("results", Json.arr rs.toArray)])
  | _ => none

end Twig.Ops
