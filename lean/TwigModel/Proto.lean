/-
  TwigModel.Proto — helpers for the JSON line protocol of the driver (`Main.lean`).
  Every request is one JSON object with a string field "op"; every answer is one JSON value on one line.
  Byte strings travel as lowercase hex.
-/
import Lean.Data.Json
import TwigModel.Basic
open Lean
namespace Twig.Proto

def getStr (j : Json) (k : String) : Except String String := j.getObjValAs? String k
def getNat (j : Json) (k : String) : Except String Nat := j.getObjValAs? Nat k
def getInt (j : Json) (k : String) : Except String Int := j.getObjValAs? Int k
def getBool (j : Json) (k : String) : Except String Bool := j.getObjValAs? Bool k
def getArr (j : Json) (k : String) : Except String (Array Json) := j.getObjValAs? (Array Json) k
def getObj (j : Json) (k : String) : Except String Json := j.getObjVal? k

def getBytes (j : Json) (k : String) : Except String Bytes := do
  let s ← getStr j k
  match unhex s with
  | some bs => pure bs
  | none => throw s!"bad hex in {k}"

def asBytes (j : Json) : Except String Bytes := do
  let s ← j.getStr?
  match unhex s with
  | some bs => pure bs
  | none => throw "bad hex"

def hex (bs : Bytes) : Json := Json.str (toHex bs)

def ok (fields : List (String × Json)) : Json := Json.mkObj fields
def err (msg : String) : Json := Json.mkObj [("bad", Json.str msg)]

end Twig.Proto
