/-
  TwigModel.Scan — the two template-level tokenizers of zero_alloc_tokenizer.go
  (`TokenizeHtmlPreserving`, `TokenizeOptimized`), the expression lexer
  (`TokenizeExpression`), `processBlockTag`, `tokenizeTemplatePath`,
  `ApplyWhitespaceControl` and the trim-kind normalisation done by `Parser.Parse`.

  Everything is a total function on byte lists.  Go's index arithmetic is replaced by
  list operations that are equal to it whenever the Go code does not panic; the places where the
  Go code *could* index out of range are guarded in Go by the same conditions used here
  (see TwigProofs/C05 for the statement).
-/
import TwigModel.Basic
namespace Twig

/-! ## Tokens -/

/-- Token kinds, numbered exactly like the Go `TOKEN_*` constants (parser.go). The generated
    file `TwigGen/Tokens.lean` carries the numbers extracted from the source; `TwigProofs.Facts`
    checks they agree. -/
abbrev TEXT : Nat := 0
abbrev VAR_START : Nat := 1
abbrev VAR_END : Nat := 2
abbrev BLOCK_START : Nat := 3
abbrev BLOCK_END : Nat := 4
abbrev COMMENT_START : Nat := 5
abbrev COMMENT_END : Nat := 6
abbrev NAME : Nat := 7
abbrev NUMBER : Nat := 8
abbrev STRING : Nat := 9
abbrev OPERATOR : Nat := 10
abbrev PUNCT : Nat := 11
abbrev EOF : Nat := 12
abbrev VAR_START_TRIM : Nat := 13
abbrev VAR_END_TRIM : Nat := 14
abbrev BLOCK_START_TRIM : Nat := 15
abbrev BLOCK_END_TRIM : Nat := 16

structure Token where
  kind : Nat
  val : Bytes
deriving DecidableEq, Repr, Inhabited

def tk (k : Nat) (v : Bytes := []) : Token := ⟨k, v⟩

/-! ## `strings.TrimSpace`, exactly -/

/-- UTF-8 encodings of the non-ASCII code points for which `unicode.IsSpace` holds:
    U+0085, U+00A0, U+1680, U+2000–U+200A, U+2028, U+2029, U+202F, U+205F, U+3000. -/
def uniSpaces : List Bytes :=
  [[0xC2,0x85],[0xC2,0xA0],[0xE1,0x9A,0x80],
   [0xE2,0x80,0x80],[0xE2,0x80,0x81],[0xE2,0x80,0x82],[0xE2,0x80,0x83],[0xE2,0x80,0x84],
   [0xE2,0x80,0x85],[0xE2,0x80,0x86],[0xE2,0x80,0x87],[0xE2,0x80,0x88],[0xE2,0x80,0x89],
   [0xE2,0x80,0x8A],[0xE2,0x80,0xA8],[0xE2,0x80,0xA9],[0xE2,0x80,0xAF],[0xE2,0x81,0x9F],
   [0xE3,0x80,0x80]]

/-- length of the space rune at the head of `s` (0 if none). -/
def leadSpaceLen (s : Bytes) : Nat :=
  match s with
  | [] => 0
  | c :: _ =>
    if isSpaceAscii c then 1
    else match uniSpaces.find? (fun p => p.isPrefixOf s) with
      | some p => p.length
      | none => 0

def trimLeftGo : Nat → Bytes → Bytes
  | 0, s => s
  | fuel+1, s =>
    match leadSpaceLen s with
    | 0 => s
    | n => trimLeftGo fuel (s.drop n)

/-- reversed encodings, to strip from the end by working on the reversed list -/
def trailSpaceLen (r : Bytes) : Nat :=   -- r is the REVERSED string
  match r with
  | [] => 0
  | c :: _ =>
    if isSpaceAscii c then 1
    else match uniSpaces.find? (fun p => p.reverse.isPrefixOf r) with
      | some p => p.length
      | none => 0

def trimRightRev : Nat → Bytes → Bytes
  | 0, r => r
  | fuel+1, r =>
    match trailSpaceLen r with
    | 0 => r
    | n => trimRightRev fuel (r.drop n)

/-- `strings.TrimSpace` (Unicode-aware, byte exact). -/
def trimSpaceGo (s : Bytes) : Bytes :=
  let l := trimLeftGo s.length s
  (trimRightRev l.length l.reverse).reverse

/-! ## `TokenizeExpression` -/

def isOperatorCh (c : UInt8) : Bool :=
  c == 43 || c == 45 || c == 42 || c == 47 || c == 61 || c == 60 || c == 62 ||
  c == 33 || c == 38 || c == 126 || c == 94 || c == 37        -- + - * / = < > ! & ~ ^ %

def isPunctCh (c : UInt8) : Bool :=
  c == 40 || c == 41 || c == 91 || c == 93 || c == 123 || c == 125 || c == 44 ||
  c == 46 || c == 58 || c == 124 || c == 63                    -- ( ) [ ] { } , . : | ?

/-- second character that fuses with the operator character `c` into a two-character operator. -/
def fusesWith (c n : UInt8) : Bool :=
  (c == 61 && n == 61) || (c == 33 && n == 61) || (c == 62 && n == 61) ||
  (c == 60 && n == 61) || (c == 38 && n == 38)
  -- (c == '|' && n == '|') and (c == '?' && n == '?') are unreachable in Go: neither is an operator char

/-- Lexer state: not in a string, or inside a string opened by `delim` with `acc` (reversed) read so far. -/
inductive LexMode
  | code
  | str (delim : UInt8) (acc : Bytes)

/-- `esc` is Go's `escapedAt(t.source, t.position)` for the head of `rest`: the byte is preceded by an ODD
    number of consecutive backslashes (`false` at position 0). It obeys
    `escapedAt (i+1) = (source[i] == '\\' && !escapedAt i)`; after a NAME, a NUMBER or the second byte of a
    two-character operator (`=`, `&`) the previous byte is no backslash, hence `false`.
    A quote opens or closes a literal iff it is not escaped: `'a\\'` ends at its last quote (escaped
    backslash), `'a\'b'` does not end at the middle one. `fuel` ≥ length of `rest` always suffices. -/
def lexAux : Nat → LexMode → Bool → Bytes → List Token
  | 0, _, _, _ => []
  | _, _, _, [] => []          -- an unterminated string literal is silently dropped, as in Go
  | fuel+1, mode, esc, c :: r =>
    let isQuote := (c == 34 || c == 39) && !esc
    let esc' := c == 92 && !esc
    match mode with
    | .str d acc =>
      if isQuote && c == d then
        tk STRING acc.reverse :: lexAux fuel .code esc' r
      else
        lexAux fuel (.str d (c :: acc)) esc' r
    | .code =>
      if isQuote then lexAux fuel (.str c []) esc' r
      else if isOperatorCh c then
        match r with
        | n :: r' =>
          if fusesWith c n then tk OPERATOR [c, n] :: lexAux fuel .code false r'
          else tk OPERATOR [c] :: lexAux fuel .code esc' r
        | [] => [tk OPERATOR [c]]
      else if isPunctCh c then tk PUNCT [c] :: lexAux fuel .code esc' r
      else if isWs c then lexAux fuel .code esc' r
      else if isIdentStart c then
        let more := r.takeWhile isIdentChar
        let rest := r.dropWhile isIdentChar
        tk NAME (c :: more) :: lexAux fuel .code false rest
      else if isDigit c then
        let ds := r.takeWhile isDigit
        let r1 := r.dropWhile isDigit
        match r1 with
        | 46 :: r2 =>
          let fs := r2.takeWhile isDigit
          let r3 := r2.dropWhile isDigit
          let lit := c :: ds ++ 46 :: fs
          tk NUMBER lit :: lexAux fuel .code false r3
        | _ => tk NUMBER (c :: ds) :: lexAux fuel .code false r1
      else lexAux fuel .code esc' r      -- unrecognised byte (a backslash among them): skipped

def lexExpr (s : Bytes) : List Token := lexAux (s.length + 1) .code false s

/-! ## `tokenizeTemplatePath`, `processBlockTag` -/

def tokenizeTemplatePath (path0 : Bytes) : List Token :=
  let path := trimSpaceGo path0
  let quoted (q : UInt8) := path.head? == some q && path.getLast? == some q
  if path.length ≥ 2 && (quoted 34 || quoted 39) then
    let content := (path.drop 1).take (path.length - 2)
    -- more than one literal ('a' ~ 'b') or an escaped quote: an expression
    if content.contains (path.headD 0) then lexExpr path else [tk STRING content]
  else lexExpr path

/-- `strings.Split(s, ",")` -/
def splitComma : Bytes → List Bytes
  | [] => [[]]
  | c :: r =>
    match splitComma r with
    | [] => [[]]            -- unreachable
    | h :: t => if c == 44 then [] :: h :: t else (c :: h) :: t

def fromMacroTokens (m0 : Bytes) : List Token :=
  let m := trimSpaceGo m0
  match indexOf (b " as ") (asciiLower m) with
  | some p => [tk NAME (trimSpaceGo (m.take p)), tk NAME (b "as"), tk NAME (trimSpaceGo (m.drop (p + 4)))]
  | none => [tk NAME m]

def intersperseComma : List (List Token) → List Token
  | [] => []
  | [x] => x
  | x :: y :: r => x ++ tk PUNCT [44] :: intersperseComma (y :: r)

def processBlockTag (content : Bytes) : List Token :=
  let (name, bc) :=
    match indexByte 32 content with
    | none => (content, [])
    | some p => (content.take p, trimSpaceGo (content.drop (p + 1)))
  let nameTok := tk NAME name
  if bc.isEmpty then [nameTok] else
  nameTok ::
  if name == b "if" || name == b "elseif" then lexExpr bc
  else if name == b "for" then
    match indexOf (b " in ") (asciiLower bc) with
    | some p =>
      let iters := trimSpaceGo (bc.take p)
      let coll := trimSpaceGo (bc.drop (p + 4))
      let itToks :=
        match indexByte 44 iters with
        | some q => [tk NAME (trimSpaceGo (iters.take q)), tk PUNCT [44], tk NAME (trimSpaceGo (iters.drop (q + 1)))]
        | none => [tk NAME iters]
      itToks ++ tk NAME (b "in") :: lexExpr coll
    | none => [tk NAME bc]
  else if name == b "set" then
    match indexByte 61 bc with
    | some p => tk NAME (trimSpaceGo (bc.take p)) :: tk OPERATOR [61] :: lexExpr (trimSpaceGo (bc.drop (p + 1)))
    | none => [tk NAME bc]
  else if name == b "extends" then tokenizeTemplatePath bc
  else if name == b "from" then
    match indexOf (b " import ") (asciiLower bc) with
    | some p =>
      let path := trimSpaceGo (bc.take p)
      let macros := trimSpaceGo (bc.drop (p + 8))
      tokenizeTemplatePath path ++ tk NAME (b "import") ::
        intersperseComma ((splitComma macros).map fromMacroTokens)
    | none => lexExpr bc
  else if name == b "import" then
    match indexOf (b " as ") (asciiLower bc) with
    | some p =>
      tokenizeTemplatePath (trimSpaceGo (bc.take p)) ++
        [tk NAME (b "as"), tk NAME (trimSpaceGo (bc.drop (p + 4)))]
    | none => lexExpr bc
  else lexExpr bc          -- do, include and every other tag

/-! ## Template-level scanning -/

inductive TagKind | var | block | comment
deriving DecidableEq, Repr

structure Opener where
  kind : TagKind
  trim : Bool
deriving DecidableEq, Repr

def Opener.len (o : Opener) : Nat := if o.trim then 3 else 2
def Opener.startKind (o : Opener) : Nat :=
  match o.kind, o.trim with
  | .var, false => VAR_START | .var, true => VAR_START_TRIM
  | .block, false => BLOCK_START | .block, true => BLOCK_START_TRIM
  | .comment, _ => COMMENT_START
def Opener.text (o : Opener) : Bytes :=
  match o.kind, o.trim with
  | .var, false => b "{{" | .var, true => b "{{-"
  | .block, false => b "{%" | .block, true => b "{%-"
  | .comment, _ => b "{#"

/-- `FindNextTag`: first position holding `{{`, `{%` or `{#`; a following `-` makes `{{`/`{%` trimming. -/
def findOpenerOpt : Bytes → Option (Nat × Opener)
  | 123 :: 123 :: r => some (0, ⟨.var, r.head? == some 45⟩)
  | 123 :: 37 :: r => some (0, ⟨.block, r.head? == some 45⟩)
  | 123 :: 35 :: _ => some (0, ⟨.comment, false⟩)
  | _ :: r => (findOpenerOpt r).map fun (i, o) => (i + 1, o)
  | [] => none

/-- The opener search of `TokenizeHtmlPreserving`: each of the five patterns is looked up with
    `strings.Index`; the smallest position wins, at equal positions the pattern tried first. -/
def htmlPatterns : List (Bytes × Opener) :=
  [(b "{{-", ⟨.var, true⟩), (b "{{", ⟨.var, false⟩), (b "{%-", ⟨.block, true⟩),
   (b "{%", ⟨.block, false⟩), (b "{#", ⟨.comment, false⟩)]

def findOpenerHtmlAux (s : Bytes) : List (Bytes × Opener) → Option (Nat × Opener) → Option (Nat × Opener)
  | [], best => best
  | (pat, o) :: ps, best =>
    if pat.isPrefixOf s then some (0, o)          -- found at the current position: `break`
    else match indexOf pat s, best with
      | some p, none => findOpenerHtmlAux s ps (some (p, o))
      | some p, some (q, o') => findOpenerHtmlAux s ps (if p < q then some (p, o) else some (q, o'))
      | none, best => findOpenerHtmlAux s ps best

def findOpenerHtml (s : Bytes) : Option (Nat × Opener) := findOpenerHtmlAux s htmlPatterns none

/-- `FindTagEnd`: first index `i` with `s[i] = a`, `s[i+1] = c`. -/
def findCloser (a c : UInt8) : Bytes → Option Nat
  | x :: y :: r => if x == a && y == c then some 0 else (findCloser a c (y :: r)).map (· + 1)
  | _ => none

def closerOf : TagKind → UInt8
  | .var => 125 | .block => 37 | .comment => 35

inductive ScanErr | unclosedVar | unclosedBlock | unclosedComment
deriving DecidableEq, Repr

def errOf : TagKind → ScanErr
  | .var => .unclosedVar | .block => .unclosedBlock | .comment => .unclosedComment

/-- What both tokenizers compute for the inside of a tag, given the bytes after the opener:
    (content, closing delimiter trims?, number of bytes consumed including the closer). -/
structure TagEnd where
  content : Bytes
  trim : Bool
  consumed : Nat
deriving DecidableEq, Repr

/-- `TokenizeOptimized` after the repair: `FindTagEnd`, then "preceded by a dash that belongs to the content". -/
def tagEndOpt (k : TagKind) (rest : Bytes) : Option TagEnd :=
  match findCloser (closerOf k) 125 rest with
  | none => none
  | some e =>
    let content := rest.take e
    if k != .comment && e > 0 && content.getLast? == some 45 then
      some ⟨content.dropLast, true, e + 2⟩
    else some ⟨content, false, e + 2⟩

/-- `TokenizeHtmlPreserving`: `strings.Index` for the plain and for the dashed closer, earlier one wins. -/
def tagEndHtml (k : TagKind) (rest : Bytes) : Option TagEnd :=
  match k with
  | .comment =>
    match indexOf [35, 125] rest with
    | none => none
    | some e => some ⟨rest.take e, false, e + 2⟩
  | _ =>
    let c := closerOf k
    match indexOf [c, 125] rest, indexOf [45, c, 125] rest with
    | some e1, none => some ⟨rest.take e1, false, e1 + 2⟩
    | some e1, some e2 =>
      if e1 < e2 then some ⟨rest.take e1, false, e1 + 2⟩ else some ⟨rest.take e2, true, e2 + 3⟩
    | none, some e2 => some ⟨rest.take e2, true, e2 + 3⟩    -- unreachable: "-}}" contains "}}"
    | none, none => none

def endKind (k : TagKind) (trim : Bool) : Nat :=
  match k, trim with
  | .var, false => VAR_END | .var, true => VAR_END_TRIM
  | .block, false => BLOCK_END | .block, true => BLOCK_END_TRIM
  | .comment, _ => COMMENT_END

def contentTokens (k : TagKind) (content : Bytes) : List Token :=
  match k with
  | .comment => if content.isEmpty then [] else [tk TEXT content]
  | .var => let c := trimSpaceGo content; if c.isEmpty then [] else lexExpr c
  | .block => processBlockTag (trimSpaceGo content)

/-- The common loop of both tokenizers, parameterised by the two searches.
    `fuel` ≥ `s.length + 1` suffices: every iteration consumes at least two bytes. -/
def scanWith (findOp : Bytes → Option (Nat × Opener)) (tagEnd : TagKind → Bytes → Option TagEnd) :
    Nat → Bytes → Except ScanErr (List Token)
  | 0, _ => .ok [tk EOF]
  | _, [] => .ok [tk EOF]
  | fuel+1, s =>
    match findOp s with
    | none => .ok [tk TEXT s, tk EOF]
    | some (i, o) =>
      if i > 0 && (s.drop (i - 1)).head? == some 92 then
        -- escaped opener: text up to the backslash, then the opener itself as text
        let pre := if i - 1 > 0 then [tk TEXT (s.take (i - 1))] else []
        match scanWith findOp tagEnd fuel (s.drop (i + o.len)) with
        | .ok ts => .ok (pre ++ tk TEXT o.text :: ts)
        | .error e => .error e
      else
        let pre := if i > 0 then [tk TEXT (s.take i)] else []
        let rest := s.drop (i + o.len)
        match tagEnd o.kind rest with
        | none => .error (errOf o.kind)
        | some te =>
          match scanWith findOp tagEnd fuel (rest.drop te.consumed) with
          | .ok ts => .ok (pre ++ tk o.startKind :: contentTokens o.kind te.content ++ tk (endKind o.kind te.trim) :: ts)
          | .error e => .error e

def scanHtml (s : Bytes) : Except ScanErr (List Token) := scanWith findOpenerHtml tagEndHtml (s.length + 1) s
def scanOpt (s : Bytes) : Except ScanErr (List Token) := scanWith findOpenerOpt tagEndOpt (s.length + 1) s

/-- `Parser.Parse`'s choice of tokenizer. The threshold is checked against TwigGen. -/
def sizeThreshold : Nat := 4096
def scan (s : Bytes) : Except ScanErr (List Token) :=
  if s.length > sizeThreshold then scanOpt s else scanHtml s

/-! ## `ApplyWhitespaceControl` and the trim-kind normalisation -/

def isStartTrim (k : Nat) : Bool := k == VAR_START_TRIM || k == BLOCK_START_TRIM
def isEndTrim (k : Nat) : Bool := k == VAR_END_TRIM || k == BLOCK_END_TRIM

/-- One left-to-right pass. `trimNext` says the previous token was a trimming closer. The Go loop
    mutates `tokens[i-1]` when it meets a trimming opener; here the text token looks one ahead. -/
def applyWsAux : Bool → List Token → List Token
  | _, [] => []
  | trimNext, t :: r =>
    if t.kind == TEXT then
      let v1 := if trimNext then trimLeadWs t.val else t.val
      let v2 := match r with
        | n :: _ => if isStartTrim n.kind then trimTrailWs v1 else v1
        | [] => v1
      ⟨TEXT, v2⟩ :: applyWsAux false r
    else t :: applyWsAux (isEndTrim t.kind) r

def applyWs (ts : List Token) : List Token := applyWsAux false ts

def normKind (k : Nat) : Nat :=
  if k == VAR_START_TRIM then VAR_START
  else if k == VAR_END_TRIM then VAR_END
  else if k == BLOCK_START_TRIM then BLOCK_START
  else if k == BLOCK_END_TRIM then BLOCK_END
  else k

def normalise (ts : List Token) : List Token := ts.map fun t => ⟨normKind t.kind, t.val⟩

/-- The token stream the parser sees. -/
def tokenize (s : Bytes) : Except ScanErr (List Token) :=
  match scan s with
  | .ok ts => .ok (normalise (applyWs ts))
  | .error e => .error e

end Twig
