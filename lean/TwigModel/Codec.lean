/-
  TwigModel.Codec — the binary container of compiled templates (compiled.go), byte for byte.

  Go ↔ Lean
    CompiledTemplate{Name, Source, LastModified, CompileTime, AST}   ↔ `Compiled`
    binary.Write(.., LittleEndian, uint32(len(s)))                   ↔ `u32le (s.length % 2^32)`
    writeString / readString                                         ↔ `wrStr` / `rdStr`
    binary.Write/Read of an int64                                    ↔ `i64le` / `rdI64`
    SerializeCompiledTemplate                                        ↔ `encode`
    deserializeBinaryFormat                                          ↔ `decodeBin`
    DeserializeCompiledTemplate (empty check, binary, gob fallback)  ↔ `decode gob`
    CompileTemplate / LoadFromCompiled                               ↔ `compile` / `loadFromCompiled`

  What is opaque: the two uses of encoding/gob.  (1) The `AST` field is an arbitrary byte string for the
  container; `CompileTemplate` obtains it from a function parameter `gobEnc`, `LoadFromCompiled` tries a
  function parameter `astDecode` on it.  (2) The legacy whole-file gob format that
  `DeserializeCompiledTemplate` falls back to when the binary decoder fails on an input that does not begin
  with the version byte is a function parameter `gob : Bytes → Option Compiled`; the current-code theorems hold
  for every `gob`.  `GobFacts` (what gob does on inputs that begin with 0x01; checked exhaustively by the harness)
  is used only by the pinned-tree regression theorems (`decodePinned`).
  Core Lean only.
-/
import TwigModel.Basic
namespace Twig.Codec

/-! ### fixed-width little-endian integers -/

def u32le (n : Nat) : Bytes :=
  [(n % 256).toUInt8, (n / 256 % 256).toUInt8, (n / 65536 % 256).toUInt8, (n / 16777216 % 256).toUInt8]

/-- `binary.Read(r, LittleEndian, &uint32)`: fails (io.EOF / io.ErrUnexpectedEOF) with fewer than 4 bytes. -/
def rdU32 : Bytes → Option (Nat × Bytes)
  | a :: b :: c :: d :: r => some (a.toNat + b.toNat * 256 + c.toNat * 65536 + d.toNat * 16777216, r)
  | _ => none

def u64le (n : Nat) : Bytes :=
  [(n % 256).toUInt8, (n / 256 % 256).toUInt8, (n / 65536 % 256).toUInt8, (n / 16777216 % 256).toUInt8,
   (n / 4294967296 % 256).toUInt8, (n / 1099511627776 % 256).toUInt8,
   (n / 281474976710656 % 256).toUInt8, (n / 72057594037927936 % 256).toUInt8]

def rdU64 : Bytes → Option (Nat × Bytes)
  | a :: b :: c :: d :: e :: f :: g :: h :: r =>
    some (a.toNat + b.toNat * 256 + c.toNat * 65536 + d.toNat * 16777216 + e.toNat * 4294967296
          + f.toNat * 1099511627776 + g.toNat * 281474976710656 + h.toNat * 72057594037927936, r)
  | _ => none

/-- `binary.Write(w, LittleEndian, int64)`: the two's-complement bit pattern, 8 bytes little endian. -/
def i64le (t : Int64) : Bytes := u64le t.toUInt64.toNat

def rdI64 (bs : Bytes) : Option (Int64 × Bytes) :=
  match rdU64 bs with
  | some (n, r) => some ((UInt64.ofNat n).toInt64, r)
  | none => none

/-! ### length-prefixed strings -/

/-- `writeString`: `uint32(len(s))` truncates the length modulo 2^32, then all of `s` follows. -/
def wrStr (s : Bytes) : Bytes := u32le (s.length % 4294967296) ++ s

/-- `readString`: length, then `io.ReadFull` of exactly that many bytes (error when fewer remain;
    a zero length succeeds even at the end of the input). -/
def rdStr (bs : Bytes) : Option (Bytes × Bytes) :=
  match rdU32 bs with
  | some (n, r) => if n ≤ r.length then some (r.take n, r.drop n) else none
  | none => none

/-! ### the container -/

structure Compiled where
  name : Bytes
  source : Bytes
  lastModified : Int64
  compileTime : Int64
  ast : Bytes
deriving DecidableEq, Repr

/-- every length fits the 32-bit prefix (always true of values that fit in memory on the harness side,
    the interesting boundary being exactly 2^32) -/
def Compiled.fits (c : Compiled) : Prop :=
  c.name.length < 4294967296 ∧ c.source.length < 4294967296 ∧ c.ast.length < 4294967296

instance (c : Compiled) : Decidable c.fits := by unfold Compiled.fits; exact inferInstance

-- FACT: compiled.go SerializeCompiledTemplate writes `uint8(1)` first; deserializeBinaryFormat requires it
def formatVersion : UInt8 := 1

/-- `SerializeCompiledTemplate` (never fails on a bytes.Buffer). -/
def encode (c : Compiled) : Bytes :=
  formatVersion :: (wrStr c.name ++ (wrStr c.source ++ (i64le c.lastModified ++ (i64le c.compileTime ++ wrStr c.ast))))

inductive DecodeErr where
  | empty          -- "empty data cannot be deserialized" (also: version byte missing)
  | badVersion     -- "unsupported format version"
  | name           -- "failed to read name"
  | source         -- "failed to read source"
  | lastModified   -- "failed to read LastModified"
  | compileTime    -- "failed to read CompileTime"
  | astLength      -- "failed to read AST length"
  | astData        -- "failed to read AST data"
deriving DecidableEq, Repr

/-! `deserializeBinaryFormat`, one small function per field in reading order (kept separate so that each
   step has its own rewrite lemma; together they are the straight-line Go function). Bytes after the AST
   are not looked at. -/

def decAst (name source : Bytes) (lm ct : Int64) (r4 : Bytes) : Except DecodeErr Compiled :=
  match rdU32 r4 with
  | none => .error .astLength
  | some (n, r5) =>
    if n ≤ r5.length then .ok ⟨name, source, lm, ct, r5.take n⟩ else .error .astData

def decCt (name source : Bytes) (lm : Int64) (r3 : Bytes) : Except DecodeErr Compiled :=
  match rdI64 r3 with
  | none => .error .compileTime
  | some (ct, r4) => decAst name source lm ct r4

def decLm (name source : Bytes) (r2 : Bytes) : Except DecodeErr Compiled :=
  match rdI64 r2 with
  | none => .error .lastModified
  | some (lm, r3) => decCt name source lm r3

def decSource (name : Bytes) (r1 : Bytes) : Except DecodeErr Compiled :=
  match rdStr r1 with
  | none => .error .source
  | some (source, r2) => decLm name source r2

def decName (r0 : Bytes) : Except DecodeErr Compiled :=
  match rdStr r0 with
  | none => .error .name
  | some (name, r1) => decSource name r1

/-- `deserializeBinaryFormat` -/
def decodeBin (bs : Bytes) : Except DecodeErr Compiled :=
  match bs with
  | [] => .error .empty
  | v :: r0 => if v != formatVersion then .error .badVersion else decName r0

-- FACT: compiled.go DeserializeCompiledTemplate: `if data[0] == 1 { return nil, err }` stands before the gob
-- fallback, i.e. an input that begins with the binary format's version byte is never handed to the legacy gob
-- decoder (`false`).  On the pinned tree every input the binary decoder rejected went to gob (`true`), which
-- accepted some truncated files (C16_pinned_counterexample_prefix_gob).
def gobFallbackOnV1 : Bool := false

/-- `DeserializeCompiledTemplate`: empty input is an error; otherwise the binary format; when that fails and the
    input does not announce the binary format, the whole input is handed to the legacy gob decoder. On that path
    the Go code returns gob's error; the model keeps the binary decoder's error as the class. -/
def decode (gob : Bytes → Option Compiled) (bs : Bytes) : Except DecodeErr Compiled :=
  if bs.isEmpty then .error .empty else
  match decodeBin bs with
  | .ok c => .ok c
  | .error e =>
    if bs.head? == some formatVersion then .error e else
    match gob bs with
    | some c => .ok c
    | none => .error e

/-- the pinned tree's dispatch (regression model): gob is consulted whatever the first byte -/
def decodePinned (gob : Bytes → Option Compiled) (bs : Bytes) : Except DecodeErr Compiled :=
  if bs.isEmpty then .error .empty else
  match decodeBin bs with
  | .ok c => .ok c
  | .error e =>
    match gob bs with
    | some c => .ok c
    | none => .error e

/-- the decoder selected by the fact above (the driver's `fallback_v1` request field can override it) -/
def decodeFor (fallbackOnV1 : Bool) (gob : Bytes → Option Compiled) : Bytes → Except DecodeErr Compiled :=
  if fallbackOnV1 then decodePinned gob else decode gob

def emptyCompiled : Compiled := ⟨[], [], 0, 0, []⟩

-- FACT: encoding/gob on a stream that begins with 0x01: one message of one byte `x`, read as a type id.
-- ids 18 (0x24: gob's builtin CommonType{Name,Id}) and 21 (0x2a: fieldType{Name,Id}) are struct types with a
-- string field `Name`, hence "compatible" with CompiledTemplate; the empty message body decodes to the zero
-- value. Every other `x` (and the one-byte stream) is an error. Checked by the harness for all 256 `x`.
-- (Only the pinned-tree regression theorems use it.)
def gobOnV1 (x : UInt8) : Option Compiled :=
  if x == 0x24 || x == 0x2a then some emptyCompiled else none

/-- what the pinned-tree theorems assume about the legacy gob decoder (and nothing else) -/
structure GobFacts (gob : Bytes → Option Compiled) : Prop where
  single : gob [1] = none
  v1 : ∀ x t, gob (1 :: x :: t) = gobOnV1 x

/-- a concrete `gob` satisfying `GobFacts` that rejects everything not beginning with 0x01 — the driver uses
    it and flags answers on other first bytes as "opaque" (the harness then consults the real gob decoder) -/
def gobModel : Bytes → Option Compiled
  | 1 :: x :: _ => gobOnV1 x
  | _ => none

/-! ### allocation: how many bytes the decoder asks `make` for

  `readString` and the AST read call `make([]byte, length)`.  -/

-- FACT: compiled.go readString and the AST read test `int64(length) > int64(r.Len())` and return
-- io.ErrUnexpectedEOF *before* `make([]byte, length)` (`true`); on the pinned tree the allocation came first (`false`).
def lengthCheckedBeforeAlloc : Bool := true

/-- bytes passed to `make` by one length-prefixed read -/
def rdStrAlloc (checked : Bool) (bs : Bytes) : Nat :=
  match rdU32 bs with
  | some (n, r) => if n ≤ r.length then n else (if checked then 0 else n)
  | none => 0

def allocAst (checked : Bool) (r4 : Bytes) : Nat := rdStrAlloc checked r4

def allocCt (checked : Bool) (r3 : Bytes) : Nat :=
  match rdI64 r3 with
  | none => 0
  | some (_, r4) => allocAst checked r4

def allocLm (checked : Bool) (r2 : Bytes) : Nat :=
  match rdI64 r2 with
  | none => 0
  | some (_, r3) => allocCt checked r3

def allocSource (checked : Bool) (r1 : Bytes) : Nat :=
  rdStrAlloc checked r1 +
  match rdStr r1 with
  | none => 0
  | some (_, r2) => allocLm checked r2

def allocName (checked : Bool) (r0 : Bytes) : Nat :=
  rdStrAlloc checked r0 +
  match rdStr r0 with
  | none => 0
  | some (_, r1) => allocSource checked r1

/-- total size of the buffers `deserializeBinaryFormat` allocates for its input (it stops at the first error) -/
def allocBin (checked : Bool) (bs : Bytes) : Nat :=
  match bs with
  | [] => 0
  | v :: r0 => if v != formatVersion then 0 else allocName checked r0

/-! ### compile / load -/

/-- the part of `Template` that compilation and loading touch (`N` = parsed node tree, opaque) -/
structure Tpl (N : Type) where
  name : Bytes
  source : Bytes
  nodes : N
  lastModified : Int64

/-- `CompileTemplate`: `gobEnc` is `gob.NewEncoder(&buf).Encode(tmpl.nodes)` (its error is ignored and
    whatever was written stays in the buffer), `now` is `time.Now().Unix()`. -/
def compile {N : Type} (gobEnc : N → Bytes) (now : Int64) (t : Tpl N) : Compiled :=
  ⟨t.name, t.source, t.lastModified, now, gobEnc t.nodes⟩

/-- `LoadFromCompiled`: a non-empty AST is tried first (`astDecode a = none` ⇔ gob error or nil nodes),
    otherwise the stored source is parsed again. -/
def loadFromCompiled {N E : Type} (astDecode : Bytes → Option N) (parse : Bytes → Except E N)
    (c : Compiled) : Except E (Tpl N) :=
  match (if c.ast.length > 0 then astDecode c.ast else none) with
  | some n => .ok ⟨c.name, c.source, n, c.lastModified⟩
  | none => (parse c.source).map fun n => ⟨c.name, c.source, n, c.lastModified⟩

-- FACT (checked by the harness on every compiled template, not used by the container theorems): what
-- `CompileTemplate` stores as AST on this tree is never decodable — gob writes the type descriptor of RootNode
-- (about 20 bytes, e.g. 13 7f 03 01 01 08 "RootNode" 01 ff 80 00 00 00; the type id inside depends on what the
-- process has gob-encoded before) and then fails with "type twig.RootNode has no exported fields"; the decoder
-- answers "unexpected EOF".  Hence the hypothesis `astDecode (gobEnc t.nodes) = none` of C16_load_equiv.
def astExample : Bytes :=
  [0x13, 0x7f, 0x03, 0x01, 0x01, 0x08, 0x52, 0x6f, 0x6f, 0x74, 0x4e, 0x6f, 0x64, 0x65, 0x01, 0xff, 0x80, 0x00, 0x00, 0x00]

end Twig.Codec
