/-
  TwigModel.EngineCache — property C15: the template cache and the loaders of `twig.Engine`.

  Two independent descriptions live here (core Lean only, both executable by the driver):

  * `step` — a path-by-path transliteration of the Go code of the *fixed* tree
      twig.go   Engine.Load / Render / RegisterString / RegisterTemplate / SetCache / SetAutoReload /
                SetDevelopmentMode / RegisterLoader
      loader.go the `Loader` and `TimestampAwareLoader` interfaces (an abstract loader = a finite map
                name ↦ (source, mtime) + the bit "implements TimestampAwareLoader" + call counters).
  * `Spec.*` — what the six sentences S1 … S6 of the property say, written as functions of the
      *history* (the list of operations performed so far), with no loop over loaders, no counters and
      no code paths: configuration and loader contents are "the last write wins" scans of the history,
      `Spec.verdict` says sentence by sentence whether the engine may answer from what it holds, and
      `Spec.firstHolder` is "the first loader in registration order that has the name".

  `TwigProofs/C15.lean` proves that the two agree on every history and derives the six sentences.
-/
namespace Twig.EngineCache

abbrev Name := Nat
/-- a template source; the harness uses the text `v<k>` so that a render shows which version was served -/
abbrev Src := Nat
/-- modification time (Go: `int64` seconds); may be zero or negative -/
abbrev Time := Int

/-- point update of a function on `Nat` -/
def upd {α : Type} (f : Nat → α) (k : Nat) (v : α) : Nat → α := fun x => if x = k then v else f x

@[simp] theorem upd_same {α : Type} (f : Nat → α) (k : Nat) (v : α) : upd f k v k = v := by simp [upd]
theorem upd_other {α : Type} (f : Nat → α) (k : Nat) (v : α) (x : Nat) (h : x ≠ k) : upd f k v x = f x := by
  simp [upd, h]

/-! ## The loaders (loader.go: interfaces `Loader`, `TimestampAwareLoader`) -/

/-- One registered loader. `files n = none` ⇔ `Load(n)` and `GetModifiedTime(n)` return an error and
    `Exists(n)` is false. `tsAware` ⇔ the Go value satisfies `TimestampAwareLoader`.
    `loads n` / `stats n` count the calls of `Load(n)` / `GetModifiedTime(n)` made by the engine. -/
structure Loader where
  files : Name → Option (Src × Time)
  tsAware : Bool
  loads : Name → Nat
  stats : Name → Nat

namespace Loader
def empty (ts : Bool) : Loader := ⟨fun _ => none, ts, fun _ => 0, fun _ => 0⟩
def countLoad (l : Loader) (n : Name) : Loader := { l with loads := upd l.loads n (l.loads n + 1) }
def countStat (l : Loader) (n : Name) : Loader := { l with stats := upd l.stats n (l.stats n + 1) }
def put (l : Loader) (n : Name) (s : Src) (t : Time) : Loader := { l with files := upd l.files n (some (s, t)) }
def delete (l : Loader) (n : Name) : Loader := { l with files := upd l.files n none }
/-- change the mtime of an existing template, keep its source -/
def touch (l : Loader) (n : Name) (t : Time) : Loader :=
  match l.files n with
  | some (s, _) => l.put n s t
  | none => l
end Loader

/-! ## Engine state -/

/-- A value of `Engine.templates` (`*Template`): the source, `Template.loader` (`none` = Go `nil`, i.e. a
    registered template; `some i` = the i-th registered loader) and `Template.lastModified`. -/
structure Entry where
  src : Src
  loader : Option Nat
  lastMod : Time
deriving DecidableEq, Repr

/-- FACT: `RegisterString` and `RegisterTemplate` (of a template made by `ParseTemplate`/`NewTemplate`/
    `LoadFromCompiled`) store a template whose `loader` field is nil. Its `lastModified` is the wall clock;
    `Engine.Load` never reads it when `loader == nil`, the model records 0. -/
def registeredEntry (s : Src) : Entry := ⟨s, none, 0⟩

structure State where
  /-- `Environment.cache` -/
  cache : Bool
  /-- `Engine.autoReload` -/
  autoReload : Bool
  /-- `Environment.debug` / `Engine.debug` (no influence on `Load`) -/
  debug : Bool
  /-- `Engine.loaders`, in registration order -/
  loaders : List Loader
  /-- `Engine.templates` -/
  templates : Name → Option Entry

/-- `twig.New()`: caching on, auto-reload off, debug off, no loaders, empty cache.
    FACT: `New` sets `Environment.cache = true`, `Environment.debug = false`, `Engine.autoReload = false`. -/
def init : State := ⟨true, false, false, [], fun _ => none⟩

inductive Op where
  | setCache (b : Bool)
  | setAutoReload (b : Bool)
  | setDevMode (b : Bool)
  | registerLoader (ts : Bool)
  | registerString (n : Name) (s : Src)
  | registerTemplate (n : Name) (s : Src)
  | loaderPut (i : Nat) (n : Name) (s : Src) (t : Time)
  | loaderDelete (i : Nat) (n : Name)
  | loaderTouch (i : Nat) (n : Name) (t : Time)
  | load (n : Name)
  | render (n : Name)
deriving DecidableEq, Repr

/-- what a step shows: nothing (configuration / registration / loader content ops), an error matching
    `ErrTemplateNotFound`, or the source that was served -/
inductive Out where
  | quiet
  | notFound
  | served (s : Src)
deriving DecidableEq, Repr

/-- The loader loop of `Engine.Load` (`for _, loader := range e.loaders`), from loader index `i` on.
    Every loader tried gets one `Load(name)`; the first that succeeds is additionally asked
    `GetModifiedTime(name)` if it is timestamp-aware (otherwise `lastModified` stays 0) and the loop stops.
    Returns the loaders with updated counters and `(index, source, lastModified)` of the hit. -/
def loadLoop : List Loader → Nat → Name → List Loader × Option (Nat × Src × Time)
  | [], _, _ => ([], none)
  | l :: ls, i, n =>
    match l.files n with
    | none =>
      let r := loadLoop ls (i + 1) n
      (l.countLoad n :: r.1, r.2)
    | some (s, t) =>
      if l.tsAware then ((l.countLoad n).countStat n :: ls, some (i, s, t))
      else (l.countLoad n :: ls, some (i, s, 0))

/-- second half of `Engine.Load` ("Template not in cache or cache disabled or needs reloading"):
    loader loop, not-found error, cache write iff `environment.cache`. -/
def reload (σ : State) (n : Name) : State × Out :=
  let r := loadLoop σ.loaders 0 n
  match r.2 with
  | none => ({ σ with loaders := r.1 }, .notFound)
  | some (i, s, t) =>
    ({ σ with loaders := r.1,
              templates := if σ.cache then upd σ.templates n (some ⟨s, some i, t⟩) else σ.templates },
     .served s)

/-- `Engine.Load`, first half: the cache lookup and the staleness test.
    FACT: the hit guard is `ok && (e.environment.cache || tmpl.loader == nil)`; the staleness condition is
    `err != nil || currentModTime > tmpl.lastModified` and is evaluated only for `tmpl.loader.(TimestampAwareLoader)`;
    the cache write at the end is guarded by `if e.environment.cache`. -/
def load (σ : State) (n : Name) : State × Out :=
  match σ.templates n with
  | none => reload σ n                                   -- !ok
  | some e =>
    if σ.cache || e.loader.isNone then                    -- ok && (e.environment.cache || tmpl.loader == nil)
      if !σ.autoReload then (σ, .served e.src)            -- if !e.autoReload { return tmpl }
      else
        match e.loader with
        | none => (σ, .served e.src)                      -- tmpl.loader == nil: needsReload stays false
        | some i =>
          match σ.loaders[i]? with
          | none => (σ, .served e.src)                    -- unreachable (C15_inv): the entry's loader is registered
          | some l =>
            if l.tsAware then                             -- tmpl.loader.(TimestampAwareLoader)
              let σ' := { σ with loaders := σ.loaders.modify i (·.countStat n) }   -- GetModifiedTime(name)
              match l.files n with
              | none => reload σ' n                       -- err != nil
              | some (_, t) =>
                if t > e.lastMod then reload σ' n         -- currentModTime > tmpl.lastModified
                else (σ', .served e.src)
            else (σ, .served e.src)                       -- not timestamp-aware: needsReload stays false
    else reload σ n                                       -- a loader's template while caching is off

/-- One operation of the history.
    FACT: `SetCache(b)` assigns `environment.cache = b` only; `SetAutoReload(b)` assigns `autoReload = b` only;
    `SetDevelopmentMode(b)` assigns `environment.debug = b`, `debug = b`, `autoReload = b`, `environment.cache = !b`;
    `RegisterLoader` appends to `loaders`; `RegisterString`/`RegisterTemplate` assign `templates[name]`
    unconditionally (fix 0018; on the pinned tree only when `environment.cache`). -/
def step (σ : State) : Op → State × Out
  | .setCache b => ({ σ with cache := b }, .quiet)
  | .setAutoReload b => ({ σ with autoReload := b }, .quiet)
  | .setDevMode b => ({ σ with debug := b, autoReload := b, cache := !b }, .quiet)
  | .registerLoader ts => ({ σ with loaders := σ.loaders ++ [Loader.empty ts] }, .quiet)
  | .registerString n s => ({ σ with templates := upd σ.templates n (some (registeredEntry s)) }, .quiet)
  | .registerTemplate n s => ({ σ with templates := upd σ.templates n (some (registeredEntry s)) }, .quiet)
  | .loaderPut i n s t => ({ σ with loaders := σ.loaders.modify i (·.put n s t) }, .quiet)
  | .loaderDelete i n => ({ σ with loaders := σ.loaders.modify i (·.delete n) }, .quiet)
  | .loaderTouch i n t => ({ σ with loaders := σ.loaders.modify i (·.touch n t) }, .quiet)
  | .load n => load σ n
  | .render n => load σ n                                 -- Render = Load, then render the template

/-- A history: the operations performed on a fresh engine, oldest first. -/
abbrev History := List Op

def runFrom (σ : State) (h : History) : State := h.foldl (fun σ op => (step σ op).1) σ
def run (h : History) : State := runFrom init h

/-- what a `Load(n)`/`Render(n)` issued now would return -/
def serve (σ : State) (n : Name) : Out := (load σ n).2

/-- per-step outputs of a whole history, with the state after each step (for the driver) -/
def trace : State → History → List (Out × State)
  | _, [] => []
  | σ, op :: h => let r := step σ op; (r.2, r.1) :: trace r.1 h

/-! total accessors into the loader list (a loader that does not exist holds nothing, is not timestamp-aware
    and has never been called) -/
def lfiles (ls : List Loader) (i : Nat) (n : Name) : Option (Src × Time) :=
  match ls[i]? with | some l => l.files n | none => none
def lts (ls : List Loader) (i : Nat) : Bool := match ls[i]? with | some l => l.tsAware | none => false
def lloads (ls : List Loader) (i : Nat) (n : Name) : Nat := match ls[i]? with | some l => l.loads n | none => 0
def lstats (ls : List Loader) (i : Nat) (n : Name) : Nat := match ls[i]? with | some l => l.stats n | none => 0

/-- number of `Load(n)` calls loader `i` has received -/
def State.loads (σ : State) (i : Nat) (n : Name) : Nat := lloads σ.loaders i n
/-- number of `GetModifiedTime(n)` calls loader `i` has received -/
def State.stats (σ : State) (i : Nat) (n : Name) : Nat := lstats σ.loaders i n
def State.files (σ : State) (i : Nat) (n : Name) : Option (Src × Time) := lfiles σ.loaders i n
def State.tsOf (σ : State) (i : Nat) : Bool := lts σ.loaders i

/-! ## The specification: the six sentences as functions of the history

All `…R` functions take the history **newest first** (`h.reverse`), so that "the most recent … wins" is
the first matching element; the un-suffixed wrappers take the history oldest first. -/
namespace Spec

/-- caching is on unless the most recent `SetCache`/`SetDevelopmentMode` said otherwise -/
def cacheOnR : List Op → Bool
  | [] => true
  | .setCache b :: _ => b
  | .setDevMode b :: _ => !b
  | _ :: r => cacheOnR r

/-- auto-reload is off unless the most recent `SetAutoReload`/`SetDevelopmentMode` said otherwise -/
def autoReloadR : List Op → Bool
  | [] => false
  | .setAutoReload b :: _ => b
  | .setDevMode b :: _ => b
  | _ :: r => autoReloadR r

def debugR : List Op → Bool
  | [] => false
  | .setDevMode b :: _ => b
  | _ :: r => debugR r

/-- number of loaders registered so far -/
def nLoadersR : List Op → Nat
  | [] => 0
  | .registerLoader _ :: r => nLoadersR r + 1
  | _ :: r => nLoadersR r

/-- is the i-th registered loader timestamp-aware (false if there is no such loader) -/
def tsAwareR : List Op → Nat → Bool
  | [], _ => false
  | .registerLoader ts :: r, i => if i = nLoadersR r then ts else tsAwareR r i
  | _ :: r, i => tsAwareR r i

/-- what loader `i` holds under name `n`: the most recent put / delete / touch decides -/
def contentR : List Op → Nat → Name → Option (Src × Time)
  | [], _, _ => none
  | .loaderPut j m s t :: r, i, n =>
    if j = i ∧ m = n ∧ i < nLoadersR r then some (s, t) else contentR r i n
  | .loaderDelete j m :: r, i, n => if j = i ∧ m = n then none else contentR r i n
  | .loaderTouch j m t :: r, i, n =>
    if j = i ∧ m = n then (match contentR r i n with | some (s, _) => some (s, t) | none => none)
    else contentR r i n
  | _ :: r, i, n => contentR r i n

/-- the most recent registration under `n`, if any (S1) -/
def registeredR : List Op → Name → Option Src
  | [], _ => none
  | .registerString m s :: r, n => if m = n then some s else registeredR r n
  | .registerTemplate m s :: r, n => if m = n then some s else registeredR r n
  | _ :: r, n => registeredR r n

/-- first index `j ≥ i`, `j < i + fuel`, with `cont j = some _` -/
def firstFrom (cont : Nat → Option (Src × Time)) : Nat → Nat → Option (Nat × Src × Time)
  | _, 0 => none
  | i, fuel + 1 =>
    match cont i with
    | some (s, t) => some (i, s, t)
    | none => firstFrom cont (i + 1) fuel

/-- S5: the first loader in registration order that has the name (index, source, mtime) -/
def firstHolderR (r : List Op) (n : Name) : Option (Nat × Src × Time) :=
  firstFrom (fun i => contentR r i n) 0 (nLoadersR r)

/-- may the engine answer from what it holds, or must the loaders be consulted? -/
inductive Verdict where
  | useHeld (s : Src)
  | consult
deriving DecidableEq, Repr

/-- The sentences S1–S4, in this order, for what the engine holds under the name (`held`):
    nothing held ⇒ ask the loaders; a registration ⇒ it is served (S1); a loader's template: caching off ⇒ ask
    the loaders (S2); auto-reload off ⇒ it stays (S4); auto-reload on ⇒ ask again exactly if its loader is
    timestamp-aware and the template is gone from it or its mtime is newer than the recorded one (S3). -/
def verdict (cacheOn autoReload : Bool) (ts : Nat → Bool) (cont : Nat → Option (Src × Time)) :
    Option Entry → Verdict
  | none => .consult
  | some ⟨s, none, _⟩ => .useHeld s
  | some ⟨s, some i, t⟩ =>
    if !cacheOn then .consult
    else if !autoReload then .useHeld s
    else if !ts i then .useHeld s
    else match cont i with
      | none => .consult
      | some (_, t') => if t' > t then .consult else .useHeld s

/-- the entry a successful consultation produces: the recorded mtime is the loader's if it is
    timestamp-aware and 0 otherwise -/
def consultedEntry (ts : Nat → Bool) (hit : Nat × Src × Time) : Entry :=
  ⟨hit.2.1, some hit.1, if ts hit.1 then hit.2.2 else 0⟩

/-- What the engine holds under name `n` after the history: the latest registration, else the result of the
    most recent consultation made while caching was on. -/
def heldR : List Op → Name → Option Entry
  | [], _ => none
  | op :: r, n =>
    let callOf (m : Name) : Option Entry :=
      if m = n then
        match verdict (cacheOnR r) (autoReloadR r) (tsAwareR r) (fun i => contentR r i n) (heldR r n) with
        | .useHeld _ => heldR r n
        | .consult =>
          match firstHolderR r n with
          | some hit => if cacheOnR r then some (consultedEntry (tsAwareR r) hit) else heldR r n
          | none => heldR r n                                         -- S6: not found changes nothing
      else heldR r n
    match op with
    | .registerString m s => if m = n then some (registeredEntry s) else heldR r n
    | .registerTemplate m s => if m = n then some (registeredEntry s) else heldR r n
    | .load m => callOf m
    | .render m => callOf m
    | _ => heldR r n

def verdictR (r : List Op) (n : Name) : Verdict :=
  verdict (cacheOnR r) (autoReloadR r) (tsAwareR r) (fun i => contentR r i n) (heldR r n)

/-- what `Load(n)`/`Render(n)` must return after the history -/
def expectedR (r : List Op) (n : Name) : Out :=
  match verdictR r n with
  | .useHeld s => .served s
  | .consult =>
    match firstHolderR r n with
    | some (_, s, _) => .served s
    | none => .notFound                                                -- S6

/-- how many `Load(n)` calls the next `Load(n)`/`Render(n)` makes on loader `i`: when the loaders are
    consulted, one on every loader up to and including the first holder (all of them if nobody has the name) -/
def expectedLoadsR (r : List Op) (n : Name) (i : Nat) : Nat :=
  match verdictR r n with
  | .useHeld _ => 0
  | .consult =>
    match firstHolderR r n with
    | some (j, _, _) => if i ≤ j then 1 else 0
    | none => if i < nLoadersR r then 1 else 0

/-- how many `GetModifiedTime(n)` calls the next call makes on loader `i`: one for the staleness test of a
    held template of a timestamp-aware loader under caching + auto-reload, one after a successful read -/
def expectedStatsR (r : List Op) (n : Name) (i : Nat) : Nat :=
  (match heldR r n with
   | some ⟨_, some j, _⟩ => if cacheOnR r && autoReloadR r && tsAwareR r j && i == j then 1 else 0
   | _ => 0) +
  (match verdictR r n with
   | .useHeld _ => 0
   | .consult =>
     match firstHolderR r n with
     | some (j, _, _) => if i == j && tsAwareR r j then 1 else 0
     | none => 0)

/-! chronological wrappers -/
def cacheOn (h : History) : Bool := cacheOnR h.reverse
def autoReload (h : History) : Bool := autoReloadR h.reverse
def nLoaders (h : History) : Nat := nLoadersR h.reverse
def tsAware (h : History) (i : Nat) : Bool := tsAwareR h.reverse i
def content (h : History) (i : Nat) (n : Name) : Option (Src × Time) := contentR h.reverse i n
def registered (h : History) (n : Name) : Option Src := registeredR h.reverse n
def firstHolder (h : History) (n : Name) : Option (Nat × Src × Time) := firstHolderR h.reverse n
def held (h : History) (n : Name) : Option Entry := heldR h.reverse n
def consults (h : History) (n : Name) : Bool := verdictR h.reverse n == .consult
def expected (h : History) (n : Name) : Out := expectedR h.reverse n
def expectedLoads (h : History) (n : Name) (i : Nat) : Nat := expectedLoadsR h.reverse n i
def expectedStats (h : History) (n : Name) (i : Nat) : Nat := expectedStatsR h.reverse n i

end Spec

end Twig.EngineCache
