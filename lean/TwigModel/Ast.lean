/-
  TwigModel.Ast — expression and statement trees (expr.go, node.go), reduced to what the parser
  can produce from template source.
-/
import TwigModel.Value
namespace Twig

inductive UnOp | not | neg | pos
deriving DecidableEq, Repr, Inhabited

inductive Expr
  | null
  | bool (v : Bool)
  | int (i : Int)
  | str (s : Bytes)
  | unsup (why : String)                     -- a literal outside the model (non-integral float, huge int)
  | var (n : Bytes)
  | unary (op : UnOp) (e : Expr)
  | binary (op : BinOp) (l r : Expr)
  | badBinary (l r : Expr)                   -- `is` not followed by a test name: evaluates both sides, then fails
  | cond (c t f : Expr)
  | attr (e : Expr) (name : Bytes)
  | item (e i : Expr)
  | filter (e : Expr) (name : Bytes) (args : List Expr)
  | call (name : Bytes) (args : List Expr)
  | mcall (obj : Expr) (name : Bytes) (args : List Expr)
  | test (e : Expr) (name : Bytes) (args : List Expr)
  | array (items : List Expr)
  | hash (kvs : List Expr)                    -- key, value, key, value, … (even length)
deriving Repr, Inhabited

inductive Node
  | text (s : Bytes)
  | print (e : Expr)
  | ifN (c : Expr) (thn : List Node) (els : List Node)     -- elseif chains are nested in `els`
  | forN (key : Option Bytes) (val : Bytes) (seq : Expr) (body : List Node) (els : List Node)
  | setN (name : Bytes) (e : Expr)
  | doN (e : Expr)
  | block (name : Bytes) (body : List Node)
  | extends (e : Expr)
  | include (tpl : Expr) (varNames : List Bytes) (varExprs : List Expr) (ignoreMissing only sandboxed : Bool)
  | macro (name : Bytes) (params : List Bytes) (defNames : List Bytes) (defExprs : List Expr) (body : List Node)
  | importN (tpl : Expr) (alias : Bytes)
  | fromN (tpl : Expr) (names : List (Bytes × Bytes))      -- (macro name, name it is bound to)
  | apply (filter : Bytes) (body : List Node)
  | verbatim (s : Bytes)
  | spaceless (body : List Node)
deriving Repr, Inhabited

end Twig
