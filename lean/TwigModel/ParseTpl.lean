/-
  TwigModel.ParseTpl — parseOuterTemplate and the tag handlers (parser.go, parse_*.go) over the
  normalised token stream.  Same conventions as ParseExpr (token list in, rest out, fuel = depth).
-/
import TwigModel.ParseExpr
namespace Twig

def endTagNames : List Bytes :=
  [b "endif", b "endfor", b "endblock", b "endmacro", b "else", b "elseif", b "endspaceless",
   b "endapply", b "endverbatim"]

def isK (t : Token) (k : Nat) : Bool := t.kind == k

/-- consume one token of kind `k` -/
def expectK (k : Nat) (msg : String) : List Token → R (List Token)
  | t :: r => if t.kind == k then .ok r else perr msg
  | [] => perr msg

/-- `{% name` at the head? returns the rest after the name -/
def expectTag (name : String) (msg : String) : List Token → R (List Token)
  | s :: n :: r => if s.kind == BLOCK_START && isName n name then .ok r else perr msg
  | _ => perr msg

def isExprTok (t : Token) : Bool :=
  t.kind == NAME || t.kind == STRING || t.kind == NUMBER || t.kind == OPERATOR || t.kind == PUNCT

/-- parse_verbatim.go: reassemble the body from tokens up to `{% endverbatim %}`. -/
def verbInner (endK : Nat) (closeText : Bytes) (spaceAfterFirstName : Bool) :
    Bool → List Token → Option (Bytes × List Token)     -- `first` = directly after the start token
  | _, [] => none
  | first, t :: r =>
    if t.kind == endK then some (closeText, r)
    else
      let piece : Bytes :=
        if endK == COMMENT_END then (if t.kind == TEXT then t.val else [])
        else if isExprTok t then (if spaceAfterFirstName && first && t.kind == NAME then t.val ++ [32] else t.val)
        else []
      match verbInner endK closeText spaceAfterFirstName false r with
      | some (s, r') => some (piece ++ s, r')
      | none => none

def verbBody : Nat → List Token → R (Bytes × List Token)
  | 0, _ => .error .fuel
  | _, [] => perr "unclosed verbatim tag"
  | f+1, t :: r =>
    let isEnd := match r with
      | n :: _ => t.kind == BLOCK_START && isName n "endverbatim"
      | [] => false
    if isEnd then do
      let r' ← expectK BLOCK_END "expected block end after endverbatim" (r.drop 1)
      pure ([], r')
    else
      let step : Option (Bytes × List Token) :=
        if t.kind == TEXT then some (t.val, r)
        else if t.kind == VAR_START then (verbInner VAR_END (b "}}") false true r).map fun (s, r') => (b "{{" ++ s, r')
        else if t.kind == BLOCK_START then (verbInner BLOCK_END (b "%}") true true r).map fun (s, r') => (b "{%" ++ s, r')
        else if t.kind == COMMENT_START then (verbInner COMMENT_END (b "#}") false true r).map fun (s, r') => (b "{#" ++ s, r')
        else some ([], r)
      match step with
      | none => perr "unexpected end of template, unclosed verbatim tag"
      | some (s, r') =>
        if r'.isEmpty then perr "unexpected end of template, unclosed verbatim tag"
        else do
          let (rest, r'') ← verbBody f r'
          pure (s ++ rest, r'')

/-- the separator test of `include … with { name SEP expr }` exactly as coded -/
def includeSepOk (t : Token) : Bool :=
  (t.kind == PUNCT || t.val == [58]) || (t.kind == OPERATOR || t.val == [61])

structure IncludeOpts where
  names : List Bytes := []
  exprs : List Expr := []
  ignoreMissing : Bool := false
  only : Bool := false
  sandboxed : Bool := false

mutual

def parseOuter : Nat → List Token → R (List Node × List Token)
  | 0, _ => .error .fuel
  | _, [] => pure ([], [])
  | f+1, t :: r =>
    if t.kind == EOF then pure ([], t :: r)
    else if t.kind == TEXT then do
      let (ns, r') ← parseOuter f r
      pure (.text t.val :: ns, r')
    else if t.kind == VAR_START then do
      let (e, r1) ← parseExpression (exprFuel r) r
      let r2 ← expectK VAR_END "expected }} or -}}" r1
      let (ns, r3) ← parseOuter f r2
      pure (.print e :: ns, r3)
    else if t.kind == BLOCK_START then
      match r with
      | n :: r1 =>
        if n.kind != NAME then perr "expected block name"
        else if endTagNames.contains n.val then pure ([], t :: r)
        else do
          let (node, r2) ← parseTag f n.val r1
          let (ns, r3) ← parseOuter f r2
          pure (node :: ns, r3)
      | [] => perr "expected block name"
    else if t.kind == COMMENT_START then
      match (r.dropWhile (fun x => x.kind != COMMENT_END)) with
      | _ :: r' => parseOuter f r'
      | [] => perr "unclosed comment"
    else if isExprTok t then .error (.unsupported "expression token outside a tag")
    else perr "unexpected token"

/-- the handler table of `initBlockHandlers`; `ts` = tokens after the tag name -/
def parseTag : Nat → Bytes → List Token → R (Node × List Token)
  | 0, _, _ => .error .fuel
  | f+1, name, ts =>
    if name == b "if" then do
      let (c, r1) ← parseExpression (exprFuel ts) ts
      let r2 ← expectK BLOCK_END "expected block end after if condition" r1
      let (body, r3) ← parseOuter f r2
      let (els, r4) ← parseIfTail f false r3
      pure (.ifN c body els, r4)
    else if name == b "for" then
      match ts with
      | v :: r0 =>
        if v.kind != NAME then perr "expected variable name after for" else do
        let (key, val, r1) ← match r0 with
          | c :: v2 :: r' =>
            if isP c 44 then (if v2.kind == NAME then pure (some v.val, v2.val, r') else perr "expected value variable name after comma")
            else pure (none, v.val, r0)
          | [c] => if isP c 44 then perr "expected value variable name after comma" else pure (none, v.val, r0)
          | [] => pure (none, v.val, r0)
        match r1 with
        | i :: r2 =>
          if !isName i "in" then perr "expected 'in' keyword after variable name" else do
          let (seq, r3) ← parseExpression (exprFuel r2) r2
          let r4 ← expectK BLOCK_END "expected block end after for statement" r3
          let (body, r5) ← parseOuter f r4
          match r5 with
          | s :: n :: r6 =>
            if s.kind != BLOCK_START then perr "unexpected end of template, expected endfor"
            else if n.kind != NAME then perr "expected block name"
            else if n.val == b "else" then do
              let r7 ← expectK BLOCK_END "expected block end after else" r6
              let (els, r8) ← parseOuter f r7
              let r9 ← expectTag "endfor" "expected endfor" r8
              let r10 ← expectK BLOCK_END "expected block end after endfor" r9
              pure (.forN key val seq body els, r10)
            else if n.val == b "endfor" then do
              let r7 ← expectK BLOCK_END "expected block end after endfor" r6
              pure (.forN key val seq body [], r7)
            else perr "expected else or endfor"
          | [s] => if s.kind != BLOCK_START then perr "unexpected end of template, expected endfor" else perr "expected block name"
          | [] => perr "unexpected end of template, expected endfor"
        | [] => perr "expected 'in' keyword after variable name"
      | [] => perr "expected variable name after for"
    else if name == b "set" then
      match ts with
      | v :: eq :: r1 =>
        if v.kind != NAME then perr "expected variable name after set"
        else if !(eq.kind == OPERATOR && eq.val == [61]) then perr "expected '=' after variable name"
        else do
          let (e, r2) ← parseExpression (exprFuel r1) r1
          let (e', r3) ← match r2 with
            | o :: r' =>
              if o.kind == OPERATOR && o.val != [61] then do
                let (rhs, r'') ← parseExpression (exprFuel r') r'
                pure (Expr.badBinary e rhs, r'')
              else pure (e, r2)
            | [] => pure (e, r2)
          let r4 ← expectK BLOCK_END "expected block end token after set expression" r3
          pure (.setN v.val e', r4)
      | [v] => if v.kind != NAME then perr "expected variable name after set" else perr "expected '=' after variable name"
      | [] => perr "expected variable name after set"
    else if name == b "do" then
      match ts with
      | [] => perr "unexpected end of template"
      | t0 :: _ =>
        if t0.kind == BLOCK_END then perr "do tag cannot be empty" else
        -- look for `=` among the first three tokens (stopping at the block end)
        let isEq (t : Token) := t.kind == OPERATOR && t.val == [61]
        let eqPos : Option Nat :=
          match ts with
          | a :: c :: d :: _ =>
            if isEq a then some 0 else if a.kind == BLOCK_END then none
            else if isEq c then some 1 else if c.kind == BLOCK_END then none
            else if isEq d then some 2 else none
          | [a, c] =>
            if isEq a then some 0 else if a.kind == BLOCK_END then none
            else if isEq c then some 1 else none
          | [a] => if isEq a then some 0 else none
          | [] => none
        match eqPos with
        | some (p+1) =>
          if t0.kind != NAME then perr "invalid variable name in do tag assignment" else do
          let r1 := ts.drop (p + 2)
          let (e, r2) ← parseExpression (exprFuel r1) r1
          let r3 ← expectK BLOCK_END "expecting end of do tag" r2
          pure (.setN t0.val e, r3)
        | _ => do
          let (e, r2) ← parseExpression (exprFuel ts) ts
          let r3 ← expectK BLOCK_END "expecting end of do tag" r2
          pure (.doN e, r3)
    else if name == b "block" then
      match ts with
      | n :: r1 =>
        if n.kind != NAME then perr "expected block name" else do
        let r2 ← expectK BLOCK_END "expected block end token after block name" r1
        let (body, r3) ← parseOuter f r2
        let r4 ← expectTag "endblock" "expected endblock" r3
        let r5 ← match r4 with
          | m :: r' =>
            if m.kind == NAME then (if m.val == n.val then pure r' else perr "mismatched block name") else pure r4
          | [] => pure r4
        let r6 ← expectK BLOCK_END "expected block end token after endblock" r5
        pure (.block n.val body, r6)
      | [] => perr "expected block name"
    else if name == b "extends" then do
      let (e, r1) ← parseExpression (exprFuel ts) ts
      let r2 ← expectK BLOCK_END "expected block end token after extends" r1
      pure (.extends e, r2)
    else if name == b "include" then do
      let (e, r1) ← parseExpression (exprFuel ts) ts
      let (o, r2) ← parseIncludeOpts f {} r1
      let r3 ← expectK BLOCK_END "expected block end token after include" r2
      pure (.include e o.names o.exprs o.ignoreMissing o.only o.sandboxed, r3)
    else if name == b "macro" then
      match ts with
      | n :: p :: r1 =>
        if n.kind != NAME then perr "expected macro name after macro keyword"
        else if !isP p 40 then perr "expected '(' after macro name"
        else do
          let (params, dn, de, r2) ← match r1 with
            | c :: r' => if isP c 41 then pure ([], [], [], r') else parseMacroParams f r1
            | [] => perr "expected ')' after macro parameters"
          let r3 ← expectK BLOCK_END "expected block end token after macro declaration" r2
          let (body, r4) ← parseOuter f r3
          let r5 ← expectTag "endmacro" "missing endmacro tag" r4
          let r6 ← expectK BLOCK_END "expected block end token after endmacro" r5
          pure (.macro n.val params dn de body, r6)
      | [n] => if n.kind != NAME then perr "expected macro name after macro keyword" else perr "expected '(' after macro name"
      | [] => perr "expected macro name after macro keyword"
    else if name == b "import" then do
      let (e, r1) ← parseExpression (exprFuel ts) ts
      match r1 with
      | a :: al :: r2 =>
        if !isName a "as" then perr "expected 'as' after template path"
        else if al.kind != NAME then perr "expected identifier after 'as'"
        else do
          let r3 ← expectK BLOCK_END "expected block end token after import statement" r2
          pure (.importN e al.val, r3)
      | [a] => if !isName a "as" then perr "expected 'as' after template path" else perr "expected identifier after 'as'"
      | [] => perr "expected 'as' after template path"
    else if name == b "from" then
      match ts with
      | p :: i :: r1 =>
        if (p.kind == STRING || p.kind == NAME) && isName i "import" then
          let path : Bytes := if p.kind == NAME then dropWhileEnd (fun c => c == 34 || c == 39) (p.val.dropWhile (fun c => c == 34 || c == 39)) else p.val
          match parseFromNames f r1 with
          | .ok (names, r2) =>
            if names.isEmpty then perr "expected 'import' after template path"
            else pure (.fromN (.str path) names, r2)
          | .error e => .error e
        else perr "expected 'import' after template path"
      | _ => perr "expected 'import' after template path"
    else if name == b "apply" then
      match ts with
      | n :: r1 =>
        if n.kind != NAME then perr "expected filter name after apply tag" else do
        let r2 ← expectK BLOCK_END "expected block end token after apply filter" r1
        let (body, r3) ← parseOuter f r2
        let r4 ← expectTag "endapply" "expected endapply tag" r3
        let r5 ← expectK BLOCK_END "expected block end token after endapply" r4
        pure (.apply n.val body, r5)
      | [] => perr "expected filter name after apply tag"
    else if name == b "spaceless" then do
      let r2 ← expectK BLOCK_END "expected block end token after spaceless" ts
      let (body, r3) ← parseOuter f r2
      let r4 ← expectTag "endspaceless" "expected endspaceless tag" r3
      let r5 ← expectK BLOCK_END "expected block end token after endspaceless" r4
      pure (.spaceless body, r5)
    else if name == b "verbatim" then do
      let r1 ← expectK BLOCK_END "expected block end after verbatim tag" ts
      let (s, r2) ← verbBody (r1.length + 1) r1
      pure (.verbatim s, r2)
    else perr "unknown block type"

/-- after an if/elseif body: `{% elseif … %}`, `{% else %}`, `{% endif %}` -/
def parseIfTail : Nat → Bool → List Token → R (List Node × List Token)
  | 0, _, _ => .error .fuel
  | f+1, hasElse, ts =>
    match ts with
    | s :: n :: r =>
      if s.kind != BLOCK_START then perr "unexpected end of template, expected endif"
      else if n.kind != NAME then perr "expected block name"
      else if n.val == b "elseif" then
        if hasElse then perr "unexpected elseif after else" else do
        let (c, r1) ← parseExpression (exprFuel r) r
        let r2 ← expectK BLOCK_END "expected block end after elseif condition" r1
        let (body, r3) ← parseOuter f r2
        let (els, r4) ← parseIfTail f false r3
        pure ([.ifN c body els], r4)
      else if n.val == b "else" then
        if hasElse then perr "multiple else blocks found" else do
        let r1 ← expectK BLOCK_END "expected block end after else tag" r
        let (body, r2) ← parseOuter f r1
        let (_, r3) ← parseIfTail f true r2
        pure (body, r3)
      else if n.val == b "endif" then do
        let r1 ← expectK BLOCK_END "expected block end after endif" r
        pure ([], r1)
      else perr "expected elseif, else, or endif"
    | [s] => if s.kind != BLOCK_START then perr "unexpected end of template, expected endif" else perr "expected block name"
    | [] => perr "unexpected end of template, expected endif"

/-- the keyword loop of parseInclude -/
def parseIncludeOpts : Nat → IncludeOpts → List Token → R (IncludeOpts × List Token)
  | 0, _, _ => .error .fuel
  | f+1, o, ts =>
    match ts with
    | k :: r =>
      if k.kind != NAME then pure (o, ts)
      else if k.val == b "with" then
        match r with
        | br :: r1 =>
          if isP br 123 then do
            let (ns, es, r2) ← parseWithBraces f r1
            parseIncludeOpts f { o with names := o.names ++ ns, exprs := o.exprs ++ es } r2
          else do
            let (ns, es, r2) ← parseWithPlain f r
            parseIncludeOpts f { o with names := o.names ++ ns, exprs := o.exprs ++ es } r2
        | [] => pure (o, r)
      else if k.val == b "ignore" then
        match r with
        | m :: r1 => if isName m "missing" then parseIncludeOpts f { o with ignoreMissing := true } r1 else perr "expected 'missing' after 'ignore'"
        | [] => perr "expected 'missing' after 'ignore'"
      else if k.val == b "only" then parseIncludeOpts f { o with only := true } r
      else if k.val == b "sandboxed" then parseIncludeOpts f { o with sandboxed := true } r
      else perr "unexpected keyword in include"
    | [] => pure (o, ts)

/-- `with { name: expr, … }` after the opening brace -/
def parseWithBraces : Nat → List Token → R (List Bytes × List Expr × List Token)
  | 0, _ => .error .fuel
  | f+1, ts =>
    match ts with
    | t :: r =>
      if isP t 125 then pure ([], [], r)
      else if t.kind == STRING || t.kind == NAME then
        match r with
        | sep :: r1 =>
          if !includeSepOk sep then perr "expected ':' or '=' after variable name" else do
          let (e, r2) ← parseExpression (exprFuel r1) r1
          let r3 := match r2 with
            | c :: r' => if isP c 44 then r' else r2
            | [] => r2
          let r4 := r3.dropWhile (fun x => x.kind == TEXT && (trimSpaceGo x.val).isEmpty)
          let (ns, es, r5) ← parseWithBraces f r4
          pure (t.val :: ns, e :: es, r5)
        | [] => perr "expected ':' or '=' after variable name"
      else perr "expected variable name or string"
    | [] => perr "expected variable name or string"

/-- `with a = expr, b = expr` -/
def parseWithPlain : Nat → List Token → R (List Bytes × List Expr × List Token)
  | 0, _ => .error .fuel
  | f+1, ts =>
    match ts with
    | n :: r =>
      if n.kind != NAME then pure ([], [], ts)
      else match r with
        | eq :: r1 =>
          if !(eq.kind == OPERATOR && eq.val == [61]) then perr "expected '=' after variable name" else do
          let (e, r2) ← parseExpression (exprFuel r1) r1
          match r2 with
          | c :: r3 =>
            if isP c 44 then do
              let (ns, es, r4) ← parseWithPlain f r3
              pure (n.val :: ns, e :: es, r4)
            else pure ([n.val], [e], r2)
          | [] => pure ([n.val], [e], r2)
        | [] => perr "expected '=' after variable name"
    | [] => pure ([], [], ts)

/-- macro parameter list after `(`, at least one parameter expected; consumes the `)` -/
def parseMacroParams : Nat → List Token → R (List Bytes × List Bytes × List Expr × List Token)
  | 0, _ => .error .fuel
  | f+1, ts =>
    match ts with
    | n :: r =>
      if n.kind != NAME then perr "expected parameter name" else do
      let (dn, de, r1) ← match r with
        | eq :: r' =>
          if eq.kind == OPERATOR && eq.val == [61] then do
            let (e, r'') ← parseExpression (exprFuel r') r'
            pure ([n.val], [e], r'')
          else pure ([], [], r)
        | [] => pure ([], [], r)
      match r1 with
      | c :: r2 =>
        if isP c 44 then do
          let (ps, dn', de', r3) ← parseMacroParams f r2
          pure (n.val :: ps, dn ++ dn', de ++ de', r3)
        else if isP c 41 then pure ([n.val], dn, de, r2)
        else perr "expected ')' after macro parameters"
      | [] => perr "expected ')' after macro parameters"
    | [] => perr "expected parameter name"

/-- the name list of `from … import a, b as c`: up to and including the block end -/
def parseFromNames : Nat → List Token → R (List (Bytes × Bytes) × List Token)
  | 0, _ => .error .fuel
  | f+1, ts =>
    match ts with
    | [] => pure ([], [])
    | t :: r =>
      if t.kind == BLOCK_END then pure ([], r)
      else if t.kind == NAME then
        match r with
        | a :: al :: r1 =>
          if isName a "as" then
            if al.kind == NAME then do
              let (ns, r2) ← parseFromNames f r1
              pure ((t.val, al.val) :: ns, r2)
            else do
              let (ns, r2) ← parseFromNames f (al :: r1)
              pure ((t.val, t.val) :: ns, r2)
          else do
            let (ns, r2) ← parseFromNames f r
            pure ((t.val, t.val) :: ns, r2)
        | _ => do
          let (ns, r2) ← parseFromNames f r
          pure ((t.val, t.val) :: ns, r2)
      else parseFromNames f r

end

-- every `{% block %}` name in parse order (for the duplicate-definition check of parse_block.go)
mutual
def blockNames : Node → List Bytes
  | .block n body => n :: blockNamesL body
  | .ifN _ t e => blockNamesL t ++ blockNamesL e
  | .forN _ _ _ bd e => blockNamesL bd ++ blockNamesL e
  | .macro _ _ _ _ bd => blockNamesL bd
  | .apply _ bd => blockNamesL bd
  | .spaceless bd => blockNamesL bd
  | _ => []
def blockNamesL : List Node → List Bytes
  | [] => []
  | n :: r => blockNames n ++ blockNamesL r
end

def hasDup : List Bytes → Bool
  | [] => false
  | x :: r => r.contains x || hasDup r

/-- what `parseOuter` left unread at the top level is nothing or the EOF token: a tag that closes a block
    (`endif`, `else`, …) where no block is open is an error, not the silent end of the template -/
def strayEnd : List Token → Bool
  | [] => false
  | t :: _ => t.kind != EOF

/-- `Parser.Parse`: tokenize, parse the outer template, reject a stray end tag (the unchanged tree dropped
    everything behind it without a word; repaired in /repo), reject a second definition of a block. -/
def parseTemplate (src : Bytes) : R (List Node) :=
  match tokenize src with
  | .error _ => perr "tokenization error"
  | .ok ts => do
    let (nodes, rest) ← parseOuter (4 * ts.length + 16) ts
    if strayEnd rest then perr "unexpected tag without an open block"
    else if hasDup (blockNamesL nodes) then perr "the block has already been defined" else pure nodes

end Twig
