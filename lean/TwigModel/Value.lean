/-
  TwigModel.Value — template values and the value-level helpers of render.go:
  `toBool`, `toNumber`, `ToString`, `fmt %v`, `equals`, `contains`, `evaluateBinaryOp`.

  Numbers: all twig arithmetic is float64. The model computes in `Int` and is defined only while
  operands and results are integers of magnitude ≤ 2^53 (the property's own bound); everything
  else is `Err.unsupported` and the harness skips (and counts) such cases.
-/
import TwigModel.Basic
namespace Twig

inductive Val
  | null
  | bool (b : Bool)
  | int (i : Int)                          -- Go int, or a float64 holding an integer
  | str (s : Bytes)
  | list (xs : List Val)                   -- []interface{}
  | map (kvs : List (Bytes × Val))         -- map[string]interface{}; keys unique
  | macro (tpl : Bytes) (name : Bytes)     -- *MacroNode, identified by defining template and name
  | callable (tpl : Bytes) (name : Bytes) (args : List Val)  -- func(io.Writer) error closure of a macro call
  | parentFn                               -- the closure returned by parent()
deriving Repr, Inhabited

inductive ErrClass
  | parse | notFound | security | render
deriving DecidableEq, Repr

/-- Model failures. `error` = the Go code returns a non-nil error of that class carrying the given
    cause sentinels (ids of failing user callbacks / loaders reachable through errors.Is);
    `unsupported` = outside the modelled fragment (floats, regexps …);
    `fuel` = template recursion deeper than the fuel (the self-recursion the properties exclude). -/
inductive Err
  | error (cls : ErrClass) (causes : List Nat) (msg : String)
  | unsupported (why : String)
  | fuel
deriving Repr

abbrev R := Except Err

def rerr {α} (msg : String) : R α := .error (.error .render [] msg)
def unsup {α} (why : String) : R α := .error (.unsupported why)

def maxExact : Int := 9007199254740992   -- 2^53

def inRange (i : Int) : Bool := -maxExact ≤ i && i ≤ maxExact

def num (i : Int) : R Val := if inRange i then .ok (.int i) else unsup "magnitude above 2^53"

/-! ### strings as numbers (`strconv.ParseFloat` restricted to what the model can decide) -/

inductive StrNum
  | int (i : Int)
  | notNum
  | undecided      -- could be a float / hex / inf / nan literal: outside the model

def digitsToNat (ds : Bytes) : Nat := ds.foldl (fun acc d => acc * 10 + (d - 48).toNat) 0

def strNum (s : Bytes) : StrNum :=
  let (neg, body) := match s with
    | 45 :: r => (true, r)
    | 43 :: r => (false, r)
    | _ => (false, s)
  match body with
  | [] => .notNum
  | c :: _ =>
    let low := asciiLower body
    if (b "inf").isPrefixOf low || (b "nan").isPrefixOf low || (b "0x").isPrefixOf low then .undecided
    else if isDigit c || c == 46 then
      if body.all isDigit then
        let n : Int := digitsToNat body
        if n ≤ maxExact then .int (if neg then -n else n) else .undecided
      else if body.all (fun x => isDigit x || x == 46 || x == 101 || x == 69 || x == 43 || x == 45 || x == 95) then .undecided
      else .notNum
    else .notNum

/-- `toNumber`: `(value, ok)`; `none` = not a number. -/
def toNumber : Val → R (Option Int)
  | .int i => .ok (some i)
  | .bool true => .ok (some 1)
  | .bool false => .ok (some 0)
  | .str s => match strNum s with
    | .int i => .ok (some i)
    | .notNum => .ok none
    | .undecided => unsup "string that may parse as a non-integer float"
  | _ => .ok none

/-- `toBool` (render.go). -/
def toBool : Val → Bool
  | .null => false
  | .bool b => b
  | .int i => i != 0
  | .str s => !s.isEmpty
  | .list xs => !xs.isEmpty
  | .map kvs => !kvs.isEmpty
  | _ => true

/-! ### printing -/

def boolBytes (x : Bool) : Bytes := if x then b "true" else b "false"

mutual
/-- `fmt.Sprintf("%v", v)` for the value shapes of the model (used for lists and maps). Map keys are
    printed in sorted order by fmt. `kvs` is kept sorted by the model's map constructors. -/
def fmtV : Val → R Bytes
  | .null => .ok (b "<nil>")
  | .bool x => .ok (boolBytes x)
  | .int i => .ok (intToBytes i)
  | .str s => .ok s
  | .list xs => do let inner ← fmtVs xs; .ok (91 :: inner ++ [93])
  | .map kvs => do let inner ← fmtKVs kvs; .ok (b "map[" ++ inner ++ [93])
  | _ => unsup "printing a macro or closure exposes an address"
def fmtVs : List Val → R Bytes
  | [] => .ok []
  | [x] => fmtV x
  | x :: r => do let a ← fmtV x; let rest ← fmtVs r; .ok (a ++ 32 :: rest)
def fmtKVs : List (Bytes × Val) → R Bytes
  | [] => .ok []
  | [(k, v)] => do let a ← fmtV v; .ok (k ++ 58 :: a)
  | (k, v) :: r => do let a ← fmtV v; let rest ← fmtKVs r; .ok (k ++ 58 :: a ++ 32 :: rest)
end

/-- `ctx.ToString` / `toString`. -/
def toStr : Val → R Bytes
  | .null => .ok []
  | .str s => .ok s
  | .int i => .ok (intToBytes i)
  | .bool x => .ok (boolBytes x)
  | v => fmtV v

/-! ### maps as key-sorted association lists -/

def bytesLt : Bytes → Bytes → Bool
  | [], [] => false
  | [], _ :: _ => true
  | _ :: _, [] => false
  | a :: r, c :: s => if a < c then true else if c < a then false else bytesLt r s

def mapInsert (k : Bytes) (v : Val) : List (Bytes × Val) → List (Bytes × Val)
  | [] => [(k, v)]
  | (k', v') :: r =>
    if k == k' then (k, v) :: r
    else if bytesLt k k' then (k, v) :: (k', v') :: r
    else (k', v') :: mapInsert k v r

def mapGet (k : Bytes) (kvs : List (Bytes × Val)) : Option Val := (kvs.find? (·.1 == k)).map (·.2)

/-! ### equality, containment, binary operators -/

/-- `equals`. -/
def valEquals (a c : Val) : R Bool :=
  match a, c with
  | .null, .null => .ok true
  | .null, _ => .ok false
  | _, .null => .ok false
  | _, _ => do
    match (← toNumber a), (← toNumber c) with
    | some x, some y => .ok (x == y)
    | _, _ => do .ok ((← toStr a) == (← toStr c))

def anyM {α} (p : α → R Bool) : List α → R Bool
  | [] => .ok false
  | x :: r => do if (← p x) then .ok true else anyM p r

/-- `contains(container, item)`. -/
def valContains (container item : Val) : R Bool :=
  match container with
  | .null => .ok false
  | .str s => do .ok (containsSub (← toStr item) s)
  | .list xs => anyM (fun v => valEquals v item) xs     -- the lookup-table shortcut for > 50 elements ends in the same equality scan
  | .map kvs => do let k ← toStr item; .ok (kvs.any (·.1 == k))
  | _ => .ok false

inductive BinOp
  | or | and | eq | ne | lt | gt | le | ge | in_ | notIn | matches_ | startsWith | endsWith
  | add | sub | concat | mul | div | mod | pow
deriving DecidableEq, Repr, Inhabited

def BinOp.all : List BinOp :=
  [.or, .and, .eq, .ne, .lt, .gt, .le, .ge, .in_, .notIn, .matches_, .startsWith, .endsWith,
   .add, .sub, .concat, .mul, .div, .mod, .pow]

/-- source spelling (tokens are split on spaces for the two-word operators) -/
def BinOp.text : BinOp → String
  | .or => "or" | .and => "and" | .eq => "==" | .ne => "!=" | .lt => "<" | .gt => ">" | .le => "<="
  | .ge => ">=" | .in_ => "in" | .notIn => "not in" | .matches_ => "matches"
  | .startsWith => "starts with" | .endsWith => "ends with"
  | .add => "+" | .sub => "-" | .concat => "~" | .mul => "*" | .div => "/" | .mod => "%" | .pow => "^"

def powInt (x : Int) (n : Nat) : Int := x ^ n

def arith (l r : Val) (f : Int → Int → R Val) : R Val := do
  match (← toNumber l), (← toNumber r) with
  | some x, some y => f x y
  | _, _ => rerr "unsupported binary operator"

def cmp (l r : Val) (f : Int → Int → Bool) : R Val := do
  match (← toNumber l), (← toNumber r) with
  | some x, some y => .ok (.bool (f x y))
  | _, _ => rerr "unsupported binary operator"

/-- `evaluateBinaryOp` (both operands already evaluated; `and`/`or` short-circuit in the evaluator). -/
def binop (op : BinOp) (l r : Val) : R Val :=
  match op with
  | .add => do
    match (← toNumber l), (← toNumber r) with
    | some x, some y => num (x + y)
    | _, _ =>
      match l with
      | .str ls => do .ok (.str (ls ++ (← toStr r)))
      | _ => rerr "unsupported binary operator"
  | .sub => arith l r fun x y => num (x - y)
  | .mul => arith l r fun x y => num (x * y)
  | .div => arith l r fun x y =>
      if y == 0 then rerr "division by zero"
      else if x % y == 0 then num (x / y) else unsup "non-integral quotient"
  | .mod => arith l r fun x y =>
      if y == 0 then rerr "modulo by zero" else num (Int.tmod x y)     -- math.Mod: sign of the dividend
  | .pow => arith l r fun x y =>
      if y < 0 then unsup "negative exponent"
      else if y > 64 && (x > 1 || x < -1) then unsup "magnitude above 2^53"
      else num (powInt x y.toNat)
  | .eq => do .ok (.bool (← valEquals l r))
  | .ne => do .ok (.bool (!(← valEquals l r)))
  | .lt => cmp l r (· < ·)
  | .gt => cmp l r (· > ·)
  | .le => cmp l r (· ≤ ·)
  | .ge => cmp l r (· ≥ ·)
  | .and => .ok (.bool (toBool l && toBool r))
  | .or => .ok (.bool (toBool l || toBool r))
  | .concat => do .ok (.str ((← toStr l) ++ (← toStr r)))
  | .in_ => do .ok (.bool (← valContains r l))
  | .notIn => do .ok (.bool (!(← valContains r l)))
  | .matches_ => unsup "regular expressions"
  | .startsWith => do .ok (.bool ((← toStr r).isPrefixOf (← toStr l)))
  | .endsWith => do .ok (.bool ((← toStr r).reverse.isPrefixOf (← toStr l).reverse))

end Twig
