/-
  TwigModel.Heap — the model behind property C18 (rendering never modifies the caller's data).

  A heap is a total map from addresses to cell contents plus the allocation pointer `next`.
  Everything the caller hands to `Render` (the context map, and every map, slice, array, struct reachable
  from it, including the spare capacity of slices) occupies a set `R` of addresses below `next` at the
  moment rendering starts.  Rendering is a *trace* of heap operations.  Each write names its target
  symbolically, mirroring the provenance classes of the extractor (`/verif/extract/writes.go`):

    * `fresh off`  — a cell this trace allocated itself: address (`next` at entry) + off
    * `lib a`      — a cell of library-owned memory: a field of the render context, a container owned by
                     it (ctx.context, ctx.macros, ctx.blocks …), a lock-guarded cache, the template AST
    * `caller a`   — a cell that may belong to the caller (provenance `param` / `unknown`)

  Slices are (array, offset, length, capacity) so that windows `v[a:b]` and `append` into spare capacity
  are expressible.  Core Lean only.
-/
import TwigModel.Basic
namespace Twig.Heap


/-- addresses are `Nat`, cell contents `Int` (abstract) -/
structure Heap where
  mem : Nat → Int
  next : Nat

inductive Target where
  | fresh (off : Nat)
  | lib (a : Nat)
  | caller (a : Nat)
  deriving DecidableEq, Repr

inductive Op where
  /-- make / composite literal / reflect.MakeSlice …: reserve `n` cells (zeroed) -/
  | alloc (n : Nat)
  /-- `x[i] = v`, map store, reflect setter … -/
  | write (t : Target) (v : Int)
  /-- `copy`, element-wise copying loops: `target := mem[src]` (reading never hurts) -/
  | copyFrom (t : Target) (src : Nat)
  deriving Repr

/-- the address a symbolic target denotes in a trace that was entered with allocation pointer `base` -/
def Target.addr (base : Nat) : Target → Nat
  | .fresh off => base + off
  | .lib a => a
  | .caller a => a

def Heap.set (h : Heap) (a : Nat) (v : Int) : Heap :=
  { h with mem := fun x => if x = a then v else h.mem x }

def step (base : Nat) (h : Heap) : Op → Heap
  | .alloc n => { h with next := h.next + n }
  | .write t v => h.set (t.addr base) v
  | .copyFrom t src => h.set (t.addr base) (h.mem src)

def run (base : Nat) (t : List Op) (h : Heap) : Heap := t.foldl (step base) h

/-- execute a trace: `fresh` targets are relative to the allocation pointer at entry -/
def exec (t : List Op) (h : Heap) : Heap := run h.next t h

/-- a sequence of calls (render steps, filter invocations …), each a trace entered at its own `next` -/
def execCalls (ts : List (List Op)) (h : Heap) : Heap := ts.foldl (fun h t => exec t h) h

def Op.target? : Op → Option Target
  | .alloc _ => none
  | .write t _ => some t
  | .copyFrom t _ => some t

def Target.isCaller : Target → Bool
  | .caller _ => true
  | _ => false

/-- no operation of the trace targets a possibly-caller cell -/
def noCallerWrites (t : List Op) : Bool :=
  t.all fun op => match op.target? with
    | some tg => !tg.isCaller
    | none => true

/-- every `lib` target of the trace is a library-owned cell -/
def LibOk (L : Nat → Prop) (t : List Op) : Prop :=
  ∀ op ∈ t, ∀ a, op.target? = some (.lib a) → L a

/-- the caller's region lies below the allocation pointer, and library-owned cells are not in it -/
structure Regions (R L : Nat → Prop) (h : Heap) : Prop where
  callerAllocated : ∀ a, R a → a < h.next
  disjoint : ∀ a, L a → ¬ R a

/-! ## slices -/

structure Slice where
  arr : Nat
  off : Nat
  len : Nat
  cap : Nat      -- capacity counted from `off`
  deriving DecidableEq, Repr

/-- address of element `i` (also meaningful for `len ≤ i < cap`: the spare capacity) -/
def Slice.addrOf (s : Slice) (i : Nat) : Nat := s.arr + s.off + i

/-- `s[a:b]`: same backing array, capacity runs to the end of the original -/
def Slice.window (s : Slice) (a b : Nat) : Slice :=
  { arr := s.arr, off := s.off + a, len := b - a, cap := s.cap - a }

/-- `s[a:b:b]` (three-index slice): capacity cut to the length, so that `append` must reallocate -/
def Slice.windowFull (s : Slice) (a b : Nat) : Slice :=
  { arr := s.arr, off := s.off + a, len := b - a, cap := b - a }

/-- copy `n` cells `src+i ↦ dst+i` -/
def copyCells (h : Heap) (dst src : Nat) : Nat → Heap
  | 0 => h
  | n + 1 => (copyCells h dst src n).set (dst + n) (h.mem (src + n))

/-- Go's `append(s, v)`: in place when there is spare capacity, otherwise allocate, copy, store -/
def goAppend (s : Slice) (v : Int) (h : Heap) : Heap × Slice :=
  if s.len < s.cap then
    (h.set (s.addrOf s.len) v, { s with len := s.len + 1 })
  else
    let newCap := 2 * s.cap + 1
    let base := h.next
    let h₁ : Heap := { h with next := h.next + newCap }
    let h₂ := copyCells h₁ base (s.addrOf 0) s.len
    (h₂.set (base + s.len) v, { arr := base, off := 0, len := s.len + 1, cap := newCap })

/-! ## NewRenderContext: copy of the caller's top-level map -/

/-- the caller's top-level map as `n` entry cells starting at `src`; the context gets `n` fresh cells
    and copies entry by entry (`for k, v := range context { ctx.context[k] = v }`) -/
def ctxCopy (src : Nat) (n : Nat) : List Op :=
  .alloc n :: (List.range n).map fun i => .copyFrom (.fresh i) (src + i)

end Twig.Heap

/-! ## Facts -/
namespace Twig.Writes

/-- a row of `TwigGen.Writes.current`:
    (file, enclosing function, ordinal within the function, operation, target expression, provenance, why) -/
abbrev RawSite := String × String × Nat × String × String × String × String

def RawSite.func (s : RawSite) : String := s.2.1
def RawSite.ordinal (s : RawSite) : Nat := s.2.2.1
def RawSite.op (s : RawSite) : String := s.2.2.2.1
def RawSite.prov (s : RawSite) : String := s.2.2.2.2.2.1

inductive Kind where
  | fresh | lib | caller
  deriving DecidableEq, Repr

/-- how a provenance class of the extractor is modelled -/
def provKind : String → Kind
  | "fresh" => .fresh
  | "ctxPrivate" => .lib
  | "cache" => .lib
  | "engine" => .lib
  | _ => .caller     -- "param", "unknown", anything else

def targetKind : Heap.Target → Kind
  | .fresh _ => .fresh
  | .lib _ => .lib
  | .caller _ => .caller

/-- write sites with provenance `param`/`unknown` that are nevertheless harmless, with justification:
    (function, ordinal, operation, justification).  Empty on the fixed tree: every site is fresh,
    context-private, engine-owned or a lock-guarded cache. -/
def allowList : List (String × Nat × String × String) := []

def listed (s : RawSite) : Bool :=
  allowList.any fun a => a.1 == s.func && a.2.1 == s.ordinal && a.2.2.1 == s.op

def siteOk (s : RawSite) : Bool := provKind s.prov != .caller || listed s

def ok (F : List RawSite) : Bool := F.all siteOk

end Twig.Writes
