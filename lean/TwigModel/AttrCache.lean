/-
  TwigModel.AttrCache — attribute access (`x.name`, `x['name']`) and the process-wide attribute cache.

  Go code modelled (render.go of the fixed tree):
    getAttribute        ↔ `getAttribute`   (nil / map[string]interface{} fast path / pointer indirection /
                                             string-keyed maps of any type / non-struct ⇒ nil /
                                             cache hit with statistics update / miss: maybe evict, resolve, insert /
                                             use of the entry: field first, then method)
    the miss path        ↔ `resolveCode`   (FieldByName → Index path, MethodByName on T, then on *T, NumIn()==1)
    use of an entry      ↔ `useEntry`      (FieldByIndexErr(fieldPath) + CanInterface; Method(i).Call)
    evictLRUEntries      ↔ `evict`         (removal of an ARBITRARY set of keys chosen by an oracle: covers
                                             whatever sort.Slice on (accessCount, time.Now()) with ties does)
    getItem (string index) ↔ `getItem`     (maps; everything else the model covers is empty)
    EvaluateExpression GetAttrNode / GetItemNode cases: evaluate both sides, then call the two functions above
    (the extra "module map" test in the GetAttrNode case returns the same map element as the fast path).
  Facts about the code the theorems depend on are collected in `Facts` / `codeFacts` (marked FACT).
  Trusted reading of the Go standard library and compiler (validated by the harness against package reflect
  on every type it generates, not proved):
    `pathsAt`/`fieldByName`  = reflect.Type.FieldByName  (promotion by depth, shallowest wins, ≥ 2 at the
                               shallowest depth ⇒ not found; `live` = its queue/visited termination),
    `followO`                = Value.FieldByIndexErr, `canIface` = Value.CanInterface,
    `methodSet`              = the method table of T / *T (exported methods, sorted by name, promoted through
                               embedded structs by Go's selector rule: fields and methods share one name space,
                               pointer-receiver methods need an addressable path),
    `callMethod`             = what the compiler-generated promotion wrapper does (walk to the receiver,
                               nil embedded pointer ⇒ panic unless the method has a pointer receiver and is
                               declared on the pointed-to type).
  Modelled class of types: struct types referred to by id (recursive types are fine), fields that are scalars,
  structs or pointers to structs, embedded or not, exported or not; declared methods with value or pointer
  receiver, any number of parameters, whose result is a constant, one field of the receiver, or nothing.
  Not modelled: embedded interfaces and embedded named non-struct types (their methods are promoted too),
  generic types, methods with side effects, concurrency (the locks), sequences indexed by a name.
  Core-only (no Mathlib): this file is linked into the driver.
-/
namespace Twig.AttrCache

/-! ## Type descriptions -/

abbrev TypeId := Nat

/-- type of a struct field, as far as attribute resolution can see it -/
inductive FTy where
  | scalar               -- anything that is neither a struct nor a pointer to a struct
  | struct (id : TypeId)
  | ptr (id : TypeId)    -- pointer to struct
  deriving DecidableEq, Repr, Inhabited

structure FieldDesc where
  name : String
  exported : Bool
  embedded : Bool
  ty : FTy
  deriving DecidableEq, Repr, Inhabited

/-- what a (pure) zero-argument method returns -/
inductive MBody where
  | const (s : String)      -- a constant
  | recvField (i : Nat)     -- the i-th field of its receiver
  | noResult                -- no result values (`getAttribute` then yields nil)
  deriving DecidableEq, Repr, Inhabited

/-- a method DECLARED on a struct type -/
structure MethodDesc where
  name : String
  exported : Bool
  ptrRecv : Bool
  numIn : Nat               -- parameters besides the receiver (reflect: `NumIn() - 1`)
  body : MBody
  deriving DecidableEq, Repr, Inhabited

structure StructDesc where
  name : String
  fields : List FieldDesc
  methods : List MethodDesc
  deriving Repr, Inhabited

/-- all struct types of a run; a type's id is its position (reflect.Type identity) -/
abbrev Env := Array StructDesc

def fieldsOf (env : Env) (T : TypeId) : List FieldDesc :=
  match env[T]? with
  | some S => S.fields
  | none => []

def methodsOf (env : Env) (T : TypeId) : List MethodDesc :=
  match env[T]? with
  | some S => S.methods
  | none => []

/-- the struct type an embedded field promotes from (reflect: embedded T or *T with T a struct) -/
def embeddedTarget (f : FieldDesc) : Option TypeId :=
  if f.embedded then
    match f.ty with
    | .struct U => some U
    | .ptr U => some U
    | .scalar => none
  else none

def fieldIsPtr (f : FieldDesc) : Bool :=
  match f.ty with
  | .ptr _ => true
  | _ => false

/-! ## Values -/

/-- Go values as far as attribute access distinguishes them. `repr` is how the value prints (opaque). -/
inductive Val where
  | nil                                                   -- nil interface
  | scalar (s : String)                                   -- any leaf; `s` is its printed form
  | struct (id : TypeId) (repr : String) (fields : List Val)
  | ptrTo (id : TypeId) (repr : String) (fields : List Val)  -- non-nil *T
  | nilPtr (id : TypeId) (repr : String)                  -- (*T)(nil)
  | smap (entries : List (String × Val))                  -- map[string]interface{}
  | tmap (repr : String) (entries : List (String × Val))  -- any other map type whose key kind is string
  | pmap (repr : String) (entries : List (String × Val))  -- non-nil pointer to a map whose key kind is string
  | other (repr : String)                                 -- any other kind (slices, **T, map[int]…, funcs, …)
  deriving Inhabited

/-- result of an attribute access: a value (`Val.nil` = Go's nil = "empty") or a panic escaping the call -/
inductive Res where
  | val (v : Val)
  | panic
  deriving Inhabited

abbrev Res.empty : Res := .val .nil

/-- the struct behind a field value when walking to a promoted member: the struct itself, or the target
    of a non-nil pointer; `none` for a nil pointer (FieldByIndexErr's error) -/
def sub : Val → Option (List Val)
  | .struct _ _ fs => some fs
  | .ptrTo _ _ fs => some fs
  | _ => none

def child (v : Option Val) (i : Nat) : Option Val :=
  (v.bind sub).bind (·[i]?)

/-- reflect.Value.FieldByIndexErr: `none` = error (nil embedded pointer on the way) -/
def followO : List Nat → Option Val → Option Val
  | [], v => v
  | i :: r, v => followO r (child v i)

def mapGet (es : List (String × Val)) (k : String) : Option Val :=
  match es.find? (fun p => p.1 == k) with
  | some p => some p.2
  | none => none

/-! ## reflect.Type.FieldByName (type level: index paths) and its value-level reading -/

/-- the first non-empty `f d` for `d = start, start+1, …`; the search stops at the first depth that is not
    `live` (reflect: the queue of embedded structs for the next level is empty) or when `fuel` runs out -/
def firstNonempty {α : Type} (live : Nat → Bool) (f : Nat → List α) : Nat → Nat → List α
  | 0, _ => []
  | fuel + 1, d =>
    if live d then
      match f d with
      | [] => firstNonempty live f fuel (d + 1)
      | l => l
    else []

def unique {α : Type} : List α → Option α
  | [x] => some x
  | _ => none

/-- index paths of all fields named `a` exactly `d` embedding levels below struct type `T` -/
def pathsAt (env : Env) (a : String) : Nat → TypeId → List (List Nat × FieldDesc)
  | 0, T => ((fieldsOf env T).zipIdx.filter (fun p => p.1.name == a)).map (fun p => ([p.2], p.1))
  | d + 1, T =>
    (fieldsOf env T).zipIdx.flatMap (fun p =>
      match embeddedTarget p.1 with
      | some U => (pathsAt env a d U).map (fun q => (p.2 :: q.1, q.2))
      | none => [])

/-- depths searched: a path longer than the number of types revisits a type, which reflect skips -/
def depthBound (env : Env) : Nat := env.size + 1

/-- the struct types exactly `d` embedding levels below `T` (with repetitions) -/
def typesAt (env : Env) : Nat → TypeId → List TypeId
  | 0, T => [T]
  | d + 1, T =>
    (fieldsOf env T).flatMap (fun f =>
      match embeddedTarget f with
      | some U => typesAt env d U
      | none => [])

/-- was struct type `U` already met at a depth `< d` below `T` (reflect's `visited` set) -/
def seenBefore (env : Env) (T : TypeId) : Nat → TypeId → Bool
  | 0, _ => false
  | d + 1, U => (typesAt env d T).contains U || seenBefore env T d U

/-- is there any embedded struct at depth `d` that was not expanded at a shallower depth
    (reflect: `for len(next) > 0` with visited types skipped — a revisited type and everything below it
    can only repeat members that a shallower depth already offered) -/
def live (env : Env) (T : TypeId) (d : Nat) : Bool :=
  (typesAt env d T).any (fun U => !seenBefore env T d U)

/-- reflect.Type.FieldByName: the unique field of that name at the shallowest depth that has one -/
def fieldByName (env : Env) (T : TypeId) (a : String) : Option (List Nat × FieldDesc) :=
  unique (firstNonempty (live env T) (fun d => pathsAt env a d T) (depthBound env) 0)

/-- the VALUES of all fields named `a` exactly `d` levels below the struct value `v` of type `T`
    (`none`: not reachable, a nil embedded pointer is on the way) — no index paths involved -/
def valsAt (env : Env) (a : String) : Nat → TypeId → Option Val → List (FieldDesc × Option Val)
  | 0, T, v => ((fieldsOf env T).zipIdx.filter (fun p => p.1.name == a)).map (fun p => (p.1, child v p.2))
  | d + 1, T, v =>
    (fieldsOf env T).zipIdx.flatMap (fun p =>
      match embeddedTarget p.1 with
      | some U => valsAt env a d U (child v p.2)
      | none => [])

/-- Go's promoted-field selector read directly on a value -/
def specField (env : Env) (T : TypeId) (a : String) (v : Val) : Option (FieldDesc × Option Val) :=
  unique (firstNonempty (live env T) (fun d => valsAt env a d T (some v)) (depthBound env) 0)

/-- Value.CanInterface after walking `path` from a value obtained by reflect.ValueOf: the last field is
    exported and no unexported NON-embedded field was crossed (flagStickyRO; flagEmbedRO is not inherited) -/
def canIface (env : Env) : TypeId → List Nat → Bool
  | _, [] => true
  | T, i :: r =>
    match (fieldsOf env T)[i]? with
    | none => false
    | some f =>
      if r.isEmpty then f.exported
      else (f.embedded || f.exported) &&
        (match f.ty with
         | .struct U => canIface env U r
         | .ptr U => canIface env U r
         | .scalar => false)

/-! ## Method sets -/

/-- a member (field or declared method) named `a` found below a struct type -/
inductive Member where
  | field (path : List Nat) (f : FieldDesc)
  | method (path : List Nat) (viaPtr : Bool) (m : MethodDesc)
  deriving Repr, Inhabited

def Member.push (i : Nat) (isPtr : Bool) : Member → Member
  | .field p f => .field (i :: p) f
  | .method p vp m => .method (i :: p) (vp || isPtr) m

/-- all fields and declared methods named `a` exactly `d` embedding levels below `T`
    (`path` of a method = the embedded fields leading to the declaring struct;
     `viaPtr` = an embedded POINTER is on that path, so the receiver is addressable) -/
def membersAt (env : Env) (a : String) : Nat → TypeId → List Member
  | 0, T =>
    ((fieldsOf env T).zipIdx.filter (fun p => p.1.name == a)).map (fun p => Member.field [p.2] p.1) ++
    ((methodsOf env T).filter (fun m => m.name == a)).map (fun m => Member.method [] false m)
  | d + 1, T =>
    (fieldsOf env T).zipIdx.flatMap (fun p =>
      match embeddedTarget p.1 with
      | some U => (membersAt env a d U).map (Member.push p.2 (fieldIsPtr p.1))
      | none => [])

/-- Go's selector rule: the unique member at the shallowest depth where the name occurs -/
def selector (env : Env) (T : TypeId) (a : String) : Option Member :=
  unique (firstNonempty (live env T) (fun d => membersAt env a d T) (depthBound env) 0)

/-- an entry of a reflect method table -/
structure MethodRef where
  name : String
  path : List Nat      -- embedded fields from the outer struct to the declaring struct
  decl : MethodDesc
  deriving Repr, Inhabited

/-- insertion into a sorted duplicate-free list of names (bytewise order, as reflect sorts method tables) -/
def insertSorted (x : String) : List String → List String
  | [] => [x]
  | y :: ys => if x < y then x :: y :: ys else if x == y then y :: ys else y :: insertSorted x ys

/-- all exported method names declared anywhere, sorted, without duplicates -/
def methodNames (env : Env) : List String :=
  (env.toList.flatMap (fun S => (S.methods.filter (·.exported)).map (·.name))).foldr insertSorted []

/-- the method table of `T` (`ptr = false`) or of `*T` (`ptr = true`) -/
def methodSet (env : Env) (T : TypeId) (ptr : Bool) : List MethodRef :=
  (methodNames env).filterMap (fun n =>
    match selector env T n with
    | some (.method path viaPtr m) =>
      if m.exported && (!m.ptrRecv || viaPtr || ptr) then some ⟨n, path, m⟩ else none
    | _ => none)

/-- position of the first entry with that name (reflect.Method.Index of MethodByName) -/
def indexOfName : List MethodRef → String → Option Nat
  | [], _ => none
  | m :: ms, a => if m.name == a then some 0 else (indexOfName ms a).map (· + 1)

/-- reflect.Type.MethodByName on T or *T: index and the method found -/
def methodByName (env : Env) (T : TypeId) (ptr : Bool) (a : String) : Option (Nat × MethodRef) :=
  match indexOfName (methodSet env T ptr) a with
  | some i =>
    match (methodSet env T ptr)[i]? with
    | some m => some (i, m)
    | none => none
  | none => none

/-- name-level lookup in the method set (what the SPEC uses) -/
def lookupMethod (env : Env) (T : TypeId) (ptr : Bool) (a : String) : Option MethodRef :=
  (methodSet env T ptr).find? (fun m => m.name == a)

def runBody (b : MBody) (recv : Option (List Val)) : Res :=
  match b, recv with
  | .const s, _ => .val (.scalar s)
  | .noResult, _ => .val .nil
  | .recvField i, some fs => .val (fs[i]?.getD .nil)
  | .recvField _, none => .panic       -- reads through a nil receiver

/-- walk from the outer struct (fields `fs`) along embedded fields to the receiver and run the body -/
def callAt (decl : MethodDesc) : List Nat → Val → Res
  | [], v =>
    match v with
    | .nilPtr _ _ => if decl.ptrRecv then runBody decl.body none else .panic
    | _ =>
      match sub v with
      | some fs => runBody decl.body (some fs)
      | none => .panic
  | i :: r, v =>
    match sub v with
    | some fs =>
      match fs[i]? with
      | some w => callAt decl r w
      | none => .panic
    | none => .panic                   -- nil embedded pointer on the way (or not a struct)

/-- Value.Method(i).Call(nil) → results[0] -/
def callMethod (m : MethodRef) (obj : Val) : Res := callAt m.decl m.path obj

/-! ## Facts about the Go code the model is parameterised by -/

structure Facts where
  keyHasType : Bool     -- attributeCacheKey has the reflect.Type component
  keyHasAttr : Bool     -- attributeCacheKey has the attribute-name component
  fullPath : Bool       -- the entry is used with FieldByIndexErr(fieldPath) (fixed) — false: Field(Index[0]) (pinned)
  typedMapAttr : Bool   -- getAttribute (after pointer indirection) answers `x.name` on every map whose key
                        -- kind is string (fix 63c0a36); false: only map[string]interface{} itself
  maxSize : Nat
  numToEvict : Nat      -- int(float64(maxSize) * evictionPct), at least 1
  deriving Repr, DecidableEq

-- FACT: render.go `attributeCacheKey{typ reflect.Type; attr string}`; entry.fieldPath = field.Index used by
-- FieldByIndexErr; attributeCache.maxSize = 1000, evictionPct = 0.1; getAttribute has the
-- `Kind() == reflect.Map && Key().Kind() == reflect.String` branch after pointer indirection.
def codeFacts : Facts :=
  { keyHasType := true, keyHasAttr := true, fullPath := true, typedMapAttr := true,
    maxSize := 1000, numToEvict := 100 }

/-- the pinned tree: `objValue.Field(entry.fieldIndex)` with `fieldIndex = Index[0]` (before the
    FieldByIndexErr fix) and only the map[string]interface{} fast path (before fix 63c0a36) -/
def pinnedFacts : Facts := { codeFacts with fullPath := false, typedMapAttr := false }

/-- the facts the transparency theorems need -/
def Facts.keyOk (F : Facts) : Bool := F.keyHasType && F.keyHasAttr

/-! ## Cache entries: what the miss path computes, how an entry is used -/

structure Key where
  typ : TypeId
  attr : String
  deriving DecidableEq, Repr, Inhabited

def mkKey (F : Facts) (T : TypeId) (a : String) : Key :=
  { typ := if F.keyHasType then T else 0, attr := if F.keyHasAttr then a else "" }

/-- the resolution part of attributeCacheEntry -/
structure Resolved where
  fieldIndex : Int          -- field.Index[0], -1 if no field
  fieldPath : List Nat      -- field.Index
  isMethod : Bool
  methodIndex : Int         -- -1 if no method
  ptrMethod : Bool
  deriving DecidableEq, Repr, Inhabited

structure Entry where
  r : Resolved
  lastAccess : Nat
  accessCount : Nat
  deriving DecidableEq, Repr, Inhabited

/-- `found && method.Type.NumIn() == 1` -/
def zeroArgIdx (x : Option (Nat × MethodRef)) : Option (Nat × MethodRef) :=
  match x with
  | some (i, m) => if m.decl.numIn == 0 then some (i, m) else none
  | none => none

/-- the field half of the miss path: `field.Index[0]` and `field.Index`, or -1 and nil -/
def resolveField (env : Env) (T : TypeId) (a : String) : Int × List Nat :=
  match fieldByName env T a with
  | some (p, _) => (Int.ofNat (p.headD 0), p)
  | none => (-1, [])

/-- the method half of the miss path: (isMethod, methodIndex, ptrMethod) -/
def resolveMethod (env : Env) (T : TypeId) (a : String) : Bool × Int × Bool :=
  match zeroArgIdx (methodByName env T false a) with
  | some (i, _) => (true, Int.ofNat i, false)
  | none =>
    match zeroArgIdx (methodByName env T true a) with
    | some (j, _) => (true, Int.ofNat j, true)
    | none => (false, -1, false)

/-- the miss path of getAttribute: FieldByName, MethodByName on T, else MethodByName on *T -/
def resolveCode (env : Env) (T : TypeId) (a : String) : Resolved :=
  { fieldIndex := (resolveField env T a).1, fieldPath := (resolveField env T a).2,
    isMethod := (resolveMethod env T a).1, methodIndex := (resolveMethod env T a).2.1,
    ptrMethod := (resolveMethod env T a).2.2 }

/-- the method half of the use of an entry -/
def useMethod (env : Env) (r : Resolved) (T : TypeId) (obj : Val) : Res :=
  if r.isMethod && decide (r.methodIndex ≥ 0) then
    match (methodSet env T r.ptrMethod)[r.methodIndex.toNat]? with
    | some m => callMethod m obj     -- pointer receiver on a value: called on a copy, same fields
    | none => .panic                 -- reflect: Method index out of range
  else .empty

/-- the tail of getAttribute: field first (if it can be followed and interfaced), then method, else nil.
    `obj` is the struct value or the non-nil pointer to it. -/
def useEntry (F : Facts) (env : Env) (r : Resolved) (T : TypeId) (obj : Val) : Res :=
  if r.fieldIndex ≥ 0 then
    let path := if F.fullPath then r.fieldPath else [r.fieldIndex.toNat]
    match followO path (some obj) with
    | some v => if canIface env T path then .val v else useMethod env r T obj
    | none => useMethod env r T obj
  else useMethod env r T obj

/-! ## The cache -/

structure Cache where
  m : List (Key × Entry)    -- the Go map (invariant: keys distinct)
  currSize : Int
  clock : Nat               -- stands for time.Now(): never compared except by eviction, which is arbitrary
  deriving Repr, Inhabited

def Cache.empty : Cache := { m := [], currSize := 0, clock := 0 }

def Cache.get (c : Cache) (k : Key) : Option Entry :=
  match c.m.find? (fun p => p.1 == k) with
  | some p => some p.2
  | none => none

def Cache.keys (c : Cache) : List Key := c.m.map (·.1)

/-- `m[key] = e` for a key that is present -/
def replaceEntry (m : List (Key × Entry)) (k : Key) (e : Entry) : List (Key × Entry) :=
  m.map (fun p => if p.1 == k then (k, e) else p)

/-- evictLRUEntries with the victims chosen by an oracle: deletes them, decrements currSize once per
    deleted entry, writes nothing else.  -- FACT: evictLRUEntries only deletes -/
def evict (victims : List Key) (c : Cache) : Cache :=
  let m' := c.m.filter (fun p => !victims.contains p.1)
  { c with m := m', currSize := c.currSize - Int.ofNat (c.m.length - m'.length) }

/-- the cached part of getAttribute: returns the entry used and the new cache -/
def lookupEntry (F : Facts) (env : Env) (victims : List Key) (c : Cache) (T : TypeId) (a : String) :
    Entry × Cache :=
  let k := mkKey F T a
  match c.get k with
  | some e =>
    let e' := { e with lastAccess := c.clock, accessCount := e.accessCount + 1 }
    (e', { c with m := replaceEntry c.m k e', clock := c.clock + 1 })
  | none =>
    let c1 := if c.currSize ≥ Int.ofNat F.maxSize then evict victims c else c
    let e : Entry := { r := resolveCode env T a, lastAccess := c.clock, accessCount := 1 }
    (e, { m := (k, e) :: c1.m, currSize := c1.currSize + 1, clock := c.clock + 1 })

/-- getAttribute(obj, attr) against cache `c`; `victims` is what eviction would delete if it runs now -/
def getAttribute (F : Facts) (env : Env) (victims : List Key) (c : Cache) (obj : Val) (a : String) :
    Res × Cache :=
  match obj with
  | .nil => (.empty, c)
  | .smap es => (.val ((mapGet es a).getD .nil), c)
  | .tmap _ es => if F.typedMapAttr then (.val ((mapGet es a).getD .nil), c) else (.empty, c)
  | .pmap _ es => if F.typedMapAttr then (.val ((mapGet es a).getD .nil), c) else (.empty, c)
  | .struct T _ _ =>
    let (e, c') := lookupEntry F env victims c T a
    (useEntry F env e.r T obj, c')
  | .ptrTo T _ _ =>
    let (e, c') := lookupEntry F env victims c T a
    (useEntry F env e.r T obj, c')
  | .nilPtr _ _ => (.empty, c)       -- Elem() of a nil pointer is the invalid Value: Kind() != Struct
  | .scalar _ => (.empty, c)
  | .other _ => (.empty, c)

/-- the same without any cache: resolve on the spot -/
def getAttrPure (F : Facts) (env : Env) (obj : Val) (a : String) : Res :=
  match obj with
  | .nil => .empty
  | .smap es => .val ((mapGet es a).getD .nil)
  | .tmap _ es => if F.typedMapAttr then .val ((mapGet es a).getD .nil) else .empty
  | .pmap _ es => if F.typedMapAttr then .val ((mapGet es a).getD .nil) else .empty
  | .struct T _ _ => useEntry F env (resolveCode env T a) T obj
  | .ptrTo T _ _ => useEntry F env (resolveCode env T a) T obj
  | .nilPtr _ _ => .empty
  | .scalar _ => .empty
  | .other _ => .empty

/-- getItem(container, index) for a string index (`x['name']`): maps only -/
def getItem (obj : Val) (a : String) : Res :=
  match obj with
  | .smap es => .val ((mapGet es a).getD .nil)
  | .tmap _ es => .val ((mapGet es a).getD .nil)
  | _ => .empty

/-! ## Histories -/

structure Query where
  obj : Val
  attr : String
  deriving Inhabited

/-- the eviction oracle: step number and current cache ↦ the keys evictLRUEntries deletes -/
abbrev Oracle := Nat → Cache → List Key

def runFrom (F : Facts) (env : Env) (ω : Oracle) : Nat → Cache → List Query → Cache
  | _, c, [] => c
  | n, c, q :: rest => runFrom F env ω (n + 1) (getAttribute F env (ω n c) c q.obj q.attr).2 rest

def run (F : Facts) (env : Env) (ω : Oracle) (hist : List Query) : Cache :=
  runFrom F env ω 0 Cache.empty hist

/-- results of every step of a history (what the driver reports) -/
def traceFrom (F : Facts) (env : Env) (ω : Oracle) : Nat → Cache → List Query → List Res
  | _, _, [] => []
  | n, c, q :: rest =>
    let (r, c') := getAttribute F env (ω n c) c q.obj q.attr
    r :: traceFrom F env ω (n + 1) c' rest

/-! ## Specification: Go's selector semantics read directly on the value -/

def zeroArg (x : Option MethodRef) : Option MethodRef :=
  match x with
  | some m => if m.decl.numIn == 0 then some m else none
  | none => none

/-- the method half: zero-argument method of the value's method set, else of the pointer's -/
def specMethod (env : Env) (T : TypeId) (obj : Val) (a : String) : Res :=
  match zeroArg (lookupMethod env T false a) with
  | some m => callMethod m obj
  | none =>
    match zeroArg (lookupMethod env T true a) with
    | some m' => callMethod m' obj
    | none => .empty

/-- exported (possibly promoted) field that can be reached, else zero-argument method, else empty -/
def specMember (env : Env) (T : TypeId) (obj : Val) (a : String) : Res :=
  match specField env T a obj with
  | some (f, some v) => if f.exported then .val v else specMethod env T obj a
  | _ => specMethod env T obj a

/-- `x.name`: maps with string keys (also behind a pointer, like structs), structs, pointers to structs.
    Everything else — in particular maps whose keys are not strings — is empty. -/
def specGet (env : Env) (obj : Val) (a : String) : Res :=
  match obj with
  | .smap es => .val ((mapGet es a).getD .nil)
  | .tmap _ es => .val ((mapGet es a).getD .nil)
  | .pmap _ es => .val ((mapGet es a).getD .nil)
  | .struct T _ _ => specMember env T obj a
  | .ptrTo T _ _ => specMember env T obj a
  | _ => .empty

/-- `x['name']` (the property speaks about maps only; everything else is empty) -/
def specItem (obj : Val) (a : String) : Res :=
  match obj with
  | .smap es => .val ((mapGet es a).getD .nil)
  | .tmap _ es => .val ((mapGet es a).getD .nil)
  | _ => .empty

/-- maps other than map[string]interface{} itself, or behind a pointer (what fix 63c0a36 added) -/
def Val.isTypedMap : Val → Bool
  | .tmap _ _ => true
  | .pmap _ _ => true
  | _ => false

/-! ## Printing (what the harness compares) -/

/-- how a value prints through `{{ … }}`: scalars as themselves, nil as "", everything else by its `repr` -/
def Val.print : Val → String
  | .nil => ""
  | .scalar s => s
  | .struct _ r _ => r
  | .ptrTo _ r _ => r
  | .nilPtr _ r => r
  | .smap _ => "<map>"
  | .tmap r _ => r
  | .pmap r _ => r
  | .other r => r

def Res.print : Res → String
  | .val v => v.print
  | .panic => "<panic>"

/-! ## Oracles used by the driver (any choice is allowed by the theorems) -/

/-- delete the `k` entries at the end of the list (the oldest insertions) -/
def oracleOldest (k : Nat) : Oracle := fun _ c => (c.keys.reverse.take k)
/-- delete the `k` most recent insertions -/
def oracleNewest (k : Nat) : Oracle := fun _ c => (c.keys.take k)
/-- delete every entry whose position ≡ step (mod `k`), and the head -/
def oracleMod (k : Nat) : Oracle := fun n c =>
  (c.keys.zipIdx.filter (fun p => p.2 % (k + 1) == n % (k + 1) || p.2 == 0)).map (·.1)

end Twig.AttrCache
