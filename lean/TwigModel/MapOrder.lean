/-
  TwigModel.MapOrder — the model behind property C03 (output is a deterministic function of
  templates and context; in particular independent of Go's randomised map iteration order).

  Go maps are modelled as finite functions `κ → Option ν`; the *content* of a map that a `range`
  statement (or `reflect.Value.MapKeys`) walks over is a list of entries with pairwise distinct keys,
  and **the order in which the runtime hands out the entries is an explicit argument** `order` of every
  loop schema below (any permutation of the content).  Each schema transliterates the body shape that
  the extractor (`/verif/extract/mapranges.go`, emitter `MapRanges`) recognises in the Go source.

  Also here: the comparator of `sortedMapKeys` (extension.go), the for-loop over a map
  (node.go `renderForLoop`, map case), `merge()` over a reflected map (visits `sortedMapKeys`),
  the hash literal (evaluated in source order since 4cfb654), and both versions of `convertDateFormat`.

  Core Lean only.
-/
import TwigModel.Basic
namespace Twig.MapOrder

/-! ## Go maps -/

/-- a Go map value as a finite function -/
abbrev GoMap (κ ν : Type) := κ → Option ν

section
variable {κ ν κ' ν' ε : Type}

def GoMap.empty : GoMap κ ν := fun _ => none

/-- `m[k] = v` -/
def GoMap.insert [DecidableEq κ] (m : GoMap κ ν) (k : κ) (v : ν) : GoMap κ ν :=
  fun k' => if k' = k then some v else m k'

/-- `delete(m, k)` -/
def GoMap.erase [DecidableEq κ] (m : GoMap κ ν) (k : κ) : GoMap κ ν :=
  fun k' => if k' = k then none else m k'

/-- the entries a map holds have pairwise distinct keys -/
def UniqueKeys (es : List (κ × ν)) : Prop := (es.map Prod.fst).Nodup

instance [DecidableEq κ] (es : List (κ × ν)) : Decidable (UniqueKeys es) := by unfold UniqueKeys; infer_instance

/-- a map built by inserting the entries one after the other (a composite literal, a JSON decoder,
    user code filling the context …): the *insertion order* is the order of the list -/
def ofEntries [DecidableEq κ] (es : List (κ × ν)) : GoMap κ ν :=
  es.foldl (fun m e => m.insert e.1 e.2) GoMap.empty

/-! ## Loop schemas (iteration order explicit) -/

/-- `for k, v := range src { dst[k] = v }` and
    `for _, key := range rv.MapKeys() { dst.SetMapIndex(key, rv.MapIndex(key)) }` -/
def copyAll [DecidableEq κ] (dst : GoMap κ ν) (order : List (κ × ν)) : GoMap κ ν :=
  order.foldl (fun m e => m.insert e.1 e.2) dst

/-- `for k := range m { delete(m, k) }` -/
def deleteAll [DecidableEq κ] (m : GoMap κ ν) (order : List (κ × ν)) : GoMap κ ν :=
  order.foldl (fun m e => m.erase e.1) m

/-- `for … { k2 := g(k); dst[k2] = h(k, v) }` — the key is transformed before the store
    (functionMerge on reflect maps: `result[toString(key)] = …`) -/
def keyedCopy [DecidableEq κ'] (g : κ → κ') (h : κ → ν → ν') (dst : GoMap κ' ν') (order : List (κ × ν)) : GoMap κ' ν' :=
  order.foldl (fun m e => m.insert (g e.1) (h e.1 e.2)) dst

/-- one iteration of a loop whose body evaluates the entry (may fail ⇒ early `return err`) and then stores -/
def evalStep [DecidableEq κ'] (ev : κ × ν → Except ε (κ' × ν')) (m : GoMap κ' ν') (e : κ × ν) : Except ε (GoMap κ' ν') :=
  match ev e with
  | .error x => .error x
  | .ok (k, x) => .ok (m.insert k x)

/-- `for k, v := range items { kv, err := eval(k); if err…; key := ToString(kv); x, err := eval(v); if err…; dst[key] = x }`
    (render.go, hash literal evaluation) -/
def evalKeyedCopy [DecidableEq κ'] (ev : κ × ν → Except ε (κ' × ν')) : GoMap κ' ν' → List (κ × ν) → Except ε (GoMap κ' ν')
  | m, [] => .ok m
  | m, e :: es =>
    match evalStep ev m e with
    | .error x => .error x
    | .ok m' => evalKeyedCopy ev m' es

/-- `for name, node := range vars { x, err := eval(node); if err != nil { return err }; ctx.SetVariable(name, x) }`
    (node.go, `include … with {…}`): the key is kept -/
def evalCopyAll [DecidableEq κ] (ev : ν → Except ε ν') (dst : GoMap κ ν') (order : List (κ × ν)) : Except ε (GoMap κ ν') :=
  evalKeyedCopy (fun e => match ev e.2 with | .ok x => .ok (e.1, x) | .error x => .error x) dst order

/-- `for k, v := range m { if p(k, v) { return true } }; return false` -/
def anyMatch (p : κ × ν → Bool) : List (κ × ν) → Bool
  | [] => false
  | e :: es => if p e then true else anyMatch p es

/-- `for k := range m { if !found || k < first { first, found = k, true } }`; state `none` = not found -/
def minKeyStep (lt : κ → κ → Bool) (acc : Option κ) (k : κ) : Option κ :=
  match acc with
  | none => some k
  | some f => if lt k f then some k else some f

def minKey (lt : κ → κ → Bool) (order : List (κ × ν)) : Option κ :=
  order.foldl (fun acc e => minKeyStep lt acc e.1) none

/-- `for _, v := range m { v.field = c }` where `c` does not depend on the entry: the same store into
    the cell addressed by each value (parser.go: every macro gets the same sibling table) -/
def uniformStore {α β : Type} [DecidableEq α] (addr : ν → α) (c : β) (heap : α → β) (order : List (κ × ν)) : α → β :=
  order.foldl (fun h e => fun a => if a = addr e.2 then c else h a) heap

/-- `keys = append(keys, k)` per entry, then `sort…(keys)`: `sort` is any function meeting the contract
    of package sort (see `SortSpec`) -/
def collectThenSort (sort : List κ → List κ) (order : List (κ × ν)) : List κ :=
  sort (order.map Prod.fst)

/-- what the order-sensitive shapes of the pinned tree do: return the first entry visited … -/
def firstHit (order : List (κ × ν)) : Option (κ × ν) := order.head?
/-- … or emit output per entry in iteration order -/
def orderedOutput (body : κ → ν → Bytes) (order : List (κ × ν)) : Bytes :=
  order.flatMap fun e => body e.1 e.2

end

/-! ## Sorting contract and the comparator of `sortedMapKeys` -/

/-- `sort.Slice(keys, less)` leaves a permutation of its input in which no later element is less
    than an earlier one.  This is all that package sort promises (it is not stable). -/
def SortedBy {α : Type} (less : α → α → Bool) (l : List α) : Prop :=
  l.Pairwise (fun a b => less b a = false)

def SortSpec {α : Type} (less : α → α → Bool) (sort : List α → List α) : Prop :=
  ∀ l, (sort l).Perm l ∧ SortedBy less (sort l)

/-- Go's `<` on strings: bytewise lexicographic -/
def bytesLt : Bytes → Bytes → Bool
  | [], [] => false
  | [], _ :: _ => true
  | _ :: _, [] => false
  | a :: as, c :: cs => a.toNat < c.toNat || (a.toNat == c.toNat && bytesLt as cs)

/-- A reflect map key as `sortedMapKeys` sees it.  `a.Kind()` is the kind of the map's *key type*, so all
    keys of one map fall into the same class (`cls`):
    * `int`   — key types of kind Int … Int64  (compared with `a.Int() < b.Int()`)
    * `uint`  — Uint … Uintptr                 (`a.Uint() < b.Uint()`)
    * `float` / `nan` — Float32, Float64.  `float r` is a key that is not NaN, named by its position `r` in
      the order of the reals (−Inf < … < +Inf; +0 and −0 are one map key); `nan i` is a NaN key.  A map can
      hold several NaN keys (NaN ≠ NaN); `i` tells those entries apart, but nothing else does: they all
      print `NaN` and `MapIndex` finds none of them.  Comparator (c0e7993): NaN keys first, else `<`.
    * `str`   — String                         (`a.String() < b.String()`)
    * `other` — every other key type (interface{}, bool, struct, array, pointer, chan): compared by
      `fmt.Sprint(k)`, then `fmt.Sprintf("%T", k)`, then `fmt.Sprintf("%#v", k)` (2cbbaa1, 5b1997c).
      `ident` tells Go values apart; `selfEq` is `k == k` (false for a NaN inside an interface, an array
      or a struct: such a key's entry cannot be looked up); `printed`, `tyName`, `goSyntax` are the three
      strings.  Distinct values may agree on all three (two pointers to equal structs). -/
inductive GoKey where
  | int (i : Int)
  | uint (n : Nat)
  | float (r : Int)
  | nan (ident : Nat)
  | str (s : Bytes)
  | other (ident : Nat) (selfEq : Bool) (printed tyName goSyntax : Bytes)
  deriving DecidableEq, Repr

/-- the reflect.Kind class of the map's key type -/
def GoKey.cls : GoKey → Nat
  | .int _ => 0 | .uint _ => 1 | .float _ => 2 | .nan _ => 2 | .str _ => 3 | .other .. => 4

/-- the `less` closure of `sortedMapKeys`, case by case as in extension.go.  The last case (keys of
    different kinds) cannot occur for the keys of one Go map (`Homogeneous`); it is filled in so that
    `keyLess` is a strict weak order on all of `GoKey` and the reference sort below is total. -/
def keyLess : GoKey → GoKey → Bool
  | .int a, .int c => a < c
  | .uint a, .uint c => a < c
  -- af, bf := a.Float(), b.Float(); if af != af || bf != bf { return af != af && bf == bf }; return af < bf
  | .float a, .float c => a < c
  | .nan _, .float _ => true
  | .float _, .nan _ => false
  | .nan _, .nan _ => false
  | .str a, .str c => bytesLt a c
  -- if as != bs { return as < bs }; if at != bt { return at < bt }; return ag < bg
  | .other _ _ p t g, .other _ _ q u h =>
      if p ≠ q then bytesLt p q else if t ≠ u then bytesLt t u else bytesLt g h
  | a, c => a.cls < c.cls

/-- all keys of one map have the same reflect.Kind -/
def Homogeneous (ks : List GoKey) : Prop := ∀ a ∈ ks, ∀ c ∈ ks, a.cls = c.cls

/-- keys of a kind that `sortedMapKeys` compares by value -/
def GoKey.byValue : GoKey → Bool
  | .other .. => false
  | _ => true

/-- `k == k`: false exactly for keys that contain a NaN; `MapIndex` finds no entry for them -/
def GoKey.selfEq : GoKey → Bool
  | .nan _ => false
  | .other _ se _ _ _ => se
  | _ => true

/-- What rendering can observe of a key.  Keys that are not equal to themselves lose their identity:
    their entry is unreachable (`mapIndex`), and their printed forms are all the comparator's own
    criteria.  For every other key `obs k = k`. -/
def GoKey.obs : GoKey → GoKey
  | .nan _ => .nan 0
  | .other _ false p t g => .other 0 false p t g
  | k => k

/-- executable reference sort used by the driver (any `SortSpec` function gives the same result where
    the order is determined) -/
def sortKeys (ks : List GoKey) : List GoKey := ks.mergeSort (fun a c => !keyLess c a)

/-- `rv.MapIndex(key)`: the entry stored under the key, nothing for a key that is not equal to itself -/
def mapIndex {ν : Type} (es : List (GoKey × ν)) (k : GoKey) : Option ν :=
  if k.selfEq then ofEntries es k else none

/-- node.go `renderForLoop`, map case: visit the keys in `sortedMapKeys` order, render the body per entry;
    the value variable is nil (`none`) when `MapIndex` finds nothing.  The body sees `obs k`. -/
def renderForMap {ν : Type} (sort : List GoKey → List GoKey) (body : GoKey → Option ν → Bytes)
    (es : List (GoKey × ν)) : Bytes :=
  (sort (es.map Prod.fst)).flatMap fun k => body k.obs (mapIndex es k)

/-- extension.go `functionMerge` on a reflected map (43314f9, c0e7993):
    `for _, key := range sortedMapKeys(rv) { keyStr := toString(key.Interface()); if entry := rv.MapIndex(key); entry.IsValid() { result[keyStr] = entry.Interface() } }`;
    `g` is `toString` of the key (a function of what can be observed of it) -/
def mergeStep {ν κ' : Type} [DecidableEq κ'] (g : GoKey → κ') (es : List (GoKey × ν)) (m : GoMap κ' ν) (k : GoKey) : GoMap κ' ν :=
  match mapIndex es k with
  | some v => m.insert (g k.obs) v
  | none => m

def mergeSorted {ν κ' : Type} [DecidableEq κ'] (sort : List GoKey → List GoKey) (g : GoKey → κ')
    (dst : GoMap κ' ν) (es : List (GoKey × ν)) : GoMap κ' ν :=
  (sort (es.map Prod.fst)).foldl (mergeStep g es) dst

/-- render.go, hash literal since 4cfb654: the items are evaluated in *source order* (`n.order`), each
    stored under `ToString(eval key)`; no iteration order is involved any more — `items` is the literal
    as written.  (The loop body is that of `evalKeyedCopy`.) -/
def evalHashLiteral {κ ν κ' ν' ε : Type} [DecidableEq κ'] (ev : κ × ν → Except ε (κ' × ν'))
    (items : List (κ × ν)) : Except ε (GoMap κ' ν') :=
  evalKeyedCopy ev GoMap.empty items

/-! ## convertDateFormat -/

/-- the PHP→Go layout table (extension.go `convertDateFormat`), in source order.
    -- FACT: TwigGen.DateFmt.table (tied by `C03_datefmt_table_current`) -/
def dateTable : List (String × String) := [
  ("d", "02"), ("D", "Mon"), ("j", "2"), ("l", "Monday"),
  ("F", "January"), ("m", "01"), ("M", "Jan"), ("n", "1"),
  ("Y", "2006"), ("y", "06"),
  ("a", "pm"), ("A", "PM"), ("g", "3"), ("G", "15"), ("h", "03"), ("H", "15"), ("i", "04"), ("s", "05")]

abbrev CharTable := List (Char × List Char)

/-- table rows with a one-character key, as characters -/
def charTable (t : List (String × String)) : CharTable :=
  t.filterMap fun kv => match kv.1.toList with
    | [c] => some (c, kv.2.toList)
    | _ => none

/-- `if g, ok := replacements[string(c)]; ok { g } else { c }` — a map lookup; `tbl` is the table's
    content in whatever order -/
def dateLookup (tbl : CharTable) (c : Char) : List Char :=
  match tbl.lookup c with
  | some g => g
  | none => [c]

/-- the repaired algorithm: one pass over the format with a `strings.Builder` -/
def convertLoop (tbl : CharTable) : List Char → List Char → List Char
  | acc, [] => acc
  | acc, c :: cs => convertLoop tbl (acc ++ dateLookup tbl c) cs

def convertDateFormat (tbl : CharTable) (fmt : List Char) : List Char := convertLoop tbl [] fmt

/-- `strings.ReplaceAll(s, string(k), g)` for a one-character `k` -/
def replaceAllChar (s : List Char) (k : Char) (g : List Char) : List Char :=
  s.flatMap fun c => if c = k then g else [c]

/-- the pinned algorithm: `for php, g := range replacements { result = strings.ReplaceAll(result, php, g) }`;
    `order` is the order in which the runtime visits the table -/
def convertDateFormatPinned (order : CharTable) (fmt : List Char) : List Char :=
  order.foldl (fun r e => replaceAllChar r e.1 e.2) fmt

end Twig.MapOrder

/-! ## Facts: what the extractor must report for the theorems to apply -/

namespace Twig.MapRanges

/-- a row of `TwigGen.MapRanges.current`:
    (file, enclosing function, ordinal within the function, kind, map type, schema, detail) -/
abbrev RawSite := String × String × Nat × String × String × String × String

def RawSite.file (s : RawSite) : String := s.1
def RawSite.func (s : RawSite) : String := s.2.1
def RawSite.ordinal (s : RawSite) : Nat := s.2.2.1
def RawSite.kind (s : RawSite) : String := s.2.2.2.1
def RawSite.schema (s : RawSite) : String := s.2.2.2.2.2.1

inductive Schema where
  | copyAll | deleteAll | collectThenSort | collectSortBy | anyMatch | minKey | uniformStore | evalCopyAll
  | keyedCopy | evalKeyedCopy | guardedFallback | orderSensitive | unknown
  deriving DecidableEq, Repr

def Schema.ofString : String → Schema
  | "copyAll" => .copyAll | "deleteAll" => .deleteAll | "collectThenSort" => .collectThenSort
  | "collectSortBy" => .collectSortBy | "anyMatch" => .anyMatch | "minKey" => .minKey
  | "uniformStore" => .uniformStore | "evalCopyAll" => .evalCopyAll | "keyedCopy" => .keyedCopy
  | "evalKeyedCopy" => .evalKeyedCopy | "guardedFallback" => .guardedFallback
  | "orderSensitive" => .orderSensitive | _ => .unknown

/-- schemas whose result is the same for every iteration order, unconditionally
    (lemmas `schema_*_perm` in TwigProofs/Lemmas/MapOrder.lean) -/
def Schema.invariant : Schema → Bool
  | .copyAll | .deleteAll | .collectThenSort | .anyMatch | .minKey | .uniformStore | .evalCopyAll => true
  | _ => false

/-- schemas that are order independent only under a side condition on the keys -/
def Schema.conditional : Schema → Bool
  | .keyedCopy | .evalKeyedCopy | .collectSortBy => true
  | _ => false

/-- Sites that match no invariant schema but whose iteration order cannot reach rendered output.
    (function, ordinal, schema as extracted, justification).  A site is matched by all of the first three. -/
def allowList : List (String × Nat × String × String) := [
  ("DebugRender", 0, "unknown",
    "debugging.go: logs every context variable through LogVerbose (the debug logger, not the render writer); \
     only when debug mode is on; the order of log lines is not rendered output"),
  ("getMapKeys", 0, "orderSensitive",
    "extension.go: 'helper for debugging' returning the block names unsorted; it has no caller in the package"),
  ("Engine.GetCachedTemplateNames", 0, "orderSensitive",
    "twig.go: public API returning the names of the cached templates as an unordered list; not part of rendering"),
  ("RenderContext.EvaluateExpression", 0, "guardedFallback",
    "render.go, hash literal: the items map is ranged (keys collected, unsorted) only when len(n.order) != len(n.items). \
     parseMapExpression appends to `order` in step with every store into `items`, and every key is a freshly parsed node, \
     so the lengths agree for every hash node that comes from template source (`hashOk`: builders inStep/empty/cleared). \
     Only GetHashNode/NewHashNode(items, line) — exported AST constructors with no caller in the package — build a node \
     without an order; programmatic AST construction is outside the property, which quantifies over template sources"),
  ("evictLRUEntries", 0, "collectSortBy",
    "render.go: picks attribute-cache entries to evict by access count/recency; the cache only memoises \
     reflection lookups, so which entries are dropped changes later hit/miss, never a looked-up value (property C20)")
]

/-- Sites in a conditional schema: order independent except for the stated inputs; each is a recorded
    finding with a concrete witness (see `C03_*_counterexample` and notes/reports/C03.md).
    (function, ordinal, schema, exclusion) -/
def conditionalList : List (String × Nat × String × String) := [
  ("sortedMapKeys", 0, "collectSortBy",
    "keys are sorted with the comparator `keyLess` (tied to the source by `sortCmpOk`).  The order is determined for \
     int/uint/float/string key types (several NaN keys tie, but are indistinguishable and their entries unreachable) and, \
     for every other key type, unless two distinct keys that are equal to themselves agree on fmt.Sprint, %T and %#v: \
     two pointers to equal structs/arrays (fmt prints a top-level pointer to a composite by content).  Known finding \
     `pointer-key-equal-content`")
]

def listed (l : List (String × Nat × String × String)) (s : RawSite) : Bool :=
  l.any fun a => a.1 == s.func && a.2.1 == s.ordinal && a.2.2.1 == s.schema

def siteStrict (s : RawSite) : Bool :=
  (Schema.ofString s.schema).invariant || listed allowList s

def siteOk (s : RawSite) : Bool :=
  siteStrict s || ((Schema.ofString s.schema).conditional && listed conditionalList s)

/-- full strength: every map iteration of the package is order independent or unobservable -/
def okStrict (F : List RawSite) : Bool := F.all siteStrict

/-- with the recorded exclusions -/
def ok (F : List RawSite) : Bool := F.all siteOk

/-- the comparator facts (`TwigGen.MapRanges.sortKeyCases`, `sortKeyFallback`) match `MapOrder.keyLess` -/
def sortCmpOk (cases : List (String × String)) (fallback : String) : Bool :=
  cases == [("Int", "Int"), ("Int8", "Int"), ("Int16", "Int"), ("Int32", "Int"), ("Int64", "Int"),
    ("Uint", "Uint"), ("Uint8", "Uint"), ("Uint16", "Uint"), ("Uint32", "Uint"), ("Uint64", "Uint"), ("Uintptr", "Uint"),
    ("Float32", "FloatNaNFirst"), ("Float64", "FloatNaNFirst"), ("String", "String")]
  && fallback == "fmt.Sprint then fmt.Sprintf %T then fmt.Sprintf %#v"

/-- `TwigGen.MapRanges.sortedKeyUses`: every call of the sorted-keys function consumes the sorted slice as it
    is (`for _, key := range sortedMapKeys(rv)` or `keys := sortedMapKeys(rv)`); these loops iterate a
    slice, so they are not map-iteration sites.  (file, function, ordinal, callee, use) -/
def sortedUsesOk (fn : String) (uses : List (String × String × Nat × String × String)) : Bool :=
  uses.all fun u => u.2.2.2.1 == fn && (u.2.2.2.2 == "range" || u.2.2.2.2 == "assign")

/-- `TwigGen.MapRanges.hashBuilders` / `hashNoOrderReach`: every hash node built from template source has
    `len(order) = len(items)` — the parser fills both in step, the pool hands out empty nodes, release
    clears both — and a node without an order can only come from the exported constructors. -/
def hashOk (builders : List (String × String × String)) (reach : List String) : Bool :=
  builders.all (fun b => ["inStep", "empty", "cleared", "noOrder"].contains b.2.1) &&
  reach.all (fun f => ["GetHashNode", "NewHashNode"].contains f)

end Twig.MapRanges

namespace Twig.DateFmt

/-- `TwigGen.DateFmt.current` = (table, schema) -/
abbrev Raw := List (String × String) × String

/-- single pass; every key is one character (no row is dropped by `charTable`); keys pairwise distinct -/
def ok (F : Raw) : Bool :=
  F.2 == "singlePass" && (MapOrder.charTable F.1).length == F.1.length &&
  decide (((MapOrder.charTable F.1).map Prod.fst).Nodup)

/-- the driver's table is the extracted one -/
def tableIs (F : Raw) : Bool := F.1 == MapOrder.dateTable

end Twig.DateFmt
