/-
  TwigModel.Builtins — the built-in filters, functions and tests (extension.go) that the
  render-level correspondence uses, on the model's value type.  Each is the transliteration of the
  Go function for the value shapes of `Val`; inputs outside the modelled fragment give `unsupported`.
  (The C19 filter equations are proved about the richer model in TwigModel.Filters.)
-/
import TwigModel.Value
import TwigModel.Escape
namespace Twig

def isEmptyVal : Val → Bool
  | .null => true
  | .str s => s.isEmpty
  | .bool x => !x
  | .int i => i == 0
  | .list xs => xs.isEmpty
  | .map kvs => kvs.isEmpty
  | _ => false

def asciiOnly (s : Bytes) : Bool := s.all (· < 128)

def upperAscii (s : Bytes) : Bytes := s.map fun c => if 97 ≤ c && c ≤ 122 then c - 32 else c

/-- `toInt` (extension.go) -/
def toIntV : Val → R Int
  | .int i => .ok i
  | .bool x => .ok (if x then 1 else 0)
  | .str s => match strNum s with
    | .int i => if s.head? == some 43 then unsup "Atoi with a plus sign" else .ok i
    | .notNum => rerr "strconv.Atoi: invalid syntax"
    | .undecided => unsup "Atoi of a float-like string"
  | .null => rerr "cannot convert nil to int"
  | _ => rerr "cannot convert to int"

def rangeList (start stop step : Int) : Nat → List Val
  | 0 => []
  | fuel+1 =>
    if (step > 0 && start ≤ stop) || (step < 0 && start ≥ stop) then .int start :: rangeList (start + step) stop step fuel
    else []

def joinBytes (sep : Bytes) : List Bytes → Bytes
  | [] => []
  | [x] => x
  | x :: r => x ++ sep ++ joinBytes sep r

def mapM' {α β} (f : α → R β) : List α → R (List β)
  | [] => .ok []
  | x :: r => do let y ← f x; let ys ← mapM' f r; .ok (y :: ys)

/-- the registered `escape`/`e` filter: exactly the escaper about which TwigProofs.C07 proves
    no-raw-characters, round trip and pass-through for every byte string -/
def escapeHtml (s : Bytes) : Bytes := Escape.escReg s

/-- number of UTF-8 encoded runes (`utf8.RuneCountInString`): every byte that is not a continuation
    byte of a *valid* sequence counts; for ASCII this is the length. Non-ASCII → unsupported here. -/
def runeCount (s : Bytes) : R Nat := if asciiOnly s then .ok s.length else unsup "non-ASCII string length"

/-- built-in filters: `none` = no such built-in. -/
def builtinFilter (name : Bytes) (v : Val) (args : List Val) : Option (R Val) :=
  if name == b "upper" then some do
    let s ← toStr v; if asciiOnly s then .ok (.str (upperAscii s)) else unsup "case mapping of non-ASCII text"
  else if name == b "lower" then some do
    let s ← toStr v; if asciiOnly s then .ok (.str (asciiLower s)) else unsup "case mapping of non-ASCII text"
  else if name == b "escape" || name == b "e" then some do
    let s ← toStr v; .ok (.str (escapeHtml s))
  else if name == b "raw" then some (.ok v)
  else if name == b "trim" then some do
    if !args.isEmpty then unsup "trim with a character mask" else
    let s ← toStr v; if asciiOnly s then .ok (.str (trimSpace s)) else unsup "trim of non-ASCII text"
  else if name == b "length" || name == b "count" then some do
    match v with
    | .null => .ok (.int 0)
    | .str s => do .ok (.int (← runeCount s))
    | .list xs => .ok (.int xs.length)
    | .map kvs => .ok (.int kvs.length)
    | _ => rerr "cannot get length"
  else if name == b "default" then some do
    match args with
    | [] => .ok v
    | d :: _ => .ok (if isEmptyVal v then d else v)
  else if name == b "join" then some do
    let sep : Bytes := match args with
      | .str s :: _ => s
      | _ => [32]
    match v with
    | .null => .ok (.str [])
    | .list xs => do let ss ← mapM' toStr xs; .ok (.str (joinBytes sep ss))
    | other => do .ok (.str (← toStr other))
  else if name == b "first" then some do
    match v with
    | .null => .ok .null
    | .str s => if asciiOnly s then .ok (.str (s.take 1)) else unsup "first of non-ASCII text"
    | .list xs => .ok (xs.head?.getD .null)
    | .map kvs => .ok ((kvs.head?.map (·.2)).getD .null)      -- kvs is key-sorted: smallest key
    | _ => rerr "cannot get first element"
  else if name == b "last" then some do
    match v with
    | .null => .ok .null
    | .str s => if asciiOnly s then .ok (.str (s.drop (s.length - 1))) else unsup "last of non-ASCII text"
    | .list xs => .ok (xs.getLast?.getD .null)
    | _ => rerr "cannot get last element"
  else if name == b "reverse" then some do
    match v with
    | .null => .ok .null
    | .str s => if asciiOnly s then .ok (.str s.reverse) else unsup "reverse of non-ASCII text"
    | .list xs => .ok (.list xs.reverse)
    | _ => rerr "cannot reverse"
  else if name == b "keys" then some do
    match v with
    | .null => .ok .null
    | .map kvs => .ok (.list (kvs.map fun kv => .str kv.1))
    | _ => rerr "cannot get keys"
  else if name == b "merge" then some do
    match v with
    | .list xs =>
      .ok (.list (args.foldl (fun acc a => match a with | .list ys => acc ++ ys | _ => acc) xs))
    | .map kvs =>
      .ok (.map (args.foldl (fun acc a => match a with
        | .map m2 => m2.foldl (fun acc' kv => mapInsert kv.1 kv.2 acc') acc
        | _ => acc) kvs))
    | other => .ok other
  else if name == b "abs" then some do
    match v with
    | .int i => .ok (.int i.natAbs)
    | .bool x => .ok (.int (if x then 1 else 0))
    | .str s => match strNum s with
      | .int i => .ok (.int i.natAbs)
      | .notNum => .ok v
      | .undecided => unsup "abs of a float-like string"
    | other => .ok other
  else none

/-- built-in functions reachable through `env.functions` (range, max, min, length). -/
def builtinFunction (name : Bytes) (args : List Val) : Option (R Val) :=
  if name == b "range" then some do
    let (start, stop, step) ← match args with
      | [e] => do pure ((0 : Int), ← toIntV e, (1 : Int))
      | [s, e] => do pure (← toIntV s, ← toIntV e, (1 : Int))
      | [s, e, st] => do pure (← toIntV s, ← toIntV e, ← toIntV st)
      | _ => rerr "range function requires 1-3 arguments"
    if step == 0 then rerr "step cannot be zero"
    else
      let n := ((stop - start) / step).toNat + 1
      if n > 10000 then unsup "range longer than 10000" else .ok (.list (rangeList start stop step n))
  else if name == b "length" then some do
    match args with
    | [v] => match v with
      | .str s => do .ok (.int (← runeCount s))
      | .list xs => .ok (.int xs.length)
      | .map kvs => .ok (.int kvs.length)
      | _ => .ok (.int 0)
    | _ => rerr "length function requires exactly 1 argument"
  else none

/-- built-in tests (`env.tests`). -/
def builtinTest (name : Bytes) (v : Val) (_args : List Val) : Option (R Bool) :=
  if name == b "defined" then some (.ok (match v with | .null => false | _ => true))
  else if name == b "empty" then some (.ok (isEmptyVal v))
  else if name == b "null" || name == b "none" then some (.ok (match v with | .null => true | _ => false))
  else if name == b "even" then some do let i ← toIntV v; .ok (i % 2 == 0)
  else if name == b "odd" then some do let i ← toIntV v; .ok (i % 2 != 0)
  else if name == b "iterable" then some (.ok (match v with | .str _ | .list _ | .map _ => true | _ => false))
  else none

end Twig
