/-
  TwigModel.Builtins — the built-in filters, functions and tests (extension.go) that the
  render-level correspondence uses, on the model's value type.  Each is the transliteration of the
  Go function for the value shapes of `Val`; inputs outside the modelled fragment give `unsupported`.

  The string and list filters (length, first, last, reverse, trim, slice, sort, split, capitalize,
  title) are adapters to the filter model of TwigModel.Filters (`Twig.Flt`, full UTF-8; the C19
  equations are proved about it): `Val.toFlt?` / `Val.ofFlt?` convert between the two value types,
  TwigProofs/C19Pipe.lean proves that each adapter computes the `Flt` function on the converted value.
-/
import TwigModel.Value
import TwigModel.Escape
import TwigModel.Filters
namespace Twig

def isEmptyVal : Val → Bool
  | .null => true
  | .str s => s.isEmpty
  | .bool x => !x
  | .int i => i == 0
  | .list xs => xs.isEmpty
  | .map kvs => kvs.isEmpty
  | _ => false

def Val.isList : Val → Bool
  | .list _ => true
  | _ => false

def asciiOnly (s : Bytes) : Bool := s.all (· < 128)

def upperAscii (s : Bytes) : Bytes := s.map fun c => if 97 ≤ c && c ≤ 122 then c - 32 else c

/-- `toInt` (extension.go) -/
def toIntV : Val → R Int
  | .int i => .ok i
  | .bool x => .ok (if x then 1 else 0)
  | .str s => match strNum s with
    | .int i => if s.head? == some 43 then unsup "Atoi with a plus sign" else .ok i
    | .notNum => rerr "strconv.Atoi: invalid syntax"
    | .undecided => unsup "Atoi of a float-like string"
  | .null => rerr "cannot convert nil to int"
  | _ => rerr "cannot convert to int"

def rangeList (start stop step : Int) : Nat → List Val
  | 0 => []
  | fuel+1 =>
    if (step > 0 && start ≤ stop) || (step < 0 && start ≥ stop) then .int start :: rangeList (start + step) stop step fuel
    else []

def joinBytes (sep : Bytes) : List Bytes → Bytes
  | [] => []
  | [x] => x
  | x :: r => x ++ sep ++ joinBytes sep r

def mapM' {α β} (f : α → R β) : List α → R (List β)
  | [] => .ok []
  | x :: r => do let y ← f x; let ys ← mapM' f r; .ok (y :: ys)

/-- the registered `escape`/`e` filter: exactly the escaper about which TwigProofs.C07 proves
    no-raw-characters, round trip and pass-through for every byte string -/
def escapeHtml (s : Bytes) : Bytes := Escape.escReg s

/-- number of UTF-8 encoded runes (`utf8.RuneCountInString`), for every byte string: an invalid byte
    counts as one rune (`Flt.Utf8.runeCount`). -/
def runeCount (s : Bytes) : R Nat := .ok (Flt.Utf8.runeCount s)

/-! ## conversions between the pipeline's values and the filter model's (`Twig.Flt`)

  `Flt.Val` has scalars, lists of scalars and maps of scalars.  The pipeline's scalars (`null`, `bool`,
  `int`, `str`) and its lists of scalars (`[]interface{}` = `.list .any false`) convert; maps, nested
  containers, macros and closures do not (`none`).  Back: everything except a float (`.dec`) and a map. -/

def Val.toScalar? : Val → Option Flt.Scalar
  | .null => some .null
  | .bool x => some (.bool x)
  | .int i => some (.int i)
  | .str s => some (.str s)
  | _ => none

def scalarsToFlt : List Val → Option (List Flt.Scalar)
  | [] => some []
  | x :: r =>
    match x.toScalar?, scalarsToFlt r with
    | some a, some as => some (a :: as)
    | _, _ => none

def Val.toFlt? : Val → Option Flt.Val
  | .list xs => (scalarsToFlt xs).map (Flt.Val.list .any false)
  | v => v.toScalar?.map Flt.Val.sc

def argsToFlt : List Val → Option (List Flt.Val)
  | [] => some []
  | x :: r =>
    match x.toFlt?, argsToFlt r with
    | some a, some as => some (a :: as)
    | _, _ => none

def scalarOfFlt? : Flt.Scalar → Option Val
  | .null => some .null
  | .bool x => some (.bool x)
  | .int i => some (.int i)
  | .str s => some (.str s)
  | .dec _ _ _ => none

def scalarsOfFlt? : List Flt.Scalar → Option (List Val)
  | [] => some []
  | x :: r =>
    match scalarOfFlt? x, scalarsOfFlt? r with
    | some a, some as => some (a :: as)
    | _, _ => none

/-- forgets the element-type tag: every Go slice is a `.list` -/
def Val.ofFlt? : Flt.Val → Option Val
  | .sc x => scalarOfFlt? x
  | .list _ _ xs => (scalarsOfFlt? xs).map Val.list
  | .map _ _ => none

/-- the outcome of a `Flt` filter as a pipeline result -/
def resOfFlt : Flt.Res → R Val
  | .ok w => match Val.ofFlt? w with
    | some x => .ok x
    | none => unsup "a float or map result"
  | .err => rerr "filter error"
  | .panic => unsup "the filter panics"
  | .unsupported => unsup "outside the filter model"

/-- run a `Flt` filter on a pipeline value -/
def viaFlt (f : Flt.Val → List Flt.Val → Flt.Res) (v : Val) (args : List Val) : R Val :=
  match v.toFlt?, argsToFlt args with
  | some fv, some fa => resOfFlt (f fv fa)
  | _, _ => unsup "value shape outside the filter model"

/-- `toInt` of a filter argument (extension.go `toInt` as `Flt.toIntArg` has it: 64-bit ints, `Atoi`
    strings, bools; everything else is an error) -/
def sliceIntArg (a : Val) : R Int :=
  match a.toFlt? with
  | none => rerr "cannot convert to int"
  | some fa =>
    match Flt.toIntArg fa with
    | .ok i => .ok i
    | .error .unsupported => unsup "integer outside 64 bits"
    | .error _ => rerr "cannot convert to int"

/-- filterSlice: `Flt.Slice.goSlice64` on the elements of a list (any elements) or the runes of a
    string (any bytes) -/
def sliceFilter (v : Val) (args : List Val) : R Val :=
  match v with
  | .null => .ok .null
  | _ =>
  match args with
  | [] => rerr "slice filter requires at least one argument (start index)"
  | a0 :: rest => do
    let start ← sliceIntArg a0
    let len : Option Int ← match rest with
      | [] => pure none
      | .null :: _ => pure none
      | a1 :: _ => do pure (some (← sliceIntArg a1))
    match v with
    | .str s => .ok (.str (Flt.Utf8.encodeRunes (Flt.Slice.goSlice64 (Flt.Utf8.decodeRunes s) start len)))
    | .list xs => .ok (.list (Flt.Slice.goSlice64 xs start len))
    | _ => rerr "cannot slice"

/-- the order of the result does not depend on the sorting algorithm: elements with the same key
    (`toString`) are the same value.  (`sort.Slice` on a `[]interface{}` is not stable; with `1` and
    `'1'` in one list the model does not say which comes first.) -/
def sortDetermined (ss : List Flt.Scalar) : Bool :=
  ss.all fun x => ss.all fun y => x.toStr != y.toStr || x == y

/-- filterSort on a `[]interface{}` of scalars: by `toString` (`Flt.sortV` on `.list .any false`) -/
def sortFilter (v : Val) : R Val :=
  match v with
  | .null => .ok .null
  | .list xs =>
    match scalarsToFlt xs with
    | none => unsup "sort of nested values"
    | some ss =>
      if sortDetermined ss then resOfFlt (Flt.sortV (.list .any false ss))
      else unsup "sort: different values with the same key (sort.Slice is not stable)"
  | _ => rerr "cannot sort"

/-- filterSplit of a scalar (`toString` first): a one-byte separator is `strings.Split`, a longer
    ASCII separator splits at EACH of its characters (a regexp class with every metacharacter and the
    dash escaped), the empty separator gives the UTF-8 sequences (`strings.Split(s, "")`); no positive
    limit (`Flt.splitV`, `Flt.explodeStr`) -/
def splitFilter (v : Val) (args : List Val) : R Val :=
  match v.toFlt?, argsToFlt args with
  | some (.sc x), some fa =>
    match Flt.sepArg fa with
    | [] =>
      if Flt.splitLimitOk fa then .ok (.list ((Flt.explodeStr x.toStr).map Val.str))
      else unsup "split with a positive limit"
    | [_] => resOfFlt (Flt.splitV (.sc x) fa)
    | _ => resOfFlt (Flt.splitV (.sc x) fa)
  | _, _ => unsup "split of a container"

/-- filterCapitalize / filterTitle (the same body) of a scalar, ASCII text only (as upper / lower) -/
def capitalizeFilter (v : Val) : R Val :=
  match v.toFlt? with
  | some (.sc x) =>
    if asciiOnly x.toStr then .ok (.str (Flt.capitalizeStr Flt.CaseMap.asciiOnly x.toStr))
    else unsup "case mapping of non-ASCII text"
  | _ => unsup "capitalize of a container"

/-- built-in filters: `none` = no such built-in. -/
def builtinFilter (name : Bytes) (v : Val) (args : List Val) : Option (R Val) :=
  if name == b "upper" then some do
    let s ← toStr v; if asciiOnly s then .ok (.str (upperAscii s)) else unsup "case mapping of non-ASCII text"
  else if name == b "lower" then some do
    let s ← toStr v; if asciiOnly s then .ok (.str (asciiLower s)) else unsup "case mapping of non-ASCII text"
  else if name == b "escape" || name == b "e" then some do
    let s ← toStr v; .ok (.str (escapeHtml s))
  else if name == b "raw" then some (.ok v)
  else if name == b "trim" then some do
    if !args.isEmpty then unsup "trim with a character mask" else
    let s ← toStr v; .ok (.str (Flt.trimStr s))
  else if name == b "length" || name == b "count" then some do
    match v with
    | .null => .ok (.int 0)
    | .str s => do .ok (.int (← runeCount s))
    | .list xs => .ok (.int xs.length)
    | .map kvs => .ok (.int kvs.length)
    | _ => rerr "cannot get length"
  else if name == b "default" then some do
    match args with
    | [] => .ok v
    | d :: _ => .ok (if isEmptyVal v then d else v)
  else if name == b "join" then some do
    let sep : Bytes := match args with
      | .str s :: _ => s
      | _ => [32]
    match v with
    | .null => .ok (.str [])
    | .list xs => do let ss ← mapM' toStr xs; .ok (.str (joinBytes sep ss))
    | other => do .ok (.str (← toStr other))
  else if name == b "first" then some do
    match v with
    | .null => .ok .null
    | .str s => .ok (.str (Flt.firstStr s))
    | .list xs => .ok (xs.head?.getD .null)
    | .map kvs => .ok ((kvs.head?.map (·.2)).getD .null)      -- kvs is key-sorted: smallest key
    | _ => rerr "cannot get first element"
  else if name == b "last" then some do
    match v with
    | .null => .ok .null
    | .str s => .ok (.str (Flt.lastStr s))
    | .list xs => .ok (xs.getLast?.getD .null)
    | _ => rerr "cannot get last element"
  else if name == b "reverse" then some do
    match v with
    | .null => .ok .null
    | .str s => .ok (.str (Flt.reverseStr s))
    | .list xs => .ok (.list xs.reverse)
    | _ => rerr "cannot reverse"
  else if name == b "slice" then some (sliceFilter v args)
  else if name == b "sort" then some (sortFilter v)
  else if name == b "split" then some (splitFilter v args)
  else if name == b "capitalize" || name == b "title" then some (capitalizeFilter v)
  else if name == b "keys" then some do
    match v with
    | .null => .ok .null
    | .map kvs => .ok (.list (kvs.map fun kv => .str kv.1))
    | _ => rerr "cannot get keys"
  else if name == b "merge" then some do
    match v with
    | .list xs =>
      -- a `[]interface{}` base ignores non-list arguments; a `[]string` base (the result of `keys`,
      -- `split`, and of `slice` / `reverse` on those — the model's `.list` does not record the Go type)
      -- falls back to functionMerge when a `[]interface{}` argument comes along, and that APPENDS
      -- them: with both kinds of argument the answer depends on the static type of the base
      if args.any Val.isList && args.any (fun a => !a.isList) then
        unsup "merge with list and non-list arguments: the result depends on the Go slice type of the base"
      else
      .ok (.list (args.foldl (fun acc a => match a with | .list ys => acc ++ ys | _ => acc) xs))
    | .map kvs =>
      .ok (.map (args.foldl (fun acc a => match a with
        | .map m2 => m2.foldl (fun acc' kv => mapInsert kv.1 kv.2 acc') acc
        | _ => acc) kvs))
    | other => .ok other
  else if name == b "abs" then some do
    match v with
    | .int i => .ok (.int i.natAbs)
    | .bool x => .ok (.int (if x then 1 else 0))
    | .str s => match strNum s with
      | .int i => .ok (.int i.natAbs)
      | .notNum => .ok v
      | .undecided => unsup "abs of a float-like string"
    | other => .ok other
  else none

/-- built-in functions reachable through `env.functions` (range, max, min, length). -/
def builtinFunction (name : Bytes) (args : List Val) : Option (R Val) :=
  if name == b "range" then some do
    let (start, stop, step) ← match args with
      | [e] => do pure ((0 : Int), ← toIntV e, (1 : Int))
      | [s, e] => do pure (← toIntV s, ← toIntV e, (1 : Int))
      | [s, e, st] => do pure (← toIntV s, ← toIntV e, ← toIntV st)
      | _ => rerr "range function requires 1-3 arguments"
    if step == 0 then rerr "step cannot be zero"
    else
      let n := ((stop - start) / step).toNat + 1
      if n > 10000 then unsup "range longer than 10000" else .ok (.list (rangeList start stop step n))
  else if name == b "length" then some do
    match args with
    | [v] => match v with
      | .str s => do .ok (.int (← runeCount s))
      | .list xs => .ok (.int xs.length)
      | .map kvs => .ok (.int kvs.length)
      | _ => .ok (.int 0)
    | _ => rerr "length function requires exactly 1 argument"
  else none

/-- built-in tests (`env.tests`). -/
def builtinTest (name : Bytes) (v : Val) (_args : List Val) : Option (R Bool) :=
  if name == b "defined" then some (.ok (match v with | .null => false | _ => true))
  else if name == b "empty" then some (.ok (isEmptyVal v))
  else if name == b "null" || name == b "none" then some (.ok (match v with | .null => true | _ => false))
  else if name == b "even" then some do let i ← toIntV v; .ok (i % 2 == 0)
  else if name == b "odd" then some do let i ← toIntV v; .ok (i % 2 != 0)
  else if name == b "iterable" then some (.ok (match v with | .str _ | .list _ | .map _ => true | _ => false))
  else none

end Twig
