/-
  TwigModel.Filters — executable model of the built-in filters named by property C19
  (extension.go of the fixed tree): upper, lower, trim, capitalize, title, reverse, sort, length,
  first, last, slice, join, split, default, merge, keys, abs, round, number_format, and the helpers
  toString / toInt / toFloat64 / isEmptyValue / length / join / sortedMapKeys they use.

  Core Lean only (the driver links this module).  Proofs are in TwigProofs/Lemmas/Filters.lean and
  TwigProofs/C19.lean.

  Conventions
  * Go strings are `Bytes`; `[]rune(s)` / `for _, r := range s` is `decodeRunes` (an invalid byte
    decodes to U+FFFD and consumes one byte), `string(runes)` is `encodeRunes` (a surrogate or a value
    above U+10FFFF encodes as EF BF BD).  The codec itself works on byte values as `Nat` so that
    `omega` can reason about it.
  * Non-ASCII case mapping is a parameter `CaseMap`; the algebraic facts the theorems need are the
    fields of `CaseMap.Lawful`, checked exhaustively against Go's `unicode.ToUpper/ToLower` by the
    harness (all 1 114 112 code points).
  * Go `int` is `Int` here; the one place where 64-bit wrap-around can happen (`start + length` in
    filterSlice) is modelled explicitly (`wrap64`), together with the guard the code has for it.
  * float64 values are decimals `±m / 10^k` (`Scalar.dec`).  Outside the stated grid the model answers
    `.unsupported`.
-/
import TwigModel.Basic

namespace Twig.Flt

/-! ## UTF-8 as Go decodes and encodes it -/
namespace Utf8

/-- a rune (code point); written `Nat` throughout so that `omega` sees the arithmetic -/
abbrev Rune := Nat
def runeError : Nat := 0xFFFD

/-- a Unicode scalar value: what `utf8.DecodeRune` can return and `utf8.EncodeRune` encodes as itself -/
def validScalar (r : Nat) : Prop := r < 0xD800 ∨ (0xE000 ≤ r ∧ r < 0x110000)
instance : DecidablePred validScalar := fun r => by unfold validScalar; infer_instance

def dec2 (a b : Nat) : Option Nat :=
  if 0xC2 ≤ a ∧ a ≤ 0xDF ∧ 0x80 ≤ b ∧ b ≤ 0xBF then some ((a - 0xC0) * 64 + (b - 0x80)) else none
/-- three-byte form; `acceptRanges` of unicode/utf8: after E0 the second byte starts at A0 (no
    overlong forms), after ED it ends at 9F (no surrogates) -/
def dec3 (a b c : Nat) : Option Nat :=
  if 0xE0 ≤ a ∧ a ≤ 0xEF ∧ 0x80 ≤ b ∧ b ≤ 0xBF ∧ (a ≠ 0xE0 ∨ 0xA0 ≤ b) ∧ (a ≠ 0xED ∨ b ≤ 0x9F) ∧
     0x80 ≤ c ∧ c ≤ 0xBF
  then some ((a - 0xE0) * 4096 + (b - 0x80) * 64 + (c - 0x80)) else none
/-- four-byte form: after F0 the second byte starts at 90, after F4 it ends at 8F (≤ U+10FFFF) -/
def dec4 (a b c d : Nat) : Option Nat :=
  if 0xF0 ≤ a ∧ a ≤ 0xF4 ∧ 0x80 ≤ b ∧ b ≤ 0xBF ∧ (a ≠ 0xF0 ∨ 0x90 ≤ b) ∧ (a ≠ 0xF4 ∨ b ≤ 0x8F) ∧
     0x80 ≤ c ∧ c ≤ 0xBF ∧ 0x80 ≤ d ∧ d ≤ 0xBF
  then some ((a - 0xF0) * 262144 + (b - 0x80) * 4096 + (c - 0x80) * 64 + (d - 0x80)) else none

/-- `[]rune(s)` on byte values: repeated `utf8.DecodeRune`; an invalid or truncated sequence yields
    U+FFFD and consumes ONE byte.  (The thunk keeps the recursion structural and lazy.) -/
def decodeN : List Nat → List Nat
  | [] => []
  | a :: t =>
    let inv : Unit → List Nat := fun _ => runeError :: decodeN t
    if a < 0x80 then a :: decodeN t else
    match t with
    | [] => [runeError]
    | b :: t2 =>
      match dec2 a b with
      | some r => r :: decodeN t2
      | none =>
        match t2 with
        | [] => inv ()
        | c :: t3 =>
          match dec3 a b c with
          | some r => r :: decodeN t3
          | none =>
            match t3 with
            | [] => inv ()
            | d :: t4 =>
              match dec4 a b c d with
              | some r => r :: decodeN t4
              | none => inv ()

/-- `utf8.AppendRune` -/
def encodeRuneN (r : Nat) : List Nat :=
  if r < 0x80 then [r]
  else if r < 0x800 then [0xC0 + r / 64, 0x80 + r % 64]
  else if 0x110000 ≤ r ∨ (0xD800 ≤ r ∧ r < 0xE000) then [0xEF, 0xBF, 0xBD]
  else if r < 0x10000 then [0xE0 + r / 4096, 0x80 + (r / 64) % 64, 0x80 + r % 64]
  else [0xF0 + r / 262144, 0x80 + (r / 4096) % 64, 0x80 + (r / 64) % 64, 0x80 + r % 64]

def encodeN (rs : List Nat) : List Nat := rs.flatMap encodeRuneN

def toNats (s : Bytes) : List Nat := s.map UInt8.toNat
def ofNats (l : List Nat) : Bytes := l.map Nat.toUInt8

/-- `[]rune(s)` -/
def decodeRunes (s : Bytes) : List Nat := decodeN (toNats s)
/-- `string(r)` for one rune -/
def encodeRune (r : Nat) : Bytes := ofNats (encodeRuneN r)
/-- `string(runes)` -/
def encodeRunes (rs : List Nat) : Bytes := ofNats (encodeN rs)

/-- `utf8.RuneCountInString` -/
def runeCount (s : Bytes) : Nat := (decodeRunes s).length

/-- `string([]rune(s))`: what every rune-level filter does to the bytes it does not change; the
    identity exactly on valid UTF-8 -/
def sanitize (s : Bytes) : Bytes := encodeRunes (decodeRunes s)
/-- `utf8.ValidString` (as a decidable equation) -/
def validUtf8 (s : Bytes) : Prop := sanitize s = s
instance : DecidablePred validUtf8 := fun s => by unfold validUtf8; infer_instance

/-- width of the last rune as `utf8.DecodeLastRuneInString` reports it, from the reversed byte values:
    scan back over at most three continuation bytes to a lead byte, accept if the sequence decodes and
    ends exactly at the end of the string, else 1 -/
def lastWidthRev : List Nat → Nat
  | [] => 0
  | d :: rest =>
    if d < 0x80 then 1 else
    match rest with
    | [] => 1
    | c :: rest2 =>
      if (dec2 c d).isSome then 2 else
      match rest2 with
      | [] => 1
      | b :: rest3 =>
        if (dec3 b c d).isSome then 3 else
        match rest3 with
        | [] => 1
        | a :: _ => if (dec4 a b c d).isSome then 4 else 1

def lastWidth (s : Bytes) : Nat := lastWidthRev (toNats s).reverse

/-- the byte chunks `utf8.DecodeRune` walks over: one chunk per rune of `decodeN`, an invalid or
    truncated sequence is a chunk of ONE byte, kept as it is (what `strings.Split(s, "")` — `explode` —
    hands out: `s[:size]`, no re-encoding).  Same case analysis as `decodeN`. -/
def chunksN : List Nat → List (List Nat)
  | [] => []
  | a :: t =>
    let inv : Unit → List (List Nat) := fun _ => [a] :: chunksN t
    if a < 0x80 then [a] :: chunksN t else
    match t with
    | [] => [[a]]
    | b :: t2 =>
      match dec2 a b with
      | some _ => [a, b] :: chunksN t2
      | none =>
        match t2 with
        | [] => inv ()
        | c :: t3 =>
          match dec3 a b c with
          | some _ => [a, b, c] :: chunksN t3
          | none =>
            match t3 with
            | [] => inv ()
            | d :: t4 =>
              match dec4 a b c d with
              | some _ => [a, b, c, d] :: chunksN t4
              | none => inv ()

/-- the UTF-8 sequences of a string, invalid bytes one by one -/
def chunks (s : Bytes) : List Bytes := (chunksN (toNats s)).map ofNats

/-- `unicode.IsSpace` -- FACT: White_Space code points of Go's unicode tables (checked by the harness
    against `unicode.IsSpace` for every code point) -/
def isSpaceRune (r : Nat) : Bool :=
  (9 ≤ r && r ≤ 13) || r == 32 || r == 0x85 || r == 0xA0 || r == 0x1680 ||
  (0x2000 ≤ r && r ≤ 0x200A) || r == 0x2028 || r == 0x2029 || r == 0x202F || r == 0x205F || r == 0x3000

end Utf8

open Utf8

/-! ## Case mapping -/

/-- the non-ASCII part of `unicode.ToUpper` / `unicode.ToLower` -/
structure CaseMap where
  up : Nat → Nat
  low : Nat → Nat

def asciiUp (r : Nat) : Nat := if 97 ≤ r ∧ r ≤ 122 then r - 32 else r
def asciiLow (r : Nat) : Nat := if 65 ≤ r ∧ r ≤ 90 then r + 32 else r

/-- `unicode.ToUpper`: ASCII exactly, the rest through the parameter -/
def CaseMap.upper (cm : CaseMap) (r : Nat) : Nat := if r < 128 then asciiUp r else cm.up r
def CaseMap.lower (cm : CaseMap) (r : Nat) : Nat := if r < 128 then asciiLow r else cm.low r

/-- the facts about Go's tables the theorems use (harness: checked for every code point) -/
structure CaseMap.Lawful (cm : CaseMap) : Prop where
  up_idem : ∀ r, validScalar r → cm.upper (cm.upper r) = cm.upper r
  low_idem : ∀ r, validScalar r → cm.lower (cm.lower r) = cm.lower r
  up_valid : ∀ r, validScalar r → validScalar (cm.upper r)
  low_valid : ∀ r, validScalar r → validScalar (cm.lower r)
  up_nonspace : ∀ r, validScalar r → isSpaceRune r = false → isSpaceRune (cm.upper r) = false
  low_nonspace : ∀ r, validScalar r → isSpaceRune r = false → isSpaceRune (cm.lower r) = false

/-- a case map that leaves everything outside ASCII alone (non-vacuity of `Lawful`) -/
def CaseMap.asciiOnly : CaseMap := ⟨id, id⟩

/-- a case map given by a finite table (what the driver uses: the harness sends Go's mapping for the
    runes of the case) -/
def CaseMap.ofTable (t : List (Nat × Nat × Nat)) : CaseMap :=
  ⟨fun r => match t.find? (·.1 == r) with | some e => e.2.1 | none => r,
   fun r => match t.find? (·.1 == r) with | some e => e.2.2 | none => r⟩

/-! ## String filters -/

/-- `strings.ToUpper` = `strings.Map(unicode.ToUpper, s)`: unchanged valid strings come back as they
    are, anything else is rebuilt rune by rune (invalid bytes become EF BF BD) -/
def upperStr (cm : CaseMap) (s : Bytes) : Bytes := encodeRunes ((decodeRunes s).map cm.upper)
def lowerStr (cm : CaseMap) (s : Bytes) : Bytes := encodeRunes ((decodeRunes s).map cm.lower)

/-- split at the elements satisfying `p` (`strings.Split` with a one-byte separator; the word
    boundaries of `strings.Fields`) -/
def splitP {α : Type} (p : α → Bool) : List α → List (List α)
  | [] => [[]]
  | x :: xs =>
    if p x then [] :: splitP p xs
    else match splitP p xs with
      | [] => [[x]]
      | h :: t => (x :: h) :: t

/-- `strings.Join` -/
def joinWith {α : Type} (sep : List α) : List (List α) → List α
  | [] => []
  | [w] => w
  | w :: rest => w ++ sep ++ joinWith sep rest

/-- `strings.Fields` on the rune level -/
def fieldsR (rs : List Nat) : List (List Nat) := (splitP isSpaceRune rs).filter (fun w => !w.isEmpty)

/-- one word of filterCapitalize / filterTitle: `ToUpper(word[:size]) + ToLower(word[size:])` -/
def capWord (cm : CaseMap) : List Nat → List Nat
  | [] => []
  | r :: rs => cm.upper r :: rs.map cm.lower

def capR (cm : CaseMap) (rs : List Nat) : List Nat :=
  joinWith [32] ((fieldsR rs).map (capWord cm))

/-- filterCapitalize (and filterTitle, whose body is identical): every word of `strings.Fields(s)`
    gets an upper-case first rune and a lower-case rest; words are joined by one space -/
def capitalizeStr (cm : CaseMap) (s : Bytes) : Bytes := encodeRunes (capR cm (decodeRunes s))

/-- UTF-8 encodings of the `unicode.IsSpace` runes (the cut set of `strings.TrimSpace`) --
    FACT: equals `string(r)` for exactly the runes with `unicode.IsSpace(r)` (harness, every code point) -/
def spaceEncs : List Bytes :=
  [[9], [10], [11], [12], [13], [32], [0xC2, 0x85], [0xC2, 0xA0], [0xE1, 0x9A, 0x80],
   [0xE2, 0x80, 0x80], [0xE2, 0x80, 0x81], [0xE2, 0x80, 0x82], [0xE2, 0x80, 0x83], [0xE2, 0x80, 0x84],
   [0xE2, 0x80, 0x85], [0xE2, 0x80, 0x86], [0xE2, 0x80, 0x87], [0xE2, 0x80, 0x88], [0xE2, 0x80, 0x89],
   [0xE2, 0x80, 0x8A], [0xE2, 0x80, 0xA8], [0xE2, 0x80, 0xA9], [0xE2, 0x80, 0xAF], [0xE2, 0x81, 0x9F],
   [0xE3, 0x80, 0x80]]

/-- drop one leading element of `encs` if there is one -/
def stripOne (encs : List Bytes) (s : Bytes) : Option Bytes :=
  (encs.find? (fun e => e.isPrefixOf s)).map (fun e => s.drop e.length)

/-- `strings.TrimLeftFunc(s, unicode.IsSpace)`: strip leading space runes (fuel = length) -/
def trimLeftF (encs : List Bytes) : Nat → Bytes → Bytes
  | 0, s => s
  | n + 1, s => match stripOne encs s with
    | some r => trimLeftF encs n r
    | none => s

def trimLeft (encs : List Bytes) (s : Bytes) : Bytes := trimLeftF encs s.length s
/-- `strings.TrimRightFunc`: `DecodeLastRune` finds a space rune exactly when the string ends with its
    encoding (UTF-8 is self-synchronising), so this is `trimLeft` on the reversed string -/
def trimRight (encs : List Bytes) (s : Bytes) : Bytes :=
  (trimLeft (encs.map List.reverse) s.reverse).reverse

/-- `strings.TrimSpace` (filterTrim without arguments): left, then right; a substring of `s` -/
def trimStr (s : Bytes) : Bytes := trimRight spaceEncs (trimLeft spaceEncs s)

/-- filterReverse on a string: `string(reversed []rune(s))` -/
def reverseStr (s : Bytes) : Bytes := encodeRunes (decodeRunes s).reverse

/-- filterFirst on a string: `for _, r := range s { return string(r) }` — the first rune RE-ENCODED
    (an invalid first byte comes back as EF BF BD); `""` for the empty string -/
def firstStr (s : Bytes) : Bytes :=
  match decodeRunes s with
  | [] => []
  | r :: _ => encodeRune r

/-- filterLast on a string: the last `DecodeLastRuneInString` bytes AS THEY ARE -/
def lastStr (s : Bytes) : Bytes := s.drop (s.length - lastWidth s)

/-- `strings.Split(s, "")` (`explode` with n = -1): the UTF-8 sequences of `s`, an invalid byte alone
    and unchanged; no parts at all for the empty string -/
def explodeStr (s : Bytes) : List Bytes := chunks s


/-! ## Values -/

/-- scalar Go values a template sees: `nil`, `bool`, `int`, `float64` (as a decimal `±m/10^k`; the
    sign is kept apart because Go prints negative zero as `-0`), `string` -/
inductive Scalar
  | null
  | bool (b : Bool)
  | int (i : Int)
  | dec (neg : Bool) (m : Nat) (k : Nat)
  | str (s : Bytes)
  deriving DecidableEq, Repr, Inhabited

/-- element type of a slice / array / map value: `interface{}`, `int`, `string` -/
inductive ElemTy
  | any | int | str
  deriving DecidableEq, Repr, Inhabited

/-- filter inputs and outputs.  Containers hold scalars (one level is all the property talks about).
    * `list ty arr xs`: `[]T` (or `[n]T` when `arr`) with `T` given by `ty`; the code treats typed slices,
      arrays and `[]interface{}` alike up to the type of the result, which the tag records because
      `sort` chooses its order by it.
    * `map ty kvs`: `map[string]T` as an association list with UNIQUE keys in no particular order (a Go
      map has no order; every observation — `for`, `keys`, `first` — goes through the sorted keys, and
      `merge` is insertion, so uniqueness (`MapWF`) is the only invariant needed). -/
inductive Val
  | sc (s : Scalar)
  | list (ty : ElemTy) (arr : Bool) (xs : List Scalar)
  | map (ty : ElemTy) (kvs : List (Bytes × Scalar))
  deriving DecidableEq, Repr, Inhabited

/-- what a filter call does -/
inductive Res
  | ok (v : Val)
  | err            -- the filter returned an error
  | panic          -- the Go code panics (no filter of the model does since 27a7ba4; kept for the protocol)
  | unsupported    -- outside the modelled domain
  deriving DecidableEq, Repr, Inhabited

def MapWF (kvs : List (Bytes × Scalar)) : Prop := (kvs.map Prod.fst).Nodup

/-! ### decimal printing -/

/-- digits of `n`, most significant first (`strconv.Itoa` for naturals) -/
def digitsAux : Nat → Nat → Bytes → Bytes
  | 0, _, acc => acc
  | f + 1, n, acc => if n < 10 then (48 + n.toUInt8) :: acc else digitsAux f (n / 10) ((48 + (n % 10).toUInt8) :: acc)
def digits (n : Nat) : Bytes := digitsAux (n + 1) n []

def padLeft (w : Nat) (ds : Bytes) : Bytes := List.replicate (w - ds.length) 48 ++ ds

/-- drop trailing zeros of the fraction -/
def stripZeros : Nat → Nat → Nat × Nat
  | m, 0 => (m, 0)
  | m, k + 1 => if m % 10 = 0 then stripZeros (m / 10) k else (m, k + 1)

/-- `m / 10^k` with exactly `k` decimals: integer digits, fraction digits -/
def fixedParts (m k : Nat) : Bytes × Bytes :=
  let ds := padLeft (k + 1) (digits m)
  (ds.take (ds.length - k), ds.drop (ds.length - k))

/-- `strconv.FormatFloat(x+0, 'f', -1, 64)` (toString, PrintNode, ToString) for a float that is the
    double nearest to `±m/10^k` with at most 15 significant digits (or an integer up to 2^53): the
    shortest decimal that reads back as the same double is the decimal itself without trailing zeros;
    `x+0` turns a negative zero into zero, so `-0` prints as `0` -/
def decToStr (neg : Bool) (m k : Nat) : Bytes :=
  let (m', k') := stripZeros m k
  let (ip, fp) := fixedParts m' k'
  (if neg && m != 0 then [45] else []) ++ ip ++ (if k' = 0 then [] else 46 :: fp)

def intToStr (i : Int) : Bytes := if i < 0 then 45 :: digits i.natAbs else digits i.natAbs

/-- extension.go `toString` on scalars (also what PrintNode writes) -/
def Scalar.toStr : Scalar → Bytes
  | .null => []
  | .bool true => [116, 114, 117, 101]      -- "true"
  | .bool false => [102, 97, 108, 115, 101]   -- "false"
  | .int i => intToStr i
  | .dec neg m k => decToStr neg m k
  | .str s => s

/-- the doubles the numeric filters are modelled on: decimals with ≤ 15 significant digits, and
    integers up to 2^53 -/
def exactFloat (m k : Nat) : Bool := m < 10 ^ 15 || (k == 0 && m ≤ 2 ^ 53)

def int64Min : Int := -(2 ^ 63)
def int64Max : Int := 2 ^ 63 - 1
def inInt64 (i : Int) : Bool := int64Min ≤ i && i ≤ int64Max

/-! ### argument conversions -/

def isDigitB (c : UInt8) : Bool := 48 ≤ c && c ≤ 57
def digitsVal (ds : Bytes) : Nat := ds.foldl (fun acc c => acc * 10 + (c.toNat - 48)) 0

/-- `strconv.Atoi`: optional sign, at least one digit, nothing else, must fit in 64 bits -/
def atoi (s : Bytes) : Option Int :=
  let (neg, ds) := match s with
    | 45 :: r => (true, r)
    | 43 :: r => (false, r)
    | r => (false, r)
  if ds.isEmpty || !ds.all isDigitB then none
  else
    let n : Int := digitsVal ds
    let v := if neg then -n else n
    if inInt64 v then some v else none

/-- extension.go `toInt`; `none` = error -/
def toIntArg : Val → Except Res Int
  | .sc (.int i) => if inInt64 i then pure i else throw .unsupported   -- a Go int is a 64-bit value
  | .sc (.dec neg m k) =>
    let q : Int := (m / 10 ^ k : Nat)
    let v := if neg then -q else q
    if inInt64 v then pure v else throw .unsupported   -- int(float) out of range is implementation-defined
  | .sc (.str s) => match atoi s with | some i => pure i | none => throw .err
  | .sc (.bool bb) => pure (if bb then 1 else 0)
  | _ => throw .err

/-! ## List filters -/

/-- bytewise lexicographic order: Go's `<` on strings -/
def lexLe (a b : Bytes) : Bool := decide (a ≤ b)

def Scalar.numKey : Scalar → Int
  | .int i => i
  | _ => 0

/-- how filterSort orders: `[]int` numerically (`sort.Ints`), everything else by `toString`
    (`sort.Strings`, `sort.Slice`/`sort.SliceStable` with `toString(a) < toString(b)`) -/
inductive SortKind
  | byString | byInt
  deriving DecidableEq, Repr

def sortLe : SortKind → Scalar → Scalar → Bool
  | .byString, x, y => lexLe x.toStr y.toStr
  | .byInt, x, y => decide (x.numKey ≤ y.numKey)

/-- insertion sort (structural, so that closed instances evaluate in the kernel) -/
def orderedInsert {α : Type} (le : α → α → Bool) (a : α) : List α → List α
  | [] => [a]
  | x :: xs => if le a x then a :: x :: xs else x :: orderedInsert le a xs

def insertSort {α : Type} (le : α → α → Bool) : List α → List α
  | [] => []
  | x :: xs => orderedInsert le x (insertSort le xs)

/-- the sorted list.  Go uses pdqsort / insertion sort / a stable sort depending on the type; any
    sorting algorithm returns a list that is ordered and a permutation, and two such lists show the
    same keys in the same order (C19_sort_canonical) — and the key IS what gets printed (`toString`) —
    so one (stable) insertion sort stands for all of them. -/
def sortList (k : SortKind) (xs : List Scalar) : List Scalar := insertSort (sortLe k) xs

def sortKindOf (ty : ElemTy) (arr : Bool) : SortKind :=
  if ty == .int && !arr then .byInt else .byString

/-! ### slice (from notes/lean-prototypes/SliceSpec.lean) -/
namespace Slice
variable {α : Type}

def normStart (n start : Int) : Int :=
  let s0 := if start < 0 then n + start else start
  if s0 < 0 then 0 else s0

def endIdx (n s1 : Int) : Option Int → Int
  | none => n
  | some l => if l ≥ 0 then (if s1 + l > n then n else s1 + l) else (if n + l < s1 then s1 else n + l)

/-- extension.go filterSlice on a sequence, Go ints as unbounded `Int` -/
def goSlice (xs : List α) (start : Int) (len : Option Int) : List α :=
  let n : Int := xs.length
  let s1 := normStart n start
  if s1 ≥ n then [] else (xs.drop s1.toNat).take (endIdx n s1 len - s1).toNat

/-- two's-complement wrap of a 64-bit addition -/
def wrap64 (x : Int) : Int := (x + 2 ^ 63) % 2 ^ 64 - 2 ^ 63

/-- the end index as the code computes it with 64-bit ints: `end = start + length` may wrap to a
    negative number; `if end > count || end < start { end = count }` catches both the ordinary clamp and
    the wrap -/
def endIdx64 (n s1 : Int) : Option Int → Int
  | none => n
  | some l =>
    if l ≥ 0 then (let e := wrap64 (s1 + l); if e > n || e < s1 then n else e)
    else (if n + l < s1 then s1 else n + l)

/-- filterSlice as it runs (64-bit ints) -/
def goSlice64 (xs : List α) (start : Int) (len : Option Int) : List α :=
  let n : Int := xs.length
  let s1 := normStart n start
  if s1 ≥ n then [] else (xs.drop s1.toNat).take (endIdx64 n s1 len - s1).toNat

/-- Twig's index rules (PHP array_slice / mb_substr), written independently with drop/take -/
def specOff (n start : Int) : Nat := if start ≥ 0 then start.toNat else (n + start).toNat
def specSlice (xs : List α) (start : Int) (len : Option Int) : List α :=
  let rest := xs.drop (specOff xs.length start)
  match len with
  | none => rest
  | some l => if l ≥ 0 then rest.take l.toNat else rest.take ((rest.length : Int) + l).toNat

end Slice

/-! ### maps -/

def mapGet (k : Bytes) : List (Bytes × Scalar) → Option Scalar
  | [] => none
  | (k', v) :: rest => if k' = k then some v else mapGet k rest

/-- `m[k] = v` -/
def mapInsert (k : Bytes) (v : Scalar) : List (Bytes × Scalar) → List (Bytes × Scalar)
  | [] => [(k, v)]
  | (k', v') :: rest => if k' = k then (k, v) :: rest else (k', v') :: mapInsert k v rest

/-- `for k, v := range m2 { m1[k] = v }` -/
def mapMerge (m1 m2 : List (Bytes × Scalar)) : List (Bytes × Scalar) :=
  m2.foldl (fun acc kv => mapInsert kv.1 kv.2 acc) m1

/-- a map literal / Go map read into the model: later bindings of a key win -/
def mapOfList (kvs : List (Bytes × Scalar)) : List (Bytes × Scalar) := mapMerge [] kvs

/-- entries in key order: how `for`, `first` and the printer visit a map (`sortedMapKeys`) -/
def mapSorted (m : List (Bytes × Scalar)) : List (Bytes × Scalar) :=
  insertSort (fun x y => lexLe x.1 y.1) m

/-- filterKeys: `sort.Strings(keys)` -/
def mapKeys (m : List (Bytes × Scalar)) : List Bytes := insertSort lexLe (m.map Prod.fst)

/-! ### the element view -/

/-- the elements a `for` loop visits (ForNode.renderForLoop): runes of a string (each as
    `string(char)`), elements of a slice or array, values of a map in key order; nothing otherwise -/
def items : Val → List Scalar
  | .sc (.str s) => (decodeRunes s).map (fun r => .str (encodeRune r))
  | .sc _ => []
  | .list _ _ xs => xs
  | .map _ kvs => (mapSorted kvs).map Prod.snd

/-- extension.go `length` -/
def lengthV : Val → Res
  | .sc .null => .ok (.sc (.int 0))
  | .sc (.str s) => .ok (.sc (.int (runeCount s)))
  | .sc _ => .err
  | .list _ _ xs => .ok (.sc (.int xs.length))
  | .map _ kvs => .ok (.sc (.int kvs.length))

/-- filterFirst -/
def firstV : Val → Res
  | .sc .null => .ok (.sc .null)
  | .sc (.str s) => match decodeRunes s with
    | [] => .ok (.sc (.str []))
    | r :: _ => .ok (.sc (.str (encodeRune r)))
  | .sc _ => .err
  | .list _ _ xs => match xs with
    | [] => .ok (.sc .null)
    | x :: _ => .ok (.sc x)
  | .map _ kvs => match mapSorted kvs with
    | [] => .ok (.sc .null)
    | kv :: _ => .ok (.sc kv.2)

/-- filterLast: the last `DecodeLastRuneInString` bytes of a string AS THEY ARE (no re-encoding), the
    last element of a slice; maps are not handled -/
def lastV : Val → Res
  | .sc .null => .ok (.sc .null)
  | .sc (.str s) => .ok (.sc (.str (s.drop (s.length - lastWidth s))))
  | .sc _ => .err
  | .list _ _ xs => match xs.getLast? with
    | none => .ok (.sc .null)
    | some x => .ok (.sc x)
  | .map _ _ => .err

/-- filterReverse -/
def reverseV : Val → Res
  | .sc .null => .ok (.sc .null)
  | .sc (.str s) => .ok (.sc (.str (reverseStr s)))
  | .sc _ => .err
  | .list ty _ xs => .ok (.list ty false xs.reverse)
  | .map _ _ => .err

/-- filterSort (arguments are ignored).  `[]string`, `[]int` and `[]interface{}` come back as
    `[]interface{}`; other slices and arrays keep their element type -/
def sortV : Val → Res
  | .sc .null => .ok (.sc .null)
  | .sc _ => .err
  | .list ty arr xs =>
    let sorted := sortList (sortKindOf ty arr) xs
    .ok (.list (if arr then ty else .any) false sorted)
  | .map _ _ => .err

/-- filterSlice -/
def sliceV (v : Val) (args : List Val) : Res :=
  match v with
  | .sc .null => .ok (.sc .null)
  | _ =>
  match args with
  | [] => .err
  | a0 :: rest =>
    match toIntArg a0 with
    | .error e => e
    | .ok start =>
      let lenR : Except Res (Option Int) := match rest with
        | [] => pure none
        | .sc .null :: _ => pure none
        | a1 :: _ => (toIntArg a1).map some
      match lenR with
      | .error e => e
      | .ok len =>
        match v with
        | .sc (.str s) =>
          .ok (.sc (.str (encodeRunes (Slice.goSlice64 (decodeRunes s) start len))))
        | .list ty _ xs =>
          .ok (.list ty false (Slice.goSlice64 xs start len))
        | _ => .err

/-- extension.go `join` after filterJoin's conversions -/
def joinBytes (sep : Bytes) (xs : List Bytes) : Bytes := joinWith sep xs

def sepArg (args : List Val) : Bytes :=
  match args with
  | .sc (.str d) :: _ => d
  | _ => [32]

def joinV (v : Val) (args : List Val) : Res :=
  match v with
  | .sc .null => .ok (.sc (.str []))
  | .sc x => .ok (.sc (.str x.toStr))
  | .list _ _ xs => .ok (.sc (.str (joinBytes (sepArg args) (xs.map Scalar.toStr))))
  | .map _ _ => .unsupported      -- fmt %v of a map

/-- `regexp [..]` split: at every byte that is one of the separator's characters (ASCII separators) -/
def splitAny (set : Bytes) (s : Bytes) : List Bytes := splitP (fun c => set.contains c) s
/-- `strings.Split(s, [c])` -/
def splitByte (c : UInt8) (s : Bytes) : List Bytes := splitP (fun x => x == c) s

/-- filterSplit without a positive limit; the result is a `[]string` -/
def splitV (v : Val) (args : List Val) : Res :=
  let limitOk : Bool := match args with
    | _ :: .sc (.int l) :: _ => l ≤ 0
    | _ :: _ :: _ => false
    | _ => true
  if !limitOk then .unsupported else
  match v with
  | .sc x =>
    let s := x.toStr
    match sepArg args with
    | [] => .unsupported                       -- explode into UTF-8 sequences
    | [c] => .ok (.list .str false ((splitByte c s).map .str))
    | set => if set.all (· < 128) then .ok (.list .str false ((splitAny set s).map .str)) else .unsupported
  | _ => .unsupported

/-- the limit argument of filterSplit as far as it is modelled: absent, or an int ≤ 0 (no limit) -/
def splitLimitOk (args : List Val) : Bool :=
  match args with
  | _ :: .sc (.int l) :: _ => l ≤ 0
  | _ :: _ :: _ => false
  | _ => true

/-- `isEmptyValue` (also the `empty` test) together with `value == nil` -/
def isEmptyV : Val → Bool
  | .sc .null => true
  | .sc (.str s) => s.isEmpty
  | .sc (.bool bb) => !bb
  | .sc (.int i) => i == 0
  | .sc (.dec _ m _) => m == 0
  | .list _ _ xs => xs.isEmpty
  | .map _ kvs => kvs.isEmpty

/-- filterDefault -/
def defaultV (v : Val) (args : List Val) : Res :=
  match args with
  | [] => .ok v
  | d :: _ => if isEmptyV v then .ok d else .ok v

/-- `reflect.Type.AssignableTo` on the element types we have -/
def assignable (argTy baseTy : ElemTy) : Bool := baseTy == .any || argTy == baseTy

def Val.isList : Val → Bool
  | .list _ _ _ => true
  | _ => false
def Val.isMap : Val → Bool
  | .map _ _ => true
  | _ => false
/-- elements of a slice / array argument; other arguments contribute nothing (filterMerge) -/
def Val.elems : Val → List Scalar
  | .list _ _ ys => ys
  | _ => []
/-- functionMerge appends a non-slice argument as one element -/
def Val.elemsOrSelf : Val → List Scalar
  | .list _ _ ys => ys
  | .sc x => [x]
  | .map _ _ => []
def Val.entries : Val → List (Bytes × Scalar)
  | .map _ kvs => kvs
  | _ => []
/-- a slice argument whose element type cannot be assigned to the base's -/
def listMisfit (ty : ElemTy) : Val → Bool
  | .list aty _ _ => !assignable aty ty
  | _ => false
def mapMisfit (ty : ElemTy) : Val → Bool
  | .map aty _ => !assignable aty ty
  | _ => false

/-- filterMerge (and functionMerge, which it falls back to when an argument's element type does not fit
    the typed base) -/
def mergeV (v : Val) (args : List Val) : Res :=
  match v with
  | .sc _ => .ok v
  | .list ty _ xs =>
    if !args.any (listMisfit ty) then .ok (.list ty false (xs ++ args.flatMap Val.elems))
    else if args.any Val.isMap then .unsupported      -- a map as a list element
    else .ok (.list .any false (xs ++ args.flatMap Val.elemsOrSelf))
  | .map ty kvs =>
    .ok (.map (if args.any (mapMisfit ty) then .any else ty) (args.foldl (fun acc a => mapMerge acc a.entries) kvs))

/-- filterKeys: `[]string` for a `map[string]interface{}`, `[]interface{}` otherwise -/
def keysV : Val → Res
  | .sc .null => .ok (.sc .null)
  | .sc _ => .err
  | .list _ _ _ => .err
  | .map ty kvs => .ok (.list (if ty == .any then .str else .any) false ((mapKeys kvs).map .str))


/-! ## Numbers

  A float64 argument is the double nearest to a decimal `x = ±m/10^k` (`exactFloat`).  The SPEC of
  `round` and `number_format` is exact decimal arithmetic (`specRoundDiv`: ties away from zero).
  * `round` (precision ≥ 0) works on the SHORTEST DECIMAL REPRESENTATION of the input
    (`roundDecimal` in extension.go): pure digit-string arithmetic, modelled digit by digit
    (`roundCore`) and proved equal to the spec (TwigProofs/C19.lean).
  * `number_format` is still `fmt.Sprintf("%.nf")` on the binary value: away from ties the binary
    evaluation cannot cross a rounding boundary (relative error 2^-52 against a distance of at least
    1/m), so the model takes the exact value there — an assumption about IEEE arithmetic that the
    correspondence run checks (the driver also evaluates the full binary pipeline `pipeFixed`); AT a
    decimal tie the outcome depends on which side of the tie the double lies, which `fl53` computes.
-/
namespace Num

/-- nearest multiple: `round(m / d)` with ties away from zero, for naturals -/
def specRoundDiv (m d : Nat) : Nat := (2 * m + d) / (2 * d)

def isTie (m d : Nat) : Bool := 2 * (m % d) == d

/-! ### binary64 rounding of a positive rational -/

def scaleDown : Nat → Nat → Nat → Int → Nat × Nat × Int
  | 0, n, d, e => (n, d, e)
  | f + 1, n, d, e => if n / d ≥ 2 ^ 53 then scaleDown f n (2 * d) (e + 1) else (n, d, e)

def scaleUp : Nat → Nat → Nat → Int → Nat × Nat × Int
  | 0, n, d, e => (n, d, e)
  | f + 1, n, d, e => if n / d < 2 ^ 52 then scaleUp f (2 * n) d (e - 1) else (n, d, e)

/-- round-to-nearest-even of `n/d` (n, d > 0, normal range) to 53 significant bits: `(mant, e)` with
    value `mant · 2^e` -/
def fl53 (n d : Nat) : Nat × Int :=
  let (n1, d1, e1) := scaleDown 1200 n d 0
  let (n2, d2, e2) := scaleUp 1200 n1 d1 e1
  let q := n2 / d2
  let r := n2 % d2
  let q' := if 2 * r > d2 then q + 1 else if 2 * r = d2 then (if q % 2 = 1 then q + 1 else q) else q
  (q', e2)

/-- `mant·2^e` as a fraction -/
def binFrac (mant : Nat) (e : Int) : Nat × Nat :=
  if e ≥ 0 then (mant * 2 ^ e.toNat, 1) else (mant, 2 ^ (-e).toNat)

/-- sign of `fl(m/10^k) - m/10^k`: 0 when the decimal is a double -/
def flCmp (m k : Nat) : Ordering :=
  let (mant, e) := fl53 m (10 ^ k)
  let (fn, fd) := binFrac mant e
  compare (fn * 10 ^ k) (m * fd)

/-- `%.{d}f` of the double nearest to `m/10^k` (the full pipeline): the exact binary value rounded
    half-to-even at `d` decimals -/
def pipeFixed (m k d : Nat) : Nat :=
  if m = 0 then 0 else
  let (mant, e) := fl53 m (10 ^ k)
  let (fn, fd) := binFrac mant e
  let n := fn * 10 ^ d
  let q := n / fd
  let r := n % fd
  if 2 * r > fd then q + 1 else if 2 * r = fd then (if q % 2 = 1 then q + 1 else q) else q

/-- what `fmt.Sprintf("%.{d}f", x)` prints for `|x| = m/10^k`, as the integer `N` with value
    `N/10^d` (the hybrid model) -/
def goFixedN (m k d : Nat) : Nat :=
  if k ≤ d then m * 10 ^ (d - k)
  else
    let dv := 10 ^ (k - d)
    if isTie m dv then
      match flCmp m k with
      | .lt => m / dv
      | .gt => m / dv + 1
      | .eq => let q := m / dv; if q % 2 = 1 then q + 1 else q     -- a real binary tie: half to even
    else specRoundDiv m dv

/-! ### round: digit-string arithmetic (`roundDecimal`) -/

/-- value of a digit string, most significant digit first (digits as numbers 0–9) -/
def valOf (ds : List Nat) : Nat := ds.foldl (fun a d => a * 10 + d) 0

/-- digits of `n`, most significant first (fuel = an upper bound of their number) -/
def digitsAuxN : Nat → Nat → List Nat → List Nat
  | 0, _, acc => acc
  | f + 1, n, acc => if n < 10 then n :: acc else digitsAuxN f (n / 10) (n % 10 :: acc)
def digitsN (n : Nat) : List Nat := digitsAuxN (n + 1) n []

/-- the digits of `strconv.FormatFloat(|v|, 'f', -1, 64)` without the point, for `|v| = m/10^k` in
    lowest terms (`stripZeros`): at least one digit before the point -/
def floatDigits (m k : Nat) : List Nat :=
  let ds := digitsN m
  List.replicate (k + 1 - ds.length) 0 ++ ds

/-- `digits[i]++` with carry from the right end: the digits and the carry out -/
def incrAux : List Nat → List Nat × Bool
  | [] => ([], true)
  | d :: ds =>
    let (ds', c) := incrAux ds
    if c then (if d = 9 then (0 :: ds', true) else ((d + 1) :: ds', false)) else (d :: ds', false)

/-- rounding mode of roundDecimal: 'c' half away from zero, 'u' towards +Inf, 'd' towards -Inf -/
inductive Mode
  | common | up | down
  deriving DecidableEq, Repr

/-- does the kept part go up?  'c': first dropped digit ≥ 5; 'u'/'d': a non-zero dropped digit and the
    sign that makes "up in magnitude" the right direction -/
def roundsUp (mode : Mode) (neg : Bool) (dropped : List Nat) : Bool :=
  match mode with
  | .common => match dropped with
    | d :: _ => decide (5 ≤ d)
    | [] => false
  | .up => !neg && dropped.any (· != 0)
  | .down => neg && dropped.any (· != 0)

/-- the digit work of `roundDecimal`: `digits` with `point` digits before the decimal point become
    digits with exactly `decimals` fraction digits; returns the new digits -/
def roundCore (digits : List Nat) (point decimals : Nat) (neg : Bool) (mode : Mode) : List Nat :=
  let keep := point + decimals
  if digits.length ≤ keep then digits ++ List.replicate (keep - digits.length) 0
  else
    let kept := digits.take keep
    if roundsUp mode neg (digits.drop keep) then
      let (ds', c) := incrAux kept
      if c then 1 :: ds' else ds'
    else kept

/-- `ParseFloat(roundDecimal(v, p, mode))` for `|v| = m/10^k`, as the integer `N` with value `N/10^p` -/
def goRoundModeN (mode : Mode) (neg : Bool) (m k p : Nat) : Nat :=
  let (m', k') := stripZeros m k
  let ds := floatDigits m' k'
  valOf (roundCore ds (ds.length - k') p neg mode)

/-- method "common" -/
def goRoundN (m k p : Nat) : Nat := goRoundModeN .common false m k p

/-- SPEC of the three modes on magnitudes: `m/d` rounded -/
def specModeDiv (mode : Mode) (neg : Bool) (m d : Nat) : Nat :=
  match mode with
  | .common => specRoundDiv m d
  | .up => m / d + (if !neg && m % d != 0 then 1 else 0)
  | .down => m / d + (if neg && m % d != 0 then 1 else 0)

/-! ### thousands separators -/

/-- the loop of filterNumberFormat: a separator before every digit whose distance to the end is a
    multiple of three, except the first -/
def groupAux (sep : Bytes) : Bool → Bytes → Bytes
  | _, [] => []
  | first, c :: rest =>
    (if !first && (rest.length + 1) % 3 == 0 then sep else []) ++ c :: groupAux sep false rest

def goGroup (sep : Bytes) (ds : Bytes) : Bytes := groupAux sep true ds

/-- consecutive triples -/
def triples {α : Type} : List α → List (List α)
  | x :: y :: z :: r => [x, y, z] :: triples r
  | _ => []

/-- SPEC: the digit groups — a first group of 1 to 3 digits, then groups of exactly 3 -/
def specGroups {α : Type} (ds : List α) : List (List α) :=
  if ds.isEmpty then [] else
  let h := (ds.length - 1) % 3 + 1
  ds.take h :: triples (ds.drop h)

end Num

/-- extension.go `toFloat64` on the values the model covers: `(neg, m, k)`; `.err` = the filter
    returns its input unchanged -/
def parseDec (s : Bytes) : Option (Bool × Nat × Nat) :=
  let (neg, r) := match s with
    | 45 :: r => (true, r)
    | 43 :: r => (false, r)
    | r => (false, r)
  let ip := r.takeWhile isDigitB
  let rest := r.dropWhile isDigitB
  match rest with
  | [] => if ip.isEmpty then none else some (neg, digitsVal ip, 0)
  | 46 :: fp => if fp.all isDigitB && !(ip.isEmpty && fp.isEmpty) then some (neg, digitsVal (ip ++ fp), fp.length) else none
  | _ => none

/-- bytes that can occur in a string `strconv.ParseFloat` accepts (digits, sign, point, exponent, hex,
    underscore, inf/infinity/nan in any case) -/
def floatAlphabet (c : UInt8) : Bool :=
  isDigitB c || c == 43 || c == 45 || c == 46 || c == 95 ||
  ([101, 69, 120, 88, 112, 80, 105, 73, 110, 78, 102, 70, 116, 84, 121, 89, 97, 65, 98, 66, 99, 67, 100, 68] : Bytes).contains c   -- eExXpPiInNfFtTyYaAbBcCdD

def toFloatArg : Val → Except Res (Bool × Nat × Nat)
  | .sc (.int i) => pure (decide (i < 0), i.natAbs, 0)
  | .sc (.dec neg m k) => pure (neg, m, k)
  | .sc (.bool bb) => pure (false, if bb then 1 else 0, 0)
  | .sc (.str s) =>
    match parseDec s with
    | some d => pure d
    | none => if s.all floatAlphabet && !s.isEmpty then throw .unsupported else throw .err
  | _ => throw .err

/-- filterAbs -/
def absV (v : Val) : Res :=
  match toFloatArg v with
  | .error .err => .ok v
  | .error e => e
  | .ok (_, m, k) => if exactFloat m k then .ok (.sc (.dec false m k)) else .unsupported

/-- optional integer argument of round / number_format: a conversion error keeps the default 0 -/
def optIntArg (args : List Val) : Except Res Int :=
  match args with
  | [] => pure 0
  | a :: _ => match toIntArg a with
    | .ok i => pure i
    | .error .err => pure 0
    | .error e => throw e

/-- the method argument of filterRound: `strings.ToLower`, "ceil"/"ceiling", "floor", anything else
    is "common" (ASCII method names; others `.unsupported`) -/
def roundMode (args : List Val) : Option Num.Mode :=
  match args with
  | _ :: .sc (.str meth) :: _ =>
    if !meth.all (· < 128) then none else
    let l := asciiLower meth
    if l == [99, 101, 105, 108] || l == [99, 101, 105, 108, 105, 110, 103] then some .up       -- ceil, ceiling
    else if l == [102, 108, 111, 111, 114] then some .down                                   -- floor
    else some .common
  | _ => some .common

/-- filterRound for precision ≥ 0 (the decimal path) -/
def roundV (v : Val) (args : List Val) : Res :=
  match toFloatArg v with
  | .error .err => .ok v
  | .error e => e
  | .ok (neg, m, k) =>
    match optIntArg args with
    | .error e => e
    | .ok p =>
      match roundMode args with
      | none => .unsupported
      | some mode =>
      if p < 0 || p > 400 || !exactFloat m k then .unsupported else   -- p < 0: the old float path
      let n := Num.goRoundModeN mode (neg && m != 0) m k p.toNat
      let (n', p') := stripZeros n p.toNat
      if !exactFloat n' p' then .unsupported else     -- the parsed result must print as itself
      let neg' := neg && n != 0                        -- never "-0"
      if p == 0 then .ok (.sc (.int (if neg' then -(n : Int) else n)))   -- int(result)
      else .ok (.sc (.dec neg' n p.toNat))

/-- filterNumberFormat -/
def numberFormatV (v : Val) (args : List Val) : Res :=
  match toFloatArg v with
  | .error .err => .ok v
  | .error e => e
  | .ok (neg, m, k) =>
    match optIntArg args with
    | .error e => e
    | .ok d =>
      let decPoint : Bytes := match args.drop 1 with
        | .sc (.str x) :: _ => x
        | _ => [46]
      let sep : Bytes := match args.drop 2 with
        | .sc (.str x) :: _ => x
        | _ => [44]
      if d > 1000000 then .err else                    -- "decimals are out of range"
      if !exactFloat m k then .unsupported else
      let d := d.toNat                                  -- a negative number of decimals means none
      let n := Num.goFixedN m k d
      if n ≥ 10 ^ 15 && !(k == 0) then .unsupported else   -- more digits than a double carries
      let (ip, fp) := fixedParts n d
      let ipG := if sep.isEmpty then ip else Num.goGroup sep ip
      -- a result whose digits are all zero loses its sign
      .ok (.sc (.str ((if neg && n != 0 then [45] else []) ++ ipG ++ (if d > 0 then decPoint ++ fp else []))))

/-! ## Dispatch -/

def strArg (v : Val) : Except Res Bytes :=
  match v with
  | .sc x => pure x.toStr
  | _ => throw .unsupported          -- fmt %v of a container

def strFilter (f : Bytes → Bytes) (v : Val) : Res :=
  match strArg v with
  | .ok s => .ok (.sc (.str (f s)))
  | .error e => e

/-- one filter call `v|name(args)` -/
def applyFilter (cm : CaseMap) (name : String) (v : Val) (args : List Val) : Res :=
  match name with
  | "upper" => strFilter (upperStr cm) v
  | "lower" => strFilter (lowerStr cm) v
  | "trim" => if args.isEmpty then strFilter trimStr v else .unsupported
  | "capitalize" => strFilter (capitalizeStr cm) v
  | "title" => strFilter (capitalizeStr cm) v
  | "reverse" => reverseV v
  | "sort" => sortV v
  | "length" => lengthV v
  | "first" => firstV v
  | "last" => lastV v
  | "slice" => sliceV v args
  | "join" => joinV v args
  | "split" => splitV v args
  | "default" => defaultV v args
  | "merge" => mergeV v args
  | "keys" => keysV v
  | "abs" => absV v
  | "round" => roundV v args
  | "number_format" => numberFormatV v args
  | _ => .unsupported


/-! ## Recorded findings as decidable predicates (used to classify a failing input) -/

/-- the class of recorded finding an input falls in, if any.
    * `number-format-decimal-tie`: number_format on a decimal exactly half-way between two results — `%.nf`
      rounds the binary value (C19_number_format_counterexample)
    * `split-multichar-separator` / `split-of-empty-join`: the round trip exceptions
      (C19_split_join_counterexample_*) -/
def knownClass (name : String) (v : Val) (args : List Val) : Option String :=
  match name with
  | "number_format" =>
    match toFloatArg v, optIntArg args with
    | .ok (_, m, k), .ok p =>
      if p < 0 then none else
      let p := p.toNat
      if k > p && Num.isTie m (10 ^ (k - p)) then some "number-format-decimal-tie" else none
    | _, _ => none
  | "split" =>
    match sepArg args with
    | _ :: _ :: _ => some "split-multichar-separator"
    | _ => none
  | "join" =>
    match v with
    | .list _ _ [] => some "split-of-empty-join"
    | _ => none
  | _ => none

end Twig.Flt
