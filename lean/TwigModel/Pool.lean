/-
  TwigModel.Pool — the object pools of twig (about thirty `sync.Pool`s) and the engine's template
  registry, as a machine over operation histories (property C01).

  Go side (fixed tree):
    twig.go        Engine.RegisterString / ParseTemplate / Load / Render / SetCache,
                   Template.Render (NewStringBuffer … defer buf.Release()),
                   Template.RenderTo (NewRenderContext … defer ctx.Release(); the root is NOT released)
    parser.go      Parser.Parse (GetTokenizer … deferred ReleaseTokenizer … NewRootNode)
    node_pool.go, node_pool_extensions.go, expr_pool.go   Get*/Release* of every node kind
    render.go      NewRenderContext / Clone / Release and contextMapPool, blocksMapPool, macrosMapPool
    zero_alloc_tokenizer.go   GetTokenizer / ReleaseTokenizer
    node.go        RootNode.Render, BlockNode.Render, ExtendsNode.Render, IncludeNode.Render, ForNode

  What is modelled
  * a heap of pooled objects with one free list; `get` is NONDETERMINISTIC: an oracle picks any free
    object of the wanted kind or lets the pool allocate (that is all `sync.Pool.Get` promises), `gc` drops
    any subset of the free list (all `sync.Pool` promises about a garbage collection);
  * which fields an acquire function assigns and a release function zeroes comes from a record of FACTS
    (`Facts`, to be regenerated from the Go source); an acquired object keeps whatever a previous user
    left in every field the acquire function does not assign;
  * a render reads the fields `Facts.reads` of every object it acquires; a field that holds something
    other than what a freshly allocated object would hold after the same acquire call makes the step
    `stale` (its result is then unspecified — the model does not try to guess what the Go code does with
    a stale `sandboxed` flag or a non-empty block map);
  * template roots are pooled objects whose `children` are what the render walks, engines hold
    name ↦ root object; `Template.RenderTo` releases the root iff `Facts.renderReleasesRoot`
    (false on the fixed tree, true on the pinned tree, where it is skipped for a template that extends);
  * the render function itself is a small but concrete evaluator (text, print, if, for, include,
    extends/block, a node that fails) shared by the pooled machine and by the pool-free machine
    `runPure`; it also yields the sequence of context acquisitions (Clone for include,
    NewRenderContext for extends) that the pooled machine replays against the pools.

  Core Lean only.
-/
import TwigModel.Basic
namespace Twig.Pool

abbrev Name := String
abbrev EngId := Nat
abbrev ObjId := Nat

/-! ## the template subset -/

/-- parse tree of the harness grammar (`harness/c01.go` prints the same tree as twig source) -/
inductive Node where
  | text (s : Bytes)
  | print (v : String)                              -- {{ v }}
  | ifv (v : String) (thn els : List Node)          -- {% if v %}…{% else %}…{% endif %}
  | forv (x xs : String) (body : List Node)         -- {% for x in xs %}…{% endfor %}
  | incl (n : Name)                                 -- {% include 'n' %}
  | ext (n : Name)                                  -- {% extends 'n' %}
  | block (n : String) (body : List Node)           -- {% block n %}…{% endblock %}
  | fail                                            -- {{ nosuchfunction() }} : fails when rendered

/-- a template source: either it parses to these nodes, or it has a syntax error -/
structure Src where
  nodes : List Node
  bad : Bool := false

def Src.parse (s : Src) : Option (List Node) := if s.bad then none else some s.nodes

/-- context values of the subset: strings and lists of strings -/
inductive CVal where
  | s (v : Bytes)
  | l (items : List Bytes)

abbrev Vars := List (String × CVal)

/-! ## pooled object kinds, acquire and release paths -/

inductive Kind where
  | root | ctx | ctxMap | blocksMap | macrosMap | tokenizer | strbuf
  deriving DecidableEq, Repr

/-- every function of the Go code that takes an object out of a pool -/
inductive Acq where
  | getRootNode        -- node_pool.go GetRootNode (via NewRootNode at the end of Parser.Parse)
  | newRenderContext   -- render.go NewRenderContext
  | clone              -- render.go (*RenderContext).Clone
  | ctxMapGet          -- contextMapPool.Get()
  | blocksMapGet       -- blocksMapPool.Get()   (blocks and parentBlocks)
  | macrosMapGet       -- macrosMapPool.Get()
  | getTokenizer       -- zero_alloc_tokenizer.go GetTokenizer
  | newStringBuffer    -- twig.go NewStringBuffer
  deriving DecidableEq, Repr

def Acq.all : List Acq :=
  [.getRootNode, .newRenderContext, .clone, .ctxMapGet, .blocksMapGet, .macrosMapGet, .getTokenizer, .newStringBuffer]

def acqKind : Acq → Kind
  | .getRootNode => .root
  | .newRenderContext => .ctx
  | .clone => .ctx
  | .ctxMapGet => .ctxMap
  | .blocksMapGet => .blocksMap
  | .macrosMapGet => .macrosMap
  | .getTokenizer => .tokenizer
  | .newStringBuffer => .strbuf

/-- every function that puts an object back -/
inductive Rel where
  | releaseRootNode | ctxRelease | ctxMapPut | blocksMapPut | macrosMapPut | releaseTokenizer | strbufRelease
  deriving DecidableEq, Repr

/-- the release function that ends the life of an object acquired through `p` -/
def relOf : Acq → Rel
  | .getRootNode => .releaseRootNode
  | .newRenderContext => .ctxRelease
  | .clone => .ctxRelease
  | .ctxMapGet => .ctxMapPut
  | .blocksMapGet => .blocksMapPut
  | .macrosMapGet => .macrosMapPut
  | .getTokenizer => .releaseTokenizer
  | .newStringBuffer => .strbufRelease

/-- a render context comes with its four maps (context, blocks, parentBlocks, macros) -/
def ctxBundle (p : Acq) : List Acq := [p, .ctxMapGet, .blocksMapGet, .blocksMapGet, .macrosMapGet]

/-! ## facts about the Go source -/

structure Facts where
  /-- fields of the pooled struct whose value the non-pool code reads -/
  reads : Kind → List String
  /-- fields the acquire function assigns (for a map field: makes it an empty map) -/
  resets : Acq → List String
  /-- fields the release function zeroes before `Put` -/
  clears : Rel → List String
  /-- `Template.RenderTo` hands the template's root node back to `RootNodePool` -/
  renderReleasesRoot : Bool
  /-- `Parser.Parse` calls `ReleaseTokenizer` before `parseOuterTemplate` has read the tokens -/
  tokReleasedBeforeRead : Bool
  /-- number of calls of a node's `Release()` / `Release*Node` on a child node outside the pool files;
      the model treats child nodes as immutable values, which is right only if this is 0 -/
  childNodeReleaseSites : Nat

/-- read fields that some acquire path of the kind leaves untouched: they must be zero in the pool -/
def Facts.needsClean (F : Facts) (k : Kind) : List String :=
  (F.reads k).filter fun f => (Acq.all.filter (fun p => acqKind p = k)).any fun p => !(F.resets p).contains f

/-- the finite check that makes the pools invisible (I1–I4 of DESIGN §4 C01) -/
def Facts.okb (F : Facts) : Bool :=
  !F.renderReleasesRoot
  && (F.resets .getRootNode).contains "children"
  && Acq.all.all (fun p => (F.needsClean (acqKind p)).all fun f => (F.clears (relOf p)).contains f)
  && (!F.tokReleasedBeforeRead || !(F.clears .releaseTokenizer).contains "tokenBuffer")
  && F.childNodeReleaseSites == 0

def Facts.ok (F : Facts) : Prop := F.okb = true

instance (F : Facts) : Decidable F.ok := inferInstanceAs (Decidable (F.okb = true))

/-! ### expected values for the fixed tree (to be tied to the extractor) -/

-- FACT: RenderContext fields read by non-pool code = all fields except lastLoadedTemplate
--       (lastLoadedTemplate occurs only as an assignment target and as the source of the copy in Clone)
def ctxReads : List String :=
  ["env", "context", "blocks", "parentBlocks", "macros", "parent", "engine", "extending", "currentBlock",
   "inParentCall", "sandboxed", "templateName", "blockDefs", "currentChain", "blockLevel"]

-- FACT: fields assigned (or, for the four maps, made empty) by NewRenderContext (render.go)
def newRenderContextResets : List String :=
  ["context", "blocks", "parentBlocks", "macros", "env", "engine", "extending", "currentBlock", "parent",
   "inParentCall", "sandboxed", "templateName", "blockDefs", "currentChain", "blockLevel"]

-- FACT: fields assigned (or made empty) by (*RenderContext).Clone (render.go)
def cloneResets : List String :=
  ["env", "engine", "extending", "currentBlock", "parent", "inParentCall", "sandboxed", "templateName",
   "blockDefs", "currentChain", "blockLevel", "lastLoadedTemplate", "context", "blocks", "macros", "parentBlocks"]

-- FACT: fields zeroed by (*RenderContext).Release before renderContextPool.Put
def ctxReleaseClears : List String :=
  ["env", "engine", "currentBlock", "blockDefs", "currentChain", "context", "blocks", "parentBlocks", "macros", "parent"]

-- FACT: ZeroAllocTokenizer / TokenizerPooled fields read by the tokenizer and the parser
--       (tempStrings is an intern table: GetStringConstant returns a string equal to its argument
--        whatever the table holds, see `getStringConstant_eq`)
def tokenizerReads : List String := ["tokenBuffer", "source", "position", "line", "result", "used"]
-- FACT: fields assigned by GetTokenizer
def getTokenizerResets : List String := ["source", "position", "line", "tokenBuffer", "result", "used"]
-- FACT: fields zeroed by ReleaseTokenizer
def releaseTokenizerClears : List String := ["used", "source", "result"]

def fixedFacts : Facts where
  reads
    | .root => ["children", "line"]                                  -- FACT: RootNode fields
    | .ctx => ctxReads
    | .ctxMap => ["entries"]
    | .blocksMap => ["entries"]
    | .macrosMap => ["entries"]
    | .tokenizer => tokenizerReads
    | .strbuf => ["buf"]
  resets
    | .getRootNode => ["children", "line"]                           -- FACT: GetRootNode assigns children, line
    | .newRenderContext => newRenderContextResets
    | .clone => cloneResets
    | .ctxMapGet => []                                               -- FACT: a map taken from a map pool is used as it is
    | .blocksMapGet => []
    | .macrosMapGet => []
    | .getTokenizer => getTokenizerResets
    | .newStringBuffer => ["buf"]                                    -- FACT: NewStringBuffer calls buf.Reset()
  clears
    | .releaseRootNode => ["children"]                               -- FACT: ReleaseRootNode sets children = nil
    | .ctxRelease => ctxReleaseClears
    | .ctxMapPut => ["entries"]                                      -- FACT: Release deletes every key before Put
    | .blocksMapPut => ["entries"]
    | .macrosMapPut => ["entries"]
    | .releaseTokenizer => releaseTokenizerClears
    | .strbufRelease => []
  renderReleasesRoot := false     -- FACT: Template.RenderTo contains no call of rootNode.Release()/ReleaseRootNode
  tokReleasedBeforeRead := false  -- FACT: in Parser.Parse, ReleaseTokenizer is deferred (runs after parseOuterTemplate)
  childNodeReleaseSites := 0      -- FACT: no call of Release*Node / (Node).Release() outside node_pool*.go, expr_pool.go and the Release methods themselves

/-- the pinned commit: `defer rootNode.Release()` in `Template.RenderTo`, tokenizer released before the parse -/
def pinnedFacts : Facts := { fixedFacts with renderReleasesRoot := true, tokReleasedBeforeRead := true }

/-- `GetStringConstant` (the only reader of `tempStrings`): a linear search that returns the table's copy
    of an equal string, or the argument -/
def getStringConstant (table : List String) (s : String) : String :=
  match table.find? (· == s) with
  | some c => c
  | none => s

theorem getStringConstant_eq (table : List String) (s : String) : getStringConstant table s = s := by
  unfold getStringConstant
  split
  · rename_i c h
    have := List.find?_some h
    simpa using this
  · rfl

/-! ## the render function of the subset (shared by the pooled and the pool-free machine) -/

inductive Err where
  | notFound      -- ErrTemplateNotFound (top level, include or extends)
  | render        -- any other error returned by a node's Render
  | depth         -- the model's fuel ran out (never with the harness' acyclic template sets)
  | unsupported   -- outside the subset (printing a list, iterating a string)
  deriving DecidableEq, Repr

inductive Res where
  | ok (out : Bytes)
  | err (e : Err)
  deriving DecidableEq, Repr

/-- pool traffic of a render: a context (with its maps) is taken, and later given back -/
inductive Ev where
  | enter (ps : List Acq)
  | leave
  deriving DecidableEq, Repr

/-- block definitions along the extends chain, most derived first (RenderContext.blockDefs) -/
abbrev Defs := List (String × List (List Node))

def Defs.get (d : Defs) (n : String) : List (List Node) := (d.lookup n).getD []
def Defs.push (d : Defs) (n : String) (body : List Node) : Defs := (n, d.get n ++ [body]) :: d

/-- first pass of RootNode.Render: top-level blocks are registered behind the descendants' definitions -/
def registerBlocks (d : Defs) : List Node → Defs
  | [] => d
  | .block n body :: r => registerBlocks (d.push n body) r
  | _ :: r => registerBlocks d r

/-- …and the last `extends` child wins -/
def lastExtends : List Node → Option Name
  | [] => none
  | .ext n :: r => (lastExtends r).orElse fun _ => some n
  | _ :: r => lastExtends r

/-- GetVariable: local map, then the parent contexts -/
def lookupChain (v : String) : List Vars → Option CVal
  | [] => none
  | fr :: rest => match fr.lookup v with
    | some x => some x
    | none => lookupChain v rest

/-- SetVariable on the current context -/
def setLocal (x : String) (v : CVal) : List Vars → List Vars
  | [] => [[(x, v)]]
  | fr :: rest => ((x, v) :: fr) :: rest

def truthy : Option CVal → Bool
  | none => false
  | some (.s v) => !v.isEmpty
  | some (.l items) => !items.isEmpty

/-- result of evaluating a piece of a template: pool events, output or error, and the variable frames
    (a `for` loop assigns its variable in the current context and leaves it there) -/
structure W where
  evs : List Ev
  res : Res
  chain : List Vars

def W.andThen (a : W) (f : List Vars → W) : W :=
  match a.res with
  | .err _ => a
  | .ok o1 =>
    let r := f a.chain
    ⟨a.evs ++ r.evs, match r.res with | .ok o2 => .ok (o1 ++ o2) | .err e => .err e, r.chain⟩

/-- a nested render with its own context: taken on entry, released by `defer` also on the error path;
    assignments made inside do not reach the caller's context -/
def framed (ps : List Acq) (w : W) (ch : List Vars) : W := ⟨.enter ps :: w.evs ++ [.leave], w.res, ch⟩

inductive Task where
  | node (n : Node)
  | nodes (ns : List Node)
  | items (x : String) (its : List Bytes) (body : List Node)
  | root (cs : List Node)

/-- `look` is `Engine.Load` followed by `template.nodes.(*RootNode).children` -/
def eval (look : Name → Option (List Node)) : Nat → List Vars → Defs → Task → W
  | 0, ch, _, _ => ⟨[], .err .depth, ch⟩
  | fuel + 1, ch, defs, task =>
    match task with
    | .nodes [] => ⟨[], .ok [], ch⟩
    | .nodes (n :: rest) =>
      (eval look fuel ch defs (.node n)).andThen fun ch' => eval look fuel ch' defs (.nodes rest)
    | .items _ [] _ => ⟨[], .ok [], ch⟩
    | .items x (it :: r) body =>
      (eval look fuel (setLocal x (.s it) ch) defs (.nodes body)).andThen fun ch' =>
        eval look fuel ch' defs (.items x r body)
    | .root cs =>
      -- RootNode.Render
      let defs' := registerBlocks defs cs
      match lastExtends cs with
      | none => eval look fuel ch defs' (.nodes cs)
      | some p =>
        -- ExtendsNode.Render: NewRenderContext(ctx.env, ctx.context, ctx.engine) with the same parent chain, blockDefs handed over
        match look p with
        | none => ⟨[], .err .notFound, ch⟩
        | some pcs => framed (ctxBundle .newRenderContext) (eval look fuel (ch.headD [] :: ch.tail) defs' (.root pcs)) ch
    | .node (.text s) => ⟨[], .ok s, ch⟩
    | .node (.print v) =>
      match lookupChain v ch with
      | none => ⟨[], .ok [], ch⟩
      | some (.s x) => ⟨[], .ok x, ch⟩
      | some (.l _) => ⟨[], .err .unsupported, ch⟩
    | .node (.ifv v thn els) => eval look fuel ch defs (.nodes (if truthy (lookupChain v ch) then thn else els))
    | .node (.forv x xs body) =>
      match lookupChain xs ch with
      | none => ⟨[], .ok [], ch⟩
      | some (.l its) => eval look fuel ch defs (.items x its body)
      | some (.s _) => ⟨[], .err .unsupported, ch⟩
    | .node (.incl n) =>
      -- IncludeNode.Render, fast path: ctx.Clone(); the included template resolves its own blocks
      match look n with
      | none => ⟨[], .err .notFound, ch⟩
      | some cs => framed (ctxBundle .clone) (eval look fuel ([] :: ch) [] (.root cs)) ch
    | .node (.ext _) => ⟨[], .err .unsupported, ch⟩   -- an extends that is not a child of the root
    | .node (.block n body) =>
      -- BlockNode.Render: the most derived definition of the chain
      eval look fuel ch defs (.nodes ((defs.get n ++ [body]).headD []))
    | .node .fail => ⟨[], .err .render, ch⟩

def evalFuel : Nat := 4096

/-- `Template.RenderTo`'s `rootNode.Render(w, ctx)` for a root holding `cs` -/
def renderOf (look : Name → Option (List Node)) (vars : Vars) (cs : List Node) : W :=
  eval look evalFuel [vars] [] (.root cs)

/-! ## the heap and the pools -/

structure Obj where
  f : String → Nat
  children : List Node

def Obj.zero : Obj := ⟨fun _ => 0, []⟩

/-- assign `v` to the fields `fs` -/
def Obj.reset (o : Obj) (fs : List String) (v : Nat) : Obj :=
  { o with f := fun g => if g ∈ fs then v else o.f g }

/-- what a user of the object leaves behind: every field overwritten -/
def Obj.junk (o : Obj) : Obj := { o with f := fun _ => 2 }

/-- a release function zeroing `fs` (for a root, `children = nil`) -/
def Obj.clear (o : Obj) (fs : List String) : Obj :=
  { f := fun g => if g ∈ fs then 0 else o.f g, children := if "children" ∈ fs then [] else o.children }

structure Engine where
  cache : List (Name × ObjId) := []      -- Engine.templates: name ↦ *Template ↦ root object
  cacheOn : Bool := true                 -- Environment.cache

structure St where
  heap : ObjId → Obj
  next : ObjId
  free : List (Kind × ObjId)
  tick : Nat                             -- number of Gets so far
  engines : EngId → Engine

def St.init : St := ⟨fun _ => Obj.zero, 0, [], 0, fun _ => {}⟩

/-- the oracle sees how many Gets happened and how many objects the pool could hand out; it answers with
    the index of the one to hand out, or `none` for a fresh allocation -/
abbrev Oracle := Nat → Nat → Option Nat

def St.setObj (st : St) (id : ObjId) (o : Obj) : St :=
  { st with heap := fun j => if j = id then o else st.heap j }

def St.junk (st : St) (id : ObjId) : St := st.setObj id (st.heap id).junk

def cands (st : St) (k : Kind) : List ObjId := (st.free.filter fun p => p.1 = k).map (·.2)

/-- `sync.Pool.Get` -/
def get (ω : Oracle) (k : Kind) (st : St) : ObjId × St :=
  match (ω st.tick (cands st k).length).bind fun i => (cands st k)[i]? with
  | some id => (id, { st with free := st.free.erase (k, id), tick := st.tick + 1 })
  | none => (st.next, { st.setObj st.next Obj.zero with next := st.next + 1, tick := st.tick + 1 })

/-- what a freshly allocated object holds after acquire path `p` -/
def expected (F : Facts) (p : Acq) (f : String) : Nat := if f ∈ F.resets p then 1 else 0

/-- some field the code is going to read holds something else -/
def staleObj (F : Facts) (p : Acq) (o : Obj) : Bool :=
  (F.reads (acqKind p)).any fun f => o.f f != expected F p f

structure AcqR where
  id : ObjId
  stale : Bool
  st : St

/-- an acquire function: Get, then assign the fields it assigns -/
def acquire (F : Facts) (ω : Oracle) (p : Acq) (st : St) : AcqR :=
  let r := get ω (acqKind p) st
  let o := (r.2.heap r.1).reset (F.resets p) 1
  ⟨r.1, staleObj F p o, r.2.setObj r.1 o⟩

/-- a release function: zero the fields it zeroes, Put -/
def release (F : Facts) (p : Acq) (id : ObjId) (st : St) : St :=
  { st.setObj id ((st.heap id).clear (F.clears (relOf p))) with free := (acqKind p, id) :: st.free }

structure BundleR where
  objs : List (Acq × ObjId)
  stale : Bool
  st : St

def enterBundle (F : Facts) (ω : Oracle) : List Acq → St → BundleR
  | [], st => ⟨[], false, st⟩
  | p :: ps, st =>
    let a := acquire F ω p st
    let r := enterBundle F ω ps a.st
    ⟨(p, a.id) :: r.objs, a.stale || r.stale, r.st⟩

/-- the owner reads its objects one last time, leaves junk in them and releases them -/
def leaveBundle (F : Facts) : List (Acq × ObjId) → St → Bool × St
  | [], st => (false, st)
  | (p, id) :: r, st =>
    let s1 := staleObj F p (st.heap id)
    let r2 := leaveBundle F r (release F p id (st.junk id))
    (s1 || r2.1, r2.2)

structure RSt where
  st : St
  live : List (List (Acq × ObjId))
  stale : Bool

def replayEv (F : Facts) (ω : Oracle) (rs : RSt) : Ev → RSt
  | .enter ps =>
    let r := enterBundle F ω ps rs.st
    ⟨r.st, r.objs :: rs.live, rs.stale || r.stale⟩
  | .leave =>
    match rs.live with
    | [] => rs
    | bdl :: rest =>
      let r := leaveBundle F bdl rs.st
      ⟨r.2, rest, rs.stale || r.1⟩

def replay (F : Facts) (ω : Oracle) (rs : RSt) (evs : List Ev) : RSt := evs.foldl (replayEv F ω) rs

/-! ## operations -/

inductive Op where
  | register (e : EngId) (n : Name) (s : Src)     -- Engine.RegisterString
  | parseOnly (e : EngId) (s : Src)               -- Engine.ParseTemplate, result dropped
  | render (e : EngId) (n : Name) (vars : Vars)   -- Engine.Render (succeeding or failing)
  | setCache (e : EngId) (on : Bool)              -- Engine.SetCache
  | gc (keep : ObjId → Bool)                      -- a garbage collection empties any part of the pools

inductive Out where
  | unit
  | parsed (ok : Bool)
  | rendered (r : Res)
  deriving DecidableEq, Repr

structure StepOut where
  out : Out
  stale : Bool
  deriving DecidableEq, Repr

structure ParseR where
  root : Option ObjId
  stale : Bool
  st : St

/-- `Parser.Parse`: tokenizer out of the pool, tokenise, (release), read the tokens, (release),
    `NewRootNode(nodes, 1)` -/
def parseTpl (F : Facts) (ω : Oracle) (st : St) (s : Src) : ParseR :=
  let a := acquire F ω .getTokenizer st
  let st2 := a.st.junk a.id                                   -- tokenising writes the buffer (value 2)
  let st3 := if F.tokReleasedBeforeRead then release F .getTokenizer a.id st2 else st2
  let stale2 := (st3.heap a.id).f "tokenBuffer" != 2         -- parseOuterTemplate reads p.tokens
  let st4 := if F.tokReleasedBeforeRead then st3 else release F .getTokenizer a.id st3
  match s.parse with
  | none => ⟨none, a.stale || stale2, st4⟩
  | some nodes =>
    let r := acquire F ω .getRootNode st4
    let o := r.st.heap r.id
    let st6 := if "children" ∈ F.resets .getRootNode then r.st.setObj r.id { o with children := nodes } else r.st
    ⟨some r.id, a.stale || stale2 || r.stale, st6⟩

def St.setEngine (st : St) (e : EngId) (g : Engine) : St :=
  { st with engines := fun e' => if e' = e then g else st.engines e' }

/-- on the pinned tree the root is not released when the template extends (`if !ctx.extending`) -/
def releasesRoot (F : Facts) (cs : List Node) : Bool := F.renderReleasesRoot && (lastExtends cs).isNone

def step (F : Facts) (ω : Oracle) (st : St) : Op → St × StepOut
  | .register e n s =>
    let r := parseTpl F ω st s
    match r.root with
    | none => (r.st, ⟨.parsed false, r.stale⟩)
    | some id =>
      -- a registration is kept whatever the cache setting
      let g := r.st.engines e
      (r.st.setEngine e { g with cache := (n, id) :: g.cache }, ⟨.parsed true, r.stale⟩)
  | .parseOnly _ s =>
    let r := parseTpl F ω st s
    (r.st, ⟨.parsed r.root.isSome, r.stale⟩)
  | .render e n vars =>
    let g := st.engines e
    -- Engine.Load: a registered template (no loader) is served whatever the cache setting
    match g.cache.lookup n with
    | none => (st, ⟨.rendered (.err .notFound), false⟩)
    | some rid =>
      let look := fun m => (g.cache.lookup m).map fun id => (st.heap id).children
      let cs := (st.heap rid).children
      let w := renderOf look vars cs
      -- Template.Render: NewStringBuffer; Template.RenderTo: NewRenderContext; the nested contexts
      let rs1 := replay F ω ⟨st, [], false⟩ (.enter [.newStringBuffer] :: .enter (ctxBundle .newRenderContext) :: w.evs)
      -- deferred calls run in reverse order: (root release,) ctx.Release, buf.Release
      let st2 := if releasesRoot F cs then release F .getRootNode rid rs1.st else rs1.st
      let rs3 := replay F ω ⟨st2, rs1.live, rs1.stale⟩ [.leave, .leave]
      (rs3.st, ⟨.rendered w.res, rs3.stale⟩)
  | .setCache e on =>
    (st.setEngine e { st.engines e with cacheOn := on }, ⟨.unit, false⟩)
  | .gc keep => ({ st with free := st.free.filter fun p => keep p.2 }, ⟨.unit, false⟩)

def runFrom (F : Facts) (ω : Oracle) : St → List Op → St × List StepOut
  | st, [] => (st, [])
  | st, op :: rest =>
    let r := step F ω st op
    let r2 := runFrom F ω r.1 rest
    (r2.1, r.2 :: r2.2)

def run (F : Facts) (ω : Oracle) (h : List Op) : St × List StepOut := runFrom F ω St.init h

/-! ## the pool-free machine: a fresh engine in a fresh process -/

structure PEngine where
  tpls : List (Name × List Node) := []
  cacheOn : Bool := true

abbrev PSt := EngId → PEngine

def PSt.init : PSt := fun _ => {}

def PSt.set (ps : PSt) (e : EngId) (g : PEngine) : PSt := fun e' => if e' = e then g else ps e'

/-- what a freshly created engine holding the templates `tpls` returns for `Render(n, vars)` -/
def renderFresh (tpls : List (Name × List Node)) (n : Name) (vars : Vars) : Res :=
  match tpls.lookup n with
  | none => .err .notFound
  | some cs => (renderOf (fun m => tpls.lookup m) vars cs).res

def stepPure (ps : PSt) : Op → PSt × StepOut
  | .register e n s =>
    match s.parse with
    | none => (ps, ⟨.parsed false, false⟩)
    | some nodes => (ps.set e { ps e with tpls := (n, nodes) :: (ps e).tpls }, ⟨.parsed true, false⟩)
  | .parseOnly _ s => (ps, ⟨.parsed s.parse.isSome, false⟩)
  | .render e n vars => (ps, ⟨.rendered (renderFresh (ps e).tpls n vars), false⟩)
  | .setCache e on => (ps.set e { ps e with cacheOn := on }, ⟨.unit, false⟩)
  | .gc _ => (ps, ⟨.unit, false⟩)

def runPureFrom : PSt → List Op → PSt × List StepOut
  | ps, [] => (ps, [])
  | ps, op :: rest =>
    let r := stepPure ps op
    let r2 := runPureFrom r.1 rest
    (r2.1, r.2 :: r2.2)

def runPure (h : List Op) : PSt × List StepOut := runPureFrom PSt.init h

def outs {α : Type} (x : α × List StepOut) : List StepOut := x.2

/-! ## oracles used by the driver and the regression instances -/

def Oracle.lifo : Oracle := fun _ _ => some 0
def Oracle.fifo : Oracle := fun _ n => some (n - 1)
def Oracle.fresh : Oracle := fun _ _ => none
/-- pseudo-random: a third of the Gets allocate, the others take any pooled object -/
def Oracle.seeded (seed : Nat) : Oracle := fun t n =>
  let h := (seed * 2654435761 + t * 40503 + 12345) % 2147483647
  if h % 3 == 0 then none else some ((h / 3) % (n + 1))

end Twig.Pool
