/-
  twigmodel — the executable model behind a one-line-in, one-line-out JSON protocol.
  Imports only core Lean + TwigModel (no Mathlib), so it links as a native executable.
-/
import TwigModel
open Lean Twig

def opTables : List (String → Json → Option (Except String Json)) :=
  [Ops.scanOps, Ops.poolOps, Ops.engineCacheOps, Ops.codecOps, Ops.escapeOps, Ops.attrCacheOps,
   Ops.filtersOps, Ops.mapOrderOps, Ops.heapOps, Ops.concOps, Ops.exprOps, Ops.renderOps]

def dispatch (op : String) (j : Json) : Except String Json :=
  match opTables.findSome? (fun t => t op j) with
  | some r => r
  | none => .error s!"unknown op {op}"

def step (line : String) : String :=
  match Json.parse line with
  | .error e => (Proto.err s!"parse: {e}").compress
  | .ok j =>
    match j.getObjValAs? String "op" with
    | .error _ => (Proto.err "no op").compress
    | .ok op =>
      match dispatch op j with
      | .ok r => r.compress
      | .error e => (Proto.err e).compress

partial def loop (h : IO.FS.Stream) (out : IO.FS.Stream) : IO Unit := do
  let line ← h.getLine
  if line.isEmpty then return ()
  out.putStrLn (step line)
  out.flush
  loop h out

def main : IO Unit := do
  loop (← IO.getStdin) (← IO.getStdout)
