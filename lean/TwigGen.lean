-- GENERATED: root of the generated-facts library
import TwigGen.Tokens
