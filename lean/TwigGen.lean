-- GENERATED: root of the generated-facts library
import TwigGen.AttrCache
import TwigGen.CodecLayout
import TwigGen.DateFmt
import TwigGen.ErrFlow
import TwigGen.FilterFacts
import TwigGen.MapRanges
import TwigGen.Pools
import TwigGen.Prec
import TwigGen.ProcState
import TwigGen.Registry
import TwigGen.Sandbox
import TwigGen.Shared
import TwigGen.Tokens
import TwigGen.Writes
