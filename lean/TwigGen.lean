-- GENERATED: root of the generated-facts library
import TwigGen.DateFmt
import TwigGen.ErrFlow
import TwigGen.MapRanges
import TwigGen.Prec
import TwigGen.Sandbox
import TwigGen.Shared
import TwigGen.Tokens
import TwigGen.Writes
