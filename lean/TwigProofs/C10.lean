/-
  TwigProofs.C10 — template inheritance is block substitution along the extends chain.

  SPEC (independent of the code's mechanism; definitions in `Lemmas/RenderInherit.lean`):
    * a chain `T₀ extends T₁ … extends T_k` is a list `(name, top-level nodes)` most derived first
      (`ChainOK`: every template is registered, every non-last one hands over to the next through its
      last top-level `extends`, whose name expression may be static or read from a variable (`Link`));
    * `topDefs tpl nodes b` = the top-level definitions of block `b` in one template,
      `defsOf chain b` = their concatenation along the chain — most derived first;
    * a block node `b` of the base template works with the list
      `defsOf (strict descendants) b ++ [its own body]`, renders its head, and `parent()` at level `j`
      renders element `j+1` with the same variables.
  The theorems below show the model's `renderRoot` / `.extends` / `.block` / `printVal .parentFn`
  compute exactly that, for chains of any length.
-/
import TwigProofs.Lemmas.RenderInherit
namespace Twig
open Inh

/-! ## registration: after walking the chain the block table is `defsOf` -/

/-- One template registers its own top-level definitions BEHIND what the descendants registered. -/
theorem C10_registerBlocks_step (tpl : Bytes) (nodes : List Node) (D : List (Bytes × List BlockDef)) (nm : Bytes) :
    (getKV nm (registerBlocks tpl nodes D)).getD [] = (getKV nm D).getD [] ++ topDefs tpl nodes nm :=
  registerBlocks_get tpl nodes D nm

/-- `C10_registerBlocks_spec`: rendering the root of the most derived template of a chain of length
    k+1 ≥ 2 makes k transfers through `.extends` and then renders the BASE template's nodes in a context
    that holds the same variables and a block table mapping every name `nm` to exactly
    `defsOf chain nm` (most derived first) — behind whatever the starting context had registered
    (nothing, for a top-level render).  Afterwards the caller's context (with its own registrations) is restored.
    The starting context is ARBITRARY — macros, enclosing scopes: the statement also covers a chain whose most
    derived template was reached through an `include` (the base then sees the includer's scopes, `chainCtx.parents`). -/
theorem C10_registerBlocks_spec (E : Env) (vars : List (Bytes × Val)) (p q : Bytes × List Node)
    (rest : List (Bytes × List Node)) (st : St) (f : Nat)
    (hc : ChainOK E vars (p :: q :: rest))
    (hv : st.ctx.vars = vars) :
    run E (f + (rest.length + 2)) (.root p.1) st =
        restoreCtx (regSt p.1 p.2 st).ctx
          (renderNodes E (run E f) (lastTpl q rest).1 (lastTpl q rest).2
            { st with ctx := chainCtx E (p :: q :: rest) st.ctx }) ∧
    (chainCtx E (p :: q :: rest) st.ctx).vars = vars ∧
    ∀ nm, (getKV nm (chainCtx E (p :: q :: rest) st.ctx).blockDefs).getD [] =
            (getKV nm st.ctx.blockDefs).getD [] ++ defsOf (p :: q :: rest) nm :=
  ⟨chain_walk E vars rest p q st f hc hv, hv, fun nm => regAll_get _ _ nm⟩

/-- the chain of length 1: a template without `extends` renders its own nodes over its own definitions -/
theorem C10_registerBlocks_spec_single (E : Env) (go : Go) (p : Bytes × List Node) (st : St)
    (ht : E.tpl? p.1 = some p.2) (hl : lastExtends p.2 = none) :
    renderRoot E go p.1 st = renderNodes E go p.1 p.2 (regSt p.1 p.2 st) ∧
    ∀ nm, (getKV nm (regSt p.1 p.2 st).ctx.blockDefs).getD [] =
            (getKV nm st.ctx.blockDefs).getD [] ++ defsOf [p] nm := by
  refine ⟨renderRoot_base st ht hl, fun nm => ?_⟩
  simp only [regSt, defsOf, List.flatMap_cons, List.flatMap_nil, List.append_nil]
  exact registerBlocks_get _ _ _ nm

/-! ## text outside blocks in a child produces no output -/

/-- `C10_child_text_no_output`: when a template has a top-level `extends`, `renderRoot` renders NONE of
    its top-level nodes: it registers the blocks and evaluates the (last) extends node, whose output is
    exactly the output of the parent's root.  Hence the result is the same as for the template stripped
    of everything but its top-level `block` and `extends` nodes. -/
theorem C10_child_text_no_output (E : Env) (go : Go) (tpl : Bytes) (nodes : List Node) (e : Expr) (st : St)
    (ht : E.tpl? tpl = some nodes) (he : lastExtends nodes = some e) :
    renderRoot E go tpl st = renderNode E go tpl (.extends e) (regSt tpl nodes st) ∧
    renderRoot E go tpl st = rootWith E go tpl (nodes.filter keepForChild) st := by
  refine ⟨renderRoot_extends st ht he, ?_⟩
  rw [renderRoot_eq_rootWith st ht]
  exact rootWith_filter E go tpl nodes st (by rw [he]; exact fun h => by cases h)

/-- the output of an extending template IS the output of its parent's root -/
theorem C10_child_output_is_parent_output (E : Env) (go : Go) (tpl : Bytes) (nodes : List Node) (e : Expr) (st : St)
    (ht : E.tpl? tpl = some nodes) (he : lastExtends nodes = some e) {o st'}
    (h : renderRoot E go tpl st = .ok (o, st')) :
    ∃ parent stp st3, go (.root parent) stp = .ok (o, st3) ∧
      stp.ctx.vars = st.ctx.vars ∧ st'.trace = st3.trace := by
  rw [renderRoot_extends st ht he] at h
  simp only [renderNode] at h
  obtain ⟨⟨⟨v, fl⟩, st1⟩, h1, h⟩ := bind_ok h
  obtain ⟨name, _, h⟩ := bind_ok h
  dsimp only at h
  split at h
  · cases h
  · rename_i rn _
    obtain ⟨⟨o2, st2⟩, h2, h⟩ := bind_ok h
    cases h
    refine ⟨rn, _, st2, h2, ?_, rfl⟩
    have := evalX_ctx E _ _ _ _ _ h1
    simp only [freshCtx, this, regSt]

/-! ## a block renders the most derived definition -/

/-- The `.block` node in general (any template of the chain, any state): it looks up the registered
    definitions `defs` of its name, works with `specChain` (= `defs`, or `defs ++ [own body]` when the
    node itself is not registered), renders the HEAD of that list through `go (.body …)` with
    chain / level 0 / inBlock set, and puts the enclosing block's bookkeeping back afterwards. -/
theorem C10_block_eq (E : Env) (go : Go) (tpl nm : Bytes) (body : List Node) (st : St) :
    renderNode E go tpl (.block nm body) st =
      unblock st.ctx (go (.body ((specChain tpl nm body ((getKV nm st.ctx.blockDefs).getD [])).headD ⟨tpl, nm, body⟩).tpl
                                ((specChain tpl nm body ((getKV nm st.ctx.blockDefs).getD [])).headD ⟨tpl, nm, body⟩).body)
        (blockSt st (specChain tpl nm body ((getKV nm st.ctx.blockDefs).getD [])))) :=
  block_eq E go tpl nm body st

/-- `C10_block_renders_most_derived`: in the BASE template of a chain with pairwise distinct template
    names, under the chain's block table, a block node `nm` that is THE top-level definition of its
    name, or no top-level definition at all (nested in a block, a loop, a condition), works with
    `defsOf (strict descendants) nm ++ [own body]`: it renders the most derived definition when some
    descendant overrides it and its own body otherwise, and `parent()` walks that list. -/
theorem C10_block_renders_most_derived (E : Env) (go : Go) (chain : List (Bytes × List Node)) (hne : chain ≠ [])
    (hnd : (chain.map (·.1)).Nodup) (nm : Bytes) (body : List Node) (st : St)
    (htable : (getKV nm st.ctx.blockDefs).getD [] = defsOf chain nm)
    (hown : topDefs (chain.getLast hne).1 (chain.getLast hne).2 nm = [BlockDef.mk (chain.getLast hne).1 nm body] ∨
            topDefs (chain.getLast hne).1 (chain.getLast hne).2 nm = []) :
    renderNode E go (chain.getLast hne).1 (.block nm body) st =
      unblock st.ctx
        (go (.body ((defsOf chain.dropLast nm ++ [BlockDef.mk (chain.getLast hne).1 nm body]).headD (BlockDef.mk (chain.getLast hne).1 nm body)).tpl
                   ((defsOf chain.dropLast nm ++ [BlockDef.mk (chain.getLast hne).1 nm body]).headD (BlockDef.mk (chain.getLast hne).1 nm body)).body)
          (blockSt st (defsOf chain.dropLast nm ++ [BlockDef.mk (chain.getLast hne).1 nm body]))) := by
  rw [block_eq, htable, specChain_in_base chain hne hnd nm body hown]

/-- … overridden: the body rendered is the MOST DERIVED descendant's -/
theorem C10_block_overridden (E : Env) (go : Go) (chain : List (Bytes × List Node)) (hne : chain ≠ [])
    (hnd : (chain.map (·.1)).Nodup) (nm : Bytes) (body : List Node) (st : St)
    (htable : (getKV nm st.ctx.blockDefs).getD [] = defsOf chain nm)
    (hown : topDefs (chain.getLast hne).1 (chain.getLast hne).2 nm = [BlockDef.mk (chain.getLast hne).1 nm body] ∨
            topDefs (chain.getLast hne).1 (chain.getLast hne).2 nm = [])
    (d : BlockDef) (ds : List BlockDef) (hd : defsOf chain.dropLast nm = d :: ds) :
    renderNode E go (chain.getLast hne).1 (.block nm body) st =
      unblock st.ctx (go (.body d.tpl d.body)
        (blockSt st (d :: ds ++ [BlockDef.mk (chain.getLast hne).1 nm body]))) := by
  rw [C10_block_renders_most_derived E go chain hne hnd nm body st htable hown, hd]
  rfl

/-- … not overridden by anybody: the default body -/
theorem C10_block_default (E : Env) (go : Go) (chain : List (Bytes × List Node)) (hne : chain ≠ [])
    (hnd : (chain.map (·.1)).Nodup) (nm : Bytes) (body : List Node) (st : St)
    (htable : (getKV nm st.ctx.blockDefs).getD [] = defsOf chain nm)
    (hown : topDefs (chain.getLast hne).1 (chain.getLast hne).2 nm = [BlockDef.mk (chain.getLast hne).1 nm body] ∨
            topDefs (chain.getLast hne).1 (chain.getLast hne).2 nm = [])
    (hd : defsOf chain.dropLast nm = []) :
    renderNode E go (chain.getLast hne).1 (.block nm body) st =
      unblock st.ctx (go (.body (chain.getLast hne).1 body)
        (blockSt st [BlockDef.mk (chain.getLast hne).1 nm body])) := by
  rw [C10_block_renders_most_derived E go chain hne hnd nm body st htable hown, hd]
  rfl

/-- a top-level block of a parsed template (the parser rejects a second definition of a block name
    anywhere in a template) is THE top-level definition of its name -/
theorem C10_top_level_block_is_the_definition (tpl nm : Bytes) (body : List Node) (nodes : List Node)
    (hdup : hasDup (blockNamesL nodes) = false) (hmem : Node.block nm body ∈ nodes) :
    topDefs tpl nodes nm = [⟨tpl, nm, body⟩] :=
  topDefs_unique hdup hmem

/-- `C10_empty_override`: when the definition that wins has an EMPTY body the block produces no output
    and leaves the state as it was (here through the real transfer function `run`). -/
theorem C10_empty_override (E : Env) (f : Nat) (tpl nm : Bytes) (body : List Node) (st : St)
    (hempty : ((specChain tpl nm body ((getKV nm st.ctx.blockDefs).getD [])).headD ⟨tpl, nm, body⟩).body = []) :
    renderNode E (run E (f + 1)) tpl (.block nm body) st = .ok ([], st) := by
  rw [block_eq, hempty]
  simp only [run, renderNodes, pure_eq_ok]
  rfl

/-! ## parent() -/

/-- `C10_parent`: inside a block at level `j`, printing `parent()` renders exactly the body of
    definition `j+1` of the block's list, in the SAME state (same variables, same block table, same
    list) one level up, and then sets the level back to `j`; with no further definition it is a render error;
    outside a block it is a render error. -/
theorem C10_parent (go : Go) (st : St) :
    (∀ d, st.ctx.inBlock = true → st.ctx.chain[st.ctx.level + 1]? = some d →
        printVal go .parentFn st = unparent st.ctx.level (go (.body d.tpl d.body) (parentSt st)) ∧
        (parentSt st).ctx.vars = st.ctx.vars ∧ (parentSt st).ctx.chain = st.ctx.chain ∧
        (parentSt st).ctx.blockDefs = st.ctx.blockDefs ∧ (parentSt st).ctx.level = st.ctx.level + 1) ∧
    (st.ctx.inBlock = true → st.ctx.chain[st.ctx.level + 1]? = none →
        printVal go .parentFn st = rerr "no parent block content found") ∧
    (st.ctx.inBlock = false →
        printVal go .parentFn st = rerr "parent() function can only be used within a block") :=
  ⟨fun d hin hd => ⟨parent_eq go st d hin hd, rfl, rfl, rfl, rfl⟩,
   fun hin hd => parent_none go st hin hd, fun hin => parent_outside go st hin⟩

/-- `{{ parent() }}` in source form evaluates to that closure and prints it -/
theorem C10_parent_print (E : Env) (go : Go) (tpl : Bytes) (st : St)
    (hden : denied E st.ctx E.allowedFunctions (b "parent") = false)
    (hmac : st.ctx.getMacro (b "parent") = none) :
    renderNode E go tpl (.print (.call (b "parent") [])) st =
      printVal go .parentFn (st.emit .function (b "parent") false) :=
  print_parent_eq E go tpl st hden hmac

/-- chained `parent()` calls walk up one level at a time: the body that `parent()` renders at level `j`
    runs at level `j+1` with the same list (and whatever it renders leaves list and level alone,
    `C10_frame`), so a `parent()` inside it renders definition `j+2`, and so on; after it returns the
    level is `j` again and the whole block bookkeeping is as before. -/
theorem C10_parent_restores (E : Env) (f : Nat) (st : St) {o st'}
    (h : printVal (run E f) .parentFn st = .ok (o, st')) :
    st'.ctx.level = st.ctx.level ∧ st'.ctx.chain = st.ctx.chain ∧ st'.ctx.inBlock = st.ctx.inBlock ∧
    st'.ctx.blockDefs = st.ctx.blockDefs := by
  have := printVal_fr (run_fr E f) h
  exact ⟨core_level this, core_chain this, core_inBlock this, core_blockDefs this⟩

/-! ## the frame: nothing but `renderRoot`'s registration changes the block table -/

/-- `C10_frame`: rendering any nodes of any template (through the real transfer function, to any depth:
    block bodies, parent() bodies, loops, conditions, includes, macro calls) leaves the block table, the
    current definition list, the level and the in-block flag exactly as they were.  Hence every block
    node of the base template, wherever it stands, is evaluated under the table `renderRoot` built. -/
theorem C10_frame (E : Env) (f : Nat) (tpl : Bytes) (nodes : List Node) (st : St) {o st'}
    (h : renderNodes E (run E f) tpl nodes st = .ok (o, st')) :
    st'.ctx.blockDefs = st.ctx.blockDefs ∧ st'.ctx.chain = st.ctx.chain ∧
    st'.ctx.level = st.ctx.level ∧ st'.ctx.inBlock = st.ctx.inBlock := by
  have := renderNodes_fr E (run_fr E f) tpl nodes st o st' h
  exact ⟨core_blockDefs this, core_chain this, core_level this, core_inBlock this⟩

theorem C10_frame_node (E : Env) (f : Nat) (tpl : Bytes) (n : Node) (st : St) {o st'}
    (h : renderNode E (run E f) tpl n st = .ok (o, st')) :
    st'.ctx.blockDefs = st.ctx.blockDefs ∧ st'.ctx.chain = st.ctx.chain ∧
    st'.ctx.level = st.ctx.level ∧ st'.ctx.inBlock = st.ctx.inBlock := by
  have := renderNode_fr E (run_fr E f) tpl n st o st' h
  exact ⟨core_blockDefs this, core_chain this, core_level this, core_inBlock this⟩

/-- the same for a transferred body or macro call -/
theorem C10_frame_transfer (E : Env) (f : Nat) (st : St) {o st'} :
    (∀ t ns, run E f (.body t ns) st = .ok (o, st') → st'.ctx.blockDefs = st.ctx.blockDefs) ∧
    (∀ t n a, run E f (.macroCall t n a) st = .ok (o, st') → st'.ctx = st.ctx) := by
  refine ⟨fun t ns h => core_blockDefs ((run_fr E f).body _ _ _ _ _ h), fun t n a h => ?_⟩
  cases f with
  | zero => simp only [run] at h; cases h
  | succ f => simp only [run] at h; exact callMacro_ctx h

/-! ## the main theorem -/

/-- `C10_substitution`: for an extends chain of ANY length k+1 ≥ 2 (static or variable parent names),
    `Engine.Render` of the most derived template
      * renders the nodes of the BASE template — nothing of the descendants but their block definitions
        (`C10_child_text_no_output`) —
      * with the variables it was given,
      * under a block table that maps every block name to `defsOf chain nm`, the definitions along the chain
        most derived first,
    and that table is in force at every block node of the rendering, wherever it stands (`C10_frame`),
    where `C10_block_renders_most_derived` / `C10_block_eq` say which body is rendered and `C10_parent`
    what `parent()` yields. -/
theorem C10_substitution (E : Env) (vars : List (Bytes × Val)) (p q : Bytes × List Node)
    (rest : List (Bytes × List Node)) (f : Nat)
    (hc : ChainOK E vars (p :: q :: rest)) (hf : f + (rest.length + 2) = defaultFuel) :
    renderTop E p.1 vars =
      (renderNodes E (run E f) (lastTpl q rest).1 (lastTpl q rest).2
          { ctx := chainCtx E (p :: q :: rest) { vars := vars } }
        >>= fun r => pure (r.1, r.2.trace.reverse)) ∧
    (chainCtx E (p :: q :: rest) { vars := vars }).vars = vars ∧
    (∀ nm, (getKV nm (chainCtx E (p :: q :: rest) { vars := vars }).blockDefs).getD [] =
            defsOf (p :: q :: rest) nm) ∧
    (∀ tpl nodes st o st', renderNodes E (run E f) tpl nodes st = .ok (o, st') →
        st'.ctx.blockDefs = st.ctx.blockDefs) := by
  refine ⟨?_, rfl, fun nm => ?_, fun tpl nodes st o st' h => (C10_frame E f tpl nodes st h).1⟩
  · simp only [renderTop, hc.1]
    rw [← hf, chain_walk E vars rest p q { ctx := { vars := vars } } f hc rfl]
    cases renderNodes E (run E f) (lastTpl q rest).1 (lastTpl q rest).2
        { ctx := chainCtx E (p :: q :: rest) { vars := vars } } with
    | error e => rfl
    | ok r => rfl
  · have := regAll_get (p :: q :: rest) [] nm
    simpa [chainCtx, getKV_nil] using this

/-- the chain of length 1 -/
theorem C10_substitution_single (E : Env) (vars : List (Bytes × Val)) (p : Bytes × List Node) (f : Nat)
    (ht : E.tpl? p.1 = some p.2) (hl : lastExtends p.2 = none) (hf : f + 1 = defaultFuel) :
    renderTop E p.1 vars =
      (renderNodes E (run E f) p.1 p.2 (regSt p.1 p.2 { ctx := { vars := vars } })
        >>= fun r => pure (r.1, r.2.trace.reverse)) := by
  simp only [renderTop, ht]
  rw [← hf]
  simp only [run]
  rw [renderRoot_base _ ht hl]

/-- substitution "where it stands", spelled out for a block anywhere in a sequence of nodes: the nodes
    before it are rendered, then the block over the table of the ORIGINAL state (the nodes before it
    cannot have changed it), then the nodes after it. -/
theorem C10_substitution_at (E : Env) (f : Nat) (tpl nm : Bytes) (pre post body : List Node) (st : St) :
    renderNodes E (run E f) tpl (pre ++ .block nm body :: post) st =
      (renderNodes E (run E f) tpl pre st >>= fun r1 =>
        unblock r1.2.ctx
          (run E f (.body ((specChain tpl nm body ((getKV nm st.ctx.blockDefs).getD [])).headD ⟨tpl, nm, body⟩).tpl
                          ((specChain tpl nm body ((getKV nm st.ctx.blockDefs).getD [])).headD ⟨tpl, nm, body⟩).body)
            (blockSt r1.2 (specChain tpl nm body ((getKV nm st.ctx.blockDefs).getD [])))) >>= fun r2 =>
        renderNodes E (run E f) tpl post r2.2 >>= fun r3 =>
        pure (r1.1 ++ (r2.1 ++ r3.1), r3.2)) := by
  rw [renderNodes_append]
  cases h1 : renderNodes E (run E f) tpl pre st with
  | error e => rfl
  | ok r1 =>
    have hfr := (C10_frame E f tpl pre st (o := r1.1) (st' := r1.2) h1).1
    simp only [ok_bind, renderNodes, block_eq, hfr]
    cases unblock r1.2.ctx
          (run E f (.body ((specChain tpl nm body ((getKV nm st.ctx.blockDefs).getD [])).headD ⟨tpl, nm, body⟩).tpl
                          ((specChain tpl nm body ((getKV nm st.ctx.blockDefs).getD [])).headD ⟨tpl, nm, body⟩).body)
            (blockSt r1.2 (specChain tpl nm body ((getKV nm st.ctx.blockDefs).getD [])))) with
    | error e => rfl
    | ok r2 =>
      simp only [ok_bind]
      cases renderNodes E (run E f) tpl post r2.2 <;> rfl

/-! ## non-vacuity: concrete chains

  (tests, not theorems: closed instances evaluated by the kernel) -/

namespace C10Ex
def nTop : Bytes := b "top"
def nMid : Bytes := b "mid"
def nBase : Bytes := b "base"
def bx : Bytes := b "x"
def by' : Bytes := b "y"
def parentCall : Node := .print (.call (b "parent") [])
def tBase : List Node :=
  [.text (b "A"), .block bx [.text (b "bx")], .text (b "B"), .block by' [.text (b "by")], .text (b "C")]
def tMid : List Node :=
  [.extends (.str nBase), .text (b "zz"), .block bx [.text (b "mx["), parentCall, .text (b "]")]]
def tTop : List Node :=
  [.extends (.var (b "layout")), .block bx [.text (b "tx["), parentCall, .text (b "]")], .block by' []]
def E : Env := { tpls := [(nBase, tBase), (nMid, tMid), (nTop, tTop)] }
def vars : List (Bytes × Val) := [(b "layout", .str nMid)]
def chain : List (Bytes × List Node) := [(nTop, tTop), (nMid, tMid), (nBase, tBase)]

theorem names_ne : (nBase == nMid) = false ∧ (nBase == nTop) = false ∧ (nMid == nTop) = false ∧
    (by' == bx) = false ∧ (bx == by') = false := by decide +kernel

/-- the hypotheses of `C10_substitution` hold for a three-level chain whose most derived template takes
    its parent's name from a variable -/
theorem chainOK : ChainOK E vars chain := by
  obtain ⟨h1, h2, h3, _, _⟩ := names_ne
  refine ⟨?_, ⟨.var (b "layout"), rfl, Link_var E vars _ _ ?_⟩, by decide +kernel, ?_, ⟨.str nBase, rfl, Link_str E vars _⟩,
    by decide +kernel, ?_, rfl⟩
  · simp [Env.tpl?, E, List.find?, h2, h3]
  · simp [getKV, vars]
  · simp [Env.tpl?, E, List.find?, h1]
  · simp [Env.tpl?, E]

example : (chain.map (·.1)).Nodup := by decide +kernel

/-- the hypotheses of `C10_block_renders_most_derived` for the top-level block `x` of the base -/
example : topDefs (chain.getLast (by simp [chain])).1 (chain.getLast (by simp [chain])).2 bx =
    [BlockDef.mk (chain.getLast (by simp [chain])).1 bx [.text (b "bx")]] := by
  have h4 : by' ≠ bx := by simpa using names_ne.2.2.2.1
  simp [chain, topDefs, tBase, h4]

/-- … and the definitions of `x` along the chain, most derived first -/
example : defsOf chain bx =
    [⟨nTop, bx, [.text (b "tx["), parentCall, .text (b "]")]⟩,
     ⟨nMid, bx, [.text (b "mx["), parentCall, .text (b "]")]⟩,
     ⟨nBase, bx, [.text (b "bx")]⟩] := by
  have h4 : by' ≠ bx := by simpa using names_ne.2.2.2.1
  simp [defsOf, chain, topDefs, tTop, tMid, tBase, h4]

/-- the hand-built chain renders as the spec says -/
example : (match renderTop E nTop vars with | .ok (o, _) => some o | .error _ => none) = some (b "Atx[mx[bx]]BC") := by
  decide +kernel

/-- `C10_substitution` instantiated: the most derived template renders the base's nodes under the chain's table -/
example := C10_substitution E vars (nTop, tTop) (nMid, tMid) [(nBase, tBase)] 197 chainOK (by decide)
end C10Ex

/-! ### end to end from SOURCE text: scan, parse, render -/

namespace C10Ex
def base3 : String := "A{% block x %}bx{% endblock %}B{% block y %}by{% endblock %}C{% block z %}bz{% endblock %}D"
def mid3 : String := "{% extends 'base' %}zz{% block x %}mx[{{ parent() }}]{% endblock %}{% block z %}mz[{{ parent() }}]{% endblock %}"
def top3 : String := "{% extends 'mid' %}qq{% block x %}tx[{{ parent() }}]{% endblock %}{% block y %}{% endblock %}"

/-- three levels: `x` overridden twice with chained parent(), `y` blanked by the most derived template,
    `z` overridden in the middle only (with parent(), while the descendant does not override it),
    text outside blocks in both children dropped -/
example : renderSources [("base", base3), ("mid", mid3), ("top", top3)] "top" = some (b "Atx[mx[bx]]BCmz[bz]D") := by
  decide +kernel

/-- two levels, empty override and default kept -/
example : renderSources [("base", "A{% block x %}bx{% endblock %}B{% block y %}by{% endblock %}C"),
                         ("top", "{% extends 'base' %}{% block x %}{% endblock %}")] "top" = some (b "ABbyC") := by
  decide +kernel

/-- blocks nested in a block, in a loop and in a condition are substituted where they stand; the
    parent name comes from a variable -/
example : renderSources
    [("base", "{% block outer %}<{% block inner %}bi{% endblock %}>{% endblock %}{% for i in [1,2] %}{% block item %}i{% endblock %}{% endfor %}{% if true %}{% block c %}bc{% endblock %}{% endif %}"),
     ("top", "{% extends layout %}{% block inner %}ti{% endblock %}{% block item %}[{{ i }}{{ parent() }}]{% endblock %}{% block c %}tc{% endblock %}")]
    "top" [(b "layout", .str (b "base"))] = some (b "<ti>[1i][2i]tc") := by
  decide +kernel

/-- parent() with no further definition is a render error -/
example : renderSourcesFails [("base", "{% block x %}{{ parent() }}{% endblock %}")] "base" = true := by
  decide +kernel


end C10Ex

end Twig
