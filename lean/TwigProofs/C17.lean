/-
  C17 — Failures during rendering always surface as errors that wrap their cause.

  The model (`TwigModel.Render`, frozen) runs in `R = Except Err`; a failing user callback is injected
  by `Env.failAt = some n`: the n-th spy invocation (0-based, counted by `St.spyCalls`) returns
  `.error (.error .render [n] "callback failed")` — cause `n` is the sentinel the Go harness looks for
  with `errors.Is`.  An `.error` carries no output: "no partial output" is the type.

  Route of `C17_propagates_partial`:
   (1) `Agree`: the run with `failAt = some n` either fails with exactly that error or coincides with
       the fault-free run (mutual structural induction over expressions / nodes, induction on fuel);
       this is where "every function returns the first error of its sub-calls unchanged" is used, and
       where the one swallow site of the model (`x.y is defined`, mirrored from the Go code) has to be
       excluded (`NoDefinedOnAttr`);
   (2) an invariant of the faulty run: a successful run never counts past `n` spy invocations, and the
       number of spy events in the trace is the counter;
   so if the fault-free run shows more than `n` spy events, the faulty run cannot have succeeded.
-/
import TwigProofs.Lemmas.RenderTrace
import TwigGen.ErrFlow
namespace Twig

/-! ## Vocabulary -/

/-- the environment with the fault injected at the given spy invocation (or none) -/
def Env.withFail (E : Env) (fa : Option Nat) : Env := { E with failAt := fa }

/-- the error the n-th spy invocation fails with: class render, cause sentinel `n` -/
def spyErr (n : Nat) : Err := .error .render [n] "callback failed"

/-- number of spy invocations recorded in a trace -/
def spyCount (t : List Event) : Nat := (t.filter (·.spy)).length

mutual
/-- the expression contains no `<expr>.attr is defined` (the documented swallow site) -/
def Expr.noDefAttr : Expr → Bool
  | .unary _ e => e.noDefAttr
  | .binary _ l r => l.noDefAttr && r.noDefAttr
  | .badBinary l r => l.noDefAttr && r.noDefAttr
  | .cond c t f => c.noDefAttr && t.noDefAttr && f.noDefAttr
  | .attr e _ => e.noDefAttr
  | .item e i => e.noDefAttr && i.noDefAttr
  | .filter e _ args => e.noDefAttr && Expr.noDefAttrs args
  | .call _ args => Expr.noDefAttrs args
  | .mcall o _ args => o.noDefAttr && Expr.noDefAttrs args
  | .test e name args =>
    (match e with
      | .attr _ _ => !(name == b "defined")
      | _ => true) && e.noDefAttr && Expr.noDefAttrs args
  | .array items => Expr.noDefAttrs items
  | .hash kvs => Expr.noDefAttrs kvs
  | _ => true
def Expr.noDefAttrs : List Expr → Bool
  | [] => true
  | e :: r => e.noDefAttr && Expr.noDefAttrs r
end

mutual
def Node.noDefAttr : Node → Bool
  | .print e => e.noDefAttr
  | .ifN c t e => c.noDefAttr && Node.noDefAttrs t && Node.noDefAttrs e
  | .forN _ _ seq body els => seq.noDefAttr && Node.noDefAttrs body && Node.noDefAttrs els
  | .setN _ e => e.noDefAttr
  | .doN e => e.noDefAttr
  | .block _ body => Node.noDefAttrs body
  | .extends e => e.noDefAttr
  | .include te _ exprs _ _ _ => te.noDefAttr && Expr.noDefAttrs exprs
  | .macro _ _ _ de body => Expr.noDefAttrs de && Node.noDefAttrs body
  | .importN te _ => te.noDefAttr
  | .fromN te _ => te.noDefAttr
  | .apply _ body => Node.noDefAttrs body
  | .spaceless body => Node.noDefAttrs body
  | .text _ => true
  | .verbatim _ => true
def Node.noDefAttrs : List Node → Bool
  | [] => true
  | n :: r => n.noDefAttr && Node.noDefAttrs r
end

/-- **the decidable exclusion**: no template of the environment contains `<expr>.attr is defined` -/
def NoDefinedOnAttr (E : Env) : Prop := E.tpls.all (fun t => Node.noDefAttrs t.2) = true

instance (E : Env) : Decidable (NoDefinedOnAttr E) := by unfold NoDefinedOnAttr; infer_instance

/-! ## Projections of the environment with a fault -/

section wf
variable (E : Env) (fa : Option Nat)
@[simp] theorem wf_tpl? (name : Bytes) : (E.withFail fa).tpl? name = E.tpl? name := rfl
@[simp] theorem wf_resolveTpl (name : Bytes) : resolveTpl (E.withFail fa) name = resolveTpl E name := rfl
@[simp] theorem wf_entry : (E.withFail fa).entry = E.entry := rfl
@[simp] theorem wf_F : (E.withFail fa).F = E.F := rfl
@[simp] theorem wf_hasPolicy : (E.withFail fa).hasPolicy = E.hasPolicy := rfl
@[simp] theorem wf_allowedFilters : (E.withFail fa).allowedFilters = E.allowedFilters := rfl
@[simp] theorem wf_allowedFunctions : (E.withFail fa).allowedFunctions = E.allowedFunctions := rfl
@[simp] theorem wf_spyFilters : (E.withFail fa).spyFilters = E.spyFilters := rfl
@[simp] theorem wf_spyFunctions : (E.withFail fa).spyFunctions = E.spyFunctions := rfl
@[simp] theorem wf_spyTests : (E.withFail fa).spyTests = E.spyTests := rfl
@[simp] theorem wf_failAt : (E.withFail fa).failAt = fa := rfl
@[simp] theorem wf_globals : (E.withFail fa).globals = E.globals := rfl
@[simp] theorem wf_denied (c : Ctx) (l : List Bytes) (name : Bytes) : denied (E.withFail fa) c l name = denied E c l name := rfl
@[simp] theorem wf_allowedCheck (st : St) (l : List Bytes) (name : Bytes) (w : String) :
    allowedCheck (E.withFail fa) st l name w = allowedCheck E st l name w := rfl
theorem wf_noDef : NoDefinedOnAttr (E.withFail fa) ↔ NoDefinedOnAttr E := Iff.rfl
end wf

/-! ## The primitive steps agree -/

section prims
variable (E : Env) (n : Nat)

local notation "E0" => Env.withFail E none
local notation "En" => Env.withFail E (some n)
local notation "X" => spyErr n
local notation "NoJ" => (fun _ : Ctx => True)

theorem invokeSpy_agree (k : CbKind) (name : Bytes) (st : St) :
    Agree X (invokeSpy E0 k name st) (invokeSpy En k name st) := by
  intro hne
  unfold invokeSpy at *
  simp only [wf_failAt] at *
  by_cases h : st.spyCalls = n
  · subst h; simp [spyErr] at hne
  · have : ((some n : Option Nat) == some st.spyCalls) = false := by
      simp; exact fun e => h e.symm
    simp [this]

theorem applyFilter_agree (name : Bytes) (v : Val) (args : List Val) (st : St) :
    AgJ X NoJ (applyFilter E0 name v args st) (applyFilter En name v args st) := by
  unfold applyFilter
  simp only [wf_F, wf_denied, wf_allowedFilters, wf_spyFilters]
  refine agj_ite (fun _ => agj_error _) (fun _ => agj_ite (fun _ => ?_) (fun _ => ?_))
  · exact agj_bindS (invokeSpy_agree E n _ _ _) (fun s _ => agj_pure trivial)
  · split
    · exact agj_bindR (fun _ _ => agj_pure trivial)
    · exact agj_error _

theorem applyChain_agree : ∀ (ch : List (Bytes × List Val)) (v : Val) (st : St),
    AgJ X NoJ (applyChain E0 ch v st) (applyChain En ch v st)
  | [], v, st => by simp only [applyChain]; exact agj_pure trivial
  | (nm, a) :: r, v, st => by
    simp only [applyChain]
    exact agj_bind (applyFilter_agree E n nm v a st) (fun v' st1 _ => applyChain_agree r v' st1)

theorem callFunction_agree (name : Bytes) (args : List Val) (st : St) :
    AgJ X NoJ (callFunction E0 name args st) (callFunction En name args st) := by
  unfold callFunction
  simp only [wf_F, wf_denied, wf_allowedFunctions, wf_spyFunctions]
  refine agj_ite (fun _ => agj_error _) (fun _ => agj_ite (fun _ => agj_pure trivial) (fun _ => agj_ite (fun _ => ?_) (fun _ => ?_)))
  · exact agj_bindS (invokeSpy_agree E n _ _ _) (fun s _ => agj_pure trivial)
  · split
    · exact agj_bindR (fun _ _ => agj_pure trivial)
    · split
      · exact agj_pure trivial
      · exact agj_error _

/-- the expression evaluator, on expressions without the swallow site -/
theorem evalX_agree :
    (∀ apply e st, e.noDefAttr = true → AgJ X NoJ (evalX E0 apply e st) (evalX En apply e st)) ∧
    (∀ es st, Expr.noDefAttrs es = true → AgJ X NoJ (evalPairs E0 es st) (evalPairs En es st)) ∧
    (∀ es st, Expr.noDefAttrs es = true → AgJ X NoJ (evalArgs E0 es st) (evalArgs En es st)) := by
  have hAF := applyFilter_agree E n
  have hAC := applyChain_agree E n
  have hCF := callFunction_agree E n
  have hIS := invokeSpy_agree E n
  apply evalX.mutual_induct En
    (motive_1 := fun apply e st => e.noDefAttr = true → AgJ X NoJ (evalX E0 apply e st) (evalX En apply e st))
    (motive_2 := fun es st => Expr.noDefAttrs es = true → AgJ X NoJ (evalPairs E0 es st) (evalPairs En es st))
    (motive_3 := fun es st => Expr.noDefAttrs es = true → AgJ X NoJ (evalArgs E0 es st) (evalArgs En es st))
  all_goals intros
  all_goals try simp only [Expr.noDefAttr, Expr.noDefAttrs, Bool.and_eq_true] at *
  all_goals split_hyp_ands
  all_goals try (simp_all only [Bool.not_true, Bool.false_eq_true]; done)
  all_goals try simp only [evalX, evalArgs, evalPairs, wf_allowedCheck, wf_allowedFilters, wf_allowedFunctions, wf_spyTests,
    wf_globals]
  all_goals ag (trivial)
  · unfold evalX
    rw [if_neg ‹_›, if_neg ‹_›]
    simp only [wf_spyTests]
    ag (trivial)

theorem evalX_agree' (apply e st) (h : e.noDefAttr = true) :
    AgJ X NoJ (evalX E0 apply e st) (evalX En apply e st) := (evalX_agree E n).1 apply e st h
theorem evalArgs_agree (es st) (h : Expr.noDefAttrs es = true) :
    AgJ X NoJ (evalArgs E0 es st) (evalArgs En es st) := (evalX_agree E n).2.2 es st h

/-! ### the context is unchanged by expression evaluation -/

def CtxEq (st st' : St) : Prop := st'.ctx = st.ctx

theorem ctxEq_ok (E : Env) : RelOk E CtxEq :=
  relOk_of_prims ⟨fun _ => rfl, fun h1 h2 => Eq.trans h2 h1⟩ (fun _ _ _ => rfl)
    (fun _ _ _ _ h => by rw [invokeSpy_ok h]; rfl)

/-! ### block definitions carried by contexts

  Block bodies travel through contexts (`blockDefs`, `chain`), so the syntactic exclusion has to be an
  invariant of the contexts as well. -/

def BlocksOk (bd : List (Bytes × List BlockDef)) : Prop := ∀ kv ∈ bd, ∀ d ∈ kv.2, Node.noDefAttrs d.body = true
def ChainOk (ch : List BlockDef) : Prop := ∀ d ∈ ch, Node.noDefAttrs d.body = true
def CtxNoDef (c : Ctx) : Prop := BlocksOk c.blockDefs ∧ ChainOk c.chain

def TrOk : Transfer → Prop
  | .body _ nodes => Node.noDefAttrs nodes = true
  | _ => True

theorem blocksOk_nil : BlocksOk [] := by intro kv h; cases h
theorem chainOk_nil : ChainOk [] := by intro d h; cases h

section jd
variable {c : Ctx}
theorem jd_setVar (k v) (h : CtxNoDef c) : CtxNoDef (c.setVar k v) := h
theorem jd_delVar (k) (h : CtxNoDef c) : CtxNoDef (c.delVar k) := h
theorem jd_level (l) (h : CtxNoDef c) : CtxNoDef { c with level := l } := h
theorem jd_macros (ms) (h : CtxNoDef c) : CtxNoDef { c with macros := ms } := h
theorem jd_chain (ch l ib) (h : CtxNoDef c) (hc : ChainOk ch) :
    CtxNoDef { c with chain := ch, level := l, inBlock := ib } := ⟨h.1, hc⟩
theorem jd_blockDefs (bd) (h : CtxNoDef c) (hb : BlocksOk bd) : CtxNoDef { c with blockDefs := bd } := ⟨hb, h.2⟩
theorem jd_extends (v s i) (h : CtxNoDef c) : CtxNoDef { freshCtx v s i with blockDefs := c.blockDefs, parents := c.parents } :=
  ⟨h.1, chainOk_nil⟩
theorem jd_fresh (v s i) : CtxNoDef (freshCtx v s i) := ⟨blocksOk_nil, chainOk_nil⟩
theorem jd_plain (v ms ps s i) :
    CtxNoDef { vars := v, macros := ms, parents := ps, sandboxed := s, inside := i } := ⟨blocksOk_nil, chainOk_nil⟩
theorem jd_setAll : ∀ names vals (c : Ctx), CtxNoDef c → CtxNoDef (setAll c names vals)
  | [], _, c, hc => by simpa [setAll] using hc
  | _ :: _, [], c, hc => by simpa [setAll] using hc
  | n :: ns, v :: vs, c, hc => by simp only [setAll]; exact jd_setAll ns vs _ (jd_setVar _ _ hc)
end jd

/-- derive `CtxNoDef c'` for a derived context; side goals `ChainOk` / `BlocksOk` are left -/
macro "jderiv" : tactic => `(tactic| repeat' (first
  | with_reducible assumption
  | trivial
  | with_reducible apply jd_setVar
  | with_reducible apply jd_delVar
  | with_reducible apply jd_setAll
  | with_reducible apply jd_fresh
  | (guard_ctx_literal; with_reducible apply jd_plain)
  | (guard_ctx_literal; with_reducible apply jd_extends)
  | (guard_ctx_literal; with_reducible apply jd_level)
  | (guard_ctx_literal; with_reducible apply jd_macros)
  | dsimp only
  | split))

/-! ### syntactic exclusion: sub-terms reached through lookups -/

theorem noDef_dedupLast : ∀ (ns : List Bytes) (es : List Expr), Expr.noDefAttrs es = true →
    Expr.noDefAttrs (dedupLast ns es).2 = true
  | [], _, _ => by simp [dedupLast, Expr.noDefAttrs]
  | _ :: _, [], _ => by simp [dedupLast, Expr.noDefAttrs]
  | n :: ns, e :: es, h => by
    simp only [Expr.noDefAttrs, Bool.and_eq_true] at h
    have ih := noDef_dedupLast ns es h.2
    simp only [dedupLast]
    split
    · exact ih
    · simp only [Expr.noDefAttrs, Bool.and_eq_true]; exact ⟨h.1, ih⟩

theorem noDef_lookupDefault (p : Bytes) : ∀ (ns : List Bytes) (es : List Expr) (e : Expr),
    Expr.noDefAttrs es = true → lookupDefault p ns es = some e → e.noDefAttr = true
  | [], _, _, _, h => by simp [lookupDefault] at h
  | _ :: _, [], _, _, h => by simp [lookupDefault] at h
  | n :: ns, x :: es, e, hn, h => by
    simp only [Expr.noDefAttrs, Bool.and_eq_true] at hn
    simp only [lookupDefault] at h
    split at h
    · rename_i y hy
      cases h
      exact noDef_lookupDefault p ns es _ hn.2 hy
    · split at h
      · cases h; exact hn.1
      · cases h

theorem noDef_findMacro_aux (name : Bytes) : ∀ (nodes : List Node) (acc : Option (List Bytes × List Bytes × List Expr × List Node)),
    Node.noDefAttrs nodes = true →
    (∀ r, acc = some r → Expr.noDefAttrs r.2.2.1 = true ∧ Node.noDefAttrs r.2.2.2 = true) →
    ∀ r, nodes.foldl (fun acc n => match n with
      | .macro m ps dn de body => if m == name then some (ps, dn, de, body) else acc
      | _ => acc) acc = some r → Expr.noDefAttrs r.2.2.1 = true ∧ Node.noDefAttrs r.2.2.2 = true
  | [], acc, _, hacc, r, h => hacc r h
  | nd :: rest, acc, hn, hacc, r, h => by
    simp only [Node.noDefAttrs, Bool.and_eq_true] at hn
    simp only [List.foldl_cons] at h
    refine noDef_findMacro_aux name rest _ hn.2 ?_ r h
    intro r' hr'
    split at hr'
    · split at hr'
      · cases hr'
        have := hn.1
        simp only [Node.noDefAttr, Bool.and_eq_true] at this
        exact this
      · exact hacc r' hr'
    · exact hacc r' hr'

theorem noDef_findMacro {nodes : List Node} {name : Bytes} {ps dn de body}
    (hn : Node.noDefAttrs nodes = true) (h : findMacro nodes name = some (ps, dn, de, body)) :
    Expr.noDefAttrs de = true ∧ Node.noDefAttrs body = true :=
  noDef_findMacro_aux name nodes none hn (fun _ h => by cases h) _ h

theorem noDef_lastExtends : ∀ (nodes : List Node) (e : Expr), Node.noDefAttrs nodes = true →
    lastExtends nodes = some e → e.noDefAttr = true
  | [], _, _, h => by simp [lastExtends] at h
  | nd :: rest, e, hn, h => by
    simp only [Node.noDefAttrs, Bool.and_eq_true] at hn
    cases nd
    case «extends» e0 =>
      simp only [lastExtends] at h
      split at h
      · rename_i e' he'
        cases h
        exact noDef_lastExtends _ _ hn.2 he'
      · cases h
        have := hn.1
        simpa [Node.noDefAttr] using this
    all_goals (simp only [lastExtends] at h; exact noDef_lastExtends _ _ hn.2 h)

theorem noDef_tpl {E : Env} (hE : NoDefinedOnAttr E) {name : Bytes} {nodes : List Node}
    (h : E.tpl? name = some nodes) : Node.noDefAttrs nodes = true := by
  unfold Env.tpl? at h
  cases hf : E.tpls.find? (·.1 == name) with
  | none => rw [hf] at h; cases h
  | some t =>
    rw [hf] at h
    cases h
    exact (List.all_eq_true.mp hE) t (List.mem_of_find?_eq_some hf)

theorem blocksOk_getKV {bd : List (Bytes × List BlockDef)} (h : BlocksOk bd) (name : Bytes) :
    ChainOk ((getKV name bd).getD []) := by
  unfold getKV
  cases hf : bd.find? (·.1 == name) with
  | none => exact chainOk_nil
  | some kv => exact h kv (List.mem_of_find?_eq_some hf)

theorem blocksOk_setKV {bd : List (Bytes × List BlockDef)} (h : BlocksOk bd) (name : Bytes) {l : List BlockDef}
    (hl : ChainOk l) : BlocksOk (setKV name l bd) := by
  intro kv hkv
  simp only [setKV, List.mem_cons, List.mem_filter] at hkv
  rcases hkv with rfl | ⟨hm, _⟩
  · exact hl
  · exact h kv hm

theorem chainOk_append {a c : List BlockDef} (ha : ChainOk a) (hc : ChainOk c) : ChainOk (a ++ c) := by
  intro d hd
  rcases List.mem_append.mp hd with h | h
  · exact ha d h
  · exact hc d h

theorem blocksOk_register (tpl : Bytes) : ∀ (nodes : List Node) (bd : List (Bytes × List BlockDef)),
    Node.noDefAttrs nodes = true → BlocksOk bd → BlocksOk (registerBlocks tpl nodes bd)
  | [], bd, _, h => by simpa [registerBlocks] using h
  | nd :: rest, bd, hn, h => by
    simp only [Node.noDefAttrs, Bool.and_eq_true] at hn
    cases nd
    case block name body =>
      simp only [registerBlocks]
      refine blocksOk_register tpl _ _ hn.2 (blocksOk_setKV h _ (chainOk_append (blocksOk_getKV h _) ?_))
      intro d hd
      simp only [List.mem_singleton] at hd
      subst hd
      have := hn.1
      simpa [Node.noDefAttr] using this
    all_goals (simp only [registerBlocks]; exact blocksOk_register tpl _ _ hn.2 h)

/-! ### the node level -/

/-- what the node level needs of the two transfer functions -/
def GoAgree (go0 gon : Go) : Prop :=
  ∀ tr st, TrOk tr → CtxNoDef st.ctx → AgJ X CtxNoDef (go0 tr st) (gon tr st)

theorem evalX_agJ (apply e st) (h : e.noDefAttr = true) (hj : CtxNoDef st.ctx) :
    AgJ X CtxNoDef (evalX E0 apply e st) (evalX En apply e st) :=
  agj_of_ctx (evalX_agree' E n apply e st h) (evalX_holds (ctxEq_ok En) apply e st) hj

theorem evalArgs_agJ (es st) (h : Expr.noDefAttrs es = true) (hj : CtxNoDef st.ctx) :
    AgJ X CtxNoDef (evalArgs E0 es st) (evalArgs En es st) :=
  agj_of_ctx (evalArgs_agree E n es st h) (evalArgs_holds (ctxEq_ok En) es st) hj

theorem applyFilter_agJ (name v args st) (hj : CtxNoDef st.ctx) :
    AgJ X CtxNoDef (applyFilter E0 name v args st) (applyFilter En name v args st) :=
  agj_of_ctx (applyFilter_agree E n name v args st) ((ctxEq_ok En).filter name v args st) hj

theorem evalExpr_agJ (e st) (h : e.noDefAttr = true) (hj : CtxNoDef st.ctx) :
    AgJ X CtxNoDef (evalExpr E0 e st) (evalExpr En e st) := by
  have hX := evalX_agJ E n
  unfold evalExpr
  ag (jderiv)

theorem printVal_agJ {go0 gon : Go} (hgo : GoAgree n go0 gon) (v st) (hj : CtxNoDef st.ctx) :
    AgJ X CtxNoDef (printVal go0 v st) (printVal gon v st) := by
  have hgo' : ∀ tr st, TrOk tr → CtxNoDef st.ctx → AgJ X CtxNoDef (go0 tr st) (gon tr st) := hgo
  unfold printVal
  ag (jderiv)
  · rename_i heq
    have hm : _ ∈ st.ctx.chain := List.mem_of_mem_drop (heq ▸ List.mem_cons_self)
    exact hj.2 _ hm

theorem loopOver_agJ {f0 fn : St → R Out} (hf : ∀ st, CtxNoDef st.ctx → AgJ X CtxNoDef (f0 st) (fn st))
    (keyVar valVar m) : ∀ i items st, CtxNoDef st.ctx →
      AgJ X CtxNoDef (loopOver f0 keyVar valVar m i items st) (loopOver fn keyVar valVar m i items st)
  | _, [], st, hj => by simp only [loopOver]; exact agj_pure hj
  | i, (k, v) :: r, st, hj => by
    have ih := loopOver_agJ hf keyVar valVar m (i + 1) r
    simp only [loopOver]
    ag (jderiv)

/-- the chain of definitions a block node renders through -/
def blockChain (tpl name : Bytes) (body : List Node) (defs : List BlockDef) : List BlockDef :=
  match defs.getLast? with
  | some l => if l.tpl == tpl then defs else defs ++ [⟨tpl, name, body⟩]
  | none => [⟨tpl, name, body⟩]

theorem renderNode_block (E' : Env) (go : Go) (tpl name : Bytes) (body : List Node) (st : St) :
    renderNode E' go tpl (.block name body) st =
      match blockChain tpl name body ((getKV name st.ctx.blockDefs).getD []) with
      | [] => pure ([], st)
      | d :: _ =>
        go (.body d.tpl d.body)
          { st with ctx := { st.ctx with
              chain := blockChain tpl name body ((getKV name st.ctx.blockDefs).getD []), level := 0, inBlock := true } } >>=
        fun x => pure (x.1, { x.2 with ctx := { x.2.ctx with chain := st.ctx.chain, level := st.ctx.level, inBlock := st.ctx.inBlock } }) := by
  simp only [renderNode, blockChain]
  rfl

theorem chainOk_blockChain {tpl name : Bytes} {body : List Node} {defs : List BlockDef}
    (hb : Node.noDefAttrs body = true) (hd : ChainOk defs) : ChainOk (blockChain tpl name body defs) := by
  have hme : ChainOk [⟨tpl, name, body⟩] := by
    intro d hd; simp only [List.mem_singleton] at hd; subst hd; exact hb
  unfold blockChain
  split
  · split
    · exact hd
    · exact chainOk_append hd hme
  · exact hme

theorem block_agJ {go0 gon : Go} (hgo : GoAgree n go0 gon) (tpl name : Bytes) (body : List Node) (st : St)
    (hb : Node.noDefAttrs body = true) (hj : CtxNoDef st.ctx) :
    AgJ X CtxNoDef (renderNode E0 go0 tpl (.block name body) st) (renderNode En gon tpl (.block name body) st) := by
  rw [renderNode_block, renderNode_block]
  have hch := chainOk_blockChain (tpl := tpl) (name := name) hb (blocksOk_getKV hj.1 name)
  cases hc : blockChain tpl name body ((getKV name st.ctx.blockDefs).getD []) with
  | nil => exact agj_pure hj
  | cons d tl =>
    rw [hc] at hch
    have hd : Node.noDefAttrs d.body = true := hch d List.mem_cons_self
    refine agj_bind (hgo _ _ hd (jd_chain _ _ _ hj hch)) (fun o st1 hj1 => ?_)
    exact agj_pure (jd_chain (c := st1.ctx) st.ctx.chain st.ctx.level st.ctx.inBlock hj1 hj.2)

theorem renderNode_agJ {go0 gon : Go} (hgo : GoAgree n go0 gon) (tpl : Bytes) :
    (∀ nd st, nd.noDefAttr = true → CtxNoDef st.ctx →
      AgJ X CtxNoDef (renderNode E0 go0 tpl nd st) (renderNode En gon tpl nd st)) ∧
    (∀ ns st, Node.noDefAttrs ns = true → CtxNoDef st.ctx →
      AgJ X CtxNoDef (renderNodes E0 go0 tpl ns st) (renderNodes En gon tpl ns st)) := by
  have hgo' : ∀ tr st, TrOk tr → CtxNoDef st.ctx → AgJ X CtxNoDef (go0 tr st) (gon tr st) := hgo
  have hX := evalX_agJ E n
  have hA := evalArgs_agJ E n
  have hF := applyFilter_agJ E n
  have hPV := printVal_agJ n hgo
  have hL := fun f0 fn hf kv vv m => loopOver_agJ n (f0 := f0) (fn := fn) hf kv vv m
  apply renderNode.mutual_induct tpl
    (motive_1 := fun nd st => nd.noDefAttr = true → CtxNoDef st.ctx →
      AgJ X CtxNoDef (renderNode E0 go0 tpl nd st) (renderNode En gon tpl nd st))
    (motive_2 := fun ns st => Node.noDefAttrs ns = true → CtxNoDef st.ctx →
      AgJ X CtxNoDef (renderNodes E0 go0 tpl ns st) (renderNodes En gon tpl ns st))
  case case8 =>
    intros
    exact block_agJ E n hgo tpl _ _ _ (by simpa [Node.noDefAttr] using ‹(Node.block _ _).noDefAttr = true›) ‹CtxNoDef _›
  case case9 =>
    intros
    exact block_agJ E n hgo tpl _ _ _ (by simpa [Node.noDefAttr] using ‹(Node.block _ _).noDefAttr = true›) ‹CtxNoDef _›
  all_goals intros
  all_goals try simp only [Node.noDefAttr, Node.noDefAttrs, Bool.and_eq_true] at *
  all_goals split_hyp_ands
  all_goals try simp only [renderNode, renderNodes, wf_resolveTpl, wf_F, wf_hasPolicy]
  all_goals ag (first | (jderiv; done) | (apply noDef_dedupLast; assumption))

theorem renderNodes_agJ {go0 gon : Go} (hgo : GoAgree n go0 gon) (tpl ns st)
    (h : Node.noDefAttrs ns = true) (hj : CtxNoDef st.ctx) :
    AgJ X CtxNoDef (renderNodes E0 go0 tpl ns st) (renderNodes En gon tpl ns st) :=
  (renderNode_agJ E n hgo tpl).2 ns st h hj

theorem renderRoot_agJ (hE : NoDefinedOnAttr E) {go0 gon : Go} (hgo : GoAgree n go0 gon) (tpl st)
    (hj : CtxNoDef st.ctx) : AgJ X CtxNoDef (renderRoot E0 go0 tpl st) (renderRoot En gon tpl st) := by
  unfold renderRoot
  simp only [wf_tpl?]
  cases ht : E.tpl? tpl with
  | none => exact agj_error _
  | some nodes =>
    have hn := noDef_tpl hE ht
    have hj' : CtxNoDef { st.ctx with blockDefs := registerBlocks tpl nodes st.ctx.blockDefs } :=
      jd_blockDefs _ hj (blocksOk_register tpl nodes _ hn hj.1)
    dsimp only
    cases hl : lastExtends nodes with
    | none => exact renderNodes_agJ E n hgo tpl nodes _ hn hj'
    | some e =>
      exact (renderNode_agJ E n hgo tpl).1 (.extends e) _
        (by simpa [Node.noDefAttr] using noDef_lastExtends nodes e hn hl) hj'

theorem bindParams_agJ (dn : List Bytes) (de : List Expr) (hde : Expr.noDefAttrs de = true) :
    ∀ ps as st acc, CtxNoDef st.ctx →
      AgJ X CtxNoDef (bindParams E0 dn de ps as st acc) (bindParams En dn de ps as st acc)
  | [], _, st, acc, hj => by simp only [bindParams]; exact agj_pure hj
  | p :: ps, a :: as, st, acc, hj => by
    simp only [bindParams]; exact bindParams_agJ dn de hde ps as st _ hj
  | p :: ps, [], st, acc, hj => by
    have ih := fun st acc => bindParams_agJ dn de hde ps [] st acc
    simp only [bindParams]
    cases hl : lookupDefault p dn de with
    | none => exact ih _ _ hj
    | some e =>
      have he := noDef_lookupDefault p dn de e hde hl
      exact agj_bind (evalExpr_agJ E n e st he hj) (fun v st1 hj1 => ih _ _ hj1)

theorem callMacro_agJ (hE : NoDefinedOnAttr E) {go0 gon : Go} (hgo : GoAgree n go0 gon) (tpl name args st)
    (hj : CtxNoDef st.ctx) :
    AgJ X CtxNoDef (callMacro E0 go0 tpl name args st) (callMacro En gon tpl name args st) := by
  unfold callMacro
  simp only [wf_tpl?, wf_F]
  cases ht : E.tpl? tpl with
  | none => exact agj_error _
  | some nodes =>
    have hn := noDef_tpl hE ht
    dsimp only
    cases hm : findMacro nodes name with
    | none => exact agj_error _
    | some r =>
      obtain ⟨params, dn, de, body⟩ := r
      obtain ⟨hde, hbody⟩ := noDef_findMacro hn hm
      dsimp only
      refine agj_ite (fun _ => agj_error _) (fun _ => ?_)
      refine agj_bind (bindParams_agJ E n dn de hde params args st [] hj) (fun vars st1 hj1 => ?_)
      refine agj_bind (hgo _ _ hbody (jd_plain _ _ _ _ _)) (fun o st2 _ => ?_)
      exact agj_pure hj

/-- **the simulation**: for every fuel, the run with the fault injected at spy invocation `n` either
    fails with the cause `n` or is the fault-free run -/
theorem run_agJ (hE : NoDefinedOnAttr E) : ∀ fuel, GoAgree n (run E0 fuel) (run En fuel)
  | 0 => by intro tr st _ _; simp only [run]; exact agj_error _
  | f + 1 => by
    intro tr st htr hj
    have ih := run_agJ hE f
    cases tr with
    | root tpl => simp only [run]; exact renderRoot_agJ E n hE ih tpl st hj
    | body tpl nodes => simp only [run]; exact renderNodes_agJ E n ih tpl nodes st htr hj
    | macroCall tpl name args => simp only [run]; exact callMacro_agJ E n hE ih tpl name args st hj

end prims

/-! ## The invariant of the faulty run -/

/-- a successful faulty run has not counted past `n`, and the counter is the number of spy events -/
def SpyInv (n : Nat) (o : Obs) : Prop := o.2 ≤ n ∧ spyCount o.1 = o.2

def SpyRel (n : Nat) (o o' : Obs) : Prop := SpyInv n o → SpyInv n o'

theorem spyRel_pre (n : Nat) : PreO (SpyRel n) := ⟨fun _ h => h, fun h1 h2 h => h2 (h1 h)⟩

theorem spyInv_nodeOk (E : Env) (n : Nat) : NodeOk (E.withFail (some n)) (fun _ => True) (SpyRel n) where
  pre := spyRel_pre n
  setVar := by intros; trivial
  delVar := by intros; trivial
  level := by intros; trivial
  chain := by intros; trivial
  macros := by intros; trivial
  blockDefs := by intros; trivial
  extends_ := by intros; trivial
  includeClone := by intros; trivial
  includeFresh := by intros; trivial
  import_ := by intros; trivial
  from_ := by intros; trivial
  macroCall := by intros; trivial
  expr := by
    refine relOk_of_prims ⟨fun _ => ⟨rfl, fun _ => (spyRel_pre n).refl _⟩,
      fun h1 h2 => ⟨h2.1.trans h1.1, fun _ => (spyRel_pre n).trans (h1.2 trivial) (h2.2 trivial)⟩⟩ ?_ ?_
    · intro k name st
      refine ⟨rfl, fun _ h => ?_⟩
      simpa [St.emit, SpyInv, spyCount] using h
    · intro k name st st' hs
      have hne : st.spyCalls ≠ n := by
        intro e
        unfold invokeSpy at hs
        simp [Env.withFail, e] at hs
      rw [invokeSpy_ok hs]
      refine ⟨rfl, fun _ h => ?_⟩
      obtain ⟨h1, h2⟩ := h
      simp only [SpyInv, St.emit, spyCount] at h1 h2 ⊢
      refine ⟨by omega, ?_⟩
      simp [h2]

/-! ## The property -/

/-- the full-strength statement: if the fault-free render shows more than `n` spy invocations, the
    render with the `n`-th invocation failing returns an error carrying cause `n` (and no output) -/
def C17_propagates_full : Prop :=
  ∀ (E : Env) (name : Bytes) (vars : List (Bytes × Val)) (n : Nat) (out : Bytes) (trace : List Event),
    renderTop (E.withFail none) name vars = .ok (out, trace) → n < spyCount trace →
    ∃ cls causes msg, renderTop (E.withFail (some n)) name vars = .error (.error cls causes msg) ∧ n ∈ causes

/-- **C17_propagates_partial**: the full-strength statement for every environment whose templates do
    not contain `<expr>.attr is defined` (the one swallow site, see `C17_counterexample_isdefined`).
    The error is exactly the callback's: class render, causes `[n]`. -/
theorem C17_propagates_partial (E : Env) (hE : NoDefinedOnAttr E) (name : Bytes) (vars : List (Bytes × Val))
    (n : Nat) (out : Bytes) (trace : List Event)
    (h0 : renderTop (E.withFail none) name vars = .ok (out, trace)) (hn : n < spyCount trace) :
    renderTop (E.withFail (some n)) name vars = .error (spyErr n) := by
  unfold renderTop at h0 ⊢
  simp only [wf_tpl?] at h0 ⊢
  cases ht : E.tpl? name with
  | none => rw [ht] at h0; cases h0
  | some nodes =>
    rw [ht] at h0
    dsimp only at h0 ⊢
    obtain ⟨⟨o, st⟩, h1, h2⟩ := rt_bind_ok h0
    have h3 : o = out ∧ st.trace.reverse = trace := by
      simp only [pure, Except.pure, Except.ok.injEq, Prod.mk.injEq] at h2; exact h2
    obtain ⟨rfl, rfl⟩ := h3
    have hj : CtxNoDef ({ ctx := { vars := vars } } : St).ctx := ⟨blocksOk_nil, chainOk_nil⟩
    have hag := (run_agJ E n hE defaultFuel (.root name) { ctx := { vars := vars } } trivial hj).1
    by_cases hne : run (E.withFail (some n)) defaultFuel (.root name) { ctx := { vars := vars } } = .error (spyErr n)
    · rw [hne]; rfl
    · exfalso
      have heq := hag hne
      rw [h1] at heq
      have hinv := run_post (spyInv_nodeOk E n) defaultFuel (.root name) { ctx := { vars := vars } } trivial o st heq.symm
      have := hinv.2 ⟨Nat.zero_le _, rfl⟩
      obtain ⟨h4, h5⟩ := this
      simp only at h4 h5
      have : spyCount st.trace.reverse = spyCount st.trace := by
        simp [spyCount, List.filter_reverse]
      omega

/-- the same in the vocabulary of the property: a non-nil error through which cause `n` is found -/
theorem C17_propagates_partial_causes (E : Env) (hE : NoDefinedOnAttr E) (name : Bytes) (vars : List (Bytes × Val))
    (n : Nat) (out : Bytes) (trace : List Event)
    (h0 : renderTop (E.withFail none) name vars = .ok (out, trace)) (hn : n < spyCount trace) :
    ∃ cls causes msg, renderTop (E.withFail (some n)) name vars = .error (.error cls causes msg) ∧ n ∈ causes :=
  ⟨.render, [n], "callback failed", C17_propagates_partial E hE name vars n out trace h0 hn, List.mem_singleton.mpr rfl⟩

/-- for an environment given with `failAt = none` -/
theorem C17_propagates_partial' (E : Env) (hf : E.failAt = none) (hE : NoDefinedOnAttr E) (name : Bytes)
    (vars : List (Bytes × Val)) (n : Nat) (out : Bytes) (trace : List Event)
    (h0 : renderTop E name vars = .ok (out, trace)) (hn : n < spyCount trace) :
    renderTop { E with failAt := some n } name vars = .error (spyErr n) := by
  have : E.withFail none = E := by cases E; simp only [Env.withFail] at *; simp [hf]
  exact C17_propagates_partial E hE name vars n out trace (this ▸ h0) hn

/-! ## The swallow site: `<expr>.attr is defined` -/

namespace C17ex

/-- `{{ lib.spy().y is defined }}` — `lib` is undefined, so the method call falls back to the function
    `spy`, a user callback -/
def isDefinedTpl : List Node :=
  [.print (.test (.attr (.mcall (.var (b "lib")) (b "spy") []) (b "y")) (b "defined") [])]

def isDefinedEnv : Env := { tpls := [(b "main", isDefinedTpl)], spyFunctions := [b "spy"] }

/-- the same environment built from template SOURCE through the model's scanner and parser -/
def envOfSource (src : String) (spyFns : List String) : Option Env :=
  match parseTemplate (b src) with
  | .ok nodes => some { tpls := [(b "main", nodes)], spyFunctions := spyFns.map b }
  | .error _ => none

end C17ex

/-- **C17_counterexample_isdefined**: the fault-free render invokes the callback once (one spy event);
    with that invocation failing the render still SUCCEEDS, printing `false` — the failure of `spy()` is
    replaced by "not defined" with a nil error.  The model mirrors `EvaluateExpression` for a `defined`
    test on a `GetAttrNode` in the Go code (DESIGN §1.2, row C17 marked `?`). -/
theorem C17_counterexample_isdefined :
    summary (renderTop (C17ex.isDefinedEnv.withFail none) (b "main") []) =
      some (b "true", [(.function, b "spy", false, true)]) ∧
    summary (renderTop (C17ex.isDefinedEnv.withFail (some 0)) (b "main") []) = some (b "false", []) := by
  constructor <;> decide +kernel

/-- the counterexample from template source (scanner and parser of the model included) -/
theorem C17_counterexample_isdefined_source :
    (match C17ex.envOfSource "{{ lib.spy().y is defined }}" ["spy"] with
     | some E =>
       decide (summary (renderTop (E.withFail none) (b "main") []) = some (b "true", [(.function, b "spy", false, true)])) &&
       decide (summary (renderTop (E.withFail (some 0)) (b "main") []) = some (b "false", []))
     | none => false) = true := by
  decide +kernel

/-- hence the full-strength statement is false for the model (and, by the validated correspondence, for
    the Go code as it is): the exclusion of `C17_propagates_partial` is necessary -/
theorem C17_propagates_full_is_false : ¬ C17_propagates_full := by
  intro h
  have hc := C17_counterexample_isdefined
  obtain ⟨h0, hn⟩ := hc
  cases r0 : renderTop (C17ex.isDefinedEnv.withFail none) (b "main") [] with
  | error e => rw [r0] at h0; simp [summary] at h0
  | ok p =>
    obtain ⟨out, trace⟩ := p
    rw [r0] at h0
    simp only [summary, Option.some.injEq, Prod.mk.injEq] at h0
    have hcount : 0 < spyCount trace := by
      cases trace with
      | nil => simp at h0
      | cons e r =>
        simp only [List.map_cons, List.cons.injEq, Event.key, Prod.mk.injEq] at h0
        simp [spyCount, h0.2.1.2.2.2]
    obtain ⟨cls, causes, msg, he, _⟩ := h C17ex.isDefinedEnv (b "main") [] 0 out trace r0 hcount
    rw [he] at hn
    simp [summary] at hn

/-- the counterexample is excluded by the decidable predicate, and only by that sub-expression -/
example : ¬ NoDefinedOnAttr C17ex.isDefinedEnv := by decide +kernel

/-! ## Non-vacuity of `C17_propagates_partial` -/

namespace C17ex

/-- spy callbacks in a loop, a filter chain, a test, an included template, a macro of an imported
    library and a parent block: six fault positions -/
def tpls : List (Bytes × List Node) :=
  [(b "main", [.extends (.str (b "base")),
               .block (b "c") [.print (.call (b "parent") []),
                               .forN none (b "i") (.array [.int 1, .int 2]) [.print (.filter (.var (b "i")) (b "sf") [])] [],
                               .include (.str (b "inc")) [] [] false false false,
                               .importN (.str (b "lib")) (b "m"),
                               .print (.mcall (.var (b "m")) (b "shout") [.str (b "x")])]]),
   (b "base", [.text (b "["), .block (b "c") [.print (.call (b "sfn") [])], .text (b "]")]),
   (b "inc", [.ifN (.test (.var (b "q")) (b "st") []) [.text (b "T")] [.text (b "F")]]),
   (b "lib", [.macro (b "shout") [b "v"] [] [] [.print (.filter (.var (b "v")) (b "sf") [])]])]

def env : Env := { tpls := tpls, spyFilters := [b "sf"], spyFunctions := [b "sfn"], spyTests := [b "st"] }

end C17ex

/-- the hypotheses of `C17_propagates_partial` are satisfiable with a non-trivial program: the
    exclusion holds and the fault-free render makes five spy invocations … -/
example : NoDefinedOnAttr C17ex.env := by decide +kernel
example : (summary (renderTop (C17ex.env.withFail none) (b "main") [])).map (fun p => (p.1, p.2.length)) =
    some (b "[sfn12Tx]", 6) := by decide +kernel
/-- … and each single fault position gives the error with its own cause (the theorem's conclusion,
    re-checked by evaluation on this instance) -/
example : (List.range 5).map (fun n => errClass (renderTop (C17ex.env.withFail (some n)) (b "main") [])) =
    [some .render, some .render, some .render, some .render, some .render] := by decide +kernel

/-! ## Unresolved names -/

/-- an unknown filter name is an error of `ApplyFilter` (a render error, or a security violation if the
    sandbox refuses the name first) -/
theorem C17_unresolved_filter (E : Env) (st : St) (name : Bytes) (v : Val) (args : List Val)
    (hs : E.spyFilters.contains name = false) (hb : builtinFilter name v args = none) :
    ∃ cls msg, applyFilter E name v args st = .error (.error cls [] msg) ∧ (cls = .render ∨ cls = .security) := by
  unfold applyFilter
  split
  · exact ⟨.security, _, rfl, Or.inr rfl⟩
  · simp only [hs, hb, Bool.false_eq_true, if_false]
    exact ⟨.render, _, rfl, Or.inl rfl⟩

/-- an unknown function name (no user function, no built-in, no macro of the context) is an error of `CallFunction` -/
theorem C17_unresolved_function (E : Env) (st : St) (name : Bytes) (args : List Val)
    (hp : (name == b "parent") = false) (hs : E.spyFunctions.contains name = false)
    (hb : builtinFunction name args = none) (hm : st.ctx.getMacro name = none) :
    ∃ cls msg, callFunction E name args st = .error (.error cls [] msg) ∧ (cls = .render ∨ cls = .security) := by
  unfold callFunction
  split
  · exact ⟨.security, _, rfl, Or.inr rfl⟩
  · simp only [hp, hs, hb, hm, Bool.false_eq_true, if_false]
    exact ⟨.render, _, rfl, Or.inl rfl⟩

/-- an unknown test name never evaluates: once the operand and the arguments are evaluated the result
    is the render error "test not found" -/
theorem C17_unresolved_test (E : Env) (apply : Bool) (e : Expr) (name : Bytes) (args : List Expr) (st : St)
    (hd : (name == b "defined") = false) (hs : E.spyTests.contains name = false)
    (hb : ∀ v av, builtinTest name v av = none) :
    (∀ r, evalX E apply (.test e name args) st ≠ .ok r) ∧
    (∀ v c st1 av st2, evalX E true e st = .ok ((v, c), st1) → evalArgs E args st1 = .ok (av, st2) →
      evalX E apply (.test e name args) st = .error (.error .render [] "test not found")) := by
  have hunf : evalX E apply (.test e name args) st =
      (evalX E true e st >>= fun x => evalArgs E args x.2 >>= fun y =>
        (rerr "test not found" : R ((Val × List (Bytes × List Val)) × St))) := by
    conv => lhs; unfold evalX
    simp only [hd, hs, hb, Bool.false_eq_true, if_false]
  refine ⟨?_, ?_⟩
  · intro r h
    rw [hunf] at h
    obtain ⟨x, _, h⟩ := rt_bind_ok h
    obtain ⟨y, _, h⟩ := rt_bind_ok h
    cases h
  · intro v c st1 av st2 h1 h2
    rw [hunf, bind_of_ok h1]
    dsimp only
    rw [bind_of_ok h2]
    rfl

/-- `from … import`: a macro name that the library does not define is the render error
    "macro not found in template" -/
theorem C17_unresolved_macro (lib : List (Bytes × Bytes × Bytes)) :
    ∀ (names : List (Bytes × Bytes)) (acc : List (Bytes × Bytes × Bytes)),
      (∃ p ∈ names, getKV p.1 lib = none) →
      bindFrom lib names acc = .error (.error .render [] "macro not found in template")
  | [], _, h => by obtain ⟨p, hp, _⟩ := h; cases hp
  | (m, t) :: r, acc, h => by
    simp only [bindFrom]
    cases hm : getKV m lib with
    | none => rfl
    | some ref =>
      dsimp only
      apply C17_unresolved_macro lib r
      obtain ⟨p, hp, hn⟩ := h
      rcases List.mem_cons.mp hp with rfl | hp'
      · rw [hm] at hn; cases hn
      · exact ⟨p, hp', hn⟩

/-- … and the `from` node passes that error up: it cannot succeed when a requested name is missing
    from the macros the library template defined -/
theorem C17_unresolved_macro_node (E : Env) (go : Go) (tpl : Bytes) (te : Expr) (names : List (Bytes × Bytes))
    (st : St) (r : Out) (h : renderNode E go tpl (.fromN te names) st = .ok r) :
    ∃ (libSt : St), ∀ p ∈ names, (getKV p.1 libSt.ctx.macros).isSome = true := by
  simp only [renderNode] at h
  obtain ⟨⟨⟨nv, _⟩, st1⟩, _, h⟩ := rt_bind_ok h
  obtain ⟨name, _, h⟩ := rt_bind_ok h
  split at h
  · cases h
  · obtain ⟨⟨_, st2⟩, _, h⟩ := rt_bind_ok h
    obtain ⟨ms, hms, _⟩ := rt_bind_ok h
    refine ⟨st2, fun p hp => ?_⟩
    cases hg : getKV p.1 st2.ctx.macros with
    | some _ => rfl
    | none =>
      dsimp only at hms
      rw [C17_unresolved_macro st2.ctx.macros names _ ⟨p, hp, hg⟩] at hms
      cases hms

/-- a template name that the loader does not know: `Engine.Render`, `extends`, `import`, `from` and an
    `include` without `ignore missing` all return the not-found error (stated for literal names) -/
theorem C17_unresolved_template (E : Env) (go : Go) (tpl name : Bytes) (st : St)
    (hrel : isRelative name = false) (hm : E.tpl? name = none) :
    (∀ vars, renderTop E name vars = .error (.error .notFound [] "template not found")) ∧
    renderNode E go tpl (.extends (.str name)) st = .error (.error .notFound [] "template not found") ∧
    (∀ alias, renderNode E go tpl (.importN (.str name) alias) st = .error (.error .notFound [] "template not found")) ∧
    (∀ names, renderNode E go tpl (.fromN (.str name) names) st = .error (.error .notFound [] "template not found")) ∧
    (∀ ns es only sb, renderNode E go tpl (.include (.str name) ns es false only sb) st =
        .error (.error .notFound [] "template not found")) := by
  refine ⟨?_, ?_, ?_, ?_, ?_⟩
  · intro vars; simp [renderTop, hm]
  · simp [renderNode, evalX, toStr, resolveTpl_of_not_relative hrel, hm, bind, Except.bind, pure, Except.pure]
  · intro alias; simp [renderNode, evalX, toStr, resolveTpl_of_not_relative hrel, hm, bind, Except.bind, pure, Except.pure]
  · intro names; simp [renderNode, evalX, toStr, resolveTpl_of_not_relative hrel, hm, bind, Except.bind, pure, Except.pure]
  · intro ns es only sb; simp [renderNode, evalX, toStr, resolveTpl_of_not_relative hrel, hm, bind, Except.bind, pure, Except.pure]

/-- **C17_unresolved**: the five kinds of unresolvable names, each an error -/
theorem C17_unresolved :
    (∀ (E : Env) st name v args, E.spyFilters.contains name = false → builtinFilter name v args = none →
      ∃ cls msg, applyFilter E name v args st = .error (.error cls [] msg) ∧ (cls = .render ∨ cls = .security)) ∧
    (∀ (E : Env) (st : St) name args, (name == b "parent") = false → E.spyFunctions.contains name = false →
      builtinFunction name args = none → st.ctx.getMacro name = none →
      ∃ cls msg, callFunction E name args st = .error (.error cls [] msg) ∧ (cls = .render ∨ cls = .security)) ∧
    (∀ (E : Env) apply e name args st, (name == b "defined") = false → E.spyTests.contains name = false →
      (∀ v av, builtinTest name v av = none) → ∀ r, evalX E apply (.test e name args) st ≠ .ok r) ∧
    (∀ lib names acc, (∃ p ∈ names, getKV p.1 lib = none) →
      bindFrom lib names acc = .error (.error .render [] "macro not found in template")) ∧
    (∀ (E : Env) name vars, E.tpl? name = none →
      renderTop E name vars = .error (.error .notFound [] "template not found")) :=
  ⟨C17_unresolved_filter, C17_unresolved_function,
   fun E apply e name args st hd hs hb => (C17_unresolved_test E apply e name args st hd hs hb).1,
   C17_unresolved_macro, fun E name vars hm => by simp [renderTop, hm]⟩

/-! ## The documented tolerances -/

/-- **C17_tolerances**: an undefined variable and an undefined attribute evaluate to null, null
    prints as the empty string, and `ignore missing` on a missing template renders nothing —
    all with a nil error.  (A name no scope binds and no macro carries reads as the engine global of
    that name when there is one — `Engine.AddGlobal` — and as null otherwise: never an error.) -/
theorem C17_tolerances (E : Env) (go : Go) (tpl : Bytes) (st : St) :
    (∀ apply n, st.ctx.hasVar n = false → st.ctx.getMacro n = none → st.ctx.getVar n = .null →
      evalX E apply (.var n) st = .ok (((getKV n E.globals).getD .null, []), st)) ∧
    (∀ name o, (∀ kvs, o = .map kvs → mapGet name kvs = none) → getAttr o name = .null) ∧
    printVal go .null st = .ok ([], st) ∧
    (∀ name ns es only sb, isRelative name = false → E.tpl? name = none →
      renderNode E go tpl (.include (.str name) ns es true only sb) st = .ok ([], st)) := by
  refine ⟨?_, ?_, ?_, ?_⟩
  · intro apply n hv hm hn
    cases hg : getKV n E.globals <;> simp [evalX, hv, hm, hn, hg, pure, Except.pure]
  · intro name o ho
    cases o <;> simp [getAttr]
    rename_i kvs
    simp [ho kvs rfl]
  · simp [printVal, toStr, bind, Except.bind, pure, Except.pure]
  · intro name ns es only sb hrel hm
    simp [renderNode, evalX, toStr, resolveTpl_of_not_relative hrel, hm, bind, Except.bind, pure, Except.pure]

/-- a variable that is in no scope of the context reads as null (what `getVar` returns for it) -/
theorem C17_undefined_variable_is_null (c : Ctx) (n : Bytes) (h1 : getKV n c.vars = none)
    (h2 : ∀ s ∈ c.parents, getKV n s.vars = none) : c.getVar n = .null := by
  unfold Ctx.getVar
  rw [h1]
  dsimp only
  generalize c.parents = ps at h2
  induction ps with
  | nil => rfl
  | cons s r ih =>
    simp only [scopesVar, h2 s List.mem_cons_self]
    exact ih (fun s' hs' => h2 s' (List.mem_cons_of_mem _ hs'))

/-- … and these are the only successes after a failed template lookup: with the template missing, a
    node that transfers to it succeeds only if it is an `include … ignore missing` -/
theorem C17_tolerances_only (E : Env) (go : Go) (tpl name : Bytes) (st : St) (r : Out)
    (hrel : isRelative name = false) (hm : E.tpl? name = none) :
    (renderNode E go tpl (.extends (.str name)) st ≠ .ok r) ∧
    (∀ alias, renderNode E go tpl (.importN (.str name) alias) st ≠ .ok r) ∧
    (∀ names, renderNode E go tpl (.fromN (.str name) names) st ≠ .ok r) ∧
    (∀ ns es im only sb, renderNode E go tpl (.include (.str name) ns es im only sb) st = .ok r → im = true) := by
  obtain ⟨_, h2, h3, h4, h5⟩ := C17_unresolved_template E go tpl name st hrel hm
  refine ⟨(by rw [h2]; intro h; cases h), (fun a => (by rw [h3 a]; intro h; cases h)),
    (fun n => (by rw [h4 n]; intro h; cases h)), ?_⟩
  intro ns es im only sb h
  cases im with
  | true => rfl
  | false => rw [h5 ns es only sb] at h; cases h

/-! ## Tie to the Go source: where the render path lets go of an error

  `TwigGen.ErrFlow.sites` (emitter `ErrFlow` of /verif/extract) lists every statement of the render
  path at which an `error` produced by a call is tested, discarded or re-wrapped; `dropSites` are those
  that do not hand it on.  The model has exactly one swallow site (`is defined` on an attribute) and
  the tolerances of `C17_tolerances`; every other drop site of the Go code must be on this list, with
  the reason why it is not a failure of a filter / function / test / loader / nested template. -/

/-- (function, kind, ordinal, callee, classification) — one line of justification per site -/
def expectedDropSites : List (String × String × Nat × String × String) := [
  -- GetVariable fails only for a "name" containing `?` and `:` (a legacy inline-ternary fallback the
  -- parser never produces); an undefined variable is (nil, nil): the documented tolerance
  ("ForNode.Render", "blank", 0, "RenderContext.GetVariable", "dropped"),
  -- relative-path fallback: a not-found for the path resolved against the current template is retried
  -- with the name as written, and the retry's error is returned (the model's `resolveTpl`: resolved name, then the written one)
  ("ExtendsNode.Render", "check", 1, "Engine.Load", "overwritten"),
  ("IncludeNode.Render", "check", 1, "Engine.Load", "overwritten"),
  -- renderVariableString: interpolation of a literal `{{ … }}` left inside macro-body TEXT (not a print
  -- node), reachable only for templates assembled from nodes.  GetVariable as above; the ApplyFilter
  -- fall-back to the unfiltered value WAS a swallow (it also dropped an escape: C07) and is gone since
  -- /repo 9bc43de — the filter's error is returned now.
  ("renderVariableString", "blank", 0, "RenderContext.GetVariable", "dropped"),
  ("renderVariableString", "blank", 1, "RenderContext.GetVariable", "dropped"),
  ("renderVariableString", "blank", 2, "RenderContext.GetVariable", "dropped"),
  ("ImportNode.Render", "check", 1, "Engine.Load", "overwritten"),
  ("FromImportNode.Render", "check", 1, "Engine.Load", "overwritten"),
  -- inside GetVariable's own ternary fallback / the nil-returning convenience wrapper: as above
  ("RenderContext.GetVariable", "blank", 0, "RenderContext.GetVariable", "dropped"),
  ("RenderContext.GetVariableOrNil", "blank", 0, "RenderContext.GetVariable", "dropped"),
  -- `x is not defined` on a variable: an undefined variable is the tolerance itself
  ("RenderContext.EvaluateExpression", "cmp", 0, "RenderContext.GetVariable", "converted"),
  -- `<expr>.attr is defined`: a failing <expr> (resp. attribute name) reads as "not defined".
  -- THE RECORDED FINDING: `C17_counterexample_isdefined`, excluded by `NoDefinedOnAttr`
  ("RenderContext.EvaluateExpression", "check", 17, "RenderContext.EvaluateExpression", "replaced"),
  ("RenderContext.EvaluateExpression", "check", 18, "RenderContext.EvaluateExpression", "replaced"),
  -- same test: "attribute lookup failed" is what "not defined" means (undefined attribute tolerance)
  ("RenderContext.EvaluateExpression", "cmp", 1, "RenderContext.getAttribute", "converted"),
  -- `x is defined` on a variable: tolerance
  ("RenderContext.EvaluateExpression", "cmp", 2, "RenderContext.GetVariable", "converted"),
  -- reflection: a field behind a nil embedded pointer is not accessible → try method / report attribute error
  ("RenderContext.getAttribute", "eqnil", 0, "reflect.Value.FieldByIndexErr", "swallowed"),
  -- legacy `not defined` operator path on a variable: tolerance
  ("RenderContext.evaluateBinaryOp", "cmp", 0, "RenderContext.GetVariable", "converted"),
  -- `matches` with an invalid pattern: a non-nil error IS returned; the flattened cause is the standard
  -- library's regexp syntax error, not a callback / loader / template failure (regexps are outside the model)
  ("RenderContext.evaluateBinaryOp", "check", 1, "regexp.Compile", "flattened"),
  -- string → number conversion attempt: "not a number" is a value, not a failure
  ("RenderContext.toNumber", "eqnil", 0, "strconv.ParseFloat", "swallowed"),
  -- cache freshness: an unreadable modification time forces a reload (whose own error is returned) /
  -- leaves the timestamp zero; no render result depends on it
  ("Engine.Load", "check", 0, "TimestampAwareLoader.GetModifiedTime", "swallowed"),
  ("Engine.Load", "blank", 0, "TimestampAwareLoader.GetModifiedTime", "dropped")
]

/-- **C17_facts_current**: the drop sites of the current Go source are exactly the justified ones.  On the
    pinned tree three more appear: `SpacelessNode.Render` (ApplyFilter error overwritten by the fall-back
    write), `Engine.Load` (loader errors collected but returned only as text) and the direct filter call
    in `ForNode.Render`. -/
theorem C17_facts_current : TwigGen.ErrFlow.dropSites = expectedDropSites := by decide

end Twig
