/-
  C02 — Concurrent use of one configured engine is safe and equals serial use.

  STRENGTH: PARTIAL, and it cannot be more in a model.  Not exhibited by any theorem below: the Go
  memory model, the runtime's race detector and its `fatal error: concurrent map writes`, the per-P
  caches of `sync.Pool`, races inside user callbacks (filters, loaders, writers), and everything in
  the node trees and render contexts (those are per-call or immutable-after-publication objects that
  the emitter `Shared` does not list; the `-race` stress run of the harness is the evidence there).

  What IS proved, for every number of calls and every schedule (inductions over the schedule):
    * `C02_lockset`            the lockset discipline read off the Go source by the extractor excludes
                               every race of the model (shared locations: common mutex in a conflicting
                               mode; pooled tokenizer: no access after it went back to the pool);
    * `C02_serial_equiv_static` with static loaders and no call asking for a name that another call
                               registers at the same time, every call returns what it returns alone,
                               whatever the interleaving (hence what it returns in every serial order);
    * `C02_relative_names`     a relative name resolves against the calling render's own template name;
    * counterexamples for the pinned tree (`currentTemplate`, early tokenizer release, cross-talk of
      relative names) and — for the CURRENT code — the lost update of `Engine.Load` racing with
      `RegisterString` of the same name (`C02_counterexample_load_register_lost_update`), which is why
      the full-strength statement `C02_linearizable` is refuted and the serial-equivalence theorem
      carries an exclusion.
-/
import TwigModel.Conc
import TwigProofs.Lemmas.Conc
import TwigGen.Shared
namespace Twig
open Twig.Conc

/-- the facts regenerated from the Go sources on every run -/
def C02.current : Facts :=
  Facts.ofRaw TwigGen.Shared.accesses TwigGen.Shared.locations TwigGen.Shared.entryReach
    TwigGen.Shared.parseReachableFrom TwigGen.Shared.parseStep TwigGen.Shared.parseGets
    TwigGen.Shared.parseTokensFromPooled TwigGen.Shared.parseReleases TwigGen.Shared.renderEngineWrites
    TwigGen.Shared.relativeNameSources TwigGen.Shared.loadRechecksUnderWriteLock
    TwigGen.Shared.unrecognised

/-! ## 1. Lockset race freedom -/

/-- For facts satisfying `Shared.ok` (every concurrent access of a shared location is lock-protected
    with writes under the write lock, or the location is written by configuration only, or it lives in
    the pooled tokenizer which is released after its last use): no interleaving of any number of API
    calls, with any behaviour of the pool, contains a race.
    PARTIAL: "race" is the lockset / ownership definition of `TwigModel.Conc.conflict`, evaluated on
    action lists generated from the facts; it is not the Go memory model. -/
theorem C02_lockset (F : Facts) (hF : Shared.ok F = true) :
    ∀ (calls : List Entry) (sched : Schedule), ¬ hasRace (exec F calls sched) := by
  intro calls sched h
  unfold hasRace at h
  rw [no_race_of_ok F hF calls sched] at h
  cases h

/-- non-vacuity: a reduced copy of the fixed tree's facts (an RWMutex-guarded cache written by Load and
    RegisterString, a mutex-guarded loader memo, a per-call tokenizer field) satisfies the hypothesis,
    and an interleaving of three calls really produces conflicting-looking accesses that are
    protected -/
example : Shared.ok fixedFactsSmall = true := by decide
example : (exec fixedFactsSmall [.load, .registerString, .render]
    [(0, false), (1, false), (0, false), (0, false), (1, false), (2, false), (0, false), (1, false),
     (0, false), (0, false), (1, false), (2, false), (2, false)]).trace.map (fun e => (e.tid, e.loc, e.write, e.locks))
    = [(2, .shared 1, false, [(1, false)]), (1, .shared 1, true, [(1, true)]), (0, .shared 1, false, [(1, false)])] := by
  decide

/-- The obligation on the generated facts, re-checked by the kernel on every run. -/
theorem C02_facts_current : Shared.ok C02.current = true := by decide +kernel

/-- …hence the code as it is now has no race in the model. -/
theorem C02_lockset_current :
    ∀ (calls : List Entry) (sched : Schedule), ¬ hasRace (exec C02.current calls sched) :=
  C02_lockset C02.current C02_facts_current

/-- Pinned tree (regression): its facts fail the obligation … -/
theorem C02_counterexample_pinned_facts : Shared.ok pinnedFacts = false := by decide

/-- … two concurrent `Render`s race on `Engine.currentTemplate` (each writes it without a lock): -/
theorem C02_counterexample_pinned_race :
    ∃ sched, hasRace (exec pinnedFacts [.render, .render] sched) :=
  ⟨[(0, false), (0, false), (1, false), (1, false)], by decide⟩

/-- … and two concurrent parses race on the pooled tokenizer's buffer: the first call puts the
    tokenizer back before it has read the tokens, the pool hands the same object to the second call,
    which overwrites the buffer the first call then reads. -/
theorem C02_counterexample_pinned_tokenizer :
    ∃ sched, hasRace (exec pinnedFacts [.parseTemplate, .parseTemplate] sched) :=
  ⟨[(0, false), (0, false), (0, false), (1, true), (1, false), (0, false)], by decide⟩

/-! ## 2. Equality with serial use (cache bookkeeping) -/
open Twig.Conc.Sem

/-- the configuration of the semantic model that the facts select -/
def C02.cfgOf (F : Facts) (loader : Nat → Option Nat) (cacheOn : Bool) (join : Nat → Nat → Nat) : Cfg :=
  { loader := loader, cacheOn := cacheOn, join := join,
    relFromEngine := F.relFromEngine, recheck := F.loadRechecks }

theorem C02.cfgOf_rel (F : Facts) (hF : Shared.ok F = true) (loader : Nat → Option Nat) (cacheOn : Bool)
    (join : Nat → Nat → Nat) : (C02.cfgOf F loader cacheOn join).relFromEngine = false := by
  unfold Shared.ok at hF
  simp only [Bool.and_eq_true, Bool.not_eq_true'] at hF
  exact hF.1.1.2

/-- FULL-STRENGTH statement (kept visible; REFUTED below for the current code): every concurrent
    execution in which all calls have returned is explained by running the calls one after another in
    some order that respects real time (a call that returned before another was invoked comes first). -/
def C02_linearizable (cfg : Cfg) : Prop :=
  ∀ (c0 : Cache) (calls : List Call) (sched : List Nat),
    (∀ i, i < calls.length → (result (Sem.exec cfg c0 calls sched) i).isSome) →
    linearizableB cfg c0 calls sched = true

/-- `…_partial` form of the above, the workload the property describes: loaders static, any mix of
    Render / RenderTo / Load / ParseTemplate (with includes, inheritance, imports, relative names:
    any resumption `Prog`) and registrations, where no call asks for a name that one of the concurrent
    calls registers (decidable exclusion `noConcurrentRegistrationOfRequestedName`).  Then in EVERY
    interleaving, every call that has returned has returned exactly what it returns when it runs alone
    on the configured engine — for cache on and off, with or without the re-check in `Load`.
    Proof: invariant over the schedule (the cache only gains entries that `Load` would have produced
    anyway); unbounded in the number of calls, their length, and the schedule. -/
theorem C02_serial_equiv_static (F : Facts) (hF : Shared.ok F = true)
    (loader : Nat → Option Nat) (cacheOn : Bool) (join : Nat → Nat → Nat) (c0 : Cache)
    (calls : List Call)
    (hro : noConcurrentRegistrationOfRequestedName (C02.cfgOf F loader cacheOn join) c0 calls = true) :
    ∀ (sched : List Nat) (i : Nat) (c : Call) (out : Nat), calls[i]? = some c →
      result (Sem.exec (C02.cfgOf F loader cacheOn join) c0 calls sched) i = some out →
      out = resultAlone (C02.cfgOf F loader cacheOn join) c0 c := by
  intro sched i c out hc hres
  exact result_eq_alone _ (C02.cfgOf_rel F hF loader cacheOn join) c0 calls hro sched i c hc out hres

/-- Corollary: schedule independence — two interleavings (in particular a concurrent one and any
    serial one) cannot make the same call return different values. -/
theorem C02_schedule_independent (F : Facts) (hF : Shared.ok F = true)
    (loader : Nat → Option Nat) (cacheOn : Bool) (join : Nat → Nat → Nat) (c0 : Cache)
    (calls : List Call)
    (hro : noConcurrentRegistrationOfRequestedName (C02.cfgOf F loader cacheOn join) c0 calls = true)
    (s1 s2 : List Nat) (i : Nat) (o1 o2 : Nat) (hi : i < calls.length)
    (h1 : result (Sem.exec (C02.cfgOf F loader cacheOn join) c0 calls s1) i = some o1)
    (h2 : result (Sem.exec (C02.cfgOf F loader cacheOn join) c0 calls s2) i = some o2) : o1 = o2 := by
  have hc : calls[i]? = some calls[i] := List.getElem?_eq_getElem hi
  rw [C02_serial_equiv_static F hF loader cacheOn join c0 calls hro s1 i _ o1 hc h1,
      C02_serial_equiv_static F hF loader cacheOn join c0 calls hro s2 i _ o2 hc h2]

/-- Serial use, explicitly: run the calls one after another (each atomically, `runCall`) in ANY order,
    any number of times — every call returns what it returns alone.  Together with
    `C02_serial_equiv_static`: concurrent result = result alone = result in every serial order. -/
theorem C02_serial_orders_static (F : Facts) (hF : Shared.ok F = true)
    (loader : Nat → Option Nat) (cacheOn : Bool) (join : Nat → Nat → Nat) (c0 : Cache)
    (calls : List Call)
    (hro : noConcurrentRegistrationOfRequestedName (C02.cfgOf F loader cacheOn join) c0 calls = true)
    (order : List Nat) :
    ∀ i out, (i, out) ∈ serialRun (C02.cfgOf F loader cacheOn join) calls c0 order →
      ∃ c, calls[i]? = some c ∧ out = resultAlone (C02.cfgOf F loader cacheOn join) c0 c := by
  have _ := hF
  intro i out h
  exact serialRun_ok _ c0 calls hro order c0 (fun _ _ => rfl) (i, out) h

/-- concurrent = serial: whatever the interleaving and whatever the serial order, a call that returned
    in both returned the same value -/
theorem C02_concurrent_equals_serial (F : Facts) (hF : Shared.ok F = true)
    (loader : Nat → Option Nat) (cacheOn : Bool) (join : Nat → Nat → Nat) (c0 : Cache)
    (calls : List Call)
    (hro : noConcurrentRegistrationOfRequestedName (C02.cfgOf F loader cacheOn join) c0 calls = true)
    (sched order : List Nat) (i out out' : Nat)
    (h1 : result (Sem.exec (C02.cfgOf F loader cacheOn join) c0 calls sched) i = some out)
    (h2 : (i, out') ∈ serialRun (C02.cfgOf F loader cacheOn join) calls c0 order) : out = out' := by
  obtain ⟨c, hc, ho⟩ := C02_serial_orders_static F hF loader cacheOn join c0 calls hro order i out' h2
  rw [ho]
  exact C02_serial_equiv_static F hF loader cacheOn join c0 calls hro sched i c out hc h1

/-- … and the engine is left in a state that answers every later `Load` of a name that was not
    registered concurrently exactly as the configured engine did. -/
theorem C02_final_state_static (F : Facts) (hF : Shared.ok F = true)
    (loader : Nat → Option Nat) (cacheOn : Bool) (join : Nat → Nat → Nat) (c0 : Cache)
    (calls : List Call)
    (hro : noConcurrentRegistrationOfRequestedName (C02.cfgOf F loader cacheOn join) c0 calls = true)
    (sched : List Nat) (n : Nat) (hn : (regNames calls).contains n = false) :
    (C02.cfgOf F loader cacheOn join).resolve (Sem.exec (C02.cfgOf F loader cacheOn join) c0 calls sched).cache n
      = (C02.cfgOf F loader cacheOn join).resolve c0 n :=
  final_cache _ (C02.cfgOf_rel F hF loader cacheOn join) c0 calls hro sched n hn

/-- non-vacuity of the hypothesis: two loads and a render of the same uncached name, a render with a
    relative include, and a registration of a distinct fresh name; an interleaving in which all five
    return, the loads having both missed and both filled the cache -/
def C02.demoCfg : Cfg := { loader := fun n => if n < 50 then some (100 + n) else none, cacheOn := true,
                           join := fun b r => b + r }
def C02.demoCalls : List Call := [loadCall 7, loadCall 7, renderCall 7, renderRelCall 10 1, .register 60 5]
example : noConcurrentRegistrationOfRequestedName C02.demoCfg (fun _ => none) C02.demoCalls = true := by decide
example : results (Sem.exec C02.demoCfg (fun _ => none) C02.demoCalls
    [0, 1, 0, 1, 2, 3, 4, 0, 1, 0, 1, 2, 2, 3, 3, 3, 3, 3, 3, 3]) 5
    = [some 107, some 107, some 107, some 111, some 0] := by decide

/-! ## 3. Relative names -/

/-- Every resolution of a relative name made by call `i`, in any interleaving, is the join of the
    reference with call `i`'s own starting template name: it does not depend on what other goroutines
    render.  (Trivial in the fixed model — the base travels in the render context — and false in the
    pinned one, see the counterexample.)
    KNOWN RESIDUAL, out of scope here (DESIGN §1.2, recorded finding): the base is the template the
    render *call* started from, not the template that contains the tag, so `./x` inside an included
    template of another directory resolves against the wrong directory — deterministically, in serial
    use as well. -/
theorem C02_relative_names (F : Facts) (hF : Shared.ok F = true)
    (loader : Nat → Option Nat) (cacheOn : Bool) (join : Nat → Nat → Nat) (c0 : Cache)
    (calls : List Call) (sched : List Nat) :
    ∀ i r n, (i, r, n) ∈ (Sem.exec (C02.cfgOf F loader cacheOn join) c0 calls sched).rel →
      n = join (baseOf calls i) r := by
  intro i r n h
  have := (rel_foldl_inv _ (C02.cfgOf_rel F hF loader cacheOn join) (baseOf calls) sched _
    (rel_init_inv _ c0 calls)).log (i, r, n) h
  simpa [C02.cfgOf] using this

/-- Pinned tree: call 0 renders a template in directory 10 that includes `./1`; call 1 starts a render
    in directory 20 in between; call 0's include resolves to 21 — against call 1's template. -/
theorem C02_counterexample_pinned_relative :
    ∃ sched, (0, 1, 21) ∈ (Sem.exec { loader := fun n => some n, cacheOn := true, join := fun b r => b + r,
                                      relFromEngine := true }
                (fun _ => none) [renderRelCall 10 1, renderRelCall 20 1] sched).rel :=
  ⟨[0, 1, 0, 0, 0], by decide⟩

/-! ## 4. The check-then-act in `Engine.Load` (current code) -/

/- The extractor reports how `Engine.Load` touches the cache (`TwigGen.Shared.loadCacheAccesses`: the
   check under the read lock and the fill under the write lock are two critical sections) and whether
   the fill looks at the cache again (`loadRechecksUnderWriteLock`, today `false`).  That flag selects
   the variant of `Sem.step` (`Cfg.recheck`); the two theorems `C02_lost_update_of_facts` and
   `C02_registration_kept_of_facts` below cover both values, so this file keeps building when the
   defect is repaired in Go; the harness replay (`load-register-lost-update`) tells which world we are in. -/

def C02.luCfg : Cfg := { loader := fun n => if n = 7 then some 100 else none, cacheOn := true,
                         join := fun b r => b + r }
/-- goroutine A: `Load("t")`; goroutine B: `RegisterString("t", v200)`; later: `Render("t")`.
    The loader has version 100 of "t". -/
def C02.luCalls : List Call := [loadCall 7, .register 7 200, renderCall 7]
/-- A misses and loads (2 steps) — B registers and returns — A stores its copy and returns — only
    then the third call is invoked. -/
def C02.luSched : List Nat := [0, 0, 1, 0, 0, 2, 2, 2]

/-- GENUINE DEFECT of the current code (reproduced on the real engine by the harness, key
    `load-register-lost-update`): the registration is lost.  The third call, invoked after
    `RegisterString` has returned, renders the loader's version 100; in every serial order that
    respects real time it would render 200.  No serial order consistent with real time explains the
    three results (`linearizableB … = false`); the only orders that produce these values run the
    Render before the RegisterString that had already returned when the Render was invoked. -/
theorem C02_counterexample_load_register_lost_update :
    results (Sem.exec C02.luCfg (fun _ => none) C02.luCalls C02.luSched) 3 = [some 100, some 0, some 100] ∧
    precedes C02.luSched 0 2 = true ∧ precedes C02.luSched 1 2 = true ∧
    linearizableB C02.luCfg (fun _ => none) C02.luCalls C02.luSched = false ∧
    -- the serial orders that respect real time: the late render sees the registration
    serialRun C02.luCfg C02.luCalls (fun _ => none) [0, 1, 2] = [(0, 100), (1, 0), (2, 200)] ∧
    serialRun C02.luCfg C02.luCalls (fun _ => none) [1, 0, 2] = [(1, 0), (0, 200), (2, 200)] := by
  decide

/-- the full-strength statement does not hold for the code as it is -/
theorem C02_linearizable_refuted : ¬ C02_linearizable C02.luCfg := by
  intro h
  have hf := h (fun _ => none) C02.luCalls C02.luSched (by decide)
  rw [C02_counterexample_load_register_lost_update.2.2.2.1] at hf
  cases hf

/-- the witness violates exactly the exclusion of `C02_serial_equiv_static` -/
example : noConcurrentRegistrationOfRequestedName C02.luCfg (fun _ => none) C02.luCalls = false := by decide

/-- … tied to the facts: while the extractor reports no re-check under the write lock (the case for the
    code as it is), the engine model selected by the facts is not linearizable. -/
theorem C02_lost_update_of_facts (F : Facts) (hF : Shared.ok F = true) (h : F.loadRechecks = false) :
    ¬ C02_linearizable (C02.cfgOf F C02.luCfg.loader true C02.luCfg.join) := by
  have hrel := C02.cfgOf_rel F hF C02.luCfg.loader true C02.luCfg.join
  unfold C02.cfgOf at hrel ⊢
  simp only at hrel
  rw [h, hrel]
  exact C02_linearizable_refuted

/-- The minimal repair (not applied; described in the report): `Load` looks at the cache again under
    the write lock and keeps a registration it finds there.  With it, in every interleaving, a name
    that holds a registration keeps holding one — a cache fill never replaces it. -/
theorem C02_fix_registration_never_overwritten_by_load (cfg : Cfg) (hre : cfg.recheck = true)
    (c0 : Cache) (calls : List Call) (s1 s2 : List Nat) (n : Nat)
    (h : isReg (Sem.exec cfg c0 calls s1).cache n = true) :
    isReg (Sem.exec cfg c0 calls (s1 ++ s2)).cache n = true := by
  unfold Sem.exec at *
  rw [List.foldl_append]
  exact foldl_keeps_registration cfg hre s2 _ n h

/-- … tied to the facts: once the extractor reports the re-check, the model selected by the facts has
    that property. -/
theorem C02_registration_kept_of_facts (F : Facts) (h : F.loadRechecks = true)
    (loader : Nat → Option Nat) (cacheOn : Bool) (join : Nat → Nat → Nat)
    (c0 : Cache) (calls : List Call) (s1 s2 : List Nat) (n : Nat)
    (hreg : isReg (Sem.exec (C02.cfgOf F loader cacheOn join) c0 calls s1).cache n = true) :
    isReg (Sem.exec (C02.cfgOf F loader cacheOn join) c0 calls (s1 ++ s2)).cache n = true :=
  C02_fix_registration_never_overwritten_by_load _ (by simpa [C02.cfgOf] using h) c0 calls s1 s2 n hreg

/-- and on the witness schedule the repaired `Load` returns the registration and the late render sees it -/
example : results (Sem.exec { C02.luCfg with recheck := true } (fun _ => none) C02.luCalls C02.luSched) 3
    = [some 200, some 0, some 200] := by decide

end Twig
