/-
  C13 — Whitespace-control dashes trim adjacent whitespace and change nothing else (token level).

  `tokenizeCanon s` is the token stream the parser sees (`normalise ∘ applyWs ∘ scanHtml`, which by C14
  equals `tokenize s` for every size) with empty TEXT tokens dropped: a chunk consisting only of
  whitespace next to a dash becomes an empty TEXT token, which the parser turns into a text node printing
  nothing, whereas the hand-trimmed template has no token there at all.
-/
import TwigProofs.Lemmas.Scan
namespace Twig

/-- The trimming helpers remove exactly the maximal run of {space, tab, CR, LF} at their end:
    the input is (run ++ result) resp. (result ++ run) with the run all-whitespace and the result not
    starting/ending with whitespace, and this split is unique. -/
theorem C13_only_ws (s : Bytes) :
    -- leading
    trimLeadWs s = s.dropWhile isWs ∧
    s = s.takeWhile isWs ++ trimLeadWs s ∧
    (∀ c ∈ s.takeWhile isWs, isWs c = true) ∧
    (∀ c, (trimLeadWs s).head? = some c → isWs c = false) ∧
    (∀ w t, s = w ++ t → (∀ c ∈ w, isWs c = true) → (∀ c, t.head? = some c → isWs c = false) →
      trimLeadWs s = t) ∧
    -- trailing
    s = trimTrailWs s ++ (s.reverse.takeWhile isWs).reverse ∧
    (∀ c ∈ (s.reverse.takeWhile isWs).reverse, isWs c = true) ∧
    (∀ c, (trimTrailWs s).getLast? = some c → isWs c = false) ∧
    (∀ t w, s = t ++ w → (∀ c ∈ w, isWs c = true) → (∀ c, t.getLast? = some c → isWs c = false) →
      trimTrailWs s = t) := by
  refine ⟨rfl, trimLeadWs_decomp s, takeWhile_all isWs s, trimLeadWs_head s, ?_, trimTrailWs_decomp s, ?_,
    trimTrailWs_last s, ?_⟩
  · intro w t hs hw ht; subst hs; exact trimLeadWs_unique w t hw ht
  · intro c hc; exact takeWhile_all isWs s.reverse c (by simpa using hc)
  · intro t w hs hw ht; subst hs; exact trimTrailWs_unique t w hw ht

/-- and the whitespace set is exactly {space, tab, LF, CR} -/
theorem C13_ws_set (c : UInt8) : isWs c = true ↔ c = 32 ∨ c = 9 ∨ c = 10 ∨ c = 13 := by
  simp [isWs, or_assoc]

/-- Specification of `ApplyWhitespaceControl`:
    * the stream keeps its length and all its kinds;
    * position `i` holds `wsTok lead trail tsᵢ`: a TEXT token is left-trimmed iff the token immediately
      before it is a trimming closer (kinds 14, 16), right-trimmed iff the token immediately after it is a
      trimming opener (13, 15); every non-TEXT token is unchanged;
    * the pass is idempotent. -/
theorem C13_applyWs_spec (ts : List Token) :
    (applyWs ts).length = ts.length ∧
    (applyWs ts).map (·.kind) = ts.map (·.kind) ∧
    (∀ i, (applyWs ts)[i]? = (ts[i]?).map (wsTok (prevTrim false ts i) (nextTrimAt ts i))) ∧
    (∀ (i : Nat) (t : Token), ts[i]? = some t → t.kind ≠ TEXT → (applyWs ts)[i]? = some t) ∧
    applyWs (applyWs ts) = applyWs ts := by
  refine ⟨applyWsAux_length false ts, applyWsAux_kinds false ts, applyWsAux_getElem? false ts, ?_,
    applyWsAux_idem false ts⟩
  intro i t hi hk
  rw [applyWs, applyWsAux_getElem?, hi]
  simp [wsTok, hk]

/-- what the spec's neighbour tests mean -/
theorem C13_applyWs_spec_neighbours (ts : List Token) (i : Nat) :
    (prevTrim false ts (i + 1) = true ↔ ∃ t, ts[i]? = some t ∧ (t.kind = VAR_END_TRIM ∨ t.kind = BLOCK_END_TRIM)) ∧
    prevTrim false ts 0 = false ∧
    (nextTrimAt ts i = true ↔ ∃ t, ts[i + 1]? = some t ∧ (t.kind = VAR_START_TRIM ∨ t.kind = BLOCK_START_TRIM)) := by
  refine ⟨?_, rfl, ?_⟩
  · cases h : ts[i]? <;> simp [prevTrim, h, isEndTrim]
  · cases h : ts[i + 1]? <;> simp [nextTrimAt, h, isStartTrim]

/-- how the tags of the step theorems below are spelled (`t.text` for the four dashed forms) -/
theorem C13_spelling (body : Bytes) :
    Tag.text ⟨.var, true, body, false⟩ = b "{{-" ++ body ++ b "}}" ∧
    Tag.text ⟨.var, false, body, true⟩ = b "{{" ++ body ++ b "-}}" ∧
    Tag.text ⟨.block, true, body, false⟩ = b "{%-" ++ body ++ b "%}" ∧
    Tag.text ⟨.block, false, body, true⟩ = b "{%" ++ body ++ b "-%}" := by
  have h1 : b "{{-" = [123, 123, 45] := by decide +kernel
  have h2 : b "}}" = [125, 125] := by decide +kernel
  have h3 : b "{{" = [123, 123] := by decide +kernel
  have h4 : b "-}}" = [45, 125, 125] := by decide +kernel
  have h5 : b "{%-" = [123, 37, 45] := by decide +kernel
  have h6 : b "%}" = [37, 125] := by decide +kernel
  have h7 : b "{%" = [123, 37] := by decide +kernel
  have h8 : b "-%}" = [45, 37, 125] := by decide +kernel
  rw [h1, h2, h3, h4, h5, h6, h7, h8]
  simp [Tag.text_eq, openCh, closerOf, dashIf, Tag.opener, Opener.dashed]

/-- `{{-` / `{%-` : a dash on the opener = deleting the whitespace run before the tag by hand.
    `rest` is arbitrary (errors included). The hypothesis is on the *trimmed* chunk. -/
theorem C13_commutes_step_open {l : Bytes} (hl : Lit (trimTrailWs l)) {t : Tag}
    (hk : t.kind ≠ .comment) (ho : t.otrim = true)
    (ht : WfTag t) (ht' : WfTag { t with otrim := false }) (rest : Bytes) :
    tokenizeCanon (l ++ t.text ++ rest) =
      tokenizeCanon (trimTrailWs l ++ (Tag.text { t with otrim := false }) ++ rest) := by
  unfold tokenizeCanon
  rw [scanHtml_eq_scanOpt, scanHtml_eq_scanOpt, scanOpt_step (lit_of_trimTrail hl) ht,
    scanOpt_step hl ht', mapOk_mapOk, mapOk_mapOk]
  congr 1
  funext ts
  simp only [Function.comp, applyWs]
  rw [canon_step, canon_step]
  have h1 : t.opensTrim = true := by simp [Tag.opensTrim, ho, hk]
  have h2 : (Tag.opensTrim { t with otrim := false }) = false := by simp [Tag.opensTrim]
  rw [h1, h2]
  rfl

/-- `-}}` / `-%}` : a dash on the closer = deleting the whitespace run after the tag by hand.
    `m` is the whole chunk after the tag: what follows it is a tag or the end (`TagOrEnd s`). -/
theorem C13_commutes_step_close {l : Bytes} (hl : Lit l) {t : Tag}
    (hk : t.kind ≠ .comment) (hc : t.ctrim = true)
    (ht : WfTag t) (ht' : WfTag { t with ctrim := false })
    {m : Bytes} (hm : Lit (trimLeadWs m)) {s : Bytes} (hs : TagOrEnd s) :
    tokenizeCanon (l ++ t.text ++ (m ++ s)) =
      tokenizeCanon (l ++ (Tag.text { t with ctrim := false }) ++ (trimLeadWs m ++ s)) := by
  unfold tokenizeCanon
  rw [scanHtml_eq_scanOpt, scanHtml_eq_scanOpt, scanOpt_step hl ht, scanOpt_step hl ht',
    scanOpt_pad_front (lit_of_trimLead hm) hs, scanOpt_pad_front hm hs]
  cases hr : scanOpt s with
  | error e => rfl
  | ok ts =>
    obtain ⟨t0, r, rfl, ht0⟩ := scanOpt_head_nontext hs hr
    simp only [mapOk_ok, applyWs, Except.ok.injEq]
    rw [canon_step, canon_step]
    have h1 : t.closesTrim = true := by simp [Tag.closesTrim, hc, hk]
    have h2 : (Tag.closesTrim { t with ctrim := false }) = false := by simp [Tag.closesTrim]
    rw [h1, h2]
    have h3 : (Tag.plain { t with ctrim := false }) = t.plain := rfl
    have h4 : (Tag.opensTrim { t with ctrim := false }) = t.opensTrim := rfl
    rw [h3, h4]
    congr 1
    -- the chunk after the tag
    by_cases hm0 : m = []
    · subst hm0
      have : trimLeadWs [] = [] := rfl
      rw [this, textTok_nil, List.nil_append, applyWsAux_other _ _ _ ht0, applyWsAux_other _ _ _ ht0]
    · rw [textTok_ne hm0, List.singleton_append, applyWsAux_text true (tk TEXT m) (t0 :: r) rfl, canon_cons,
        canon_text]
      have hv : (tk TEXT m).val = m := rfl
      rw [hv]
      by_cases hm1 : trimLeadWs m = []
      · rw [hm1, textTok_nil, List.nil_append]
        have : ltIf true m = [] := hm1
        rw [this]
        have : rtIf (nextTrim (t0 :: r)) [] = [] := by cases nextTrim (t0 :: r) <;> rfl
        rw [this]; rfl
      · rw [textTok_ne hm1, List.singleton_append,
          applyWsAux_text false (tk TEXT (trimLeadWs m)) (t0 :: r) rfl, canon_cons, canon_text]
        rfl

/-- Whole templates, every subset of dashes at once. `ps`/`last` spell the dashed template,
    `undashPairs false ps`/`undashLast false ps last` the same template with every dash removed and the
    adjacent whitespace runs deleted by hand. Hypotheses: tags well-formed with and without their dashes, and
    the *trimmed* chunks literal. Then both templates tokenize successfully, and the parser sees the same
    stream (up to empty TEXT tokens) — namely the plain stream `expected` of the hand-trimmed template. -/
theorem C13_commutes (ps : List (Bytes × Tag)) (last : Bytes)
    (hwf : ∀ lt ∈ ps, WfTag lt.2 ∧ WfTag lt.2.plain)
    (hlit : ∀ lt ∈ undashPairs false ps, Lit lt.1)
    (hlast : NoOpener (undashLast false ps last)) :
    ∃ X Y, tokenize (spell ps last) = .ok X ∧
      tokenize (spell (undashPairs false ps) (undashLast false ps last)) = .ok Y ∧
      dropEmptyText X = dropEmptyText Y ∧
      dropEmptyText Y = expected (undashPairs false ps) (undashLast false ps last) := by
  have h1 : scanOpt (spell ps last) = .ok (expected ps last) :=
    scanOpt_chunks ps last
      (fun lt hm => ⟨lit_of_undash false ps hlit lt hm, (hwf lt hm).1⟩)
      (noOpener_of_ltIf hlast)
  have h2 : scanOpt (spell (undashPairs false ps) (undashLast false ps last)) =
      .ok (expected (undashPairs false ps) (undashLast false ps last)) :=
    scanOpt_chunks _ _
      (fun lt hm => ⟨hlit lt hm, wf_of_undash false ps (fun x hx => (hwf x hx).2) lt hm⟩) hlast
  refine ⟨normalise (applyWs (expected ps last)),
    normalise (applyWs (expected (undashPairs false ps) (undashLast false ps last))), ?_, ?_, ?_, ?_⟩
  · simp only [tokenize, scan_eq_scanOpt, h1]
  · simp only [tokenize, scan_eq_scanOpt, h2]
  · have e1 := canon_expected false ps last
    have e2 := canon_expected_plain false ps (undashLast false ps last)
    unfold canon at e1 e2
    unfold applyWs
    unfold applyWs at e2
    rw [e1, e2]
  · exact canon_expected_plain false ps (undashLast false ps last)

/-- The hypothesis on the trimmed chunk is needed: hand-trimming `"{ " ++ "{{- x }}"` yields `"{{{ x }}"`, whose
    leftmost opener starts one byte earlier. -/
theorem C13_counterexample_untrimmed_lit :
    Lit (b "{ ") ∧ ¬ Lit (trimTrailWs (b "{ ")) ∧
    tokenizeCanon (b "{ " ++ b "{{- x }}") ≠ tokenizeCanon (trimTrailWs (b "{ ") ++ b "{{ x }}") := by
  refine ⟨by decide +kernel, by decide +kernel, ?_⟩
  have h1 : tokenizeCanon (b "{ " ++ b "{{- x }}") =
      .ok [tk TEXT (b "{"), tk VAR_START, tk NAME (b "x"), tk VAR_END, tk EOF] := by with_unfolding_all rfl
  have h2 : tokenizeCanon (trimTrailWs (b "{ ") ++ b "{{ x }}") =
      .ok [tk VAR_START, tk PUNCT (b "{"), tk NAME (b "x"), tk VAR_END, tk EOF] := by with_unfolding_all rfl
  rw [h1, h2]
  intro h
  injection h with h
  injection h with h _
  injection h with h _
  exact absurd h (by decide)

-- non-vacuity
example : Lit (trimTrailWs (b "<li> \t\n")) ∧ WfTag ⟨.var, true, b " x ", false⟩ ∧
    WfTag { (⟨.var, true, b " x ", false⟩ : Tag) with otrim := false } := by decide +kernel
example : Lit (trimLeadWs (b "\r\n  </li>")) ∧ WfTag ⟨.block, false, b " endif ", true⟩ ∧
    WfTag { (⟨.block, false, b " endif ", true⟩ : Tag) with ctrim := false } ∧ TagOrEnd (b "{{ y }}") := by
  decide +kernel
/-- a two-tag template with three of its four delimiters dashed satisfies the hypotheses of `C13_commutes` -/
def c13Sample : List (Bytes × Tag) :=
  [(b "<ul> \n", ⟨.block, true, b " for i in xs ", true⟩), (b "\n  <li>", ⟨.var, false, b " i ", true⟩)]
example : (∀ lt ∈ c13Sample, WfTag lt.2 ∧ WfTag lt.2.plain) ∧
    (∀ lt ∈ undashPairs false c13Sample, Lit lt.1) ∧ NoOpener (undashLast false c13Sample (b "  </li>\n")) := by
  decide +kernel
example : spell (undashPairs false c13Sample) (undashLast false c13Sample (b "  </li>\n")) =
    b "<ul>{% for i in xs %}<li>{{ i }}</li>\n" := by decide +kernel

end Twig
