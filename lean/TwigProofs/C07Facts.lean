/-
  TwigProofs.C07Facts — ties the FACT tables of `TwigModel/Escape.lean` (and the builtin names of
  `TwigModel/Builtins.lean`) to what the extractor regenerates from the Go source on every run
  (`TwigGen/Registry.lean`, emitter `/verif/extract/registry.go`).

  * `C07_facts_source`            `escTable` = the `strings.NewReplacer` arguments of the toolchain's
                                  `html.EscapeString`, the registered escape method is
                                  `escapeHTML(toString(value))` with `escapeHTML = html.EscapeString`;
                                  `fbTable` = the `switch c` of the fallback in `ApplyFilter`, whose
                                  default copies the rune; `escapeNames` = the names registered for the
                                  escape method, `fallbackNames` = the case strings of the fallback clause;
  * `C07_facts_alias_source`      `e` and `escape` are registered to the same method;
  * `C07_facts_builtins_registered` every filter / function / test name the render model implements
                                  (`builtinFilter`, `builtinFunction`, `builtinTest`) is registered by
                                  `CoreExtension`, for the Go method the model transcribes, and the model's
                                  aliases (`e`/`escape`, `count`/`length`, `none`/`null`) are aliases in Go.
-/
import TwigProofs.C07
import TwigGen.Registry
import TwigModel.Builtins
namespace Twig.Escape
open TwigGen

def ofRawTable (t : List (Nat × List Nat)) : List (UInt8 × Bytes) :=
  t.map fun r => (UInt8.ofNat r.1, r.2.map UInt8.ofNat)

/-- every code and byte of a generated table fits in a byte (so `ofRawTable` loses nothing) -/
def rawTableInRange (t : List (Nat × List Nat)) : Bool :=
  t.all fun r => r.1 < 128 && r.2.all (· < 256)

def sameNames (a b : List String) : Bool := a.all b.contains && b.all a.contains

/-- names registered for the method `m` in a registration table -/
def namesOf (tbl : List (String × String)) (m : String) : List String :=
  (tbl.filter (·.2 == m)).map (·.1)

/-- **tie** for the escape tables and names -/
theorem C07_facts_source :
    Registry.unknown = []
    -- the registered filter
    ∧ Registry.escapeMethodShape = true ∧ Registry.escapeHelperIsStdlib = true
    ∧ rawTableInRange Registry.stdlibEscTable = true
    ∧ escTable = ofRawTable Registry.stdlibEscTable
    ∧ sameNames escapeNames (namesOf Registry.filters Registry.escapeMethod) = true
    -- the fallback of ApplyFilter
    ∧ rawTableInRange Registry.fallbackTable = true
    ∧ fbTable = ofRawTable Registry.fallbackTable
    ∧ Registry.fallbackDefaultWritesRune = true ∧ Registry.fallbackRangesToString = true
    ∧ Registry.fallbackReturnsBuilder = true
    ∧ fallbackNames = Registry.fallbackEscapeNames
    -- the fallback switch has no other clause
    ∧ Registry.fallbackCases.map (·.1) = Registry.fallbackEscapeNames := by decide

/-- `e` and `escape` are registered, to the same method -/
theorem C07_facts_alias_source :
    Registry.filters.lookup "e" = some Registry.escapeMethod
    ∧ Registry.filters.lookup "escape" = some Registry.escapeMethod := by decide

/-- the theorems of C07 about `escReg` are about the table of the source -/
theorem C07_escReg_source (s : Bytes) :
    escReg s = s.flatMap (escByteWith (ofRawTable Registry.stdlibEscTable)) := by
  rw [← C07_facts_source.2.2.2.2.1]
  exact (C07_others_unchanged s).1

/-! ### the builtin names of the render model (`TwigModel/Builtins.lean`)

  Collected by hand from the `if name == b "…"` chains of `builtinFilter`, `builtinFunction` and
  `builtinTest`, each with the Go method the branch transcribes. -/

def modelFilters : List (String × String) :=
  [("upper", "filterUpper"), ("lower", "filterLower"), ("escape", "filterEscape"), ("e", "filterEscape"),
   ("raw", "filterRaw"), ("trim", "filterTrim"), ("length", "filterLength"), ("count", "filterLength"),
   ("default", "filterDefault"), ("join", "filterJoin"), ("first", "filterFirst"), ("last", "filterLast"),
   ("reverse", "filterReverse"), ("keys", "filterKeys"), ("merge", "filterMerge"), ("abs", "filterAbs"),
   ("slice", "filterSlice"), ("sort", "filterSort"), ("split", "filterSplit"),
   ("capitalize", "filterCapitalize"), ("title", "filterTitle")]

def modelFunctions : List (String × String) := [("range", "functionRange"), ("length", "functionLength")]

def modelTests : List (String × String) :=
  [("defined", "testDefined"), ("empty", "testEmpty"), ("null", "testNull"), ("none", "testNull"),
   ("even", "testEven"), ("odd", "testOdd"), ("iterable", "testIterable")]

/-- every name of `m` is registered in `tbl` for the expected method, and `tbl` has no duplicate name -/
def registeredIn (m tbl : List (String × String)) : Bool :=
  m.all (fun r => tbl.lookup r.1 == some r.2) && (tbl.map (·.1)).Nodup

instance (l : List String) : Decidable l.Nodup := inferInstanceAs (Decidable (List.Pairwise _ _))

theorem C07_facts_builtins_registered :
    registeredIn modelFilters Registry.filters = true
    ∧ registeredIn modelFunctions Registry.functions = true
    ∧ registeredIn modelTests Registry.tests = true := by decide

/-- the hand-collected lists are what the model dispatches on: the model answers `some` exactly for them
    (checked on the names of the Go tables, which include every name of the lists) -/
theorem C07_facts_builtins_lists_match_model :
    (Registry.filters.map (·.1)).all (fun n =>
        (Twig.builtinFilter n.toUTF8.toList .null []).isSome == (modelFilters.map (·.1)).contains n) = true
    ∧ (Registry.functions.map (·.1)).all (fun n =>
        (Twig.builtinFunction n.toUTF8.toList []).isSome == (modelFunctions.map (·.1)).contains n) = true
    ∧ (Registry.tests.map (·.1)).all (fun n =>
        (Twig.builtinTest n.toUTF8.toList .null []).isSome == (modelTests.map (·.1)).contains n) = true := by
  decide +kernel

/-! ### regression / non-vacuity -/

/-- a fallback table that drops the apostrophe is caught -/
example : fbTable ≠ ofRawTable (Registry.fallbackTable.filter (·.1 != 39)) := by decide

/-- registering `e` for another method is caught -/
example : sameNames escapeNames
    (namesOf (Registry.filters.map fun r => if r.1 == "e" then (r.1, "filterRaw") else r) Registry.escapeMethod) = false := by
  decide

end Twig.Escape
