/-
  TwigProofs.C12 — macros bind arguments positionally with defaults, alike however they are reached.

  SPEC (definitions in `Lemmas/RenderInherit.lean`):
    * `paramVals`: the values the parameters receive, in parameter order — the argument when there is
      one, else the default expression evaluated in the CALLER's state, else null;
    * `bindAll`: binding names to values one after the other, a later binding of a name wins;
    * `macroCtx`: the context of the macro body — own variables = the bound parameters, macros = the
      top-level macros of the defining template, parent scopes = the caller's scope chain.
  The theorems show `bindParams` / `callMacro` / the five call routes of `evalX` compute exactly that.
-/
import TwigProofs.Lemmas.RenderInherit
namespace Twig
open Inh

/-! ## binding -/

/-- `C12_binding`: `bindParams` gives the parameters, in order, the values
    `args.take |params| ++ defaults of the remaining parameters` (extra arguments are dropped; the
    defaults are evaluated left to right starting in the caller's state, and evaluating them does not
    change the caller's context), bound one after the other. -/
theorem C12_binding (E : Env) (dn : List Bytes) (de : List Expr) (ps : List Bytes) (as : List Val) (st : St)
    {vars st'} (h : bindParams E dn de ps as st [] = .ok (vars, st')) :
    ∃ dv, paramVals E dn de (ps.drop as.length) [] st = .ok (dv, st') ∧
          vars = bindAll (ps.zip (as.take ps.length ++ dv)) [] ∧
          (as.take ps.length ++ dv).length = ps.length ∧
          st'.ctx = st.ctx := by
  rw [bindParams_eq, paramVals_split] at h
  obtain ⟨⟨vals, st1⟩, h1, h⟩ := bind_ok h
  obtain ⟨⟨dv, st2⟩, h2, h1⟩ := bind_ok h1
  cases h1; cases h
  obtain ⟨i1, i2⟩ := paramVals_length E dn de _ _ _ _ _ h2
  refine ⟨dv, h2, rfl, ?_, i2⟩
  simp only [List.length_append, List.length_take, i1, List.length_drop]
  omega

/-- the general pointwise form: parameter number `i` (when its name does not occur again later) is
    bound to value number `i` -/
theorem C12_bind_zip_get (ps : List Bytes) (vals : List Val) (acc : List (Bytes × Val)) (hl : vals.length = ps.length)
    (i : Nat) (p : Bytes) (v : Val) (hp : ps[i]? = some p) (hv : vals[i]? = some v)
    (hlast : p ∉ ps.drop (i + 1)) : getKV p (bindAll (ps.zip vals) acc) = some v := by
  obtain ⟨hi, hp⟩ := List.getElem?_eq_some_iff.1 hp
  obtain ⟨hi', hv⟩ := List.getElem?_eq_some_iff.1 hv
  have hlz : i < (ps.zip vals).length := by simp [List.length_zip, hl]; exact hi
  have hget : (ps.zip vals)[i] = (p, v) := by simp [List.getElem_zip, hp, hv]
  have hkeys : ((ps.zip vals).drop (i + 1)).map (·.1) = ps.drop (i + 1) := by
    have hd : (ps.zip vals).drop (i + 1) = (ps.drop (i + 1)).zip (vals.drop (i + 1)) := by
      simp only [List.zip_eq_zipWith, List.drop_zipWith]
    rw [hd]
    exact List.map_fst_zip (by simp [hl])
  have := bindAll_get_idx (ps.zip vals) acc i hlz (by rw [hget, hkeys]; exact hlast)
  rw [hget] at this
  exact this

/-- parameter `i` ↦ argument `i` when there is one -/
theorem C12_binding_arg (E : Env) (dn : List Bytes) (de : List Expr) (ps : List Bytes) (as : List Val) (st : St)
    {vars st'} (h : bindParams E dn de ps as st [] = .ok (vars, st'))
    (i : Nat) (p : Bytes) (a : Val) (hp : ps[i]? = some p) (ha : as[i]? = some a)
    (hlast : p ∉ ps.drop (i + 1)) : getKV p vars = some a := by
  obtain ⟨dv, _, rfl, hl, _⟩ := C12_binding E dn de ps as st h
  refine C12_bind_zip_get ps _ [] hl i p a hp ?_ hlast
  obtain ⟨hi, _⟩ := List.getElem?_eq_some_iff.1 hp
  obtain ⟨hi', ha'⟩ := List.getElem?_eq_some_iff.1 ha
  rw [List.getElem?_append_left (by simp; omega), List.getElem?_take_of_lt hi]
  exact ha

/-- parameter `i` without argument: its default expression evaluated in (a state carrying) the
    CALLER's context, or null when it has no default -/
theorem C12_binding_default (E : Env) (dn : List Bytes) (de : List Expr) (ps : List Bytes) (as : List Val) (st : St)
    {vars st'} (h : bindParams E dn de ps as st [] = .ok (vars, st'))
    (i : Nat) (p : Bytes) (hp : ps[i]? = some p) (ha : as.length ≤ i)
    (hlast : p ∉ ps.drop (i + 1)) :
    (lookupDefault p dn de = none → getKV p vars = some .null) ∧
    (∀ e, lookupDefault p dn de = some e →
      ∃ sti v st'', sti.ctx = st.ctx ∧ evalExpr E e sti = .ok (v, st'') ∧ getKV p vars = some v) := by
  obtain ⟨dv, hdv, rfl, hl, _⟩ := C12_binding E dn de ps as st h
  obtain ⟨hi, _⟩ := List.getElem?_eq_some_iff.1 hp
  have hp' : (ps.drop as.length)[i - as.length]? = some p := by
    rw [List.getElem?_drop]; rw [show as.length + (i - as.length) = i by omega]; exact hp
  obtain ⟨a1, a2⟩ := paramVals_nil_get E dn de _ st _ _ hdv (i - as.length) p hp'
  have hidx : ∀ v, dv[i - as.length]? = some v → (as.take ps.length ++ dv)[i]? = some v := by
    intro v hv
    rw [List.getElem?_append_right (by simp; omega)]
    simp only [List.length_take]
    rw [show i - min ps.length as.length = i - as.length by omega]
    exact hv
  refine ⟨fun hn => C12_bind_zip_get ps _ [] hl i p .null hp (hidx _ (a1 hn)) hlast, fun e he => ?_⟩
  obtain ⟨sti, v, st'', c1, c2, c3⟩ := a2 e he
  exact ⟨sti, v, st'', c1, c2, C12_bind_zip_get ps _ [] hl i p v hp (hidx _ c3) hlast⟩

/-- exactly the parameter names are bound -/
theorem C12_binding_names (E : Env) (dn : List Bytes) (de : List Expr) (ps : List Bytes) (as : List Val) (st : St)
    {vars st'} (h : bindParams E dn de ps as st [] = .ok (vars, st')) (k : Bytes) :
    (getKV k vars).isSome = true ↔ k ∈ ps := by
  obtain ⟨dv, _, rfl, hl, _⟩ := C12_binding E dn de ps as st h
  rw [bindAll_keys, List.map_fst_zip (by omega)]
  simp [getKV_nil]

/-- extra arguments are ignored -/
theorem C12_binding_extra_ignored (E : Env) (dn : List Bytes) (de : List Expr) (ps : List Bytes)
    (as extra : List Val) (st : St) (hlen : ps.length ≤ as.length) :
    bindParams E dn de ps (as ++ extra) st [] = bindParams E dn de ps as st [] := by
  rw [bindParams_eq, bindParams_eq, paramVals_split, paramVals_split E dn de ps as]
  have h1 : ps.drop (as ++ extra).length = [] := by simp; omega
  have h2 : ps.drop as.length = [] := by simp; omega
  have h3 : (as ++ extra).take ps.length = as.take ps.length := by
    rw [List.take_append_of_le_length hlen]
  rw [h1, h2, h3]

/-- of several parameters with one name the LAST one determines the value -/
theorem C12_binding_last_duplicate_wins (pre post : List (Bytes × Val)) (k : Bytes) (v : Val)
    (h : k ∉ post.map (·.1)) : getKV k (bindAll (pre ++ (k, v) :: post) []) = some v :=
  bindAll_get_last pre post k v [] h

/-- closed form when evaluating the defaults does not change the state (literals, variables, …):
    `args.take |params| ++ (remaining params).map default-or-null`, in the unchanged caller state -/
theorem C12_binding_pure (E : Env) (dn : List Bytes) (de : List Expr) (ps : List Bytes) (as : List Val) (st : St)
    (hpure : ∀ p ∈ ps.drop as.length, ∀ e, lookupDefault p dn de = some e → ∃ v, evalExpr E e st = .ok (v, st)) :
    bindParams E dn de ps as st [] =
      .ok (bindAll (ps.zip (as.take ps.length ++ (ps.drop as.length).map (defaultVal E dn de st))) [], st) := by
  rw [bindParams_eq, paramVals_split, paramVals_nil_pure E dn de st _ hpure]
  rfl

/-! ## shadowing and isolation -/

/-- `C12_shadow_and_isolation`: `callMacro` binds the parameters in the caller's state, runs the body
    in `macroCtx` — whose OWN variables are exactly the bound parameters, so a parameter shadows an
    outer variable of the same name, while every other name reads through to the caller's scope chain —
    and afterwards restores the caller's context exactly: whatever the body assigns is invisible to the caller. -/
theorem C12_shadow_and_isolation (E : Env) (go : Go) (tpl name : Bytes) (args : List Val) (st : St)
    {nodes params dn de body}
    (ht : E.tpl? tpl = some nodes) (hm : findMacro nodes name = some (params, dn, de, body))
    (hb : bodyHasOpener body = false) :
    callMacro E go tpl name args st =
      (bindParams E dn de params args st [] >>= fun r =>
        restoreCtx st.ctx (go (.body tpl body) { r.2 with ctx := macroCtx E tpl nodes st.ctx r.1 })) ∧
    (∀ vars, (macroCtx E tpl nodes st.ctx vars).vars = vars ∧
             (macroCtx E tpl nodes st.ctx vars).parents = st.ctx.asScope :: st.ctx.parents) ∧
    (∀ vars k v, getKV k vars = some v → (macroCtx E tpl nodes st.ctx vars).getVar k = v) ∧
    (∀ vars k, getKV k vars = none → (macroCtx E tpl nodes st.ctx vars).getVar k = st.ctx.getVar k) ∧
    (∀ o st', callMacro E go tpl name args st = .ok (o, st') → st'.ctx = st.ctx) :=
  ⟨callMacro_eq ht hm hb, fun _ => ⟨rfl, rfl⟩, fun _ _ _ h => macroCtx_getVar_param h,
   fun _ _ h => macroCtx_getVar_outer h, fun _ _ h => callMacro_ctx h⟩

/-- isolation needs no hypothesis at all: a successful macro call returns the caller's context unchanged -/
theorem C12_isolation (E : Env) (go : Go) (tpl name : Bytes) (args : List Val) (st : St) {o st'}
    (h : callMacro E go tpl name args st = .ok (o, st')) : st'.ctx = st.ctx :=
  callMacro_ctx h

/-! ## the routes -/

/-- `C12_routes_agree`: in one and the same state `st`, with the arguments evaluating to `av`, the call
    written in any of the five ways evaluates to the SAME closure `Val.callable L m av` (same defining
    template, same macro, same argument values, same resulting state), each under the condition that
    makes its route resolve:
      1. `m(args)`          — `m` resolves to the macro (`{% macro m %}` of this template was rendered, or `from L import m`);
      2. `_self.m(args)`    — the same; and the name `_self` does not evaluate to a module map (it reads
                              a context variable, else an engine global, else a macro value, else null:
                              `evalVar_not_map_of_hasVar` / `evalVar_not_map_of_unbound` discharge this);
      3. `lib.m(args)`      — the variable `lib` holds a module map with `m ↦ macro L m` (`import L as lib`)
                              — a macro or an engine global that is also called `lib` does not matter,
                              the variable shadows both;
      4. `m(args)` after `from L import m`  — as 1;
      5. `a(args)` after `from L import m as a` — `a` resolves to the macro `(L, m)`.

    `plainName`: NO route needs it any more.  Routes 1, 4, 5 go through `.call`, which looks the name
    up among the visible macros before it ever reaches `CallFunction`; route 3 finds the macro in the
    module map; route 2 (`.mcall` on a non-module) now also consults the visible macros before
    `CallFunction`.  So the agreement covers macros called `range`, `length`, `parent` or like a
    registered function on every route (`C12_routes_agree_function_named`).  `plainName` is only still
    needed by `callFunction_macro`, the statement about `CallFunction`'s own macro fallback, which
    really is consulted after `parent`, the registered functions and the built-ins. -/
theorem C12_routes_agree (E : Env) (L m a lib : Bytes) (args : List Expr) (st st1 : St) (av : List Val)
    (kvs : List (Bytes × Val))
    (hargs : evalArgs E args st = .ok (av, st1))
    (hallow_m : denied E st.ctx E.allowedFunctions m = false)
    (hallow_a : denied E st.ctx E.allowedFunctions a = false) :
    (st.ctx.getMacro m = some (L, m) →
        evalX E true (.call m args) st = .ok ((.callable L m av, []), st1)) ∧
    (st.ctx.getMacro m = some (L, m) →
      (∀ kvs, evalX E true (.var (b "_self")) st ≠ .ok ((.map kvs, []), st)) →
        evalX E true (.mcall (.var (b "_self")) m args) st = .ok ((.callable L m av, []), st1)) ∧
    (st.ctx.getVar lib = .map kvs → mapGet m kvs = some (.macro L m) →
        evalX E true (.mcall (.var lib) m args) st = .ok ((.callable L m av, []), st1)) ∧
    (st.ctx.getMacro a = some (L, m) →
        evalX E true (.call a args) st = .ok ((.callable L m av, []), st1)) :=
  ⟨fun h => route_call hallow_m h hargs,
   fun h hs => route_self hallow_m hs hargs h,
   fun hv hm => route_import hallow_m hv hm hargs,
   fun h => route_call hallow_a h hargs⟩

/-- the `_self` condition of route 2 in its two concrete forms: `_self` is bound in the context chain
    to something that is not a map (null included), or it is bound nowhere and no engine global
    called `_self` holds a map -/
theorem C12_self_not_module (E : Env) (st : St) :
    (st.ctx.hasVar (b "_self") = true → (∀ kvs, st.ctx.getVar (b "_self") ≠ .map kvs) →
      ∀ kvs, evalX E true (.var (b "_self")) st ≠ .ok ((.map kvs, []), st)) ∧
    (st.ctx.hasVar (b "_self") = false → (∀ kvs, getKV (b "_self") E.globals ≠ some (.map kvs)) →
      ∀ kvs, evalX E true (.var (b "_self")) st ≠ .ok ((.map kvs, []), st)) :=
  ⟨evalVar_not_map_of_hasVar, evalVar_not_map_of_unbound⟩

/-- `C12_routes_agree_function_named`: routes 1 and 2 side by side, for EVERY macro name `m` — there is
    no side condition on the name, so in particular for a macro named like a function (the built-ins
    `range`, `length`, `parent()`, or a registered function): the visible macro wins over the function
    on BOTH routes, and the function is not called (the resulting state is the one after evaluating
    the arguments: no callback event, no spy invocation). -/
theorem C12_routes_agree_function_named (E : Env) (L m : Bytes) (args : List Expr) (st st1 : St) (av : List Val)
    (hargs : evalArgs E args st = .ok (av, st1))
    (hallow : denied E st.ctx E.allowedFunctions m = false)
    (hmac : st.ctx.getMacro m = some (L, m))
    (hself : ∀ kvs, evalX E true (.var (b "_self")) st ≠ .ok ((.map kvs, []), st)) :
    evalX E true (.call m args) st = .ok ((.callable L m av, []), st1) ∧
    evalX E true (.mcall (.var (b "_self")) m args) st = .ok ((.callable L m av, []), st1) :=
  ⟨route_call hallow hmac hargs, route_self hallow hself hargs hmac⟩

/-- hence the same output: printing the call written in any resolving way is the same macro call
    `go (.macroCall L m av)` in the same state -/
theorem C12_routes_same_output (E : Env) (go : Go) (tpl : Bytes) (e : Expr) (L m : Bytes) (av : List Val) (st st1 : St)
    (h : evalX E true e st = .ok ((.callable L m av, []), st1)) :
    renderNode E go tpl (.print e) st = go (.macroCall L m av) st1 := by
  simp only [renderNode, h, ok_bind]
  rfl

/-! ### what establishes the resolving conditions -/

/-- route 1: rendering `{% macro m(…) %}` in template `L` makes `m` resolve to `(L, m)` -/
theorem C12_route_direct_established (E : Env) (go : Go) (L m : Bytes) (ps dn : List Bytes) (de : List Expr)
    (body : List Node) (st : St) :
    ∃ st', renderNode E go L (.macro m ps dn de body) st = .ok ([], st') ∧
      st'.ctx.getMacro m = some (L, m) ∧ st'.ctx.vars = st.ctx.vars :=
  ⟨_, macro_node_eq E go L m ps dn de body st, getMacro_setKV_same _ _ _, rfl⟩

/-- route 3: `{% import L as lib %}` stores the module map of the library's macro table in `lib`;
    it maps `m` to `macro L m` when all entries for `m` in that table say `(L, m)` — in particular
    when the table has pairwise distinct names and `m ↦ (L, m)` -/
theorem C12_route_import_established {E : Env} {go : Go} {tpl : Bytes} {te : Expr} {lib : Bytes} {st st1 st2 : St}
    {v fl} {L m : Bytes} {T : List Node} {o2 : Bytes}
    (h1 : evalX E true te st = .ok ((v, fl), st1)) (h2 : toStr v = .ok L)
    (hrel : isRelative L = false) (ht : E.tpl? L = some T)
    (hgo : go (.root L) (libSt st1 (E.F.propImport && st1.ctx.sandboxed)) = .ok (o2, st2))
    (hall : ∀ e ∈ st2.ctx.macros, e.1 = m → e.2 = (L, m)) (hex : ∃ e ∈ st2.ctx.macros, e.1 = m) :
    ∃ st', renderNode E go tpl (.importN te lib) st = .ok ([], st') ∧
      st'.ctx.getVar lib = .map (modOf st2.ctx.macros) ∧
      mapGet m (modOf st2.ctx.macros) = some (.macro L m) ∧
      st'.ctx.macros = st.ctx.macros := by
  refine ⟨_, import_eq h1 h2 hrel ht hgo, ?_, modOf_get hall hex, ?_⟩
  · simp only [Ctx.getVar, Ctx.setVar, getKV_setKV_same]
  · simp only [Ctx.setVar, evalX_ctx E _ _ _ _ _ h1]

/-- routes 4 and 5: `{% from L import m as a %}` (`a = m` without alias) makes `a` resolve to whatever
    the library's macro table has under `m` -/
theorem C12_route_from_established {E : Env} {go : Go} {tpl : Bytes} {te : Expr} {st st1 st2 : St}
    {v fl} {L m a : Bytes} {T : List Node} {o2 : Bytes} {ref : Bytes × Bytes}
    (h1 : evalX E true te st = .ok ((v, fl), st1)) (h2 : toStr v = .ok L)
    (hrel : isRelative L = false) (ht : E.tpl? L = some T)
    (hgo : go (.root L) (libSt st1 (E.F.propFrom && st1.ctx.sandboxed)) = .ok (o2, st2))
    (hlib : getKV m st2.ctx.macros = some ref) :
    ∃ st', renderNode E go tpl (.fromN te [(m, a)]) st = .ok ([], st') ∧
      st'.ctx.getMacro a = some ref ∧ st'.ctx.vars = st.ctx.vars := by
  refine ⟨_, from_eq h1 h2 hrel ht hgo (bindFrom_single _ hlib), ?_, ?_⟩
  · exact getMacro_setKV_same _ _ _
  · simp only [evalX_ctx E _ _ _ _ _ h1]

/-- several names in one `from … import`: each target is bound to its library macro -/
theorem C12_route_from_many {lib : List (Bytes × Bytes × Bytes)} {m a : Bytes}
    (names : List (Bytes × Bytes)) (acc ms : List (Bytes × Bytes × Bytes))
    (h : bindFrom lib names acc = .ok ms) (hmem : (m, a) ∈ names) (hcons : ∀ m', (m', a) ∈ names → m' = m) :
    getKV a ms = getKV m lib :=
  bindFrom_get names acc ms h hcons (Or.inl hmem)

/-- a macro LIBRARY (a template made of macro definitions and text): rendering its root registers
    every top-level macro `m` as `(L, m)`, so after `import` the module map has `m ↦ macro L m` and
    after `from … import` the table lookup gives `(L, m)` — routes 3, 4, 5 resolve for every macro of it -/
theorem C12_library_routes_resolve {E : Env} {go : Go} {L : Bytes} {nodes : List Node} (st : St)
    (ht : E.tpl? L = some nodes) (hlib : isMacroLib nodes = true) :
    ∃ st2, renderRoot E go L st = .ok (libText nodes, st2) ∧
      st2.ctx.macros = regMacros L (topMacroNames nodes) st.ctx.macros ∧
      (st.ctx.macros = [] → ∀ m ∈ topMacroNames nodes,
        mapGet m (modOf st2.ctx.macros) = some (.macro L m) ∧ getKV m st2.ctx.macros = some (L, m)) := by
  refine ⟨_, lib_renderRoot st ht hlib, rfl, fun h0 m hm => ?_⟩
  simp only [h0]
  exact lib_module L nodes hm

/-- routes 3 and 4/5 agree for ANY library template (not only pure macro libraries): whatever the
    library's macro table has under `m` after its root was rendered — which is what `from … import m`
    binds — is what the module map of `import` has under `m`.  (The table, built with `setKV` from the
    empty table of the fresh context, has pairwise distinct names: `run_root_kn`.) -/
theorem C12_import_and_from_agree (E : Env) (f : Nat) (L m : Bytes) (st1 st2 : St) (sb : Bool) (o2 : Bytes)
    (ref : Bytes × Bytes)
    (hgo : run E f (.root L) (libSt st1 sb) = .ok (o2, st2))
    (hlib : getKV m st2.ctx.macros = some ref) :
    mapGet m (modOf st2.ctx.macros) = some (.macro ref.1 ref.2) :=
  modOf_get_nodup (run_root_kn E f L _ hgo KN_nil) hlib

/-! ## siblings -/

/-- `C12_siblings`: inside a macro body every top-level macro `s` of the DEFINING template is callable
    by name — `macroCtx` resolves `s` to `(tpl, s)` whatever the caller's own macros are and however
    the macro was reached (`callMacro` only sees `(tpl, name, args)`) — and `findMacro` finds it. -/
theorem C12_siblings (E : Env) (tpl : Bytes) (nodes : List Node) (c : Ctx) (vars : List (Bytes × Val))
    (s : Bytes) (hs : s ∈ topMacroNames nodes) :
    (macroCtx E tpl nodes c vars).getMacro s = some (tpl, s) ∧ (findMacro nodes s).isSome = true ∧
    (∀ (args : List Expr) (st st1 : St) (av : List Val) (ap : Bool),
      st.ctx = macroCtx E tpl nodes c vars → denied E st.ctx E.allowedFunctions s = false →
      evalArgs E args st = .ok (av, st1) →
      evalX E ap (.call s args) st = .ok ((.callable tpl s av, []), st1)) :=
  ⟨macroCtx_getMacro_sibling hs, (findMacro_isSome nodes s).2 hs,
   fun _ st _ _ _ hctx hallow hargs =>
     route_call hallow (by rw [hctx]; exact macroCtx_getMacro_sibling hs) hargs⟩

/-! ## reading a parameter -/

/-- `C12_param_read`: inside the macro body the NAME of a parameter evaluates to the bound value,
    whatever macros are visible from the body (siblings of the defining template, macros and aliases
    in the caller's scope chain): the parameter is a variable of the macro context's own map, and a
    variable shadows a macro of the same name (`EvaluateExpression` asks `hasVariable` first). -/
theorem C12_param_read (E : Env) (tpl : Bytes) (nodes : List Node) (c : Ctx) (vars : List (Bytes × Val))
    (p : Bytes) (v : Val) (ap : Bool) (st : St)
    (hctx : st.ctx = macroCtx E tpl nodes c vars)
    (hv : getKV p vars = some v) :
    evalX E ap (.var p) st = .ok ((v, []), st) := by
  have hh : st.ctx.hasVar p = true := by
    rw [hctx]; simp only [Ctx.hasVar, macroCtx, hv, Option.isSome_some, Bool.true_or]
  rw [evalVar_of_hasVar hh, hctx, macroCtx_getVar_param hv]

/-- the lookup order of the PINNED tree (macro first, then variable), kept for the regression below -/
def pinnedVarLookup (c : Ctx) (n : Bytes) : Val :=
  match c.getMacro n with
  | some (t, m) => .macro t m
  | none => c.getVar n

/-- pinned regression: the caller has a macro called `a` (bytes `[97]`, e.g. `from lib import m as a`),
    the called macro has a parameter `a` bound to 1.  With the pinned lookup order the body reads the
    caller's macro; the repaired `evalX` reads 1. -/
theorem C12_counterexample_pinned_param_hidden :
    pinnedVarLookup (macroCtx { tpls := [] } [108] [] { macros := [([97], [108], [109])] } [([97], .int 1)]) [97]
      = .macro [108] [109] ∧
    evalX { tpls := [] } true (.var [97])
      { ctx := macroCtx { tpls := [] } [108] [] { macros := [([97], [108], [109])] } [([97], .int 1)] } =
      .ok ((.int 1, []),
        { ctx := macroCtx { tpls := [] } [108] [] { macros := [([97], [108], [109])] } [([97], .int 1)] }) :=
  ⟨rfl, C12_param_read _ _ _ _ _ _ _ _ _ rfl rfl⟩

/-! ## non-vacuity (tests, not theorems: closed instances evaluated by the kernel) -/

namespace C12Ex
def L : Bytes := b "lib"
def m : Bytes := b "m"
def a : Bytes := b "a"
def lib : Bytes := b "forms"
def self : Bytes := b "_self"
/-- a context in which ALL five routes resolve at once: `m` and `a` bound by `from lib import m, m as a`,
    `forms` holding the module map of `import lib as forms` -/
def st : St := { ctx := { vars := [(lib, .map [(m, .macro L m)])], macros := [(m, L, m), (a, L, m)] } }
def E : Env := { tpls := [] }

theorem facts : (m == self) = false ∧ (a == self) = false ∧ (lib == self) = false ∧ (m == lib) = false ∧
    (a == lib) = false ∧ (m == a) = false ∧ m ≠ b "parent" ∧ m ≠ b "range" ∧ m ≠ b "length" := by decide +kernel

example :
    evalX E true (.call m [.int 1]) st = .ok ((.callable L m [.int 1], []), st) ∧
    evalX E true (.mcall (.var (b "_self")) m [.int 1]) st = .ok ((.callable L m [.int 1], []), st) ∧
    evalX E true (.mcall (.var lib) m [.int 1]) st = .ok ((.callable L m [.int 1], []), st) ∧
    evalX E true (.call a [.int 1]) st = .ok ((.callable L m [.int 1], []), st) := by
  obtain ⟨f1, f2, f3, f4, f5, f6, f7, f8, f9⟩ := facts
  obtain ⟨r1, r2, r3, r4⟩ := C12_routes_agree E L m a lib [.int 1] st st [.int 1] [(m, .macro L m)] rfl rfl rfl
  have hnov : st.ctx.hasVar self = false := by
    simp [Ctx.hasVar, getKV, st, List.find?, f3]
  refine ⟨r1 ?_, r2 ?_ ((C12_self_not_module E st).2 hnov (fun kvs h => by cases h)), r3 ?_ ?_, r4 ?_⟩
  · simp [Ctx.getMacro, getKV, st]
  · simp [Ctx.getMacro, getKV, st]
  · simp [Ctx.getVar, getKV, st]
  · simp [mapGet]
  · simp [Ctx.getMacro, getKV, st, List.find?, f6]

/-- non-vacuity of `C12_routes_agree_function_named`: a macro called `range` (the name of a built-in
    function, `rangeName_eq`); `range(1)` and `_self.range(1)` both give the macro's closure -/
def rangeName : Bytes := [114, 97, 110, 103, 101]
theorem rangeName_eq : rangeName = b "range" := by decide +kernel
def stR : St := { ctx := { macros := [(rangeName, L, rangeName)] } }
example :
    evalX E true (.call rangeName [.int 1]) stR = .ok ((.callable L rangeName [.int 1], []), stR) ∧
    evalX E true (.mcall (.var (b "_self")) rangeName [.int 1]) stR =
      .ok ((.callable L rangeName [.int 1], []), stR) :=
  C12_routes_agree_function_named E L rangeName [.int 1] stR stR [.int 1] rfl rfl
    (by simp [Ctx.getMacro, getKV, stR])
    ((C12_self_not_module E stR).2 (by simp [Ctx.hasVar, getKV, stR]) (fun kvs h => by cases h))
end C12Ex

/-! ### end to end from SOURCE text -/

namespace C12Ex
def libSrc : String :=
  "{% macro m(a, b='B', c) %}[{{ a }}|{{ b }}|{{ c }}|{{ d }}]{% endmacro %}{% macro twice(x) %}{{ m(x) }}{{ m(x, x) }}{% endmacro %}"

/-- the five routes give the same output: directly and through `_self` in the defining template … -/
example : renderSources [("lib", libSrc ++ "{{ m(1) }}{{ _self.m(1) }}")] "lib" = some (b "[1|B||][1|B||]") := by
  decide +kernel

/-- a macro named like the built-in function `range`: both `range(…)` and `_self.range(…)` call the macro -/
example : renderSources [("lib", "{% macro range(a) %}[{{ a }}]{% endmacro %}{{ range(1) }}{{ _self.range(2) }}")] "lib" =
    some (b "[1][2]") := by
  decide +kernel

/-- … through `import … as`, `from … import` and `from … import … as` elsewhere -/
example : renderSources [("lib", libSrc),
    ("main", "{% import 'lib' as forms %}{% from 'lib' import m %}{% from 'lib' import m as alias %}{{ forms.m(1) }}{{ m(1) }}{{ alias(1) }}")]
    "main" = some (b "[1|B||][1|B||][1|B||]") := by
  decide +kernel

/-- fewer, equal, more arguments: defaults, null, extra arguments ignored -/
example : renderSources [("lib", libSrc ++ "{{ m() }}{{ m(1, 2) }}{{ m(1, 2, 3) }}{{ m(1, 2, 3, 4, 5) }}")] "lib" =
    some (b "[|B||][1|2||][1|2|3|][1|2|3|]") := by
  decide +kernel

/-- parameters shadow outer variables, other names read the caller's scope, assignments in the body
    are invisible to the caller -/
example : renderSources
    [("main", "{% set a = 'outer' %}{% set d = 'D' %}{% macro m(a) %}{{ a }}{{ d }}{% set a = 'inner' %}{% set d = 'changed' %}{% set z = 'leak' %}{{ a }}{{ d }}{% endmacro %}{{ m('p') }}/{{ a }}{{ d }}{{ z }}")]
    "main" = some (b "pDinnerchanged/outerD") := by
  decide +kernel

/-- a library macro calls its sibling by name when reached through `import` (and from a loop) -/
example : renderSources [("lib", libSrc),
    ("main", "{% import 'lib' as forms %}{% for i in [7] %}{{ forms.twice(i) }}{% endfor %}")]
    "main" = some (b "[7|B||][7|7||]") := by
  decide +kernel

/-- the situation of the pinned regression from source: the parameter `a` is read, not the caller's alias `a` -/
example : renderSources [("lib", "{% macro m(a) %}[{{ a }}]{% endmacro %}"),
    ("main", "{% from 'lib' import m as a %}{{ a(1) }}")] "main" = some (b "[1]") := by
  decide +kernel

end C12Ex

end Twig
