/-
  C07 — the escape filter neutralises every HTML-significant character.

  `escReg` is the registered filter (`escape` and its alias `e`: filterEscape → html.EscapeString), proved for
  every byte string (valid UTF-8 or not, any length).  `escFallback` is the built-in routine ApplyFilter uses
  when the name is not found in the environment (nil environment only); it satisfies the property on valid
  UTF-8 and provably not on invalid bytes.
-/
import TwigModel.Escape
import TwigProofs.Lemmas.Escape
namespace Twig.Escape

/-! ## the registered filter -/

/-- No raw `<` `>` `"` `'` occurs in the output, and every `&` of the output is the first byte of one of the five
    references; more precisely (`Refs`) the output is a sequence of blocks, each either one of the five
    references or a single byte that is none of `& < > " '`. -/
theorem C07_no_raw (s : Bytes) :
    (∀ x ∈ escReg s, x ≠ 60 ∧ x ≠ 62 ∧ x ≠ 34 ∧ x ≠ 39) ∧
    (∀ pre post, escReg s = pre ++ 38 :: post → ∃ r ∈ regRefs, r <+: (38 :: post)) ∧
    Refs regRefs (escReg s) :=
  ⟨refs_no_raw regRefs_clean (refs_flatMap_escByte s),
   refs_amp regRefs_amp (refs_flatMap_escByte s),
   refs_flatMap_escByte s⟩

/-- non-vacuity: an input with all five characters, multi-byte and invalid bytes -/
example : escReg [60, 38, 0xff, 34, 0xc3, 0xa9, 39, 62] =
    rLt ++ rAmp ++ [0xff] ++ rQuot ++ [0xc3, 0xa9] ++ rApos ++ rGt := by decide

/-- Decoding the five references gives back exactly the original bytes — any bytes, including text that
    already contains references (`&amp;` ↦ `&amp;amp;` ↦ `&amp;`) and invalid UTF-8. -/
theorem C07_roundtrip (s : Bytes) : unescape5 (escReg s) = s := by
  induction s with
  | nil => simp [escReg, unescape5]
  | cons b r ih =>
    simp only [escReg, List.flatMap_cons] at ih ⊢
    rw [unescape5_escByte, ih]

/-- All other bytes pass through unchanged: the filter is a byte-wise map, a byte that is not one of the five
    maps to itself, and nothing is ever dropped (the output is at least as long as the input). -/
theorem C07_others_unchanged (s : Bytes) :
    escReg s = s.flatMap escByte ∧ (∀ b, special b = false → escByte b = [b]) ∧
    s.length ≤ (escReg s).length := by
  refine ⟨rfl, escByte_of_not_special, ?_⟩
  induction s with
  | nil => simp [escReg]
  | cons b r ih =>
    simp only [escReg, List.flatMap_cons, List.length_append, List.length_cons] at ih ⊢
    have := escByte_length_pos b
    omega

/-- the filter distributes over concatenation (position in the string does not matter) -/
theorem C07_append (s t : Bytes) : escReg (s ++ t) = escReg s ++ escReg t := by
  simp [escReg, List.flatMap_append]

/-- text without any of the five characters is returned as it is -/
theorem C07_idempotent_on_safe (s : Bytes) (h : ∀ b ∈ s, special b = false) : escReg s = s := by
  induction s with
  | nil => rfl
  | cons b r ih =>
    simp only [escReg, List.flatMap_cons] at ih ⊢
    rw [escByte_of_not_special b (h b (by simp)), ih (fun x hx => h x (by simp [hx]))]; rfl

example : (∀ b ∈ ([0xe4, 0xb8, 0x96, 0xff, 0x00, 65] : Bytes), special b = false) := by decide

/-- the FACT table is of the shape the theorems rely on: its keys are exactly the five special bytes, each once,
    and every replacement is one of the five references (re-checked by `decide` when the table is regenerated) -/
theorem C07_table_ok :
    escTable.map Prod.fst = [38, 39, 60, 62, 34] ∧ (∀ p ∈ escTable, special p.1 = true ∧ p.2 ∈ regRefs) ∧
    (∀ b, special b = true ↔ b ∈ escTable.map Prod.fst) := by
  refine ⟨by decide, by decide, ?_⟩
  intro b
  rw [special_iff]
  simp [escTable]

/-! ## the alias -/

/-- `e` and `escape` are the same function wherever `ApplyFilter` is reached (print tag and filter chains go
    through evaluateFilterNode → ApplyFilterChain → ApplyFilter, `{% apply %}` through ApplyNode.Render →
    ApplyFilter, macro text through renderVariableString → ApplyFilter; included templates and macro bodies use the
    same nodes) — with an environment and without. -/
theorem C07_alias (envPresent : Bool) (s : Bytes) :
    applyFilter envPresent "e" s = applyFilter envPresent "escape" s := by
  cases envPresent <;> rfl

/-- with an environment both names are the registered filter -/
theorem C07_alias_registered (s : Bytes) :
    applyFilter true "e" s = some (escReg s) ∧ applyFilter true "escape" s = some (escReg s) := ⟨rfl, rfl⟩

/-! ## the built-in fallback -/

/-- FULL-STRENGTH STATEMENT for the fallback (what C07 says of "the escape filter" if one counts the fallback):
    no raw special character and an exact round trip for every byte string.  FALSE for invalid UTF-8 — see the
    counterexample; what holds is the `_partial` theorem. -/
def C07_fallback_statement : Prop :=
  ∀ s : Bytes, (∀ x ∈ escFallback s, x ≠ 60 ∧ x ≠ 62 ∧ x ≠ 34 ∧ x ≠ 39) ∧ unescapeFb (escFallback s) = s

/-- On valid UTF-8 (decidable hypothesis `validUtf8`) the fallback is the byte-wise map with its own table
    (`&quot;` instead of `&#34;`), so: no raw special character, every `&` starts one of its five references,
    other bytes unchanged, and its own decoder gives back the input. -/
theorem C07_fallback_valid_utf8_partial (s : Bytes) (h : validUtf8 s = true) :
    escFallback s = s.flatMap escByteFb ∧
    (∀ x ∈ escFallback s, x ≠ 60 ∧ x ≠ 62 ∧ x ≠ 34 ∧ x ≠ 39) ∧
    (∀ pre post, escFallback s = pre ++ 38 :: post → ∃ r ∈ fbRefs, r <+: (38 :: post)) ∧
    unescapeFb (escFallback s) = s := by
  have e : escFallback s = s.flatMap escByteFb := fbGo_valid s h
  refine ⟨e, ?_, ?_, ?_⟩
  · rw [e]; exact refs_no_raw fbRefs_clean (refs_flatMap_escByteFb s)
  · rw [e]; exact refs_amp fbRefs_amp (refs_flatMap_escByteFb s)
  · rw [e]
    clear e h
    induction s with
    | nil => simp [unescapeFb]
    | cons b r ih => rw [List.flatMap_cons, unescapeFb_escByteFb, ih]

/-- non-vacuity: `<é世😀"&` is valid UTF-8 -/
example : validUtf8 [60, 0xc3, 0xa9, 0xe4, 0xb8, 0x96, 0xf0, 0x9f, 0x98, 0x80, 34, 38] = true := by decide

/-- COUNTEREXAMPLE: the fallback does not pass an invalid byte through — 0xFF becomes U+FFFD (EF BF BD), so
    "all other bytes pass through unchanged" and the round trip fail.  Reachable only without an environment:
    `twig.NewRenderContext(nil, nil, nil).ApplyFilter("escape", "\xff")`, or rendering a template made by
    `twig.LoadFromCompiled(c, nil, nil)`; every engine built by `twig.New()` registers CoreExtension, whose
    filters take precedence.  (Harness c07, route "fallback".) -/
theorem C07_counterexample_fallback_invalid_utf8 :
    validUtf8 [0xff] = false ∧ escFallback [0xff] = [0xEF, 0xBF, 0xBD] ∧
    unescapeFb (escFallback [0xff]) ≠ [0xff] ∧ escReg [0xff] = [0xff] := by
  refine ⟨by decide, by decide, ?_, by decide⟩
  have : escFallback [0xff] = [0xEF, 0xBF, 0xBD] := by decide
  rw [this]
  simp [unescapeFb]

theorem C07_fallback_statement_false : ¬ C07_fallback_statement := by
  intro h
  exact C07_counterexample_fallback_invalid_utf8.2.2.1 (h [0xff]).2

/-- the two routines also differ on the double quote (both forms decode to `"`) -/
theorem C07_fallback_quote : escFallback [34] = rQuotFb ∧ escReg [34] = rQuot := ⟨by decide, by decide⟩

end Twig.Escape
