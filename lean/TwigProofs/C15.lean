/-
  C15 — Template cache and loaders always serve the source the configuration calls for.

  Model: `TwigModel/EngineCache.lean` (`step` = transliteration of `Engine.Load` & co. of the fixed tree;
  `Spec.*` = the six sentences of the property as functions of the history). All theorems quantify over
  every history `h : List Op` (configuration changes, loader registrations, registrations of templates,
  loader content / mtime changes, `Load`/`Render` calls over any names and any number of loaders).

    C15_refines               serve (run h) n = Spec.expected h n                    (+ _state, _step, _loads, _stats)
    C15_S1_…                  latest registration wins
    C15_S2_…                  caching off ⇒ the loaders are read again on every call
    C15_S3_…                  auto-reload: newer mtime ⇒ consulted again / visible; not newer ⇒ nothing is read
    C15_S4_…                  auto-reload off ⇒ what is cached stays
    C15_S5_…                  first loader in registration order wins
    C15_S6_… / C15_notfound_cache_unchanged   unknown name ⇒ ErrTemplateNotFound, cache untouched
    C15_inv                   every cache entry is a registration or what its loader held when it was read
    C15_S5_eager_statement / _counterexample / _partial
                              the stronger reading "under auto-reload the engine always serves what a fresh engine
                              would" is FALSE for the code (a higher-priority loader gaining a cached name is
                              not noticed); it holds when no such shadowing exists.
-/
import TwigProofs.Lemmas.EngineCache
namespace Twig.EngineCache
open Spec

/-! ## Refinement: the code-shaped model and the sentence-shaped specification agree on all histories -/

/-- After every history the engine state is exactly the specification's view of that history: flags, loader
    list, loader contents and what is held under every name. -/
theorem C15_refines_state (h : History) : Sim (run h) h.reverse := by
  rw [run_eq_runR]; exact sim_runR _

/-- What `Load(n)`/`Render(n)` returns after any history is what the six sentences say. -/
theorem C15_refines (h : History) (n : Name) : serve (run h) n = Spec.expected h n :=
  ((C15_refines_state h).load n).2

/-- … for every kind of step (the form the harness checks step by step) -/
theorem C15_refines_step (h : History) (op : Op) : (step (run h) op).2 = outR h.reverse op :=
  ((C15_refines_state h).step op).2

/-- the `Load` calls made on each loader by the next call are the expected ones -/
theorem C15_refines_loads (h : History) (n : Name) (i : Nat) (m : Name) :
    (load (run h) n).1.loads i m = (run h).loads i m + (if m = n then Spec.expectedLoads h n i else 0) :=
  (C15_refines_state h).load_loads n i m

/-- the `GetModifiedTime` calls made on each loader by the next call are the expected ones -/
theorem C15_refines_stats (h : History) (n : Name) (i : Nat) (m : Name) :
    (load (run h) n).1.stats i m = (run h).stats i m + (if m = n then Spec.expectedStats h n i else 0) :=
  (C15_refines_state h).load_stats n i m

/-- reads made when the loaders are consulted: one on every loader up to and including the first holder -/
def consultReads (h : History) (n : Name) (i : Nat) : Nat := consultReadsR h.reverse n i

/-- When exactly are the loaders consulted (everything else is answered from what is held)? -/
theorem C15_consults_iff (h : History) (n : Name) :
    Spec.consults h n = true ↔
      (Spec.held h n = none ∨
       ∃ s i t, Spec.held h n = some ⟨s, some i, t⟩ ∧
         (Spec.cacheOn h = false ∨
          (Spec.autoReload h = true ∧ Spec.tsAware h i = true ∧ changed (Spec.content h i n) t = true))) := by
  unfold Spec.consults Spec.held Spec.cacheOn Spec.autoReload Spec.tsAware Spec.content
  generalize h.reverse = r
  cases hh : heldR r n with
  | none => simp [verdictR_none hh]
  | some e =>
    obtain ⟨s, lo, t⟩ := e
    cases lo with
    | none =>
      have : verdictR r n = .useHeld s := by unfold verdictR; rw [hh]; rfl
      simp [this]
    | some i =>
      rw [verdictR_cached hh]
      constructor
      · intro hv
        right
        refine ⟨s, i, t, rfl, ?_⟩
        revert hv
        cases hc : cacheOnR r <;> cases ha : autoReloadR r <;> cases hts : tsAwareR r i <;>
          cases hch : changed (contentR r i n) t <;> simp
      · rintro (h0 | ⟨s', i', t', heq, hcond⟩)
        · cases h0
        · cases heq
          rcases hcond with h1 | ⟨h1, h2, h3⟩
          · simp [h1]
          · simp [h1, h2, h3]

/-! ## S1 — Load and Render use the source most recently registered under a name -/

/-- If the most recent registration under `n` is `s`, the next call serves `s` and reads no loader — whatever the
    flags, the loaders and the rest of the history are. -/
theorem C15_S1_latest_registration_wins (h : History) (n : Name) (s : Src)
    (hreg : Spec.registered h n = some s) :
    serve (run h) n = .served s ∧
    (∀ i m, (load (run h) n).1.loads i m = (run h).loads i m) ∧
    (load (run h) n).1.templates = (run h).templates := by
  have hs := C15_refines_state h
  have hh := (heldR_registered h.reverse n).1 s hreg
  have hv : verdictR h.reverse n = .useHeld s := by unfold verdictR; rw [hh]; rfl
  exact hs.call_useHeld hv

/-- History-shaped: after `RegisterString(n, s)` and any operations that do not register under `n` again
    (config changes, loader changes, calls, registrations under other names …), `n` serves `s`. -/
theorem C15_S1_register_string_then_anything (h h' : History) (n : Name) (s : Src)
    (hno : ∀ op, op ∈ h' → Op.registers op n = false) :
    serve (run (h ++ .registerString n s :: h')) n = .served s := by
  apply (C15_S1_latest_registration_wins _ n s _).1
  unfold Spec.registered
  rw [List.reverse_append, List.reverse_cons, List.append_assoc]
  exact registeredR_append h'.reverse h.reverse n _ s (Or.inl rfl) (fun op hop => hno op (List.mem_reverse.mp hop))

theorem C15_S1_register_template_then_anything (h h' : History) (n : Name) (s : Src)
    (hno : ∀ op, op ∈ h' → Op.registers op n = false) :
    serve (run (h ++ .registerTemplate n s :: h')) n = .served s := by
  apply (C15_S1_latest_registration_wins _ n s _).1
  unfold Spec.registered
  rw [List.reverse_append, List.reverse_cons, List.append_assoc]
  exact registeredR_append h'.reverse h.reverse n _ s (Or.inr rfl) (fun op hop => hno op (List.mem_reverse.mp hop))

/-- non-vacuity (and the pinned-tree defect): a registration made while caching is off is served -/
example : serve (run [.setCache false, .registerString 0 7, .setDevMode true, .loaderPut 0 0 9 5]) 0 = .served 7 :=
  C15_S1_register_string_then_anything [.setCache false] [.setDevMode true, .loaderPut 0 0 9 5] 0 7 (by decide)

/-! ## S2 — with caching disabled every call re-reads the loaders -/

/-- Caching off and no registration under `n`: the call is answered by the loaders as they are now, every loader up
    to and including the first holder is read exactly once, and nothing is cached. -/
theorem C15_S2_cache_off_rereads (h : History) (n : Name)
    (hc : Spec.cacheOn h = false) (hr : Spec.registered h n = none) :
    serve (run h) n = holderOut (Spec.firstHolder h n) ∧
    (∀ i, (load (run h) n).1.loads i n = (run h).loads i n + consultReads h n i) ∧
    (∀ n', (load (run h) n).1.templates n' = (run h).templates n') := by
  have hs := C15_refines_state h
  have hv : verdictR h.reverse n = .consult := by
    cases hh : heldR h.reverse n with
    | none => exact verdictR_none hh
    | some e =>
      obtain ⟨s, lo, t⟩ := e
      obtain ⟨i, hi⟩ := (heldR_registered h.reverse n).2 hr _ hh
      simp only at hi; subst hi
      rw [verdictR_cached hh]
      unfold Spec.cacheOn at hc
      simp [hc]
  obtain ⟨h1, h2, h3⟩ := hs.call_consult hv
  refine ⟨h1, fun i => by simpa [consultReads] using h2 i n, ?_⟩
  intro n'
  rw [h3 n']
  unfold Spec.cacheOn at hc
  by_cases e : n' = n
  · subst e
    cases firstHolderR h.reverse n' <;> simp [hc]
  · simp [e]

/-- in particular the first registered loader is read on every such call -/
theorem C15_S2_every_call_reads (h : History) (n : Name)
    (hc : Spec.cacheOn h = false) (hr : Spec.registered h n = none) (hl : 0 < Spec.nLoaders h) :
    (load (run h) n).1.loads 0 n = (run h).loads 0 n + 1 := by
  rw [(C15_S2_cache_off_rereads h n hc hr).2.1 0]
  unfold consultReads consultReadsR
  unfold Spec.nLoaders at hl
  cases firstHolderR h.reverse n with
  | none => simp [hl]
  | some hit => simp

example : Spec.cacheOn [.registerLoader true, .loaderPut 0 0 3 5, .load 0, .setDevMode true] = false ∧
    Spec.registered [.registerLoader true, .loaderPut 0 0 3 5, .load 0, .setDevMode true] 0 = none ∧
    0 < Spec.nLoaders [.registerLoader true, .loaderPut 0 0 3 5, .load 0, .setDevMode true] := by decide

/-! ## S3 — auto-reload: a change in a timestamp-aware loader is visible to the next call, an unchanged
       template is not re-read. "A change" = the template is gone from its loader or its mtime is now greater than
       the one recorded when it was read (`changed`); that is the only signal `GetModifiedTime` gives. -/

/-- Caching and auto-reload on, `n` held from timestamp-aware loader `i` with recorded mtime `t`, and the loader's
    copy has changed: the loaders are consulted again (S5 decides who answers). -/
theorem C15_S3_change_consults (h : History) (n : Name) (s : Src) (i : Nat) (t : Time)
    (hc : Spec.cacheOn h = true) (ha : Spec.autoReload h = true)
    (hh : Spec.held h n = some ⟨s, some i, t⟩) (hts : Spec.tsAware h i = true)
    (hchg : changed (Spec.content h i n) t = true) :
    serve (run h) n = holderOut (Spec.firstHolder h n) ∧
    (∀ j, (load (run h) n).1.loads j n = (run h).loads j n + consultReads h n j) := by
  have hs := C15_refines_state h
  unfold Spec.cacheOn at hc; unfold Spec.autoReload at ha; unfold Spec.held at hh
  unfold Spec.tsAware at hts; unfold Spec.content at hchg
  have hv : verdictR h.reverse n = .consult := by rw [verdictR_cached hh]; simp [hc, ha, hts, hchg]
  obtain ⟨h1, h2, _⟩ := hs.call_consult hv
  exact ⟨h1, fun j => by simpa [consultReads] using h2 j n⟩

/-- History-shaped: … so a put with a newer mtime into the loader the template came from is served by the very
    next call (provided no loader of higher priority holds the name — otherwise S5 gives that one). -/
theorem C15_S3_newer_put_visible (h : History) (n : Name) (s : Src) (i : Nat) (t : Time) (s' : Src) (t' : Time)
    (hc : Spec.cacheOn h = true) (ha : Spec.autoReload h = true)
    (hh : Spec.held h n = some ⟨s, some i, t⟩) (hts : Spec.tsAware h i = true)
    (hnewer : t' > t) (hfirst : ∀ j, j < i → Spec.content h j n = none) :
    serve (run (h ++ [.loaderPut i n s' t'])) n = .served s' := by
  have hlt : i < nLoadersR h.reverse := heldR_loader_lt hh
  have hcont : Spec.content (h ++ [.loaderPut i n s' t']) i n = some (s', t') := by
    unfold Spec.content; rw [List.reverse_append]; simp [contentR, hlt]
  have hfh : Spec.firstHolder (h ++ [.loaderPut i n s' t']) n = some (i, s', t') := by
    unfold Spec.firstHolder
    rw [firstHolderR_some]
    unfold Spec.content at hcont hfirst
    refine ⟨?_, hcont, ?_⟩
    · rw [List.reverse_append]; exact hlt
    · intro k hk
      rw [List.reverse_append]
      simp only [List.reverse_cons, List.reverse_nil, List.nil_append, List.singleton_append, contentR]
      rw [if_neg (by omega)]; exact hfirst k hk
  have := (C15_S3_change_consults (h ++ [.loaderPut i n s' t']) n s i t
    (by unfold Spec.cacheOn; rw [List.reverse_append]; exact hc)
    (by unfold Spec.autoReload; rw [List.reverse_append]; exact ha)
    (by unfold Spec.held; rw [List.reverse_append]; exact hh)
    (by unfold Spec.tsAware; rw [List.reverse_append]; exact hts)
    (by rw [hcont]; simp [changed, hnewer])).1
  rw [this, hfh]; rfl

/-- Caching and auto-reload on, `n` held with recorded mtime `t`, and its loader's copy is still there with an
    mtime that is not newer: the held source is served, no loader is read and the cache is untouched. -/
theorem C15_S3_unchanged_not_reread (h : History) (n : Name) (s : Src) (i : Nat) (t : Time)
    (hc : Spec.cacheOn h = true) (hh : Spec.held h n = some ⟨s, some i, t⟩)
    (hun : changed (Spec.content h i n) t = false) :
    serve (run h) n = .served s ∧
    (∀ j m, (load (run h) n).1.loads j m = (run h).loads j m) ∧
    (load (run h) n).1.templates = (run h).templates := by
  have hs := C15_refines_state h
  unfold Spec.cacheOn at hc; unfold Spec.held at hh; unfold Spec.content at hun
  have hv : verdictR h.reverse n = .useHeld s := by
    rw [verdictR_cached hh]
    cases autoReloadR h.reverse <;> cases tsAwareR h.reverse i <;> simp [hc, hun]
  exact hs.call_useHeld hv

/-- non-vacuity for S3: hypotheses of both halves hold on concrete histories (equal mtime = unchanged) -/
example :
    let h : History := [.registerLoader true, .loaderPut 0 0 1 10, .setAutoReload true, .load 0, .loaderPut 0 0 2 10]
    Spec.cacheOn h = true ∧ Spec.held h 0 = some ⟨1, some 0, 10⟩ ∧ changed (Spec.content h 0 0) 10 = false ∧
      serve (run h) 0 = .served 1 := by decide

example :
    let h : History := [.registerLoader true, .loaderPut 0 0 1 10, .setAutoReload true, .load 0]
    Spec.cacheOn h = true ∧ Spec.autoReload h = true ∧ Spec.held h 0 = some ⟨1, some 0, 10⟩ ∧
      Spec.tsAware h 0 = true ∧ serve (run (h ++ [.loaderPut 0 0 2 11])) 0 = .served 2 := by decide

/-! ## S4 — with auto-reload off a cached template stays as it was -/

/-- Caching on, auto-reload off, something held under `n`: it is served; no loader is read or asked for an mtime;
    the cache is untouched. -/
theorem C15_S4_autoreload_off_cached_stays (h : History) (n : Name) (e : Entry)
    (hc : Spec.cacheOn h = true) (ha : Spec.autoReload h = false) (hh : Spec.held h n = some e) :
    serve (run h) n = .served e.src ∧
    (∀ j m, (load (run h) n).1.loads j m = (run h).loads j m) ∧
    (∀ j m, (load (run h) n).1.stats j m = (run h).stats j m) ∧
    (load (run h) n).1.templates = (run h).templates := by
  have hs := C15_refines_state h
  unfold Spec.cacheOn at hc; unfold Spec.autoReload at ha; unfold Spec.held at hh
  obtain ⟨s, lo, t⟩ := e
  have hv : verdictR h.reverse n = .useHeld s := by
    cases lo with
    | none => unfold verdictR; rw [hh]; rfl
    | some i => rw [verdictR_cached hh]; simp [hc, ha]
  obtain ⟨h1, h2, h3⟩ := hs.call_useHeld hv
  refine ⟨h1, h2, ?_, h3⟩
  intro j m
  rw [hs.load_stats n j m]
  unfold expectedStatsR
  rw [hv, hh, ha]
  cases lo <;> simp

/-- History-shaped: however the loaders' contents and mtimes change afterwards, the call serves what was held. -/
theorem C15_S4_loader_changes_invisible (h h' : History) (n : Name) (e : Entry)
    (hc : Spec.cacheOn h = true) (ha : Spec.autoReload h = false) (hh : Spec.held h n = some e)
    (hl : ∀ op, op ∈ h' → Op.isLoaderContent op = true) :
    serve (run (h ++ h')) n = .served e.src := by
  obtain ⟨a1, a2, a3⟩ := loaderContent_append h'.reverse h.reverse (fun op hop => hl op (List.mem_reverse.mp hop))
  apply (C15_S4_autoreload_off_cached_stays (h ++ h') n e _ _ _).1
  · unfold Spec.cacheOn; rw [List.reverse_append, a1]; exact hc
  · unfold Spec.autoReload; rw [List.reverse_append, a2]; exact ha
  · unfold Spec.held; rw [List.reverse_append, a3]; exact hh

example :
    let h : History := [.registerLoader true, .loaderPut 0 0 1 10, .load 0]
    Spec.cacheOn h = true ∧ Spec.autoReload h = false ∧ Spec.held h 0 = some ⟨1, some 0, 10⟩ ∧
      serve (run (h ++ [.loaderPut 0 0 2 99, .loaderDelete 0 0])) 0 = .served 1 := by decide

/-! ## S5 — loaders are consulted in registration order and the first that has the name wins -/

/-- `Spec.firstHolder` is the least registered loader index that has the name … -/
theorem C15_S5_first_holder_iff (h : History) (n : Name) (k : Nat) (s : Src) (t : Time) :
    Spec.firstHolder h n = some (k, s, t) ↔
      (k < Spec.nLoaders h ∧ Spec.content h k n = some (s, t) ∧ ∀ k', k' < k → Spec.content h k' n = none) :=
  firstHolderR_some h.reverse n k s t

/-- … and there is none iff no loader has the name. -/
theorem C15_S5_no_holder_iff (h : History) (n : Name) :
    Spec.firstHolder h n = none ↔ ∀ k, Spec.content h k n = none :=
  firstHolderR_none h.reverse n

/-- Whenever the loaders are consulted (see `C15_consults_iff`), the first holder's current source is served;
    exactly the loaders up to and including it are read, once each (all of them if nobody has the name);
    the result is cached iff caching is on, with the loader's mtime if it is timestamp-aware and 0 otherwise. -/
theorem C15_S5_first_loader_wins (h : History) (n : Name) (hcons : Spec.consults h n = true) :
    serve (run h) n = holderOut (Spec.firstHolder h n) ∧
    (∀ i m, (load (run h) n).1.loads i m = (run h).loads i m + (if m = n then consultReads h n i else 0)) ∧
    (∀ n', (load (run h) n).1.templates n' =
      if n' = n then
        (match Spec.firstHolder h n with
         | some hit => if Spec.cacheOn h then some (consultedEntry (Spec.tsAware h) hit) else (run h).templates n
         | none => (run h).templates n)
      else (run h).templates n') := by
  have hv : verdictR h.reverse n = .consult := by
    unfold Spec.consults at hcons; simpa using hcons
  exact (C15_refines_state h).call_consult hv

/-- the loaders strictly before the first holder are read and answer "not found", those after it are not read -/
theorem C15_S5_read_order (h : History) (n : Name) (k : Nat) (s : Src) (t : Time)
    (hf : Spec.firstHolder h n = some (k, s, t)) (i : Nat) :
    consultReads h n i = (if i ≤ k then 1 else 0) := by
  unfold consultReads consultReadsR; unfold Spec.firstHolder at hf; rw [hf]

example :
    let h : History := [.registerLoader true, .registerLoader false, .registerLoader true,
                        .loaderPut 2 0 1 10, .loaderPut 1 0 2 20]
    Spec.consults h 0 = true ∧ Spec.firstHolder h 0 = some (1, 2, 20) ∧ serve (run h) 0 = .served 2 ∧
      consultReads h 0 0 = 1 ∧ consultReads h 0 1 = 1 ∧ consultReads h 0 2 = 0 := by decide

/-! ## S6 — a name no loader has yields ErrTemplateNotFound and changes nothing in the cache -/

/-- `notFound` is returned exactly when the loaders are consulted and none has the name. -/
theorem C15_S6_notfound_iff (h : History) (n : Name) :
    serve (run h) n = .notFound ↔ (Spec.consults h n = true ∧ ∀ k, Spec.content h k n = none) := by
  rw [C15_refines, ← C15_S5_no_holder_iff]
  unfold Spec.expected expectedR Spec.consults Spec.firstHolder
  cases verdictR h.reverse n with
  | useHeld s => simp
  | consult =>
    cases firstHolderR h.reverse n with
    | none => simp
    | some hit => obtain ⟨k, s, t⟩ := hit; simp

/-- Nothing held under the name and no loader has it: `ErrTemplateNotFound`. -/
theorem C15_S6_unknown_name (h : History) (n : Name)
    (hh : Spec.held h n = none) (hnone : ∀ k, Spec.content h k n = none) :
    serve (run h) n = .notFound :=
  (C15_S6_notfound_iff h n).mpr ⟨(C15_consults_iff h n).mpr (Or.inl hh), hnone⟩

/-- History-shaped: a name that was never registered and never put into any loader is not found, whatever else
    happened. -/
theorem C15_S6_never_provided (h : History) (n : Name) (hnp : ∀ op, op ∈ h → Op.provides op n = false) :
    serve (run h) n = .notFound := by
  obtain ⟨a, b⟩ := not_provided h.reverse n (fun op hop => hnp op (List.mem_reverse.mp hop))
  exact C15_S6_unknown_name h n b a

/-- A call that ends in `ErrTemplateNotFound` leaves cache and flags exactly as they were — in EVERY engine state,
    reachable or not. (A stale entry whose template has vanished from its loader therefore stays in the cache.) -/
theorem C15_notfound_cache_unchanged (σ : State) (n : Name) (hnf : serve σ n = .notFound) :
    (load σ n).1.templates = σ.templates ∧ (load σ n).1.cache = σ.cache ∧
    (load σ n).1.autoReload = σ.autoReload ∧ (load σ n).1.debug = σ.debug := by
  unfold serve at hnf
  rw [load_canon] at hnf ⊢
  have hflags : (σ.checked n).cache = σ.cache ∧ (σ.checked n).autoReload = σ.autoReload ∧
      (σ.checked n).debug = σ.debug := by
    unfold State.checked
    split
    · split
      · exact ⟨rfl, rfl, rfl⟩
      · exact ⟨rfl, rfl, rfl⟩
    · exact ⟨rfl, rfl, rfl⟩
  cases hv : σ.verdict n with
  | useHeld s => rw [hv] at hnf; cases hnf
  | consult =>
    rw [hv] at hnf
    simp only [] at hnf ⊢
    cases hl : (loadLoop (σ.checked n).loaders 0 n).2 with
    | none => simp only [reload, hl]; exact ⟨checked_templates σ n, hflags⟩
    | some hit => obtain ⟨k, s, t⟩ := hit; simp [reload, hl] at hnf

example : serve (run [.registerLoader true, .loaderPut 0 1 4 4, .setCache false, .render 1]) 0 = .notFound :=
  C15_S6_never_provided _ 0 (by decide)

/-! ## The invariant -/

/-- Every cache entry is either a registration — then it is the most recent one under that name — or it was read,
    at an earlier moment `h₀` of the history at which caching was on, from the loader that was the first holder
    at that moment, and records that loader's source and (for a timestamp-aware loader, else 0) mtime of that
    moment. -/
theorem C15_inv (h : History) (n : Name) (e : Entry) (he : (run h).templates n = some e) :
    (e.loader = none ∧ Spec.registered h n = some e.src) ∨
    (∃ i h₀ t₀, e.loader = some i ∧ h₀ <+: h ∧ i < Spec.nLoaders h₀ ∧ Spec.cacheOn h₀ = true ∧
      Spec.firstHolder h₀ n = some (i, e.src, t₀) ∧ Spec.tsAware h₀ i = Spec.tsAware h i ∧
      e.lastMod = (if Spec.tsAware h i then t₀ else 0)) := by
  rw [(C15_refines_state h).held n] at he
  obtain ⟨s, lo, t⟩ := e
  cases lo with
  | none =>
    left
    refine ⟨rfl, ?_⟩
    unfold Spec.registered
    cases hr : registeredR h.reverse n with
    | none =>
      obtain ⟨i, hi⟩ := (heldR_registered h.reverse n).2 hr _ he
      cases hi
    | some s' =>
      have := (heldR_registered h.reverse n).1 s' hr
      rw [he] at this
      simp only [registeredEntry, Option.some.injEq, Entry.mk.injEq] at this
      rw [this.1]
  | some i =>
    right
    obtain ⟨r0, t0, h1, h2, h3, h4⟩ := heldR_origin h.reverse n s i t he
    have hlt : i < nLoadersR r0 := ((firstHolderR_some r0 n i s t0).mp h3).1
    have hts := tsAwareR_of_suffix h1 i hlt
    refine ⟨i, r0.reverse, t0, rfl, ?_, ?_, ?_, ?_, ?_, ?_⟩
    · rw [← List.reverse_suffix, List.reverse_reverse]; exact h1
    · unfold Spec.nLoaders; rw [List.reverse_reverse]; exact hlt
    · unfold Spec.cacheOn; rw [List.reverse_reverse]; exact h2
    · unfold Spec.firstHolder; rw [List.reverse_reverse]; exact h3
    · unfold Spec.tsAware; rw [List.reverse_reverse]; exact hts.symm
    · unfold Spec.tsAware; rw [hts]; exact h4

/-! ## The stronger reading of S3/S5 ("what a fresh engine would serve") — false for the code

Under caching + auto-reload one could read S3 and S5 together as: *as long as every loader is timestamp-aware
and every content change carries a newer mtime, the engine always serves the source of the first loader that has
the name now*. The code does not do that: on a cache hit only the loader the template came from is asked, so
a loader of HIGHER priority that gains the name afterwards is not noticed until the cached template's own loader
reports a change. We read the property's sentences as not demanding it (S3 speaks of "a change of a template in a
… loader", S5 of the order in which loaders are consulted; and with auto-reload off S4 demands the same
shadowing), but keep the full statement, its refutation and the exact exclusion visible. -/

/-- every registered loader is timestamp-aware -/
def allTimestampAware (h : History) : Bool := (List.range (Spec.nLoaders h)).all (fun i => Spec.tsAware h i)

/-- every put/touch of the history carries an mtime strictly greater than all earlier ones -/
def monotoneClock (h : History) : Bool := monotoneR h.reverse

/-- `n` is held from loader `i` while some loader of higher priority has the name -/
def shadowed (h : History) (n : Name) : Bool :=
  match Spec.held h n with
  | some ⟨_, some i, _⟩ => (List.range i).any (fun j => (Spec.content h j n).isSome)
  | _ => false

/-- the full-strength (eager) statement -/
def C15_S5_eager_statement : Prop :=
  ∀ (h : History) (n : Name), Spec.cacheOn h = true → Spec.autoReload h = true → Spec.registered h n = none →
    allTimestampAware h = true → monotoneClock h = true →
    serve (run h) n = holderOut (Spec.firstHolder h n)

/-- the concrete history that refutes it (replayed on the real engine by the harness, regression case
    `higher-priority-loader-gains-name`): two timestamp-aware loaders; loader 1 gets `a` (v1, mtime 10); auto-reload
    on; Load(a) → v1, cached; loader 0 gets `a` (v2, mtime 20); Load(a) → still v1, while the first holder is v2. -/
def eagerWitness : History :=
  [.registerLoader true, .registerLoader true, .loaderPut 1 0 1 10, .setAutoReload true, .load 0, .loaderPut 0 0 2 20]

theorem C15_S5_eager_counterexample : ¬ C15_S5_eager_statement := by
  intro hall
  have := hall eagerWitness 0 (by decide) (by decide) (by decide) (by decide) (by decide)
  revert this
  decide

/-- The eager statement holds for every history and name that is not `shadowed`. -/
theorem C15_S5_eager_partial (h : History) (n : Name)
    (hc : Spec.cacheOn h = true) (ha : Spec.autoReload h = true) (hr : Spec.registered h n = none)
    (hts : allTimestampAware h = true) (hm : monotoneClock h = true) (hns : shadowed h n = false) :
    serve (run h) n = holderOut (Spec.firstHolder h n) := by
  have hs := C15_refines_state h
  cases hh : Spec.held h n with
  | none => exact (C15_S5_first_loader_wins h n ((C15_consults_iff h n).mpr (Or.inl hh))).1
  | some e =>
    obtain ⟨s, lo, t⟩ := e
    obtain ⟨i, hi⟩ := (heldR_registered h.reverse n).2 hr _ hh
    simp only at hi; subst hi
    have hlt : i < nLoadersR h.reverse := heldR_loader_lt hh
    have htsi : Spec.tsAware h i = true := by
      unfold allTimestampAware at hts
      rw [List.all_eq_true] at hts
      exact hts i (List.mem_range.mpr hlt)
    cases hchg : changed (Spec.content h i n) t with
    | true => exact (C15_S3_change_consults h n s i t hc ha hh htsi hchg).1
    | false =>
      rw [(C15_S3_unchanged_not_reread h n s i t hc hh hchg).1]
      -- the loader's copy is still there and not newer; under a monotone clock it is the very same copy
      cases hcont : Spec.content h i n with
      | none => rw [hcont] at hchg; simp [changed] at hchg
      | some p =>
        obtain ⟨s', t'⟩ := p
        rw [hcont] at hchg
        have hle : t' ≤ t := by simpa [changed] using hchg
        obtain ⟨r0, t0, h1, _, h3, h4⟩ := heldR_origin h.reverse n s i t hh
        have hlt0 : i < nLoadersR r0 := ((firstHolderR_some r0 n i s t0).mp h3).1
        have hts0 : tsAwareR r0 i = true := by
          rw [← tsAwareR_of_suffix h1 i hlt0]; exact htsi
        rw [hts0] at h4
        simp only [if_true] at h4
        subst h4
        have hc0 : contentR r0 i n = some (s, t) := ((firstHolderR_some r0 n i s t).mp h3).2.1
        obtain ⟨pre, hpre⟩ := h1
        have hm' : monotoneR (pre ++ r0) = true := by rw [hpre]; exact hm
        have hcont' : contentR (pre ++ r0) i n = some (s', t') := by rw [hpre]; exact hcont
        obtain ⟨e1, e2⟩ := monotone_unchanged r0 i n s t hc0 pre s' t' hm' hcont' hle
        subst e1; subst e2
        -- and nobody of higher priority has the name
        have hfirst : ∀ k, k < i → Spec.content h k n = none := by
          intro k hk
          unfold shadowed at hns
          rw [hh] at hns
          simp only [List.any_eq_false, List.mem_range] at hns
          have := hns k hk
          cases hck : Spec.content h k n with
          | none => rfl
          | some q => rw [hck] at this; simp at this
        have : Spec.firstHolder h n = some (i, s', t') :=
          (C15_S5_first_holder_iff h n i s' t').mpr ⟨hlt, hcont, hfirst⟩
        rw [this]; rfl

/-- non-vacuity of the partial theorem: all hypotheses hold on a history with a real reload -/
example :
    let h : History := [.registerLoader true, .registerLoader true, .loaderPut 1 0 1 10, .setAutoReload true,
                        .load 0, .loaderPut 1 0 2 20]
    Spec.cacheOn h = true ∧ Spec.autoReload h = true ∧ Spec.registered h 0 = none ∧ allTimestampAware h = true ∧
      monotoneClock h = true ∧ shadowed h 0 = false ∧ serve (run h) 0 = .served 2 := by decide

/-- the witness is excluded by exactly that predicate -/
example : shadowed eagerWitness 0 = true := by decide

end Twig.EngineCache
