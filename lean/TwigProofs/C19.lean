/-
  Property C19 — built-in filters satisfy their defining equations for every input.

  Model: TwigModel/Filters.lean (extension.go of the fixed tree).  Every theorem quantifies over all
  inputs of the stated type; `example`s are non-vacuity witnesses; `…_counterexample` theorems record
  the inputs on which the Go code (as modelled) does NOT satisfy the property.
-/
import TwigProofs.Lemmas.Filters

namespace Twig.C19
open Twig.Flt
open Twig Utf8

/-! ## upper, lower, trim, capitalize are idempotent -/

/-- hypotheses are satisfiable: the map that leaves everything outside ASCII alone is lawful -/
theorem asciiOnly_lawful : CaseMap.asciiOnly.Lawful := by
  have up : ∀ r, CaseMap.asciiOnly.upper r = if r < 128 then asciiUp r else r := fun r => rfl
  have low : ∀ r, CaseMap.asciiOnly.lower r = if r < 128 then asciiLow r else r := fun r => rfl
  have sp : ∀ r, isSpaceRune r = true ↔
      (9 ≤ r ∧ r ≤ 13) ∨ r = 32 ∨ r = 0x85 ∨ r = 0xA0 ∨ r = 0x1680 ∨ (0x2000 ≤ r ∧ r ≤ 0x200A) ∨
      r = 0x2028 ∨ r = 0x2029 ∨ r = 0x202F ∨ r = 0x205F ∨ r = 0x3000 := by
    intro r; simp [isSpaceRune, or_assoc]
  have spf : ∀ r, isSpaceRune r = false ↔ ¬ (isSpaceRune r = true) := by intro r; simp
  constructor
  · intro r _; rw [up, up]; unfold asciiUp; (repeat' split) <;> omega
  · intro r _; rw [low, low]; unfold asciiLow; (repeat' split) <;> omega
  · intro r h; rw [up]; unfold asciiUp validScalar at *; (repeat' split) <;> omega
  · intro r h; rw [low]; unfold asciiLow validScalar at *; (repeat' split) <;> omega
  · intro r _ h; rw [spf, sp] at *; rw [up]; unfold asciiUp; (repeat' split) <;> omega
  · intro r _ h; rw [spf, sp] at *; rw [low]; unfold asciiLow; (repeat' split) <;> omega

theorem C19_upper_idempotent (cm : CaseMap) (h : cm.Lawful) (s : Bytes) :
    upperStr cm (upperStr cm s) = upperStr cm s := by
  unfold upperStr
  have hv : ∀ r ∈ (decodeRunes s).map cm.upper, validScalar r := by
    intro r hr; obtain ⟨x, hx, rfl⟩ := List.mem_map.mp hr
    exact h.up_valid x (decodeRunes_valid s x hx)
  rw [decodeRunes_encodeRunes _ hv, List.map_map]
  congr 1
  apply List.map_congr_left
  intro x hx; exact h.up_idem x (decodeRunes_valid s x hx)

theorem C19_lower_idempotent (cm : CaseMap) (h : cm.Lawful) (s : Bytes) :
    lowerStr cm (lowerStr cm s) = lowerStr cm s := by
  unfold lowerStr
  have hv : ∀ r ∈ (decodeRunes s).map cm.lower, validScalar r := by
    intro r hr; obtain ⟨x, hx, rfl⟩ := List.mem_map.mp hr
    exact h.low_valid x (decodeRunes_valid s x hx)
  rw [decodeRunes_encodeRunes _ hv, List.map_map]
  congr 1
  apply List.map_congr_left
  intro x hx; exact h.low_idem x (decodeRunes_valid s x hx)

/-- `strings.TrimSpace` twice is `strings.TrimSpace` once, for every byte string (valid UTF-8 or not) -/
theorem C19_trim_idempotent (s : Bytes) : trimStr (trimStr s) = trimStr s :=
  trim_idem_gen spaceEncs spaceEncs_ne_nil s

/-- capitalize (and title, the same function) is idempotent, for every byte string -/
theorem C19_capitalize_idempotent (cm : CaseMap) (h : cm.Lawful) (s : Bytes) :
    capitalizeStr cm (capitalizeStr cm s) = capitalizeStr cm s := by
  unfold capitalizeStr
  have hv := capR_valid cm h (decodeRunes s) (decodeRunes_valid s)
  rw [decodeRunes_encodeRunes _ hv, capR_idem cm h _ (decodeRunes_valid s)]

theorem strFilter_sc (f : Bytes → Bytes) (x : Scalar) : strFilter f (.sc x) = .ok (.sc (.str (f x.toStr))) := rfl

/-- the same four facts for the filters as the driver runs them (`applyFilter`), on any scalar input -/
theorem C19_string_filters_idempotent (cm : CaseMap) (h : cm.Lawful) (name : String)
    (hn : name ∈ ["upper", "lower", "trim", "capitalize", "title"]) (x : Scalar) :
    ∃ w, applyFilter cm name (.sc x) [] = .ok w ∧ applyFilter cm name w [] = .ok w := by
  simp only [List.mem_cons, List.not_mem_nil, or_false] at hn
  rcases hn with rfl | rfl | rfl | rfl | rfl
  · refine ⟨.sc (.str (upperStr cm x.toStr)), rfl, ?_⟩
    rw [show ∀ v, applyFilter cm "upper" v [] = strFilter (upperStr cm) v from fun _ => rfl, strFilter_sc]; simp only [Scalar.toStr]; rw [C19_upper_idempotent cm h]
  · refine ⟨.sc (.str (lowerStr cm x.toStr)), rfl, ?_⟩
    rw [show ∀ v, applyFilter cm "lower" v [] = strFilter (lowerStr cm) v from fun _ => rfl, strFilter_sc]; simp only [Scalar.toStr]; rw [C19_lower_idempotent cm h]
  · refine ⟨.sc (.str (trimStr x.toStr)), rfl, ?_⟩
    rw [show ∀ v, applyFilter cm "trim" v [] = strFilter trimStr v from fun _ => rfl, strFilter_sc]; simp only [Scalar.toStr]; rw [C19_trim_idempotent]
  · refine ⟨.sc (.str (capitalizeStr cm x.toStr)), rfl, ?_⟩
    rw [show ∀ v, applyFilter cm "capitalize" v [] = strFilter (capitalizeStr cm) v from fun _ => rfl, strFilter_sc]; simp only [Scalar.toStr]; rw [C19_capitalize_idempotent cm h]
  · refine ⟨.sc (.str (capitalizeStr cm x.toStr)), rfl, ?_⟩
    rw [show ∀ v, applyFilter cm "title" v [] = strFilter (capitalizeStr cm) v from fun _ => rfl, strFilter_sc]; simp only [Scalar.toStr]; rw [C19_capitalize_idempotent cm h]

/-- non-vacuity: a string with an upper-case letter, a multi-byte rune, an invalid byte and spaces -/
example : upperStr CaseMap.asciiOnly [0x61, 32, 0x42, 0xC3, 0xA9] = [0x41, 32, 0x42, 0xC3, 0xA9] := by decide
example : capitalizeStr CaseMap.asciiOnly [32, 0x68, 0x49, 32, 32, 0xC3, 0xA9, 0xFF, 0x58, 9] = [0x48, 0x69, 32, 0xC3, 0xA9, 0xEF, 0xBF, 0xBD, 0x78] := by decide
example : trimStr [32, 0xC2, 0xA0, 0x61, 32, 0x62, 0xE2, 0x80, 0x83, 10] = [0x61, 32, 0x62] := by decide
/-- what trim leaves alone: an invalid byte is not a space, even one that ends like NBSP -/
example : trimStr [0xA0, 0x61, 0xA0] = [0xA0, 0x61, 0xA0] := by decide

/-! ## reverse is a length-preserving involution -/

theorem C19_reverse_list_involution (ty : ElemTy) (arr : Bool) (xs : List Scalar) :
    ∃ ys, reverseV (.list ty arr xs) = .ok (.list ty false ys) ∧ ys.length = xs.length ∧
      reverseV (.list ty false ys) = .ok (.list ty false xs) := by
  exact ⟨xs.reverse, rfl, List.length_reverse, by simp [reverseV]⟩

/-- on strings: reversing twice re-encodes the string — the identity exactly on valid UTF-8, and every
    invalid byte becomes U+FFFD (EF BF BD) otherwise -/
theorem C19_reverse_str_involution (s : Bytes) : reverseStr (reverseStr s) = sanitize s := by
  unfold reverseStr sanitize
  have hv : ∀ r ∈ (decodeRunes s).reverse, validScalar r := by
    intro r hr; exact decodeRunes_valid s r (List.mem_reverse.mp hr)
  rw [decodeRunes_encodeRunes _ hv, List.reverse_reverse]

theorem C19_reverse_str_involution_valid (s : Bytes) (h : validUtf8 s) : reverseStr (reverseStr s) = s := by
  rw [C19_reverse_str_involution]; exact h

/-- the number of characters (`length`) is preserved for EVERY string -/
theorem C19_reverse_str_length (s : Bytes) : runeCount (reverseStr s) = runeCount s := by
  unfold reverseStr runeCount
  have hv : ∀ r ∈ (decodeRunes s).reverse, validScalar r := by
    intro r hr; exact decodeRunes_valid s r (List.mem_reverse.mp hr)
  rw [decodeRunes_encodeRunes _ hv, List.length_reverse]

example : validUtf8 [0x61, 0xC3, 0xA9, 0xE2, 0x82, 0xAC, 0xF0, 0x9F, 0x98, 0x80] := by decide
example : reverseStr [0x61, 0xC3, 0xA9, 0xE2, 0x82, 0xAC] = [0xE2, 0x82, 0xAC, 0xC3, 0xA9, 0x61] := by decide
/-- invalid UTF-8: the involution fails exactly by the re-encoding -/
theorem C19_reverse_str_invalid_example : reverseStr (reverseStr [0x61, 0xFF]) = [0x61, 0xEF, 0xBF, 0xBD] := by decide

/-! ## sort returns an ordered permutation -/

theorem C19_sort_perm (k : SortKind) (xs : List Scalar) : (sortList k xs).Perm xs :=
  insertSort_perm _ _

theorem C19_sort_sorted (k : SortKind) (xs : List Scalar) :
    (sortList k xs).Pairwise (fun a c => sortLe k a c = true) :=
  insertSort_sorted _ (sortLe_trans k) (sortLe_total k) xs

/-- the filter: a list comes back as a list that is a permutation, ordered by the code's key -/
theorem C19_sort_filter (ty : ElemTy) (arr : Bool) (xs : List Scalar) :
    ∃ ty' ys, sortV (.list ty arr xs) = .ok (.list ty' false ys) ∧ ys.Perm xs ∧
      ys.Pairwise (fun a c => sortLe (sortKindOf ty arr) a c = true) :=
  ⟨_, _, rfl, C19_sort_perm _ xs, C19_sort_sorted _ xs⟩

/-- ordered lists that are permutations of each other are equal, for an antisymmetric order -/
theorem eq_of_sorted_perm {α : Type} (le : α → α → Prop) (antisymm : ∀ a c, le a c → le c a → a = c) :
    ∀ (l₁ l₂ : List α), l₁.Perm l₂ → l₁.Pairwise le → l₂.Pairwise le → l₁ = l₂
  | [], l₂, hp, _, _ => (List.Perm.nil_eq hp)
  | a :: t₁, [], hp, _, _ => by have := hp.length_eq; simp at this
  | a :: t₁, c :: t₂, hp, h₁, h₂ => by
    rw [List.pairwise_cons] at h₁ h₂
    have hac : a = c := by
      have ha : a ∈ c :: t₂ := hp.mem_iff.mp (by simp)
      have hc : c ∈ a :: t₁ := hp.mem_iff.mpr (by simp)
      rcases List.mem_cons.mp ha with rfl | ha'
      · rfl
      · rcases List.mem_cons.mp hc with rfl | hc'
        · rfl
        · exact antisymm _ _ (h₁.1 c hc') (h₂.1 a ha')
    subst hac
    congr 1
    exact eq_of_sorted_perm le antisymm t₁ t₂ (List.Perm.cons_inv hp) h₁.2 h₂.2

/-- WHY a merge sort may stand for Go's unstable `sort.Slice`: any two ordered permutations of the
    same list show the same sequence of keys — and the key of the string order is what gets printed -/
theorem C19_sort_canonical (xs l₁ l₂ : List Scalar) (p₁ : l₁.Perm xs) (p₂ : l₂.Perm xs)
    (s₁ : l₁.Pairwise (fun a c => sortLe .byString a c = true))
    (s₂ : l₂.Pairwise (fun a c => sortLe .byString a c = true)) :
    l₁.map Scalar.toStr = l₂.map Scalar.toStr := by
  apply eq_of_sorted_perm (fun a c : Bytes => a ≤ c) (fun a c h1 h2 => List.le_antisymm h1 h2)
  · exact (p₁.trans p₂.symm).map _
  · rw [List.pairwise_map]; exact s₁.imp (by intro a c h; simpa [sortLe, lexLe] using h)
  · rw [List.pairwise_map]; exact s₂.imp (by intro a c h; simpa [sortLe, lexLe] using h)

theorem C19_sort_canonical_int (xs l₁ l₂ : List Scalar) (p₁ : l₁.Perm xs) (p₂ : l₂.Perm xs)
    (s₁ : l₁.Pairwise (fun a c => sortLe .byInt a c = true))
    (s₂ : l₂.Pairwise (fun a c => sortLe .byInt a c = true)) :
    l₁.map Scalar.numKey = l₂.map Scalar.numKey := by
  apply eq_of_sorted_perm (fun a c : Int => a ≤ c) (fun a c h1 h2 => Int.le_antisymm h1 h2)
  · exact (p₁.trans p₂.symm).map _
  · rw [List.pairwise_map]; exact s₁.imp (by intro a c h; simpa [sortLe] using h)
  · rw [List.pairwise_map]; exact s₂.imp (by intro a c h; simpa [sortLe] using h)

/-- the repo's own example: mixed values sort by their string form -/
example : sortV (.list .any false [.int 3, .str [0x31], .int 2, .str [0x31, 0x30]])
    = .ok (.list .any false [.str [0x31], .str [0x31, 0x30], .int 2, .int 3]) := by decide
/-- `[]int` sorts numerically, the same numbers in a Go array by their string form -/
example : sortV (.list .int false [.int 3, .int 20, .int 10]) = .ok (.list .any false [.int 3, .int 10, .int 20]) := by decide
example : sortV (.list .int true [.int 3, .int 20, .int 10]) = .ok (.list .int false [.int 10, .int 20, .int 3]) := by decide


/-! ## length = the number of elements that first, last, slice and a for loop observe

  `items v` is the sequence a `for` loop visits (ForNode.renderForLoop; compared with the real loop by
  the harness through the op `filters_items`). -/

/-- the values that have a length: strings, lists (slices, arrays), maps -/
def iterable : Val → Bool
  | .sc (.str _) => true
  | .list _ _ _ => true
  | .map _ _ => true
  | _ => false

theorem C19_length_items (v : Val) (h : iterable v = true) :
    lengthV v = .ok (.sc (.int (items v).length)) := by
  match v, h with
  | .sc (.str s), _ => simp [lengthV, items, runeCount]
  | .list _ _ xs, _ => rfl
  | .map _ kvs, _ =>
    simp only [lengthV, items, List.length_map]
    rw [(mapSorted_perm kvs).length_eq]

/-- `first` is the first element the loop visits (`""` / null when there is none) — for every string,
    valid UTF-8 or not -/
theorem C19_first_items (v : Val) (h : iterable v = true) :
    firstV v = .ok (.sc (match (items v).head? with
      | some x => x
      | none => match v with
        | .sc (.str _) => .str []
        | _ => .null)) := by
  match v, h with
  | .sc (.str s), _ =>
    simp only [firstV, items]
    cases decodeRunes s <;> rfl
  | .list _ _ xs, _ => cases xs <;> rfl
  | .map _ kvs, _ =>
    simp only [firstV, items]
    cases mapSorted kvs <;> rfl

/-- `last` on a list is the last element the loop visits -/
theorem C19_last_items_list (ty : ElemTy) (arr : Bool) (xs : List Scalar) :
    lastV (.list ty arr xs) = .ok (.sc (match (items (.list ty arr xs)).getLast? with
      | some x => x
      | none => .null)) := by
  simp only [lastV, items]
  cases xs.getLast? <;> rfl

/-- `last` on a VALID string is the last character the loop visits -/
theorem C19_last_items_str (s : Bytes) (hv : validUtf8 s) :
    lastV (.sc (.str s)) = .ok (.sc (match (items (.sc (.str s))).getLast? with
      | some x => x
      | none => .str [])) := by
  simp only [lastV, items, List.getLast?_map]
  cases h : (decodeRunes s).getLast? with
  | none =>
    have : decodeRunes s = [] := List.getLast?_eq_none_iff.mp h
    have hs : s = [] := by
      have := hv; unfold validUtf8 sanitize at this; rw [‹decodeRunes s = []›] at this
      simpa [encodeRunes, encodeN, ofNats] using this.symm
    subst hs; rfl
  | some r =>
    simp only [Option.map_some]
    rw [last_chunk_valid s hv r h]

/-- on invalid UTF-8 `last` hands out the raw byte while the loop (and `first`) see U+FFFD; the COUNT
    still agrees (`C19_length_items`) -/
theorem C19_last_invalid_example :
    lastV (.sc (.str [0x61, 0xFF])) = .ok (.sc (.str [0xFF])) ∧
    (items (.sc (.str [0x61, 0xFF]))).getLast? = some (.str [0xEF, 0xBF, 0xBD]) := by decide

example : validUtf8 [0x61, 0xC3, 0xA9] ∧ lastV (.sc (.str [0x61, 0xC3, 0xA9])) = .ok (.sc (.str [0xC3, 0xA9])) ∧
    firstV (.sc (.str [0xC3, 0xA9, 0x61])) = .ok (.sc (.str [0xC3, 0xA9])) ∧
    lengthV (.sc (.str [0x68, 0xC3, 0xA9, 0x6C, 0x6C, 0x6F])) = .ok (.sc (.int 5)) := by decide

/-! ## slice follows Twig's index rules -/

theorem inInt64_of_bounds (i : Int) (h1 : -(2 ^ 63) ≤ i) (h2 : i < 2 ^ 63) : inInt64 i = true := by
  unfold inInt64 int64Min int64Max
  simp only [Bool.and_eq_true, decide_eq_true_eq]
  omega

theorem lt_of_inInt64 (i : Int) (h : inInt64 i = true) : i < 2 ^ 63 := by
  unfold inInt64 int64Min int64Max at h
  simp only [Bool.and_eq_true, decide_eq_true_eq] at h
  omega

/-- filterSlice's index arithmetic IS Twig's slice — for every list, every start, every optional length
    (Go ints read as unbounded integers) -/
theorem C19_slice_spec {α : Type} (xs : List α) (start : Int) (len : Option Int) :
    Slice.goSlice xs start len = Slice.specSlice xs start len := Slice.goSlice_eq_spec xs start len

/-- FULL STRENGTH, for the code as it runs with 64-bit ints (`end = start + length` may wrap; the guard
    `end > count || end < start` catches it): every list a Go program can hold, every 64-bit start and
    optional length.  (Before 27a7ba4 the wrap made `v[start:end]` panic.) -/
theorem C19_slice_total {α : Type} (xs : List α) (start : Int) (len : Option Int)
    (hn : (xs.length : Int) < 2 ^ 63) (hl : ∀ l, len = some l → inInt64 l = true) :
    Slice.goSlice64 xs start len = Slice.specSlice xs start len := by
  apply Slice.goSlice64_eq_spec xs start len hn
  intro l h
  exact lt_of_inInt64 l (hl l h)

/-- pinned regression (the former counterexample): `'hello'|slice(1, 9223372036854775807)` is "ello" -/
example : Slice.goSlice64 [104, 101, 108, 108, 111] 1 (some (2 ^ 63 - 1)) = [101, 108, 108, 111] := by decide
example : sliceV (.sc (.str [104, 101, 108, 108, 111])) [.sc (.int 2), .sc (.int (2 ^ 63 - 1))]
    = .ok (.sc (.str [108, 108, 111])) := by decide

/-- the filter: slicing a list gives the list of the sliced elements; slicing a string gives a string
    whose characters are the sliced characters — in both cases `items` of the result is Twig's slice of
    `items` of the input (so `length`, `first`, `last` and `for` all see the same elements) -/
theorem C19_slice_items (v : Val) (hv : (∃ s, v = .sc (.str s)) ∨ ∃ ty arr xs, v = .list ty arr xs)
    (start : Int) (len : Option Int) (hs : inInt64 start = true) (hl : ∀ l, len = some l → inInt64 l = true)
    (hn : ((items v).length : Int) < 2 ^ 63) :
    ∃ w, sliceV v (.sc (.int start) :: (match len with | some l => [.sc (.int l)] | none => [])) = .ok w ∧
      items w = Slice.specSlice (items v) start len := by
  rcases hv with ⟨s, rfl⟩ | ⟨ty, arr, xs, rfl⟩
  · have hlen : (items (.sc (.str s))).length = (decodeRunes s).length := by simp [items]
    rw [hlen] at hn
    have hgo := C19_slice_total (decodeRunes s) start len hn hl
    have hvalid : ∀ r ∈ Slice.specSlice (decodeRunes s) start len, validScalar r := by
      intro r hr
      apply decodeRunes_valid s r
      unfold Slice.specSlice at hr
      cases len with
      | none => exact List.mem_of_mem_drop hr
      | some l =>
        simp only [] at hr
        split at hr <;> exact List.mem_of_mem_drop (List.mem_of_mem_take hr)
    refine ⟨.sc (.str (encodeRunes (Slice.specSlice (decodeRunes s) start len))), ?_, ?_⟩
    · cases len with
      | none => simp [sliceV, toIntArg, pure, Except.pure, hs, hgo]
      | some l => simp [sliceV, toIntArg, pure, Except.pure, Except.map, hs, hl l rfl, hgo]
    · simp only [items]
      rw [decodeRunes_encodeRunes _ hvalid, Slice.specSlice_map]
  · have hlen : (items (.list ty arr xs)).length = xs.length := rfl
    rw [hlen] at hn
    have hgo := C19_slice_total xs start len hn hl
    refine ⟨.list ty false (Slice.specSlice xs start len), ?_, rfl⟩
    cases len with
    | none => simp [sliceV, toIntArg, pure, Except.pure, hs, hgo]
    | some l => simp [sliceV, toIntArg, pure, Except.pure, Except.map, hs, hl l rfl, hgo]

/-- the pinned-tree defect (omitted length read as -1) and the index rules on examples -/
example : sliceV (.sc (.str [104, 101, 108, 108, 111])) [.sc (.int 1)] = .ok (.sc (.str [101, 108, 108, 111])) := by decide
example : sliceV (.sc (.str [104, 101, 108, 108, 111])) [.sc (.int 1), .sc (.int (-1))] = .ok (.sc (.str [101, 108, 108])) := by decide
example : sliceV (.sc (.str [104, 101, 108, 108, 111])) [.sc (.int (-2)), .sc .null] = .ok (.sc (.str [108, 111])) := by decide
example : Slice.specSlice [1, 2, 3, 4, 5] (-9) (some 2) = [1, 2] := by decide
example : sliceV (.list .int true [.int 1, .int 2, .int 3]) [.sc (.int 1)] = .ok (.list .int false [.int 2, .int 3]) := by decide

/-! ## join then split restores a list of separator-free strings -/

theorem C19_split_join (c : UInt8) (xs : List Bytes) (hne : xs ≠ []) (hfree : ∀ x ∈ xs, c ∉ x) :
    splitByte c (joinBytes [c] xs) = xs := by
  unfold splitByte joinBytes
  apply splitP_joinWith (fun x => x == c) c (by simp) xs hne
  intro w hw x hx
  have := hfree w hw
  simp only [beq_eq_false_iff_ne, ne_eq]
  intro e; subst e; exact this hx

/-- the filters: `xs|join(c)|split(c)` is the list of the strings of `xs` -/
theorem C19_split_join_filter (ty : ElemTy) (arr : Bool) (xs : List Scalar) (c : UInt8) (hne : xs ≠ [])
    (hfree : ∀ x ∈ xs, c ∉ x.toStr) :
    ∃ j, joinV (.list ty arr xs) [.sc (.str [c])] = .ok j ∧
      splitV j [.sc (.str [c])] = .ok (.list .str false (xs.map fun x => .str x.toStr)) := by
  refine ⟨_, rfl, ?_⟩
  have h := C19_split_join c (xs.map Scalar.toStr) (by simpa using hne)
    (by intro x hx; obtain ⟨y, hy, rfl⟩ := List.mem_map.mp hx; exact hfree y hy)
  simp [splitV, sepArg, Scalar.toStr, h]

/-- FULL-STRENGTH statement (any list, any separator): it fails in the two recorded ways -/
def SplitJoinTotal : Prop :=
  ∀ (sep : Bytes) (xs : List Bytes), (∀ x ∈ xs, ∀ c ∈ sep, c ∉ x) →
    (match sep with | [c] => splitByte c (joinBytes sep xs) | _ => splitAny sep (joinBytes sep xs)) = xs

/-- RECORDED FINDING 1: the empty list joins to "" which splits to one empty string -/
theorem C19_split_join_counterexample_empty : splitByte 44 (joinBytes [44] []) = [[]] := by decide

/-- RECORDED FINDING 2: a separator of several characters splits at EACH of them (a regexp character
    class; pinned by the repo's own test): `['a b', 'c']|join(', ')|split(', ')` has four parts -/
theorem C19_split_join_counterexample_multichar :
    splitAny [44, 32] (joinBytes [44, 32] [[97, 32, 98], [99]]) = [[97], [98], [], [99]] := by decide

theorem C19_split_join_not_total : ¬ SplitJoinTotal := by
  intro h
  have := h [44] [] (by simp)
  simp only [] at this
  rw [C19_split_join_counterexample_empty] at this
  exact absurd this (by simp)

example : splitByte 44 (joinBytes [44] [[97], [], [98, 99]]) = [[97], [], [98, 99]] := by decide

/-! ## default replaces exactly the empty and undefined values -/

/-- the empty values, spelled out: null (also what an undefined variable evaluates to), "", false, 0,
    ±0.0, a list / array / map without elements — and nothing else -/
theorem C19_isEmpty_iff (v : Val) :
    isEmptyV v = true ↔
      v = .sc .null ∨ v = .sc (.str []) ∨ v = .sc (.bool false) ∨ v = .sc (.int 0) ∨
      (∃ neg k, v = .sc (.dec neg 0 k)) ∨ (∃ ty arr, v = .list ty arr []) ∨ (∃ ty, v = .map ty []) := by
  match v with
  | .sc .null => simp [isEmptyV]
  | .sc (.str s) => cases s <;> simp [isEmptyV]
  | .sc (.bool bb) => cases bb <;> simp [isEmptyV]
  | .sc (.int i) => simp [isEmptyV]
  | .sc (.dec neg m k) => simp [isEmptyV]
  | .list ty arr xs => cases xs <;> simp [isEmptyV]
  | .map ty kvs => cases kvs <;> simp [isEmptyV]

theorem C19_default_spec (v d : Val) (rest : List Val) :
    defaultV v (d :: rest) = .ok (if isEmptyV v then d else v) := by
  simp only [defaultV]; by_cases h : isEmptyV v = true <;> simp [h]

theorem C19_default_noarg (v : Val) : defaultV v [] = .ok v := rfl

example : defaultV (.sc (.str [48])) [.sc (.str [68])] = .ok (.sc (.str [48])) := by decide   -- "0" is not empty
example : defaultV (.sc (.int 0)) [.sc (.str [68])] = .ok (.sc (.str [68])) := by decide
example : defaultV (.list .int true []) [.sc (.str [68])] = .ok (.sc (.str [68])) := by decide

/-! ## merge concatenates lists and lets later maps win -/

theorem flatMap_congr' {α β : Type} (l : List α) (f g : α → List β) (h : ∀ a ∈ l, f a = g a) :
    l.flatMap f = l.flatMap g := by
  induction l with
  | nil => rfl
  | cons a rest ih =>
    simp only [List.flatMap_cons]
    rw [h a (by simp), ih (fun x hx => h x (by simp [hx]))]

/-- lists: the result holds the elements of the base followed by those of every argument, in order —
    whatever the element types (typed result when they fit, `[]interface{}` otherwise) -/
theorem C19_merge_lists (ty : ElemTy) (arr : Bool) (xs : List Scalar) (args : List Val)
    (h : ∀ a ∈ args, a.isList = true) :
    ∃ ty', mergeV (.list ty arr xs) args = .ok (.list ty' false (xs ++ args.flatMap Val.elems)) := by
  have e2 : args.flatMap Val.elemsOrSelf = args.flatMap Val.elems := by
    apply flatMap_congr'; intro a ha
    have := h a ha
    cases a <;> simp_all [Val.isList, Val.elems, Val.elemsOrSelf]
  have nomap : args.any Val.isMap = false := by
    rw [List.any_eq_false]; intro a ha
    have := h a ha
    cases a <;> simp_all [Val.isList, Val.isMap]
  simp only [mergeV, nomap, e2]
  split
  · exact ⟨ty, rfl⟩
  · exact ⟨.any, by simp⟩

theorem C19_merge_lists_binary (ty ty2 : ElemTy) (arr arr2 : Bool) (xs ys : List Scalar) :
    ∃ ty', mergeV (.list ty arr xs) [.list ty2 arr2 ys] = .ok (.list ty' false (xs ++ ys)) := by
  have := C19_merge_lists ty arr xs [.list ty2 arr2 ys] (by simp [Val.isList])
  simpa [Val.elems] using this

/-- maps (one argument): keys stay unique, the key set is the union, and a lookup answers from the
    argument first — later maps win -/
theorem C19_merge_maps (ty ty2 : ElemTy) (m1 m2 : List (Bytes × Scalar)) (h1 : MapWF m1) (h2 : MapWF m2) :
    ∃ ty' m, mergeV (.map ty m1) [.map ty2 m2] = .ok (.map ty' m) ∧ MapWF m ∧
      (∀ k, k ∈ m.map Prod.fst ↔ k ∈ m1.map Prod.fst ∨ k ∈ m2.map Prod.fst) ∧
      (∀ k, mapGet k m = match mapGet k m2 with | some v => some v | none => mapGet k m1) := by
  refine ⟨if mapMisfit ty (.map ty2 m2) then .any else ty, mapMerge m1 m2, by simp [mergeV, Val.entries],
    mapMerge_wf m1 m2 h1, ?_, ?_⟩
  · intro k; exact mapMerge_keys_mem k m1 m2
  · intro k; exact mapGet_merge k m1 m2 h2

/-- maps (any number of arguments): the result is the left-to-right fold of the binary merge over the map
    arguments (a non-map argument has no entries and changes nothing); uniqueness of keys is preserved -/
theorem C19_merge_maps_nary (ty : ElemTy) (m1 : List (Bytes × Scalar)) (args : List Val) (h1 : MapWF m1) :
    ∃ ty' m, mergeV (.map ty m1) args = .ok (.map ty' m) ∧
      m = args.foldl (fun acc a => mapMerge acc a.entries) m1 ∧ MapWF m := by
  have wf : ∀ (acc : List (Bytes × Scalar)), MapWF acc →
      MapWF (args.foldl (fun acc a => mapMerge acc a.entries) acc) := by
    induction args with
    | nil => intro acc h; exact h
    | cons a rest ih => intro acc h; exact ih _ (mapMerge_wf _ _ h)
  exact ⟨_, _, rfl, rfl, wf m1 h1⟩

/-- reading a Go map into the model keeps keys unique -/
theorem mapOfList_wf (kvs : List (Bytes × Scalar)) : MapWF (mapOfList kvs) :=
  mapMerge_wf [] kvs (by simp [MapWF])

example : mergeV (.map .int [([120], .int 1), ([97], .int 5)]) [.map .any [([120], .str [113])]]
    = .ok (.map .any [([120], .str [113]), ([97], .int 5)]) := by decide
example : mergeV (.list .int false [.int 3, .int 1]) [.list .str false [.str [122]], .sc (.int 5)]
    = .ok (.list .any false [.int 3, .int 1, .str [122], .int 5]) := by decide

/-! ## keys lists every key once -/

theorem C19_keys_once (ty : ElemTy) (m : List (Bytes × Scalar)) (h : MapWF m) :
    ∃ (ty' : ElemTy) (ks : List Bytes), keysV (.map ty m) = .ok (.list ty' false (ks.map .str)) ∧
      ks.Nodup ∧ (∀ k, k ∈ ks ↔ k ∈ m.map Prod.fst) ∧ ks.length = m.length ∧
      ks.Pairwise (fun a c => lexLe a c = true) := by
  refine ⟨_, mapKeys m, rfl, ?_, ?_, ?_, ?_⟩
  · exact (mapKeys_perm m).nodup_iff.mpr h
  · intro k; exact (mapKeys_perm m).mem_iff
  · rw [(mapKeys_perm m).length_eq]; simp
  · exact insertSort_sorted _ lexLe_trans lexLe_total _

example : keysV (.map .any [([98], .int 1), ([97], .int 2), ([49, 48], .null)])
    = .ok (.list .str false [.str [49, 48], .str [97], .str [98]]) := by decide


/-! ## abs, round, number_format agree with exact decimal arithmetic

  A number is `±m/10^k`.  SPEC: `specRound m k p` is the magnitude of `round(x·10^p)` in exact decimal
  arithmetic, ties away from zero (PHP/Twig `round`, Go `math.Round`); the sign is kept.  `goRoundN` is
  the digit-string arithmetic of `roundDecimal` (filterRound), `goFixedN` what `%.nf` computes in binary64
  (filterNumberFormat) — TwigModel.Filters.Num. -/

open Num

/-- exact: `round(m/10^k · 10^p)` -/
def specRound (m k p : Nat) : Nat := if k ≤ p then m * 10 ^ (p - k) else specRoundDiv m (10 ^ (k - p))

/-- what `specRound` means when nothing has to be dropped: the same number with more decimals -/
theorem specRound_exact (m k p : Nat) (h : k ≤ p) : specRound m k p * 10 ^ k = m * 10 ^ p := by
  unfold specRound; rw [if_pos h, Nat.mul_assoc, ← Nat.pow_add]; congr 2; omega

/-- ... and when digits are dropped: the nearest multiple of `10^-p`, ties away from zero, and the
    only such number (`|m/10^k − n/10^p| ≤ ½·10^-p`, with `<` on the upper side) -/
theorem specRound_nearest (m k p : Nat) (h : p < k) :
    let d := 10 ^ (k - p)
    2 * d * specRound m k p ≤ 2 * m + d ∧ 2 * m + d < 2 * d * (specRound m k p + 1) ∧
    ∀ n, 2 * d * n ≤ 2 * m + d → 2 * m + d < 2 * d * (n + 1) → n = specRound m k p := by
  have hd : 0 < 10 ^ (k - p) := Nat.pow_pos (by omega)
  have e : specRound m k p = specRoundDiv m (10 ^ (k - p)) := by unfold specRound; rw [if_neg (by omega)]
  simp only [e]
  exact ⟨(specRoundDiv_spec m _ hd).1, (specRoundDiv_spec m _ hd).2, fun n h1 h2 => specRoundDiv_unique m _ n hd h1 h2⟩

/-- abs: the magnitude, exactly -/
theorem C19_abs_exact (neg : Bool) (m k : Nat) (h : exactFloat m k = true) :
    absV (.sc (.dec neg m k)) = .ok (.sc (.dec false m k)) := by
  simp [absV, toFloatArg, pure, Except.pure, h]

theorem C19_abs_int (i : Int) (h : exactFloat i.natAbs 0 = true) :
    absV (.sc (.int i)) = .ok (.sc (.dec false i.natAbs 0)) := by
  simp [absV, toFloatArg, pure, Except.pure, h]

/-- values that are not numbers come back unchanged -/
theorem C19_abs_passthrough : absV (.sc .null) = .ok (.sc .null) ∧
    absV (.sc (.str [104, 105])) = .ok (.sc (.str [104, 105])) ∧ absV (.list .any false []) = .ok (.list .any false []) := by decide

example : absV (.sc (.dec true 25 1)) = .ok (.sc (.dec false 25 1)) ∧ (Scalar.dec false 25 1).toStr = [50, 46, 53] := by decide
example : absV (.sc (.int (-9007199254740992))) = .ok (.sc (.dec false 9007199254740992 0)) := by decide
example : absV (.sc (.str [45, 49, 50, 46, 53])) = .ok (.sc (.dec false 125 1)) := by decide   -- "-12.5"

/-- FULL-STRENGTH statements: the Go code (as modelled) computes the exact decimal rounding.
    `RoundExact` holds (C19_round_exact); `NumberFormatExact` fails on decimal ties. -/
def RoundExact : Prop := ∀ m k p, goRoundN m k p = specRound m k p
def NumberFormatExact : Prop := ∀ m k d, goFixedN m k d = specRound m k d

/-- a decimal exactly half-way between two results: the class on which `%.nf` (binary64) decides -/
def decimalTie (m k p : Nat) : Bool := decide (p < k) && isTie m (10 ^ (k - p))

theorem specRound_eq_specMode (m k p : Nat) : specRound m k p = specMode .common false m k p := rfl

/-- round (method common) IS exact decimal rounding, ties away from zero: for every decimal `m/10^k` and
    every precision `p ≥ 0`.  filterRound works on the digit string of the shortest decimal
    representation (`roundDecimal`); `goRoundN` is that digit arithmetic (`roundCore`: cut, look at the
    first dropped digit, increment with carry), proved equal to the numeric spec. -/
theorem C19_round_exact : RoundExact := fun m k p => goRoundModeN_eq_spec .common false m k p

/-- the same for the methods ceil ('u', towards +∞) and floor ('d', towards −∞), with the sign -/
theorem C19_round_mode_exact (mode : Mode) (neg : Bool) (m k p : Nat) :
    goRoundModeN mode neg m k p = specMode mode neg m k p := goRoundModeN_eq_spec mode neg m k p

/-- what the three modes mean on magnitudes when digits are dropped (`d = 10^(k-p)`):
    common = nearest, ties up; up = ceiling of the signed value; down = floor of the signed value -/
theorem specModeDiv_meaning (neg : Bool) (m d : Nat) (hd : 0 < d) :
    specModeDiv .common neg m d = specRoundDiv m d ∧
    (d * specModeDiv .up false m d ≥ m ∧ d * specModeDiv .up false m d < m + d) ∧      -- ceil(+x)
    (d * specModeDiv .up true m d ≤ m ∧ m < d * specModeDiv .up true m d + d) ∧        -- ceil(−x) = −floor(x)
    (d * specModeDiv .down false m d ≤ m ∧ m < d * specModeDiv .down false m d + d) ∧  -- floor(+x)
    (d * specModeDiv .down true m d ≥ m ∧ d * specModeDiv .down true m d < m + d) := by -- floor(−x) = −ceil(x)
  have hm := Nat.div_add_mod m d
  have hr := Nat.mod_lt m hd
  simp only [specModeDiv, Bool.not_false, Bool.true_and, Bool.not_true, Bool.false_and, Bool.false_eq_true,
    if_false, Nat.add_zero, true_and]
  generalize m / d = q at *
  generalize m % d = r at *
  have e : d * (q + 1) = d * q + d := by grind
  refine ⟨?_, ?_, ?_, ?_⟩
  · by_cases h : r = 0
    · subst h; simp; omega
    · simp [h]; rw [e]; omega
  · omega
  · omega
  · by_cases h : r = 0
    · subst h; simp; omega
    · simp [h]; rw [e]; omega

/-- pinned regressions (the former counterexamples): `1.005|round(2)` = 1.01, `0.145|round(2)` = 0.15,
    `1.1|round(2,'ceil')` = 1.1, `(-1.1)|round(2,'floor')` = −1.1, `(-0.04)|round(1)` = 0 without a sign -/
example : goRoundN 1005 3 2 = 101 ∧ goRoundN 145 3 2 = 15 := by decide
example : roundV (.sc (.dec false 11 1)) [.sc (.int 2), .sc (.str [99, 101, 105, 108])] = .ok (.sc (.dec false 110 2)) := by decide
example : roundV (.sc (.dec true 11 1)) [.sc (.int 2), .sc (.str [102, 108, 111, 111, 114])] = .ok (.sc (.dec true 110 2)) := by decide
example : roundV (.sc (.dec true 111 2)) [.sc (.int 1), .sc (.str [70, 76, 79, 79, 82])] = .ok (.sc (.dec true 12 1)) := by decide   -- FLOOR(-1.11, 1) = -1.2
example : roundV (.sc (.dec true 4 2)) [.sc (.int 1)] = .ok (.sc (.dec false 0 1)) := by decide
example : roundV (.sc (.dec false 9995 1)) [] = .ok (.sc (.int 1000)) := by decide          -- carry through 999
example : roundV (.sc (.dec true 25 1)) [] = .ok (.sc (.int (-3))) := by decide            -- -2.5 → -3
example : roundV (.sc (.dec false 125 3)) [.sc (.int 2)] = .ok (.sc (.dec false 13 2)) := by decide   -- 0.125 → 0.13

/-- the filter on the grid: sign kept unless the result is zero, precision 0 gives an int -/
theorem C19_round_filter (neg : Bool) (m k p : Nat) (hp : 0 < p) (hp2 : p ≤ 400) (hx : exactFloat m k = true)
    (hres : exactFloat (stripZeros (specRound m k p) p).1 (stripZeros (specRound m k p) p).2 = true) :
    roundV (.sc (.dec neg m k)) [.sc (.int p)] =
      .ok (.sc (.dec (neg && specRound m k p != 0) (specRound m k p) p)) := by
  have e : goRoundModeN .common (neg && m != 0) m k p = specRound m k p := goRoundModeN_eq_spec _ _ _ _ _
  have h1 : ¬ ((p : Int) < 0) := by omega
  have h2 : ¬ ((p : Int) > 400) := by omega
  have h5 : ((p : Int) == 0) = false := by simp; omega
  have hin : inInt64 (p : Int) = true := inInt64_of_bounds _ (by omega) (by omega)
  simp [roundV, roundMode, toFloatArg, optIntArg, toIntArg, pure, Except.pure, hx, h1, h2, h5, hin, e, hres]

/-- number_format: exact everywhere except on decimal ties (at ANY precision, 0 included: `%.0f`
    rounds the binary value half-to-even) -/
theorem C19_number_format_exact_partial (m k d : Nat) (h : decimalTie m k d = false) :
    goFixedN m k d = specRound m k d := by
  unfold goFixedN specRound
  split
  · rfl
  · rename_i hk
    have hdk : d < k := by omega
    simp only [decimalTie, hdk, decide_true, Bool.true_and] at h
    simp [h]

/-- RECORDED FINDING: `2.5|number_format` is "2" and `0.125|number_format(2)` is "0.12" (half to even on
    an exact binary tie), `1.005|number_format(2)` is "1.00" (the double lies below the decimal);
    exact decimal arithmetic gives 3, 0.13 and 1.01 -/
theorem C19_number_format_counterexample :
    goFixedN 25 1 0 = 2 ∧ specRound 25 1 0 = 3 ∧
    goFixedN 125 3 2 = 12 ∧ specRound 125 3 2 = 13 ∧
    goFixedN 1005 3 2 = 100 ∧ specRound 1005 3 2 = 101 := by decide +kernel

theorem C19_number_format_not_exact : ¬ NumberFormatExact := by
  intro h; have := h 25 1 0
  rw [C19_number_format_counterexample.1, C19_number_format_counterexample.2.1] at this
  exact absurd this (by decide)

/-- pinned regression (the former negative-zero finding, fixed by b1bd43d): `(-0.4)|number_format` is "0" -/
example : numberFormatV (.sc (.dec true 4 1)) [] = .ok (.sc (.str [48])) := by decide
example : numberFormatV (.sc (.dec true 4 2)) [.sc (.int 1)] = .ok (.sc (.str [48, 46, 48])) := by decide

/-- number_format: with the sign (dropped when the result is zero), for every input outside the recorded tie class the printed digits
    are those of the exact decimal rounding (`fixedParts (specRound …)`), grouped by `goGroup` -/
theorem C19_number_format_filter (neg : Bool) (m k d : Nat) (dp sep : Bytes) (hx : exactFloat m k = true)
    (hn : goFixedN m k d < 10 ^ 15) (hsep : sep ≠ []) (hd : 0 < d) (hd2 : d ≤ 1000000)
    (htie : decimalTie m k d = false) :
    numberFormatV (.sc (.dec neg m k)) [.sc (.int d), .sc (.str dp), .sc (.str sep)] =
      .ok (.sc (.str ((if neg && specRound m k d != 0 then [45] else []) ++ goGroup sep (fixedParts (specRound m k d) d).1 ++
        (dp ++ (fixedParts (specRound m k d) d).2)))) := by
  have e := C19_number_format_exact_partial m k d htie
  have h1 : ¬ ((d : Int) > 1000000) := by omega
  have h3 : ¬ (goFixedN m k d ≥ 10 ^ 15) := by omega
  have h4 : sep.isEmpty = false := by cases sep <;> simp_all
  have hin : inInt64 (d : Int) = true := inInt64_of_bounds _ (by omega) (by omega)
  rw [e] at h3
  simp [numberFormatV, toFloatArg, optIntArg, toIntArg, pure, Except.pure, hx, h1, h3, h4, e, hd, hin]

/-- a negative number of decimals means none: `number_format(-d)` is `number_format(0)`, for every value and
    every separator arguments (the unchanged tree printed a garbled format string; repaired in /repo 66bbb15) -/
theorem C19_number_format_negative_decimals (v : Val) (d : Int) (rest : List Val) (hd : d < 0) (hin : inInt64 d = true) :
    numberFormatV v (.sc (.int d) :: rest) = numberFormatV v (.sc (.int 0) :: rest) := by
  have h0 : inInt64 (0 : Int) = true := by decide
  have hle : ¬ (d > 1000000) := by omega
  have ht : d.toNat = 0 := by omega
  unfold numberFormatV
  simp only [optIntArg, toIntArg, hin, h0, if_true, pure, Except.pure, hle, if_false, ht, Int.toNat_zero,
    show ¬ ((0 : Int) > 1000000) by omega, List.drop_succ_cons, List.drop_zero]

/-- more than a million decimals is an error for every numeric value (never a panic, never a gigabyte of zeros) -/
theorem C19_number_format_too_many_decimals (neg : Bool) (m k : Nat) (d : Int) (rest : List Val) (hd : d > 1000000)
    (hin : inInt64 d = true) :
    numberFormatV (.sc (.dec neg m k)) (.sc (.int d) :: rest) = .err := by
  unfold numberFormatV
  simp only [toFloatArg, optIntArg, toIntArg, hin, if_true, pure, Except.pure, hd]

example : numberFormatV (.sc (.dec false 12345 1)) [.sc (.int (-3))] = .ok (.sc (.str [49, 44, 50, 51, 52])) := by decide +kernel

/-! ### thousands separators -/

/-- the digit groups of the spec: they concatenate to the digits, the first has 1 to 3 digits, every
    other one exactly 3 -/
theorem specGroups_props (ds : Bytes) (hne : ds ≠ []) :
    (specGroups ds).flatten = ds ∧
    (∃ g gs, specGroups ds = g :: gs ∧ 1 ≤ g.length ∧ g.length ≤ 3 ∧ ∀ x ∈ gs, x.length = 3) := by
  have hpos : 0 < ds.length := List.length_pos_iff.mpr hne
  have hemp : ds.isEmpty = false := by cases ds <;> simp_all
  have hdrop : (ds.drop ((ds.length - 1) % 3 + 1)).length = 3 * ((ds.length - 1) / 3) := by
    simp only [List.length_drop]; omega
  unfold specGroups
  simp only [hemp, Bool.false_eq_true, if_false]
  constructor
  · simp only [List.flatten_cons, triples_flatten _ _ hdrop, List.take_append_drop]
  · refine ⟨_, _, rfl, ?_, ?_, triples_len3 _⟩
    · simp only [List.length_take]; omega
    · simp only [List.length_take]; omega

/-- the loop of filterNumberFormat writes exactly the spec's groups joined by the separator -/
theorem C19_number_format_grouping (sep ds : Bytes) (hne : ds ≠ []) :
    goGroup sep ds = joinWith sep (specGroups ds) := by
  cases ds with
  | nil => exact absurd rfl hne
  | cons x rest =>
    have hmod : rest.length % 3 = 0 ∨ rest.length % 3 = 1 ∨ rest.length % 3 = 2 := by omega
    unfold goGroup specGroups
    simp only [List.isEmpty_cons, Bool.false_eq_true, if_false, List.length_cons, Nat.add_sub_cancel]
    rcases hmod with h0 | h1 | h2
    · have hl : rest.length = 3 * (rest.length / 3) := by omega
      rw [h0, joinWith_cons_flatten]
      simp [groupAux, groupAux_triples sep _ rest hl]
    · match rest, h1 with
      | y :: tail, h1 =>
        have hl : tail.length = 3 * (tail.length / 3) := by simp at h1; omega
        have hc : ¬ ((tail.length + 1) % 3 = 0) := by simp at h1; omega
        rw [h1, joinWith_cons_flatten]
        simp [groupAux, groupAux_triples sep _ tail hl, hc]
    · match rest, h2 with
      | y :: z :: tail, h2 =>
        have hl : tail.length = 3 * (tail.length / 3) := by simp at h2; omega
        have hc1 : ¬ ((tail.length + 1 + 1) % 3 = 0) := by simp at h2; omega
        have hc2 : ¬ ((tail.length + 1) % 3 = 0) := by simp at h2; omega
        rw [h2, joinWith_cons_flatten]
        simp [groupAux, groupAux_triples sep _ tail hl, hc1, hc2]

example : goGroup [44] [49, 50, 51, 52, 53, 54, 55] = [49, 44, 50, 51, 52, 44, 53, 54, 55] := by decide   -- 1,234,567
example : specGroups [49, 50, 51, 52, 53, 54, 55] = [[49], [50, 51, 52], [53, 54, 55]] := by decide
example : numberFormatV (.sc (.dec false 1234567891 3)) [.sc (.int 2), .sc (.str [44]), .sc (.str [46])]
    = .ok (.sc (.str [49, 46, 50, 51, 52, 46, 53, 54, 55, 44, 56, 57])) := by decide                    -- 1.234.567,89
example : numberFormatV (.sc (.int (-1000))) [] = .ok (.sc (.str [45, 49, 44, 48, 48, 48])) := by decide

end Twig.C19
