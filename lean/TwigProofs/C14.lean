import TwigModel.Scan
import TwigGen.Tokens
namespace Twig

/-- placeholder until the scan proofs land: the generated token constants are the model's -/
theorem C14_facts_tokens :
    TwigGen.Tokens.tokenConsts.map (·.2) = List.range 17 ∧
    TwigGen.Tokens.tokenizerThreshold = (sizeThreshold : Int) ∧
    TwigGen.Tokens.optimizedAboveThreshold = true := by decide

end Twig
