/-
  C14 — Template length and tag position do not change how a template is read (scan level).

  * the two opener searches, the two end-of-tag searches and hence the two tokenizers agree on
    every byte string (including error results); the 4096-byte switch is unobservable;
  * the scanning loop does not depend on its fuel once the fuel exceeds the input length;
  * literal padding in front of / between constructs changes the token stream by exactly that text.
-/
import TwigProofs.Lemmas.Scan
import TwigGen.Tokens
namespace Twig

/-- the generated token constants / tokenizer switch (extracted from the Go source) are the model's -/
theorem C14_facts_tokens :
    TwigGen.Tokens.tokenConsts.map (·.2) = List.range 17 ∧
    TwigGen.Tokens.tokenizerThreshold = (sizeThreshold : Int) ∧
    TwigGen.Tokens.optimizedAboveThreshold = true := by decide

/-- min-of-five `strings.Index` searches = the single-pass `FindNextTag`. -/
theorem C14_findOpener_agree : ∀ s, findOpenerHtml s = findOpenerOpt s := findOpenerHtml_eq_opt

/-- the two end-of-tag searches agree, for every tag kind and every byte string -/
theorem C14_tagEnd_agree : ∀ k rest, tagEndHtml k rest = tagEndOpt k rest := by
  intro k rest; rw [tagEndHtml_eq_spec, tagEndOpt_eq_spec]

/-- The two tokenizers produce the same result (token stream or error) on every byte string. -/
theorem C14_scanners_agree : ∀ s, scanOpt s = scanHtml s := fun s => (scanHtml_eq_scanOpt s).symm

/-- hence the 4096-byte switch in `Parser.Parse` is unobservable -/
theorem C14_scan_threshold_irrelevant : ∀ s, scan s = scanHtml s := by
  intro s; rw [scan_eq_scanOpt, scanHtml_eq_scanOpt]

/-- fuel adequacy: the loop's result does not depend on the fuel once it exceeds the input length
    (for arbitrary search functions) -/
theorem C14_fuel_adequate (f : Bytes → Option (Nat × Opener)) (g : TagKind → Bytes → Option TagEnd)
    (n m : Nat) (s : Bytes) (hn : s.length + 1 ≤ n) (hm : s.length + 1 ≤ m) :
    scanWith f g n s = scanWith f g m s := scanWith_fuel f g n m s hn hm

/-- Literal padding `p` (no opener inside, not ending in `{` or `\`, non-empty) in front of ANY template `s`
    that does not begin with an escaped opener (`\{{` …): the result for `p ++ s` is the result for `s` with
    `p` prepended to the leading TEXT token (or added as a TEXT token when `s` starts with a tag or is
    empty). Errors are preserved. -/
theorem C14_padding_tokens {p : Bytes} (hp : Lit p) (hne : p ≠ []) (s : Bytes) (hs : ¬ EscStart s) :
    scanHtml (p ++ s) = mapOk (extendHead p) (scanHtml s) := by
  rw [scanHtml_eq_scanOpt, scanHtml_eq_scanOpt]; exact scanOpt_pad hp hne s hs

/-- the excluded case is real: with `s = "\{{"` the padding becomes its own token (the backslash is dropped and
    no TEXT token precedes the escaped opener in `s` alone) -/
theorem C14_padding_counterexample_escstart :
    scanHtml (b "a" ++ b "\\{{") ≠ mapOk (extendHead (b "a")) (scanHtml (b "\\{{")) := by
  have h1 : scanHtml (b "a" ++ b "\\{{") = .ok [tk TEXT (b "a"), tk TEXT (b "{{"), tk EOF] := by
    with_unfolding_all rfl
  have h2 : mapOk (extendHead (b "a")) (scanHtml (b "\\{{")) = .ok [tk TEXT (b "a" ++ b "{{"), tk EOF] := by
    with_unfolding_all rfl
  rw [h1, h2]
  intro h
  injection h with h
  have := congrArg List.length h
  simp at this

/-- special case: in front of a tag or of the end of the template, padding is exactly one more TEXT token -/
theorem C14_padding_front {p : Bytes} (hp : Lit p) (hne : p ≠ []) {s : Bytes} (hs : TagOrEnd s) :
    scanHtml (p ++ s) = mapOk (fun ts => tk TEXT p :: ts) (scanHtml s) := by
  rw [scanHtml_eq_scanOpt, scanHtml_eq_scanOpt, scanOpt_pad_front hp hs, textTok_ne hne]; rfl

/-- padding between constructs: after a literal chunk and a well-formed tag -/
theorem C14_padding_middle {l : Bytes} (hl : Lit l) {t : Tag} (ht : WfTag t)
    {p : Bytes} (hp : Lit p) (hne : p ≠ []) (s : Bytes) (hs : ¬ EscStart s) :
    scanHtml (l ++ t.text ++ (p ++ s)) = mapOk (fun ts => textTok l ++ t.tokens ++ extendHead p ts) (scanHtml s) ∧
    scanHtml (l ++ t.text ++ s) = mapOk (fun ts => textTok l ++ t.tokens ++ ts) (scanHtml s) := by
  simp only [scanHtml_eq_scanOpt]
  refine ⟨?_, scanOpt_step hl ht s⟩
  rw [scanOpt_step hl ht, scanOpt_pad hp hne s hs, mapOk_mapOk]; rfl

/-- padding by a comment: see `C04_comment_inert_tokens`. -/

-- non-vacuity: the hypotheses are satisfiable by non-trivial data
example : Lit (b "<p>{ a } 100% \\ b</p>\n") ∧ b "<p>{ a } 100% \\ b</p>\n" ≠ [] := by decide +kernel
example : ¬ EscStart (b "x \\{{ y }}") ∧ ¬ EscStart (b "{{ y }}") := by decide +kernel
example : TagOrEnd (b "{%- if x %}") ∧ TagOrEnd [] := by decide +kernel
example : WfTag ⟨.var, true, b " user.name|upper ", true⟩ := by decide +kernel
example : scanHtml (b "ab" ++ b "{{ x }}c") =
    .ok [tk TEXT (b "ab"), tk VAR_START, tk NAME (b "x"), tk VAR_END, tk TEXT (b "c"), tk EOF] := by
  with_unfolding_all rfl

end Twig
