/-
  C04 — Literal text is emitted exactly; comments are inert (scan level).

  Every statement is about `scanHtml`; by `C14_scanners_agree` / `C14_scan_threshold_irrelevant`
  (TwigProofs.C14) the same holds for `scanOpt` and for `scan`.
-/
import TwigProofs.Lemmas.Scan
namespace Twig

/-- A template without any opener is one TEXT token holding the source unchanged — whatever the bytes are. -/
theorem C04_text_only : ∀ s : Bytes, s ≠ [] → NoOpener s → scanHtml s = .ok [⟨TEXT, s⟩, ⟨EOF, []⟩] := by
  intro s hs h; rw [scanHtml_eq_scanOpt]; exact scanOpt_text_only hs h

theorem C04_empty : scanHtml [] = .ok [⟨EOF, []⟩] := rfl

/-- `NoOpener` (defined through the scanner's own search) means exactly: no position holds `{` followed by
    `{`, `%` or `#`. -/
theorem C04_noOpener_iff (s : List UInt8) :
    NoOpener s ↔ ∀ i : Nat, ¬ (s[i]? = some (123 : UInt8) ∧
      (s[i+1]? = some (123 : UInt8) ∨ s[i+1]? = some (37 : UInt8) ∨ s[i+1]? = some (35 : UInt8))) :=
  noOpener_iff s

/-- One step: a literal chunk, then a well-formed tag, then anything. The chunk becomes one TEXT token holding
    exactly `l` (no token if `l` is empty), the tag becomes its start token, content tokens and end token, and
    scanning resumes at `rest` — errors of `rest` are propagated. -/
theorem C04_step {l : Bytes} (hl : Lit l) {t : Tag} (ht : WfTag t) (rest : Bytes) :
    scanHtml (l ++ t.text ++ rest) = mapOk (fun ts => textTok l ++ t.tokens ++ ts) (scanHtml rest) := by
  rw [scanHtml_eq_scanOpt, scanHtml_eq_scanOpt]; exact scanOpt_step hl ht rest

/-- Whole templates: literal chunks interleaved with well-formed tags, `l₁ t₁ … lₙ tₙ last`, scan to exactly
    the expected stream: each non-empty chunk as one TEXT token with its bytes unchanged, each tag as
    start/content/end, in source order, then EOF. -/
theorem C04_chunks (ps : List (Bytes × Tag)) (last : Bytes)
    (h : ∀ lt ∈ ps, Lit lt.1 ∧ WfTag lt.2) (hlast : NoOpener last) :
    scanHtml (spell ps last) = .ok (expected ps last) := by
  rw [scanHtml_eq_scanOpt]; exact scanOpt_chunks ps last h hlast

/-- …in particular the TEXT tokens outside comments are exactly the non-empty chunks, in order and unmodified,
    and there is exactly one start/end delimiter pair per tag, in order. -/
theorem C04_chunks_texts (ps : List (Bytes × Tag)) (last : Bytes)
    (h : ∀ lt ∈ ps, Lit lt.1 ∧ WfTag lt.2) (hlast : NoOpener last) :
    ∃ ts, scanHtml (spell ps last) = .ok ts ∧
      outerTexts false ts = ((ps.map (·.1)) ++ [last]).filter (fun l => l ≠ []) ∧
      delimKinds ts = ps.flatMap (fun lt => [lt.2.opener.startKind, endKind lt.2.kind lt.2.ctrim]) :=
  ⟨_, C04_chunks ps last h hlast, outerTexts_expected ps last, delimKinds_expected ps last⟩

/-- A comment `{# c #}` (`c` free of `#}`) after literal text `a` contributes exactly
    `COMMENT_START, (TEXT c if c ≠ []), COMMENT_END`; everything after it is scanned as if it stood alone.
    Compare with the second conjunct (the same template without the comment, for `a ≠ []`):
    the only other difference is that the text around the comment is split at the comment. -/
theorem C04_comment_inert_tokens {a : Bytes} (ha : Lit a) (c : Bytes)
    (hc : indexOf [35, 125] (c ++ [35]) = none) (rest : Bytes) :
    scanHtml (a ++ (b "{#" ++ c ++ b "#}") ++ rest) =
      mapOk (fun ts => textTok a ++ tk COMMENT_START :: (if c.isEmpty then [] else [tk TEXT c]) ++
        tk COMMENT_END :: ts) (scanHtml rest) ∧
    (a ≠ [] → ¬ EscStart rest → scanHtml (a ++ rest) = mapOk (extendHead a) (scanHtml rest)) := by
  constructor
  · have hw : WfTag ⟨.comment, false, c, false⟩ := by
      refine ⟨fun _ => ⟨rfl, rfl⟩, ?_, fun h => absurd rfl h, fun h => absurd rfl h⟩
      simpa [dashIf, closerOf] using hc
    have htext : (Tag.mk .comment false c false).text = b "{#" ++ c ++ b "#}" := by
      have h1 : b "{#" = [123, 35] := by decide +kernel
      have h2 : b "#}" = [35, 125] := by decide +kernel
      rw [h1, h2]
      simp [Tag.text, Tag.opener, Tag.closer, Opener.text_eq, openCh, Opener.dashed, dashIf, closerOf]
    have := C04_step ha hw rest
    rw [htext] at this
    rw [this]
    congr 1
    funext ts
    simp [Tag.tokens, Tag.opener, Opener.startKind, endKind, contentTokens]
  · intro hne hs
    rw [scanHtml_eq_scanOpt, scanHtml_eq_scanOpt]; exact scanOpt_pad ha hne rest hs

/-- Recorded finding: a backslash before an opener is swallowed and disables the tag (undocumented escape of
    `TokenizeHtmlPreserving`/`TokenizeOptimized`). This is why `Lit` excludes a trailing backslash. -/
theorem C04_counterexample_backslash :
    scanHtml (b "a\\{{ b") = .ok [⟨TEXT, b "a"⟩, ⟨TEXT, b "{{"⟩, ⟨TEXT, b " b"⟩, ⟨EOF, []⟩] := by
  with_unfolding_all rfl

/-- …and why `Lit` excludes a trailing `{`: the chunk `"a{"` followed by the tag `{{ x }}` is read as
    `"a"` followed by the tag `{{{ x }}` (the opener is found one byte earlier). -/
theorem C04_counterexample_trailing_brace :
    scanHtml (b "a{" ++ b "{{ x }}") =
      .ok [⟨TEXT, b "a"⟩, ⟨VAR_START, []⟩, ⟨PUNCT, b "{"⟩, ⟨NAME, b "x"⟩, ⟨VAR_END, []⟩, ⟨EOF, []⟩] := by
  with_unfolding_all rfl

-- non-vacuity
example : NoOpener (b "a { b } 100% #1 \\ \x00") ∧ b "a { b } 100% #1 \\ \x00" ≠ [] := by decide +kernel
example : Lit [0xff, 0xfe, 0x00, 123, 32] := by decide +kernel
example : WfTag ⟨.block, false, b " if a > 1 ", true⟩ ∧ WfTag ⟨.comment, false, b "- {{ x }} -", false⟩ ∧
    WfTag ⟨.var, true, b " {'a': 1}|length ", false⟩ := by decide +kernel
example : ∀ lt ∈ [(b "<p>", (⟨.var, false, b " x ", false⟩ : Tag)), ([], ⟨.comment, false, b " c ", false⟩)],
    Lit lt.1 ∧ WfTag lt.2 := by decide +kernel
example : indexOf [35, 125] (b " note {{ x }} " ++ [35]) = none := by decide +kernel

end Twig
