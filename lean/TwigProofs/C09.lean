/-
  C09 — if, for and set have their defined control-flow meaning.

  All theorems are about the frozen render model (`TwigModel.Render`): `renderNode`, `renderNodes`,
  `loopOver`, `loopMeta`, `forItems`, `toBool`, `builtinFunction "range"`.  They quantify over every
  environment `E`, every transfer function `go`, every template name, every expression / body / state.
  Expression evaluation is `evalExpr E e st : R (Val × St)` (value and the state after evaluation; the
  state threads the callback trace, so "condition k was / was not evaluated" is visible in it).
-/
import TwigProofs.Lemmas.RenderBasic
namespace Twig

/-- parse `src` as template `main` (other templates given as name/source pairs) and render it through the
    whole pipeline (`parseTemplate`, `renderTop`): the output, or `none` on any failure.
    Used only by the non-vacuity examples. -/
def renderDemo (src : String) (vars : List (Bytes × Val) := []) (others : List (String × String) := []) :
    Option Bytes :=
  match parseTemplate (b src),
      others.mapM (fun p => (parseTemplate (b p.2)).toOption.map (fun n => (b p.1, n))) with
  | .ok nodes, some os =>
    match renderTop { tpls := (b "main", nodes) :: os } (b "main") vars with
    | .ok (o, _) => some o
    | .error _ => none
  | _, _ => none

/-! ## Truthiness -/

/-- The falsy values are exactly `null`, `false`, `0`, `""`, `[]`, `{}`. -/
theorem C09_falsy_table (v : Val) :
    toBool v = false ↔
      v = .null ∨ v = .bool false ∨ v = .int 0 ∨ v = .str [] ∨ v = .list [] ∨ v = .map [] := by
  cases v <;> simp [toBool]

/-- … everything else is truthy; in particular macros and closures. -/
theorem C09_truthy_table (v : Val) :
    toBool v = true ↔
      v ≠ .null ∧ v ≠ .bool false ∧ v ≠ .int 0 ∧ v ≠ .str [] ∧ v ≠ .list [] ∧ v ≠ .map [] := by
  rw [← Bool.not_eq_false, C09_falsy_table]; simp only [not_or]

theorem C09_truthy_closures (t m : Bytes) (a : List Val) :
    toBool (.macro t m) = true ∧ toBool (.callable t m a) = true ∧ toBool .parentFn = true :=
  ⟨rfl, rfl, rfl⟩

-- non-vacuity: one value of each kind on each side
example : [Val.null, .bool false, .int 0, .str [], .list [], .map []].map toBool = List.replicate 6 false ∧
    [Val.bool true, .int (-1), .str (b "0"), .list [.null], .map [(b "a", .null)], .macro [] [], .parentFn].map toBool
      = List.replicate 7 true := by decide +kernel

/-! ## if -/

/-- An `if` node evaluates its condition once (from the incoming state), an evaluation failure is the
    node's failure, and then exactly one of the two bodies is rendered from the state after the
    evaluation: `thn` iff the value is truthy. -/
theorem C09_if (E : Env) (go : Go) (tpl : Bytes) (c : Expr) (thn els : List Node) (st : St) :
    renderNode E go tpl (.ifN c thn els) st =
      (evalExpr E c st >>= fun y =>
        if toBool y.1 then renderNodes E go tpl thn y.2 else renderNodes E go tpl els y.2) :=
  renderNode_if E go tpl c thn els st

theorem C09_if_true {E : Env} {go : Go} {tpl : Bytes} {c : Expr} {thn els : List Node} {st st1 : St} {v : Val}
    (hc : evalExpr E c st = .ok (v, st1)) (hv : toBool v = true) :
    renderNode E go tpl (.ifN c thn els) st = renderNodes E go tpl thn st1 := by
  rw [C09_if, hc]; simp [hv]

theorem C09_if_false {E : Env} {go : Go} {tpl : Bytes} {c : Expr} {thn els : List Node} {st st1 : St} {v : Val}
    (hc : evalExpr E c st = .ok (v, st1)) (hv : toBool v = false) :
    renderNode E go tpl (.ifN c thn els) st = renderNodes E go tpl els st1 := by
  rw [C09_if, hc]; simp [hv]

theorem C09_if_error {E : Env} {go : Go} {tpl : Bytes} {c : Expr} {thn els : List Node} {st : St} {err : Err}
    (hc : evalExpr E c st = .error err) :
    renderNode E go tpl (.ifN c thn els) st = .error err := by
  rw [C09_if, hc]; rfl

/-- The nesting `parseIfTail` builds for `{% elseif c %}body … {% else %}els{% endif %}`: each `elseif`
    becomes a one-node else-list holding the next `if`; the final `else` body (or `[]`) is innermost. -/
def ifChainTail : List (Expr × List Node) → List Node → List Node
  | [], els => els
  | (c, body) :: bs, els => [.ifN c body (ifChainTail bs els)]

/-- the node for `{% if c %}body{% elseif … %}…{% else %}els{% endif %}` -/
def ifChain (c : Expr) (body : List Node) (bs : List (Expr × List Node)) (els : List Node) : Node :=
  .ifN c body (ifChainTail bs els)

theorem renderNode_ifChain (E : Env) (go : Go) (tpl : Bytes) (c body bs els st) :
    renderNode E go tpl (ifChain c body bs els) st =
      renderNodes E go tpl (ifChainTail ((c, body) :: bs) els) st := by
  simp only [ifChain, ifChainTail, renderNodes_singleton]

/-- the conditions of `bs` evaluated one after the other starting in `st`: every one succeeds with a
    falsy value; `st'` is the state after the last one -/
inductive AllFalsy (E : Env) : List (Expr × List Node) → St → St → Prop
  | nil (st : St) : AllFalsy E [] st st
  | cons {c : Expr} {body : List Node} {bs : List (Expr × List Node)} {st st1 st' : St} {v : Val} :
      evalExpr E c st = .ok (v, st1) → toBool v = false → AllFalsy E bs st1 st' →
      AllFalsy E ((c, body) :: bs) st st'

/-- **First truthy branch wins.** If the conditions before branch `(c, body)` evaluate (in order) to
    falsy values and `c` then evaluates to a truthy value, the chain renders `body` from the state
    reached right after evaluating `c` — whatever the later branches `post` and `els` are: no later
    condition is evaluated (the state, which carries the callback trace, is the one after `c`). -/
theorem C09_if_chain_first {E : Env} {go : Go} {tpl : Bytes} :
    ∀ {pre : List (Expr × List Node)} {c : Expr} {body : List Node} {post : List (Expr × List Node)}
      {els : List Node} {st st1 st2 : St} {v : Val},
      AllFalsy E pre st st1 → evalExpr E c st1 = .ok (v, st2) → toBool v = true →
      renderNodes E go tpl (ifChainTail (pre ++ (c, body) :: post) els) st = renderNodes E go tpl body st2
  | [], c, body, post, els, st, st1, st2, v, hp, hc, hv => by
    cases hp
    simp only [List.nil_append, ifChainTail, renderNodes_singleton]
    exact C09_if_true hc hv
  | (c', b') :: pre, c, body, post, els, st, st1, st2, v, hp, hc, hv => by
    cases hp with
    | cons h1 h2 h3 =>
      simp only [List.cons_append, ifChainTail, renderNodes_singleton]
      rw [C09_if_false h1 h2]
      exact C09_if_chain_first h3 hc hv

/-- **No truthy condition: the else branch** (and nothing at all when there is no else: `els = []`). -/
theorem C09_if_chain_else {E : Env} {go : Go} {tpl : Bytes} :
    ∀ {bs : List (Expr × List Node)} {els : List Node} {st st1 : St},
      AllFalsy E bs st st1 →
      renderNodes E go tpl (ifChainTail bs els) st = renderNodes E go tpl els st1
  | [], els, st, st1, hp => by cases hp; rfl
  | (c', b') :: bs, els, st, st1, hp => by
    cases hp with
    | cons h1 h2 h3 =>
      simp only [ifChainTail, renderNodes_singleton]
      rw [C09_if_false h1 h2]
      exact C09_if_chain_else h3

theorem C09_if_chain_no_else {E : Env} {go : Go} {tpl : Bytes} {bs : List (Expr × List Node)} {st st1 : St}
    (h : AllFalsy E bs st st1) :
    renderNodes E go tpl (ifChainTail bs []) st = .ok ([], st1) := by
  rw [C09_if_chain_else h, renderNodes_nil]

/-- **A failing condition is the chain's failure** (conditions after it are not evaluated, no branch
    is rendered). -/
theorem C09_if_chain_error {E : Env} {go : Go} {tpl : Bytes} :
    ∀ {pre : List (Expr × List Node)} {c : Expr} {body : List Node} {post : List (Expr × List Node)}
      {els : List Node} {st st1 : St} {err : Err},
      AllFalsy E pre st st1 → evalExpr E c st1 = .error err →
      renderNodes E go tpl (ifChainTail (pre ++ (c, body) :: post) els) st = .error err
  | [], c, body, post, els, st, st1, err, hp, hc => by
    cases hp
    simp only [List.nil_append, ifChainTail, renderNodes_singleton]
    exact C09_if_error hc
  | (c', b') :: pre, c, body, post, els, st, st1, err, hp, hc => by
    cases hp with
    | cons h1 h2 h3 =>
      simp only [List.cons_append, ifChainTail, renderNodes_singleton]
      rw [C09_if_false h1 h2]
      exact C09_if_chain_error h3 hc

/-- The three cases above are exhaustive: for every chain and state either all conditions are falsy,
    or there is a first condition that is truthy or fails. So a chain renders exactly one branch
    (or fails while evaluating a condition). -/
theorem C09_if_chain_total (E : Env) :
    ∀ (bs : List (Expr × List Node)) (st : St),
      (∃ st1, AllFalsy E bs st st1) ∨
      (∃ pre c body post st1, bs = pre ++ (c, body) :: post ∧ AllFalsy E pre st st1 ∧
        ((∃ v st2, evalExpr E c st1 = .ok (v, st2) ∧ toBool v = true) ∨
         (∃ err, evalExpr E c st1 = .error err)))
  | [], st => .inl ⟨st, .nil st⟩
  | (c, body) :: bs, st => by
    cases hc : evalExpr E c st with
    | error err => exact .inr ⟨[], c, body, bs, st, rfl, .nil st, .inr ⟨err, hc⟩⟩
    | ok a =>
      obtain ⟨v, st1⟩ := a
      cases hv : toBool v with
      | true => exact .inr ⟨[], c, body, bs, st, rfl, .nil st, .inl ⟨v, st1, hc, hv⟩⟩
      | false =>
        rcases C09_if_chain_total E bs st1 with ⟨st2, h⟩ | ⟨pre, c', body', post, st2, hb, hp, h⟩
        · exact .inl ⟨st2, .cons hc hv h⟩
        · exact .inr ⟨(c, body) :: pre, c', body', post, st2, by rw [hb]; rfl, .cons hc hv hp, h⟩

-- non-vacuity: the parser builds exactly `ifChain`, and a chain with a falsy first and a truthy second
-- condition renders the second branch only
def chainShape : R (List Node) → Option (List Bytes)
  | .ok [.ifN (.var a) [.text ta] [.ifN (.var c) [.text tc] [.ifN (.var d) [.text td] [.text te]]]] =>
    some [a, ta, c, tc, d, td, te]
  | _ => none
theorem chainShape_sound {r : R (List Node)} {a ta c tc d td te : Bytes}
    (h : chainShape r = some [a, ta, c, tc, d, td, te]) :
    r = .ok [ifChain (.var a) [.text ta] [(.var c, [.text tc]), (.var d, [.text td])] [.text te]] := by
  unfold chainShape at h
  split at h
  · cases h; rfl
  · cases h
example : parseTemplate (b "{% if a %}A{% elseif b %}B{% elseif c %}C{% else %}D{% endif %}") =
    .ok [ifChain (.var (b "a")) [.text (b "A")]
          [(.var (b "b"), [.text (b "B")]), (.var (b "c"), [.text (b "C")])] [.text (b "D")]] :=
  chainShape_sound (by decide +kernel)
example : renderDemo "{% if a %}A{% elseif b %}B{% elseif c %}C{% else %}D{% endif %}"
    [(b "a", .int 0), (b "b", .str (b "x")), (b "c", .bool true)] = some (b "B") := by decide +kernel
example : renderDemo "{% if a %}A{% elseif b %}B{% else %}D{% endif %}|{% if a %}A{% endif %}|" [(b "a", .list [])]
    = some (b "D||") := by decide +kernel
-- a failing later condition is not evaluated (1/0 would be an error) …
example : renderDemo "{% if 1 %}A{% elseif 1/0 %}B{% endif %}" = some (b "A") := by decide +kernel
-- … a failing earlier one is reported
example : renderDemo "{% if 1/0 %}A{% elseif 1 %}B{% endif %}" = none := by decide +kernel

/-! ## for: the unrolling of `loopOver` -/

/-- the state in which iteration `i` (0-based) of `n` renders the body: value variable, key variable
    (if the loop names one) and `loop` bound in the context's own map, everything else as the previous
    iteration (or the code before the loop) left it -/
def loopBind (keyVar : Option Bytes) (valVar : Bytes) (n i : Nat) (kv : Val × Val) (st : St) : St :=
  { st with ctx :=
      (match keyVar with
        | some k => (st.ctx.setVar valVar kv.2).setVar k kv.1
        | none => st.ctx.setVar valVar kv.2).setVar (b "loop") (loopMeta i n) }

theorem loopOver_nil (f : St → R Out) (k v n i st) : loopOver f k v n i [] st = .ok ([], st) := rfl

theorem loopOver_cons (f : St → R Out) (k v n i kv r st) :
    loopOver f k v n i (kv :: r) st =
      (f (loopBind k v n i kv st) >>= fun x =>
        loopOver f k v n (i + 1) r x.2 >>= fun y => .ok (x.1 ++ y.1, y.2)) := by
  obtain ⟨key, val⟩ := kv
  simp only [loopOver, loopBind]
  cases k <;> rfl

/-- `LoopRun f … i items st o st'`: starting in `st` with position counter `i`, the body `f` is run once
    per item, in order, each time in `loopBind … i item (state left by the previous iteration)`; the
    outputs concatenate to `o` and the last iteration leaves `st'`. -/
inductive LoopRun (f : St → R Out) (keyVar : Option Bytes) (valVar : Bytes) (n : Nat) :
    Nat → List (Val × Val) → St → Bytes → St → Prop
  | nil (i : Nat) (st : St) : LoopRun f keyVar valVar n i [] st [] st
  | cons {i : Nat} {kv : Val × Val} {r : List (Val × Val)} {st st1 st2 : St} {o1 o2 : Bytes} :
      f (loopBind keyVar valVar n i kv st) = .ok (o1, st1) →
      LoopRun f keyVar valVar n (i + 1) r st1 o2 st2 →
      LoopRun f keyVar valVar n i (kv :: r) st (o1 ++ o2) st2

/-- **Unrolling lemma** for the loop driver (induction on the item list). -/
theorem loopOver_ok_iff {f : St → R Out} {k : Option Bytes} {v : Bytes} {n : Nat} :
    ∀ {items : List (Val × Val)} {i : Nat} {st : St} {o : Bytes} {st' : St},
      loopOver f k v n i items st = .ok (o, st') ↔ LoopRun f k v n i items st o st'
  | [], i, st, o, st' => by
    rw [loopOver_nil]
    constructor
    · intro h; cases h; exact .nil i st
    · intro h; cases h; rfl
  | kv :: r, i, st, o, st' => by
    rw [loopOver_cons]
    constructor
    · intro h
      obtain ⟨⟨o1, st1⟩, h1, h⟩ := bind_ok h
      obtain ⟨⟨o2, st2⟩, h2, h⟩ := bind_ok h
      cases h
      exact .cons h1 (loopOver_ok_iff.mp h2)
    · intro h
      cases h with
      | cons h1 h2 =>
        rw [h1, ok_bind, loopOver_ok_iff.mpr h2]; rfl

/-- the first failing iteration is the loop's failure -/
theorem loopOver_error_iff {f : St → R Out} {k : Option Bytes} {v : Bytes} {n : Nat} :
    ∀ {items : List (Val × Val)} {i : Nat} {st : St} {err : Err},
      loopOver f k v n i items st = .error err ↔
        ∃ pre kv post o st1, items = pre ++ kv :: post ∧ LoopRun f k v n i pre st o st1 ∧
          f (loopBind k v n (i + pre.length) kv st1) = .error err
  | [], i, st, err => by
    rw [loopOver_nil]
    constructor
    · intro h; cases h
    · rintro ⟨pre, kv, post, o, st1, h, _⟩; cases pre <;> cases h
  | kv :: r, i, st, err => by
    rw [loopOver_cons]
    constructor
    · intro h
      cases h1 : f (loopBind k v n i kv st) with
      | error e =>
        rw [h1] at h; cases h
        exact ⟨[], kv, r, [], st, rfl, .nil i st, by simpa using h1⟩
      | ok x =>
        obtain ⟨o1, st1⟩ := x
        rw [h1, ok_bind] at h
        cases h2 : loopOver f k v n (i + 1) r st1 with
        | ok y => rw [h2] at h; cases h
        | error e =>
          rw [h2] at h; cases h
          obtain ⟨pre, kv', post, o, st2, hr, hrun, hf⟩ := loopOver_error_iff.mp h2
          refine ⟨kv :: pre, kv', post, o1 ++ o, st2, by rw [hr]; rfl, .cons h1 hrun, ?_⟩
          rw [List.length_cons, ← hf]; congr 2; omega
    · rintro ⟨pre, kv', post, o, st1, hitems, hrun, hf⟩
      cases pre with
      | nil =>
        cases hitems; cases hrun
        rw [show i + ([] : List (Val × Val)).length = i from rfl] at hf
        rw [hf]; rfl
      | cons p pre =>
        cases hitems
        cases hrun with
        | cons h1 h2 =>
          rw [h1, ok_bind]
          have : loopOver f k v n (i + 1) (pre ++ kv' :: post) _ = .error err :=
            loopOver_error_iff.mpr ⟨pre, kv', post, _, st1, rfl, h2, by
              rw [← hf, List.length_cons]; congr 2; omega⟩
          exact bind_error (f := fun y => Except.ok (_ ++ y.1, y.2)) this

/-- **Indexed form of the unrolling**: a run over `items` is a sequence of states `sts 0 … sts len` and
    outputs `outs 0 … outs (len-1)` with `sts 0` the start state, iteration `j` rendering the body in
    `loopBind … (i+j) items[j] (sts j)` and producing `outs j` and `sts (j+1)`; the loop's output is
    `outs 0 ++ … ++ outs (len-1)` and its final state `sts len`. -/
theorem LoopRun_iff_indexed {f : St → R Out} {k : Option Bytes} {v : Bytes} {n : Nat} :
    ∀ {items : List (Val × Val)} {i : Nat} {st : St} {o : Bytes} {st' : St},
      LoopRun f k v n i items st o st' ↔
        ∃ (sts : Nat → St) (outs : Nat → Bytes),
          sts 0 = st ∧ sts items.length = st' ∧
          o = ((List.range items.length).map outs).flatten ∧
          ∀ j (hj : j < items.length),
            f (loopBind k v n (i + j) items[j] (sts j)) = .ok (outs j, sts (j + 1))
  | [], i, st, o, st' => by
    constructor
    · intro h; cases h
      exact ⟨fun _ => st, fun _ => [], rfl, rfl, rfl, fun j hj => absurd hj (Nat.not_lt_zero j)⟩
    · rintro ⟨sts, outs, h0, hl, ho, _⟩
      simp only [List.length_nil] at hl
      subst ho; rw [← h0, ← hl]; exact .nil i _
  | kv :: r, i, st, o, st' => by
    constructor
    · intro h
      cases h with
      | @cons _ _ _ _ st1 _ o1 o2 h1 h2 =>
        obtain ⟨sts, outs, h0, hl, ho, hstep⟩ := LoopRun_iff_indexed.mp h2
        refine ⟨fun j => match j with | 0 => st | j + 1 => sts j,
                fun j => match j with | 0 => o1 | j + 1 => outs j, rfl, hl, ?_, ?_⟩
        · rw [List.length_cons, List.range_succ_eq_map, List.map_cons, List.flatten_cons, List.map_map, ho]
          rfl
        · intro j hj
          cases j with
          | zero => simp only [Nat.add_zero, List.getElem_cons_zero, h0]; exact h1
          | succ j =>
            have := hstep j (by simpa using hj)
            simp only [List.getElem_cons_succ]
            rw [show i + (j + 1) = i + 1 + j by omega]; exact this
    · rintro ⟨sts, outs, h0, hl, ho, hstep⟩
      have h1 := hstep 0 (by simp)
      simp only [Nat.add_zero, List.getElem_cons_zero, h0] at h1
      have h2 : LoopRun f k v n (i + 1) r (sts 1) ((List.range r.length).map (fun j => outs (j + 1))).flatten st' :=
        LoopRun_iff_indexed.mpr ⟨fun j => sts (j + 1), fun j => outs (j + 1), rfl, hl, rfl, fun j hj => by
          have := hstep (j + 1) (by simpa using hj)
          simp only [List.getElem_cons_succ] at this
          rw [show i + (j + 1) = i + 1 + j by omega] at this; exact this⟩
      have := LoopRun.cons h1 h2
      rw [ho, List.length_cons, List.range_succ_eq_map, List.map_cons, List.flatten_cons, List.map_map]
      exact this

/-! ## for: what is iterated -/

/-- the (key, value) items of a list: positions `0 … n-1` as keys -/
def listItems (xs : List Val) : List (Val × Val) :=
  ((List.range xs.length).zip xs).map fun (i, x) => (.int i, x)

theorem listItems_length (xs : List Val) : (listItems xs).length = xs.length := by
  simp [listItems]

theorem listItems_getElem (xs : List Val) (j : Nat) (hj : j < (listItems xs).length) :
    (listItems xs)[j] = (.int j, xs[j]'(by rwa [listItems_length] at hj)) := by
  simp [listItems]

theorem forItems_list (xs : List Val) : forItems (.list xs) = .ok (some (listItems xs)) := rfl

/-- the items of an (ASCII) string: one per character, positions counted in characters -/
def strItems (s : Bytes) : List (Val × Val) :=
  ((List.range s.length).zip s).map fun (i, c) => (.int i, .str [c])

theorem strItems_length (s : Bytes) : (strItems s).length = s.length := by simp [strItems]

theorem strItems_getElem (s : Bytes) (j : Nat) (hj : j < (strItems s).length) :
    (strItems s)[j] = (.int j, .str [s[j]'(by rwa [strItems_length] at hj)]) := by
  simp [strItems]

theorem forItems_str_ascii (s : Bytes) (h : asciiOnly s = true) :
    forItems (.str s) = .ok (some (strItems s)) := by
  simp [forItems, h, strItems]

theorem forItems_str_nonascii (s : Bytes) (h : asciiOnly s = false) :
    forItems (.str s) = .error (.unsupported "iterating a non-ASCII string") := by
  simp [forItems, h, unsup]

/-- the items of a map: its entries in the order of the association list (the model keeps maps
    key-sorted), the key bound as a string -/
def mapItems (kvs : List (Bytes × Val)) : List (Val × Val) := kvs.map fun (k, v) => (.str k, v)

theorem forItems_map (kvs : List (Bytes × Val)) : forItems (.map kvs) = .ok (some (mapItems kvs)) := rfl

theorem mapItems_getElem (kvs : List (Bytes × Val)) (j : Nat) (hj : j < (mapItems kvs).length) :
    (mapItems kvs)[j] = (.str (kvs[j]'(by simpa [mapItems] using hj)).1, (kvs[j]'(by simpa [mapItems] using hj)).2) := by
  simp [mapItems]

/-- "there is nothing to iterate": not iterable (null, booleans, numbers, macros, closures) or an
    empty list / string / map -/
def nothingToIterate : Val → Bool
  | .list xs => xs.isEmpty
  | .str s => s.isEmpty
  | .map kvs => kvs.isEmpty
  | _ => true

theorem forItems_nothing_iff (sv : Val) :
    (forItems sv = .ok none ∨ forItems sv = .ok (some [])) ↔ nothingToIterate sv = true := by
  cases sv with
  | list xs => cases xs <;> simp [forItems, nothingToIterate]
  | map kvs => cases kvs <;> simp [forItems, nothingToIterate]
  | str s =>
    cases s with
    | nil => simp [forItems, nothingToIterate, asciiOnly]
    | cons c r =>
      simp only [forItems, nothingToIterate]
      split <;> simp [unsup]
  | _ => simp [forItems, nothingToIterate]

/-- the three cases are exhaustive: nothing to iterate / a non-empty item list / (model exclusion) a
    non-ASCII string -/
theorem C09_for_cases (sv : Val) :
    nothingToIterate sv = true ∨
    (∃ items, items ≠ [] ∧ forItems sv = .ok (some items)) ∨
    (∃ s, sv = .str s ∧ asciiOnly s = false) := by
  cases sv with
  | list xs =>
    cases xs with
    | nil => exact .inl rfl
    | cons x r => exact .inr (.inl ⟨listItems (x :: r), by simp [listItems], rfl⟩)
  | map kvs =>
    cases kvs with
    | nil => exact .inl rfl
    | cons x r => exact .inr (.inl ⟨mapItems (x :: r), by simp [mapItems], rfl⟩)
  | str s =>
    cases s with
    | nil => exact .inl rfl
    | cons c r =>
      cases h : asciiOnly (c :: r) with
      | true => exact .inr (.inl ⟨strItems (c :: r), by simp [strItems], forItems_str_ascii _ h⟩)
      | false => exact .inr (.inr ⟨c :: r, rfl, h⟩)
  | _ => exact .inl rfl

/-! ## for: the node -/

/-- evaluation failure of the sequence expression is the node's failure -/
theorem C09_for_seq_error {E : Env} {go : Go} {tpl : Bytes} {key val seq body els} {st : St} {err : Err}
    (h : evalExpr E seq st = .error err) :
    renderNode E go tpl (.forN key val seq body els) st = .error err := by
  rw [renderNode_for, h]; rfl

/-- **Else branch exactly when there is nothing to iterate** (direction 1): for null, non-iterable
    values and empty list / string / map the node renders `els` (from the state after evaluating the
    sequence) and nothing else. -/
theorem C09_for_else {E : Env} {go : Go} {tpl : Bytes} {key val seq body els} {st st1 : St} {sv : Val}
    (h : evalExpr E seq st = .ok (sv, st1)) (hn : nothingToIterate sv = true) :
    renderNode E go tpl (.forN key val seq body els) st = renderNodes E go tpl els st1 := by
  rw [renderNode_for, h, ok_bind]
  rcases (forItems_nothing_iff sv).mpr hn with h' | h' <;> simp only [h', ok_bind]

/-- **The loop**: when the sequence value has items `items ≠ []`, the node is the loop driver over
    `items` with counter starting at 0 and `n = items.length`, the body rendered by `renderNodes`, followed
    by the restore of the context's own `loop` entry.  The else branch is not rendered. -/
theorem C09_for_items {E : Env} {go : Go} {tpl : Bytes} {key val seq body els} {st st1 : St} {sv : Val}
    {items : List (Val × Val)}
    (h : evalExpr E seq st = .ok (sv, st1)) (hi : forItems sv = .ok (some items)) (hne : items ≠ []) :
    renderNode E go tpl (.forN key val seq body els) st =
      (loopOver (fun s => renderNodes E go tpl body s) key val items.length 0 items st1 >>= fun z =>
        .ok (z.1, { z.2 with ctx := restoreLoop (getKV (b "loop") st1.ctx.vars) z.2.ctx })) := by
  rw [renderNode_for, h, ok_bind, hi, ok_bind]
  cases items with
  | nil => exact absurd rfl hne
  | cons i r => rfl

/-- The same, unrolled: the node succeeds with `(o, st')` iff there are states `sts 0 … sts n` and outputs
    `outs 0 … outs (n-1)` such that `sts 0` is the state after evaluating the sequence, iteration `j`
    renders `body` in `loopBind key val n j items[j] (sts j)` (value, key, `loop = loopMeta j n` bound on top of
    what iteration `j-1` left — so a `set` made in iteration `j-1` is visible) giving `outs j` and `sts (j+1)`,
    `o` is the concatenation of the `outs j` in order, and `st'` is `sts n` with `loop` restored. -/
theorem C09_for_items_ok_iff {E : Env} {go : Go} {tpl : Bytes} {key val seq body els} {st st1 : St} {sv : Val}
    {items : List (Val × Val)} {o : Bytes} {st' : St}
    (h : evalExpr E seq st = .ok (sv, st1)) (hi : forItems sv = .ok (some items)) (hne : items ≠ []) :
    renderNode E go tpl (.forN key val seq body els) st = .ok (o, st') ↔
      ∃ (sts : Nat → St) (outs : Nat → Bytes),
        sts 0 = st1 ∧
        (∀ j (hj : j < items.length),
          renderNodes E go tpl body (loopBind key val items.length j items[j] (sts j)) = .ok (outs j, sts (j + 1))) ∧
        o = ((List.range items.length).map outs).flatten ∧
        st' = { sts items.length with
                ctx := restoreLoop (getKV (b "loop") st1.ctx.vars) (sts items.length).ctx } := by
  rw [C09_for_items h hi hne]
  constructor
  · intro hh
    obtain ⟨⟨o', st2⟩, h1, hh⟩ := bind_ok hh
    cases hh
    obtain ⟨sts, outs, h0, hl, ho, hstep⟩ := LoopRun_iff_indexed.mp (loopOver_ok_iff.mp h1)
    refine ⟨sts, outs, h0, ?_, ho, by rw [hl]⟩
    intro j hj; simpa using hstep j hj
  · rintro ⟨sts, outs, h0, hstep, ho, hst⟩
    have : loopOver (fun s => renderNodes E go tpl body s) key val items.length 0 items st1 =
        .ok (o, sts items.length) :=
      loopOver_ok_iff.mpr (LoopRun_iff_indexed.mpr ⟨sts, outs, h0, rfl, ho, fun j hj => by simpa using hstep j hj⟩)
    rw [this, hst]; rfl

/-- a failing iteration is the node's failure (the iterations before it ran, none after it) -/
theorem C09_for_items_error_iff {E : Env} {go : Go} {tpl : Bytes} {key val seq body els} {st st1 : St} {sv : Val}
    {items : List (Val × Val)} {err : Err}
    (h : evalExpr E seq st = .ok (sv, st1)) (hi : forItems sv = .ok (some items)) (hne : items ≠ []) :
    renderNode E go tpl (.forN key val seq body els) st = .error err ↔
      ∃ pre kv post o st2, items = pre ++ kv :: post ∧
        LoopRun (fun s => renderNodes E go tpl body s) key val items.length 0 pre st1 o st2 ∧
        renderNodes E go tpl body (loopBind key val items.length pre.length kv st2) = .error err := by
  rw [C09_for_items h hi hne]
  constructor
  · intro hh
    cases h1 : loopOver (fun s => renderNodes E go tpl body s) key val items.length 0 items st1 with
    | ok z => rw [h1] at hh; cases hh
    | error e =>
      rw [h1] at hh; cases hh
      obtain ⟨pre, kv, post, o, st2, hp, hr, hf⟩ := loopOver_error_iff.mp h1
      exact ⟨pre, kv, post, o, st2, hp, hr, by simpa using hf⟩
  · rintro ⟨pre, kv, post, o, st2, hp, hr, hf⟩
    exact bind_error (loopOver_error_iff.mpr ⟨pre, kv, post, o, st2, hp, hr, by simpa using hf⟩)

/-- `C09_for_items_ok_iff` with the items given by their length and an element function -/
theorem for_items_ok_iff_of_get {E : Env} {go : Go} {tpl : Bytes} {key val seq body els} {st st1 : St} {sv : Val}
    {items : List (Val × Val)} {o : Bytes} {st' : St}
    (h : evalExpr E seq st = .ok (sv, st1)) (hi : forItems sv = .ok (some items)) (hne : items ≠ [])
    (n : Nat) (hn : items.length = n) (g : (j : Nat) → j < n → Val × Val)
    (hg : ∀ j (hj : j < items.length), items[j] = g j (hn ▸ hj)) :
    renderNode E go tpl (.forN key val seq body els) st = .ok (o, st') ↔
      ∃ (sts : Nat → St) (outs : Nat → Bytes),
        sts 0 = st1 ∧
        (∀ j (hj : j < n),
          renderNodes E go tpl body (loopBind key val n j (g j hj) (sts j)) = .ok (outs j, sts (j + 1))) ∧
        o = ((List.range n).map outs).flatten ∧
        st' = { sts n with ctx := restoreLoop (getKV (b "loop") st1.ctx.vars) (sts n).ctx } := by
  subst hn
  rw [C09_for_items_ok_iff h hi hne]
  constructor
  · rintro ⟨sts, outs, h0, hstep, ho, hst⟩
    refine ⟨sts, outs, h0, ?_, ho, hst⟩
    intro j hj
    have := hstep j hj
    rwa [hg j hj] at this
  · rintro ⟨sts, outs, h0, hstep, ho, hst⟩
    refine ⟨sts, outs, h0, ?_, ho, hst⟩
    intro j hj
    rw [hg j hj]; exact hstep j hj

/-- **Lists** (this includes ranges, which are lists): a non-empty list `xs` of length `n` renders
    `body` once per element in order, iteration `j` with value variable ↦ `xs[j]`, key variable (if
    any) ↦ `j`, `loop` ↦ `loopMeta j n`. -/
theorem C09_for_list {E : Env} {go : Go} {tpl : Bytes} {key val seq body els} {st st1 : St} {xs : List Val}
    {o : Bytes} {st' : St}
    (h : evalExpr E seq st = .ok (.list xs, st1)) (hne : xs ≠ []) :
    renderNode E go tpl (.forN key val seq body els) st = .ok (o, st') ↔
      ∃ (sts : Nat → St) (outs : Nat → Bytes),
        sts 0 = st1 ∧
        (∀ j (hj : j < xs.length),
          renderNodes E go tpl body (loopBind key val xs.length j (.int j, xs[j]) (sts j)) = .ok (outs j, sts (j + 1))) ∧
        o = ((List.range xs.length).map outs).flatten ∧
        st' = { sts xs.length with ctx := restoreLoop (getKV (b "loop") st1.ctx.vars) (sts xs.length).ctx } := by
  have hne' : listItems xs ≠ [] := by
    intro h0; apply hne; have := listItems_length xs; rw [h0] at this; exact List.length_eq_zero_iff.mp this.symm
  exact for_items_ok_iff_of_get h (forItems_list xs) hne' xs.length (listItems_length xs)
    (fun j hj => (.int j, xs[j])) (fun j hj => listItems_getElem xs j hj)

/-- **Strings** (ASCII; see `C09_for_string_nonascii_unsupported`): one iteration per character in
    order, value ↦ the one-character string, key ↦ the character position, `loop` counted in characters. -/
theorem C09_for_string_partial {E : Env} {go : Go} {tpl : Bytes} {key val seq body els} {st st1 : St} {s : Bytes}
    {o : Bytes} {st' : St}
    (h : evalExpr E seq st = .ok (.str s, st1)) (hascii : asciiOnly s = true) (hne : s ≠ []) :
    renderNode E go tpl (.forN key val seq body els) st = .ok (o, st') ↔
      ∃ (sts : Nat → St) (outs : Nat → Bytes),
        sts 0 = st1 ∧
        (∀ j (hj : j < s.length),
          renderNodes E go tpl body (loopBind key val s.length j (.int j, .str [s[j]]) (sts j)) = .ok (outs j, sts (j + 1))) ∧
        o = ((List.range s.length).map outs).flatten ∧
        st' = { sts s.length with ctx := restoreLoop (getKV (b "loop") st1.ctx.vars) (sts s.length).ctx } := by
  have hne' : strItems s ≠ [] := by
    intro h0; apply hne; have := strItems_length s; rw [h0] at this; exact List.length_eq_zero_iff.mp this.symm
  exact for_items_ok_iff_of_get h (forItems_str_ascii s hascii) hne' s.length (strItems_length s)
    (fun j hj => (.int j, .str [s[j]])) (fun j hj => strItems_getElem s j hj)

/-- the exclusion of `C09_for_string_partial`: iterating a string with a non-ASCII byte is outside the model -/
theorem C09_for_string_nonascii_unsupported {E : Env} {go : Go} {tpl : Bytes} {key val seq body els} {st st1 : St}
    {s : Bytes} (h : evalExpr E seq st = .ok (.str s, st1)) (hna : asciiOnly s = false) :
    renderNode E go tpl (.forN key val seq body els) st = .error (.unsupported "iterating a non-ASCII string") := by
  rw [renderNode_for, h, ok_bind, forItems_str_nonascii s hna]; rfl

/-- **Maps**: one iteration per entry in the order of the (key-sorted) association list, value ↦ the
    entry's value, key variable ↦ the entry's key as a string. -/
theorem C09_for_map {E : Env} {go : Go} {tpl : Bytes} {key val seq body els} {st st1 : St} {kvs : List (Bytes × Val)}
    {o : Bytes} {st' : St}
    (h : evalExpr E seq st = .ok (.map kvs, st1)) (hne : kvs ≠ []) :
    renderNode E go tpl (.forN key val seq body els) st = .ok (o, st') ↔
      ∃ (sts : Nat → St) (outs : Nat → Bytes),
        sts 0 = st1 ∧
        (∀ j (hj : j < kvs.length),
          renderNodes E go tpl body (loopBind key val kvs.length j (.str kvs[j].1, kvs[j].2) (sts j)) = .ok (outs j, sts (j + 1))) ∧
        o = ((List.range kvs.length).map outs).flatten ∧
        st' = { sts kvs.length with ctx := restoreLoop (getKV (b "loop") st1.ctx.vars) (sts kvs.length).ctx } := by
  have hlen : (mapItems kvs).length = kvs.length := by simp [mapItems]
  have hne' : mapItems kvs ≠ [] := by
    intro h0; apply hne; rw [h0] at hlen; exact List.length_eq_zero_iff.mp hlen.symm
  exact for_items_ok_iff_of_get h (forItems_map kvs) hne' kvs.length hlen
    (fun j hj => (.str kvs[j].1, kvs[j].2)) (fun j hj => mapItems_getElem kvs j hj)

/-! ## the loop variables as the body sees them -/

theorem b_first : b "first" = [102, 105, 114, 115, 116] := by decide +kernel
theorem b_index : b "index" = [105, 110, 100, 101, 120] := by decide +kernel
theorem b_index0 : b "index0" = [105, 110, 100, 101, 120, 48] := by decide +kernel
theorem b_last : b "last" = [108, 97, 115, 116] := by decide +kernel
theorem b_length : b "length" = [108, 101, 110, 103, 116, 104] := by decide +kernel
theorem b_revindex : b "revindex" = [114, 101, 118, 105, 110, 100, 101, 120] := by decide +kernel
theorem b_revindex0 : b "revindex0" = [114, 101, 118, 105, 110, 100, 101, 120, 48] := by decide +kernel

/-- `loop.index`, `index0`, `revindex`, `revindex0`, `first`, `last`, `length` at 0-based position `i` of
    `n` (`getAttr` is what `loop.x` evaluates through). -/
theorem C09_loop_meta (i n : Nat) :
    getAttr (loopMeta i n) (b "index") = .int (i + 1) ∧
    getAttr (loopMeta i n) (b "index0") = .int i ∧
    getAttr (loopMeta i n) (b "revindex") = .int ((n : Int) - i) ∧
    getAttr (loopMeta i n) (b "revindex0") = .int ((n : Int) - i - 1) ∧
    getAttr (loopMeta i n) (b "first") = .bool (i == 0) ∧
    getAttr (loopMeta i n) (b "last") = .bool (i + 1 == n) ∧
    getAttr (loopMeta i n) (b "length") = .int n := by
  simp only [getAttr, loopMeta, mapGet, b_first, b_index, b_index0, b_last, b_length, b_revindex, b_revindex0]
  refine ⟨?_, ?_, ?_, ?_, ?_, ?_, ?_⟩ <;> rfl

/-- `first` exactly at position 0, `last` exactly at position `n − 1` -/
theorem C09_loop_meta_first_last (i n : Nat) (hi : i < n) :
    (getAttr (loopMeta i n) (b "first") = .bool true ↔ i = 0) ∧
    (getAttr (loopMeta i n) (b "last") = .bool true ↔ i = n - 1) := by
  obtain ⟨_, _, _, _, hf, hl, _⟩ := C09_loop_meta i n
  rw [hf, hl]
  constructor
  · simp
  · simp; omega

/-- `index + revindex0 = length = index0 + revindex` at every position (as integers) -/
theorem C09_loop_meta_sums (i n : Nat) :
    ((i : Int) + 1) + ((n : Int) - i - 1) = n ∧ (i : Int) + ((n : Int) - i) = n := by omega

/-- what a variable read gives in the state of iteration `i` -/
theorem loopBind_getVar_loop (k v n i kv st) : (loopBind k v n i kv st).ctx.getVar (b "loop") = loopMeta i n := by
  simp only [loopBind, Ctx.getVar_setVar_same]

theorem loopBind_getVar_key (kk v n i kv st) (h : kk ≠ b "loop") :
    (loopBind (some kk) v n i kv st).ctx.getVar kk = kv.1 := by
  simp only [loopBind]
  rw [Ctx.getVar_setVar_ne _ _ _ _ h, Ctx.getVar_setVar_same]

theorem loopBind_getVar_val (k : Option Bytes) (v n i kv st) (h : v ≠ b "loop") (hk : ∀ kk, k = some kk → v ≠ kk) :
    (loopBind k v n i kv st).ctx.getVar v = kv.2 := by
  simp only [loopBind]
  rw [Ctx.getVar_setVar_ne _ _ _ _ h]
  cases k with
  | none => simp only [Ctx.getVar_setVar_same]
  | some kk => simp only []; rw [Ctx.getVar_setVar_ne _ _ _ _ (hk kk rfl), Ctx.getVar_setVar_same]

/-- every other variable reads as the previous iteration (or the code before the loop) left it:
    in particular a `set` made in iteration `i` is visible in iteration `i+1` -/
theorem loopBind_getVar_other (k : Option Bytes) (v n i kv st) (x : Bytes)
    (h : x ≠ b "loop") (hv : x ≠ v) (hk : ∀ kk, k = some kk → x ≠ kk) :
    (loopBind k v n i kv st).ctx.getVar x = st.ctx.getVar x := by
  simp only [loopBind]
  rw [Ctx.getVar_setVar_ne _ _ _ _ h]
  cases k with
  | none => simp only []; rw [Ctx.getVar_setVar_ne _ _ _ _ hv]
  | some kk => simp only []; rw [Ctx.getVar_setVar_ne _ _ _ _ (hk kk rfl), Ctx.getVar_setVar_ne _ _ _ _ hv]

theorem loopBind_getMacro (k : Option Bytes) (v n i kv st) (x : Bytes) :
    (loopBind k v n i kv st).ctx.getMacro x = st.ctx.getMacro x := by
  cases k <;> rfl

theorem loopBind_hasVar_loop (k : Option Bytes) (v n i kv st) :
    (loopBind k v n i kv st).ctx.hasVar (b "loop") = true := by
  simp only [loopBind]; exact Ctx.hasVar_setVar_same _ _ _

/-- **The counters the body reads** in iteration `i` of `n` (for every loop shape, with or without a key
    variable, whatever the value variable is called; a macro called `loop` is shadowed by the variable). -/
theorem C09_loop_counters_in_body (E : Env) (k : Option Bytes) (v : Bytes) (n i : Nat) (kv : Val × Val) (st : St) :
    let s := loopBind k v n i kv st
    evalExpr E (.attr (.var (b "loop")) (b "index")) s = .ok (.int (i + 1), s) ∧
    evalExpr E (.attr (.var (b "loop")) (b "index0")) s = .ok (.int i, s) ∧
    evalExpr E (.attr (.var (b "loop")) (b "revindex")) s = .ok (.int ((n : Int) - i), s) ∧
    evalExpr E (.attr (.var (b "loop")) (b "revindex0")) s = .ok (.int ((n : Int) - i - 1), s) ∧
    evalExpr E (.attr (.var (b "loop")) (b "first")) s = .ok (.bool (i == 0), s) ∧
    evalExpr E (.attr (.var (b "loop")) (b "last")) s = .ok (.bool (i + 1 == n), s) ∧
    evalExpr E (.attr (.var (b "loop")) (b "length")) s = .ok (.int n, s) := by
  intro s
  have hm' : s.ctx.hasVar (b "loop") = true ∨
      (getKV (b "loop") E.globals = none ∧ s.ctx.getMacro (b "loop") = none) :=
    .inl (loopBind_hasVar_loop k v n i kv st)
  obtain ⟨h1, h2, h3, h4, h5, h6, h7⟩ := C09_loop_meta i n
  simp only [evalExpr_var_attr hm', s, loopBind_getVar_loop, h1, h2, h3, h4, h5, h6, h7, and_self]

/-! ## nested loops keep their own counters -/

theorem getKV_restoreLoop (o : Option Val) (c : Ctx) : getKV (b "loop") (restoreLoop o c).vars = o := by
  cases o with
  | none => simp only [restoreLoop, Ctx.delVar]; exact getKV_filter_same _ _
  | some l => simp only [restoreLoop, Ctx.setVar]; exact getKV_setKV_same _ _ _

theorem getVar_restoreLoop_other (o : Option Val) (c : Ctx) (x : Bytes) (h : x ≠ b "loop") :
    (restoreLoop o c).getVar x = c.getVar x := by
  cases o with
  | none => simp only [restoreLoop, Ctx.delVar, Ctx.getVar, getKV_filter_ne _ _ _ h]
  | some l => simp only [restoreLoop]; exact Ctx.getVar_setVar_ne _ _ _ _ h

/-- **After a loop, `loop` is what it was before it** — for every body (also one that contains further
    loops, sets `loop`, includes templates, …): the entry `loop` of the context's own variable map after
    the node equals the entry before the node (`none` = absent: a `loop` of an enclosing *context* is then
    visible again through the parent chain). -/
theorem C09_nested {E : Env} {go : Go} {tpl : Bytes} {key val seq body els} {st st1 st' : St} {sv : Val}
    {items : List (Val × Val)} {o : Bytes}
    (h : evalExpr E seq st = .ok (sv, st1)) (hi : forItems sv = .ok (some items)) (hne : items ≠ [])
    (hr : renderNode E go tpl (.forN key val seq body els) st = .ok (o, st')) :
    getKV (b "loop") st'.ctx.vars = getKV (b "loop") st.ctx.vars := by
  rw [C09_for_items h hi hne] at hr
  obtain ⟨⟨o', st2⟩, _, hr⟩ := bind_ok hr
  cases hr
  simp only [getKV_restoreLoop, evalExpr_ctx h]

/-- … so in the body of an outer loop (iteration `i` of `n`, state `loopBind …`), after an inner loop
    over anything non-empty, `loop` reads as the outer loop's counters again. -/
theorem C09_nested_counters {E : Env} {go : Go} {tpl : Bytes} {key val seq body els} {st1 st' : St} {sv : Val}
    {items : List (Val × Val)} {o : Bytes} {k : Option Bytes} {v : Bytes} {n i : Nat} {kv : Val × Val} {st0 : St}
    (h : evalExpr E seq (loopBind k v n i kv st0) = .ok (sv, st1)) (hi : forItems sv = .ok (some items))
    (hne : items ≠ [])
    (hr : renderNode E go tpl (.forN key val seq body els) (loopBind k v n i kv st0) = .ok (o, st')) :
    st'.ctx.getVar (b "loop") = loopMeta i n := by
  have h1 := C09_nested h hi hne hr
  have h2 : getKV (b "loop") (loopBind k v n i kv st0).ctx.vars = some (loopMeta i n) := by
    simp only [loopBind, Ctx.setVar]; exact getKV_setKV_same _ _ _
  rw [h2] at h1
  simp only [Ctx.getVar, h1]

/-! ## set -/

/-- **A `set` is visible to everything rendered after it**: the rest of the node list is rendered in
    the state after evaluating the expression with `x` bound to the value; the `set` itself prints nothing. -/
theorem C09_set_visible {E : Env} {go : Go} {tpl : Bytes} {x : Bytes} {e : Expr} {rest : List Node} {st st1 : St}
    {v : Val} (h : evalExpr E e st = .ok (v, st1)) :
    renderNodes E go tpl (.setN x e :: rest) st =
      renderNodes E go tpl rest { st1 with ctx := st1.ctx.setVar x v } := by
  rw [renderNodes_cons, renderNode_set, h]
  simp only [ok_bind]
  cases renderNodes E go tpl rest { st1 with ctx := st1.ctx.setVar x v } with
  | error e => rfl
  | ok y => rfl

theorem C09_set_error {E : Env} {go : Go} {tpl : Bytes} {x : Bytes} {e : Expr} {rest : List Node} {st : St}
    {err : Err} (h : evalExpr E e st = .error err) :
    renderNodes E go tpl (.setN x e :: rest) st = .error err := by
  rw [renderNodes_cons, renderNode_set, h]; rfl

/-- the node alone: no output, only `x` changes in the context (own map), nothing else of the context -/
theorem C09_set_node {E : Env} {go : Go} {tpl : Bytes} {x : Bytes} {e : Expr} {st st1 : St} {v : Val}
    (h : evalExpr E e st = .ok (v, st1)) :
    renderNode E go tpl (.setN x e) st = .ok ([], { st1 with ctx := st.ctx.setVar x v }) := by
  rw [renderNode_set, h, ok_bind, evalExpr_ctx h]

/-- reading the variable back gives the value (later sets of other names do not disturb it) -/
theorem C09_set_reads_back (c : Ctx) (x y : Bytes) (v w : Val) :
    (c.setVar x v).getVar x = v ∧ (y ≠ x → ((c.setVar x v).setVar y w).getVar x = v) ∧
    (y ≠ x → (c.setVar x v).getVar y = c.getVar y) := by
  refine ⟨Ctx.getVar_setVar_same _ _ _, fun h => ?_, fun h => Ctx.getVar_setVar_ne _ _ _ _ h⟩
  rw [Ctx.getVar_setVar_ne _ _ _ _ (Ne.symm h), Ctx.getVar_setVar_same]

/-- **A set inside a loop body persists to the next iteration**: in the unrolling (`C09_for_items_ok_iff`)
    iteration `j+1` starts in `loopBind … (sts (j+1))` where `sts (j+1)` is the state at the end of iteration `j`;
    every variable other than the loop's own (`loop`, value, key) reads there exactly as at the end of
    iteration `j`. -/
theorem C09_set_persists (k : Option Bytes) (v : Bytes) (n j : Nat) (kv : Val × Val) (endOfPrev : St) (x : Bytes)
    (h : x ≠ b "loop") (hv : x ≠ v) (hk : ∀ kk, k = some kk → x ≠ kk) :
    (loopBind k v n (j + 1) kv endOfPrev).ctx.getVar x = endOfPrev.ctx.getVar x :=
  loopBind_getVar_other k v n (j + 1) kv endOfPrev x h hv hk

/-- **`C09_set_shadows_global`**: after `{% set x = e %}` the name `x` evaluates to the assigned value —
    whatever engine globals are registered (`Engine.AddGlobal`), in particular a global also called `x`,
    and whatever macros are visible: the assignment lands in the context's own map, and the context
    chain is consulted before the globals (and before the macros).  `E` itself is arbitrary (it may
    hold globals, also while `e` is evaluated); `g` ranges over every other global table. -/
theorem C09_set_shadows_global {E : Env} {go : Go} {tpl : Bytes} {x : Bytes} {e : Expr} {st st1 : St} {v : Val}
    (h : evalExpr E e st = .ok (v, st1)) :
    ∃ st', renderNode E go tpl (.setN x e) st = .ok ([], st') ∧
      ∀ (g : List (Bytes × Val)) (ap : Bool),
        evalX { E with globals := g } ap (.var x) st' = .ok ((v, []), st') := by
  refine ⟨_, C09_set_node h, fun g ap => ?_⟩
  rw [evalX_var, readVar_of_hasVar (Ctx.hasVar_setVar_same _ _ _), Ctx.getVar_setVar_same]

/-- the same for any successful run of the node: the value read back is the value `e` had -/
theorem C09_set_shadows_global_run {E : Env} {go : Go} {tpl : Bytes} {x : Bytes} {e : Expr} {st st' : St} {o : Bytes}
    (h : renderNode E go tpl (.setN x e) st = .ok (o, st')) :
    ∃ v st1, evalExpr E e st = .ok (v, st1) ∧
      ∀ (g : List (Bytes × Val)) (ap : Bool),
        evalX { E with globals := g } ap (.var x) st' = .ok ((v, []), st') := by
  rw [renderNode_set] at h
  obtain ⟨⟨v, st1⟩, h1, h⟩ := bind_ok h
  cases h
  refine ⟨v, st1, h1, fun g ap => ?_⟩
  rw [evalX_var, readVar_of_hasVar (Ctx.hasVar_setVar_same _ _ _), Ctx.getVar_setVar_same]

-- non-vacuity: a global `x` (byte 120) = 7 is read before the set, the assigned 1 after it
example :
    evalX { tpls := [], globals := [([120], .int 7)] } true (.var [120]) ⟨{}, [], 0⟩ = .ok ((.int 7, []), ⟨{}, [], 0⟩) ∧
    ∃ st', renderNode { tpls := [], globals := [([120], .int 7)] } (fun _ _ => .error .fuel) [] (.setN [120] (.int 1))
        ⟨{}, [], 0⟩ = .ok ([], st') ∧
      evalX { tpls := [], globals := [([120], .int 7)] } true (.var [120]) st' = .ok ((.int 1, []), st') := by
  refine ⟨rfl, ?_⟩
  obtain ⟨st', h1, h2⟩ := C09_set_shadows_global (E := { tpls := [], globals := [([120], .int 7)] })
    (go := fun _ _ => .error .fuel) (tpl := []) (x := [120]) (e := .int 1) (st := ⟨{}, [], 0⟩) (st1 := ⟨{}, [], 0⟩) rfl
  exact ⟨st', h1, h2 _ true⟩

/-! ## maps are key-sorted -/

theorem bytesLt_trans : ∀ (a c d : Bytes), bytesLt a c = true → bytesLt c d = true → bytesLt a d = true
  | [], [], _, h, _ => by simp [bytesLt] at h
  | [], _ :: _, [], _, h => by simp [bytesLt] at h
  | [], _ :: _, _ :: _, _, _ => by simp [bytesLt]
  | _ :: _, [], _, h, _ => by simp [bytesLt] at h
  | _ :: _, _ :: _, [], _, h => by simp [bytesLt] at h
  | x :: xs, y :: ys, z :: zs, h₁, h₂ => by
    simp only [bytesLt] at h₁ h₂ ⊢
    have ih := bytesLt_trans xs ys zs
    simp only [UInt8.lt_iff_toNat_lt] at h₁ h₂ ⊢
    repeat' split at h₁
    all_goals repeat' split at h₂
    all_goals repeat' split
    all_goals first | rfl | omega | (cases h₂; done) | (cases h₁; done) | exact ih h₁ h₂

theorem bytesLt_total : ∀ (a c : Bytes), a ≠ c → bytesLt a c = false → bytesLt c a = true
  | [], [], h, _ => absurd rfl h
  | [], _ :: _, _, h => by simp [bytesLt] at h
  | _ :: _, [], _, _ => by simp [bytesLt]
  | x :: xs, y :: ys, hne, h => by
    simp only [bytesLt] at h ⊢
    simp only [UInt8.lt_iff_toNat_lt] at h ⊢
    repeat' split at h
    all_goals repeat' split
    all_goals first | rfl | omega | (cases h; done) | skip
    · have hxy : x = y := by
        apply UInt8.toNat_inj.mp; omega
      subst hxy
      exact bytesLt_total xs ys (fun e => hne (by rw [e])) h

/-- a map value is key-sorted: strictly increasing keys (so also duplicate-free) -/
def KeysSorted (kvs : List (Bytes × Val)) : Prop := kvs.Pairwise fun a c => bytesLt a.1 c.1 = true

theorem mem_mapInsert {k : Bytes} {v : Val} : ∀ {kvs : List (Bytes × Val)} {x : Bytes × Val},
    x ∈ mapInsert k v kvs → x = (k, v) ∨ x ∈ kvs
  | [], x, h => by simp [mapInsert] at h; exact .inl h
  | (k', v') :: r, x, h => by
    simp only [mapInsert] at h
    split at h
    · rcases List.mem_cons.mp h with h | h
      · exact .inl h
      · exact .inr (List.mem_cons_of_mem _ h)
    · split at h
      · rcases List.mem_cons.mp h with h | h
        · exact .inl h
        · exact .inr h
      · rcases List.mem_cons.mp h with h | h
        · exact .inr (h ▸ List.mem_cons_self)
        · rcases mem_mapInsert h with h | h
          · exact .inl h
          · exact .inr (List.mem_cons_of_mem _ h)

/-- `mapInsert` (what hash literals, `merge` and `import` build maps with) keeps a map key-sorted -/
theorem mapInsert_sorted (k : Bytes) (v : Val) : ∀ (kvs : List (Bytes × Val)),
    KeysSorted kvs → KeysSorted (mapInsert k v kvs)
  | [], _ => by simp [mapInsert, KeysSorted]
  | (k', v') :: r, h => by
    unfold KeysSorted at h ⊢
    rw [List.pairwise_cons] at h
    simp only [mapInsert]
    split
    · rename_i heq
      have : k = k' := by simpa using heq
      subst this
      exact List.pairwise_cons.mpr ⟨h.1, h.2⟩
    · rename_i hne
      split
      · rename_i hlt
        refine List.pairwise_cons.mpr ⟨?_, List.pairwise_cons.mpr h⟩
        intro x hx
        rcases List.mem_cons.mp hx with hx | hx
        · rw [hx]; exact hlt
        · exact bytesLt_trans _ _ _ hlt (h.1 x hx)
      · rename_i hnlt
        have hgt : bytesLt k' k = true :=
          bytesLt_total k k' (by simpa using hne) (by simpa using hnlt)
        refine List.pairwise_cons.mpr ⟨?_, mapInsert_sorted k v r h.2⟩
        intro x hx
        rcases mem_mapInsert hx with hx | hx
        · rw [hx]; exact hgt
        · exact h.1 x hx

/-- a hash literal evaluates to a key-sorted map (pairs inserted left to right into the empty map) -/
theorem foldl_mapInsert_sorted (pairs : List (Bytes × Val)) : ∀ (acc : List (Bytes × Val)), KeysSorted acc →
    KeysSorted (pairs.foldl (fun acc kv => mapInsert kv.1 kv.2 acc) acc) := by
  induction pairs with
  | nil => intro acc h; exact h
  | cons p r ih => intro acc h; exact ih _ (mapInsert_sorted p.1 p.2 acc h)

theorem C09_hash_literal_sorted {E : Env} {ap : Bool} {items : List Expr} {st st' : St} {kvs ch}
    (h : evalX E ap (.hash items) st = .ok ((.map kvs, ch), st')) : KeysSorted kvs := by
  simp only [evalX] at h
  obtain ⟨⟨ps, st1⟩, _, h⟩ := bind_ok h
  cases h
  exact foldl_mapInsert_sorted ps [] List.Pairwise.nil

/-! ## range -/

/-- `x` is still inside the range that runs towards `stop` with step `step` -/
def inRangeDir (stop step x : Int) : Prop := (step > 0 ∧ x ≤ stop) ∨ (step < 0 ∧ x ≥ stop)

instance (stop step x : Int) : Decidable (inRangeDir stop step x) := by unfold inRangeDir; infer_instance

/-- number of elements of `range(start, stop, step)`: `⌊|stop − start| / |step|⌋ + 1` when the step points
    from `start` towards `stop` (or `start = stop`), else 0 -/
def rangeCount (start stop step : Int) : Nat :=
  if step > 0 ∧ start ≤ stop then ((stop - start) / step).toNat + 1
  else if step < 0 ∧ start ≥ stop then ((start - stop) / (-step)).toNat + 1
  else 0

/-- the arithmetic progression `start, start+step, …` that stays within `stop` (inclusive) -/
def rangeSpec (start stop step : Int) : List Val :=
  (List.range (rangeCount start stop step)).map fun (k : Nat) => Val.int (start + k * step)

theorem rangeList_cond (start stop step : Int) :
    ((step > 0 && start ≤ stop) || (step < 0 && start ≥ stop)) = true ↔ inRangeDir stop step start := by
  simp [inRangeDir]

/-- `rangeList` with enough fuel is the progression of length `m`, where `m` is the first index that
    leaves the range (no division involved) -/
theorem rangeList_eq_of_first_out (stop step : Int) :
    ∀ (m : Nat) (start : Int) (fuel : Nat), m ≤ fuel →
      (∀ k : Nat, k < m → inRangeDir stop step (start + k * step)) →
      ¬ inRangeDir stop step (start + m * step) →
      rangeList start stop step fuel = (List.range m).map fun (k : Nat) => Val.int (start + k * step)
  | 0, start, fuel, _, _, hout => by
    have hout' : ¬ inRangeDir stop step start := by simpa using hout
    cases fuel with
    | zero => rfl
    | succ f =>
      rw [rangeList, if_neg (by rwa [rangeList_cond])]; rfl
  | m + 1, start, fuel, hle, hin, hout => by
    cases fuel with
    | zero => omega
    | succ f =>
      have h0 : inRangeDir stop step start := by simpa using hin 0 (by omega)
      rw [rangeList, if_pos (by rwa [rangeList_cond])]
      rw [rangeList_eq_of_first_out stop step m (start + step) f (by omega)
        (fun k hk => by
          have := hin (k + 1) (by omega)
          have e : start + step + (k : Int) * step = start + ((k + 1 : Nat) : Int) * step := by
            rw [Int.natCast_add, Int.add_mul]; omega
          rwa [e])
        (by
          have e : start + step + (m : Int) * step = start + ((m + 1 : Nat) : Int) * step := by
            rw [Int.natCast_add, Int.add_mul]; omega
          rwa [e])]
      rw [List.range_succ_eq_map, List.map_cons, List.map_map]
      congr 1
      · simp
      · apply List.map_congr_left
        intro k _
        simp only [Function.comp]
        congr 1
        rw [Nat.succ_eq_add_one, Int.natCast_add, Int.add_mul]; omega

theorem rangeCount_in (start stop step : Int) (k : Nat) (hk : k < rangeCount start stop step) :
    inRangeDir stop step (start + k * step) := by
  unfold rangeCount at hk
  split at hk
  · rename_i h
    obtain ⟨hs, hle⟩ := h
    left; refine ⟨hs, ?_⟩
    have hq : 0 ≤ (stop - start) / step := Int.ediv_nonneg (by omega) (by omega)
    have hkq : (k : Int) ≤ (stop - start) / step := by omega
    have h1 := Int.mul_le_mul_of_nonneg_right hkq (Int.le_of_lt hs)
    have h2 := Int.ediv_mul_le (stop - start) (Int.ne_of_gt hs)
    omega
  · split at hk
    · rename_i h
      obtain ⟨hs, hge⟩ := h
      right; refine ⟨hs, ?_⟩
      have hs' : 0 < -step := by omega
      have hq : 0 ≤ (start - stop) / (-step) := Int.ediv_nonneg (by omega) (by omega)
      have hkq : (k : Int) ≤ (start - stop) / (-step) := by omega
      have h1 := Int.mul_le_mul_of_nonneg_right hkq (Int.le_of_lt hs')
      have h2 := Int.ediv_mul_le (start - stop) (Int.ne_of_gt hs')
      have e : (k : Int) * -step = -((k : Int) * step) := Int.mul_neg _ _
      omega
    · omega

theorem rangeCount_out (start stop step : Int) :
    ¬ inRangeDir stop step (start + (rangeCount start stop step : Nat) * step) := by
  unfold rangeCount
  split
  · rename_i h
    obtain ⟨hs, hle⟩ := h
    have hq : 0 ≤ (stop - start) / step := Int.ediv_nonneg (by omega) (by omega)
    have h2 := Int.lt_ediv_add_one_mul_self (stop - start) hs
    have e : (((stop - start) / step).toNat + 1 : Nat) = ((stop - start) / step + 1 : Int) := by omega
    rw [e]
    rintro (⟨_, h⟩ | ⟨h, _⟩) <;> omega
  · split
    · rename_i h
      obtain ⟨hs, hge⟩ := h
      have hs' : 0 < -step := by omega
      have hq : 0 ≤ (start - stop) / (-step) := Int.ediv_nonneg (by omega) (by omega)
      have h2 := Int.lt_ediv_add_one_mul_self (start - stop) hs'
      have e : (((start - stop) / (-step)).toNat + 1 : Nat) = ((start - stop) / (-step) + 1 : Int) := by omega
      rw [e]
      have e2 : ((start - stop) / (-step) + 1) * -step = -(((start - stop) / (-step) + 1) * step) := Int.mul_neg _ _
      rintro (⟨h, _⟩ | ⟨_, h⟩) <;> omega
    · rename_i h1 h2
      simp only [Int.natCast_zero, Int.zero_mul, Int.add_zero]
      rintro (⟨a, c⟩ | ⟨a, c⟩)
      · exact h1 ⟨a, c⟩
      · exact h2 ⟨a, c⟩

/-- the fuel the code passes, `⌊(stop − start) / step⌋ + 1` (Euclidean division, clamped at 0), is always enough -/
theorem rangeFuel_out (start stop step : Int) (hs : step ≠ 0) :
    ¬ inRangeDir stop step (start + ((((stop - start) / step).toNat + 1 : Nat) : Int) * step) := by
  have hn : (stop - start) / step + 1 ≤ ((((stop - start) / step).toNat + 1 : Nat) : Int) := by omega
  generalize ((((stop - start) / step).toNat + 1 : Nat) : Int) = n at hn
  rintro (⟨hpos, h⟩ | ⟨hneg, h⟩)
  · have h1 := Int.mul_le_mul_of_nonneg_right hn (Int.le_of_lt hpos)
    have h2 := Int.lt_ediv_add_one_mul_self (stop - start) hpos
    omega
  · have h1 := Int.mul_le_mul_of_nonpos_right hn (Int.le_of_lt hneg)
    have h2 := Int.mul_ediv_add_emod (stop - start) step
    have h3 := Int.emod_nonneg (stop - start) hs
    have e : ((stop - start) / step + 1) * step = step * ((stop - start) / step) + step := by
      rw [Int.add_mul, Int.mul_comm]; omega
    omega

theorem rangeCount_le_fuel (start stop step : Int) (hs : step ≠ 0) :
    rangeCount start stop step ≤ ((stop - start) / step).toNat + 1 := by
  apply Nat.le_of_not_lt
  intro h
  exact rangeFuel_out start stop step hs (rangeCount_in start stop step _ h)

theorem rangeList_spec (start stop step : Int) (hs : step ≠ 0) :
    rangeList start stop step (((stop - start) / step).toNat + 1) = rangeSpec start stop step :=
  rangeList_eq_of_first_out stop step (rangeCount start stop step) start _
    (rangeCount_le_fuel start stop step hs) (fun k hk => rangeCount_in start stop step k hk)
    (rangeCount_out start stop step)

/-- **range(a, b, s)** for integers, every case: step 0 is an error; more than 10000 potential elements
    is outside the model; otherwise the result is the list `a, a+s, a+2s, …` of all terms that do not pass
    `b` (inclusive end) — `rangeCount a b s` of them, none when `s` points away from `b`. -/
theorem C09_range (a c s : Int) :
    builtinFunction (b "range") [.int a, .int c, .int s] = some (
      if s = 0 then rerr "step cannot be zero"
      else if ((c - a) / s).toNat + 1 > 10000 then unsup "range longer than 10000"
      else .ok (.list (rangeSpec a c s))) := by
  have hname : (b "range" == b "range") = true := by simp
  simp only [builtinFunction, hname, if_true, toIntV, pure_eq_ok, ok_bind]
  by_cases hs : s = 0
  · simp [hs]
  · have : (s == 0) = false := by simpa using hs
    simp only [this, hs, if_false, Bool.false_eq_true]
    split
    · rfl
    · rw [rangeList_spec a c s hs]

theorem C09_range_length (a c s : Int) : (rangeSpec a c s).length = rangeCount a c s := by
  simp [rangeSpec]

/-- order and membership: element `k` is `a + k·s` -/
theorem C09_range_getElem (a c s : Int) (k : Nat) (hk : k < (rangeSpec a c s).length) :
    (rangeSpec a c s)[k] = .int (a + k * s) := by
  simp [rangeSpec]

/-- every element is within the bounds, and the next term of the progression is not -/
theorem C09_range_bounds (a c s : Int) :
    (∀ k : Nat, k < rangeCount a c s → inRangeDir c s (a + k * s)) ∧
    ¬ inRangeDir c s (a + (rangeCount a c s : Nat) * s) :=
  ⟨fun k hk => rangeCount_in a c s k hk, rangeCount_out a c s⟩

/-- … so the range consists of exactly the terms `a + k·s` (`k = 0, 1, …`) that are within the bounds -/
theorem C09_range_mem_iff (a c s : Int) (k : Nat) :
    k < rangeCount a c s ↔ inRangeDir c s (a + k * s) := by
  constructor
  · exact rangeCount_in a c s k
  · intro h
    apply Nat.lt_of_not_le
    intro hle
    obtain ⟨d, rfl⟩ := Nat.exists_eq_add_of_le hle
    have hout := rangeCount_out a c s
    have e : ((rangeCount a c s + d : Nat) : Int) * s = (rangeCount a c s : Nat) * s + (d : Int) * s := by
      rw [Int.natCast_add, Int.add_mul]
    rw [e] at h
    rcases h with ⟨hpos, h⟩ | ⟨hneg, h⟩
    · have : 0 ≤ (d : Int) * s := Int.mul_nonneg (by omega) (by omega)
      exact hout (.inl ⟨hpos, by omega⟩)
    · have : (d : Int) * s ≤ 0 := Int.mul_nonpos_of_nonneg_of_nonpos (by omega) (by omega)
      exact hout (.inr ⟨hneg, by omega⟩)

/-- inclusive end: when `stop` is a term of the progression it is an element -/
theorem C09_range_stop_included (a s : Int) (k : Nat) (hs : s ≠ 0) :
    Val.int (a + k * s) = (rangeSpec a (a + k * s) s)[k]'(by
      rw [C09_range_length, C09_range_mem_iff]
      rcases Int.lt_or_gt_of_ne hs with h | h
      · exact .inr ⟨h, Int.le_refl _⟩
      · exact .inl ⟨h, Int.le_refl _⟩) := by
  rw [C09_range_getElem]

/-- empty exactly when the step points away from `stop` -/
theorem C09_range_empty_iff (a c s : Int) :
    rangeSpec a c s = [] ↔ ¬ ((s > 0 ∧ a ≤ c) ∨ (s < 0 ∧ a ≥ c)) := by
  rw [← List.length_eq_zero_iff, C09_range_length]
  unfold rangeCount
  split
  · rename_i h; simp [h]
  · split
    · rename_i h1 h; simp [h]
    · rename_i h1 h2; simp [h1, h2]

/-- the length formula -/
theorem C09_range_count (a c s : Int) :
    (s > 0 → a ≤ c → rangeCount a c s = ((c - a) / s).toNat + 1) ∧
    (s < 0 → a ≥ c → rangeCount a c s = ((a - c) / (-s)).toNat + 1) := by
  constructor
  · intro h1 h2; simp [rangeCount, h1, h2]
  · intro h1 h2
    have : ¬ s > 0 := by omega
    simp [rangeCount, h1, h2, this]

/-- default arguments: `range(a, c)` is `range(a, c, 1)` and `range(c)` is `range(0, c, 1)` -/
theorem C09_range_defaults (a c : Int) :
    builtinFunction (b "range") [.int a, .int c] = builtinFunction (b "range") [.int a, .int c, .int 1] ∧
    builtinFunction (b "range") [.int c] = builtinFunction (b "range") [.int 0, .int c, .int 1] := by
  have hname : (b "range" == b "range") = true := by simp
  constructor <;> simp only [builtinFunction, hname, if_true, toIntV, pure_eq_ok, ok_bind]

-- non-vacuity: ascending, descending with a step that does not hit the end, wrong direction, step 0, in a loop
example : rangeSpec 1 7 3 = [.int 1, .int 4, .int 7] ∧ rangeSpec 5 (-2) (-3) = [.int 5, .int 2, .int (-1)] ∧
    rangeSpec 3 1 1 = [] ∧ rangeSpec 2 2 (-1) = [.int 2] := by
  refine ⟨?_, ?_, ?_, ?_⟩ <;> rfl
example : renderDemo "{% for i in range(5, -2, -3) %}{{ i }}:{{ loop.index }}/{{ loop.length }} {% endfor %}"
    = some (b "5:1/3 2:2/3 -1:3/3 ") := by decide +kernel
example : renderDemo "{% for i in range(3, 1) %}{{ i }}{% else %}none{% endfor %}" = some (b "none") := by decide +kernel
example : renderDemo "{{ range(1, 3, 0) }}" = none := by decide +kernel


/-! ## non-vacuity: whole-pipeline instances (source text → `parseTemplate` → `renderTop`) -/

-- for over a list: body once per element in order, all seven counters
example : renderDemo "{% for x in [7,8,9] %}{{ x }}:{{ loop.index }}{{ loop.index0 }}{{ loop.revindex }}{{ loop.revindex0 }}{{ loop.length }}{% if loop.first %}F{% endif %}{% if loop.last %}L{% endif %} {% endfor %}"
    = some (b "7:10323F 8:21213 9:32103L ") := by decide +kernel
-- key variable = position
example : renderDemo "{% for i, x in [7,8] %}{{ i }}{{ x }}{% endfor %}" = some (b "0718") := by decide +kernel
-- else branch exactly when nothing to iterate: [], null, a number, '' — but not [0]
example : renderDemo "{% for x in [] %}X{% else %}E{% endfor %}{% for x in null %}X{% else %}N{% endfor %}{% for x in 5 %}X{% else %}I{% endfor %}{% for x in '' %}X{% else %}S{% endfor %}{% for x in [0] %}X{% else %}E{% endfor %}"
    = some (b "ENISX") := by decide +kernel
-- strings: characters in order, positions counted in characters
example : renderDemo "{% for c in 'hey' %}{{ loop.index }}{{ c }}{{ loop.revindex0 }}{% if loop.first %}F{% endif %}{% if loop.last %}L{% endif %} {% endfor %}"
    = some (b "1h2F 2e1 3y0L ") := by decide +kernel
-- a string with a multi-byte character is outside the model (the exclusion of `C09_for_string_partial`)
example : renderDemo "{% for c in s %}{{ c }}{% endfor %}" [(b "s", .str [104, 195, 169])] = none := by decide +kernel
-- maps: key-sorted entries, key bound to the key
example : renderDemo "{% for k, v in {'b': 1, 'a': 2} %}{{ k }}={{ v }}:{{ loop.index0 }};{% endfor %}"
    = some (b "a=2:0;b=1:1;") := by decide +kernel
-- nested loops keep their own counters; no `loop` is left behind after the outermost loop
example : renderDemo "{% for i in [1,2] %}{{ loop.index }}[{% for j in 'abc' %}{{ loop.index }}{% endfor %}]{{ loop.index }}/{{ loop.length }} {% endfor %}{{ loop is defined ? 'leak' : 'clean' }}"
    = some (b "1[123]1/2 2[123]2/2 clean") := by decide +kernel
-- set: visible afterwards, in later sets, across iterations and after the loop
example : renderDemo "{% set t = 0 %}{% for i in [1,2,3] %}{% set t = t + i %}{{ t }},{% endfor %}{{ t }}"
    = some (b "1,3,6,6") := by decide +kernel
example : renderDemo "{% set a = 1 %}{% set b = a + 1 %}{% if b == 2 %}{% set a = 5 %}{% endif %}{{ a }}{{ b }}"
    = some (b "52") := by decide +kernel
-- hypotheses of the theorems are satisfiable: a sequence expression evaluating to a non-empty list / string / map
example : ∃ st1, evalExpr {tpls := []} (.array [.int 1, .int 2]) ⟨{}, [], 0⟩ = .ok (.list [.int 1, .int 2], st1) ∧
    [Val.int 1, .int 2] ≠ [] := ⟨_, rfl, by simp⟩
example : ∃ st1, evalExpr {tpls := []} (.str (b "ab")) ⟨{}, [], 0⟩ = .ok (.str (b "ab"), st1) ∧
    asciiOnly (b "ab") = true ∧ b "ab" ≠ [] := ⟨_, rfl, by decide +kernel, by decide +kernel⟩
example : AllFalsy {tpls := []} [(.int 0, [.text (b "A")]), (.str [], [])] ⟨{}, [], 0⟩ ⟨{}, [], 0⟩ :=
  .cons (v := .int 0) rfl rfl (.cons (v := .str []) rfl rfl (.nil _))

end Twig
