/-
  Property C19 at PIPELINE level — the filters of the render model (`Twig.builtinFilter`,
  TwigModel/Builtins.lean) that are adapters to the filter model `Twig.Flt` (TwigModel/Filters.lean)
  compute the `Flt` function on the converted value, and the C19 equations proved about `Flt`
  therefore hold for what `{{ v|filter }}` evaluates to in the scan → parse → render model.

  * dispatch            `builtinFilter (b "slice") v a = some (sliceFilter v a)` … (the name chain);
  * `Agrees`            what "the pipeline result IS the Flt result" means: an `.ok w` comes back as the
                        value `w` converts to (`Val.ofFlt?`), an `.err` as a render error, an
                        `.unsupported` as `unsup`;
  * `C19_pipe_<f>`      one theorem per wired filter: for every pipeline value that converts
                        (`Val.toFlt?`: scalars and lists of scalars), `Agrees (Flt.<f>V …) (builtinFilter …)`;
                        plus the explicit equations on strings (every byte string) and on lists of ANY
                        elements where the adapter is polymorphic (slice);
  * transported         length∘reverse, reverse∘reverse, trim∘trim, slice = Twig's index rules,
                        sort = the ordered permutation (and the only one), split∘join, and the new
                        `split('')` facts (join('')∘split('') = id, length∘split('') = length).
-/
import TwigProofs.C19
import TwigModel.Builtins

namespace Twig.C19
open Twig

/-! ## the name chain -/

theorem pipe_dispatch_slice (v : Val) (a : List Val) : builtinFilter (b "slice") v a = some (sliceFilter v a) := by
  with_unfolding_all rfl
theorem pipe_dispatch_sort (v : Val) (a : List Val) : builtinFilter (b "sort") v a = some (sortFilter v) := by
  with_unfolding_all rfl
theorem pipe_dispatch_split (v : Val) (a : List Val) : builtinFilter (b "split") v a = some (splitFilter v a) := by
  with_unfolding_all rfl
theorem pipe_dispatch_capitalize (v : Val) (a : List Val) :
    builtinFilter (b "capitalize") v a = some (capitalizeFilter v) := by
  with_unfolding_all rfl
theorem pipe_dispatch_title (v : Val) (a : List Val) : builtinFilter (b "title") v a = some (capitalizeFilter v) := by
  with_unfolding_all rfl

/-- `length` / `count` (one Go method) as the model has it -/
def lengthFilter (v : Val) : R Val :=
  match v with
  | .null => .ok (.int 0)
  | .str s => .ok (.int (Flt.Utf8.runeCount s))
  | .list xs => .ok (.int xs.length)
  | .map kvs => .ok (.int kvs.length)
  | _ => rerr "cannot get length"

theorem pipe_dispatch_length (v : Val) (a : List Val) : builtinFilter (b "length") v a = some (lengthFilter v) := by
  cases v <;> with_unfolding_all rfl
theorem pipe_dispatch_count (v : Val) (a : List Val) : builtinFilter (b "count") v a = some (lengthFilter v) := by
  cases v <;> with_unfolding_all rfl

def firstFilter (v : Val) : R Val :=
  match v with
  | .null => .ok .null
  | .str s => .ok (.str (Flt.firstStr s))
  | .list xs => .ok (xs.head?.getD .null)
  | .map kvs => .ok ((kvs.head?.map (·.2)).getD .null)
  | _ => rerr "cannot get first element"

def lastFilter (v : Val) : R Val :=
  match v with
  | .null => .ok .null
  | .str s => .ok (.str (Flt.lastStr s))
  | .list xs => .ok (xs.getLast?.getD .null)
  | _ => rerr "cannot get last element"

def reverseFilter (v : Val) : R Val :=
  match v with
  | .null => .ok .null
  | .str s => .ok (.str (Flt.reverseStr s))
  | .list xs => .ok (.list xs.reverse)
  | _ => rerr "cannot reverse"

theorem pipe_dispatch_first (v : Val) (a : List Val) : builtinFilter (b "first") v a = some (firstFilter v) := by
  cases v <;> with_unfolding_all rfl
theorem pipe_dispatch_last (v : Val) (a : List Val) : builtinFilter (b "last") v a = some (lastFilter v) := by
  cases v <;> with_unfolding_all rfl
theorem pipe_dispatch_reverse (v : Val) (a : List Val) : builtinFilter (b "reverse") v a = some (reverseFilter v) := by
  cases v <;> with_unfolding_all rfl
theorem pipe_dispatch_trim_str (s : Bytes) :
    builtinFilter (b "trim") (.str s) [] = some (.ok (.str (Flt.trimStr s))) := by
  with_unfolding_all rfl
theorem pipe_dispatch_join_strs (sep : Bytes) (v : Val) (rest : List Val) :
    builtinFilter (b "join") v (.str sep :: rest) = some (match v with
      | .null => .ok (.str [])
      | .list xs => do let ss ← mapM' toStr xs; .ok (.str (Twig.joinBytes sep ss))
      | other => do .ok (.str (← toStr other))) := by
  cases v <;> with_unfolding_all rfl

/-! ## conversions -/

/-- the pipeline value of a scalar of the filter model (a float has none: `.null` is a placeholder that
    the lemmas below never reach, `noDec`) -/
def ofSc : Flt.Scalar → Val
  | .null => .null
  | .bool x => .bool x
  | .int i => .int i
  | .str s => .str s
  | .dec _ _ _ => .null

def noDec : Flt.Scalar → Bool
  | .dec _ _ _ => false
  | _ => true

theorem scalarOfFlt_eq (a : Flt.Scalar) (h : noDec a = true) : scalarOfFlt? a = some (ofSc a) := by
  cases a <;> simp_all [scalarOfFlt?, ofSc, noDec]

theorem toScalar_inv (x : Val) (a : Flt.Scalar) (h : x.toScalar? = some a) : x = ofSc a ∧ noDec a = true := by
  cases x <;> simp [Val.toScalar?] at h <;> subst h <;> simp [ofSc, noDec]

theorem scalarsToFlt_inv : ∀ (xs : List Val) (ss : List Flt.Scalar), scalarsToFlt xs = some ss →
    xs = ss.map ofSc ∧ ∀ a ∈ ss, noDec a = true
  | [], ss, h => by simp [scalarsToFlt] at h; subst h; simp
  | x :: r, ss, h => by
    rw [scalarsToFlt] at h
    split at h
    · rename_i a as ha has
      simp only [Option.some.injEq] at h; subst h
      obtain ⟨e1, d1⟩ := toScalar_inv x a ha
      obtain ⟨e2, d2⟩ := scalarsToFlt_inv r as has
      refine ⟨by simp [← e1, ← e2], ?_⟩
      intro c hc; rcases List.mem_cons.mp hc with rfl | hc
      · exact d1
      · exact d2 c hc
    · cases h

theorem scalarsOfFlt_map : ∀ (ss : List Flt.Scalar), (∀ a ∈ ss, noDec a = true) → scalarsOfFlt? ss = some (ss.map ofSc)
  | [], _ => rfl
  | a :: r, h => by
    rw [scalarsOfFlt?, scalarOfFlt_eq a (h a (by simp)), scalarsOfFlt_map r (fun c hc => h c (by simp [hc]))]
    rfl

theorem toScalar_ofSc (a : Flt.Scalar) (h : noDec a = true) : (ofSc a).toScalar? = some a := by
  cases a <;> simp_all [Val.toScalar?, ofSc, noDec]

theorem scalarsToFlt_map : ∀ (ss : List Flt.Scalar), (∀ a ∈ ss, noDec a = true) → scalarsToFlt (ss.map ofSc) = some ss
  | [], _ => rfl
  | a :: r, h => by
    rw [List.map_cons, scalarsToFlt, toScalar_ofSc a (h a (by simp)), scalarsToFlt_map r (fun c hc => h c (by simp [hc]))]

/-- converting to the filter model and back is the identity -/
theorem C19_pipe_convert_roundtrip (v : Val) (fv : Flt.Val) (h : v.toFlt? = some fv) : Val.ofFlt? fv = some v := by
  cases v with
  | list xs =>
    simp only [Val.toFlt?, Option.map_eq_some_iff] at h
    obtain ⟨ss, hss, rfl⟩ := h
    obtain ⟨e, d⟩ := scalarsToFlt_inv xs ss hss
    simp [Val.ofFlt?, scalarsOfFlt_map ss d, e]
  | null => simp [Val.toFlt?, Val.toScalar?] at h; subst h; rfl
  | bool x => simp [Val.toFlt?, Val.toScalar?] at h; subst h; rfl
  | int i => simp [Val.toFlt?, Val.toScalar?] at h; subst h; rfl
  | str s => simp [Val.toFlt?, Val.toScalar?] at h; subst h; rfl
  | _ => simp [Val.toFlt?, Val.toScalar?] at h

/-- the values that convert: scalars and lists of scalars — with their images -/
theorem toFlt_cases (v : Val) (fv : Flt.Val) (h : v.toFlt? = some fv) :
    (∃ a, noDec a = true ∧ v = ofSc a ∧ fv = .sc a) ∨
    (∃ ss, (∀ a ∈ ss, noDec a = true) ∧ v = .list (ss.map ofSc) ∧ fv = .list .any false ss) := by
  cases v with
  | list xs =>
    simp only [Val.toFlt?, Option.map_eq_some_iff] at h
    obtain ⟨ss, hss, rfl⟩ := h
    obtain ⟨e, d⟩ := scalarsToFlt_inv xs ss hss
    exact .inr ⟨ss, d, by rw [e], rfl⟩
  | null => simp [Val.toFlt?, Val.toScalar?] at h; subst h; exact .inl ⟨.null, rfl, rfl, rfl⟩
  | bool x => simp [Val.toFlt?, Val.toScalar?] at h; subst h; exact .inl ⟨.bool x, rfl, rfl, rfl⟩
  | int i => simp [Val.toFlt?, Val.toScalar?] at h; subst h; exact .inl ⟨.int i, rfl, rfl, rfl⟩
  | str s => simp [Val.toFlt?, Val.toScalar?] at h; subst h; exact .inl ⟨.str s, rfl, rfl, rfl⟩
  | _ => simp [Val.toFlt?, Val.toScalar?] at h

example : (Val.list [.int 3, .str [0xC3, 0xA9], .null, .bool true]).toFlt?
    = some (.list .any false [.int 3, .str [0xC3, 0xA9], .null, .bool true]) := by decide
example : (Val.list [.list []]).toFlt? = none ∧ (Val.map []).toFlt? = none := by decide

/-! ## agreement of a pipeline result with a result of the filter model -/

/-- the pipeline's answer `p` IS the filter model's answer `r`: a value comes back as the pipeline value
    it converts to, an error as a render error, "outside the model" as `unsup` -/
def Agrees (r : Flt.Res) (p : Option (R Val)) : Prop :=
  match r with
  | .ok w => ∃ x, Val.ofFlt? w = some x ∧ p = some (.ok x)
  | .err => ∃ m, p = some (rerr m)
  | .panic => ∃ m, p = some (unsup m)
  | .unsupported => ∃ m, p = some (unsup m)

theorem agrees_resOfFlt (r : Flt.Res) (h : ∀ w, r = .ok w → (Val.ofFlt? w).isSome) : Agrees r (some (resOfFlt r)) := by
  cases r with
  | ok w =>
    have := h w rfl
    obtain ⟨x, hx⟩ := Option.isSome_iff_exists.mp this
    exact ⟨x, hx, by simp [resOfFlt, hx]⟩
  | err => exact ⟨_, rfl⟩
  | panic => exact ⟨_, rfl⟩
  | unsupported => exact ⟨_, rfl⟩

/-! ## length, first, last, reverse, trim -/

/-- `length` / `count`: the number of runes of EVERY byte string (an invalid byte counts one) -/
theorem C19_pipe_length_str (s : Bytes) (a : List Val) :
    builtinFilter (b "length") (.str s) a = some (.ok (.int (Flt.Utf8.runeCount s))) ∧
    builtinFilter (b "count") (.str s) a = some (.ok (.int (Flt.Utf8.runeCount s))) := by
  rw [pipe_dispatch_length, pipe_dispatch_count]; exact ⟨rfl, rfl⟩

theorem C19_pipe_length (v : Val) (fv : Flt.Val) (a : List Val) (h : v.toFlt? = some fv) :
    Agrees (Flt.lengthV fv) (builtinFilter (b "length") v a) ∧
    Agrees (Flt.lengthV fv) (builtinFilter (b "count") v a) := by
  rw [pipe_dispatch_length, pipe_dispatch_count]
  rcases toFlt_cases v fv h with ⟨c, hd, rfl, rfl⟩ | ⟨ss, hd, rfl, rfl⟩
  · cases c with
    | dec _ _ _ => simp [noDec] at hd
    | null => exact ⟨⟨_, rfl, rfl⟩, ⟨_, rfl, rfl⟩⟩
    | str s => exact ⟨⟨_, rfl, rfl⟩, ⟨_, rfl, rfl⟩⟩
    | bool x => exact ⟨⟨_, rfl⟩, ⟨_, rfl⟩⟩
    | int i => exact ⟨⟨_, rfl⟩, ⟨_, rfl⟩⟩
  · have e : lengthFilter (.list (ss.map ofSc)) = .ok (.int ss.length) := by simp [lengthFilter]
    rw [e]; exact ⟨⟨_, rfl, rfl⟩, ⟨_, rfl, rfl⟩⟩

example : (Val.str [0x68, 0xC3, 0xA9, 0xFF]).toFlt? = some (.sc (.str [0x68, 0xC3, 0xA9, 0xFF])) ∧
    builtinFilter (b "length") (.str [0x68, 0xC3, 0xA9, 0xFF]) [] = some (.ok (.int 3)) := by
  refine ⟨by decide, ?_⟩; rw [(C19_pipe_length_str _ _).1]
  exact congrArg (fun n : Nat => some (Except.ok (Val.int n))) (by decide)

/-- `first` of a string: the first rune re-encoded (U+FFFD for an invalid first byte), every byte string -/
theorem C19_pipe_first_str (s : Bytes) (a : List Val) :
    builtinFilter (b "first") (.str s) a = some (.ok (.str (Flt.firstStr s))) := by
  rw [pipe_dispatch_first]; rfl

theorem firstV_str (s : Bytes) : Flt.firstV (.sc (.str s)) = .ok (.sc (.str (Flt.firstStr s))) := by
  simp only [Flt.firstV, Flt.firstStr]; cases Flt.Utf8.decodeRunes s <;> rfl

theorem C19_pipe_first (v : Val) (fv : Flt.Val) (a : List Val) (h : v.toFlt? = some fv) :
    Agrees (Flt.firstV fv) (builtinFilter (b "first") v a) := by
  rw [pipe_dispatch_first]
  rcases toFlt_cases v fv h with ⟨c, hd, rfl, rfl⟩ | ⟨ss, hd, rfl, rfl⟩
  · cases c with
    | dec _ _ _ => simp [noDec] at hd
    | null => exact ⟨_, rfl, rfl⟩
    | str s => rw [firstV_str]; exact ⟨_, rfl, rfl⟩
    | bool x => exact ⟨_, rfl⟩
    | int i => exact ⟨_, rfl⟩
  · cases ss with
    | nil => exact ⟨_, rfl, rfl⟩
    | cons c r =>
      refine ⟨ofSc c, ?_, rfl⟩
      simp only [Val.ofFlt?]; exact scalarOfFlt_eq c (hd c (by simp))

/-- `last` of a string: its last `DecodeLastRune` bytes as they are, every byte string -/
theorem C19_pipe_last_str (s : Bytes) (a : List Val) :
    builtinFilter (b "last") (.str s) a = some (.ok (.str (Flt.lastStr s))) := by
  rw [pipe_dispatch_last]; rfl

theorem C19_pipe_last (v : Val) (fv : Flt.Val) (a : List Val) (h : v.toFlt? = some fv) :
    Agrees (Flt.lastV fv) (builtinFilter (b "last") v a) := by
  rw [pipe_dispatch_last]
  rcases toFlt_cases v fv h with ⟨c, hd, rfl, rfl⟩ | ⟨ss, hd, rfl, rfl⟩
  · cases c with
    | dec _ _ _ => simp [noDec] at hd
    | null => exact ⟨_, rfl, rfl⟩
    | str s => exact ⟨_, rfl, rfl⟩
    | bool x => exact ⟨_, rfl⟩
    | int i => exact ⟨_, rfl⟩
  · simp only [Flt.lastV, lastFilter, List.getLast?_map]
    cases hl : ss.getLast? with
    | none => exact ⟨_, rfl, rfl⟩
    | some c =>
      refine ⟨ofSc c, ?_, rfl⟩
      simp only [Val.ofFlt?]; exact scalarOfFlt_eq c (hd c (List.mem_of_getLast? hl))

/-- `reverse` of a string: its runes in reverse, re-encoded, every byte string -/
theorem C19_pipe_reverse_str (s : Bytes) (a : List Val) :
    builtinFilter (b "reverse") (.str s) a = some (.ok (.str (Flt.reverseStr s))) := by
  rw [pipe_dispatch_reverse]; rfl

/-- `reverse` of a list of ANY elements -/
theorem C19_pipe_reverse_list (xs : List Val) (a : List Val) :
    builtinFilter (b "reverse") (.list xs) a = some (.ok (.list xs.reverse)) := by
  rw [pipe_dispatch_reverse]; rfl

theorem C19_pipe_reverse (v : Val) (fv : Flt.Val) (a : List Val) (h : v.toFlt? = some fv) :
    Agrees (Flt.reverseV fv) (builtinFilter (b "reverse") v a) := by
  rw [pipe_dispatch_reverse]
  rcases toFlt_cases v fv h with ⟨c, hd, rfl, rfl⟩ | ⟨ss, hd, rfl, rfl⟩
  · cases c with
    | dec _ _ _ => simp [noDec] at hd
    | null => exact ⟨_, rfl, rfl⟩
    | str s => exact ⟨_, rfl, rfl⟩
    | bool x => exact ⟨_, rfl⟩
    | int i => exact ⟨_, rfl⟩
  · refine ⟨.list (ss.map ofSc).reverse, ?_, rfl⟩
    simp only [Val.ofFlt?]
    rw [scalarsOfFlt_map ss.reverse (fun c hc => hd c (List.mem_reverse.mp hc))]
    simp

/-- `trim` without arguments: `strings.TrimSpace` with every Unicode white space, every byte string -/
theorem C19_pipe_trim_str (s : Bytes) :
    builtinFilter (b "trim") (.str s) [] = some (.ok (.str (Flt.trimStr s))) ∧
    Agrees (Flt.applyFilter Flt.CaseMap.asciiOnly "trim" (.sc (.str s)) []) (builtinFilter (b "trim") (.str s) []) := by
  rw [pipe_dispatch_trim_str]; exact ⟨rfl, _, rfl, rfl⟩

/-- the string result of a filter, for the non-vacuity examples -/
theorem str_result {p : Option (R Val)} {x y : Bytes} (h : p = some (.ok (.str x))) (e : x = y) :
    p = some (.ok (.str y)) := e ▸ h

example : builtinFilter (b "first") (.str [0xFF, 0x61]) [] = some (.ok (.str [0xEF, 0xBF, 0xBD])) :=
  str_result (C19_pipe_first_str _ _) (by decide)
example : builtinFilter (b "last") (.str [0x61, 0xFF]) [] = some (.ok (.str [0xFF])) :=
  str_result (C19_pipe_last_str _ _) (by decide)
example : builtinFilter (b "last") (.str [0x61, 0xC3, 0xA9]) [] = some (.ok (.str [0xC3, 0xA9])) :=
  str_result (C19_pipe_last_str _ _) (by decide)
example : builtinFilter (b "reverse") (.str [0x61, 0xC3, 0xA9, 0xE2, 0x82, 0xAC]) []
    = some (.ok (.str [0xE2, 0x82, 0xAC, 0xC3, 0xA9, 0x61])) :=
  str_result (C19_pipe_reverse_str _ _) (by decide)
example : builtinFilter (b "trim") (.str [32, 0xC2, 0xA0, 0x61, 0xE3, 0x80, 0x80]) [] = some (.ok (.str [0x61])) :=
  str_result (C19_pipe_trim_str _).1 (by decide)

/-! ## slice -/

/-- the argument handling of `Flt.sliceV`, with what happens after it as a parameter -/
def fltSliceK (fargs : List Flt.Val) (F : Int → Option Int → Flt.Res) : Flt.Res :=
  match fargs with
  | [] => .err
  | a0 :: rest =>
    match Flt.toIntArg a0 with
    | .error e => e
    | .ok start =>
      let lenR : Except Flt.Res (Option Int) := match rest with
        | [] => pure none
        | .sc .null :: _ => pure none
        | a1 :: _ => (Flt.toIntArg a1).map some
      match lenR with
      | .error e => e
      | .ok len => F start len

/-- the argument handling of `sliceFilter` -/
def pipeSliceK (args : List Val) (P : Int → Option Int → R Val) : R Val :=
  match args with
  | [] => rerr "slice filter requires at least one argument (start index)"
  | a0 :: rest => do
    let start ← sliceIntArg a0
    let len : Option Int ← match rest with
      | [] => pure none
      | .null :: _ => pure none
      | a1 :: _ => do pure (some (← sliceIntArg a1))
    P start len

theorem sliceV_bool (x : Bool) (fa : List Flt.Val) : Flt.sliceV (.sc (.bool x)) fa = fltSliceK fa (fun _ _ => .err) := rfl
theorem sliceV_int (i : Int) (fa : List Flt.Val) : Flt.sliceV (.sc (.int i)) fa = fltSliceK fa (fun _ _ => .err) := rfl
theorem sliceV_str (s : Bytes) (fa : List Flt.Val) : Flt.sliceV (.sc (.str s)) fa = fltSliceK fa (fun st l =>
    .ok (.sc (.str (Flt.Utf8.encodeRunes (Flt.Slice.goSlice64 (Flt.Utf8.decodeRunes s) st l))))) := rfl
theorem sliceV_list (ty : Flt.ElemTy) (arr : Bool) (xs : List Flt.Scalar) (fa : List Flt.Val) :
    Flt.sliceV (.list ty arr xs) fa = fltSliceK fa (fun st l => .ok (.list ty false (Flt.Slice.goSlice64 xs st l))) := rfl

theorem sliceFilter_bool (x : Bool) (a : List Val) : sliceFilter (.bool x) a = pipeSliceK a (fun _ _ => rerr "cannot slice") := rfl
theorem sliceFilter_int (i : Int) (a : List Val) : sliceFilter (.int i) a = pipeSliceK a (fun _ _ => rerr "cannot slice") := rfl
theorem sliceFilter_str (s : Bytes) (a : List Val) : sliceFilter (.str s) a = pipeSliceK a (fun st l =>
    .ok (.str (Flt.Utf8.encodeRunes (Flt.Slice.goSlice64 (Flt.Utf8.decodeRunes s) st l)))) := rfl
theorem sliceFilter_list (xs : List Val) (a : List Val) : sliceFilter (.list xs) a = pipeSliceK a (fun st l =>
    .ok (.list (Flt.Slice.goSlice64 xs st l))) := rfl

theorem toIntArg_error (fa : Flt.Val) (e : Flt.Res) (h : Flt.toIntArg fa = .error e) : e = .err ∨ e = .unsupported := by
  unfold Flt.toIntArg at h
  split at h
  · split at h <;> simp_all [pure, Except.pure, throw, throwThe, MonadExceptOf.throw]
  · simp only [] at h; (repeat' split at h) <;> simp_all [pure, Except.pure, throw, throwThe, MonadExceptOf.throw]
  · split at h <;> simp_all [pure, Except.pure, throw, throwThe, MonadExceptOf.throw]
  · simp_all [pure, Except.pure]
  · simp_all [throw, throwThe, MonadExceptOf.throw]

/-- the integer conversion of an argument is `Flt.toIntArg` on the converted argument -/
theorem sliceIntArg_of (a : Val) (fa : Flt.Val) (h : a.toFlt? = some fa) :
    (∃ i, Flt.toIntArg fa = .ok i ∧ sliceIntArg a = .ok i) ∨
    (Flt.toIntArg fa = .error .err ∧ ∃ m, sliceIntArg a = rerr m) ∨
    (Flt.toIntArg fa = .error .unsupported ∧ ∃ m, sliceIntArg a = unsup m) := by
  cases hI : Flt.toIntArg fa with
  | ok i => exact .inl ⟨i, rfl, by simp [sliceIntArg, h, hI]⟩
  | error e =>
    rcases toIntArg_error fa e hI with rfl | rfl
    · exact .inr (.inl ⟨rfl, "cannot convert to int", by simp [sliceIntArg, h, hI]⟩)
    · exact .inr (.inr ⟨rfl, "integer outside 64 bits", by simp [sliceIntArg, h, hI]⟩)

theorem argsToFlt_cons (a : Val) (r : List Val) (fargs : List Flt.Val) (h : argsToFlt (a :: r) = some fargs) :
    ∃ fa fr, a.toFlt? = some fa ∧ argsToFlt r = some fr ∧ fargs = fa :: fr := by
  rw [argsToFlt] at h
  split at h
  · rename_i fa fr h1 h2; exact ⟨fa, fr, h1, h2, by simpa using h.symm⟩
  · cases h

theorem sliceK_agree (args : List Val) (fargs : List Flt.Val) (ha : argsToFlt args = some fargs)
    (P : Int → Option Int → R Val) (F : Int → Option Int → Flt.Res)
    (hPF : ∀ s l, Agrees (F s l) (some (P s l))) :
    Agrees (fltSliceK fargs F) (some (pipeSliceK args P)) := by
  cases args with
  | nil => simp [argsToFlt] at ha; subst ha; exact ⟨_, rfl⟩
  | cons a0 rest =>
    obtain ⟨fa0, frest, h0, hrest, rfl⟩ := argsToFlt_cons a0 rest fargs ha
    rcases sliceIntArg_of a0 fa0 h0 with ⟨st, hf, hp⟩ | ⟨hf, m, hp⟩ | ⟨hf, m, hp⟩
    · cases rest with
      | nil =>
        simp [argsToFlt] at hrest; subst hrest
        simpa [fltSliceK, pipeSliceK, hf, hp, bind, Except.bind, pure, Except.pure] using hPF st none
      | cons a1 r =>
        obtain ⟨fa1, fr, h1, _, rfl⟩ := argsToFlt_cons a1 r frest hrest
        by_cases hnull : a1 = .null
        · subst hnull
          simp [Val.toFlt?, Val.toScalar?] at h1; subst h1
          simpa [fltSliceK, pipeSliceK, hf, hp, bind, Except.bind, pure, Except.pure] using hPF st none
        · have hfn : fa1 ≠ .sc .null := by
            intro e; subst e
            have := C19_pipe_convert_roundtrip a1 _ h1
            simp [Val.ofFlt?, scalarOfFlt?] at this; exact hnull this.symm
          have eF : fltSliceK (fa0 :: fa1 :: fr) F = (match (Flt.toIntArg fa1).map some with
              | .error e => e | .ok len => F st len) := by
            simp only [fltSliceK, hf]
          have eP : pipeSliceK (a0 :: a1 :: r) P = (do let l ← sliceIntArg a1; P st (some l)) := by
            simp only [pipeSliceK, hp]
            cases a1 <;> first | exact absurd rfl hnull | rfl
          rw [eF, eP]
          rcases sliceIntArg_of a1 fa1 h1 with ⟨ln, hf1, hp1⟩ | ⟨hf1, m, hp1⟩ | ⟨hf1, m, hp1⟩
          · simpa [hf1, hp1, Except.map, bind, Except.bind] using hPF st (some ln)
          · rw [hf1, hp1]; exact ⟨_, rfl⟩
          · rw [hf1, hp1]; exact ⟨_, rfl⟩
    · simp only [fltSliceK, pipeSliceK, hf, hp]; exact ⟨_, rfl⟩
    · simp only [fltSliceK, pipeSliceK, hf, hp]; exact ⟨_, rfl⟩

theorem goSlice64_map {α β : Type} (f : α → β) (xs : List α) (start : Int) (len : Option Int) :
    Flt.Slice.goSlice64 (xs.map f) start len = (Flt.Slice.goSlice64 xs start len).map f := by
  unfold Flt.Slice.goSlice64
  simp only [List.length_map]
  split
  · rfl
  · simp [List.map_drop, List.map_take]

theorem goSlice64_mem {α : Type} (xs : List α) (start : Int) (len : Option Int) :
    ∀ x ∈ Flt.Slice.goSlice64 xs start len, x ∈ xs := by
  unfold Flt.Slice.goSlice64
  simp only []
  split
  · simp
  · intro x hx; exact List.mem_of_mem_drop (List.mem_of_mem_take hx)

/-- **slice at pipeline level IS `Flt.sliceV`**: for every value that converts (scalars, lists of
    scalars) and every argument list that converts, including the error and unsupported outcomes -/
theorem C19_pipe_slice (v : Val) (fv : Flt.Val) (args : List Val) (fargs : List Flt.Val)
    (h : v.toFlt? = some fv) (ha : argsToFlt args = some fargs) :
    Agrees (Flt.sliceV fv fargs) (builtinFilter (b "slice") v args) := by
  rw [pipe_dispatch_slice]
  rcases toFlt_cases v fv h with ⟨c, hd, rfl, rfl⟩ | ⟨ss, hd, rfl, rfl⟩
  · cases c with
    | dec _ _ _ => simp [noDec] at hd
    | null => exact ⟨_, rfl, rfl⟩
    | bool x =>
      show Agrees (Flt.sliceV (.sc (.bool x)) fargs) (some (sliceFilter (.bool x) args))
      rw [sliceV_bool, sliceFilter_bool]; exact sliceK_agree args fargs ha _ _ (fun _ _ => ⟨_, rfl⟩)
    | int i =>
      show Agrees (Flt.sliceV (.sc (.int i)) fargs) (some (sliceFilter (.int i) args))
      rw [sliceV_int, sliceFilter_int]; exact sliceK_agree args fargs ha _ _ (fun _ _ => ⟨_, rfl⟩)
    | str s =>
      show Agrees (Flt.sliceV (.sc (.str s)) fargs) (some (sliceFilter (.str s) args))
      rw [sliceV_str, sliceFilter_str]; exact sliceK_agree args fargs ha _ _ (fun _ _ => ⟨_, rfl, rfl⟩)
  · rw [sliceV_list, sliceFilter_list]
    refine sliceK_agree args fargs ha _ _ (fun st l => ⟨_, ?_, rfl⟩)
    simp only [Val.ofFlt?]
    rw [scalarsOfFlt_map _ (fun c hc => hd c (goSlice64_mem ss st l c hc)), goSlice64_map]
    rfl

/-- slice of a list of ANY elements (nested lists, maps, …) with integer arguments: `goSlice64` on the
    elements — the 64-bit index arithmetic of filterSlice -/
theorem C19_pipe_slice_list (xs : List Val) (st n : Int) (hs : Flt.inInt64 st = true) (hn : Flt.inInt64 n = true) :
    builtinFilter (b "slice") (.list xs) [.int st, .int n] = some (.ok (.list (Flt.Slice.goSlice64 xs st (some n)))) ∧
    builtinFilter (b "slice") (.list xs) [.int st, .null] = some (.ok (.list (Flt.Slice.goSlice64 xs st none))) ∧
    builtinFilter (b "slice") (.list xs) [.int st] = some (.ok (.list (Flt.Slice.goSlice64 xs st none))) := by
  simp [pipe_dispatch_slice, sliceFilter, sliceIntArg, Val.toFlt?, Val.toScalar?, Flt.toIntArg, hs, hn,
    bind, Except.bind, pure, Except.pure]

/-- slice of a string — EVERY byte string: `goSlice64` on its runes, re-encoded -/
theorem C19_pipe_slice_str (s : Bytes) (st n : Int) (hs : Flt.inInt64 st = true) (hn : Flt.inInt64 n = true) :
    builtinFilter (b "slice") (.str s) [.int st, .int n]
      = some (.ok (.str (Flt.Utf8.encodeRunes (Flt.Slice.goSlice64 (Flt.Utf8.decodeRunes s) st (some n))))) ∧
    builtinFilter (b "slice") (.str s) [.int st]
      = some (.ok (.str (Flt.Utf8.encodeRunes (Flt.Slice.goSlice64 (Flt.Utf8.decodeRunes s) st none)))) := by
  simp [pipe_dispatch_slice, sliceFilter, sliceIntArg, Val.toFlt?, Val.toScalar?, Flt.toIntArg, hs, hn,
    bind, Except.bind, pure, Except.pure]

/-- TRANSPORTED `C19_slice_total`: at pipeline level slice follows Twig's index rules (`specSlice`:
    drop `start` — from the end when negative —, take `length` — up to `length` from the end when
    negative), for every list of any elements and all 64-bit arguments -/
theorem C19_pipe_slice_spec (xs : List Val) (st n : Int) (hs : Flt.inInt64 st = true) (hn : Flt.inInt64 n = true)
    (hlen : (xs.length : Int) < 2 ^ 63) :
    builtinFilter (b "slice") (.list xs) [.int st, .int n] = some (.ok (.list (Flt.Slice.specSlice xs st (some n)))) ∧
    builtinFilter (b "slice") (.list xs) [.int st] = some (.ok (.list (Flt.Slice.specSlice xs st none))) := by
  obtain ⟨h1, _, h3⟩ := C19_pipe_slice_list xs st n hs hn
  rw [h1, h3, C19_slice_total xs st (some n) hlen (by intro l hl; cases hl; exact hn),
    C19_slice_total xs st none hlen (by intro l hl; cases hl)]
  exact ⟨rfl, rfl⟩

/-- … and on strings: the runes of the result are Twig's slice of the runes of the input, so `length`
    of the slice is the length of that slice, whatever the bytes -/
theorem C19_pipe_slice_str_spec (s : Bytes) (st n : Int) (hs : Flt.inInt64 st = true) (hn : Flt.inInt64 n = true)
    (hlen : ((Flt.Utf8.decodeRunes s).length : Int) < 2 ^ 63) :
    ∃ r, builtinFilter (b "slice") (.str s) [.int st, .int n] = some (.ok (.str r)) ∧
      Flt.Utf8.decodeRunes r = Flt.Slice.specSlice (Flt.Utf8.decodeRunes s) st (some n) ∧
      builtinFilter (b "length") (.str r) [] =
        some (.ok (.int (Flt.Slice.specSlice (Flt.Utf8.decodeRunes s) st (some n)).length)) := by
  refine ⟨_, (C19_pipe_slice_str s st n hs hn).1, ?_⟩
  have hgo := C19_slice_total (Flt.Utf8.decodeRunes s) st (some n) hlen (by intro l hl; cases hl; exact hn)
  have hvalid : ∀ r ∈ Flt.Slice.goSlice64 (Flt.Utf8.decodeRunes s) st (some n), Flt.Utf8.validScalar r :=
    fun r hr => Flt.Utf8.decodeRunes_valid s r (goSlice64_mem _ _ _ r hr)
  have hdec := Flt.Utf8.decodeRunes_encodeRunes _ hvalid
  refine ⟨by rw [hdec, hgo], ?_⟩
  rw [(C19_pipe_length_str _ _).1, Flt.Utf8.runeCount, hdec, hgo]

theorem specSlice_nonneg_none {α : Type} (xs : List α) (a : Int) (ha : 0 ≤ a) :
    Flt.Slice.specSlice xs a none = xs.drop a.toNat := by
  simp [Flt.Slice.specSlice, Flt.Slice.specOff, ha]

/-- slice of a slice (a consequence of the index rules): dropping `a` and then `c` elements is dropping
    `a + c`, for every list of any elements -/
theorem C19_pipe_slice_slice (xs : List Val) (a c : Int) (ha : 0 ≤ a) (hc : 0 ≤ c)
    (hac : Flt.inInt64 (a + c) = true) (hlen : (xs.length : Int) < 2 ^ 63) :
    ∃ r, builtinFilter (b "slice") (.list xs) [.int a] = some (.ok r) ∧
      builtinFilter (b "slice") r [.int c] = builtinFilter (b "slice") (.list xs) [.int (a + c)] := by
  have hlt := lt_of_inInt64 _ hac
  have hia : Flt.inInt64 a = true := inInt64_of_bounds a (by omega) (by omega)
  have hic : Flt.inInt64 c = true := inInt64_of_bounds c (by omega) (by omega)
  refine ⟨_, (C19_pipe_slice_spec xs a 0 hia (by decide) hlen).2, ?_⟩
  have hlen' : ((Flt.Slice.specSlice xs a none).length : Int) < 2 ^ 63 := by
    have := Flt.Slice.specSlice_length_le xs a none; omega
  rw [(C19_pipe_slice_spec _ c 0 hic (by decide) hlen').2, (C19_pipe_slice_spec xs (a + c) 0 hac (by decide) hlen).2,
    specSlice_nonneg_none xs a ha, specSlice_nonneg_none _ c hc, specSlice_nonneg_none xs (a + c) (by omega),
    List.drop_drop]
  congr 4; omega

example : (0 : Int) ≤ 1 ∧ (0 : Int) ≤ 2 ∧ Flt.inInt64 (1 + 2) = true ∧
    ([Val.int 1, .list [], .null, .str [0xFF], .int 5].drop 3) = [.str [0xFF], .int 5] := by
  refine ⟨by decide, by decide, by decide, rfl⟩

example : Flt.inInt64 (-3) = true ∧ Flt.inInt64 2 = true ∧
    Flt.Slice.specSlice [Val.int 1, .list [.int 2], .map [], .str [0xFF], .null] (-3) (some 2) = [.map [], .str [0xFF]] := by
  refine ⟨by decide, by decide, rfl⟩
example : builtinFilter (b "slice") (.str [0x68, 0xC3, 0xA9, 0xFF, 0x6C]) [.int 1, .int 2]
    = some (.ok (.str [0xC3, 0xA9, 0xEF, 0xBF, 0xBD])) :=
  str_result (C19_pipe_slice_str _ 1 2 (by decide) (by decide)).1 (by decide)
/-- arguments as the Go code converts them: a numeric string, a bool, `null` for "to the end" -/
example : (Val.str [0x61, 0x62, 0x63, 0x64]).toFlt? = some (.sc (.str [0x61, 0x62, 0x63, 0x64])) ∧
    argsToFlt [.str [0x2B, 0x31], .bool true] = some [.sc (.str [0x2B, 0x31]), .sc (.bool true)] ∧
    Flt.sliceV (.sc (.str [0x61, 0x62, 0x63, 0x64])) [.sc (.str [0x2B, 0x31]), .sc (.bool true)] = .ok (.sc (.str [0x62])) := by
  decide

/-! ## sort -/

theorem sortDetermined_iff (ss : List Flt.Scalar) :
    sortDetermined ss = true ↔ ∀ x ∈ ss, ∀ y ∈ ss, x.toStr = y.toStr → x = y := by
  simp only [sortDetermined, List.all_eq_true, Bool.or_eq_true, bne_iff_ne, ne_eq, beq_iff_eq]
  constructor
  · intro h x hx y hy e
    rcases h x hx y hy with h1 | h1
    · exact absurd e h1
    · exact h1
  · intro h x hx y hy
    by_cases e : x.toStr = y.toStr
    · exact .inr (h x hx y hy e)
    · exact .inl e

theorem sortFilter_list (ss : List Flt.Scalar) (hd : ∀ a ∈ ss, noDec a = true) (hdet : sortDetermined ss = true) :
    sortFilter (.list (ss.map ofSc)) = .ok (.list ((Flt.sortList .byString ss).map ofSc)) := by
  have hsd : ∀ a ∈ Flt.sortList .byString ss, noDec a = true :=
    fun a ha => hd a ((C19_sort_perm .byString ss).mem_iff.mp ha)
  simp only [sortFilter, scalarsToFlt_map ss hd, hdet, if_true, Flt.sortV, resOfFlt, Val.ofFlt?, Flt.sortKindOf]
  simp [scalarsOfFlt_map _ hsd]

/-- **sort at pipeline level IS `Flt.sortV`** on `[]interface{}` (ordered by `toString`), whenever the
    order is determined by the keys — the guard of the model, see `C19_pipe_sort_unique` -/
theorem C19_pipe_sort (v : Val) (fv : Flt.Val) (args : List Val) (h : v.toFlt? = some fv)
    (hdet : ∀ ss, fv = .list .any false ss → sortDetermined ss = true) :
    Agrees (Flt.sortV fv) (builtinFilter (b "sort") v args) := by
  rw [pipe_dispatch_sort]
  rcases toFlt_cases v fv h with ⟨c, hd, rfl, rfl⟩ | ⟨ss, hd, rfl, rfl⟩
  · cases c with
    | dec _ _ _ => simp [noDec] at hd
    | null => exact ⟨_, rfl, rfl⟩
    | bool x => exact ⟨_, rfl⟩
    | int i => exact ⟨_, rfl⟩
    | str s => exact ⟨_, rfl⟩
  · rw [sortFilter_list ss hd (hdet ss rfl)]
    have hsd : ∀ a ∈ Flt.sortList .byString ss, noDec a = true :=
      fun a ha => hd a ((C19_sort_perm .byString ss).mem_iff.mp ha)
    refine ⟨_, ?_, rfl⟩
    simp [Flt.sortKindOf, Val.ofFlt?, scalarsOfFlt_map _ hsd]

/-- TRANSPORTED `C19_sort_perm` / `C19_sort_sorted`: `xs|sort` is a permutation of `xs` whose keys
    (`toString`) are in bytewise order -/
theorem C19_pipe_sort_perm_sorted (xs : List Val) (ss : List Flt.Scalar) (args : List Val)
    (h : scalarsToFlt xs = some ss) (hdet : sortDetermined ss = true) :
    ∃ ys sy, builtinFilter (b "sort") (.list xs) args = some (.ok (.list ys)) ∧ ys.Perm xs ∧
      scalarsToFlt ys = some sy ∧ sy.Pairwise (fun a c => Flt.lexLe a.toStr c.toStr = true) := by
  obtain ⟨e, hd⟩ := scalarsToFlt_inv xs ss h
  have hsd : ∀ a ∈ Flt.sortList .byString ss, noDec a = true :=
    fun a ha => hd a ((C19_sort_perm .byString ss).mem_iff.mp ha)
  refine ⟨(Flt.sortList .byString ss).map ofSc, Flt.sortList .byString ss, ?_, ?_, scalarsToFlt_map _ hsd, ?_⟩
  · rw [pipe_dispatch_sort, e, sortFilter_list ss hd hdet]
  · rw [e]; exact (C19_sort_perm .byString ss).map ofSc
  · exact C19_sort_sorted .byString ss

theorem eq_of_map_eq_of_inj_on {α β : Type} (f : α → β) : ∀ (l₁ l₂ : List α), l₁.map f = l₂.map f →
    (∀ a ∈ l₁, ∀ c ∈ l₂, f a = f c → a = c) → l₁ = l₂
  | [], [], _, _ => rfl
  | [], _ :: _, h, _ => by simp at h
  | _ :: _, [], h, _ => by simp at h
  | a :: t₁, c :: t₂, h, hi => by
    simp only [List.map_cons, List.cons.injEq] at h
    have hac : a = c := hi a (by simp) c (by simp) h.1
    subst hac
    congr 1
    exact eq_of_map_eq_of_inj_on f t₁ t₂ h.2 (fun x hx y hy => hi x (by simp [hx]) y (by simp [hy]))

/-- WHY the model may answer at all (Go's `sort.Slice` is not stable): when equal keys mean equal
    values (`sortDetermined`), EVERY ordered permutation of the list is the model's result — so is
    whatever the sorting algorithm of the day returns (TRANSPORTED `C19_sort_canonical`) -/
theorem C19_pipe_sort_unique (ss l : List Flt.Scalar) (hdet : sortDetermined ss = true) (hp : l.Perm ss)
    (hs : l.Pairwise (fun a c => Flt.sortLe .byString a c = true)) : l = Flt.sortList .byString ss := by
  have hk := C19_sort_canonical ss l (Flt.sortList .byString ss) hp (C19_sort_perm _ ss) hs (C19_sort_sorted _ ss)
  apply eq_of_map_eq_of_inj_on Flt.Scalar.toStr _ _ hk
  intro a ha c hc e
  exact (sortDetermined_iff ss).mp hdet a (hp.mem_iff.mp ha) c ((C19_sort_perm _ ss).mem_iff.mp hc) e

/-- the repo's own example `[3, '1', 2, '10']|sort`, integers by their DECIMAL STRING, and what the guard
    excludes -/
example : scalarsToFlt [.int 3, .str [0x31], .int 2, .str [0x31, 0x30]] = some [.int 3, .str [0x31], .int 2, .str [0x31, 0x30]] ∧
    sortDetermined [.int 3, .str [0x31], .int 2, .str [0x31, 0x30]] = true ∧
    Flt.sortList .byString [.int 3, .str [0x31], .int 2, .str [0x31, 0x30]] = [.str [0x31], .str [0x31, 0x30], .int 2, .int 3] ∧
    Flt.sortList .byString [.int 10, .int 9, .int (-4)] = [.int (-4), .int 10, .int 9] ∧
    sortDetermined [.int 1, .str [0x31]] = false ∧ sortDetermined [.null, .str []] = false := by decide

/-! ## split -/

theorem scalarsOfFlt_strs : ∀ (l : List Bytes), scalarsOfFlt? (l.map Flt.Scalar.str) = some (l.map Val.str)
  | [] => rfl
  | x :: r => by rw [List.map_cons, scalarsOfFlt?, scalarsOfFlt_strs r]; rfl

theorem splitV_ok_shape (fv : Flt.Val) (fa : List Flt.Val) (w : Flt.Val) (h : Flt.splitV fv fa = .ok w) :
    ∃ l : List Bytes, w = .list .str false (l.map .str) := by
  unfold Flt.splitV at h
  simp only [] at h
  (repeat' split at h) <;> first | exact ⟨_, (Flt.Res.ok.inj h).symm⟩ | cases h

theorem agrees_split (x : Flt.Scalar) (fa : List Flt.Val) :
    Agrees (Flt.splitV (.sc x) fa) (some (resOfFlt (Flt.splitV (.sc x) fa))) := by
  apply agrees_resOfFlt
  intro w hw
  obtain ⟨l, rfl⟩ := splitV_ok_shape _ _ _ hw
  simp [Val.ofFlt?, scalarsOfFlt_strs]

/-- **split at pipeline level IS `Flt.splitV`** on every scalar (its `toString`), for a separator of one
    byte or of several ASCII characters — a dash among them is one more separator character (the Go code
    builds a regexp class from the separator with every metacharacter and the dash escaped; defect fixed in
    /repo be14efe, the model's former guard is gone) -/
theorem C19_pipe_split (v : Val) (x : Flt.Scalar) (args : List Val) (fa : List Flt.Val)
    (h : v.toFlt? = some (.sc x)) (ha : argsToFlt args = some fa) (hsep : Flt.sepArg fa ≠ []) :
    Agrees (Flt.splitV (.sc x) fa) (builtinFilter (b "split") v args) := by
  rw [pipe_dispatch_split]
  simp only [splitFilter, h, ha]
  split
  · rename_i he; exact absurd he hsep
  · exact agrees_split x fa
  · exact agrees_split x fa

/-- one-byte separator: `strings.Split`, on EVERY byte string -/
theorem C19_pipe_split_byte (s : Bytes) (c : UInt8) :
    builtinFilter (b "split") (.str s) [.str [c]] = some (.ok (.list ((Flt.splitByte c s).map .str))) := by
  rw [pipe_dispatch_split]
  simp [splitFilter, Val.toFlt?, Val.toScalar?, argsToFlt, Flt.sepArg, Flt.splitV, resOfFlt, Val.ofFlt?,
    scalarsOfFlt_strs, Flt.Scalar.toStr]

/-- a separator of several ASCII characters (a dash included): a cut at EACH of them (the recorded finding
    split-multichar-separator, now also at pipeline level) -/
theorem C19_pipe_split_any (s : Bytes) (c1 c2 : UInt8) (rest : Bytes) (hascii : (c1 :: c2 :: rest).all (· < 128) = true) :
    builtinFilter (b "split") (.str s) [.str (c1 :: c2 :: rest)]
      = some (.ok (.list ((Flt.splitAny (c1 :: c2 :: rest) s).map .str))) := by
  rw [pipe_dispatch_split]
  simp only [splitFilter, Val.toFlt?, Val.toScalar?, argsToFlt, Flt.sepArg, Option.map_some]
  simp [Flt.splitV, Flt.sepArg, hascii, resOfFlt, Val.ofFlt?, scalarsOfFlt_strs, Flt.Scalar.toStr]

/-- …so `'a-b c'|split('-c')` cuts at the dash and at the `c`, and nowhere else -/
example : builtinFilter (b "split") (.str [0x61, 0x2D, 0x62, 0x20, 0x63]) [.str [0x2D, 0x63]]
    = some (.ok (.list [.str [0x61], .str [0x62, 0x20], .str []])) := by
  rw [C19_pipe_split_any _ _ _ _ (by decide)]
  exact congrArg (fun l : List Bytes => some (Except.ok (Val.list (l.map Val.str)))) (by decide : Flt.splitAny [0x2D, 0x63] _ = [[0x61], [0x62, 0x20], []])

/-- the empty separator: the UTF-8 sequences of the string, an invalid byte alone and unchanged
    (`strings.Split(s, "")`) -/
theorem C19_pipe_split_empty (s : Bytes) :
    builtinFilter (b "split") (.str s) [.str []] = some (.ok (.list ((Flt.explodeStr s).map .str))) := by
  rw [pipe_dispatch_split]
  simp [splitFilter, Val.toFlt?, Val.toScalar?, argsToFlt, Flt.sepArg, Flt.splitLimitOk, Flt.Scalar.toStr]

theorem mapM'_toStr_strs : ∀ (xs : List Bytes), mapM' toStr (xs.map Val.str) = .ok xs
  | [] => rfl
  | x :: r => by simp [mapM', toStr, mapM'_toStr_strs r, bind, Except.bind]

theorem joinBytes_eq : ∀ (sep : Bytes) (xs : List Bytes), Twig.joinBytes sep xs = Flt.joinBytes sep xs
  | _, [] => rfl
  | _, [_] => rfl
  | sep, x :: y :: r => by
    simp only [Twig.joinBytes, Flt.joinBytes, Flt.joinWith]
    rw [joinBytes_eq sep (y :: r)]; rfl

/-- `join` of a list of strings with a string separator, as the pipeline evaluates it -/
theorem pipe_join_strs (sep : Bytes) (xs : List Bytes) :
    builtinFilter (b "join") (.list (xs.map .str)) [.str sep] = some (.ok (.str (Flt.joinBytes sep xs))) := by
  rw [pipe_dispatch_join_strs]
  simp [mapM'_toStr_strs, joinBytes_eq, bind, Except.bind]

/-- TRANSPORTED `C19_split_join`: `xs|join(c)|split(c)` gives `xs` back, for a non-empty list of strings
    free of the one-byte separator — any bytes otherwise -/
theorem C19_pipe_split_join (c : UInt8) (xs : List Bytes) (hne : xs ≠ []) (hfree : ∀ x ∈ xs, c ∉ x) :
    ∃ j, builtinFilter (b "join") (.list (xs.map .str)) [.str [c]] = some (.ok (.str j)) ∧
      builtinFilter (b "split") (.str j) [.str [c]] = some (.ok (.list (xs.map .str))) := by
  refine ⟨_, pipe_join_strs [c] xs, ?_⟩
  rw [C19_pipe_split_byte, C19_split_join c xs hne hfree]

example : builtinFilter (b "split") (.str [0x61, 0x2C, 0xC3, 0xA9, 0x2C, 0x2C, 0xFF]) [.str [0x2C]]
    = some (.ok (.list [.str [0x61], .str [0xC3, 0xA9], .str [], .str [0xFF]])) := by
  rw [C19_pipe_split_byte]; exact congrArg (fun l : List Bytes => some (Except.ok (Val.list (l.map Val.str)))) (by decide : Flt.splitByte 0x2C _ = [[0x61], [0xC3, 0xA9], [], [0xFF]])
example : builtinFilter (b "split") (.str [0x61, 0x20, 0x62, 0x2C, 0x20, 0x63]) [.str [0x2C, 0x20]]
    = some (.ok (.list [.str [0x61], .str [0x62], .str [], .str [0x63]])) := by
  rw [C19_pipe_split_any _ _ _ _ (by decide)]
  exact congrArg (fun l : List Bytes => some (Except.ok (Val.list (l.map Val.str)))) (by decide : Flt.splitAny [0x2C, 0x20] _ = [[0x61], [0x62], [], [0x63]])
example : (∀ x ∈ [[0x61, 0xFF], [], [0xC3, 0xA9]], (0x2C : UInt8) ∉ x) := by decide

/-! ## split('') — the UTF-8 sequences of a string -/

open Flt.Utf8 in
/-- the chunks concatenate to the string: nothing is lost or re-encoded -/
theorem chunksN_flatten (l : List Nat) : (chunksN l).flatten = l := by
  fun_induction chunksN l <;> simp_all +zetaDelta

open Flt.Utf8 in
/-- one chunk per rune that `[]rune(s)` / a `for` loop sees -/
theorem chunksN_length (l : List Nat) : (chunksN l).length = (decodeN l).length := by
  fun_induction chunksN l <;> rw [decodeN.eq_def] <;> simp_all +zetaDelta <;> rw [if_neg (by omega)] <;> simp

theorem explodeStr_flatten (s : Bytes) : (Flt.explodeStr s).flatten = s := by
  unfold Flt.explodeStr Flt.Utf8.chunks Flt.Utf8.ofNats
  rw [← List.map_flatten, chunksN_flatten]
  exact Flt.Utf8.ofNats_toNats s

theorem explodeStr_length (s : Bytes) : (Flt.explodeStr s).length = Flt.Utf8.runeCount s := by
  unfold Flt.explodeStr Flt.Utf8.chunks Flt.Utf8.runeCount Flt.Utf8.decodeRunes
  rw [List.length_map, chunksN_length]

theorem joinWith_nil_flatten {α : Type} : ∀ (ws : List (List α)), Flt.joinWith [] ws = ws.flatten
  | [] => rfl
  | [w] => by simp [Flt.joinWith]
  | w :: x :: r => by simp [Flt.joinWith, joinWith_nil_flatten (x :: r)]

/-- `s|split('')|join('')` is `s`, and `s|split('')|length` is `s|length` — for EVERY byte string,
    valid UTF-8 or not (the parts are handed out as they are, unlike `first` and `reverse`) -/
theorem C19_pipe_explode_join (s : Bytes) :
    ∃ parts : List Bytes, builtinFilter (b "split") (.str s) [.str []] = some (.ok (.list (parts.map .str))) ∧
      builtinFilter (b "join") (.list (parts.map .str)) [.str []] = some (.ok (.str s)) ∧
      builtinFilter (b "length") (.list (parts.map .str)) [] = builtinFilter (b "length") (.str s) [] := by
  refine ⟨Flt.explodeStr s, C19_pipe_split_empty s, ?_, ?_⟩
  · rw [pipe_join_strs, Flt.joinBytes, joinWith_nil_flatten, explodeStr_flatten]
  · rw [pipe_dispatch_length, pipe_dispatch_length]
    simp [lengthFilter, explodeStr_length]

example : Flt.explodeStr [0x61, 0xC3, 0xA9, 0xFF, 0xE2, 0x82, 0xAC, 0xE2, 0x82] = [[0x61], [0xC3, 0xA9], [0xFF], [0xE2, 0x82, 0xAC], [0xE2], [0x82]] ∧
    Flt.explodeStr [] = [] := by decide

/-! ## capitalize, title (ASCII text: the case tables are a parameter of the filter model) -/

open Flt.Utf8 in
theorem decodeN_all_ascii : ∀ (l : List Nat), (∀ x ∈ l, x < 128) → decodeN l = l
  | [], _ => by simp [decodeN]
  | a :: t, h => by
    rw [decodeN_ascii a t (h a (by simp)), decodeN_all_ascii t (fun x hx => h x (by simp [hx]))]

theorem decodeRunes_ascii (s : Bytes) (h : asciiOnly s = true) :
    Flt.Utf8.decodeRunes s = Flt.Utf8.toNats s ∧ ∀ r ∈ Flt.Utf8.decodeRunes s, r < 128 := by
  have hall : ∀ x ∈ Flt.Utf8.toNats s, x < 128 := by
    intro x hx
    simp only [Flt.Utf8.toNats, List.mem_map] at hx
    obtain ⟨c, hc, rfl⟩ := hx
    have := (List.all_eq_true.mp h) c hc
    simpa [UInt8.lt_iff_toNat_lt] using this
  have e : Flt.Utf8.decodeRunes s = Flt.Utf8.toNats s := decodeN_all_ascii _ hall
  exact ⟨e, by rw [e]; exact hall⟩

theorem capWord_congr (cm cm' : Flt.CaseMap) (w : List Nat) (h : ∀ r ∈ w, r < 128) :
    Flt.capWord cm w = Flt.capWord cm' w := by
  cases w with
  | nil => rfl
  | cons r rs =>
    simp only [Flt.capWord, List.cons.injEq]
    refine ⟨by simp [Flt.CaseMap.upper, h r (by simp)], List.map_congr_left ?_⟩
    intro x hx; simp [Flt.CaseMap.lower, h x (by simp [hx])]

theorem capR_congr (cm cm' : Flt.CaseMap) (rs : List Nat) (h : ∀ r ∈ rs, r < 128) : Flt.capR cm rs = Flt.capR cm' rs := by
  unfold Flt.capR
  congr 1
  apply List.map_congr_left
  intro w hw
  apply capWord_congr
  intro r hr
  have hw' : w ∈ Flt.splitP Flt.Utf8.isSpaceRune rs := (List.mem_filter.mp hw).1
  exact h r (Flt.splitP_mem_sub _ rs w hw' r hr)

/-- on ASCII text the result of capitalize does not depend on the case tables -/
theorem capitalizeStr_ascii (cm : Flt.CaseMap) (s : Bytes) (h : asciiOnly s = true) :
    Flt.capitalizeStr cm s = Flt.capitalizeStr Flt.CaseMap.asciiOnly s := by
  unfold Flt.capitalizeStr
  rw [capR_congr cm Flt.CaseMap.asciiOnly _ (decodeRunes_ascii s h).2]

/-- **capitalize / title at pipeline level ARE `Flt.applyFilter cm "capitalize"`** (= `capitalizeStr cm`),
    whatever the case tables `cm`, on every scalar whose `toString` is ASCII -/
theorem C19_pipe_capitalize (cm : Flt.CaseMap) (v : Val) (x : Flt.Scalar) (args : List Val)
    (h : v.toFlt? = some (.sc x)) (hascii : asciiOnly x.toStr = true) :
    Agrees (Flt.applyFilter cm "capitalize" (.sc x) []) (builtinFilter (b "capitalize") v args) ∧
    Agrees (Flt.applyFilter cm "title" (.sc x) []) (builtinFilter (b "title") v args) := by
  rw [pipe_dispatch_capitalize, pipe_dispatch_title]
  have e1 : Flt.applyFilter cm "capitalize" (.sc x) [] = .ok (.sc (.str (Flt.capitalizeStr cm x.toStr))) := rfl
  have e2 : Flt.applyFilter cm "title" (.sc x) [] = .ok (.sc (.str (Flt.capitalizeStr cm x.toStr))) := rfl
  have ep : capitalizeFilter v = .ok (.str (Flt.capitalizeStr cm x.toStr)) := by
    simp [capitalizeFilter, h, hascii, capitalizeStr_ascii cm _ hascii]
  rw [e1, e2, ep]
  exact ⟨⟨_, rfl, rfl⟩, ⟨_, rfl, rfl⟩⟩

theorem C19_pipe_capitalize_str (s : Bytes) (hascii : asciiOnly s = true) (args : List Val) :
    builtinFilter (b "capitalize") (.str s) args = some (.ok (.str (Flt.capitalizeStr Flt.CaseMap.asciiOnly s))) ∧
    builtinFilter (b "title") (.str s) args = some (.ok (.str (Flt.capitalizeStr Flt.CaseMap.asciiOnly s))) := by
  rw [pipe_dispatch_capitalize, pipe_dispatch_title]
  simp [capitalizeFilter, Val.toFlt?, Val.toScalar?, hascii, Flt.Scalar.toStr]

example : asciiOnly [0x68, 0x45, 0x4C, 0x4C, 0x4F, 32, 32, 9, 0x77, 0x4F] = true ∧
    Flt.capitalizeStr Flt.CaseMap.asciiOnly [0x68, 0x45, 0x4C, 0x4C, 0x4F, 32, 32, 9, 0x77, 0x4F]
      = [0x48, 0x65, 0x6C, 0x6C, 0x6F, 32, 0x57, 0x6F] := by decide
example : (Val.bool true).toFlt? = some (.sc (.bool true)) ∧ asciiOnly (Flt.Scalar.bool true).toStr = true ∧
    Flt.capitalizeStr Flt.CaseMap.asciiOnly (Flt.Scalar.bool true).toStr = [0x54, 0x72, 0x75, 0x65] := by decide

/-! ## transported equations -/

/-- TRANSPORTED `C19_reverse_str_length`: `s|reverse|length` is `s|length`, for EVERY byte string -/
theorem C19_pipe_length_reverse_str (s : Bytes) :
    ∃ r, builtinFilter (b "reverse") (.str s) [] = some (.ok r) ∧
      builtinFilter (b "length") r [] = builtinFilter (b "length") (.str s) [] := by
  refine ⟨_, C19_pipe_reverse_str s [], ?_⟩
  rw [(C19_pipe_length_str _ _).1, (C19_pipe_length_str _ _).1, C19_reverse_str_length]

/-- … and for every list, whatever its elements -/
theorem C19_pipe_length_reverse_list (xs : List Val) :
    ∃ r, builtinFilter (b "reverse") (.list xs) [] = some (.ok r) ∧
      builtinFilter (b "length") r [] = builtinFilter (b "length") (.list xs) [] := by
  refine ⟨_, C19_pipe_reverse_list xs [], ?_⟩
  rw [pipe_dispatch_length, pipe_dispatch_length]; simp [lengthFilter]

/-- TRANSPORTED `C19_reverse_str_involution`: `s|reverse|reverse` re-encodes `s` — the identity on valid
    UTF-8, U+FFFD for every invalid byte otherwise; on lists it is the identity -/
theorem C19_pipe_reverse_involution_str (s : Bytes) :
    ∃ r, builtinFilter (b "reverse") (.str s) [] = some (.ok r) ∧
      builtinFilter (b "reverse") r [] = some (.ok (.str (Flt.Utf8.sanitize s))) ∧
      (Flt.Utf8.validUtf8 s → builtinFilter (b "reverse") r [] = some (.ok (.str s))) := by
  refine ⟨_, C19_pipe_reverse_str s [], ?_, ?_⟩
  · rw [C19_pipe_reverse_str, C19_reverse_str_involution]
  · intro hv; rw [C19_pipe_reverse_str, C19_reverse_str_involution_valid s hv]

theorem C19_pipe_reverse_involution_list (xs : List Val) :
    ∃ r, builtinFilter (b "reverse") (.list xs) [] = some (.ok r) ∧
      builtinFilter (b "reverse") r [] = some (.ok (.list xs)) := by
  refine ⟨_, C19_pipe_reverse_list xs [], ?_⟩
  rw [C19_pipe_reverse_list, List.reverse_reverse]

/-- TRANSPORTED `C19_trim_idempotent`: `s|trim|trim` is `s|trim`, for EVERY byte string -/
theorem C19_pipe_trim_idempotent (s : Bytes) :
    ∃ r, builtinFilter (b "trim") (.str s) [] = some (.ok r) ∧
      builtinFilter (b "trim") r [] = some (.ok r) := by
  refine ⟨_, (C19_pipe_trim_str s).1, ?_⟩
  rw [(C19_pipe_trim_str _).1, C19_trim_idempotent]

example : Flt.Utf8.validUtf8 [0x61, 0xC3, 0xA9] ∧ ¬ Flt.Utf8.validUtf8 [0x61, 0xFF] ∧
    Flt.Utf8.sanitize [0x61, 0xFF] = [0x61, 0xEF, 0xBF, 0xBD] := by decide

end Twig.C19
