/-
  C18 — rendering never modifies the caller's data.

  * G: the extractor lists every store / append / copy / delete / sort / reflect setter of the render-path
    files with the provenance of the memory written (`TwigGen.Writes.current`).
  * `C18_sites_ok`: under `Writes.ok` every site writes memory that is fresh, context-private,
    engine-owned or a lock-guarded cache (the allow-list of harmless `param` sites is empty).
  * `C18_frame`: any sequence of calls whose writes all come from such sites leaves every cell of the
    caller's region unchanged — the frame rule, compositional over sequencing: each call is fresh only
    relative to its own entry.
  * `C18_slice_window_alias_safe`, `C18_append_window_writes_caller`, `C18_append_full_window_fresh`:
    why `append` must be classified: a window of caller data is harmless until somebody appends to it.
  * `C18_context_copy`: NewRenderContext's entry-by-entry copy.
-/
import TwigModel.Heap
import TwigProofs.Lemmas.Heap
import TwigGen.Writes
namespace Twig
open Heap Writes

/-! ## the sites -/

/-- **C18, write sites.** Under the facts predicate no extracted write site targets memory that may belong
    to the caller: each is modelled by a `fresh` or `lib` target. -/
theorem C18_sites_ok (F : List RawSite) (hF : Writes.ok F = true) :
    ∀ s ∈ F, provKind s.prov = .fresh ∨ provKind s.prov = .lib := by
  intro s hs
  have h := List.all_eq_true.mp hF s hs
  unfold siteOk at h
  have hl : listed s = false := by simp [listed, allowList]
  rw [hl, Bool.or_false] at h
  cases hk : provKind s.prov with
  | fresh => exact Or.inl rfl
  | lib => exact Or.inr rfl
  | caller => rw [hk] at h; exact absurd h (by decide)

theorem C18_facts_current : Writes.ok TwigGen.Writes.current = true := by decide

/-- NewRenderContext copies the caller's top-level map entry by entry (extracted fact) -/
theorem C18_context_copy_current : TwigGen.Writes.contextCopied = true := by decide

namespace Writes

/-- a trace all of whose writes are instances of sites of `F` (same provenance class) -/
def TraceOf (F : List RawSite) (t : List Op) : Prop :=
  ∀ op ∈ t, ∀ tg, op.target? = some tg → ∃ s ∈ F, provKind s.prov = targetKind tg

theorem noCallerWrites_of_traceOf (F : List RawSite) (hF : Writes.ok F = true) (t : List Op)
    (ht : TraceOf F t) : noCallerWrites t = true := by
  unfold noCallerWrites
  rw [List.all_eq_true]
  intro op hop
  cases htg : op.target? with
  | none => rfl
  | some tg =>
    obtain ⟨s, hs, hk⟩ := ht op hop tg htg
    rcases C18_sites_ok F hF s hs with h | h <;> rw [h] at hk <;> cases tg <;> simp [targetKind, Target.isCaller] at hk ⊢

end Writes

/-- **C18, frame rule.** `R` = the cells of everything the caller handed in (context map, nested maps,
    slices with their spare capacity, structs …), all allocated before rendering starts; `L` = library-owned
    cells, disjoint from `R`.  Rendering = any sequence of calls, each a trace whose writes are instances of
    the extracted sites and whose `fresh` targets are relative to the allocation pointer at *its* entry.
    Then every cell of `R` holds afterwards what it held before. -/
theorem C18_frame (F : List RawSite) (hF : Writes.ok F = true) (R L : Nat → Prop)
    (ts : List (List Op)) (h : Heap) (hreg : Regions R L h)
    (hts : ∀ t ∈ ts, TraceOf F t ∧ LibOk L t) :
    ∀ a, R a → (execCalls ts h).mem a = h.mem a :=
  execCalls_frame R L ts h hreg (fun t ht => ⟨noCallerWrites_of_traceOf F hF t (hts t ht).1, (hts t ht).2⟩)

/-- non-vacuity: a two-call render (allocate 2 cells and fill them; then write a context-private cell 7
    and a fresh cell) over caller cells {0,1,2} satisfies the hypotheses with the current facts … -/
example :
    let F := TwigGen.Writes.current
    let R : Nat → Prop := fun a => a < 3
    let L : Nat → Prop := fun a => a = 7
    let h : Heap := { mem := fun a => (a : Int) + 10, next := 8 }
    let ts : List (List Op) := [[.alloc 2, .copyFrom (.fresh 0) 1, .write (.fresh 1) 5], [.write (.lib 7) 1, .alloc 1, .write (.fresh 0) 2]]
    Regions R L h ∧ (∀ t ∈ ts, TraceOf F t ∧ LibOk L t) ∧ (execCalls ts h).mem 1 = 11 ∧ (execCalls ts h).mem 8 = 11 := by
  refine ⟨⟨fun a (ha : a < 3) => (by show a < 8; omega), fun a (ha : a = 7) (hr : a < 3) => by omega⟩, ?_, by decide, by decide⟩
  intro t ht
  have hfresh : ∃ s ∈ TwigGen.Writes.current, provKind (RawSite.prov s) = Kind.fresh :=
    ⟨("extension.go", "CoreExtension.filterJoin", 0, "indexStore", "newSlice", "fresh", "allocated here"), by decide, rfl⟩
  have hlib : ∃ s ∈ TwigGen.Writes.current, provKind (RawSite.prov s) = Kind.lib :=
    ⟨("render.go", "RenderContext.SetVariable", 0, "mapStore", "ctx.context", "ctxPrivate", "map owned by the render context (ctx.context)"), by decide, rfl⟩
  simp only [List.mem_cons, List.mem_nil_iff, or_false] at ht
  rcases ht with rfl | rfl
  · refine ⟨?_, ?_⟩
    · intro op hop tg htg
      simp only [List.mem_cons, List.mem_nil_iff, or_false] at hop
      rcases hop with rfl | rfl | rfl <;> simp [Op.target?] at htg <;> subst htg <;> exact hfresh
    · intro op hop a htg
      simp only [List.mem_cons, List.mem_nil_iff, or_false] at hop
      rcases hop with rfl | rfl | rfl <;> simp [Op.target?] at htg
  · refine ⟨?_, ?_⟩
    · intro op hop tg htg
      simp only [List.mem_cons, List.mem_nil_iff, or_false] at hop
      rcases hop with rfl | rfl | rfl <;> simp [Op.target?] at htg <;> subst htg
      · exact hlib
      · exact hfresh
    · intro op hop a htg
      simp only [List.mem_cons, List.mem_nil_iff, or_false] at hop
      rcases hop with rfl | rfl | rfl <;> simp [Op.target?] at htg
      · subst htg; rfl

/-- … and a `param` site is rejected by the facts predicate (what the extractor reports when a filter is
    mutated to sort its argument in place; regression instance of the emitter's mutation test) -/
example : Writes.ok [("extension.go", "CoreExtension.filterSort", 0, "sort", "result", "param", "parameter value")] = false := by decide

/-- the frame theorem needs its hypothesis: one write to a caller cell changes it -/
theorem C18_frame_counterexample :
    (exec [.write (.caller 1) 99] { mem := fun _ => 0, next := 4 }).mem 1 ≠ 0 := by decide

/-! ## slices: windows and append -/

/-- **A window of caller data that nobody writes to is safe**: `s[a:b]` denotes exactly the caller's
    cells `a … b-1` (no copy is made), and after any further calls that satisfy the frame hypotheses
    every element of the window — and of the caller's slice — still reads the original value. -/
theorem C18_slice_window_alias_safe (R L : Nat → Prop) (h : Heap) (hreg : Regions R L h)
    (s : Slice) (hs : ∀ i, i < s.cap → R (s.addrOf i)) (a b : Nat) (hab : a ≤ b) (hb : b ≤ s.cap)
    (ts : List (List Op)) (hts : ∀ t ∈ ts, noCallerWrites t = true ∧ LibOk L t) :
    ∀ i, i < (s.window a b).len →
      (s.window a b).addrOf i = s.addrOf (a + i) ∧
      (execCalls ts h).mem ((s.window a b).addrOf i) = h.mem (s.addrOf (a + i)) := by
  intro i hi
  have hlen : (s.window a b).len = b - a := rfl
  have e := window_addrOf s a b i
  refine ⟨e, ?_⟩
  rw [e]
  apply execCalls_frame R L ts h hreg hts
  apply hs
  omega

/-- **`append` to such a window WOULD write caller memory**: the window `s[a:b]` with `b < len s` has spare
    capacity, so `append(s[a:b], v)` stores `v` in place — into element `b` of the caller's slice, a cell
    below the allocation pointer — and allocates nothing.  (This is why the extractor classifies the
    first argument of every `append`.) -/
theorem C18_append_window_writes_caller (h : Heap) (s : Slice) (hs : s.addrOf s.cap ≤ h.next)
    (hlc : s.len ≤ s.cap) (a b : Nat) (hab : a ≤ b) (hb : b < s.len) (v : Int) :
    let r := goAppend (s.window a b) v h
    r.1.mem (s.addrOf b) = v ∧ s.addrOf b < h.next ∧ r.1.next = h.next ∧ r.2.arr = s.arr := by
  have hspare : (s.window a b).len < (s.window a b).cap := by
    simp only [Slice.window]; omega
  simp only [goAppend, hspare, if_true]
  have haddr : (s.window a b).addrOf (s.window a b).len = s.addrOf b := by
    rw [window_addrOf]; simp only [Slice.window]; congr 1; omega
  rw [haddr]
  refine ⟨set_mem_eq _ _ _, ?_, ?_, ?_⟩
  · simp only [Slice.addrOf] at hs ⊢
    omega
  · first | rfl | trivial
  · first | rfl | trivial

/-- **`append` to a full window is safe**: after `s[a:b:b]` (capacity cut to the length, as node.go does for
    the block chains) `append` must reallocate: every cell below the allocation pointer keeps its
    content and the result lives in fresh memory. -/
theorem C18_append_full_window_fresh (h : Heap) (s : Slice) (a b : Nat) (v : Int) :
    let r := goAppend (s.windowFull a b) v h
    (∀ x, x < h.next → r.1.mem x = h.mem x) ∧ r.2.arr = h.next ∧ h.next ≤ r.1.next := by
  have hfull : ¬ (s.windowFull a b).len < (s.windowFull a b).cap := by
    simp [Slice.windowFull]
  simp only [goAppend, hfull, if_false]
  refine ⟨?_, ?_, ?_⟩
  · intro x hx
    rw [set_mem_ne _ _ (by omega)]
    exact copyCells_below _ _ _ _ x hx
  · first | rfl | trivial
  · first
      | trivial
      | (rw [set_next, copyCells_next]; simp)
      | simp

/-- instance: caller slice [10,11,12,13] at cells 0..3 (len 4, cap 4), `x|slice(0,2)` then `|merge([9])`
    implemented as append-to-window would turn it into [10,11,9,13] -/
example :
    let h : Heap := { mem := fun a => (a : Int) + 10, next := 4 }
    let s : Slice := { arr := 0, off := 0, len := 4, cap := 4 }
    (goAppend (s.window 0 2) 9 h).1.mem 2 = 9 ∧ (goAppend (s.windowFull 0 2) 9 h).1.mem 2 = 12 := by decide

/-! ## NewRenderContext -/

/-- **C18, context copy.** The caller's top-level map (entry cells `src … src+n-1`, inside `R`) is copied
    into `n` fresh cells; the copy holds the same entries; and whatever `set`, loop variables, include and
    macro scopes then write into the copy (or any other fresh / library-owned cell), the original is
    unchanged. -/
theorem C18_context_copy (R L : Nat → Prop) (h : Heap) (hreg : Regions R L h) (src n : Nat)
    (hsrc : src + n ≤ h.next) (t : List Op) (hnc : noCallerWrites t = true) (hlib : LibOk L t) :
    (∀ i, i < n → (exec (ctxCopy src n) h).mem (h.next + i) = h.mem (src + i)) ∧
    (∀ a, R a → (exec (ctxCopy src n ++ t) h).mem a = h.mem a) := by
  constructor
  · intro i hi
    have := (run_copyRange h.next src { h with next := h.next + n } n hsrc).1 i hi
    simpa [exec, ctxCopy, run, step] using this
  · apply exec_frame R L h hreg
    · rw [noCallerWrites_append, hnc, Bool.and_true]
      simp [noCallerWrites, ctxCopy, Op.target?, Target.isCaller]
    · intro op hop a htg
      rcases List.mem_append.mp hop with h₁ | h₂
      · simp only [ctxCopy, List.mem_cons, List.mem_map, List.mem_range] at h₁
        rcases h₁ with rfl | ⟨i, _, rfl⟩ <;> simp [Op.target?] at htg
      · exact hlib op h₂ a htg

/-- instance: a 2-entry context at cells 0,1; `{% set %}` overwrites the copy of entry 0 -/
example :
    let h : Heap := { mem := fun a => (a : Int) + 10, next := 2 }
    let h' := exec (ctxCopy 0 2 ++ [.write (.fresh 0) 99]) h
    h'.mem 0 = 10 ∧ h'.mem 1 = 11 ∧ h'.mem 2 = 99 ∧ h'.mem 3 = 11 := by decide

end Twig
