/-
  C08 — Expressions follow the operator table and mean the same in every position.

  What is proved here (all over the frozen model: `TwigModel/ParseExpr.lean` = parser.go after the
  precedence-climbing repair and the repair that parses subscripts onto the operand of a prefix operator, `TwigModel/Scan.lean` `lexExpr` = TokenizeExpression, `TwigModel/Value.lean`
  `binop` = evaluateBinaryOp, `TwigModel/Render.lean` `evalX` = EvaluateExpression):

  1. `C08_facts_current`   the precedence table / operator words / climbing constants extracted from the Go
                           source (TwigGen.Prec) are the model's (`BinOp.prec`, `BinOp.text`, `peekBinary`, …);
  2. `C08_table_order`     or < and < comparison < additive < multiplicative < power, every operator classified;
  3. `C08_parse_spelling`  EVERY admissible parenthesisation (`Spells`) of a tree of binary and prefix operators
                           over atoms parses back to that tree, with the fuel `exprFuel` used by the model;
     `C08_parse_printMin`, `C08_parse_printFull`, `C08_min_eq_full_tree`, `C08_min_eq_full_value`,
     `C08_left_assoc`, `C08_higher_binds_tighter`, `C08_parens_override`, `C08_fuel_mono`;
     `C08_subscript_binds_tighter_than_prefix` (`-xs[1]` is `-(xs[1])`, not `(-xs)[1]`; chains `-ys[0][1]`;
     the context after the `]` may be a filter bar: `-xs[1]|abs` is `(-(xs[1]))|abs`), `C08_prefix_without_subscript`;
  4. `C08_lex_spacing`     spelling tokens with any whitespace that keeps fusing neighbours apart lexes back;
     `C08_source_roundtrip` bytes → tokens → tree for the printed forms;
  5. `C08_arith_exact`, `C08_div_mod_zero`, `C08_short_circuit_*`, `C08_cond_one_branch`;
  6. string literals (after the repair of `TokenizeExpression`: a quote is escaped iff an ODD number of backslashes
     precedes it, Go's `escapedAt`): `C08_literal_ends_at_first_unescaped_quote` (ANY bytes after an opening quote:
     the literal ends at the first quote of its kind that is not escaped, or the rest is dropped),
     `C08_literal_end_is_first_quote_not_escapedAt` (that index in the words of the Go helper),
     `C08_quote_after_escaped_backslash_closes` (ALL byte strings `v`, both quote kinds, every admissible class of
     escaped bytes: the literal written from `v` lexes to one STRING token whose `processEscapeSequences` is `v`, and
     lexing continues behind it), `C08_string_literal_round_trip` (… and parses to the constant `v`),
     `C08_escaped_literal_operand`, `C08_escaped_literals_around_operator`, `C08_escape_classes`.

  Fragment of item 3 (decidable predicate `WfE`): binary operators (all twenty), prefix operators
  (`not`, `-`, `+`), tests without arguments (`x is name`; `x is not name` as an admissible spelling of
  `not (x is name)`), the conditional operator, non-negative integer literals ≤ 2^53, string literals without
  `\` and `"`, `true`/`false`/`null`, variables (identifiers other than `not`/`true`/`false`/`null`/`nil`),
  parentheses.  The generic statements `C08_parse_spelling` / `C08_parse_spellingX` additionally accept ANY
  operand for which `AtomOk a ta` (or `SimpleOk a ta`) has been shown.  Not covered (missing for the property's
  full quantifier): tests with arguments, attribute / index access, filters, calls, array and hash literals,
  and the eight syntactic positions (`C08_position`).
-/
import TwigProofs.Lemmas.ParseExpr
import TwigModel.Render
import TwigGen.Prec
namespace Twig
open PE

/-! ## 1. Facts extracted from the Go source -/

/-- the facts of `TwigGen.Prec` the theorems depend on -/
structure PrecFacts where
  table : List (String × Nat)               -- getOperatorPrecedence: (operator string, precedence)
  consts : List (String × Nat)              -- PREC_* constants
  defaultPrec : Int                         -- the `default:` clause
  peekWords : List (String × String × String × Nat)   -- peekBinaryOperator: (word1, word2, operator, width)
  operatorTokenWidth : Int                  -- OPERATOR tokens are passed through with this width
  climbUsesTable : Bool
  climbStopsBelowMin : Bool
  climbRhsBump : Int                        -- parseBinaryPrec(precedence + K)
  climbEntryPrec : Int                      -- parseExpression: parseBinaryPrec(P)
  unknown : List String                     -- constructs the extractor could not classify

/-- spellings in Go's table that are not `BinOp`s of the model: `||` (never produced by the lexer: `|` is
    punctuation), `&&` (read as `and` by `opOfSymbol`), `is` / `is not` (tests; `Peek.isT`) -/
def extraSpellings : List (String × Nat) :=
  [("||", 1), ("&&", 2), ("is", precCompare), ("is not", precCompare)]

def peekEq : Peek → Peek → Bool
  | .op o w, .op o' w' => o == o' && w == w'
  | .isT n w, .isT n' w' => n == n' && w == w'
  | .notDefined, .notDefined => true
  | .none, .none => true
  | _, _ => false

/-- what the model's `peekBinary` must answer for a row of `peekBinaryOperator` -/
def expectedPeek (op : String) (width : Nat) : Option Peek :=
  if op == "is" then some (.isT false width)
  else if op == "is not" then some (.isT true width)
  else if op == "not defined" then (if width == 2 then some .notDefined else none)
  else (BinOp.all.find? (fun o => o.text == op)).map (fun o => .op o width)

def peekRowOk (r : String × String × String × Nat) : Bool :=
  match expectedPeek r.2.2.1 r.2.2.2 with
  | none => false
  | some e => peekEq (peekBinary (tk NAME (b r.1) :: (if r.2.1 == "" then [] else [tk NAME (b r.2.1)]))) e

/-- the operators the model spells with NAME tokens -/
def wordOps : List BinOp := BinOp.all.filter fun o => (opToks o).all (·.kind == NAME)

/-- every model operator is in Go's table with the model's precedence -/
def PrecFacts.tableComplete (F : PrecFacts) : Bool :=
  BinOp.all.all (fun o => F.table.contains (o.text, o.prec))
/-- every entry of Go's table is a model operator with its precedence, or a known extra spelling -/
def PrecFacts.tableSound (F : PrecFacts) : Bool :=
  F.table.all (fun e => BinOp.all.any (fun o => e == (o.text, o.prec)) || extraSpellings.contains e)
/-- the table is a function -/
def PrecFacts.tableFunctional (F : PrecFacts) : Bool :=
  F.table.all (fun e => F.table.all (fun e' => e.1 != e'.1 || e.2 == e'.2))
/-- constants used by the model -/
def PrecFacts.constsOk (F : PrecFacts) : Bool :=
  F.consts.contains ("PREC_LOWEST", 0) && F.defaultPrec == 0 &&
  F.consts.contains ("PREC_OR", 1) && F.consts.contains ("PREC_COMPARE", precCompare) &&
  F.consts.contains ("PREC_PREFIX", lvlOperand)
/-- precedence climbing as modelled by `parseLoop`: the table is consulted, the loop stops below `minPrec`,
    the right operand is parsed one level up, `parseExpression` enters at level 1, OPERATOR tokens have width 1 -/
def PrecFacts.climbOk (F : PrecFacts) : Bool :=
  F.climbUsesTable && F.climbStopsBelowMin && F.climbRhsBump == 1 && F.climbEntryPrec == 1 &&
  F.operatorTokenWidth == 1
/-- every row of `peekBinaryOperator` is answered identically by `peekBinary`, and Go recognises every word
    operator of the model, the tests and the postfix `not defined` -/
def PrecFacts.peekOk (F : PrecFacts) : Bool :=
  F.peekWords.all peekRowOk &&
  wordOps.all (fun o => F.peekWords.any (fun r => r.2.2.1 == o.text && r.2.2.2 == (opToks o).length)) &&
  ["is", "is not", "not defined"].all (fun s => F.peekWords.any (fun r => r.2.2.1 == s))

def PrecFacts.ok (F : PrecFacts) : Bool :=
  F.unknown.isEmpty && F.tableComplete && F.tableSound && F.tableFunctional && F.constsOk && F.climbOk && F.peekOk

def currentFacts : PrecFacts where
  table := TwigGen.Prec.table
  consts := TwigGen.Prec.precConsts
  defaultPrec := TwigGen.Prec.defaultPrec
  peekWords := TwigGen.Prec.peekWords
  operatorTokenWidth := TwigGen.Prec.operatorTokenWidth
  climbUsesTable := TwigGen.Prec.climbUsesTable
  climbStopsBelowMin := TwigGen.Prec.climbStopsBelowMin
  climbRhsBump := TwigGen.Prec.climbRhsBump
  climbEntryPrec := TwigGen.Prec.climbEntryPrec
  unknown := TwigGen.Prec.unknown

/-- THE TIE: the table, constants and operator words regenerated from the Go source are the model's. -/
theorem C08_facts_current : currentFacts.ok = true := by decide +kernel

theorem BinOp.all_complete (o : BinOp) : o ∈ BinOp.all := by cases o <;> decide

/-- for facts that pass the check, Go's `getOperatorPrecedence` on the spelling of a model operator is the
    model's `BinOp.prec` -/
theorem C08_table_generated (F : PrecFacts) (hF : F.ok = true) (o : BinOp) (p : Nat) :
    (o.text, p) ∈ F.table ↔ p = o.prec := by
  simp only [PrecFacts.ok, Bool.and_eq_true] at hF
  obtain ⟨⟨⟨⟨⟨⟨_, hcomp⟩, _⟩, hfun⟩, _⟩, _⟩, _⟩ := hF
  have hmem : (o.text, o.prec) ∈ F.table := by
    rw [PrecFacts.tableComplete, List.all_eq_true] at hcomp
    simpa using hcomp o (BinOp.all_complete o)
  constructor
  · intro h
    rw [PrecFacts.tableFunctional, List.all_eq_true] at hfun
    have := hfun _ h
    rw [List.all_eq_true] at this
    have := this _ hmem
    simpa using this
  · rintro rfl; exact hmem

/-! ## 2. The order of the table -/

inductive OpClass | or | and | comparison | additive | multiplicative | power
deriving DecidableEq, Repr

def OpClass.level : OpClass → Nat
  | .or => 1 | .and => 2 | .comparison => 3 | .additive => 4 | .multiplicative => 5 | .power => 6

/-- the classes of the property statement -/
def classOf : BinOp → OpClass
  | .or => .or
  | .and => .and
  | .eq | .ne | .lt | .gt | .le | .ge | .in_ | .notIn | .matches_ | .startsWith | .endsWith => .comparison
  | .add | .sub | .concat => .additive
  | .mul | .div | .mod => .multiplicative
  | .pow => .power

/-- or < and < comparison < additive < multiplicative < power, and every operator is classified: its
    precedence is the level of its class, so operators compare as their classes do. -/
theorem C08_table_order :
    (∀ o : BinOp, o.prec = (classOf o).level) ∧
    OpClass.or.level < OpClass.and.level ∧ OpClass.and.level < OpClass.comparison.level ∧
    OpClass.comparison.level < OpClass.additive.level ∧ OpClass.additive.level < OpClass.multiplicative.level ∧
    OpClass.multiplicative.level < OpClass.power.level ∧
    (∀ o : BinOp, 1 ≤ o.prec ∧ o.prec ≤ 6) ∧
    BinOp.all.length = 20 ∧ BinOp.all.Nodup ∧ (∀ o : BinOp, o ∈ BinOp.all) := by
  refine ⟨?_, by decide, by decide, by decide, by decide, by decide, ?_, by decide, by decide, BinOp.all_complete⟩
  · intro o; cases o <;> rfl
  · intro o; cases o <;> decide

/-- the same order read off the table generated from the Go source -/
theorem C08_table_order_generated (F : PrecFacts) (hF : F.ok = true) (o1 o2 : BinOp) (p1 p2 : Nat)
    (h1 : (o1.text, p1) ∈ F.table) (h2 : (o2.text, p2) ∈ F.table) :
    (p1 < p2 ↔ (classOf o1).level < (classOf o2).level) ∧ (p1 = p2 ↔ classOf o1 = classOf o2) := by
  rw [(C08_table_generated F hF o1 p1).1 h1, (C08_table_generated F hF o2 p2).1 h2,
    C08_table_order.1 o1, C08_table_order.1 o2]
  refine ⟨Iff.rfl, ?_⟩
  cases classOf o1 <;> cases classOf o2 <;> decide

/-! ## 3. Round trip through the parser -/

/-- Fuel: more fuel never changes a result that is not the out-of-fuel error (value or genuine parse error).
    The same holds for all fifteen parser functions (`PE.parse*_mono`). -/
theorem C08_fuel_mono {f f' : Nat} {ts : List Token} {r : R (Expr × List Token)}
    (h : parseExpression f ts = r) (hne : r ≠ .error .fuel) (hle : f ≤ f') : parseExpression f' ts = r :=
  parseExpression_mono h hne hle

/-- Fuel adequacy on EVERY token list (not only on printed expressions): with `exprFuel` the parser never
    reports out-of-fuel, the result is the result for every larger fuel, and a successful parse consumes at
    least one token.  (So `.error .fuel` is not an observable outcome of the model's expression parser.) -/
theorem C08_fuel_adequate (ts : List Token) :
    parseExpression (exprFuel ts) ts ≠ .error .fuel ∧
    (∀ f, exprFuel ts ≤ f → parseExpression f ts = parseExpression (exprFuel ts) ts) ∧
    (∀ e rest, parseExpression (exprFuel ts) ts = .ok (e, rest) → rest.length < ts.length) := by
  have h := parseExpression_adequate ts (exprFuel_adequate ts)
  refine ⟨h.ne_fuel, fun f hf => parseExpression_fuel_irrelevant ts hf, fun e rest hr => ?_⟩
  rw [hr] at h
  exact h

/-- Every admissible spelling: `Spells 1 e ts` holds for every way of writing the tree `e` of binary and prefix
    operators over atoms with parentheses wherever the table requires them and anywhere else one likes.
    Parsing it, followed by a context `rest` that ends the expression, yields `e` and leaves `rest`, with
    the fuel the model uses (`exprFuel`) and with any fuel ≥ `4·|ts| + 2`. -/
theorem C08_parse_spelling {e : Expr} {ts rest : List Token} (h : Spells 1 e ts) (hs : Stop rest = true) :
    parseExpression (exprFuel (ts ++ rest)) (ts ++ rest) = .ok (e, rest) ∧
    ∀ f, 4 * ts.length + 2 ≤ f → parseExpression f (ts ++ rest) = .ok (e, rest) :=
  ⟨parseExpression_spells h hs _ (exprFuel_ge ts rest), parseExpression_spells h hs⟩

/-- The same at expression level (`SpellsX`): an operator tree, or `c ? t : f` with the condition an operator
    tree and the branches again expression-level spellings (right-nested conditionals need no parentheses;
    a conditional in any other place is an operand in parentheses, `simpleOk_parenX`). -/
theorem C08_parse_spellingX {e : Expr} {ts rest : List Token} (h : SpellsX e ts) (hs : Stop rest = true) :
    parseExpression (exprFuel (ts ++ rest)) (ts ++ rest) = .ok (e, rest) ∧
    ∀ f, 4 * ts.length + 2 ≤ f → parseExpression f (ts ++ rest) = .ok (e, rest) :=
  ⟨parseExpression_spellsX h rest hs _ (exprFuel_ge ts rest), parseExpression_spellsX h rest hs⟩

/- FULL STATEMENT of the property's parser half (NOT proved in this generality; kept visible):

     ∀ e : Expr built from literals, variables, attribute / index access, prefix, binary and conditional
       operators, tests and filter applications, ∀ admissible parenthesisation ts of e, ∀ rest with Stop rest,
       parseExpression (exprFuel (ts ++ rest)) (ts ++ rest) = .ok (e, rest).

   Proved below for the fragment `WfE` (binary + prefix operators, argument-less tests, conditionals over literals /
   variables / parentheses), and in `C08_parse_spelling(X)` for every tree whose leaves are ANY operands with a proved
   `AtomOk` / `SimpleOk` spelling.  Missing: concrete spellings (printer cases + `AtomOk` proofs) for `a.b`, `a[i]`,
   `a|f(x)`, calls, `[…]`, `{…}`, and tests with arguments (`x is divisible by(3)`). -/
theorem C08_parse_printFull (e : Expr) (h : WfE e = true) (rest : List Token) (hs : Stop rest = true) :
    parseExpression (exprFuel (printFull e ++ rest)) (printFull e ++ rest) = .ok (e, rest) :=
  (C08_parse_spelling (spells_printFull e 1 h) hs).1

theorem C08_parse_printMin (e : Expr) (h : WfE e = true) (rest : List Token) (hs : Stop rest = true) :
    parseExpression (exprFuel (printMin e ++ rest)) (printMin e ++ rest) = .ok (e, rest) :=
  (C08_parse_spellingX (spellsX_printMin e h) hs).1

/-- minimal and full parenthesisation denote the same tree … -/
theorem C08_min_eq_full_tree (e : Expr) (h : WfE e = true) (rest : List Token) (hs : Stop rest = true) :
    (parseExpression (exprFuel (printMin e ++ rest)) (printMin e ++ rest)).map (·.1) =
    (parseExpression (exprFuel (printFull e ++ rest)) (printFull e ++ rest)).map (·.1) := by
  rw [C08_parse_printMin e h rest hs, C08_parse_printFull e h rest hs]

/-- … as do any two admissible spellings … -/
theorem C08_any_two_spellings {e : Expr} {ts1 ts2 rest1 rest2 : List Token}
    (h1 : Spells 1 e ts1) (h2 : Spells 1 e ts2) (hs1 : Stop rest1 = true) (hs2 : Stop rest2 = true) :
    (parseExpression (exprFuel (ts1 ++ rest1)) (ts1 ++ rest1)).map (·.1) =
    (parseExpression (exprFuel (ts2 ++ rest2)) (ts2 ++ rest2)).map (·.1) := by
  rw [(C08_parse_spelling h1 hs1).1, (C08_parse_spelling h2 hs2).1]; rfl

/-- evaluate what the parser returns for a token list -/
def parseEval (E : Env) (st : St) (ts : List Token) : R ((Val × List (Bytes × List Val)) × St) :=
  parseExpression (exprFuel ts) ts >>= fun p => evalX E true p.1 st

/-- … hence the same value (and the same final state, and the same error if evaluation fails), in every
    environment and state: both are the evaluation of `e` itself. -/
theorem C08_min_eq_full_value (E : Env) (st : St) (e : Expr) (h : WfE e = true) (rest : List Token)
    (hs : Stop rest = true) :
    parseEval E st (printMin e ++ rest) = parseEval E st (printFull e ++ rest) ∧
    parseEval E st (printMin e ++ rest) = evalX E true e st := by
  unfold parseEval
  rw [C08_parse_printMin e h rest hs, C08_parse_printFull e h rest hs]
  exact ⟨rfl, rfl⟩

/-- `a op1 c op2 d` with `prec op2 ≤ prec op1` (in particular equal precedence) groups from the left. -/
theorem C08_left_assoc {a c d : Expr} {ta tc td rest : List Token} (ha : AtomOk a ta) (hc : AtomOk c tc)
    (hd : AtomOk d td) (o1 o2 : BinOp) (h : o2.prec ≤ o1.prec) (hs : Stop rest = true) :
    parseExpression (exprFuel (((ta ++ opToks o1 ++ tc) ++ opToks o2 ++ td) ++ rest))
      (((ta ++ opToks o1 ++ tc) ++ opToks o2 ++ td) ++ rest) = .ok (.binary o2 (.binary o1 a c) d, rest) := by
  have h6 := prec_le_six o1
  have h6' := prec_le_six o2
  refine (C08_parse_spelling (.bin (prec_pos o2) (.bin h (.atom ha ?_) (.atom hc ?_)) (.atom hd ?_)) hs).1 <;>
    simp [lvlOperand] <;> omega

/-- `a op1 c op2 d` with `prec op1 < prec op2`: the tighter operator gets `c`. -/
theorem C08_higher_binds_tighter {a c d : Expr} {ta tc td rest : List Token} (ha : AtomOk a ta) (hc : AtomOk c tc)
    (hd : AtomOk d td) (o1 o2 : BinOp) (h : o1.prec < o2.prec) (hs : Stop rest = true) :
    parseExpression (exprFuel ((ta ++ opToks o1 ++ (tc ++ opToks o2 ++ td)) ++ rest))
      ((ta ++ opToks o1 ++ (tc ++ opToks o2 ++ td)) ++ rest) = .ok (.binary o1 a (.binary o2 c d), rest) := by
  have h6 := prec_le_six o1
  have h6' := prec_le_six o2
  refine (C08_parse_spelling (.bin (prec_pos o1) (.atom ha ?_) (.bin h (.atom hc ?_) (.atom hd ?_))) hs).1 <;>
    simp [lvlOperand] <;> omega

/-- parentheses override the table, on either side and whatever the two precedences are -/
theorem C08_parens_override {a c d : Expr} {ta tc td rest : List Token} (ha : AtomOk a ta) (hc : AtomOk c tc)
    (hd : AtomOk d td) (o1 o2 : BinOp) (hs : Stop rest = true) :
    parseExpression (exprFuel ((ta ++ opToks o1 ++ (lp :: (tc ++ opToks o2 ++ td) ++ [rp])) ++ rest))
      ((ta ++ opToks o1 ++ (lp :: (tc ++ opToks o2 ++ td) ++ [rp])) ++ rest) = .ok (.binary o1 a (.binary o2 c d), rest) ∧
    parseExpression (exprFuel (((lp :: (ta ++ opToks o1 ++ tc) ++ [rp]) ++ opToks o2 ++ td) ++ rest))
      (((lp :: (ta ++ opToks o1 ++ tc) ++ [rp]) ++ opToks o2 ++ td) ++ rest) = .ok (.binary o2 (.binary o1 a c) d, rest) := by
  have h6 := prec_le_six o1
  have h6' := prec_le_six o2
  have h1 := prec_pos o1
  have h1' := prec_pos o2
  constructor
  · refine (C08_parse_spelling (.bin h1 (.atom ha ?_) (.paren (.bin h1' (.atom hc ?_) (.atom hd ?_)))) hs).1 <;>
      simp [lvlOperand] <;> omega
  · refine (C08_parse_spelling (.bin h1' (.paren (.bin h1 (.atom ha ?_) (.atom hc ?_))) (.atom hd ?_)) hs).1 <;>
      simp [lvlOperand] <;> omega

/-- prefix operators bind tighter than every binary operator: `u a op c` is `(u a) op c` -/
theorem C08_prefix_binds_tightest {a c : Expr} {ta tc rest : List Token} (ha : SimpleOk a ta) (hc : AtomOk c tc)
    (u : UnOp) (o : BinOp) (hs : Stop rest = true) :
    parseExpression (exprFuel (((unTok u :: ta) ++ opToks o ++ tc) ++ rest))
      (((unTok u :: ta) ++ opToks o ++ tc) ++ rest) = .ok (.binary o (.unary u a) c, rest) := by
  have h6 := prec_le_six o
  refine (C08_parse_spelling (.bin (prec_pos o) (.unary (.simple ha)) (.atom hc ?_)) hs).1
  simp [lvlOperand]; omega

/-- A SUBSCRIPT BINDS TIGHTER THAN A PREFIX OPERATOR (as attribute access and calls do).  For a prefix operator
    `u ∈ {not, -, +}`, operand tokens `to` that `parseSimpleExpression` reads as `e` in front of the subscript, and
    index tokens `ti` that `parseExpression` reads as `i` in front of the closing bracket, the token sequence
    `u to [ ti ] rest` is read by `parseSimpleExpression` as `u (e[i])` and leaves `rest` — for every fuel from
    `fe + fi + 3` on — and for NO fuel as `(u e)[i]` (what the parser returned before the repair).
    `rest` is anything that does not start with another `[` (`NoSubscript`): the end, an operator, a closing token,
    and also a filter bar — the filter is left to the caller, so `-xs[1]|abs` is `(-(xs[1]))|abs`. -/
theorem C08_subscript_binds_tighter_than_prefix (u : UnOp) {e i : Expr} {to ti rest : List Token} {fe fi : Nat}
    (he : parseSimple fe (to ++ lbTok :: (ti ++ rbTok :: rest)) = .ok (e, lbTok :: (ti ++ rbTok :: rest)))
    (hi : parseExpression fi (ti ++ rbTok :: rest) = .ok (i, rbTok :: rest))
    (hr : NoSubscript rest = true) :
    (∀ f, fe + fi + 3 ≤ f →
      parseSimple f (unTok u :: (to ++ lbTok :: (ti ++ rbTok :: rest))) = .ok (.unary u (.item e i), rest)) ∧
    (∀ f, parseSimple f (unTok u :: (to ++ lbTok :: (ti ++ rbTok :: rest))) ≠ .ok (.item (.unary u e) i, rest)) := by
  have h1 := parseSimple_unary_subscript u he hi hr
  refine ⟨h1, fun f hc => ?_⟩
  have h2 := parseSimple_mono hc ok_ne_fuel (Nat.le_max_left f (fe + fi + 3))
  rw [h1 _ (Nat.le_max_right _ _)] at h2
  cases h2

/-- the same for the whole expression, with the fuel the model uses: when the context ends the expression,
    `u to [ ti ]` parses to `u (e[i])` -/
theorem C08_prefix_subscript_expression (u : UnOp) {e i : Expr} {to ti rest : List Token} {fe fi : Nat}
    (he : parseSimple fe (to ++ lbTok :: (ti ++ rbTok :: rest)) = .ok (e, lbTok :: (ti ++ rbTok :: rest)))
    (hi : parseExpression fi (ti ++ rbTok :: rest) = .ok (i, rbTok :: rest))
    (hs : Stop rest = true) :
    parseExpression (exprFuel (unTok u :: (to ++ lbTok :: (ti ++ rbTok :: rest))))
      (unTok u :: (to ++ lbTok :: (ti ++ rbTok :: rest))) = .ok (.unary u (.item e i), rest) :=
  parseExpression_exprFuel_of
    (parseExpression_of_simple (parseSimple_unary_subscript u he hi (noSubscript_of_stop hs) _ (Nat.le_refl _)) hs _
      (Nat.le_refl _))

/-- chains: `u to [i1][i2]…[ik]` is `u (e[i1][i2]…[ik])` (`-ys[0][1]` is `-((ys[0])[1])`); every index is a token list
    that is read as its expression in front of a closing bracket (`IndexOk`; e.g. every spelling `SpellsX`,
    `indexOk_of_spellsX`) -/
theorem C08_subscript_chain_binds_tighter_than_prefix (u : UnOp) {e : Expr} {to rest : List Token} {f0 : Nat}
    (idx : List (Expr × List Token))
    (he : parseSimple f0 (to ++ (subsToks (idx.map (·.2)) ++ rest)) = .ok (e, subsToks (idx.map (·.2)) ++ rest))
    (hidx : ∀ p ∈ idx, IndexOk f0 p.1 p.2) (hs : Stop rest = true) :
    parseExpression (exprFuel (unTok u :: (to ++ (subsToks (idx.map (·.2)) ++ rest))))
      (unTok u :: (to ++ (subsToks (idx.map (·.2)) ++ rest))) = .ok (.unary u (itemChain e (idx.map (·.1))), rest) :=
  parseExpression_exprFuel_of
    (parseExpression_of_simple (parseSimple_unary_chain u idx he hidx (noSubscript_of_stop hs) _ (Nat.le_refl _)) hs _
      (Nat.le_refl _))

/-- nothing else changed: when no `[` follows the operand, a prefix operator reads exactly its operand — in
    particular in front of a filter bar (`-x|abs` is still `(-x)|abs`) -/
theorem C08_prefix_without_subscript (u : UnOp) {e : Expr} {to rest : List Token} {fe : Nat}
    (he : parseSimple fe (to ++ rest) = .ok (e, rest)) (hr : NoSubscript rest = true) :
    ∀ f, fe + 2 ≤ f → parseSimple f (unTok u :: (to ++ rest)) = .ok (.unary u e, rest) :=
  parseSimple_unary_plain u he hr

/-- a test has the comparison precedence: `a op x is name` applies the test to `x` alone when `op` binds tighter
    than comparison is false, i.e. for `or`/`and`: `a and x is defined` = `a and (x is defined)`;
    for an arithmetic operator the test applies to the whole left side: `a + x is odd` = `(a + x) is odd`;
    `is not` negates the test -/
theorem C08_test_precedence {a x : Expr} {ta tx rest : List Token} (ha : AtomOk a ta) (hx : AtomOk x tx)
    (o : BinOp) (neg : Bool) (name : Bytes) (hn : neg = false → name ≠ b "not") (hs : Stop rest = true) :
    (o.prec < precCompare →
      parseExpression (exprFuel ((ta ++ opToks o ++ (tx ++ (isToks neg ++ [tk NAME name]))) ++ rest))
        ((ta ++ opToks o ++ (tx ++ (isToks neg ++ [tk NAME name]))) ++ rest) =
        .ok (.binary o a (testExpr neg x name), rest)) ∧
    (precCompare ≤ o.prec →
      parseExpression (exprFuel (((ta ++ opToks o ++ tx) ++ (isToks neg ++ [tk NAME name])) ++ rest))
        (((ta ++ opToks o ++ tx) ++ (isToks neg ++ [tk NAME name])) ++ rest) =
        .ok (testExpr neg (.binary o a x) name, rest)) := by
  have h6 := prec_le_six o
  have h1 := prec_pos o
  constructor
  · intro h
    refine (C08_parse_spelling (.bin h1 (.atom ha ?_) (.test ?_ hn (.atom hx ?_))) hs).1 <;>
      simp [lvlOperand, precCompare] at * <;> omega
  · intro h
    refine (C08_parse_spelling (.test (by decide) hn (.bin h (.atom ha ?_) (.atom hx ?_))) hs).1 <;>
      simp [lvlOperand, precCompare] at * <;> omega

/-- the conditional operator binds weaker than every binary operator and nests to the right:
    `a op c ? t : c2 ? t2 : f2` is `(a op c) ? t : (c2 ? t2 : f2)` -/
theorem C08_cond_weakest_right_nested {a c t c2 t2 f2 : Expr} {ta tc tt tc2 tt2 tf2 rest : List Token}
    (ha : AtomOk a ta) (hc : AtomOk c tc) (ht : AtomOk t tt) (hc2 : AtomOk c2 tc2) (ht2 : AtomOk t2 tt2)
    (hf2 : AtomOk f2 tf2) (o : BinOp) (hs : Stop rest = true) :
    parseExpression (exprFuel (((ta ++ opToks o ++ tc) ++ qTok :: (tt ++ colonTok :: (tc2 ++ qTok :: (tt2 ++ colonTok :: tf2)))) ++ rest))
      (((ta ++ opToks o ++ tc) ++ qTok :: (tt ++ colonTok :: (tc2 ++ qTok :: (tt2 ++ colonTok :: tf2)))) ++ rest) =
      .ok (.cond (.binary o a c) t (.cond c2 t2 f2), rest) := by
  have h6 := prec_le_six o
  have h7 : (1 : Nat) ≤ lvlOperand := by decide
  refine (C08_parse_spellingX (.cond (.bin (prec_pos o) (.atom ha ?_) (.atom hc ?_)) (.plain (.atom ht h7))
    (.cond (.atom hc2 h7) (.plain (.atom ht2 h7)) (.plain (.atom hf2 h7)))) hs).1 <;>
    simp [lvlOperand] <;> omega

/-! ## 4. Spacing -/

/-- Spelling a token list with any whitespace (`sp[i]` before token `i`, `sp[n]` at the end) lexes back to the
    token list, provided (`Separated`, decidable) the tokens are of the fragment — identifiers, digit strings,
    string literals without `"`/`\`, one- and two-character operators, punctuation — the `sp[i]` are made of
    blanks/tabs/newlines, and no token is directly followed by a byte that fuses with it (an identifier
    character after a NAME: NAME·NAME, NAME·NUMBER; a digit or `.` after a NUMBER: NUMBER·NUMBER, NUMBER·`.`;
    the second half of `==` `!=` `<=` `>=` `&&` after the first). -/
theorem C08_lex_spacing (toks : List Token) (sp : List Bytes) (h : Separated toks sp = true) :
    lexExpr (spellToks toks sp) = toks := lexExpr_spell toks sp h

/-- at least one whitespace byte between any two tokens always separates -/
theorem C08_lex_spaced (toks : List Token) (sp : List Bytes) (h : Spaced toks sp = true) :
    lexExpr (spellToks toks sp) = toks := lexExpr_spell toks sp (separated_of_spaced toks sp h)

/-- source bytes → tokens → tree: the minimal and the full spelling of `e`, written with any separating
    whitespace, are read back as `e` -/
theorem C08_source_roundtrip (e : Expr) (h : WfE e = true) (sp sp' : List Bytes)
    (hsp : Separated (printMin e) sp = true) (hsp' : Separated (printFull e) sp' = true) :
    parseExpression (exprFuel (lexExpr (spellToks (printMin e) sp))) (lexExpr (spellToks (printMin e) sp)) = .ok (e, []) ∧
    parseExpression (exprFuel (lexExpr (spellToks (printFull e) sp'))) (lexExpr (spellToks (printFull e) sp')) = .ok (e, []) := by
  rw [C08_lex_spacing _ _ hsp, C08_lex_spacing _ _ hsp']
  have h1 := C08_parse_printMin e h [] rfl
  have h2 := C08_parse_printFull e h [] rfl
  simp only [List.append_nil] at h1 h2
  exact ⟨h1, h2⟩

/-- the hypothesis of `C08_source_roundtrip` is satisfiable for every `e` of the fragment: single blanks -/
theorem C08_single_blanks_separate (e : Expr) (h : WfE e = true) :
    Separated (printMin e) (List.replicate (printMin e).length [32]) = true ∧
    Separated (printFull e) (List.replicate (printFull e).length [32]) = true :=
  ⟨separated_of_spaced _ _ (spaced_single _ (tokOk_printMin e h)),
   separated_of_spaced _ _ (spaced_single _ (tokOk_printFull e h))⟩

/-! ## 5. Operators on integers, booleans and strings -/

/-- exact integer arithmetic and comparison whenever the result is within ±2^53 -/
theorem C08_arith_exact (a c : Int) :
    (inRange (a + c) = true → binop .add (.int a) (.int c) = .ok (.int (a + c))) ∧
    (inRange (a - c) = true → binop .sub (.int a) (.int c) = .ok (.int (a - c))) ∧
    (inRange (a * c) = true → binop .mul (.int a) (.int c) = .ok (.int (a * c))) ∧
    (c ≠ 0 → a % c = 0 → inRange (a / c) = true → binop .div (.int a) (.int c) = .ok (.int (a / c))) ∧
    (c ≠ 0 → inRange (Int.tmod a c) = true → binop .mod (.int a) (.int c) = .ok (.int (Int.tmod a c))) ∧
    binop .eq (.int a) (.int c) = .ok (.bool (a == c)) ∧
    binop .ne (.int a) (.int c) = .ok (.bool (a != c)) ∧
    binop .lt (.int a) (.int c) = .ok (.bool (a < c)) ∧
    binop .gt (.int a) (.int c) = .ok (.bool (a > c)) ∧
    binop .le (.int a) (.int c) = .ok (.bool (a ≤ c)) ∧
    binop .ge (.int a) (.int c) = .ok (.bool (a ≥ c)) := by
  refine ⟨?_, ?_, ?_, ?_, ?_, ?_, ?_, ?_, ?_, ?_, ?_⟩
  · intro h; simp [binop, toNumber, num, h, bind, Except.bind]
  · intro h; simp [binop, arith, toNumber, num, h, bind, Except.bind]
  · intro h; simp [binop, arith, toNumber, num, h, bind, Except.bind]
  · intro hc hd h; simp [binop, arith, toNumber, num, h, hc, hd, bind, Except.bind]
  · intro hc h; simp [binop, arith, toNumber, num, h, hc, bind, Except.bind]
  · simp [binop, valEquals, toNumber, bind, Except.bind]
  · simp [binop, valEquals, toNumber, bind, Except.bind, bne]
  · simp [binop, cmp, toNumber, bind, Except.bind]
  · simp [binop, cmp, toNumber, bind, Except.bind]
  · simp [binop, cmp, toNumber, bind, Except.bind]
  · simp [binop, cmp, toNumber, bind, Except.bind]

/-- division and modulo by zero are render errors, not values -/
theorem C08_div_mod_zero (a : Int) :
    binop .div (.int a) (.int 0) = rerr "division by zero" ∧
    binop .mod (.int a) (.int 0) = rerr "modulo by zero" := by
  constructor <;> simp [binop, arith, toNumber, bind, Except.bind]

/-- concatenation of strings, `and`/`or` of booleans, `+` on strings -/
theorem C08_string_bool_ops (s t : Bytes) (x y : Bool) :
    binop .concat (.str s) (.str t) = .ok (.str (s ++ t)) ∧
    binop .and (.bool x) (.bool y) = .ok (.bool (x && y)) ∧
    binop .or (.bool x) (.bool y) = .ok (.bool (x || y)) := by
  refine ⟨?_, ?_, ?_⟩ <;> simp [binop, toStr, toBool, bind, Except.bind]

/-- `and`: a falsy left operand decides; the right operand — ANY expression, even one whose evaluation
    fails — is not evaluated: value `false`, state = the state after the left operand -/
theorem C08_short_circuit_and (E : Env) (st st1 : St) (l r : Expr) (lv : Val) (ch : List (Bytes × List Val))
    (hl : evalX E true l st = .ok ((lv, ch), st1)) (hb : toBool lv = false) :
    evalX E true (.binary .and l r) st = .ok ((.bool false, []), st1) := by
  rw [evalX, hl]; simp [bind, Except.bind, hb, pure, Except.pure]

/-- `or`: a truthy left operand decides -/
theorem C08_short_circuit_or (E : Env) (st st1 : St) (l r : Expr) (lv : Val) (ch : List (Bytes × List Val))
    (hl : evalX E true l st = .ok ((lv, ch), st1)) (hb : toBool lv = true) :
    evalX E true (.binary .or l r) st = .ok ((.bool true, []), st1) := by
  rw [evalX, hl]; simp [bind, Except.bind, hb, pure, Except.pure]

/-- otherwise the right operand is evaluated (once, in the state after the left one) and decides -/
theorem C08_and_or_right (E : Env) (st st1 : St) (l r : Expr) (lv : Val) (ch : List (Bytes × List Val))
    (hl : evalX E true l st = .ok ((lv, ch), st1)) :
    (toBool lv = true → evalX E true (.binary .and l r) st =
      (evalX E true r st1 >>= fun x => pure ((.bool (toBool x.1.1), []), x.2))) ∧
    (toBool lv = false → evalX E true (.binary .or l r) st =
      (evalX E true r st1 >>= fun x => pure ((.bool (toBool x.1.1), []), x.2))) := by
  constructor <;> intro hb <;> rw [evalX, hl] <;> simp [bind, Except.bind, hb, pure, Except.pure, binop] <;>
    cases evalX E true r st1 <;> rfl

/-- the conditional operator evaluates the condition and then exactly one branch: the result (value, state or
    error) is that of the chosen branch in the state after the condition; the other branch is arbitrary -/
theorem C08_cond_one_branch (E : Env) (st st1 : St) (c t f : Expr) (cv : Val) (ch : List (Bytes × List Val))
    (hc : evalX E true c st = .ok ((cv, ch), st1)) :
    evalX E true (.cond c t f) st = if toBool cv then evalX E true t st1 else evalX E true f st1 := by
  rw [evalX, hc]; rfl

/-! ## 6. Non-vacuity: concrete instances of every hypothesis set (tests, not theorems) -/

/-! ## 6. String literals: a quote is escaped iff an ODD number of backslashes precedes it -/

/-- Go's `escapedAt(s, i)`: the number of consecutive backslashes that end just before position `i` is odd. -/
def escapedAt (s : Bytes) (i : Nat) : Bool :=
  ((s.take i).reverse.takeWhile (· == 92)).length % 2 == 1

/-- where a literal opened by `q` ends: the index of the first `q` that is not escaped (`esc`: is the head escaped?) -/
def litEnd (q : UInt8) : Bool → Bytes → Option Nat
  | _, [] => none
  | esc, c :: r => if c == q && !esc then some 0 else (litEnd q (c == 92 && !esc) r).map (· + 1)

/-- spelling of a value as the body of a literal: a backslash in front of every byte of the class `P` -/
def escapeWith (P : UInt8 → Bool) : Bytes → Bytes
  | [] => []
  | c :: r => if P c then 92 :: c :: escapeWith P r else c :: escapeWith P r

/-- the least one may escape inside `q … q` -/
def escapeBytes (q : UInt8) : Bytes → Bytes := escapeWith (fun c => c == 92 || c == q)

/-- admissible classes: the backslash and the delimiter are escaped; `n`, `r`, `t` are not (`\n` is a newline) -/
def EscClass (q : UInt8) (P : UInt8 → Bool) : Prop :=
  P 92 = true ∧ P q = true ∧ P 110 = false ∧ P 114 = false ∧ P 116 = false

theorem closeCond (q : UInt8) (hq : q = 34 ∨ q = 39) (c : UInt8) (esc : Bool) :
    (((c == 34 || c == 39) && !esc) && c == q) = (c == q && !esc) := by
  rcases hq with rfl | rfl <;> cases (c == 34) <;> cases (c == 39) <;> cases esc <;> rfl

theorem lexStr_litEnd (q : UInt8) (hq : q = 34 ∨ q = 39) :
    ∀ (s acc : Bytes) (esc : Bool) (fuel : Nat), s.length ≤ fuel →
      lexAux fuel (.str q acc) esc s =
        match litEnd q esc s with
        | some n => tk STRING (acc.reverse ++ s.take n) :: lexAux (fuel - (n + 1)) .code false (s.drop (n + 1))
        | none => []
  | [], acc, esc, fuel, _ => by cases fuel <;> simp [lexAux, litEnd]
  | c :: r, acc, esc, fuel, hf => by
    obtain ⟨g, rfl⟩ : ∃ g, fuel = g + 1 := ⟨fuel - 1, by simp at hf; omega⟩
    have ih := lexStr_litEnd q hq r (c :: acc) (c == 92 && !esc) g (by simpa using hf)
    rw [lexAux.eq_def]
    simp only [litEnd, closeCond q hq]
    by_cases h : (c == q && !esc) = true
    · have hc : c = q := by simp at h; exact h.1
      have h92 : (c == 92) = false := by
        subst hc; rcases hq with rfl | rfl <;> decide
      simp [h, h92]
    · simp only [h, Bool.false_eq_true, if_false]
      rw [ih]
      cases litEnd q (c == 92 && !esc) r with
      | none => simp
      | some m => simp [Nat.add_sub_add_right]

theorem litEnd_lt (q : UInt8) : ∀ (s : Bytes) (esc : Bool) (n : Nat), litEnd q esc s = some n →
    n < s.length ∧ s[n]? = some q
  | [], _, _, h => by simp [litEnd] at h
  | c :: r, esc, n, h => by
    simp only [litEnd] at h
    split at h
    · rename_i hc
      cases h
      simp only [Bool.and_eq_true, beq_iff_eq] at hc
      simp [hc.1]
    · cases hl : litEnd q (c == 92 && !esc) r with
      | none => simp [hl] at h
      | some m =>
        simp [hl] at h
        subst h
        have := litEnd_lt q r _ m hl
        refine ⟨by simp; exact this.1, ?_⟩
        rw [List.getElem?_cons_succ]; exact this.2

/-- A literal ends at the first quote of its own kind that is not escaped, whatever precedes and follows it inside
    the literal; the token carries the bytes in between, lexing goes on behind the quote (which escapes nothing).
    Without such a quote the rest of the expression is dropped (Go: the unterminated literal yields no token). -/
theorem C08_literal_ends_at_first_unescaped_quote (q : UInt8) (hq : q = 34 ∨ q = 39) (s : Bytes) :
    lexExpr (q :: s) =
      match litEnd q false s with
      | some n => tk STRING (s.take n) :: lexExpr (s.drop (n + 1))
      | none => [] := by
  have h92 : (q == 92) = false := by rcases hq with rfl | rfl <;> decide
  have hqq : (q == 34 || q == 39) = true := by rcases hq with rfl | rfl <;> decide
  have h := lexStr_litEnd q hq s [] false (s.length + 1) (by omega)
  simp only [lexExpr, List.length_cons]
  rw [lexAux.eq_def]
  simp only [hqq, h92, Bool.not_false, Bool.and_true, if_true]
  rw [h]
  cases hl : litEnd q false s with
  | none => rfl
  | some n =>
    have := (litEnd_lt q s false n hl).1
    simp only [List.reverse_nil, List.nil_append, List.length_drop]
    rw [show s.length + 1 - (n + 1) = s.length - (n + 1) + 1 by omega]

theorem litEnd_escapeWith (q : UInt8) (P : UInt8 → Bool) (hq : (q == 92) = false) (h92 : P 92 = true) (hPq : P q = true)
    (next : Bytes) : ∀ v : Bytes, litEnd q false (escapeWith P v ++ q :: next) = some (escapeWith P v).length
  | [] => by simp [escapeWith, litEnd]
  | c :: v => by
    have ih := litEnd_escapeWith q P hq h92 hPq next v
    have hq' : ((92 : UInt8) == q) = false := by
      rw [Bool.eq_false_iff] at hq ⊢; intro h; apply hq; simp at h ⊢; exact h.symm
    simp only [escapeWith]
    by_cases hP : P c = true
    · simp [hP, litEnd, hq', ih]
    · have hP' : P c = false := by simpa using hP
      have hcq : (c == q) = false := by
        rw [Bool.eq_false_iff]; intro h; simp at h; subst h; simp [hPq] at hP'
      have hc92 : (c == 92) = false := by
        rw [Bool.eq_false_iff]; intro h; simp at h; subst h; simp [h92] at hP'
      simp [hP', litEnd, hcq, hc92, ih]

theorem unescape_escapeWith (P : UInt8 → Bool) (h92 : P 92 = true)
    (hn : P 110 = false) (hr : P 114 = false) (ht : P 116 = false) :
    ∀ v : Bytes, unescapeStr (escapeWith P v) = v
  | [] => by simp [escapeWith, unescapeStr]
  | c :: v => by
    have ih := unescape_escapeWith P h92 hn hr ht v
    simp only [escapeWith]
    by_cases hP : P c = true
    · have h1 : (c == 110) = false := by
        rw [Bool.eq_false_iff]; intro h; simp at h; subst h; simp [hn] at hP
      have h2 : (c == 114) = false := by
        rw [Bool.eq_false_iff]; intro h; simp at h; subst h; simp [hr] at hP
      have h3 : (c == 116) = false := by
        rw [Bool.eq_false_iff]; intro h; simp at h; subst h; simp [ht] at hP
      simp [hP, unescapeStr, h1, h2, h3, ih]
    · have hP' : P c = false := by simpa using hP
      have hc92 : c ≠ 92 := by intro h; subst h; simp [h92] at hP'
      simp only [hP', Bool.false_eq_true, if_false]
      rw [unescapeStr.eq_def]
      split
      · rename_i heq; simp at heq; exact absurd heq.1 hc92
      · rename_i heq; simp at heq; rw [← heq.1, ← heq.2, ih]
      · rename_i heq; simp at heq

/-- the lexer's state after the bytes `l`, started in state `esc`: "the next byte is escaped" -/
def escAfter (esc : Bool) (l : Bytes) : Bool := l.foldl (fun e c => c == 92 && !e) esc

theorem escAfter_rev : ∀ r : Bytes, escAfter false r.reverse = ((r.takeWhile (· == 92)).length % 2 == 1)
  | [] => by simp [escAfter]
  | c :: r => by
    have ih := escAfter_rev r
    simp only [escAfter] at ih ⊢
    rw [List.reverse_cons, List.foldl_append, List.foldl_cons, List.foldl_nil, ih, List.takeWhile_cons]
    by_cases hc : (c == 92) = true
    · simp only [hc, if_true, List.length_cons, Bool.true_and]
      generalize (r.takeWhile (· == 92)).length = k
      rcases Nat.mod_two_eq_zero_or_one k with h | h
      · have h' : (k + 1) % 2 = 1 := by omega
        simp [h, h']
      · have h' : (k + 1) % 2 = 0 := by omega
        simp [h, h']
    · simp [hc]

/-- the model's one-bit state is Go's `escapedAt` -/
theorem escAfter_eq_escapedAt (s : Bytes) (i : Nat) : escAfter false (s.take i) = escapedAt s i := by
  have := escAfter_rev (s.take i).reverse
  rw [List.reverse_reverse] at this
  exact this

theorem litEnd_spec (q : UInt8) : ∀ (s : Bytes) (esc : Bool),
    match litEnd q esc s with
    | some n => s[n]? = some q ∧ escAfter esc (s.take n) = false ∧
        ∀ i, i < n → ¬(s[i]? = some q ∧ escAfter esc (s.take i) = false)
    | none => ∀ i, ¬(s[i]? = some q ∧ escAfter esc (s.take i) = false)
  | [], esc => by simp [litEnd]
  | c :: r, esc => by
    have ih := litEnd_spec q r (c == 92 && !esc)
    simp only [litEnd]
    have hstep : ∀ i, escAfter esc ((c :: r).take (i + 1)) = escAfter (c == 92 && !esc) (r.take i) := by
      intro i; simp [escAfter]
    by_cases hc : (c == q && !esc) = true
    · rw [if_pos hc]
      simp only [Bool.and_eq_true, beq_iff_eq, Bool.not_eq_true'] at hc
      simp [hc.1, hc.2, escAfter]
    · rw [if_neg hc]
      have h0 : ¬((c :: r)[0]? = some q ∧ escAfter esc ((c :: r).take 0) = false) := by
        simp only [List.getElem?_cons_zero, Option.some.injEq, List.take_zero, escAfter, List.foldl_nil]
        intro h; apply hc; simp [h.1, h.2]
      cases hl : litEnd q (c == 92 && !esc) r with
      | none =>
        rw [hl] at ih
        simp only [Option.map_none]
        intro i
        cases i with
        | zero => exact h0
        | succ j => rw [hstep, List.getElem?_cons_succ]; exact ih j
      | some m =>
        rw [hl] at ih
        simp only [Option.map_some]
        refine ⟨by rw [List.getElem?_cons_succ]; exact ih.1, by rw [hstep]; exact ih.2.1, ?_⟩
        intro i hi
        cases i with
        | zero => exact h0
        | succ j => rw [hstep, List.getElem?_cons_succ]; exact ih.2.2 j (by omega)

/-- `litEnd` in the words of the repaired Go code: the first index that holds the delimiter and is not
    `escapedAt`; `none` iff there is no such index. -/
theorem C08_literal_end_is_first_quote_not_escapedAt (q : UInt8) (s : Bytes) :
    match litEnd q false s with
    | some n => s[n]? = some q ∧ escapedAt s n = false ∧ ∀ i, i < n → ¬(s[i]? = some q ∧ escapedAt s i = false)
    | none => ∀ i, ¬(s[i]? = some q ∧ escapedAt s i = false) := by
  have h := litEnd_spec q s false
  simp only [escAfter_eq_escapedAt] at h
  exact h

/-- Writing a value `v` as a literal — a backslash in front of every backslash, every delimiter and whatever else
    of the class `P` one likes to escape (the other quote, braces; not `n`, `r`, `t`) — and reading it back: the
    literal ends exactly at its last byte however many backslashes `v` ends in (`'\\'`, `'a\\'`), the token carries
    the spelling, `processEscapeSequences` of it is `v`, and lexing continues with whatever follows.
    All byte strings `v`, both quote kinds. -/
theorem C08_quote_after_escaped_backslash_closes (q : UInt8) (hq : q = 34 ∨ q = 39) (P : UInt8 → Bool)
    (hP : EscClass q P) (v next : Bytes) :
    lexExpr (q :: escapeWith P v ++ q :: next) = tk STRING (escapeWith P v) :: lexExpr next ∧
    unescapeStr (escapeWith P v) = v := by
  have h92 : (q == 92) = false := by rcases hq with rfl | rfl <;> decide
  refine ⟨?_, unescape_escapeWith P hP.1 hP.2.2.1 hP.2.2.2.1 hP.2.2.2.2 v⟩
  have h := C08_literal_ends_at_first_unescaped_quote q hq (escapeWith P v ++ q :: next)
  rw [litEnd_escapeWith q P h92 hP.1 hP.2.1 next v] at h
  simpa using h

/-- every STRING token is an operand spelling of the string its escapes denote (so `C08_parse_spelling` accepts
    literals with escapes as operands of every operator) -/
theorem C08_escaped_literal_operand (s : Bytes) : SimpleOk (.str (unescapeStr s)) [tk STRING s] := by
  apply simpleOk_single
  intro rest _ f hf
  obtain ⟨g, rfl⟩ : ∃ g, f = g + 1 := ⟨f - 1, by omega⟩
  rw [parseSimple.eq_def]
  simp [tk, isName, NAME, OPERATOR, STRING, pure, Except.pure]

/-- bytes → tokens → tree: the literal written from `v` is the string constant `v` -/
theorem C08_string_literal_round_trip (q : UInt8) (hq : q = 34 ∨ q = 39) (P : UInt8 → Bool)
    (hP : EscClass q P) (v : Bytes) :
    parseExpression (exprFuel (lexExpr (q :: escapeWith P v ++ [q]))) (lexExpr (q :: escapeWith P v ++ [q])) =
      .ok (.str v, []) := by
  have h := C08_quote_after_escaped_backslash_closes q hq P hP v []
  have hnil : lexExpr [] = [] := by decide
  rw [h.1, hnil]
  have hs := C08_escaped_literal_operand (escapeWith P v)
  rw [h.2] at hs
  have := (C08_parse_spelling (rest := []) (Spells.simple (p := 1) hs) rfl).1
  simpa using this

/-- two literals around any binary operator, e.g. `'a\\' ~ 'b'` -/
theorem C08_escaped_literals_around_operator (o : BinOp) (s1 s2 : Bytes) (rest : List Token) (hs : Stop rest = true) :
    parseExpression (exprFuel ((([tk STRING s1] ++ opToks o) ++ [tk STRING s2]) ++ rest))
        ((([tk STRING s1] ++ opToks o) ++ [tk STRING s2]) ++ rest) =
      .ok (.binary o (.str (unescapeStr s1)) (.str (unescapeStr s2)), rest) :=
  (C08_parse_spelling (Spells.bin (p := 1) (by cases o <;> decide) (.simple (C08_escaped_literal_operand s1))
    (.simple (C08_escaped_literal_operand s2))) hs).1

theorem C08_escape_classes :
    EscClass 39 (fun c => c == 92 || c == 39) ∧ EscClass 34 (fun c => c == 92 || c == 34) ∧
    EscClass 39 (fun c => c == 92 || c == 39 || c == 34) ∧ EscClass 34 (fun c => c == 92 || c == 39 || c == 34) ∧
    EscClass 39 (fun c => c == 92 || c == 39 || c == 34 || c == 123 || c == 125) ∧
    EscClass 34 (fun c => c == 92 || c == 39 || c == 34 || c == 123 || c == 125) := by
  refine ⟨?_, ?_, ?_, ?_, ?_, ?_⟩ <;> (unfold EscClass; decide)

section Examples

private def i (n : Int) : Expr := .int n
private def v (s : String) : Expr := .var (b s)

/-- `1 + 2 * 3 - 4` -/
private def ex1 : Expr := .binary .sub (.binary .add (i 1) (.binary .mul (i 2) (i 3))) (i 4)
/-- `a or b and not c == d` -/
private def ex2 : Expr := .binary .or (v "a") (.binary .and (v "b") (.binary .eq (.unary .not (v "c")) (v "d")))
/-- `(1 + 2) * -x ^ 2 ~ "s" not in y` (parentheses required on the left; prefix minus; two-word operator) -/
private def ex3 : Expr :=
  .binary .notIn (.binary .concat (.binary .mul (.binary .add (i 1) (i 2)) (.binary .pow (.unary .neg (v "x")) (i 2)))
    (.str (b "s"))) (v "y")

/-- `x is defined and y is not empty ? a + 1 : b ? c : (d ? 1 : 2) * 3` -/
private def ex4 : Expr :=
  .cond (.binary .and (.test (v "x") (b "defined") []) (.unary .not (.test (v "y") (b "empty") [])))
    (.binary .add (v "a") (i 1))
    (.cond (v "b") (v "c") (.binary .mul (.cond (v "d") (i 1) (i 2)) (i 3)))

example : WfE ex1 = true ∧ WfE ex2 = true ∧ WfE ex3 = true ∧ WfE ex4 = true := by decide +kernel
example : printMin ex4 = lexExpr (b "x is defined and not (y is empty) ? a + 1 : b ? c : (d ? 1 : 2) * 3") := by decide +kernel
example : parseExpression (exprFuel (printMin ex4)) (printMin ex4) = .ok (ex4, []) := by
  have := C08_parse_printMin ex4 (by decide +kernel) [] rfl
  simpa using this
example : printFull ex4 =
    lexExpr (b "(((x is defined) and (not (y is empty))) ? (a + 1) : (b ? c : ((d ? 1 : 2) * 3)))") := by decide +kernel
-- `is not` is an admissible spelling of `not (… is …)`: the parser returns the same tree
example : parseExpression (exprFuel (lexExpr (b "y is not empty"))) (lexExpr (b "y is not empty")) =
    .ok (.unary .not (.test (v "y") (b "empty") []), []) := by with_unfolding_all rfl
example : parseExpression (exprFuel (lexExpr (b "not (y is empty)"))) (lexExpr (b "not (y is empty)")) =
    .ok (.unary .not (.test (v "y") (b "empty") []), []) := by with_unfolding_all rfl
-- the printed forms are what one would write
example : printMin ex1 = lexExpr (b "1 + 2 * 3 - 4") := by decide +kernel
example : printFull ex1 = lexExpr (b "((1 + (2 * 3)) - 4)") := by decide +kernel
example : printMin ex2 = lexExpr (b "a or b and not c == d") := by decide +kernel
example : printFull ex2 = lexExpr (b "(a or (b and ((not c) == d)))") := by decide +kernel
example : printMin ex3 = lexExpr (b "(1 + 2) * -x ^ 2 ~ \"s\" not in y") := by decide +kernel
-- contexts
example : Stop [] = true ∧ Stop [tk VAR_END] = true ∧ Stop [tk BLOCK_END] = true ∧ Stop [tk PUNCT [41]] = true ∧
    Stop [tk PUNCT [44], tk NAME (b "x")] = true ∧ Stop [tk PUNCT [63]] = false ∧ Stop [tk OPERATOR [43]] = false := by
  decide +kernel
-- instances of the round trip (closed evaluation of the model parser; agrees with the theorems)
example : parseExpression (exprFuel (printMin ex1 ++ [tk VAR_END])) (printMin ex1 ++ [tk VAR_END]) = .ok (ex1, [tk VAR_END]) :=
  C08_parse_printMin ex1 (by decide +kernel) _ (by decide +kernel)
example : parseExpression (exprFuel (lexExpr (b "1 + 2 * 3 - 4"))) (lexExpr (b "1 + 2 * 3 - 4")) = .ok (ex1, []) := by
  with_unfolding_all rfl
example : parseExpression (exprFuel (lexExpr (b "a or b and not c == d"))) (lexExpr (b "a or b and not c == d")) = .ok (ex2, []) := by
  with_unfolding_all rfl
-- atoms
example : AtomOk (v "x") [tk NAME (b "x")] := (simpleOk_var (by decide +kernel)).atomOk
example : AtomOk (v "and") [tk NAME (b "and")] := (simpleOk_var (by decide +kernel)).atomOk   -- operator words are variables in operand position
example : AtomOk (.int (digitsToNat (b "42"))) [tk NUMBER (b "42")] ∧ digitsToNat (b "42") = 42 :=
  ⟨(simpleOk_int (by decide +kernel) (by decide +kernel)).atomOk, by decide +kernel⟩
example : AtomOk (.int (digitsToNat (b "0042"))) [tk NUMBER (b "0042")] ∧ digitsToNat (b "0042") = 42 :=   -- leading zeros
  ⟨(simpleOk_int (by decide +kernel) (by decide +kernel)).atomOk, by decide +kernel⟩
example : AtomOk ex1 (lp :: prMin 1 ex1 ++ [rp]) := atomOk_paren (spells_prMin ex1 1 (Nat.le_refl _) (by decide +kernel))
-- left association, precedence, parentheses: `8 - 3 - 2`, `1 + 2 * 3`, `(1 + 2) * 3` / `1 + (2 * 3)`
example : parseExpression (exprFuel (lexExpr (b "8 - 3 - 2"))) (lexExpr (b "8 - 3 - 2")) =
    .ok (.binary .sub (.binary .sub (i 8) (i 3)) (i 2), []) := by with_unfolding_all rfl
example : parseExpression (exprFuel (lexExpr (b "2 ^ 3 ^ 2"))) (lexExpr (b "2 ^ 3 ^ 2")) =
    .ok (.binary .pow (.binary .pow (i 2) (i 3)) (i 2), []) := by with_unfolding_all rfl   -- `^` groups from the left too
-- regression instances of the pinned-tree defects (DESIGN §1.2): they hold in the repaired model
example : parseExpression (exprFuel (lexExpr (b "1 + 2 * 3 * 4"))) (lexExpr (b "1 + 2 * 3 * 4")) =
    .ok (.binary .add (i 1) (.binary .mul (.binary .mul (i 2) (i 3)) (i 4)), []) := by with_unfolding_all rfl
example : parseExpression (exprFuel (lexExpr (b "1 + 2 < 4 and 2 * 2 == 4"))) (lexExpr (b "1 + 2 < 4 and 2 * 2 == 4")) =
    .ok (.binary .and (.binary .lt (.binary .add (i 1) (i 2)) (i 4)) (.binary .eq (.binary .mul (i 2) (i 2)) (i 4)), []) := by
  with_unfolding_all rfl
example : parseExpression (exprFuel (lexExpr (b "(-a + b)"))) (lexExpr (b "(-a + b)")) =
    .ok (.binary .add (.unary .neg (v "a")) (v "b"), []) := by with_unfolding_all rfl
-- a subscript binds tighter than a prefix operator: instances of the theorem's hypotheses and conclusion
example : parseSimple 9 (unTok .neg :: ([tk NAME (b "xs")] ++ lbTok :: ([tk NUMBER (b "1")] ++ rbTok :: []))) =
    .ok (.unary .neg (.item (v "xs") (i 1)), []) :=
  (C08_subscript_binds_tighter_than_prefix .neg (fe := 2) (fi := 4) (by with_unfolding_all rfl) (by with_unfolding_all rfl) rfl).1 9
    (by decide)
example : unTok .neg :: ([tk NAME (b "xs")] ++ lbTok :: ([tk NUMBER (b "1")] ++ rbTok :: [])) = lexExpr (b "-xs[1]") := by
  decide +kernel
example : NoSubscript (lexExpr (b "|abs")) = true ∧ NoSubscript (lexExpr (b "+ 1")) = true ∧ NoSubscript [tk VAR_END] = true ∧
    NoSubscript (lexExpr (b "[0]")) = false := by decide +kernel
example : parseExpression (exprFuel (lexExpr (b "-xs[1]"))) (lexExpr (b "-xs[1]")) = .ok (.unary .neg (.item (v "xs") (i 1)), []) := by
  with_unfolding_all rfl
example : parseExpression (exprFuel (lexExpr (b "not xs[1]"))) (lexExpr (b "not xs[1]")) = .ok (.unary .not (.item (v "xs") (i 1)), []) := by
  with_unfolding_all rfl
example : parseExpression (exprFuel (lexExpr (b "-xs[1]|abs"))) (lexExpr (b "-xs[1]|abs")) =
    .ok (.filter (.unary .neg (.item (v "xs") (i 1))) (b "abs") [], []) := by with_unfolding_all rfl
example : parseExpression (exprFuel (lexExpr (b "-x|abs"))) (lexExpr (b "-x|abs")) =
    .ok (.filter (.unary .neg (v "x")) (b "abs") [], []) := by with_unfolding_all rfl
example : parseExpression (exprFuel (lexExpr (b "- -xs[0]"))) (lexExpr (b "- -xs[0]")) =
    .ok (.unary .neg (.unary .neg (.item (v "xs") (i 0))), []) := by with_unfolding_all rfl
example : parseExpression (exprFuel (lexExpr (b "-ys[0][1]"))) (lexExpr (b "-ys[0][1]")) =
    .ok (.unary .neg (.item (.item (v "ys") (i 0)) (i 1)), []) := by with_unfolding_all rfl
example : parseExpression (exprFuel (lexExpr (b "-m.k[1]"))) (lexExpr (b "-m.k[1]")) =
    .ok (.unary .neg (.item (.attr (v "m") (b "k")) (i 1)), []) := by with_unfolding_all rfl
example : parseExpression (exprFuel (lexExpr (b "-xs[1"))) (lexExpr (b "-xs[1")) =
    perr "expected closing bracket after array index" := by with_unfolding_all rfl

/-- parse `src` as template `main` and render it through the whole pipeline (`parseTemplate`, `renderTop`): the
    output, or `none` on any failure (the helper of C09's examples) -/
private def renderDemo (src : String) (vars : List (Bytes × Val) := []) : Option Bytes :=
  match parseTemplate (b src) with
  | .ok nodes =>
    match renderTop { tpls := [(b "main", nodes)] } (b "main") vars with
    | .ok (o, _) => some o
    | .error _ => none
  | .error _ => none

private def xsV : List (Bytes × Val) :=
  [(b "xs", .list [.int 3, .int 8, .int 0]), (b "ys", .list [.list [.int 5, .int 7], .list [.int 0, .int 2]]), (b "x", .int 4)]

-- whole pipeline (lexer, template parser, expression parser, evaluator, output): on the unrepaired parser each of the
-- first six printed nothing
example : renderDemo "{{ -xs[1] }}" xsV = some (b "-8") := by decide +kernel
example : renderDemo "{{ not xs[1] }}|{{ not xs[2] }}" xsV = some (b "false|true") := by decide +kernel
example : renderDemo "{{ +xs[1] }}" xsV = some (b "8") := by decide +kernel
example : renderDemo "{{ 5 + -xs[1] }}" xsV = some (b "-3") := by decide +kernel
example : renderDemo "{{ -xs[1]|abs }}" xsV = some (b "8") := by decide +kernel
example : renderDemo "{{ - -xs[0] }}" xsV = some (b "3") := by decide +kernel
example : renderDemo "{{ -ys[0][1] }}" xsV = some (b "-7") := by decide +kernel
example : renderDemo "{{ -x|abs }}" xsV = some (b "4") := by decide +kernel                 -- unchanged: `(-x)|abs`
example : renderDemo "{{ -xs[x - 3] * 2 }}|{{ -xs[1] < 0 ? 'neg' : 'pos' }}" xsV = some (b "-16|neg") := by decide +kernel
example : renderDemo "{% if not xs[2] %}zero{% endif %}{% set n = -xs[0] %}{{ n }}" xsV = some (b "zero-3") := by decide +kernel
-- string literals: a quote behind an escaped backslash ends the literal. On the lexer before the repair (escaped iff
-- the previous byte is a backslash) the first three, the sixth to tenth were parse errors.
example : renderDemo "{{ '\\\\' }}" = some [92] := by decide +kernel                       -- the template {{ '\\' }}: one backslash
example : renderDemo "{{ 'a\\\\' }}" = some [97, 92] := by decide +kernel
example : renderDemo "{{ \"\\\\\" }}" = some [92] := by decide +kernel
example : renderDemo "{{ 'a\\'b' }}" = some (b "a'b") := by decide +kernel                -- unchanged: the quote is escaped
example : renderDemo "{{ 'a\\\\\\'b' }}" = some [97, 92, 39, 98] := by decide +kernel        -- three backslashes: escaped again
example : renderDemo "{{ '\\\\\\\\' }}" = some [92, 92] := by decide +kernel
example : renderDemo "{{ 'a\\\\' ~ 'b' }}" = some [97, 92, 98] := by decide +kernel
example : renderDemo "{% set v = '\\\\' %}{{ v }}" = some [92] := by decide +kernel
example : renderDemo "{% macro m(p, q = '\\\\') %}{{ p }}{{ q }}{% endmacro %}{{ m(1) }}" = some [49, 92] := by decide +kernel
example : renderDemo "{{ {'\\\\': 'x\\\\'}['\\\\'] }}|{{ ['\\\\', \"\\\\\"]|join('\\\\') }}" = some [120, 92, 124, 92, 92, 92] := by decide +kernel
example : renderDemo "{{ 'a\\' }}" = none := by decide +kernel                              -- a lone backslash still escapes the quote
example : renderDemo "{{ \\\\'a' }}" = some (b "a") ∧ renderDemo "{{ \\'a' }}" = some [] := by decide +kernel  -- backslashes outside a literal count too
example : lexExpr (b "'a\\\\' ~ 'b'") = [tk STRING [97, 92, 92], tk OPERATOR [126], tk STRING [98]] := by decide +kernel
example : litEnd 39 false (b "a\\\\' ~ 'b'") = some 3 ∧ litEnd 39 false (b "a\\'b' ~ 'c'") = some 4 ∧ litEnd 39 false (b "a\\") = none ∧
    litEnd 39 false (b "a\\'") = none ∧ litEnd 34 false (b "a'\\\"\\\\\"") = some 6 := by decide +kernel
example : escapedAt (b "a\\\\'") 3 = false ∧ escapedAt (b "a\\'") 2 = true ∧ escapedAt (b "\\\\\\'") 3 = true ∧ escapedAt (b "'") 0 = false := by
  decide +kernel
example : escapeBytes 39 [92] = [92, 92] ∧ escapeBytes 39 (b "a'b\\") = b "a\\'b\\\\" ∧ escapeBytes 34 (b "a'b") = b "a'b" ∧
    escapeWith (fun c => c == 92 || c == 39 || c == 34 || c == 123 || c == 125) (b "{'}") = b "\\{\\'\\}" := by decide +kernel
example : lexExpr (39 :: escapeBytes 39 [97, 92] ++ 39 :: b " ~ x") = tk STRING [97, 92, 92] :: lexExpr (b " ~ x") :=
  (C08_quote_after_escaped_backslash_closes 39 (Or.inr rfl) _ C08_escape_classes.1 [97, 92] (b " ~ x")).1
-- spacing: irregular but separating whitespace; fusing neighbours are rejected by `Separated`
example : Separated (printMin ex1) [[], [], [32, 9], [32], [10], [], [], [32, 32]] = true := by decide +kernel
example : spellToks (printMin ex1) [[], [], [32, 9], [32], [10], [], [], [32, 32]] = b "1+ \t2 *\n3-4  " := by decide +kernel
example : Separated [tk NAME (b "a"), tk NAME (b "b")] [] = false ∧
    lexExpr (spellToks [tk NAME (b "a"), tk NAME (b "b")] []) = [tk NAME (b "ab")] := by decide +kernel
example : Separated [tk OPERATOR [60], tk OPERATOR [61]] [] = false ∧ Separated [tk OPERATOR [60], tk OPERATOR [61]] [[], [32]] = true ∧
    Separated [tk NUMBER (b "1"), tk PUNCT [46]] [] = false ∧ Separated [tk NAME (b "x"), tk NUMBER (b "1")] [] = false ∧
    Separated [tk NUMBER (b "1"), tk NAME (b "x")] [] = true := by decide +kernel
example : Spaced (printMin ex2) (List.replicate 20 [32, 10]) = true := by decide +kernel
-- arithmetic at the edge of the exact range
example : inRange (9007199254740991 + 1) = true ∧ inRange (9007199254740992 + 1) = false ∧
    inRange (-9007199254740992) = true ∧ (7 : Int) % 7 = 0 ∧ Int.tmod (-7) 3 = -1 := by decide
example : binop .mod (.int (-7)) (.int 3) = .ok (.int (-1)) := (C08_arith_exact (-7) 3).2.2.2.2.1 (by decide) (by decide)
-- short circuit with a right operand whose evaluation always fails
example (E : Env) (st : St) : evalX E true (.binary .and (.bool false) (.unsup "boom")) st = .ok ((.bool false, []), st) :=
  C08_short_circuit_and E st st _ _ (.bool false) [] rfl rfl
example (E : Env) (st : St) : evalX E true (.binary .or (i 1) (.unsup "boom")) st = .ok ((.bool true, []), st) :=
  C08_short_circuit_or E st st _ _ (.int 1) [] rfl rfl
example (E : Env) (st : St) : evalX E true (.cond (.bool true) (i 1) (.unsup "boom")) st = .ok ((.int 1, []), st) := by
  rw [C08_cond_one_branch E st st _ _ _ (.bool true) [] rfl]; rfl
-- regression instance for the tie: a table with two precedences swapped is rejected
example : ({ currentFacts with table := currentFacts.table.map fun e =>
      if e.1 == "+" then ("+", 5) else if e.1 == "*" then ("*", 4) else e } : PrecFacts).ok = false := by decide +kernel

end Examples

end Twig
