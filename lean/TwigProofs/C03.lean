/-
  C03 — output is a deterministic function of templates and context: independent of Go's map
  iteration order, of the order in which map entries were inserted, and of addresses.

  Shape of the argument.
  * G: the extractor lists every iteration over a Go map in package twig with the loop schema its body
    matches (`TwigGen.MapRanges.current`) and the table/algorithm of `convertDateFormat`
    (`TwigGen.DateFmt.current`).
  * Every schema has a permutation-invariance lemma, for all key/value types, maps and orders
    (TwigProofs/Lemmas/MapOrder.lean).  `SchemaSem` collects them as propositions;
    `C03_sites_order_independent` says that every extracted site is covered by one of them or is
    on the allow-list of unobservable sites (written justification in `MapRanges.allowList`).
  * After the repairs 4cfb654 (hash literal in source order), 2cbbaa1 + 5b1997c (sortedMapKeys breaks ties
    of the printed form by %T and %#v), 43314f9 (merge visits sortedMapKeys), c0e7993 (NaN keys first) the
    only site that is not unconditionally order independent is `sortedMapKeys` itself: a hand-written
    comparator decides, and it cannot tell apart two pointers to equal composites (known finding
    `pointer-key-equal-content`).  Following the ground rules the full-strength theorem stays
    (`C03_sites_order_independent`, hypothesis `okStrict`), `C03_open_sites_current` says that exactly this
    one site separates the current facts from `okStrict`, the `_partial` theorem carries the exclusion, and
    `C03_sorted_keys_counterexample` is the witness.  Everything else is full strength:
    `C03_sorted_keys_total_order` (int/uint/float-with-NaN/string keys), `C03_hash_literal_last_wins`,
    `C03_merge_sorted`, `C03_insertion_order`.
-/
import TwigModel.MapOrder
import TwigProofs.Lemmas.MapOrder
import TwigGen.MapRanges
import TwigGen.DateFmt
namespace Twig
open MapOrder MapRanges

/-! ## the schemas' meaning -/

namespace MapRanges

/-- what it means for a loop schema to be order independent (for unconditional schemas), resp. order
    independent under its stated side condition (for the conditional ones) -/
def SchemaSem : Schema → Prop
  | .copyAll => ∀ (κ ν : Type) [DecidableEq κ] (dst : GoMap κ ν) (o₁ o₂ : List (κ × ν)),
      o₁.Perm o₂ → UniqueKeys o₁ → copyAll dst o₁ = copyAll dst o₂
  | .deleteAll => ∀ (κ ν : Type) [DecidableEq κ] (m : GoMap κ ν) (o₁ o₂ : List (κ × ν)),
      o₁.Perm o₂ → deleteAll m o₁ = deleteAll m o₂
  | .collectThenSort => ∀ (κ ν : Type) (less : κ → κ → Bool) (sort₁ sort₂ : List κ → List κ),
      StrictTotal less → SortSpec less sort₁ → SortSpec less sort₂ → ∀ (o₁ o₂ : List (κ × ν)),
      o₁.Perm o₂ → collectThenSort sort₁ o₁ = collectThenSort sort₂ o₂
  | .anyMatch => ∀ (κ ν : Type) (p : κ × ν → Bool) (o₁ o₂ : List (κ × ν)),
      o₁.Perm o₂ → anyMatch p o₁ = anyMatch p o₂
  | .minKey => ∀ (κ ν : Type) (lt : κ → κ → Bool), StrictTotal lt → ∀ (o₁ o₂ : List (κ × ν)),
      o₁.Perm o₂ → minKey lt o₁ = minKey lt o₂
  | .uniformStore => ∀ (κ ν α β : Type) [DecidableEq α] (addr : ν → α) (c : β) (heap : α → β)
      (o₁ o₂ : List (κ × ν)), o₁.Perm o₂ → uniformStore addr c heap o₁ = uniformStore addr c heap o₂
  | .evalCopyAll => ∀ (κ ν ν' ε : Type) [DecidableEq κ] (ev : ν → Except ε ν') (dst : GoMap κ ν')
      (o₁ o₂ : List (κ × ν)), o₁.Perm o₂ → UniqueKeys o₁ →
      (evalCopyAll ev dst o₁).toOption = (evalCopyAll ev dst o₂).toOption
  -- conditional schemas: the side condition is part of the statement
  | .keyedCopy => ∀ (κ ν κ' ν' : Type) [DecidableEq κ'] (g : κ → κ') (h : κ → ν → ν') (dst : GoMap κ' ν')
      (o₁ o₂ : List (κ × ν)), o₁.Perm o₂ → (o₁.map fun e => g e.1).Nodup →
      keyedCopy g h dst o₁ = keyedCopy g h dst o₂
  | .evalKeyedCopy => ∀ (κ ν κ' ν' ε : Type) [DecidableEq κ'] (ev : κ × ν → Except ε (κ' × ν'))
      (dst : GoMap κ' ν') (o₁ o₂ : List (κ × ν)), o₁.Perm o₂ → UniqueKeys (okVals ev o₁) →
      (evalKeyedCopy ev dst o₁).toOption = (evalKeyedCopy ev dst o₂).toOption
  | .collectSortBy => ∀ (κ ν : Type) (less : κ → κ → Bool) (sort₁ sort₂ : List κ → List κ),
      SortSpec less sort₁ → SortSpec less sort₂ → ∀ (o₁ o₂ : List (κ × ν)), o₁.Perm o₂ →
      (∀ a ∈ o₁.map Prod.fst, ∀ c ∈ o₁.map Prod.fst, less c a = false → less a c = false → a = c) →
      collectThenSort sort₁ o₁ = collectThenSort sort₂ o₂
  | .guardedFallback => False
  | .orderSensitive => False
  | .unknown => False

theorem collectSortBy_sem (κ ν : Type) (less : κ → κ → Bool) (sort₁ sort₂ : List κ → List κ)
    (hs₁ : SortSpec less sort₁) (hs₂ : SortSpec less sort₂) (o₁ o₂ : List (κ × ν)) (hp : o₁.Perm o₂)
    (hconn : ∀ a ∈ o₁.map Prod.fst, ∀ c ∈ o₁.map Prod.fst, less c a = false → less a c = false → a = c) :
    collectThenSort sort₁ o₁ = collectThenSort sort₂ o₂ := by
  unfold collectThenSort
  obtain ⟨p₁, s₁⟩ := hs₁ (o₁.map Prod.fst)
  obtain ⟨p₂, s₂⟩ := hs₂ (o₂.map Prod.fst)
  exact sorted_unique (κ := κ) less (o₁.map Prod.fst) _ _ hconn s₁ s₂ p₁ (p₂.trans (hp.map _).symm)

/-- every schema the facts predicate accepts has its lemma -/
theorem schemaSem_of_invariant (s : Schema) (h : s.invariant = true) : SchemaSem s := by
  cases s <;> simp [Schema.invariant] at h
  · intro κ ν _ dst o₁ o₂ hp hu; exact schema_copyAll_perm dst o₁ o₂ hp hu
  · intro κ ν _ m o₁ o₂ hp; exact schema_deleteAll_perm m o₁ o₂ hp
  · intro κ ν less sort₁ sort₂ hlt hs₁ hs₂ o₁ o₂ hp
    exact collectSortBy_sem κ ν less sort₁ sort₂ hs₁ hs₂ o₁ o₂ hp
      (fun a _ c _ h₁ h₂ => hlt.connected a c h₂ h₁)
  · intro κ ν p o₁ o₂ hp
    exact schema_anyMatch_perm (κ := κ) p o₁ o₂ hp
  · intro κ ν lt hlt o₁ o₂ hp
    exact schema_minKey_perm (κ := κ) lt hlt o₁ o₂ hp
  · intro κ ν α β _ addr c heap o₁ o₂ hp
    exact schema_uniformStore_perm (κ := κ) addr c heap o₁ o₂ hp
  · intro κ ν ν' ε _ ev dst o₁ o₂ hp hu; exact schema_evalCopyAll_perm ev dst o₁ o₂ hp hu

theorem schemaSem_of_conditional (s : Schema) (h : s.conditional = true) : SchemaSem s := by
  cases s <;> simp [Schema.conditional] at h
  · exact collectSortBy_sem
  · intro κ ν κ' ν' _ g h dst o₁ o₂ hp hinj
    exact schema_keyedCopy_perm (κ := κ) g h dst o₁ o₂ hp hinj
  · intro κ ν κ' ν' ε _ ev dst o₁ o₂ hp hinj
    exact schema_evalKeyedCopy_perm (κ := κ) ev dst o₁ o₂ hp hinj

end MapRanges

/-! ## the sites -/

/-- **C03, map iteration (full strength).** If the extracted facts pass `okStrict`, every iteration over a
    Go map in package twig either matches a schema whose result is the same for every iteration order
    (for all maps, key and value types), or is one of the allow-listed sites that cannot reach rendered
    output.  On the current tree `okStrict` fails at exactly one site, `sortedMapKeys#0`
    (`C03_open_sites_current`): see the `_partial` theorem and `C03_sorted_keys_counterexample`. -/
theorem C03_sites_order_independent (F : List RawSite) (hF : MapRanges.okStrict F = true) :
    ∀ s ∈ F, ((Schema.ofString s.schema).invariant = true ∧ SchemaSem (Schema.ofString s.schema))
      ∨ listed allowList s = true := by
  intro s hs
  have h := List.all_eq_true.mp hF s hs
  unfold siteStrict at h
  rcases Bool.or_eq_true _ _ |>.mp h with h | h
  · exact Or.inl ⟨h, schemaSem_of_invariant _ h⟩
  · exact Or.inr h

/-- **C03, map iteration (with the recorded exclusions).** Under `MapRanges.ok` every site is
    unconditionally order independent, allow-listed as unobservable, or matches a conditional schema —
    order independent whenever the side condition written in `SchemaSem` holds (transformed/evaluated
    keys pairwise distinct; comparator connected on the keys) — and is then listed in
    `MapRanges.conditionalList` with its exclusion. -/
theorem C03_sites_order_independent_partial (F : List RawSite) (hF : MapRanges.ok F = true) :
    ∀ s ∈ F, ((Schema.ofString s.schema).invariant = true ∧ SchemaSem (Schema.ofString s.schema))
      ∨ listed allowList s = true
      ∨ ((Schema.ofString s.schema).conditional = true ∧ SchemaSem (Schema.ofString s.schema)
          ∧ listed conditionalList s = true) := by
  intro s hs
  have h := List.all_eq_true.mp hF s hs
  unfold siteOk siteStrict at h
  rcases Bool.or_eq_true _ _ |>.mp h with h | h
  · rcases Bool.or_eq_true _ _ |>.mp h with h | h
    · exact Or.inl ⟨h, schemaSem_of_invariant _ h⟩
    · exact Or.inr (Or.inl h)
  · have h' := Bool.and_eq_true _ _ |>.mp h
    exact Or.inr (Or.inr ⟨h'.1, schemaSem_of_conditional _ h'.1, h'.2⟩)

/-- the facts extracted from the working tree satisfy the predicate (one recorded exclusion) -/
theorem C03_facts_current : MapRanges.ok TwigGen.MapRanges.current = true := by decide

/-- … and `sortedMapKeys#0` is the only site that keeps them from the full-strength predicate: the three
    sites repaired since the first delivery (hash literal, the two `merge()` loops) are no longer open -/
theorem C03_open_sites_current :
    (TwigGen.MapRanges.current.filter fun s => !siteStrict s).map (fun s => (s.func, s.ordinal))
      = [("sortedMapKeys", 0)] := by decide

/-- the comparator the extractor found in `sortedMapKeys` is the one modelled by `keyLess`
    (int, uint, float with NaN first, string; else fmt.Sprint, then %T, then %#v) -/
theorem C03_sortcmp_current :
    MapRanges.sortCmpOk TwigGen.MapRanges.sortKeyCases TwigGen.MapRanges.sortKeyFallback = true := by decide

/-- for-loop, `first`, `keys` and both `merge()` loops consume the slice `sortedMapKeys` returns as it is -/
theorem C03_sorted_uses_current :
    MapRanges.sortedUsesOk TwigGen.MapRanges.sortKeyFunc TwigGen.MapRanges.sortedKeyUses = true
      ∧ TwigGen.MapRanges.sortedKeyUses.length = 5 := by decide

/-- every hash node the parser builds carries an order slice filled in step with its items, so the
    `guardedFallback` range in `EvaluateExpression` is not taken for template source (allow-list entry) -/
theorem C03_hash_builders_current :
    MapRanges.hashOk TwigGen.MapRanges.hashBuilders TwigGen.MapRanges.hashNoOrderReach = true
      ∧ TwigGen.MapRanges.hashBuilders.any (fun b => b.2.1 == "inStep") = true := by decide

/-- non-vacuity: the predicate accepts a non-trivial table and rejects order-sensitive rows; the four
    rows are what the extractor reports for the pinned tree's defects (regression instance) -/
example : MapRanges.okStrict [("render.go", "NewRenderContext", 4, "range", "map[string]interface{}", "copyAll", "")] = true := by decide
example : MapRanges.ok [
    ("extension.go", "convertDateFormat", 0, "range", "map[string]string", "orderSensitive", ""),
    ("extension.go", "CoreExtension.filterFirst", 1, "MapKeys", "reflect:rv", "orderSensitive", ""),
    ("extension.go", "CoreExtension.filterKeys", 1, "MapKeys", "reflect:rv", "orderSensitive", ""),
    ("node.go", "ForNode.renderForLoop", 0, "MapKeys", "reflect:val", "orderSensitive", "")] = false := by decide
example : MapRanges.ok [("x.go", "f", 0, "range", "map[string]int", "unknown", "")] = false := by decide
/-- regression: the rows of the three sites as they were before 4cfb654 / 43314f9 (conditional schemas,
    formerly excluded by name) are rejected now, each of them -/
example : MapRanges.ok [("extension.go", "CoreExtension.functionMerge", 1, "MapKeys", "reflect:baseRv", "keyedCopy", "")] = false := by decide
example : MapRanges.ok [("extension.go", "CoreExtension.functionMerge", 3, "MapKeys", "reflect:argRv", "keyedCopy", "")] = false := by decide
example : MapRanges.ok [("render.go", "RenderContext.EvaluateExpression", 0, "range", "map[Node]Node", "evalKeyedCopy", "")] = false := by decide
/-- … and so is the unguarded form of the hash-literal fallback, and a comparator without the tie-breaks -/
example : MapRanges.ok [("render.go", "RenderContext.EvaluateExpression", 0, "range", "map[Node]Node", "orderSensitive", "")] = false := by decide
example : MapRanges.sortCmpOk TwigGen.MapRanges.sortKeyCases "fmt.Sprint" = false := by decide
example : MapRanges.hashOk [("Parser.parseMapExpression", "notInStep", "")] [] = false := by decide
example : MapRanges.hashOk [("GetHashNode", "noOrder", "")] ["GetHashNode", "Parser.parseMapExpression"] = false := by decide

/-! ## the conditional schemas really are conditional (regression: why the `keyedCopy` / `evalKeyedCopy`
    sites had to go; no site of the current tree uses these schemas) -/

/-- keyedCopy with colliding transformed keys: `merge(m, …)` on `map[interface{}]…{1: "a", "1": "b"}`
    stored both entries under the string key "1" while ranging `MapKeys`; the two visiting orders leave
    different values.  (Before 43314f9.) -/
theorem C03_keyedCopy_counterexample :
    keyedCopy (κ := Nat) (ν := Nat) (κ' := Nat) (fun _ => 1) (fun _ v => v) GoMap.empty [(10, 100), (11, 200)] 1
      ≠ keyedCopy (fun _ => 1) (fun _ v => v) GoMap.empty [(11, 200), (10, 100)] 1 := by decide

/-- evalKeyedCopy with colliding evaluated keys: the hash literal `{'a': 1, 'a': 2}` while its items were
    ranged as a Go map.  (Before 4cfb654.) -/
theorem C03_hashLiteral_counterexample :
    (evalKeyedCopy (κ := Nat) (ν := Nat) (κ' := Nat) (ν' := Nat) (ε := Unit) (fun e => .ok (0, e.2)) GoMap.empty [(0, 1), (1, 2)]).toOption.map (· 0)
      ≠ (evalKeyedCopy (κ := Nat) (ν := Nat) (κ' := Nat) (ν' := Nat) (ε := Unit) (fun e => .ok (0, e.2)) GoMap.empty [(1, 2), (0, 1)]).toOption.map (· 0) := by decide

/-! ## hash literals: source order, last duplicate wins -/

/-- **C03, hash literal.** Since 4cfb654 the items are evaluated in the order they are written (no map is
    ranged: `evalHashLiteral` has no order argument, so the result — value or error — is a function of
    the literal).  When evaluation succeeds, the entry under a key is the value of the *last* item whose
    key evaluates to it. -/
theorem C03_hash_literal_last_wins {κ ν κ' ν' ε : Type} [DecidableEq κ'] (ev : κ × ν → Except ε (κ' × ν'))
    (items : List (κ × ν)) (m : GoMap κ' ν') (h : evalHashLiteral ev items = .ok m) (k : κ') :
    m k = ((okVals ev items).reverse.find? (fun e => e.1 = k)).map Prod.snd := by
  unfold evalHashLiteral at h
  cases hall : items.all (evOk ev) with
  | false =>
    have := evalKeyedCopy_err ev items GoMap.empty hall
    rw [h] at this; simp [Except.toOption] at this
  | true =>
    rw [evalKeyedCopy_ok ev items GoMap.empty hall] at h
    cases h
    rw [copyAll_apply]
    cases (okVals ev items).reverse.find? (fun e => decide (e.1 = k)) <;> simp [GoMap.empty]

/-- instance: `{'a': 1, 'a': 2}` evaluates to a map with `a ↦ 2`; `{'a': 1, 'b': 1/0}` fails -/
example : (evalHashLiteral (κ := Nat) (ν := Nat) (κ' := Nat) (ν' := Nat) (ε := Unit) (fun e => .ok (0, e.2)) [(0, 1), (1, 2)]).toOption.map (· 0)
    = some (some 2) := by decide
example : (evalHashLiteral (κ := Nat) (ν := Nat) (κ' := Nat) (ν' := Nat) (ε := Unit)
    (fun e => if e.2 = 0 then .error () else .ok (e.1, e.2)) [(0, 1), (1, 0)]).toOption.isNone = true := by decide

/-! ## sorted keys -/

namespace MapOrder

/-- the three strings the comparator looks at for a key of a kind compared through fmt -/
def GoKey.strings : GoKey → Bytes × Bytes × Bytes
  | .other _ _ p t g => (p, t, g)
  | _ => ([], [], [])

/-- two distinct keys of a kind compared through fmt, at least one of them equal to itself (so that its
    entry can be looked up), agree on `fmt.Sprint`, `%T` and `%#v` -/
def syntaxCollision (ks : List GoKey) : Bool :=
  ks.any fun a => ks.any fun c =>
    a != c && !a.byValue && !c.byValue && (a.selfEq || c.selfEq) && a.strings == c.strings

/-- `sortedMapKeys` determines everything that can be observed of the order of these keys -/
def KeysDetermined (ks : List GoKey) : Prop :=
  ∀ a ∈ ks, ∀ c ∈ ks, keyLess c a = false → keyLess a c = false → a.obs = c.obs

theorem obs_eq_or_collide (a c : GoKey) (h : a.rank = c.rank) :
    a.obs = c.obs ∨ (a ≠ c ∧ a.byValue = false ∧ c.byValue = false ∧ (a.selfEq || c.selfEq) = true
      ∧ a.strings = c.strings) := by
  by_cases e : a = c
  · exact Or.inl (by rw [e])
  · cases ha : a.byValue <;> cases hc : c.byValue
    · -- both compared through fmt
      cases a <;> simp [GoKey.byValue] at ha
      cases c <;> simp [GoKey.byValue] at hc
      case other.other i se p t g j se' q u h' =>
        simp only [GoKey.rank, Prod.mk.injEq, true_and] at h
        obtain ⟨rfl, rfl, rfl⟩ := h
        cases se <;> cases se'
        · exact Or.inl rfl
        · exact Or.inr ⟨e, rfl, rfl, rfl, rfl⟩
        · exact Or.inr ⟨e, rfl, rfl, rfl, rfl⟩
        · exact Or.inr ⟨e, rfl, rfl, rfl, rfl⟩
    · cases a <;> cases c <;> simp [GoKey.byValue, GoKey.rank] at ha hc h
    · cases a <;> cases c <;> simp [GoKey.byValue, GoKey.rank] at ha hc h
    · exact Or.inl (obs_eq_of_rank_eq_byValue a c ha hc h)

/-- int-, uint-, float- (NaN or not) and string-keyed maps satisfy `KeysDetermined` -/
theorem keysDetermined_of_byValue (ks : List GoKey) (hv : ∀ k ∈ ks, k.byValue = true) : KeysDetermined ks :=
  fun a ha c hc hca hac => keyLess_connected_byValue a c (hv a ha) (hv c hc) hca hac

/-- any keys without a `syntaxCollision` satisfy it -/
theorem keysDetermined_of_noCollision (ks : List GoKey) (hx : syntaxCollision ks = false) : KeysDetermined ks := by
  intro a ha c hc hca hac
  rcases obs_eq_or_collide a c (rank_eq_of_tied a c hca hac) with h | ⟨hne, hav, hcv, hse, hstr⟩
  · exact h
  · exfalso
    have : syntaxCollision ks = true := by
      unfold syntaxCollision
      rw [List.any_eq_true]
      refine ⟨a, ha, ?_⟩
      rw [List.any_eq_true]
      refine ⟨c, hc, ?_⟩
      simp [hav, hcv, hstr, hne]
      simpa using hse
    rw [hx] at this; cases this

end MapOrder

/-- **sortedMapKeys determines the order** for maps whose key type is of an integer, unsigned, float or
    string kind: any two outcomes of `sort.Slice` (sorted permutations of the keys — package sort promises
    no more, it is not stable) agree on everything that can be observed of the keys, so neither the order
    in which `MapKeys` hands out the keys nor the internals of the sort can show.  `obs` forgets only which
    of several NaN keys is which: they print alike and `MapIndex` finds none of their entries (`mapIndex`). -/
theorem C03_sorted_keys_total_order (ks s₁ s₂ : List GoKey) (hv : ∀ k ∈ ks, k.byValue = true)
    (h₁ : SortedBy keyLess s₁) (h₂ : SortedBy keyLess s₂) (p₁ : s₁.Perm ks) (p₂ : s₂.Perm ks) :
    s₁.map GoKey.obs = s₂.map GoKey.obs :=
  sorted_map_unique keyLess GoKey.obs keyLess keyLess_obs ks s₁ s₂ (keysDetermined_of_byValue ks hv) h₁ h₂ p₁ p₂

/-- **any key type, with the exclusion**: the observable order is determined unless two distinct keys of a
    kind compared through fmt, not both unequal to themselves, agree on `fmt.Sprint`, `%T` and `%#v`. -/
theorem C03_sorted_keys_total_order_partial (ks s₁ s₂ : List GoKey) (hx : syntaxCollision ks = false)
    (h₁ : SortedBy keyLess s₁) (h₂ : SortedBy keyLess s₂) (p₁ : s₁.Perm ks) (p₂ : s₂.Perm ks) :
    s₁.map GoKey.obs = s₂.map GoKey.obs :=
  sorted_map_unique keyLess GoKey.obs keyLess keyLess_obs ks s₁ s₂ (keysDetermined_of_noCollision ks hx) h₁ h₂ p₁ p₂

/-- when every key is equal to itself (no NaN anywhere) "observably equal" is "equal": the sorted slice
    itself is determined -/
theorem C03_sorted_keys_total_order_exact (ks s₁ s₂ : List GoKey) (hx : syntaxCollision ks = false)
    (hs : ∀ k ∈ ks, k.selfEq = true)
    (h₁ : SortedBy keyLess s₁) (h₂ : SortedBy keyLess s₂) (p₁ : s₁.Perm ks) (p₂ : s₂.Perm ks) : s₁ = s₂ := by
  have h := C03_sorted_keys_total_order_partial ks s₁ s₂ hx h₁ h₂ p₁ p₂
  have e₁ : s₁.map GoKey.obs = s₁ := by
    rw [List.map_congr_left (g := id) (fun k hk => obs_of_selfEq k (hs k (p₁.mem_iff.mp hk))), List.map_id]
  have e₂ : s₂.map GoKey.obs = s₂ := by
    rw [List.map_congr_left (g := id) (fun k hk => obs_of_selfEq k (hs k (p₂.mem_iff.mp hk))), List.map_id]
  rw [← e₁, ← e₂, h]

/-- **the full-strength statement fails** (known finding `pointer-key-equal-content`): two pointers to equal
    structs, `&S{"a","b"}` twice, as keys of a `map[*S]…` or `map[interface{}]…` — fmt prints a top-level
    pointer to a composite by content, so `fmt.Sprint` (`&{a b}`), `%T` (`*main.S`) and `%#v` agree.  Both
    arrangements are sorted, and they differ observably (each key finds its own entry). -/
theorem C03_sorted_keys_counterexample :
    let k₁ := GoKey.other 0 true [38, 123, 97, 32, 98, 125] [42, 83] [38, 83, 123, 125]
    let k₂ := GoKey.other 1 true [38, 123, 97, 32, 98, 125] [42, 83] [38, 83, 123, 125]
    SortedBy keyLess [k₁, k₂] ∧ SortedBy keyLess [k₂, k₁]
      ∧ [k₁, k₂].map GoKey.obs ≠ [k₂, k₁].map GoKey.obs ∧ syntaxCollision [k₁, k₂] = true := by
  refine ⟨?_, ?_, by decide, by decide⟩
  · unfold SortedBy; simp [keyLess, bytesLt_irrefl]
  · unfold SortedBy; simp [keyLess, bytesLt_irrefl]

/-- non-vacuity of the hypotheses of the theorems above -/
example : SortedBy keyLess (sortKeys [GoKey.str (b "b"), GoKey.str (b "a")]) := (sortKeys_spec _).2
/-- regression (2cbbaa1): `1`, `"1"`, `int64(1)`, `1.0` in a `map[interface{}]…` all print `1`; their type
    names `int`, `string`, `int64`, `float64` decide, the order is float64, int, int64, string -/
example :
    let ki := GoKey.other 0 true [49] [105, 110, 116] [49]
    let ks := GoKey.other 1 true [49] [115, 116, 114, 105, 110, 103] [34, 49, 34]
    let kl := GoKey.other 2 true [49] [105, 110, 116, 54, 52] [49]
    let kf := GoKey.other 3 true [49] [102, 108, 111, 97, 116, 54, 52] [49]
    syntaxCollision [ki, ks, kl, kf] = false ∧ SortedBy keyLess [kf, ki, kl, ks] := by
  refine ⟨by decide, ?_⟩
  unfold SortedBy; decide
/-- regression (5b1997c): `[2]string{"a b","c"}` and `{"a","b c"}` print alike and have one type; `%#v` decides -/
example : syntaxCollision [GoKey.other 0 true [97] [84] [34, 97, 32, 98, 34], GoKey.other 1 true [97] [84] [34, 97, 34, 32]] = false := by decide
/-- several NaN keys (c0e7993): tied by the comparator, no collision, observably equal -/
example : syntaxCollision [GoKey.nan 0, GoKey.nan 1, GoKey.float 3] = false
    ∧ [GoKey.nan 0, GoKey.nan 1].map GoKey.obs = [GoKey.nan 1, GoKey.nan 0].map GoKey.obs
    ∧ SortedBy keyLess [GoKey.nan 1, GoKey.nan 0, GoKey.float 3] := by
  refine ⟨by decide, by decide, ?_⟩
  unfold SortedBy; decide
/-- NaN inside interface keys: tied on all three strings, but neither is equal to itself — no collision -/
example : syntaxCollision [GoKey.other 0 false [78] [102] [78], GoKey.other 1 false [78] [102] [78]] = false := by decide

/-- regression: **before c0e7993** the float case was `a.Float() < b.Float()`, which is no strict weak order
    once a NaN key is present (`none`): `[0, NaN, 1]` and `[NaN, 0, 1]` are both "sorted", and the relation
    is not even negatively transitive, so package sort's contract does not apply (the implementation showed
    `0,2,NaN,1`). -/
theorem C03_nan_keys_counterexample_before_fix :
    let lessF : Option Int → Option Int → Bool := fun a c =>
      match a, c with | some x, some y => decide (x < y) | _, _ => false
    SortedBy lessF [some 0, none, some 1] ∧ SortedBy lessF [none, some 0, some 1]
      ∧ (lessF none (some 1) = false ∧ lessF (some 0) none = false ∧ lessF (some 0) (some 1) = true) := by
  refine ⟨?_, ?_, by decide⟩ <;> (unfold SortedBy; decide)

/-! ## insertion order and repeated renders of a for-loop over a map; merge() -/

/-- a map built from the same entries in another insertion order is the same map -/
theorem C03_insertion_order_map {κ ν : Type} [DecidableEq κ] (es₁ es₂ : List (κ × ν))
    (hp : es₁.Perm es₂) (hu : UniqueKeys es₁) : ofEntries es₁ = ofEntries es₂ :=
  schema_copyAll_perm GoMap.empty es₁ es₂ hp hu

theorem mapIndex_perm {ν : Type} (es₁ es₂ : List (GoKey × ν)) (hp : es₁.Perm es₂) (hu : UniqueKeys es₁) :
    mapIndex es₁ = mapIndex es₂ := by
  funext k
  unfold mapIndex
  rw [C03_insertion_order_map es₁ es₂ hp hu]

/-- **C03, insertion order / repeated render.** The for-loop over a map renders the same bytes for every
    insertion order of the entries, for every order in which `MapKeys` returns the keys (both are the
    permutation `es₁ ~ es₂`), and for every two runs of the unstable sort (`sort₁`, `sort₂`). -/
theorem C03_insertion_order {ν : Type} (sort₁ sort₂ : List GoKey → List GoKey)
    (hs₁ : SortSpec keyLess sort₁) (hs₂ : SortSpec keyLess sort₂) (body : GoKey → Option ν → Bytes)
    (es₁ es₂ : List (GoKey × ν)) (hp : es₁.Perm es₂) (hu : UniqueKeys es₁)
    (hk : KeysDetermined (es₁.map Prod.fst)) :
    renderForMap sort₁ body es₁ = renderForMap sort₂ body es₂ := by
  unfold renderForMap
  obtain ⟨p₁, o₁⟩ := hs₁ (es₁.map Prod.fst)
  obtain ⟨p₂, o₂⟩ := hs₂ (es₂.map Prod.fst)
  have hkeys : (sort₁ (es₁.map Prod.fst)).map GoKey.obs = (sort₂ (es₂.map Prod.fst)).map GoKey.obs :=
    sorted_map_unique keyLess GoKey.obs keyLess keyLess_obs _ _ _ hk o₁ o₂ p₁ (p₂.trans (hp.map _).symm)
  have hbody : ∀ (es : List (GoKey × ν)) (l : List GoKey),
      l.flatMap (fun k => body k.obs (mapIndex es k)) = (l.map GoKey.obs).flatMap (fun k => body k (mapIndex es k)) := by
    intro es l
    rw [List.flatMap_map]
    congr 1
    funext k
    simp [mapIndex_obs]
  rw [hbody es₁ (sort₁ (es₁.map Prod.fst)), hbody es₂ (sort₂ (es₂.map Prod.fst)), hkeys, mapIndex_perm es₁ es₂ hp hu]

/-- **C03, merge().** `merge()` over a reflected map stores the entries under `toString(key)` while
    visiting `sortedMapKeys`: the result is the same for every insertion order, `MapKeys` order and run of
    the sort — *also when several keys have the same string form* (the one later in key order wins; this
    is where the `keyedCopy` loop of the first delivery depended on the iteration order). -/
theorem C03_merge_sorted {ν κ' : Type} [DecidableEq κ'] (sort₁ sort₂ : List GoKey → List GoKey)
    (hs₁ : SortSpec keyLess sort₁) (hs₂ : SortSpec keyLess sort₂) (g : GoKey → κ') (dst : GoMap κ' ν)
    (es₁ es₂ : List (GoKey × ν)) (hp : es₁.Perm es₂) (hu : UniqueKeys es₁)
    (hk : KeysDetermined (es₁.map Prod.fst)) :
    mergeSorted sort₁ g dst es₁ = mergeSorted sort₂ g dst es₂ := by
  unfold mergeSorted
  obtain ⟨p₁, o₁⟩ := hs₁ (es₁.map Prod.fst)
  obtain ⟨p₂, o₂⟩ := hs₂ (es₂.map Prod.fst)
  have hkeys : (sort₁ (es₁.map Prod.fst)).map GoKey.obs = (sort₂ (es₂.map Prod.fst)).map GoKey.obs :=
    sorted_map_unique keyLess GoKey.obs keyLess keyLess_obs _ _ _ hk o₁ o₂ p₁ (p₂.trans (hp.map _).symm)
  have hstep : ∀ (es : List (GoKey × ν)) (l : List GoKey),
      l.foldl (mergeStep g es) dst = (l.map GoKey.obs).foldl (mergeStep g es) dst := by
    intro es l
    rw [List.foldl_map]
    congr 1
    funext m k
    rw [mergeStep_obs]
  have hes : mergeStep g es₁ = mergeStep g es₂ := by
    funext m k
    unfold mergeStep
    rw [mapIndex_perm es₁ es₂ hp hu]
  rw [hstep es₁ (sort₁ (es₁.map Prod.fst)), hstep es₂ (sort₂ (es₂.map Prod.fst)), hkeys, hes]

/-- non-vacuity: the hypotheses of `C03_insertion_order` / `C03_merge_sorted` hold for `{"b": 1, "a": 2}`
    built both ways, and for the repaired witness `{1: …, "1": …}` of a `map[interface{}]…` -/
example : UniqueKeys [(GoKey.str [98], 1), (GoKey.str [97], 2)] ∧
    [(GoKey.str [98], 1), (GoKey.str [97], 2)].Perm [(GoKey.str [97], 2), (GoKey.str [98], 1)] ∧
    KeysDetermined ([(GoKey.str [98], 1), (GoKey.str [97], 2)].map Prod.fst) ∧ SortSpec keyLess sortKeys := by
  refine ⟨by decide, List.Perm.swap _ _ _, ?_, sortKeys_spec⟩
  apply keysDetermined_of_byValue
  intro k hk; simp at hk; rcases hk with rfl | rfl <;> rfl
example : KeysDetermined ([(GoKey.other 0 true [49] [105, 110, 116] [49], 1),
    (GoKey.other 1 true [49] [115, 116, 114, 105, 110, 103] [34, 49, 34], 2)].map Prod.fst) :=
  keysDetermined_of_noCollision _ (by decide)

/-! ## date formats -/

/-- **C03, date format.** Under the extracted facts (single left-to-right pass; one-character, pairwise
    distinct keys) the converted layout is the concatenation of the per-character translations, and it is
    the same for every order `tbl'` in which the Go map holds or enumerates the table. -/
theorem C03_dateformat_single_pass (F : DateFmt.Raw) (hF : DateFmt.ok F = true)
    (tbl' : CharTable) (hp : tbl'.Perm (charTable F.1)) (fmt : List Char) :
    convertDateFormat tbl' fmt = fmt.flatMap (dateLookup (charTable F.1)) := by
  unfold DateFmt.ok at hF
  simp only [Bool.and_eq_true, decide_eq_true_eq] at hF
  have hn : ((charTable F.1).map Prod.fst).Nodup := hF.2
  have hl : dateLookup tbl' = dateLookup (charTable F.1) := by
    funext c
    unfold dateLookup
    rw [lookup_perm (charTable F.1) tbl' hp.symm hn c]
  unfold convertDateFormat
  rw [convertLoop_eq, hl, List.nil_append]

theorem C03_datefmt_facts_current : DateFmt.ok TwigGen.DateFmt.current = true := by decide
/-- the driver's table (`MapOrder.dateTable`) is the extracted one -/
theorem C03_datefmt_table_current : DateFmt.tableIs TwigGen.DateFmt.current = true := by decide

/-- instance: `'D, d M Y'` ↦ `Mon, 02 Jan 2006` (the layout Go then formats the time with) -/
example : convertDateFormat (charTable dateTable) "D, d M Y".toList = "Mon, 02 Jan 2006".toList := by decide
/-- the pinned facts are rejected -/
example : DateFmt.ok (dateTable, "mapRangeReplaceAll") = false := by decide

/-- **the pinned algorithm depends on the map order** (regression instance): `strings.ReplaceAll` per
    table entry, visiting the table in source order and in reverse source order, converts `'D, d M Y'`
    to two different layouts — both wrong. -/
theorem C03_dateformat_counterexample_pinned :
    convertDateFormatPinned (charTable dateTable) "D, d M Y".toList
      ≠ convertDateFormatPinned (charTable dateTable).reverse "D, d M Y".toList := by decide

end Twig
