/-
  C03 — output is a deterministic function of templates and context: independent of Go's map
  iteration order, of the order in which map entries were inserted, and of addresses.

  Shape of the argument.
  * G: the extractor lists every iteration over a Go map in package twig with the loop schema its body
    matches (`TwigGen.MapRanges.current`) and the table/algorithm of `convertDateFormat`
    (`TwigGen.DateFmt.current`).
  * Every schema has a permutation-invariance lemma, for all key/value types, maps and orders
    (TwigProofs/Lemmas/MapOrder.lean).  `SchemaSem` collects them as propositions;
    `C03_sites_order_independent` says that every extracted site is covered by one of them or is
    on the allow-list of unobservable sites (written justification in `MapRanges.allowList`).
  * Three schemas hold only under a side condition on the keys; the sites that use them are genuine
    findings of the fixed tree.  Following the ground rules the full-strength theorem stays
    (`C03_sites_order_independent`, hypothesis `okStrict`), the `_partial` theorem carries the explicit
    exclusions, and `_counterexample` theorems give the witnesses.
-/
import TwigModel.MapOrder
import TwigProofs.Lemmas.MapOrder
import TwigGen.MapRanges
import TwigGen.DateFmt
namespace Twig
open MapOrder MapRanges

/-! ## the schemas' meaning -/

namespace MapRanges

/-- what it means for a loop schema to be order independent (for unconditional schemas), resp. order
    independent under its stated side condition (for the conditional ones) -/
def SchemaSem : Schema → Prop
  | .copyAll => ∀ (κ ν : Type) [DecidableEq κ] (dst : GoMap κ ν) (o₁ o₂ : List (κ × ν)),
      o₁.Perm o₂ → UniqueKeys o₁ → copyAll dst o₁ = copyAll dst o₂
  | .deleteAll => ∀ (κ ν : Type) [DecidableEq κ] (m : GoMap κ ν) (o₁ o₂ : List (κ × ν)),
      o₁.Perm o₂ → deleteAll m o₁ = deleteAll m o₂
  | .collectThenSort => ∀ (κ ν : Type) (less : κ → κ → Bool) (sort₁ sort₂ : List κ → List κ),
      StrictTotal less → SortSpec less sort₁ → SortSpec less sort₂ → ∀ (o₁ o₂ : List (κ × ν)),
      o₁.Perm o₂ → collectThenSort sort₁ o₁ = collectThenSort sort₂ o₂
  | .anyMatch => ∀ (κ ν : Type) (p : κ × ν → Bool) (o₁ o₂ : List (κ × ν)),
      o₁.Perm o₂ → anyMatch p o₁ = anyMatch p o₂
  | .minKey => ∀ (κ ν : Type) (lt : κ → κ → Bool), StrictTotal lt → ∀ (o₁ o₂ : List (κ × ν)),
      o₁.Perm o₂ → minKey lt o₁ = minKey lt o₂
  | .uniformStore => ∀ (κ ν α β : Type) [DecidableEq α] (addr : ν → α) (c : β) (heap : α → β)
      (o₁ o₂ : List (κ × ν)), o₁.Perm o₂ → uniformStore addr c heap o₁ = uniformStore addr c heap o₂
  | .evalCopyAll => ∀ (κ ν ν' ε : Type) [DecidableEq κ] (ev : ν → Except ε ν') (dst : GoMap κ ν')
      (o₁ o₂ : List (κ × ν)), o₁.Perm o₂ → UniqueKeys o₁ →
      (evalCopyAll ev dst o₁).toOption = (evalCopyAll ev dst o₂).toOption
  -- conditional schemas: the side condition is part of the statement
  | .keyedCopy => ∀ (κ ν κ' ν' : Type) [DecidableEq κ'] (g : κ → κ') (h : κ → ν → ν') (dst : GoMap κ' ν')
      (o₁ o₂ : List (κ × ν)), o₁.Perm o₂ → (o₁.map fun e => g e.1).Nodup →
      keyedCopy g h dst o₁ = keyedCopy g h dst o₂
  | .evalKeyedCopy => ∀ (κ ν κ' ν' ε : Type) [DecidableEq κ'] (ev : κ × ν → Except ε (κ' × ν'))
      (dst : GoMap κ' ν') (o₁ o₂ : List (κ × ν)), o₁.Perm o₂ → UniqueKeys (okVals ev o₁) →
      (evalKeyedCopy ev dst o₁).toOption = (evalKeyedCopy ev dst o₂).toOption
  | .collectSortBy => ∀ (κ ν : Type) (less : κ → κ → Bool) (sort₁ sort₂ : List κ → List κ),
      SortSpec less sort₁ → SortSpec less sort₂ → ∀ (o₁ o₂ : List (κ × ν)), o₁.Perm o₂ →
      (∀ a ∈ o₁.map Prod.fst, ∀ c ∈ o₁.map Prod.fst, less c a = false → less a c = false → a = c) →
      collectThenSort sort₁ o₁ = collectThenSort sort₂ o₂
  | .orderSensitive => False
  | .unknown => False

theorem collectSortBy_sem (κ ν : Type) (less : κ → κ → Bool) (sort₁ sort₂ : List κ → List κ)
    (hs₁ : SortSpec less sort₁) (hs₂ : SortSpec less sort₂) (o₁ o₂ : List (κ × ν)) (hp : o₁.Perm o₂)
    (hconn : ∀ a ∈ o₁.map Prod.fst, ∀ c ∈ o₁.map Prod.fst, less c a = false → less a c = false → a = c) :
    collectThenSort sort₁ o₁ = collectThenSort sort₂ o₂ := by
  unfold collectThenSort
  obtain ⟨p₁, s₁⟩ := hs₁ (o₁.map Prod.fst)
  obtain ⟨p₂, s₂⟩ := hs₂ (o₂.map Prod.fst)
  exact sorted_unique (κ := κ) less (o₁.map Prod.fst) _ _ hconn s₁ s₂ p₁ (p₂.trans (hp.map _).symm)

/-- every schema the facts predicate accepts has its lemma -/
theorem schemaSem_of_invariant (s : Schema) (h : s.invariant = true) : SchemaSem s := by
  cases s <;> simp [Schema.invariant] at h
  · intro κ ν _ dst o₁ o₂ hp hu; exact schema_copyAll_perm dst o₁ o₂ hp hu
  · intro κ ν _ m o₁ o₂ hp; exact schema_deleteAll_perm m o₁ o₂ hp
  · intro κ ν less sort₁ sort₂ hlt hs₁ hs₂ o₁ o₂ hp
    exact collectSortBy_sem κ ν less sort₁ sort₂ hs₁ hs₂ o₁ o₂ hp
      (fun a _ c _ h₁ h₂ => hlt.connected a c h₂ h₁)
  · intro κ ν p o₁ o₂ hp
    exact schema_anyMatch_perm (κ := κ) p o₁ o₂ hp
  · intro κ ν lt hlt o₁ o₂ hp
    exact schema_minKey_perm (κ := κ) lt hlt o₁ o₂ hp
  · intro κ ν α β _ addr c heap o₁ o₂ hp
    exact schema_uniformStore_perm (κ := κ) addr c heap o₁ o₂ hp
  · intro κ ν ν' ε _ ev dst o₁ o₂ hp hu; exact schema_evalCopyAll_perm ev dst o₁ o₂ hp hu

theorem schemaSem_of_conditional (s : Schema) (h : s.conditional = true) : SchemaSem s := by
  cases s <;> simp [Schema.conditional] at h
  · exact collectSortBy_sem
  · intro κ ν κ' ν' _ g h dst o₁ o₂ hp hinj
    exact schema_keyedCopy_perm (κ := κ) g h dst o₁ o₂ hp hinj
  · intro κ ν κ' ν' ε _ ev dst o₁ o₂ hp hinj
    exact schema_evalKeyedCopy_perm (κ := κ) ev dst o₁ o₂ hp hinj

end MapRanges

/-! ## the sites -/

/-- **C03, map iteration (full strength).** If the extracted facts pass `okStrict`, every iteration over a
    Go map in package twig either matches a schema whose result is the same for every iteration order
    (for all maps, key and value types), or is one of the allow-listed sites that cannot reach rendered
    output.  On the fixed tree `okStrict` does *not* hold: see the `_partial` theorem and the counterexamples. -/
theorem C03_sites_order_independent (F : List RawSite) (hF : MapRanges.okStrict F = true) :
    ∀ s ∈ F, ((Schema.ofString s.schema).invariant = true ∧ SchemaSem (Schema.ofString s.schema))
      ∨ listed allowList s = true := by
  intro s hs
  have h := List.all_eq_true.mp hF s hs
  unfold siteStrict at h
  rcases Bool.or_eq_true _ _ |>.mp h with h | h
  · exact Or.inl ⟨h, schemaSem_of_invariant _ h⟩
  · exact Or.inr h

/-- **C03, map iteration (with the recorded exclusions).** Under `MapRanges.ok` every site is
    unconditionally order independent, allow-listed as unobservable, or matches a conditional schema —
    order independent whenever the side condition written in `SchemaSem` holds (transformed/evaluated
    keys pairwise distinct; comparator connected on the keys) — and is then listed in
    `MapRanges.conditionalList` with its exclusion. -/
theorem C03_sites_order_independent_partial (F : List RawSite) (hF : MapRanges.ok F = true) :
    ∀ s ∈ F, ((Schema.ofString s.schema).invariant = true ∧ SchemaSem (Schema.ofString s.schema))
      ∨ listed allowList s = true
      ∨ ((Schema.ofString s.schema).conditional = true ∧ SchemaSem (Schema.ofString s.schema)
          ∧ listed conditionalList s = true) := by
  intro s hs
  have h := List.all_eq_true.mp hF s hs
  unfold siteOk siteStrict at h
  rcases Bool.or_eq_true _ _ |>.mp h with h | h
  · rcases Bool.or_eq_true _ _ |>.mp h with h | h
    · exact Or.inl ⟨h, schemaSem_of_invariant _ h⟩
    · exact Or.inr (Or.inl h)
  · have h' := Bool.and_eq_true _ _ |>.mp h
    exact Or.inr (Or.inr ⟨h'.1, schemaSem_of_conditional _ h'.1, h'.2⟩)

/-- the facts extracted from the working tree satisfy the (partial) predicate -/
theorem C03_facts_current : MapRanges.ok TwigGen.MapRanges.current = true := by decide

/-- the comparator the extractor found in `sortedMapKeys` is the one modelled by `keyLess` -/
theorem C03_sortcmp_current :
    MapRanges.sortCmpOk TwigGen.MapRanges.sortKeyCases TwigGen.MapRanges.sortKeyFallback = true := by decide

/-- non-vacuity: the predicate accepts a non-trivial table and rejects order-sensitive rows; the four
    rows are what the extractor reports for the pinned tree's defects (regression instance) -/
example : MapRanges.okStrict [("render.go", "NewRenderContext", 4, "range", "map[string]interface{}", "copyAll", "")] = true := by decide
example : MapRanges.ok [
    ("extension.go", "convertDateFormat", 0, "range", "map[string]string", "orderSensitive", ""),
    ("extension.go", "CoreExtension.filterFirst", 1, "MapKeys", "reflect:rv", "orderSensitive", ""),
    ("extension.go", "CoreExtension.filterKeys", 1, "MapKeys", "reflect:rv", "orderSensitive", ""),
    ("node.go", "ForNode.renderForLoop", 0, "MapKeys", "reflect:val", "orderSensitive", "")] = false := by decide
example : MapRanges.ok [("x.go", "f", 0, "range", "map[string]int", "unknown", "")] = false := by decide

/-! ## the conditional schemas really are conditional: witnesses -/

/-- keyedCopy with colliding transformed keys: `merge(m, …)` on `map[interface{}]…{1: "a", "1": "b"}`
    stores both entries under the string key "1"; the two visiting orders leave different values. -/
theorem C03_keyedCopy_counterexample :
    keyedCopy (κ := Nat) (ν := Nat) (κ' := Nat) (fun _ => 1) (fun _ v => v) GoMap.empty [(10, 100), (11, 200)] 1
      ≠ keyedCopy (fun _ => 1) (fun _ v => v) GoMap.empty [(11, 200), (10, 100)] 1 := by decide

/-- evalKeyedCopy with colliding evaluated keys: the hash literal `{'a': 1, 'a': 2}` -/
theorem C03_hashLiteral_counterexample :
    (evalKeyedCopy (κ := Nat) (ν := Nat) (κ' := Nat) (ν' := Nat) (ε := Unit) (fun e => .ok (0, e.2)) GoMap.empty [(0, 1), (1, 2)]).toOption.map (· 0)
      ≠ (evalKeyedCopy (κ := Nat) (ν := Nat) (κ' := Nat) (ν' := Nat) (ε := Unit) (fun e => .ok (0, e.2)) GoMap.empty [(1, 2), (0, 1)]).toOption.map (· 0) := by decide

/-! ## sorted keys -/

namespace MapOrder

/-- no two distinct keys of a kind compared by `fmt.Sprint` print alike -/
def printCollision (ks : List GoKey) : Bool :=
  ks.any fun a => ks.any fun c => a != c && !a.byValue && !c.byValue && a.printed == c.printed

end MapOrder

/-- **sortedMapKeys determines the order** for maps whose key type is of an integer, unsigned or string
    kind: any two outcomes of `sort.Slice` (sorted permutations of the keys — package sort promises no
    more, it is not stable) are equal, so neither the order in which `MapKeys` hands out the keys nor the
    internals of the sort can show. -/
theorem C03_sorted_keys_total_order (ks s₁ s₂ : List GoKey) (hh : Homogeneous ks)
    (hv : ∀ k ∈ ks, k.byValue = true)
    (h₁ : SortedBy keyLess s₁) (h₂ : SortedBy keyLess s₂) (p₁ : s₁.Perm ks) (p₂ : s₂.Perm ks) : s₁ = s₂ := by
  apply sorted_unique keyLess ks s₁ s₂ _ h₁ h₂ p₁ p₂
  intro a ha c hc hca hac
  exact keyLess_connected_byValue a c (hh a ha c hc) (hv a ha) hca hac

/-- **any key type, with the exclusion**: the order is determined unless two distinct keys of a kind
    compared through `fmt.Sprint` print alike. -/
theorem C03_sorted_keys_total_order_partial (ks s₁ s₂ : List GoKey) (hh : Homogeneous ks)
    (hx : printCollision ks = false)
    (h₁ : SortedBy keyLess s₁) (h₂ : SortedBy keyLess s₂) (p₁ : s₁.Perm ks) (p₂ : s₂.Perm ks) : s₁ = s₂ := by
  apply sorted_unique keyLess ks s₁ s₂ _ h₁ h₂ p₁ p₂
  intro a ha c hc hca hac
  cases hbv : a.byValue with
  | true => exact keyLess_connected_byValue a c (hh a ha c hc) hbv hca hac
  | false =>
    have hcls := hh a ha c hc
    cases a <;> simp [GoKey.byValue] at hbv
    cases c <;> simp [GoKey.cls] at hcls
    rename_i i p j q
    simp only [keyLess] at hca hac
    have hpq : p = q := bytesLt_connected p q hac hca
    by_cases e : GoKey.other i p = GoKey.other j q
    · exact e
    · exfalso
      have : printCollision ks = true := by
        unfold printCollision
        rw [List.any_eq_true]
        refine ⟨_, ha, ?_⟩
        rw [List.any_eq_true]
        refine ⟨_, hc, ?_⟩
        simp [GoKey.byValue, GoKey.printed, hpq]
        intro hij
        exact e (by rw [hij, hpq])
      rw [hx] at this; cases this

/-- **the full-strength statement fails**: a `map[interface{}]…` with the keys `1` and `"1"` — both print
    as `1` — has two different sorted permutations; the for-loop order over such a map is random
    (reproduced on the implementation, finding `iface-key-print-collision`). -/
theorem C03_sorted_keys_counterexample :
    let k₁ := GoKey.other 0 (b "1")   -- int 1
    let k₂ := GoKey.other 1 (b "1")   -- string "1"
    Homogeneous [k₁, k₂] ∧ SortedBy keyLess [k₁, k₂] ∧ SortedBy keyLess [k₂, k₁] ∧ [k₁, k₂] ≠ [k₂, k₁] := by
  refine ⟨?_, ?_, ?_, by decide⟩
  · intro a ha c hc
    simp at ha hc
    rcases ha with rfl | rfl <;> rcases hc with rfl | rfl <;> rfl
  · unfold SortedBy; simp [keyLess, b, bytesLt_irrefl]
  · unfold SortedBy; simp [keyLess, b, bytesLt_irrefl]

/-- non-vacuity of the hypotheses of the two theorems above -/
example : Homogeneous [GoKey.str (b "b"), GoKey.str (b "a")] ∧ SortedBy keyLess (sortKeys [GoKey.str (b "b"), GoKey.str (b "a")]) :=
  ⟨by intro a ha c hc; simp at ha hc; rcases ha with rfl | rfl <;> rcases hc with rfl | rfl <;> rfl,
   (sortKeys_spec _).2⟩
example : printCollision [GoKey.other 0 [116], GoKey.other 1 [102]] = false := by decide
example : printCollision [GoKey.other 0 [49], GoKey.other 1 [49]] = true := by decide

/-! ## insertion order and repeated renders of a for-loop over a map -/

namespace MapOrder

/-- the keys of a map are such that `sortedMapKeys` determines their order -/
def KeysDetermined (ks : List GoKey) : Prop :=
  ∀ a ∈ ks, ∀ c ∈ ks, keyLess c a = false → keyLess a c = false → a = c

end MapOrder

/-- a map built from the same entries in another insertion order is the same map -/
theorem C03_insertion_order_map {κ ν : Type} [DecidableEq κ] (es₁ es₂ : List (κ × ν))
    (hp : es₁.Perm es₂) (hu : UniqueKeys es₁) : ofEntries es₁ = ofEntries es₂ :=
  schema_copyAll_perm GoMap.empty es₁ es₂ hp hu

/-- **C03, insertion order / repeated render.** The for-loop over a map renders the same bytes for every
    insertion order of the entries, for every order in which `MapKeys` returns the keys (both are the
    permutation `es₁ ~ es₂`), and for every two runs of the unstable sort (`sort₁`, `sort₂`). -/
theorem C03_insertion_order {ν : Type} (sort₁ sort₂ : List GoKey → List GoKey)
    (hs₁ : SortSpec keyLess sort₁) (hs₂ : SortSpec keyLess sort₂) (body : GoKey → ν → Bytes)
    (es₁ es₂ : List (GoKey × ν)) (hp : es₁.Perm es₂) (hu : UniqueKeys es₁)
    (hk : KeysDetermined (es₁.map Prod.fst)) :
    renderForMap sort₁ body es₁ = renderForMap sort₂ body es₂ := by
  unfold renderForMap
  have hkeys : sort₁ (es₁.map Prod.fst) = sort₂ (es₂.map Prod.fst) :=
    collectSortBy_sem GoKey ν keyLess sort₁ sort₂ hs₁ hs₂ es₁ es₂ hp hk
  rw [hkeys, C03_insertion_order_map es₁ es₂ hp hu]

namespace MapOrder

/-- string-keyed, int-keyed … maps satisfy `KeysDetermined` -/
theorem keysDetermined_of_byValue (ks : List GoKey) (hh : Homogeneous ks) (hv : ∀ k ∈ ks, k.byValue = true) :
    KeysDetermined ks :=
  fun a ha c hc hca hac => keyLess_connected_byValue a c (hh a ha c hc) (hv a ha) hca hac

end MapOrder

/-- non-vacuity: the hypotheses of `C03_insertion_order` hold for `{"b": 1, "a": 2}` built both ways -/
example : UniqueKeys [(GoKey.str [98], 1), (GoKey.str [97], 2)] ∧
    [(GoKey.str [98], 1), (GoKey.str [97], 2)].Perm [(GoKey.str [97], 2), (GoKey.str [98], 1)] ∧
    KeysDetermined ([(GoKey.str [98], 1), (GoKey.str [97], 2)].map Prod.fst) ∧ SortSpec keyLess sortKeys := by
  refine ⟨by decide, List.Perm.swap _ _ _, ?_, sortKeys_spec⟩
  apply keysDetermined_of_byValue
  · intro a ha c hc; simp at ha hc; rcases ha with rfl | rfl <;> rcases hc with rfl | rfl <;> rfl
  · intro k hk; simp at hk; rcases hk with rfl | rfl <;> rfl

/-! ## date formats -/

/-- **C03, date format.** Under the extracted facts (single left-to-right pass; one-character, pairwise
    distinct keys) the converted layout is the concatenation of the per-character translations, and it is
    the same for every order `tbl'` in which the Go map holds or enumerates the table. -/
theorem C03_dateformat_single_pass (F : DateFmt.Raw) (hF : DateFmt.ok F = true)
    (tbl' : CharTable) (hp : tbl'.Perm (charTable F.1)) (fmt : List Char) :
    convertDateFormat tbl' fmt = fmt.flatMap (dateLookup (charTable F.1)) := by
  unfold DateFmt.ok at hF
  simp only [Bool.and_eq_true, decide_eq_true_eq] at hF
  have hn : ((charTable F.1).map Prod.fst).Nodup := hF.2
  have hl : dateLookup tbl' = dateLookup (charTable F.1) := by
    funext c
    unfold dateLookup
    rw [lookup_perm (charTable F.1) tbl' hp.symm hn c]
  unfold convertDateFormat
  rw [convertLoop_eq, hl, List.nil_append]

theorem C03_datefmt_facts_current : DateFmt.ok TwigGen.DateFmt.current = true := by decide
/-- the driver's table (`MapOrder.dateTable`) is the extracted one -/
theorem C03_datefmt_table_current : DateFmt.tableIs TwigGen.DateFmt.current = true := by decide

/-- instance: `'D, d M Y'` ↦ `Mon, 02 Jan 2006` (the layout Go then formats the time with) -/
example : convertDateFormat (charTable dateTable) "D, d M Y".toList = "Mon, 02 Jan 2006".toList := by decide
/-- the pinned facts are rejected -/
example : DateFmt.ok (dateTable, "mapRangeReplaceAll") = false := by decide

/-- **the pinned algorithm depends on the map order** (regression instance): `strings.ReplaceAll` per
    table entry, visiting the table in source order and in reverse source order, converts `'D, d M Y'`
    to two different layouts — both wrong. -/
theorem C03_dateformat_counterexample_pinned :
    convertDateFormatPinned (charTable dateTable) "D, d M Y".toList
      ≠ convertDateFormatPinned (charTable dateTable).reverse "D, d M Y".toList := by decide

end Twig
