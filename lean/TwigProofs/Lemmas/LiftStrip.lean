/-
  TwigProofs.Lemmas.LiftStrip — rendering is insensitive to empty text nodes (part of the helpers for TwigProofs/Lift.lean).
-/
import TwigProofs.Lemmas.LiftBase
import TwigProofs.Lemmas.Paths
namespace Twig
namespace Lift

/-! ## rendering is insensitive to empty text nodes -/

mutual
/-- remove every `.text []` node, at every depth -/
def stripN : Node → Node
  | .ifN c t e => .ifN c (stripL t) (stripL e)
  | .forN k v s bd e => .forN k v s (stripL bd) (stripL e)
  | .block n bd => .block n (stripL bd)
  | .macro n ps dn de bd => .macro n ps dn de (stripL bd)
  | .apply f bd => .apply f (stripL bd)
  | .spaceless bd => .spaceless (stripL bd)
  | n => n
def stripL : List Node → List Node
  | [] => []
  | .text s :: r => if s.isEmpty then stripL r else .text s :: stripL r
  | n :: r => stripN n :: stripL r
end

def stripD (d : BlockDef) : BlockDef := { d with body := stripL d.body }
def stripC (c : Ctx) : Ctx :=
  { c with blockDefs := c.blockDefs.map (fun kv => (kv.1, kv.2.map stripD)), chain := c.chain.map stripD }
def stripS (st : St) : St := { st with ctx := stripC st.ctx }
def stripT : Transfer → Transfer
  | .root t => .root t
  | .body t ns => .body t (stripL ns)
  | .macroCall t n a => .macroCall t n a
def stripE (E : Env) : Env := Env.withTpls E (E.tpls.map (fun kv => (kv.1, stripL kv.2)))

/-- map the final state of a result -/
def mapSt {α} (g : St → St) : R (α × St) → R (α × St)
  | .ok (a, st) => .ok (a, g st)
  | .error e => .error e

@[simp] theorem mapSt_ok {α} (g : St → St) (a : α) (st : St) : mapSt g (.ok (a, st)) = .ok (a, g st) := rfl
@[simp] theorem mapSt_error {α} (g : St → St) (e : Err) : mapSt g (.error e : R (α × St)) = .error e := rfl

theorem mapSt_bind {α β} (g : St → St) (x : R (α × St)) (k : α × St → R (β × St)) :
    (mapSt g x >>= k) = (x >>= fun a => k (a.1, g a.2)) := by
  cases x with
  | error e => rfl
  | ok a => rfl

theorem bind_mapSt {α β} (g : St → St) (x : R α) (k : α → R (β × St)) :
    mapSt g (x >>= k) = (x >>= fun a => mapSt g (k a)) := by
  cases x with
  | error e => rfl
  | ok a => rfl

theorem stripS_emit (st : St) (k : CbKind) (n : Bytes) (s : Bool) : (stripS st).emit k n s = stripS (st.emit k n s) := rfl
theorem stripS_spyCalls (st : St) : (stripS st).spyCalls = st.spyCalls := rfl
theorem stripS_denied (E : Env) (st : St) (al : List Bytes) (n : Bytes) :
    denied E (stripS st).ctx al n = denied E st.ctx al n := rfl
theorem stripS_getMacro (st : St) (n : Bytes) : (stripS st).ctx.getMacro n = st.ctx.getMacro n := rfl
theorem stripS_getVar (st : St) (n : Bytes) : (stripS st).ctx.getVar n = st.ctx.getVar n := rfl
theorem stripS_hasVar (st : St) (n : Bytes) : (stripS st).ctx.hasVar n = st.ctx.hasVar n := rfl
theorem stripS_vars (st : St) : (stripS st).ctx.vars = st.ctx.vars := rfl
theorem stripS_allowedCheck (E : Env) (st : St) (al : List Bytes) (n : Bytes) (w : String) :
    allowedCheck E (stripS st) al n w = allowedCheck E st al n w := rfl

theorem invokeSpy_strip (E : Env) (k : CbKind) (n : Bytes) (st : St) :
    invokeSpy E k n (stripS st) = (invokeSpy E k n st).map stripS := by
  simp only [invokeSpy, stripS_spyCalls]
  by_cases h : (E.failAt == some st.spyCalls) = true
  · simp only [h, if_true]; rfl
  · simp only [h]; rfl

theorem applyFilter_strip (E : Env) (n : Bytes) (v : Val) (a : List Val) (st : St) :
    applyFilter E n v a (stripS st) = mapSt stripS (applyFilter E n v a st) := by
  simp only [applyFilter, stripS_denied, invokeSpy_strip]
  by_cases h1 : (E.F.chokeFilter && denied E st.ctx E.allowedFilters n) = true
  · simp only [h1, if_true]; rfl
  · simp only [h1]
    by_cases h2 : E.spyFilters.contains n = true
    · simp only [h2, if_true]
      cases invokeSpy E CbKind.filter n st <;> rfl
    · simp only [h2]
      cases builtinFilter n v a with
      | none => rfl
      | some r => cases r <;> rfl

theorem applyChain_strip (E : Env) : ∀ (ch : List (Bytes × List Val)) (v : Val) (st : St),
    applyChain E ch v (stripS st) = mapSt stripS (applyChain E ch v st)
  | [], v, st => rfl
  | (n, a) :: r, v, st => by
    simp only [applyChain, applyFilter_strip, mapSt_bind, bind_mapSt]
    apply bind_congr_ok
    intro x _
    exact applyChain_strip E r x.1 x.2

theorem callFunction_strip (E : Env) (n : Bytes) (a : List Val) (st : St) :
    callFunction E n a (stripS st) = mapSt stripS (callFunction E n a st) := by
  simp only [callFunction, stripS_denied, stripS_getMacro, invokeSpy_strip]
  by_cases h1 : (E.F.chokeFunc && denied E st.ctx E.allowedFunctions n && (st.ctx.getMacro n).isNone) = true
  · simp only [h1, if_true]; rfl
  · simp only [h1]
    by_cases h2 : (n == b "parent") = true
    · simp only [h2, if_true]; rfl
    · simp only [h2]
      by_cases h3 : E.spyFunctions.contains n = true
      · simp only [h3, if_true]
        cases invokeSpy E CbKind.function n st <;> rfl
      · simp only [h3]
        cases builtinFunction n a with
        | some r => cases r <;> rfl
        | none =>
          cases st.ctx.getMacro n with
          | none => rfl
          | some tm => rfl


theorem mapSt_pure {α} (g : St → St) (a : α) (st : St) : mapSt g (pure (a, st) : R (α × St)) = pure (a, g st) := rfl

/-- the non-`defined` branch of a test, common to all operand shapes -/
theorem test_else_strip (E : Env) (name : Bytes) (args : List Expr) (ev : St → R ((Val × List (Bytes × List Val)) × St))
    (st : St) (he : ev (stripS st) = mapSt stripS (ev st))
    (ha : ∀ st', evalArgs E args (stripS st') = mapSt stripS (evalArgs E args st')) :
    (do
        let ((v, _), st1) ← ev (stripS st)
        let (av, st2) ← evalArgs E args st1
        if E.spyTests.contains name then do
          let st3 ← invokeSpy E .test name st2
          pure ((Val.bool true, ([] : List (Bytes × List Val))), st3)
        else match builtinTest name v av with
          | some r => do let x ← r; pure ((Val.bool x, []), st2.emit .test name false)
          | none => rerr "test not found") =
    mapSt stripS (do
        let ((v, _), st1) ← ev st
        let (av, st2) ← evalArgs E args st1
        if E.spyTests.contains name then do
          let st3 ← invokeSpy E .test name st2
          pure ((Val.bool true, ([] : List (Bytes × List Val))), st3)
        else match builtinTest name v av with
          | some r => do let x ← r; pure ((Val.bool x, []), st2.emit .test name false)
          | none => rerr "test not found") := by
  rw [he]
  simp only [mapSt_bind, bind_mapSt, ha]
  apply bind_congr_ok
  intro a _
  apply bind_congr_ok
  intro x _
  by_cases hsp : E.spyTests.contains name = true
  · simp only [hsp, if_true, invokeSpy_strip]
    cases invokeSpy E CbKind.test name x.2 <;> rfl
  · simp only [hsp]
    cases builtinTest name a.1.1 x.1 with
    | none => rfl
    | some r => cases r <;> rfl

/-- the generic tail of a test (operand is neither an attribute access nor a variable) -/
theorem test_other_strip (E : Env) (name : Bytes) (args : List Expr) (ev : St → R ((Val × List (Bytes × List Val)) × St))
    (st : St) (he : ev (stripS st) = mapSt stripS (ev st))
    (ha : ∀ st', evalArgs E args (stripS st') = mapSt stripS (evalArgs E args st')) :
    (if (name == b "defined") = true then do
        let ((v, _), st1) ← ev (stripS st)
        let (_, st2) ← evalArgs E args st1
        pure ((Val.bool (match v with | .null => false | _ => true), ([] : List (Bytes × List Val))), st2.emit .test name false)
      else do
        let ((v, _), st1) ← ev (stripS st)
        let (av, st2) ← evalArgs E args st1
        if E.spyTests.contains name then do
          let st3 ← invokeSpy E .test name st2
          pure ((Val.bool true, ([] : List (Bytes × List Val))), st3)
        else match builtinTest name v av with
          | some r => do let x ← r; pure ((Val.bool x, []), st2.emit .test name false)
          | none => rerr "test not found") =
    mapSt stripS (if (name == b "defined") = true then do
        let ((v, _), st1) ← ev st
        let (_, st2) ← evalArgs E args st1
        pure ((Val.bool (match v with | .null => false | _ => true), ([] : List (Bytes × List Val))), st2.emit .test name false)
      else do
        let ((v, _), st1) ← ev st
        let (av, st2) ← evalArgs E args st1
        if E.spyTests.contains name then do
          let st3 ← invokeSpy E .test name st2
          pure ((Val.bool true, ([] : List (Bytes × List Val))), st3)
        else match builtinTest name v av with
          | some r => do let x ← r; pure ((Val.bool x, []), st2.emit .test name false)
          | none => rerr "test not found") := by
  rw [he]
  by_cases hd : (name == b "defined") = true
  · simp only [hd, if_true, mapSt_bind, bind_mapSt, ha]
    apply bind_congr_ok
    intro a _
    apply bind_congr_ok
    intro x _
    rfl
  · simp only [hd, Bool.false_eq_true, if_false, mapSt_bind, bind_mapSt, ha]
    apply bind_congr_ok
    intro a _
    apply bind_congr_ok
    intro x _
    by_cases hsp : E.spyTests.contains name = true
    · simp only [hsp, if_true, invokeSpy_strip]
      cases invokeSpy E CbKind.test name x.2 <;> rfl
    · simp only [hsp]
      cases builtinTest name a.1.1 x.1 with
      | none => rfl
      | some r => cases r <;> rfl

mutual
theorem evalX_strip (E : Env) : ∀ (e : Expr) (ap : Bool) (st : St),
    evalX E ap e (stripS st) = mapSt stripS (evalX E ap e st)
  | .null, ap, st => rfl
  | .bool _, ap, st => rfl
  | .int _, ap, st => rfl
  | .str _, ap, st => rfl
  | .unsup _, ap, st => rfl
  | .var n, ap, st => by
    simp only [evalX, stripS_hasVar, stripS_getMacro, stripS_getVar]
    by_cases h : st.ctx.hasVar n = true
    · simp only [h, if_true]; rfl
    · simp only [h]
      cases getKV n E.globals with
      | some g => rfl
      | none =>
        cases st.ctx.getMacro n with
        | none => rfl
        | some tm => rfl
  | .unary op e, ap, st => by
    simp only [evalX, evalX_strip E e, mapSt_bind, bind_mapSt]
    apply bind_congr_ok
    intro a _
    cases op
    · rfl
    · simp only [bind_mapSt]; apply bind_congr_ok; intro x _; rfl
    · simp only [bind_mapSt]; apply bind_congr_ok; intro x _; rfl
  | .binary op l r, ap, st => by
    simp only [evalX, evalX_strip E l, evalX_strip E r, mapSt_bind, bind_mapSt]
    apply bind_congr_ok
    intro a _
    split
    · rfl
    · split
      · rfl
      · simp only [bind_mapSt]
        apply bind_congr_ok
        intro x _
        cases binop op a.1.1 x.1.1 <;> rfl
  | .badBinary l r, ap, st => by
    simp only [evalX, evalX_strip E l, evalX_strip E r, mapSt_bind, bind_mapSt]
    apply bind_congr_ok
    intro a _
    apply bind_congr_ok
    intro x _
    rfl
  | .cond c t f, ap, st => by
    simp only [evalX, evalX_strip E c, mapSt_bind, bind_mapSt]
    apply bind_congr_ok
    intro a _
    split
    · exact evalX_strip E t true a.2
    · exact evalX_strip E f true a.2
  | .attr e name, ap, st => by
    simp only [evalX, evalX_strip E e, mapSt_bind, bind_mapSt]
    apply bind_congr_ok
    intro a _
    rfl
  | .item e i, ap, st => by
    simp only [evalX, evalX_strip E e, evalX_strip E i, mapSt_bind, bind_mapSt]
    apply bind_congr_ok
    intro a _
    apply bind_congr_ok
    intro x _
    cases getItem a.1.1 x.1.1 <;> rfl
  | .filter e name args, ap, st => by
    cases ap
    · simp only [evalX, Bool.false_eq_true, if_false, evalArgs_strip E args, evalX_strip E e, mapSt_bind, bind_mapSt]
      apply bind_congr_ok
      intro a _
      apply bind_congr_ok
      intro x _
      rfl
    · simp only [evalX, if_true, stripS_allowedCheck, evalArgs_strip E args, evalX_strip E e, mapSt_bind, bind_mapSt]
      apply bind_congr_ok
      intro u _
      apply bind_congr_ok
      intro a _
      apply bind_congr_ok
      intro x _
      rw [applyChain_strip, mapSt_bind]
      apply bind_congr_ok
      intro y _
      rfl
  | .call name args, ap, st => by
    simp only [evalX, stripS_allowedCheck, stripS_getMacro, evalArgs_strip E args, mapSt_bind, bind_mapSt]
    apply bind_congr_ok
    intro u _
    cases st.ctx.getMacro name with
    | some tm =>
      simp only [bind_mapSt]
      apply bind_congr_ok
      intro a _
      rfl
    | none =>
      simp only [bind_mapSt]
      apply bind_congr_ok
      intro a _
      rw [callFunction_strip, mapSt_bind]
      apply bind_congr_ok
      intro y _
      rfl
  | .mcall obj name args, ap, st => by
    simp only [evalX, stripS_allowedCheck, evalX_strip E obj, evalArgs_strip E args, mapSt_bind, bind_mapSt]
    apply bind_congr_ok
    intro u _
    apply bind_congr_ok
    intro a _
    apply bind_congr_ok
    intro x _
    split
    · rename_i heq
      simp only [heq]; rfl
    · rename_i heq
      simp only [heq]
      have hm : (stripS x.2).ctx.getMacro name = x.2.ctx.getMacro name := rfl
      rw [hm]
      cases hgm : x.2.ctx.getMacro name with
      | some tm => rfl
      | none =>
        simp only [callFunction_strip, mapSt_bind, bind_mapSt]
        apply bind_congr_ok
        intro y _
        rfl
  | .test (.attr obj a) name args, ap, st => by
    rw [evalX.eq_16 E ap (stripS st), evalX.eq_16 E ap st]
    by_cases hd : (name == b "defined") = true
    · simp only [hd, if_true, evalX_strip E obj]
      cases evalX E true obj st with
      | error e => cases e <;> rfl
      | ok x =>
        obtain ⟨⟨o, fl⟩, st1⟩ := x
        cases o <;> rfl
    · simp only [hd, Bool.false_eq_true, if_false]
      exact test_else_strip E name args _ st (evalX_strip E (.attr obj a) true st) (fun st' => evalArgs_strip E args st')
  | .test (.var n) name args, ap, st => by
    rw [evalX.eq_17 E ap (stripS st), evalX.eq_17 E ap st]
    by_cases hd : (name == b "defined") = true
    · simp only [hd, if_true, stripS_hasVar, stripS_getVar]
      by_cases hv : st.ctx.hasVar n = true
      · simp only [hv, Bool.true_or, if_true]; rfl
      · simp only [hv, Bool.false_or]
        cases getKV n E.globals with
        | some g => rfl
        | none => rfl
    · simp only [hd, Bool.false_eq_true, if_false]
      exact test_else_strip E name args _ st (evalX_strip E (.var n) true st) (fun st' => evalArgs_strip E args st')
  | .test (.null) name args, ap, st => by
    rw [evalX.eq_18 E ap (stripS st) (.null) name args (by intro _ _ h; cases h) (by intro _ h; cases h),
      evalX.eq_18 E ap st (.null) name args (by intro _ _ h; cases h) (by intro _ h; cases h)]
    exact test_other_strip E name args _ st (evalX_strip E (.null) true st) (fun st' => evalArgs_strip E args st')
  | .test (.bool v) name args, ap, st => by
    rw [evalX.eq_18 E ap (stripS st) (.bool v) name args (by intro _ _ h; cases h) (by intro _ h; cases h),
      evalX.eq_18 E ap st (.bool v) name args (by intro _ _ h; cases h) (by intro _ h; cases h)]
    exact test_other_strip E name args _ st (evalX_strip E (.bool v) true st) (fun st' => evalArgs_strip E args st')
  | .test (.int i) name args, ap, st => by
    rw [evalX.eq_18 E ap (stripS st) (.int i) name args (by intro _ _ h; cases h) (by intro _ h; cases h),
      evalX.eq_18 E ap st (.int i) name args (by intro _ _ h; cases h) (by intro _ h; cases h)]
    exact test_other_strip E name args _ st (evalX_strip E (.int i) true st) (fun st' => evalArgs_strip E args st')
  | .test (.str s) name args, ap, st => by
    rw [evalX.eq_18 E ap (stripS st) (.str s) name args (by intro _ _ h; cases h) (by intro _ h; cases h),
      evalX.eq_18 E ap st (.str s) name args (by intro _ _ h; cases h) (by intro _ h; cases h)]
    exact test_other_strip E name args _ st (evalX_strip E (.str s) true st) (fun st' => evalArgs_strip E args st')
  | .test (.unsup w) name args, ap, st => by
    rw [evalX.eq_18 E ap (stripS st) (.unsup w) name args (by intro _ _ h; cases h) (by intro _ h; cases h),
      evalX.eq_18 E ap st (.unsup w) name args (by intro _ _ h; cases h) (by intro _ h; cases h)]
    exact test_other_strip E name args _ st (evalX_strip E (.unsup w) true st) (fun st' => evalArgs_strip E args st')
  | .test (.unary op x) name args, ap, st => by
    rw [evalX.eq_18 E ap (stripS st) (.unary op x) name args (by intro _ _ h; cases h) (by intro _ h; cases h),
      evalX.eq_18 E ap st (.unary op x) name args (by intro _ _ h; cases h) (by intro _ h; cases h)]
    exact test_other_strip E name args _ st (evalX_strip E (.unary op x) true st) (fun st' => evalArgs_strip E args st')
  | .test (.binary op l r) name args, ap, st => by
    rw [evalX.eq_18 E ap (stripS st) (.binary op l r) name args (by intro _ _ h; cases h) (by intro _ h; cases h),
      evalX.eq_18 E ap st (.binary op l r) name args (by intro _ _ h; cases h) (by intro _ h; cases h)]
    exact test_other_strip E name args _ st (evalX_strip E (.binary op l r) true st) (fun st' => evalArgs_strip E args st')
  | .test (.badBinary l r) name args, ap, st => by
    rw [evalX.eq_18 E ap (stripS st) (.badBinary l r) name args (by intro _ _ h; cases h) (by intro _ h; cases h),
      evalX.eq_18 E ap st (.badBinary l r) name args (by intro _ _ h; cases h) (by intro _ h; cases h)]
    exact test_other_strip E name args _ st (evalX_strip E (.badBinary l r) true st) (fun st' => evalArgs_strip E args st')
  | .test (.cond c t f) name args, ap, st => by
    rw [evalX.eq_18 E ap (stripS st) (.cond c t f) name args (by intro _ _ h; cases h) (by intro _ h; cases h),
      evalX.eq_18 E ap st (.cond c t f) name args (by intro _ _ h; cases h) (by intro _ h; cases h)]
    exact test_other_strip E name args _ st (evalX_strip E (.cond c t f) true st) (fun st' => evalArgs_strip E args st')
  | .test (.item x i) name args, ap, st => by
    rw [evalX.eq_18 E ap (stripS st) (.item x i) name args (by intro _ _ h; cases h) (by intro _ h; cases h),
      evalX.eq_18 E ap st (.item x i) name args (by intro _ _ h; cases h) (by intro _ h; cases h)]
    exact test_other_strip E name args _ st (evalX_strip E (.item x i) true st) (fun st' => evalArgs_strip E args st')
  | .test (.filter x nm as) name args, ap, st => by
    rw [evalX.eq_18 E ap (stripS st) (.filter x nm as) name args (by intro _ _ h; cases h) (by intro _ h; cases h),
      evalX.eq_18 E ap st (.filter x nm as) name args (by intro _ _ h; cases h) (by intro _ h; cases h)]
    exact test_other_strip E name args _ st (evalX_strip E (.filter x nm as) true st) (fun st' => evalArgs_strip E args st')
  | .test (.call nm as) name args, ap, st => by
    rw [evalX.eq_18 E ap (stripS st) (.call nm as) name args (by intro _ _ h; cases h) (by intro _ h; cases h),
      evalX.eq_18 E ap st (.call nm as) name args (by intro _ _ h; cases h) (by intro _ h; cases h)]
    exact test_other_strip E name args _ st (evalX_strip E (.call nm as) true st) (fun st' => evalArgs_strip E args st')
  | .test (.mcall o nm as) name args, ap, st => by
    rw [evalX.eq_18 E ap (stripS st) (.mcall o nm as) name args (by intro _ _ h; cases h) (by intro _ h; cases h),
      evalX.eq_18 E ap st (.mcall o nm as) name args (by intro _ _ h; cases h) (by intro _ h; cases h)]
    exact test_other_strip E name args _ st (evalX_strip E (.mcall o nm as) true st) (fun st' => evalArgs_strip E args st')
  | .test (.test x nm as) name args, ap, st => by
    rw [evalX.eq_18 E ap (stripS st) (.test x nm as) name args (by intro _ _ h; cases h) (by intro _ h; cases h),
      evalX.eq_18 E ap st (.test x nm as) name args (by intro _ _ h; cases h) (by intro _ h; cases h)]
    exact test_other_strip E name args _ st (evalX_strip E (.test x nm as) true st) (fun st' => evalArgs_strip E args st')
  | .test (.array xs) name args, ap, st => by
    rw [evalX.eq_18 E ap (stripS st) (.array xs) name args (by intro _ _ h; cases h) (by intro _ h; cases h),
      evalX.eq_18 E ap st (.array xs) name args (by intro _ _ h; cases h) (by intro _ h; cases h)]
    exact test_other_strip E name args _ st (evalX_strip E (.array xs) true st) (fun st' => evalArgs_strip E args st')
  | .test (.hash xs) name args, ap, st => by
    rw [evalX.eq_18 E ap (stripS st) (.hash xs) name args (by intro _ _ h; cases h) (by intro _ h; cases h),
      evalX.eq_18 E ap st (.hash xs) name args (by intro _ _ h; cases h) (by intro _ h; cases h)]
    exact test_other_strip E name args _ st (evalX_strip E (.hash xs) true st) (fun st' => evalArgs_strip E args st')
  | .array items, ap, st => by
    simp only [evalX, evalArgs_strip E items, mapSt_bind, bind_mapSt]
    apply bind_congr_ok
    intro a _
    rfl
  | .hash items, ap, st => by
    simp only [evalX, evalPairs_strip E items, mapSt_bind, bind_mapSt]
    apply bind_congr_ok
    intro a _
    rfl

theorem evalArgs_strip (E : Env) : ∀ (es : List Expr) (st : St),
    evalArgs E es (stripS st) = mapSt stripS (evalArgs E es st)
  | [], st => rfl
  | e :: es, st => by
    simp only [evalArgs, evalX_strip E e, evalArgs_strip E es, mapSt_bind, bind_mapSt]
    apply bind_congr_ok
    intro a _
    apply bind_congr_ok
    intro x _
    rfl

theorem evalPairs_strip (E : Env) : ∀ (es : List Expr) (st : St),
    evalPairs E es (stripS st) = mapSt stripS (evalPairs E es st)
  | [], st => rfl
  | [_], st => rfl
  | k :: v :: es, st => by
    simp only [evalPairs, evalX_strip E k, evalX_strip E v, evalPairs_strip E es, mapSt_bind, bind_mapSt]
    apply bind_congr_ok
    intro a _
    apply bind_congr_ok
    intro key _
    apply bind_congr_ok
    intro x _
    apply bind_congr_ok
    intro y _
    rfl
end


/-! ### transfers, printing, loops -/

/-- the transfer function of the stripped engine simulates the original one -/
def GoStrip (go' go : Go) : Prop := ∀ tr st, go' (stripT tr) (stripS st) = mapSt stripS (go tr st)

theorem printVal_strip {go' go : Go} (hg : GoStrip go' go) (v : Val) (st : St) :
    printVal go' v (stripS st) = mapSt stripS (printVal go v st) := by
  unfold printVal
  cases v with
  | callable t m args => exact hg (.macroCall t m args) st
  | parentFn =>
    simp only
    by_cases hin : st.ctx.inBlock = true
    · have e1 : ¬ ((!(stripS st).ctx.inBlock) = true) := by
        show ¬ ((!st.ctx.inBlock) = true); simp [hin]
      have e2 : ¬ ((!st.ctx.inBlock) = true) := by simp [hin]
      rw [if_neg e1, if_neg e2]
      have hdrop : List.drop ((stripS st).ctx.level + 1) (stripS st).ctx.chain =
          (List.drop (st.ctx.level + 1) st.ctx.chain).map stripD := by
        show List.drop (st.ctx.level + 1) (st.ctx.chain.map stripD) = _
        rw [List.map_drop]
      rw [hdrop]
      cases List.drop (st.ctx.level + 1) st.ctx.chain with
      | nil => rfl
      | cons d r =>
        simp only [List.map_cons]
        have := hg (.body d.tpl d.body) { st with ctx := { st.ctx with level := st.ctx.level + 1 } }
        simp only [stripT] at this
        show (go' (.body d.tpl (stripL d.body)) (stripS { st with ctx := { st.ctx with level := st.ctx.level + 1 } }) >>= _) = _
        rw [this, mapSt_bind, bind_mapSt]
        apply bind_congr_ok
        intro a _
        rfl
    · have e1 : (!(stripS st).ctx.inBlock) = true := by
        show (!st.ctx.inBlock) = true; simpa using hin
      have e2 : (!st.ctx.inBlock) = true := by simpa using hin
      rw [if_pos e1, if_pos e2]
      rfl
  | _ =>
    simp only
    cases toStr _ <;> rfl

theorem loopOver_strip {f' f : St → R Out} (hf : ∀ s, f' (stripS s) = mapSt stripS (f s))
    (kv : Option Bytes) (vv : Bytes) (n : Nat) :
    ∀ (items : List (Val × Val)) (i : Nat) (st : St),
      loopOver f' kv vv n i items (stripS st) = mapSt stripS (loopOver f kv vv n i items st)
  | [], i, st => rfl
  | (k, v) :: r, i, st => by
    cases kv with
    | none =>
      simp only [loopOver]
      have := hf { st with ctx := (st.ctx.setVar vv v).setVar (b "loop") (loopMeta i n) }
      show (f' (stripS { st with ctx := (st.ctx.setVar vv v).setVar (b "loop") (loopMeta i n) }) >>= _) = _
      rw [this, mapSt_bind, bind_mapSt]
      apply bind_congr_ok
      intro a _
      simp only [loopOver_strip hf none vv n r (i + 1) a.2, mapSt_bind, bind_mapSt]
      apply bind_congr_ok
      intro x _
      rfl
    | some kk =>
      simp only [loopOver]
      have := hf { st with ctx := ((st.ctx.setVar vv v).setVar kk k).setVar (b "loop") (loopMeta i n) }
      show (f' (stripS { st with ctx := ((st.ctx.setVar vv v).setVar kk k).setVar (b "loop") (loopMeta i n) }) >>= _) = _
      rw [this, mapSt_bind, bind_mapSt]
      apply bind_congr_ok
      intro a _
      simp only [loopOver_strip hf (some kk) vv n r (i + 1) a.2, mapSt_bind, bind_mapSt]
      apply bind_congr_ok
      intro x _
      rfl


/-! ### list plumbing -/

theorem getKV_map {α β} (g : α → β) (k : Bytes) : ∀ (l : List (Bytes × α)),
    getKV k (l.map (fun kv => (kv.1, g kv.2))) = (getKV k l).map g
  | [] => rfl
  | (k', a) :: r => by
    have ih := getKV_map g k r
    unfold getKV at ih ⊢
    simp only [List.map_cons, List.find?_cons]
    by_cases h : (k' == k) = true
    · simp [h]
    · simp only [h]; exact ih

theorem specChain_strip (tpl nm : Bytes) (body : List Node) (defs : List BlockDef) :
    Inh.specChain tpl nm (stripL body) (defs.map stripD) = (Inh.specChain tpl nm body defs).map stripD := by
  unfold Inh.specChain
  have hc : ((defs.map stripD).getLast?.map (·.tpl == tpl)).getD false = (defs.getLast?.map (·.tpl == tpl)).getD false := by
    rw [List.getLast?_map]
    cases defs.getLast? <;> rfl
  rw [hc]
  split
  · rfl
  · simp [stripD]

theorem headD_strip (ch : List BlockDef) (d : BlockDef) : (ch.map stripD).headD (stripD d) = stripD (ch.headD d) := by
  cases ch <;> rfl

theorem tpl_strip (E : Env) (name : Bytes) : (stripE E).tpl? name = (E.tpl? name).map stripL := by
  unfold Env.tpl? stripE Env.withTpls
  simp only
  induction E.tpls with
  | nil => rfl
  | cons kv r ih =>
    simp only [List.map_cons, List.find?_cons]
    by_cases h : (kv.1 == name) = true
    · simp [h]
    · simp only [h]; exact ih

theorem stripL_cons (n : Node) (r : List Node) (h : ∀ s, n ≠ .text s) : stripL (n :: r) = stripN n :: stripL r := by
  cases n <;> first | rfl | exact absurd rfl (h _)

theorem stripL_text (s : Bytes) (r : List Node) :
    stripL (.text s :: r) = if s.isEmpty then stripL r else .text s :: stripL r := by
  rw [stripL]

theorem lastExtends_strip : ∀ (nodes : List Node), lastExtends (stripL nodes) = lastExtends nodes
  | [] => rfl
  | n :: r => by
    have ih := lastExtends_strip r
    cases n with
    | text s =>
      rw [stripL_text]
      split <;> simp [lastExtends, ih]
    | _ => rw [stripL_cons _ _ (by intro s h; cases h)]; simp [stripN, lastExtends, ih]

theorem registerBlocks_strip (tpl : Bytes) : ∀ (nodes : List Node) (defs : List (Bytes × List BlockDef)),
    registerBlocks tpl (stripL nodes) (defs.map (fun kv => (kv.1, kv.2.map stripD))) =
      (registerBlocks tpl nodes defs).map (fun kv => (kv.1, kv.2.map stripD))
  | [], defs => rfl
  | n :: r, defs => by
    cases n with
    | text s =>
      rw [stripL_text]
      split <;> simp [registerBlocks, registerBlocks_strip tpl r defs]
    | block name body =>
      rw [stripL_cons _ _ (by intro s h; cases h)]
      simp only [stripN, registerBlocks]
      rw [← registerBlocks_strip tpl r]
      congr 1
      rw [getKV_map]
      simp only [setKV, List.map_cons, List.filter_map]
      congr 1
      cases getKV name defs <;> simp [stripD]
    | _ =>
      rw [stripL_cons _ _ (by intro s h; cases h)]
      simp [stripN, registerBlocks, registerBlocks_strip tpl r defs]


/-! ### nodes -/

theorem evalX_stripE (E : Env) (ap : Bool) (e : Expr) (st : St) : evalX (stripE E) ap e st = evalX E ap e st :=
  evalX_env E _ e ap st
theorem evalArgs_stripE (E : Env) (es : List Expr) (st : St) : evalArgs (stripE E) es st = evalArgs E es st :=
  evalArgs_env E _ es st
theorem applyFilter_stripE (E : Env) (n : Bytes) (v : Val) (a : List Val) (st : St) :
    applyFilter (stripE E) n v a st = applyFilter E n v a st := rfl

theorem unblock_strip (c : Ctx) (r : R Out) :
    Inh.unblock (stripC c) (mapSt stripS r) = mapSt stripS (Inh.unblock c r) := by
  cases r with
  | error e => rfl
  | ok a => rfl

theorem block_strip (E : Env) {go' go : Go} (hg : GoStrip go' go) (tpl name : Bytes) (body : List Node) (st : St) :
    renderNode (stripE E) go' tpl (.block name (stripL body)) (stripS st) =
      mapSt stripS (renderNode E go tpl (.block name body) st) := by
  rw [Inh.block_eq, Inh.block_eq]
  have hdefs : (getKV name (stripS st).ctx.blockDefs).getD [] = ((getKV name st.ctx.blockDefs).getD []).map stripD := by
    show (getKV name (st.ctx.blockDefs.map (fun kv => (kv.1, kv.2.map stripD)))).getD [] = _
    rw [getKV_map]
    cases getKV name st.ctx.blockDefs <;> rfl
  rw [hdefs, specChain_strip]
  have hme : (⟨tpl, name, stripL body⟩ : BlockDef) = stripD ⟨tpl, name, body⟩ := rfl
  rw [hme, headD_strip]
  generalize Inh.specChain tpl name body ((getKV name st.ctx.blockDefs).getD []) = ch
  generalize ch.headD ⟨tpl, name, body⟩ = hd
  have := hg (.body hd.tpl hd.body) (Inh.blockSt st ch)
  rw [← unblock_strip, ← this]
  rfl


theorem setAll_blockDefs : ∀ (c : Ctx) (ns : List Bytes) (vs : List Val),
    (setAll c ns vs).blockDefs = c.blockDefs ∧ (setAll c ns vs).chain = c.chain
  | c, [], _ => ⟨rfl, rfl⟩
  | c, _ :: _, [] => ⟨rfl, rfl⟩
  | c, n :: ns, v :: vs => by
    simp only [setAll]
    exact setAll_blockDefs (c.setVar n v) ns vs

theorem stripC_of_nil {c : Ctx} (h1 : c.blockDefs = []) (h2 : c.chain = []) : stripC c = c := by
  cases c
  simp only at h1 h2
  subst h1 h2
  rfl

theorem stripS_setAll (st : St) (ic : Ctx) (h1 : ic.blockDefs = []) (h2 : ic.chain = []) (ns : List Bytes) (vs : List Val) :
    ({ stripS st with ctx := setAll ic ns vs } : St) = stripS { st with ctx := setAll ic ns vs } := by
  have := stripC_of_nil (c := setAll ic ns vs) ((setAll_blockDefs ic ns vs).1.trans h1) ((setAll_blockDefs ic ns vs).2.trans h2)
  show _ = ({ st with ctx := stripC (setAll ic ns vs) } : St)
  rw [this]
  rfl

theorem bind_pure_id {α} (x : R (α × St)) : (x >>= fun a => pure (a.1, a.2)) = x := by
  cases x <;> rfl

theorem resolveTpl_strip (E : Env) (name : Bytes) : resolveTpl (stripE E) name = resolveTpl E name :=
  resolveTpl_congr (E := E) (E' := stripE E) rfl (fun n => by rw [tpl_strip]; cases E.tpl? n <;> rfl) name

mutual
theorem renderNode_strip (E : Env) {go' go : Go} (hg : GoStrip go' go) (tpl : Bytes) :
    ∀ (n : Node) (st : St),
      renderNode (stripE E) go' tpl (stripN n) (stripS st) = mapSt stripS (renderNode E go tpl n st)
  | .text s, st => rfl
  | .verbatim s, st => rfl
  | .print e, st => by
    simp only [stripN, renderNode, evalX_stripE, evalX_strip, mapSt_bind, bind_mapSt]
    apply bind_congr_ok
    intro a _
    exact printVal_strip hg _ _
  | .ifN c t e, st => by
    simp only [stripN, renderNode, evalX_stripE, evalX_strip, mapSt_bind, bind_mapSt]
    apply bind_congr_ok
    intro a _
    split
    · exact renderNodes_strip E hg tpl t a.2
    · exact renderNodes_strip E hg tpl e a.2
  | .forN key val seq body els, st => by
    simp only [stripN, renderNode, evalX_stripE, evalX_strip, mapSt_bind, bind_mapSt]
    apply bind_congr_ok
    intro a _
    apply bind_congr_ok
    intro items _
    split
    · exact renderNodes_strip E hg tpl els a.2
    · exact renderNodes_strip E hg tpl els a.2
    · rw [loopOver_strip (f' := fun s => renderNodes (stripE E) go' tpl (stripL body) s)
        (f := fun s => renderNodes E go tpl body s) (fun s => renderNodes_strip E hg tpl body s)]
      simp only [mapSt_bind, bind_mapSt, stripS_vars]
      apply bind_congr_ok
      intro x _
      cases getKV (b "loop") a.2.ctx.vars <;> rfl
  | .setN name e, st => by
    simp only [stripN, renderNode, evalX_stripE, evalX_strip, mapSt_bind, bind_mapSt]
    apply bind_congr_ok
    intro a _
    rfl
  | .doN e, st => by
    simp only [stripN, renderNode, evalX_stripE, evalX_strip, mapSt_bind, bind_mapSt]
    apply bind_congr_ok
    intro a _
    rfl
  | .block name body, st => block_strip E hg tpl name body st
  | .extends e, st => by
    simp only [stripN, renderNode, evalX_stripE, evalX_strip, mapSt_bind, bind_mapSt]
    apply bind_congr_ok
    intro a _
    apply bind_congr_ok
    intro name _
    rw [resolveTpl_strip]
    cases resolveTpl E name with
    | none => rfl
    | some rn =>
      dsimp only
      have := hg (.root rn) { a.2 with ctx := { freshCtx a.2.ctx.vars (E.F.propExtends && a.2.ctx.sandboxed) a.2.ctx.inside with blockDefs := a.2.ctx.blockDefs, parents := a.2.ctx.parents } }
      simp only [stripT] at this
      show (go' (.root rn) (stripS { a.2 with ctx := { freshCtx a.2.ctx.vars (E.F.propExtends && a.2.ctx.sandboxed) a.2.ctx.inside with blockDefs := a.2.ctx.blockDefs, parents := a.2.ctx.parents } }) >>= _) = _
      rw [this, mapSt_bind, bind_mapSt]
      apply bind_congr_ok
      intro x _
      rfl
  | .include te names exprs ignoreMissing only sandboxed, st => by
    simp only [stripN, renderNode, evalX_stripE, evalX_strip, mapSt_bind, bind_mapSt, evalArgs_stripE]
    apply bind_congr_ok
    intro a _
    apply bind_congr_ok
    intro name _
    rw [resolveTpl_strip]
    cases resolveTpl E name with
    | none =>
      dsimp only
      cases ignoreMissing <;> rfl
    | some rn =>
      dsimp only
      have hpol : (stripE E).hasPolicy = E.hasPolicy := rfl
      rw [hpol]
      split
      · rfl
      · rw [evalArgs_strip, mapSt_bind, bind_mapSt]
        apply bind_congr_ok
        intro x _
        cases only <;> cases sandboxed <;>
          (simp only [Bool.not_false, Bool.not_true, Bool.and_true, Bool.and_false,
              if_true, Bool.false_eq_true, if_false, Bool.false_or, Bool.true_or]
           rw [stripS_setAll _ _ rfl rfl]
           have hroot := hg (.root rn)
           simp only [stripT] at hroot
           rw [hroot, mapSt_bind, bind_mapSt]
           apply bind_congr_ok
           intro y _
           rfl)
  | .macro name ps dn de body, st => rfl
  | .importN te alias, st => by
    simp only [stripN, renderNode, evalX_stripE, evalX_strip, mapSt_bind, bind_mapSt]
    apply bind_congr_ok
    intro a _
    apply bind_congr_ok
    intro name _
    rw [resolveTpl_strip]
    cases resolveTpl E name with
    | none => rfl
    | some rn =>
      dsimp only
      have hroot := hg (.root rn) { a.2 with ctx := freshCtx [] (E.F.propImport && a.2.ctx.sandboxed) a.2.ctx.inside }
      simp only [stripT] at hroot
      show (go' (.root rn) (stripS { a.2 with ctx := freshCtx [] (E.F.propImport && a.2.ctx.sandboxed) a.2.ctx.inside }) >>= _) = _
      rw [hroot, mapSt_bind, bind_mapSt]
      apply bind_congr_ok
      intro x _
      rfl
  | .fromN te names, st => by
    simp only [stripN, renderNode, evalX_stripE, evalX_strip, mapSt_bind, bind_mapSt]
    apply bind_congr_ok
    intro a _
    apply bind_congr_ok
    intro name _
    rw [resolveTpl_strip]
    cases resolveTpl E name with
    | none => rfl
    | some rn =>
      dsimp only
      have hroot := hg (.root rn) { a.2 with ctx := freshCtx [] (E.F.propFrom && a.2.ctx.sandboxed) a.2.ctx.inside }
      simp only [stripT] at hroot
      show (go' (.root rn) (stripS { a.2 with ctx := freshCtx [] (E.F.propFrom && a.2.ctx.sandboxed) a.2.ctx.inside }) >>= _) = _
      rw [hroot, mapSt_bind, bind_mapSt]
      apply bind_congr_ok
      intro x _
      show (bindFrom x.2.ctx.macros names a.2.ctx.macros >>= _) = _
      rw [bind_mapSt]
      apply bind_congr_ok
      intro ms _
      rfl
  | .apply filter body, st => by
    simp only [stripN, renderNode, renderNodes_strip E hg tpl body st, mapSt_bind, bind_mapSt, applyFilter_stripE]
    apply bind_congr_ok
    intro a _
    rw [applyFilter_strip, mapSt_bind]
    apply bind_congr_ok
    intro x _
    cases toStr x.1 <;> rfl
  | .spaceless _, st => rfl

theorem renderNodes_strip (E : Env) {go' go : Go} (hg : GoStrip go' go) (tpl : Bytes) :
    ∀ (ns : List Node) (st : St),
      renderNodes (stripE E) go' tpl (stripL ns) (stripS st) = mapSt stripS (renderNodes E go tpl ns st)
  | [], st => rfl
  | n :: r, st => by
    have ihr := renderNodes_strip E hg tpl r
    have hgen : renderNodes (stripE E) go' tpl (stripN n :: stripL r) (stripS st) =
        mapSt stripS (renderNodes E go tpl (n :: r) st) := by
      simp only [renderNodes, renderNode_strip E hg tpl n st, mapSt_bind, bind_mapSt]
      apply bind_congr_ok
      intro a _
      rw [ihr, mapSt_bind]
      apply bind_congr_ok
      intro x _
      rfl
    cases n with
    | text s =>
      rw [stripL_text]
      by_cases hs : s.isEmpty = true
      · simp only [hs, if_true, ihr]
        have : s = [] := by simpa using hs
        subst this
        simp only [renderNodes, renderNode, pure_eq_ok, ok_bind, List.nil_append]
        congr 1
        cases renderNodes E go tpl r st <;> rfl
      · simp only [hs]
        exact hgen
    | _ => rw [stripL_cons _ _ (by intro s h; cases h)]; exact hgen
end


/-! ### roots, macro calls, the fuel-indexed top level -/

theorem renderRoot_strip (E : Env) {go' go : Go} (hg : GoStrip go' go) (tpl : Bytes) (st : St) :
    renderRoot (stripE E) go' tpl (stripS st) = mapSt stripS (renderRoot E go tpl st) := by
  unfold renderRoot
  rw [tpl_strip]
  cases E.tpl? tpl with
  | none => rfl
  | some nodes =>
    simp only [Option.map_some, lastExtends_strip]
    have hreg : ({ stripS st with ctx := { (stripS st).ctx with
          blockDefs := registerBlocks tpl (stripL nodes) (stripS st).ctx.blockDefs } } : St) =
        stripS { st with ctx := { st.ctx with blockDefs := registerBlocks tpl nodes st.ctx.blockDefs } } := by
      show _ = ({ st with ctx := stripC { st.ctx with blockDefs := registerBlocks tpl nodes st.ctx.blockDefs } } : St)
      simp only [stripS, stripC]
      rw [registerBlocks_strip]
    rw [hreg]
    cases lastExtends nodes with
    | none => exact renderNodes_strip E hg tpl nodes _
    | some e => exact renderNode_strip E hg tpl (.extends e) _

theorem findMacro_foldl_strip (name : Bytes) : ∀ (nodes : List Node) (acc : Option (List Bytes × List Bytes × List Expr × List Node)),
    (stripL nodes).foldl (fun acc n => match n with
        | .macro m ps dn de body => if m == name then some (ps, dn, de, body) else acc
        | _ => acc) (acc.map (fun x => (x.1, x.2.1, x.2.2.1, stripL x.2.2.2))) =
      (nodes.foldl (fun acc n => match n with
        | .macro m ps dn de body => if m == name then some (ps, dn, de, body) else acc
        | _ => acc) acc).map (fun x => (x.1, x.2.1, x.2.2.1, stripL x.2.2.2))
  | [], acc => rfl
  | n :: r, acc => by
    cases n with
    | text s =>
      rw [stripL_text]
      split
      · simp only [List.foldl_cons]; exact findMacro_foldl_strip name r acc
      · simp only [List.foldl_cons]; exact findMacro_foldl_strip name r acc
    | «macro» m ps dn de body =>
      rw [stripL_cons _ _ (by intro s h; cases h)]
      simp only [stripN, List.foldl_cons]
      by_cases hm : (m == name) = true
      · simp only [hm, if_true]
        exact findMacro_foldl_strip name r (some (ps, dn, de, body))
      · simp only [hm]
        exact findMacro_foldl_strip name r acc
    | _ =>
      rw [stripL_cons _ _ (by intro s h; cases h)]
      simp only [stripN, List.foldl_cons]
      exact findMacro_foldl_strip name r acc

theorem findMacro_strip (nodes : List Node) (name : Bytes) :
    findMacro (stripL nodes) name = (findMacro nodes name).map (fun x => (x.1, x.2.1, x.2.2.1, stripL x.2.2.2)) :=
  findMacro_foldl_strip name nodes none

theorem topMacroNames_strip : ∀ (nodes : List Node), topMacroNames (stripL nodes) = topMacroNames nodes
  | [] => rfl
  | n :: r => by
    have ih := topMacroNames_strip r
    unfold topMacroNames at ih ⊢
    cases n with
    | text s =>
      rw [stripL_text]
      split <;> simp [ih]
    | _ =>
      rw [stripL_cons _ _ (by intro s h; cases h)]
      simp [stripN, ih]

theorem containsOpener_nil : containsOpener [] = false := by decide +kernel

theorem any_strip (p : Node → Bool) (h0 : p (.text []) = false) (h1 : ∀ n, p (stripN n) = p n) :
    ∀ (body : List Node), (stripL body).any p = body.any p
  | [] => rfl
  | n :: r => by
    have ih := any_strip p h0 h1 r
    cases n with
    | text s =>
      rw [stripL_text]
      by_cases hs : s.isEmpty = true
      · have : s = [] := by simpa using hs
        subst this
        simp [ih, h0]
      · simp [hs, ih]
    | _ =>
      rw [stripL_cons _ _ (by intro s h; cases h)]
      simp only [List.any_cons, ih, h1]

theorem evalExpr_strip (E : Env) (e : Expr) (st : St) :
    evalExpr E e (stripS st) = mapSt stripS (evalExpr E e st) := by
  unfold evalExpr
  rw [evalX_strip, mapSt_bind, bind_mapSt]
  apply bind_congr_ok
  intro a _
  rfl

theorem bindParams_strip (E : Env) (dn : List Bytes) (de : List Expr) :
    ∀ (ps : List Bytes) (args : List Val) (st : St) (acc : List (Bytes × Val)),
      bindParams E dn de ps args (stripS st) acc = mapSt stripS (bindParams E dn de ps args st acc)
  | [], _, st, acc => by simp only [bindParams]; rfl
  | p :: ps, a :: as, st, acc => by simp only [bindParams, bindParams_strip E dn de ps as]
  | p :: ps, [], st, acc => by
    simp only [bindParams]
    cases lookupDefault p dn de with
    | none => exact bindParams_strip E dn de ps [] st _
    | some e =>
      simp only [evalExpr_strip, mapSt_bind, bind_mapSt]
      apply bind_congr_ok
      intro a _
      exact bindParams_strip E dn de ps [] a.2 _


theorem bindParams_stripE (E : Env) (dn : List Bytes) (de : List Expr) (ps : List Bytes) (args : List Val) (st : St)
    (acc : List (Bytes × Val)) : bindParams (stripE E) dn de ps args st acc = bindParams E dn de ps args st acc :=
  bindParams_env E _ dn de ps args st acc

theorem callMacro_strip (E : Env) {go' go : Go} (hg : GoStrip go' go) (t m : Bytes) (args : List Val) (st : St) :
    callMacro (stripE E) go' t m args (stripS st) = mapSt stripS (callMacro E go t m args st) := by
  unfold callMacro
  rw [tpl_strip]
  cases E.tpl? t with
  | none => rfl
  | some nodes =>
    simp only [Option.map_some, findMacro_strip, topMacroNames_strip]
    cases findMacro nodes m with
    | none => rfl
    | some x =>
      obtain ⟨ps, dn, de, body⟩ := x
      simp only [Option.map_some]
      rw [any_strip _ (by simp only [containsOpener_nil]) (by intro n; cases n <;> rfl)]
      split
      · rfl
      · rw [bindParams_stripE, bindParams_strip, mapSt_bind, bind_mapSt]
        apply bind_congr_ok
        intro a _
        have hb := hg (.body t body) { a.2 with ctx :=
          { vars := a.1, macros := (topMacroNames nodes).map (fun m => (m, t, m)),
            parents := st.ctx.asScope :: st.ctx.parents,
            sandboxed := E.F.propMacro && st.ctx.sandboxed, inside := st.ctx.inside } }
        simp only [stripT] at hb
        show (go' (.body t (stripL body)) (stripS { a.2 with ctx :=
          { vars := a.1, macros := (topMacroNames nodes).map (fun m => (m, t, m)),
            parents := st.ctx.asScope :: st.ctx.parents,
            sandboxed := E.F.propMacro && st.ctx.sandboxed, inside := st.ctx.inside } }) >>= _) = _
        rw [hb, mapSt_bind, bind_mapSt]
        apply bind_congr_ok
        intro x _
        rfl

/-- the engine whose templates have lost their empty text nodes simulates the original one -/
theorem run_strip (E : Env) : ∀ f, GoStrip (run (stripE E) f) (run E f)
  | 0 => fun _ _ => rfl
  | f+1 => by
    intro tr st
    cases tr with
    | root t => simp only [stripT, run]; exact renderRoot_strip E (run_strip E f) t st
    | body t ns => simp only [stripT, run]; exact renderNodes_strip E (run_strip E f) t ns st
    | macroCall t m a => simp only [stripT, run]; exact callMacro_strip E (run_strip E f) t m a st

theorem renderTop_strip (E : Env) (name : Bytes) (vars : List (Bytes × Val)) :
    renderTop (stripE E) name vars = renderTop E name vars := by
  unfold renderTop
  rw [tpl_strip]
  cases E.tpl? name with
  | none => rfl
  | some nodes =>
    simp only [Option.map_some]
    have := run_strip E defaultFuel (.root name) { ctx := { vars := vars } }
    simp only [stripT] at this
    have hs : stripS ({ ctx := { vars := vars } } : St) = { ctx := { vars := vars } } := rfl
    rw [hs] at this
    rw [this]
    cases run E defaultFuel (Transfer.root name) { ctx := { vars := vars } } <;> rfl

theorem envOf_strip (nodes : List Node) : stripE (envOf nodes) = envOf (stripL nodes) := rfl

/-- Rendering is insensitive to empty text nodes: removing every `.text []` node (at every depth) from a template
    changes neither the output nor the error nor the trace. -/
theorem renderNodesTop_strip (nodes : List Node) (vars : List (Bytes × Val)) :
    renderNodesTop (stripL nodes) vars = renderNodesTop nodes vars := by
  unfold renderNodesTop
  rw [← envOf_strip, renderTop_strip]



end Lift
end Twig
