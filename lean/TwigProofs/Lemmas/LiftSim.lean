/-
  TwigProofs.Lemmas.LiftSim — the template parser is insensitive to empty TEXT tokens (part of the helpers for TwigProofs/Lift.lean).
-/
import TwigProofs.Lemmas.LiftStrip
import TwigProofs.Lemmas.LiftLoc
import TwigProofs.Lemmas.LiftIncl
namespace Twig
namespace Lift

/-! ## the parser is insensitive to empty TEXT tokens (outer positions) -/

def isDrop (t : Token) : Bool := t.kind == TEXT && t.val.isEmpty

theorem D_cons (t : Token) (r : List Token) :
    dropEmptyText (t :: r) = if isDrop t then dropEmptyText r else t :: dropEmptyText r := by
  simp only [dropEmptyText, List.filter_cons, isDrop]
  by_cases h : (t.kind == TEXT && t.val.isEmpty) = true
  · simp [h]
  · simp [h]

theorem D_cons_keep {t : Token} (h : isDrop t = false) (r : List Token) :
    dropEmptyText (t :: r) = t :: dropEmptyText r := by rw [D_cons, h]; rfl
theorem D_nil : dropEmptyText [] = [] := rfl

theorem isDrop_of_kind {t : Token} (h : t.kind ≠ TEXT) : isDrop t = false := by
  simp [isDrop, h]

theorem D_append_allK {xs : List Token} (h : AllK xs) (r : List Token) :
    dropEmptyText (xs ++ r) = xs ++ dropEmptyText r := by
  induction xs with
  | nil => rfl
  | cons x xs ih =>
    rw [allK_cons] at h
    rw [List.cons_append, D_cons_keep (isDrop_of_kind (exprKind_ne_text h.1)), ih h.2]; rfl

/-- number of empty TEXT tokens -/
def extra : List Token → Nat
  | [] => 0
  | t :: r => (if isDrop t then 1 else 0) + extra r

theorem extra_append (a c : List Token) : extra (a ++ c) = extra a + extra c := by
  induction a with
  | nil => simp [extra]
  | cons t a ih => simp [extra, ih]; omega

theorem extra_le_cons (t : Token) (r : List Token) : extra r ≤ extra (t :: r) := by
  simp [extra]

theorem D_length (ts : List Token) : (dropEmptyText ts).length ≤ ts.length := by
  unfold dropEmptyText; exact List.length_filter_le _ _

/-- the end token of a tag (as the scanner emits it: empty value) -/
def IsEnd (d : Token) : Prop := (d.kind = VAR_END ∨ d.kind = BLOCK_END) ∧ d.val = []

theorem IsEnd.endTok {d : Token} (h : IsEnd d) : EndTok d := h

theorem IsEnd.keep {d : Token} (h : IsEnd d) : isDrop d = false :=
  isDrop_of_kind h.endTok.notText

/-- token streams at an outer position: text tokens, comment groups, tags (start token, expression tokens, the
    matching end token with its empty value), up to the final EOF token -/
inductive WFo : List Token → Prop
  | eof (t : Token) : t.kind = EOF → WFo [t]
  | text (t : Token) (r : List Token) : t.kind = TEXT → WFo r → WFo (t :: r)
  | comment (s : Token) (cs : List Token) (e : Token) (r : List Token) : s.kind = COMMENT_START →
      (∀ c ∈ cs, c.kind ≠ COMMENT_END) → e.kind = COMMENT_END → WFo r → WFo (s :: (cs ++ e :: r))
  | tag (s : Token) (xs : List Token) (d : Token) (r : List Token) : (s.kind = VAR_START ∨ s.kind = BLOCK_START) →
      AllK xs → IsEnd d → (s.kind = VAR_START → d.kind = VAR_END) →
      (s.kind = BLOCK_START → d.kind = BLOCK_END) → WFo r → WFo (s :: (xs ++ d :: r))

theorem WFo.ne_nil {ts : List Token} (h : WFo ts) : ts ≠ [] := by
  cases h <;> simp

/-- after a block start token: expression tokens, an end token, an outer stream -/
theorem WFo.block_inv {s : Token} {l : List Token} (h : WFo (s :: l)) (hs : s.kind = BLOCK_START) :
    ∃ xs d r, l = xs ++ d :: r ∧ AllK xs ∧ IsEnd d ∧ WFo r ∧ d.kind = BLOCK_END := by
  cases h with
  | eof _ hk => rw [hs] at hk; cases hk
  | text _ _ hk _ => rw [hs] at hk; cases hk
  | comment _ cs e r hk _ _ _ => rw [hs] at hk; cases hk
  | tag _ xs d r _ hx hd _ hp hr => exact ⟨xs, d, r, rfl, hx, hd, hr, hp hs⟩

/-- `parseOuter` stops only at the end of the stream, at EOF or at a block start token -/
def HeadOK (ts : List Token) : Prop := ∀ t r, ts = t :: r → t.kind = EOF ∨ t.kind = BLOCK_START

theorem HeadOK.keep {t : Token} {r : List Token} (h : HeadOK (t :: r)) : isDrop t = false := by
  apply isDrop_of_kind
  rcases h t r rfl with h | h <;> rw [h] <;> decide


/-- X-side result vs Y-side result: the Y side (stream without empty TEXT tokens) drives; values related by `φ`,
    the X-side rest is a well-formed outer stream satisfying `P` and the Y-side rest is its image -/
def RelR {α} (φ : α → α → Prop) (P : List Token → Prop) (x y : R (α × List Token)) : Prop :=
  match y with
  | .error e => x = .error e
  | .ok (a', r') => ∃ a r, x = .ok (a, r) ∧ φ a a' ∧ WFo r ∧ r' = dropEmptyText r ∧ P r

def fuelErr {α} : R α := .error .fuel

theorem bind_ne_fuel {α β} {x : R α} {k : α → R β} (h : (x >>= k) ≠ fuelErr) : x ≠ fuelErr := by
  intro hx; rw [hx] at h; exact h rfl

theorem RelR.bind {α β} {φ : α → α → Prop} {ψ : β → β → Prop} {P Q : List Token → Prop}
    {X1 Y1 : R (α × List Token)} {kx ky : α × List Token → R (β × List Token)}
    (hy : (Y1 >>= ky) ≠ fuelErr) (h1 : Y1 ≠ fuelErr → RelR φ P X1 Y1)
    (hk : ∀ a a' r, φ a a' → WFo r → P r → ky (a', dropEmptyText r) ≠ fuelErr →
      RelR ψ Q (kx (a, r)) (ky (a', dropEmptyText r))) :
    RelR ψ Q (X1 >>= kx) (Y1 >>= ky) := by
  have h1' := h1 (bind_ne_fuel hy)
  cases Y1 with
  | error e =>
    simp only [RelR] at h1'
    rw [h1']; rfl
  | ok b =>
    obtain ⟨a', r'⟩ := b
    simp only [RelR] at h1'
    obtain ⟨a, r, hx, hφ, hw, rfl, hp⟩ := h1'
    rw [hx]
    exact hk a a' r hφ hw hp hy

theorem RelR.weaken {α} {φ : α → α → Prop} {P Q : List Token → Prop} {x y : R (α × List Token)}
    (h : RelR φ P x y) (hpq : ∀ r, P r → Q r) : RelR φ Q x y := by
  unfold RelR at h ⊢
  cases y with
  | error e => exact h
  | ok b =>
    obtain ⟨a', r'⟩ := b
    obtain ⟨a, r, hx, hφ, hw, hr, hp⟩ := h
    exact ⟨a, r, hx, hφ, hw, hr, hpq r hp⟩

/-- `parseExpression` with the fuel the template parser gives it, on the two streams -/
theorem peX {r r' ts ts' : List Token} (h : TS r r' ts ts') (hlen : r'.length ≤ r.length)
    (hne : parseExpression (exprFuel ts') ts' ≠ fuelErr) :
    RRel r r' (parseExpression (exprFuel ts) ts) (parseExpression (exprFuel ts') ts') := by
  have hF : exprFuel ts' ≤ exprFuel ts := by
    obtain ⟨xs, d, _, _, rfl, rfl⟩ := h
    simp only [exprFuel, List.length_append, List.length_cons]; omega
  have hl := (locAt (exprFuel ts')).expr r r' ts ts' h
  have hne' : parseExpression (exprFuel ts') ts ≠ .error .fuel := by
    intro hx
    rw [hx] at hl
    cases hy : parseExpression (exprFuel ts') ts' with
    | error e => rw [hy] at hl; simp only [RRel] at hl; rw [hy, ← hl] at hne; exact hne rfl
    | ok b => rw [hy] at hl; simp [RRel] at hl
  rw [parseExpression_mono hne' hF]
  exact hl

/-- `expectK` on related streams: both fail alike, or both consume the end token -/
theorem expectK_TS {r r' u u' : List Token} (h : TS r r' u u') (K : Nat) (hK : ¬ ExprKind K) (msg : String) :
    (expectK K msg u = perr msg ∧ expectK K msg u' = perr msg) ∨ (expectK K msg u = .ok r ∧ expectK K msg u' = .ok r') := by
  rcases h.cases with ⟨d, hd, rfl, rfl⟩ | ⟨x, t, t', hx, rfl, rfl, ht⟩
  · simp only [expectK]
    by_cases hk : (d.kind == K) = true
    · right; simp [hk]
    · left; simp [hk]
  · simp only [expectK]
    by_cases hk : (x.kind == K) = true
    · have : x.kind = K := by simpa using hk
      rw [this] at hx; exact absurd hx hK
    · left; simp [hk]


def PhiL (ns ns' : List Node) : Prop := stripL ns = ns'
def PhiN (n n' : Node) : Prop := stripN n = n' ∧ ∀ s, n ≠ .text s

structure SimAt (f : Nat) : Prop where
  outer : ∀ k ts, WFo ts → extra ts ≤ k → parseOuter f (dropEmptyText ts) ≠ fuelErr →
    RelR PhiL (fun r2 => HeadOK r2 ∧ extra r2 ≤ extra ts) (parseOuter (f + k) ts) (parseOuter f (dropEmptyText ts))
  tag : ∀ k name xs d r, AllK xs → IsEnd d → d.kind = BLOCK_END → WFo r → extra r ≤ k →
    parseTag f name (xs ++ d :: dropEmptyText r) ≠ fuelErr →
    RelR PhiN (fun r2 => extra r2 ≤ extra r) (parseTag (f + k) name (xs ++ d :: r))
      (parseTag f name (xs ++ d :: dropEmptyText r))
  ifTail : ∀ k he ts, WFo ts → HeadOK ts → extra ts ≤ k → parseIfTail f he (dropEmptyText ts) ≠ fuelErr →
    RelR PhiL (fun r2 => extra r2 ≤ extra ts) (parseIfTail (f + k) he ts) (parseIfTail f he (dropEmptyText ts))

theorem simAt_zero : SimAt 0 := by
  constructor
  · intro k ts _ _ h; exact absurd (by simp [parseOuter, fuelErr]) h
  · intro k name xs d r _ _ _ _ _ h; exact absurd (by simp [parseTag, fuelErr]) h
  · intro k he ts _ _ _ h; exact absurd (by simp [parseIfTail, fuelErr]) h

theorem stripL_cons_N {n : Node} (h : ∀ s, n ≠ .text s) (r : List Node) : stripL (n :: r) = stripN n :: stripL r :=
  stripL_cons n r h

theorem D_comment (s : Token) (cs : List Token) (e : Token) (r : List Token) (hs : s.kind = COMMENT_START)
    (he : e.kind = COMMENT_END) :
    dropEmptyText (s :: (cs ++ e :: r)) = s :: (dropEmptyText cs ++ e :: dropEmptyText r) := by
  rw [D_cons_keep (isDrop_of_kind (by rw [hs]; decide))]
  have : dropEmptyText (cs ++ e :: r) = dropEmptyText cs ++ dropEmptyText (e :: r) := by
    simp [dropEmptyText]
  rw [this, D_cons_keep (isDrop_of_kind (by rw [he]; decide))]

theorem D_tag (s : Token) (xs : List Token) (d : Token) (r : List Token)
    (hs : s.kind = VAR_START ∨ s.kind = BLOCK_START) (hx : AllK xs) (hd : IsEnd d) :
    dropEmptyText (s :: (xs ++ d :: r)) = s :: (xs ++ d :: dropEmptyText r) := by
  rw [D_cons_keep (isDrop_of_kind (by rcases hs with h | h <;> rw [h] <;> decide)), D_append_allK hx,
    D_cons_keep hd.keep]

theorem TS_tail {xs : List Token} {d : Token} (hx : AllK xs) (hd : IsEnd d) (r : List Token) :
    TS r (dropEmptyText r) (xs ++ d :: r) (xs ++ d :: dropEmptyText r) :=
  ⟨xs, d, hx, hd.endTok, rfl, rfl⟩

theorem extra_tag_le (s : Token) (xs : List Token) (d : Token) (r : List Token) :
    extra r ≤ extra (s :: (xs ++ d :: r)) := by
  have := extra_append xs (d :: r)
  have h2 := extra_le_cons d r
  have h3 := extra_le_cons s (xs ++ d :: r)
  omega

theorem outer_succ (f : Nat) (ih : SimAt f) : ∀ ts, WFo ts → ∀ k, extra ts ≤ k →
    parseOuter (f+1) (dropEmptyText ts) ≠ fuelErr →
    RelR PhiL (fun r2 => HeadOK r2 ∧ extra r2 ≤ extra ts) (parseOuter (f + 1 + k) ts)
      (parseOuter (f+1) (dropEmptyText ts)) := by
  intro ts hw
  induction hw with
  | eof t ht =>
    intro k _ _
    have : f + 1 + k = (f + k) + 1 := by omega
    have hk : isDrop t = false := isDrop_of_kind (by rw [ht]; decide)
    rw [this, D_cons_keep hk]
    obtain ⟨tk_, tv⟩ := t
    simp only at ht; subst ht
    rw [parseOuter_eof, parseOuter_eof]
    exact ⟨[], _, rfl, rfl, WFo.eof _ rfl, (D_cons_keep hk _).symm, ⟨(by intro t r h; cases h; exact .inl rfl), Nat.le_refl _⟩⟩
  | text t r ht hr ihr =>
    intro k hk hy
    obtain ⟨tk_, tv⟩ := t
    simp only at ht; subst ht
    by_cases hdrop : isDrop ⟨TEXT, tv⟩ = true
    · have htv : tv = [] := by simpa [isDrop] using hdrop
      subst htv
      rw [D_cons, hdrop, if_pos rfl] at hy ⊢
      have hk' : 1 + extra r ≤ k := by simpa [extra, hdrop] using hk
      obtain ⟨k', rfl⟩ : ∃ k', k = k' + 1 := ⟨k - 1, by omega⟩
      have : f + 1 + (k' + 1) = (f + 1 + k') + 1 := by omega
      rw [this, parseOuter_text]
      have h1 := ihr k' (by omega) hy
      unfold RelR at h1 ⊢
      cases hyv : parseOuter (f+1) (dropEmptyText r) with
      | error e => rw [hyv] at h1; simp only at h1 ⊢; rw [h1]; rfl
      | ok b =>
        obtain ⟨ns', r'⟩ := b
        rw [hyv] at h1
        obtain ⟨ns, r2, hx, hφ, hw2, hr2, hp⟩ := h1
        refine ⟨.text [] :: ns, r2, by rw [hx]; rfl, ?_, hw2, hr2, ⟨hp.1, Nat.le_trans hp.2 (extra_le_cons _ r)⟩⟩
        show stripL (.text [] :: ns) = ns'
        rw [stripL_text]; exact hφ
    · have hdrop' : isDrop ⟨TEXT, tv⟩ = false := by simpa using hdrop
      rw [D_cons_keep hdrop'] at hy ⊢
      have : f + 1 + k = (f + k) + 1 := by omega
      rw [this, parseOuter_text, parseOuter_text]
      rw [parseOuter_text] at hy
      have hkr : extra r ≤ k := Nat.le_trans (extra_le_cons _ r) hk
      refine RelR.bind hy (fun h => ih.outer k r hr hkr h) ?_
      intro ns ns' r2 hφ hw2 hp _
      refine ⟨.text tv :: ns, r2, rfl, ?_, hw2, rfl, ⟨hp.1, Nat.le_trans hp.2 (extra_le_cons _ r)⟩⟩
      show stripL (.text tv :: ns) = .text tv :: ns'
      have : tv.isEmpty = false := by simpa [isDrop] using hdrop'
      rw [stripL_text, this]
      simp only [Bool.false_eq_true, if_false]
      rw [hφ]
  | comment s cs e r hs hcs he hr ihr =>
    intro k hk hy
    have : f + 1 + k = (f + k) + 1 := by omega
    obtain ⟨sk, sv⟩ := s
    simp only at hs; subst hs
    rw [D_comment _ cs e r rfl he] at hy ⊢
    have hcs' : ∀ c ∈ dropEmptyText cs, c.kind ≠ COMMENT_END := by
      intro c hc
      exact hcs c (List.mem_filter.mp hc).1
    rw [this, parseOuter_comment _ _ cs e r hcs he, parseOuter_comment _ _ _ e _ hcs' he]
    rw [parseOuter_comment _ _ _ e _ hcs' he] at hy
    have hkr : extra r ≤ k := by
      have := extra_append cs (e :: r)
      have h2 := extra_le_cons e r
      have h3 := extra_le_cons ⟨COMMENT_START, sv⟩ (cs ++ e :: r)
      omega
    have hle : extra r ≤ extra (⟨COMMENT_START, sv⟩ :: (cs ++ e :: r)) := by
      have := extra_append cs (e :: r)
      have h2 := extra_le_cons e r
      have h3 := extra_le_cons ⟨COMMENT_START, sv⟩ (cs ++ e :: r)
      omega
    exact (ih.outer k r hr hkr hy).weaken (fun r2 h => ⟨h.1, Nat.le_trans h.2 hle⟩)
  | tag s xs d r hs hx hd hvar hpair hr ihr =>
    intro k hk hy
    have hfk : f + 1 + k = (f + k) + 1 := by omega
    rw [D_tag s xs d r hs hx hd] at hy ⊢
    have hle := extra_tag_le s xs d r
    have hkr : extra r ≤ k := Nat.le_trans hle hk
    have hts := TS_tail hx hd r
    obtain ⟨sk, sv⟩ := s
    simp only at hs
    rcases hs with hs | hs
    · -- a print tag
      subst hs
      have hX : parseOuter (f + k + 1) (⟨VAR_START, sv⟩ :: (xs ++ d :: r)) =
          (parseExpression (exprFuel (xs ++ d :: r)) (xs ++ d :: r) >>= fun x =>
            expectK VAR_END "expected }} or -}}" x.2 >>= fun r2 =>
            parseOuter (f + k) r2 >>= fun y => pure (.print x.1 :: y.1, y.2)) := by
        rw [parseOuter.eq_def]; simp [VAR_START, EOF, TEXT]
      have hY : parseOuter (f + 1) (⟨VAR_START, sv⟩ :: (xs ++ d :: dropEmptyText r)) =
          (parseExpression (exprFuel (xs ++ d :: dropEmptyText r)) (xs ++ d :: dropEmptyText r) >>= fun x =>
            expectK VAR_END "expected }} or -}}" x.2 >>= fun r2 =>
            parseOuter f r2 >>= fun y => pure (.print x.1 :: y.1, y.2)) := by
        rw [parseOuter.eq_def]; simp [VAR_START, EOF, TEXT]
      rw [hfk, hX, hY]
      rw [hY] at hy
      have hpe := peX hts (D_length r) (bind_ne_fuel hy)
      cases hye : parseExpression (exprFuel (xs ++ d :: dropEmptyText r)) (xs ++ d :: dropEmptyText r) with
      | error e =>
        rw [hye] at hpe
        cases hxe : parseExpression (exprFuel (xs ++ d :: r)) (xs ++ d :: r) with
        | error e' => rw [hxe] at hpe; simp only [RRel] at hpe; subst hpe; rfl
        | ok b => rw [hxe] at hpe; simp [RRel] at hpe
      | ok b' =>
        obtain ⟨e, u'⟩ := b'
        rw [hye] at hpe hy
        cases hxe : parseExpression (exprFuel (xs ++ d :: r)) (xs ++ d :: r) with
        | error e' => rw [hxe] at hpe; simp [RRel] at hpe
        | ok b =>
          obtain ⟨e2, u⟩ := b
          rw [hxe] at hpe
          simp only [RRel] at hpe
          obtain ⟨rfl, hu⟩ := hpe
          simp only [ok_bind] at hy ⊢
          rcases expectK_TS hu VAR_END (by decide) "expected }} or -}}" with ⟨h1, h2⟩ | ⟨h1, h2⟩
          · rw [h1, h2]; rfl
          · rw [h2] at hy
            rw [h1, h2]
            simp only [ok_bind] at hy ⊢
            refine RelR.bind hy (fun h => ih.outer k r hr hkr h) ?_
            intro ns ns' r2 hφ hw2 hp _
            refine ⟨.print e2 :: ns, r2, rfl, ?_, hw2, rfl, ⟨hp.1, Nat.le_trans hp.2 hle⟩⟩
            show stripL (.print e2 :: ns) = .print e2 :: ns'
            rw [stripL_cons_N (by intro s h; cases h), hφ]; rfl
    · -- a block tag
      subst hs
      have hX : ∀ (g : Nat) (L : List Token), parseOuter (g + 1) (⟨BLOCK_START, sv⟩ :: L) =
          (match L with
          | n :: r1 =>
            if n.kind != NAME then perr "expected block name"
            else if endTagNames.contains n.val then pure ([], ⟨BLOCK_START, sv⟩ :: L)
            else parseTag g n.val r1 >>= fun x => parseOuter g x.2 >>= fun y => pure (x.1 :: y.1, y.2)
          | [] => perr "expected block name") := by
        intro g L
        rw [parseOuter.eq_def]
        cases L <;> simp [BLOCK_START, VAR_START, EOF, TEXT]
      rw [hfk, hX, hX]
      rw [hX] at hy
      cases xs with
      | nil =>
        have : (d.kind != NAME) = true := by simp [hd.endTok.kinds.1]
        simp only [List.nil_append, this, if_true]
        rfl
      | cons n xs' =>
        rw [allK_cons] at hx
        simp only [List.cons_append] at hy ⊢
        by_cases hn : (n.kind != NAME) = true
        · simp only [hn, if_true]; rfl
        · simp only [hn, Bool.false_eq_true, if_false] at hy ⊢
          by_cases he : endTagNames.contains n.val = true
          · simp only [he, if_true]
            refine ⟨[], _, rfl, rfl, WFo.tag _ (n :: xs') d r (.inr rfl) ((allK_cons n xs').mpr hx) hd hvar hpair hr, ?_, ⟨?_, Nat.le_refl _⟩⟩
            · exact (D_tag ⟨BLOCK_START, sv⟩ (n :: xs') d r (.inr rfl) ((allK_cons n xs').mpr hx) hd).symm
            · intro t r h; cases h; exact .inr rfl
          · simp only [he, Bool.false_eq_true, if_false] at hy ⊢
            refine RelR.bind hy (fun h => ih.tag k n.val xs' d r hx.2 hd (hpair rfl) hr hkr h) ?_
            intro node node' r2 hφ hw2 hp2 hy2
            refine RelR.bind hy2 (fun h => ih.outer k r2 hw2 (Nat.le_trans hp2 hkr) h) ?_
            · intro ns ns' r3 hφ3 hw3 hp3 _
              refine ⟨node :: ns, r3, rfl, ?_, hw3, rfl, ⟨hp3.1, Nat.le_trans hp3.2 (Nat.le_trans hp2 hle)⟩⟩
              show stripL (node :: ns) = node' :: ns'
              rw [stripL_cons_N hφ.2, hφ.1, hφ3]


/-- a tag header that is one expression up to the end token `K`: both sides fail alike or continue on `r` / `D r` -/
theorem hdrExpr {β} {ψ : β → β → Prop} {Q : List Token → Prop} {xs : List Token} {d : Token} (r : List Token)
    (hx : AllK xs) (hd : IsEnd d) (K : Nat) (hK : ¬ ExprKind K) (msg : String)
    (kx ky : Expr → List Token → R (β × List Token))
    (hy : (parseExpression (exprFuel (xs ++ d :: dropEmptyText r)) (xs ++ d :: dropEmptyText r) >>= fun x =>
      expectK K msg x.2 >>= fun r2 => ky x.1 r2) ≠ fuelErr)
    (hk : ∀ e, ky e (dropEmptyText r) ≠ fuelErr → RelR ψ Q (kx e r) (ky e (dropEmptyText r))) :
    RelR ψ Q
      (parseExpression (exprFuel (xs ++ d :: r)) (xs ++ d :: r) >>= fun x =>
        expectK K msg x.2 >>= fun r2 => kx x.1 r2)
      (parseExpression (exprFuel (xs ++ d :: dropEmptyText r)) (xs ++ d :: dropEmptyText r) >>= fun x =>
        expectK K msg x.2 >>= fun r2 => ky x.1 r2) := by
  have hts := TS_tail hx hd r
  have hpe := peX hts (D_length r) (bind_ne_fuel hy)
  cases hye : parseExpression (exprFuel (xs ++ d :: dropEmptyText r)) (xs ++ d :: dropEmptyText r) with
  | error e =>
    rw [hye] at hpe
    cases hxe : parseExpression (exprFuel (xs ++ d :: r)) (xs ++ d :: r) with
    | error e' => rw [hxe] at hpe; simp only [RRel] at hpe; subst hpe; rfl
    | ok b => rw [hxe] at hpe; simp [RRel] at hpe
  | ok b' =>
    obtain ⟨e, u'⟩ := b'
    rw [hye] at hpe hy
    cases hxe : parseExpression (exprFuel (xs ++ d :: r)) (xs ++ d :: r) with
    | error e' => rw [hxe] at hpe; simp [RRel] at hpe
    | ok b =>
      obtain ⟨e2, u⟩ := b
      rw [hxe] at hpe
      simp only [RRel] at hpe
      obtain ⟨rfl, hu⟩ := hpe
      simp only [ok_bind] at hy ⊢
      rcases expectK_TS hu K hK msg with ⟨h1, h2⟩ | ⟨h1, h2⟩
      · rw [h1, h2]; rfl
      · rw [h2] at hy
        rw [h1, h2]
        simp only [ok_bind] at hy ⊢
        exact hk e2 hy

/-- a tag header that is just the end token `K` -/
theorem hdrEnd {β} {ψ : β → β → Prop} {Q : List Token → Prop} {xs : List Token} {d : Token} (r : List Token)
    (hx : AllK xs) (hd : IsEnd d) (K : Nat) (hK : ¬ ExprKind K) (msg : String)
    (kx ky : List Token → R (β × List Token))
    (hy : (expectK K msg (xs ++ d :: dropEmptyText r) >>= fun r2 => ky r2) ≠ fuelErr)
    (hk : ky (dropEmptyText r) ≠ fuelErr → RelR ψ Q (kx r) (ky (dropEmptyText r))) :
    RelR ψ Q (expectK K msg (xs ++ d :: r) >>= fun r2 => kx r2)
      (expectK K msg (xs ++ d :: dropEmptyText r) >>= fun r2 => ky r2) := by
  rcases expectK_TS (TS_tail hx hd r) K hK msg with ⟨h1, h2⟩ | ⟨h1, h2⟩
  · rw [h1, h2]; rfl
  · rw [h2] at hy
    rw [h1, h2]
    simp only [ok_bind] at hy ⊢
    exact hk hy


theorem ifTail_unfold (g : Nat) (he : Bool) (s n : Token) (r : List Token) (hs : s.kind = BLOCK_START)
    (hn : n.kind = NAME) :
    parseIfTail (g+1) he (s :: n :: r) =
      if n.val == b "elseif" then
        (if he then perr "unexpected elseif after else" else
          parseExpression (exprFuel r) r >>= fun x =>
            expectK BLOCK_END "expected block end after elseif condition" x.2 >>= fun r2 =>
              (parseOuter g r2 >>= fun y => parseIfTail g false y.2 >>= fun z => pure ([.ifN x.1 y.1 z.1], z.2)))
      else if n.val == b "else" then
        (if he then perr "multiple else blocks found" else
          expectK BLOCK_END "expected block end after else tag" r >>= fun r1 =>
            parseOuter g r1 >>= fun y => parseIfTail g true y.2 >>= fun z => pure (y.1, z.2))
      else if n.val == b "endif" then
        expectK BLOCK_END "expected block end after endif" r >>= fun r1 => pure ([], r1)
      else perr "expected elseif, else, or endif" := by
  rw [parseIfTail]
  simp only [hs, hn, bne_self_eq_false, Bool.false_eq_true, if_false]

theorem stripL_single_if (c : Expr) (t e : List Node) : stripL [.ifN c t e] = [.ifN c (stripL t) (stripL e)] := by
  rw [stripL_cons_N (by intro s h; cases h)]; rfl

theorem ifTail_succ (f : Nat) (ih : SimAt f) (k : Nat) (he : Bool) (ts : List Token) (hw : WFo ts) (hh : HeadOK ts)
    (hk : extra ts ≤ k) (hy : parseIfTail (f+1) he (dropEmptyText ts) ≠ fuelErr) :
    RelR PhiL (fun r2 => extra r2 ≤ extra ts) (parseIfTail (f + 1 + k) he ts)
      (parseIfTail (f+1) he (dropEmptyText ts)) := by
  have hfk : f + 1 + k = (f + k) + 1 := by omega
  rw [hfk]
  cases ts with
  | nil => rfl
  | cons s l =>
    have hskeep := hh.keep
    rw [D_cons_keep hskeep] at hy ⊢
    rcases hh s l rfl with hs | hs
    · -- EOF: both fail alike
      have hne : (s.kind != BLOCK_START) = true := by rw [hs]; decide
      have hX : ∀ g he' l', parseIfTail (g+1) he' (s :: l') = perr "unexpected end of template, expected endif" := by
        intro g he' l'
        rw [parseIfTail.eq_def]
        cases l' with
        | nil => simp [hne]
        | cons n r => simp [hne]
      rw [hX, hX]; rfl
    · obtain ⟨xs, d, r, rfl, hx, hd, hr, _⟩ := hw.block_inv hs
      rw [D_append_allK hx, D_cons_keep hd.keep] at hy ⊢
      have hle := extra_tag_le s xs d r
      have hkr : extra r ≤ k := Nat.le_trans hle hk
      cases xs with
      | nil =>
        have hdn : (d.kind != NAME) = true := by simp [hd.endTok.kinds.1]
        have hX : ∀ g he' l', parseIfTail (g+1) he' (s :: d :: l') = perr "expected block name" := by
          intro g he' l'
          rw [parseIfTail]
          simp [hs, hdn]
        simp only [List.nil_append]
        rw [hX, hX]; rfl
      | cons n xs' =>
        rw [allK_cons] at hx
        simp only [List.cons_append] at hy ⊢
        by_cases hn : n.kind = NAME
        · rw [ifTail_unfold _ _ _ _ _ hs hn] at hy ⊢
          rw [ifTail_unfold _ _ _ _ _ hs hn]
          by_cases h1 : (n.val == b "elseif") = true
          · simp only [h1, if_true] at hy ⊢
            cases he with
            | true => rfl
            | false =>
              simp only [Bool.false_eq_true, if_false] at hy ⊢
              refine hdrExpr r hx.2 hd BLOCK_END (by decide) _
                (fun c r2 => parseOuter (f + k) r2 >>= fun y => parseIfTail (f + k) false y.2 >>= fun z =>
                  pure ([Node.ifN c y.1 z.1], z.2))
                (fun c r2 => parseOuter f r2 >>= fun y => parseIfTail f false y.2 >>= fun z =>
                  pure ([Node.ifN c y.1 z.1], z.2)) hy ?_
              intro c hy1
              refine RelR.bind hy1 (fun h => ih.outer k r hr hkr h) ?_
              intro body body' r3 hφ hw3 hp3 hy2
              refine RelR.bind hy2 (fun h => ih.ifTail k false r3 hw3 hp3.1 (Nat.le_trans hp3.2 hkr) h) ?_
              intro els els' r4 hφ4 hw4 hp4 _
              refine ⟨[.ifN c body els], r4, rfl, ?_, hw4, rfl, Nat.le_trans hp4 (Nat.le_trans hp3.2 hle)⟩
              show stripL [.ifN c body els] = [.ifN c body' els']
              rw [stripL_single_if, hφ, hφ4]
          · simp only [h1, Bool.false_eq_true, if_false] at hy ⊢
            by_cases h2 : (n.val == b "else") = true
            · simp only [h2, if_true] at hy ⊢
              cases he with
              | true => rfl
              | false =>
                simp only [Bool.false_eq_true, if_false] at hy ⊢
                refine hdrEnd r hx.2 hd BLOCK_END (by decide) _
                  (fun r1 => parseOuter (f + k) r1 >>= fun y => parseIfTail (f + k) true y.2 >>= fun z => pure (y.1, z.2))
                  (fun r1 => parseOuter f r1 >>= fun y => parseIfTail f true y.2 >>= fun z => pure (y.1, z.2)) hy ?_
                intro hy1
                refine RelR.bind hy1 (fun h => ih.outer k r hr hkr h) ?_
                intro body body' r3 hφ hw3 hp3 hy2
                refine RelR.bind hy2 (fun h => ih.ifTail k true r3 hw3 hp3.1 (Nat.le_trans hp3.2 hkr) h) ?_
                intro els els' r4 hφ4 hw4 hp4 _
                exact ⟨body, r4, rfl, hφ, hw4, rfl, Nat.le_trans hp4 (Nat.le_trans hp3.2 hle)⟩
            · simp only [h2, Bool.false_eq_true, if_false] at hy ⊢
              by_cases h3 : (n.val == b "endif") = true
              · simp only [h3, if_true] at hy ⊢
                refine hdrEnd r hx.2 hd BLOCK_END (by decide) _
                  (fun r1 => pure ([], r1)) (fun r1 => pure ([], r1)) hy ?_
                intro _
                exact ⟨[], r, rfl, rfl, hr, rfl, hle⟩
              · simp only [h3, Bool.false_eq_true, if_false]
                rfl
        · have hnn : (n.kind != NAME) = true := by simp [hn]
          have hX : ∀ g he' l', parseIfTail (g+1) he' (s :: n :: l') = perr "expected block name" := by
            intro g he' l'
            rw [parseIfTail]
            simp [hs, hnn]
          rw [hX, hX]; rfl


/-- matching `{% name` at the head of what `parseOuter` returned -/
theorem expectTag_sim (nm msg : String) {r5 : List Token} (hw : WFo r5) (hh : HeadOK r5) :
    (expectTag nm msg r5 = perr msg ∧ expectTag nm msg (dropEmptyText r5) = perr msg) ∨
    (∃ xs' d rr, AllK xs' ∧ IsEnd d ∧ WFo rr ∧ extra rr ≤ extra r5 ∧
      expectTag nm msg r5 = .ok (xs' ++ d :: rr) ∧ expectTag nm msg (dropEmptyText r5) = .ok (xs' ++ d :: dropEmptyText rr)) := by
  cases r5 with
  | nil => exact .inl ⟨rfl, rfl⟩
  | cons s l =>
    rw [D_cons_keep hh.keep]
    rcases hh s l rfl with hs | hs
    · left
      have hne : (s.kind == BLOCK_START) = false := by rw [hs]; decide
      constructor
      · cases l <;> simp [expectTag, hne]
      · cases dropEmptyText l <;> simp [expectTag, hne]
    · obtain ⟨xs, d, rr, rfl, hx, hd, hr, _⟩ := hw.block_inv hs
      rw [D_append_allK hx, D_cons_keep hd.keep]
      have hsb : (s.kind == BLOCK_START) = true := by simp [hs]
      cases xs with
      | nil =>
        left
        have : isName d nm = false := hd.endTok.isName nm
        simp [expectTag, this]
      | cons n xs' =>
        rw [allK_cons] at hx
        by_cases hn : isName n nm = true
        · right
          refine ⟨xs', d, rr, hx.2, hd, hr, ?_, ?_, ?_⟩
          · have := extra_tag_le s (n :: xs') d rr
            have h2 := extra_tag_le n xs' d rr
            simp only [List.cons_append] at this ⊢
            exact Nat.le_trans (Nat.le_refl _) this
          · simp [expectTag, hsb, hn]
          · simp [expectTag, hsb, hn]
        · left
          simp [expectTag, hn]

/-- header-only handlers: both sides fail alike, or both return the same node and stop right after the end token -/
def RRelEnd (N : Node → Prop) (r r' : List Token) (x y : R (Node × List Token)) : Prop :=
  match y with
  | .error e => x = .error e
  | .ok (n', u') => x = .ok (n', r) ∧ u' = r' ∧ N n'

/-- nodes without node-list children -/
def Leaf (n : Node) : Prop := stripN n = n ∧ ∀ s, n ≠ .text s

theorem RRelEnd.toRelR {N : Node → Prop} {r : List Token} {x y : R (Node × List Token)}
    (h : RRelEnd N r (dropEmptyText r) x y) (hr : WFo r) (hn : ∀ n, N n → Leaf n) :
    RelR PhiN (fun r2 => extra r2 ≤ extra r) x y := by
  unfold RRelEnd at h
  unfold RelR
  cases y with
  | error e => exact h
  | ok b =>
    obtain ⟨n', u'⟩ := b
    obtain ⟨hx, rfl, hN⟩ := h
    exact ⟨n', r, hx, hn n' hN, hr, rfl, Nat.le_refl _⟩

/-- `expression, then the end token` on `TS`-related streams, for header-only handlers -/
theorem peX_end {r r' ts ts' : List Token} (h : TS r r' ts ts') (hlen : r'.length ≤ r.length) (K : Nat)
    (hK : ¬ ExprKind K) (msg : String) (mk : Expr → Node)
    (hy : (parseExpression (exprFuel ts') ts' >>= fun x => expectK K msg x.2 >>= fun r2 => pure (mk x.1, r2)) ≠ fuelErr) :
    RRelEnd (fun n => ∃ e, n = mk e) r r'
      (parseExpression (exprFuel ts) ts >>= fun x => expectK K msg x.2 >>= fun r2 => pure (mk x.1, r2))
      (parseExpression (exprFuel ts') ts' >>= fun x => expectK K msg x.2 >>= fun r2 => pure (mk x.1, r2)) := by
  have hpe := peX h hlen (bind_ne_fuel hy)
  cases hye : parseExpression (exprFuel ts') ts' with
  | error e =>
    rw [hye] at hpe
    cases hxe : parseExpression (exprFuel ts) ts with
    | error e' => rw [hxe] at hpe; simp only [RRel] at hpe; subst hpe; rfl
    | ok b => rw [hxe] at hpe; simp [RRel] at hpe
  | ok b' =>
    obtain ⟨e, u'⟩ := b'
    rw [hye] at hpe
    cases hxe : parseExpression (exprFuel ts) ts with
    | error e' => rw [hxe] at hpe; simp [RRel] at hpe
    | ok b =>
      obtain ⟨e2, u⟩ := b
      rw [hxe] at hpe
      simp only [RRel] at hpe
      obtain ⟨rfl, hu⟩ := hpe
      simp only [ok_bind]
      rcases expectK_TS hu K hK msg with ⟨h1, h2⟩ | ⟨h1, h2⟩
      · rw [h1, h2]; rfl
      · rw [h1, h2]; exact ⟨rfl, rfl, e2, rfl⟩

/-- the common tail of `apply`, `spaceless`, `macro`: a body, the end tag, the end token -/
theorem bodyEnd {f : Nat} (ih : SimAt f) (k : Nat) (r : List Token) (hr : WFo r) (hkr : extra r ≤ k)
    (nm m2 m3 : String) (mk : List Node → Node)
    (hmk : ∀ bd, stripN (mk bd) = mk (stripL bd) ∧ ∀ s, mk bd ≠ .text s)
    (hy : (parseOuter f (dropEmptyText r) >>= fun y => expectTag nm m2 y.2 >>= fun r4 =>
      expectK BLOCK_END m3 r4 >>= fun r5 => pure (mk y.1, r5)) ≠ fuelErr) :
    RelR PhiN (fun r2 => extra r2 ≤ extra r)
      (parseOuter (f + k) r >>= fun y => expectTag nm m2 y.2 >>= fun r4 =>
        expectK BLOCK_END m3 r4 >>= fun r5 => pure (mk y.1, r5))
      (parseOuter f (dropEmptyText r) >>= fun y => expectTag nm m2 y.2 >>= fun r4 =>
        expectK BLOCK_END m3 r4 >>= fun r5 => pure (mk y.1, r5)) := by
  refine RelR.bind hy (fun h => ih.outer k r hr hkr h) ?_
  intro body body' r3 hφ hw3 hp3 hy2
  rcases expectTag_sim nm m2 hw3 hp3.1 with ⟨h1, h2⟩ | ⟨xs2, d2, rr, hx2, hd2, hrr, hle2, h1, h2⟩
  · simp only [h1, h2]; rfl
  · simp only [h1, h2, ok_bind] at hy2 ⊢
    rcases expectK_TS (TS_tail hx2 hd2 rr) BLOCK_END (by decide) m3 with ⟨e1, e2⟩ | ⟨e1, e2⟩
    · rw [e1, e2]; rfl
    · rw [e1, e2]
      refine ⟨mk body, rr, rfl, ⟨?_, (hmk body).2⟩, hrr, rfl, Nat.le_trans hle2 hp3.2⟩
      rw [(hmk body).1, hφ]

/-- what the `for` handler does with what follows the loop body -/
def forEnd (g : Nat) (key : Option Bytes) (val : Bytes) (seq : Expr) (body : List Node) (r5 : List Token) :
    R (Node × List Token) :=
  match r5 with
  | s :: n :: r6 =>
    if (s.kind != BLOCK_START) = true then perr "unexpected end of template, expected endfor"
    else if (n.kind != NAME) = true then perr "expected block name"
    else if (n.val == b "else") = true then
      expectK BLOCK_END "expected block end after else" r6 >>= fun r7 =>
      parseOuter g r7 >>= fun y =>
      expectTag "endfor" "expected endfor" y.2 >>= fun r9 =>
      expectK BLOCK_END "expected block end after endfor" r9 >>= fun r10 =>
      pure (Node.forN key val seq body y.1, r10)
    else if (n.val == b "endfor") = true then
      expectK BLOCK_END "expected block end after endfor" r6 >>= fun r7 =>
      pure (Node.forN key val seq body [], r7)
    else perr "expected else or endfor"
  | [s] =>
    if (s.kind != BLOCK_START) = true then perr "unexpected end of template, expected endfor"
    else perr "expected block name"
  | [] => perr "unexpected end of template, expected endfor"

theorem forEnd_sim {f : Nat} (ih : SimAt f) (k : Nat) (key : Option Bytes) (val : Bytes) (seq : Expr)
    (body body' : List Node) (hb : stripL body = body') (r5 : List Token) (hw : WFo r5) (hh : HeadOK r5)
    (hk5 : extra r5 ≤ k) (B : Nat) (hB : extra r5 ≤ B)
    (hy : forEnd f key val seq body' (dropEmptyText r5) ≠ fuelErr) :
    RelR PhiN (fun r2 => extra r2 ≤ B) (forEnd (f + k) key val seq body r5)
      (forEnd f key val seq body' (dropEmptyText r5)) := by
  cases r5 with
  | nil => rfl
  | cons s l =>
    rw [D_cons_keep hh.keep] at hy ⊢
    rcases hh s l rfl with hs | hs
    · have hne : (s.kind != BLOCK_START) = true := by rw [hs]; decide
      have hX : ∀ g bd l', forEnd g key val seq bd (s :: l') = perr "unexpected end of template, expected endfor" := by
        intro g bd l'
        unfold forEnd
        cases l' <;> simp [hne]
      rw [hX, hX]; rfl
    · obtain ⟨xs, d, rr, rfl, hx, hd, hr, _⟩ := hw.block_inv hs
      rw [D_append_allK hx, D_cons_keep hd.keep] at hy ⊢
      have hle := extra_tag_le s xs d rr
      have hsb : (s.kind != BLOCK_START) = false := by simp [hs]
      cases xs with
      | nil =>
        have hdn : (d.kind != NAME) = true := by simp [hd.endTok.kinds.1]
        simp only [List.nil_append, forEnd, hsb, hdn, Bool.false_eq_true, if_false, if_true]
        rfl
      | cons n xs' =>
        rw [allK_cons] at hx
        simp only [List.cons_append, forEnd, hsb, Bool.false_eq_true, if_false] at hy ⊢
        by_cases hn : (n.kind != NAME) = true
        · simp only [hn, if_true]; rfl
        · simp only [hn, Bool.false_eq_true, if_false] at hy ⊢
          by_cases h1 : (n.val == b "else") = true
          · simp only [h1, if_true] at hy ⊢
            rcases expectK_TS (TS_tail hx.2 hd rr) BLOCK_END (by decide) "expected block end after else" with
              ⟨e1, e2⟩ | ⟨e1, e2⟩
            · rw [e1, e2]; rfl
            rw [e2] at hy
            rw [e1, e2]
            simp only [ok_bind] at hy ⊢
            refine RelR.bind hy (fun h => ih.outer k rr hr (Nat.le_trans hle hk5) h) ?_
            intro els els' r8 hφ hw8 hp8 hy2
            rcases expectTag_sim "endfor" "expected endfor" hw8 hp8.1 with ⟨h1', h2'⟩ |
              ⟨xs2, d2, r9, hx2, hd2, hr9, hle2, h1', h2'⟩
            · simp only [h1', h2']; rfl
            · simp only [h1', h2', ok_bind] at hy2 ⊢
              rcases expectK_TS (TS_tail hx2 hd2 r9) BLOCK_END (by decide) "expected block end after endfor" with
                ⟨e3, e4⟩ | ⟨e3, e4⟩
              · rw [e3, e4]; rfl
              · rw [e3, e4]
                refine ⟨Node.forN key val seq body els, r9, rfl, ⟨?_, by intro s h; cases h⟩, hr9, rfl, ?_⟩
                · show Node.forN key val seq (stripL body) (stripL els) = _
                  rw [hb, hφ]
                · exact Nat.le_trans hle2 (Nat.le_trans hp8.2 (Nat.le_trans hle hB))
          · simp only [h1, Bool.false_eq_true, if_false] at hy ⊢
            by_cases h2 : (n.val == b "endfor") = true
            · simp only [h2, if_true] at hy ⊢
              rcases expectK_TS (TS_tail hx.2 hd rr) BLOCK_END (by decide) "expected block end after endfor" with
                ⟨e1, e2⟩ | ⟨e1, e2⟩
              · rw [e1, e2]; rfl
              · rw [e1, e2]
                refine ⟨Node.forN key val seq body [], rr, rfl, ⟨?_, by intro s h; cases h⟩, hr, rfl,
                  Nat.le_trans hle hB⟩
                show Node.forN key val seq (stripL body) (stripL []) = _
                rw [hb]; rfl
            · simp only [h2, Bool.false_eq_true, if_false]
              rfl

/-- the `for` handler after the loop variables -/
def forK (g : Nat) (key : Option Bytes) (val : Bytes) (r1 : List Token) : R (Node × List Token) :=
  match r1 with
  | i :: r2 =>
    if (!isName i "in") = true then perr "expected 'in' keyword after variable name"
    else
      parseExpression (exprFuel r2) r2 >>= fun x =>
      expectK BLOCK_END "expected block end after for statement" x.2 >>= fun r4 =>
      parseOuter g r4 >>= fun y => forEnd g key val x.1 y.1 y.2
  | [] => perr "expected 'in' keyword after variable name"

theorem forK_sim {f : Nat} (ih : SimAt f) (k : Nat) (key : Option Bytes) (val : Bytes) (r : List Token)
    (hr : WFo r) (hkr : extra r ≤ k) {L L' : List Token} (hL : TS r (dropEmptyText r) L L')
    (hy : forK f key val L' ≠ fuelErr) :
    RelR PhiN (fun r2 => extra r2 ≤ extra r) (forK (f + k) key val L) (forK f key val L') := by
  rcases hL.cases with ⟨d, hd, rfl, rfl⟩ | ⟨i, t, t', hi, rfl, rfl, ht⟩
  · have : (!isName d "in") = true := by simp [hd.isName]
    simp only [forK, this, if_true]
    rfl
  · simp only [forK] at hy ⊢
    by_cases hin : (!isName i "in") = true
    · simp only [hin, if_true]; rfl
    · simp only [hin, Bool.false_eq_true, if_false] at hy ⊢
      obtain ⟨xs, d, hx, hd, rfl, rfl⟩ := ht
      have hd' : IsEnd d ∨ True := .inr trivial
      -- `d` is an end token of the expression parsers; `expectK BLOCK_END` decides whether it is the block end
      have hpe := peX (r := r) (r' := dropEmptyText r) ⟨xs, d, hx, hd, rfl, rfl⟩ (D_length r) (bind_ne_fuel hy)
      cases hye : parseExpression (exprFuel (xs ++ d :: dropEmptyText r)) (xs ++ d :: dropEmptyText r) with
      | error e =>
        rw [hye] at hpe
        cases hxe : parseExpression (exprFuel (xs ++ d :: r)) (xs ++ d :: r) with
        | error e' => rw [hxe] at hpe; simp only [RRel] at hpe; subst hpe; rfl
        | ok b => rw [hxe] at hpe; simp [RRel] at hpe
      | ok b' =>
        obtain ⟨e, u'⟩ := b'
        rw [hye] at hpe hy
        cases hxe : parseExpression (exprFuel (xs ++ d :: r)) (xs ++ d :: r) with
        | error e' => rw [hxe] at hpe; simp [RRel] at hpe
        | ok b =>
          obtain ⟨e2, u⟩ := b
          rw [hxe] at hpe
          simp only [RRel] at hpe
          obtain ⟨rfl, hu⟩ := hpe
          simp only [ok_bind] at hy ⊢
          rcases expectK_TS hu BLOCK_END (by decide) "expected block end after for statement" with ⟨h1, h2⟩ | ⟨h1, h2⟩
          · rw [h1, h2]; rfl
          · rw [h2] at hy
            rw [h1, h2]
            simp only [ok_bind] at hy ⊢
            refine RelR.bind hy (fun h => ih.outer k r hr hkr h) ?_
            intro body body' r5 hφ hw5 hp5 hy2
            exact forEnd_sim ih k key val e2 body body' hφ r5 hw5 hp5.1 (Nat.le_trans hp5.2 hkr) _ hp5.2 hy2

/-- the `for` handler after the first loop variable `v` -/
def forHdr (g : Nat) (v : Token) (r0 : List Token) : R (Node × List Token) :=
  match r0 with
  | c :: v2 :: r' =>
    if isP c 44 = true then
      (if (v2.kind == NAME) = true then forK g (some v.val) v2.val r'
       else perr "expected value variable name after comma")
    else forK g none v.val r0
  | [c] => if isP c 44 = true then perr "expected value variable name after comma" else forK g none v.val r0
  | [] => forK g none v.val r0

theorem forHdr_end (g : Nat) (v d : Token) (hd : EndTok d) (l : List Token) :
    forHdr g v (d :: l) = forK g none v.val (d :: l) := by
  cases l <;> simp [forHdr, hd.isP]

theorem forHdr_sim {f : Nat} (ih : SimAt f) (k : Nat) (v : Token) (r : List Token)
    (hr : WFo r) (hkr : extra r ≤ k) {L L' : List Token} (hL : TS r (dropEmptyText r) L L')
    (hy : forHdr f v L' ≠ fuelErr) :
    RelR PhiN (fun r2 => extra r2 ≤ extra r) (forHdr (f + k) v L) (forHdr f v L') := by
  rcases hL.cases with ⟨d, hd, rfl, rfl⟩ | ⟨c, t, t', hc, rfl, rfl, ht⟩
  · rw [forHdr_end _ _ _ hd] at hy ⊢
    rw [forHdr_end _ _ _ hd]
    exact forK_sim ih k none v.val r hr hkr (TS.end_ hd) hy
  · rcases ht.cases with ⟨d, hd, rfl, rfl⟩ | ⟨v2, t2, t2', hv2, rfl, rfl, ht2⟩
    · simp only [forHdr] at hy ⊢
      by_cases hcp : isP c 44 = true
      · have : (d.kind == NAME) = false := by simp [hd.kinds.1]
        simp only [hcp, if_true, this, Bool.false_eq_true, if_false]
        rfl
      · simp only [hcp, Bool.false_eq_true, if_false] at hy ⊢
        exact forK_sim ih k none v.val r hr hkr (TS.cons hc (TS.end_ hd)) hy
    · simp only [forHdr] at hy ⊢
      by_cases hcp : isP c 44 = true
      · simp only [hcp, if_true] at hy ⊢
        by_cases hvn : (v2.kind == NAME) = true
        · simp only [hvn, if_true] at hy ⊢
          exact forK_sim ih k _ _ r hr hkr ht2 hy
        · simp only [hvn, Bool.false_eq_true, if_false]
          rfl
      · simp only [hcp, Bool.false_eq_true, if_false] at hy ⊢
        exact forK_sim ih k none v.val r hr hkr (TS.cons hc (TS.cons hv2 ht2)) hy

theorem parseTag_for (g : Nat) (v : Token) (r0 : List Token) (hv : (v.kind != NAME) = false) :
    parseTag (g+1) (b "for") (v :: r0) = forHdr g v r0 := by
  unfold parseTag
  simp only [show (b "for" == b "if") = false from by decide +kernel,
    show (b "for" == b "for") = true from by decide +kernel, Bool.false_eq_true, if_false, if_true, hv]
  cases r0 with
  | nil => simp only [forHdr, pure_eq_ok, ok_bind]; rfl
  | cons c t =>
    cases t with
    | nil =>
      simp only [forHdr]
      by_cases hc : isP c 44 = true
      · simp only [hc, if_true]; rfl
      · simp only [hc, Bool.false_eq_true, if_false, pure_eq_ok, ok_bind]; rfl
    | cons v2 r' =>
      simp only [forHdr]
      by_cases hc : isP c 44 = true
      · simp only [hc, if_true]
        by_cases hv2 : (v2.kind == NAME) = true
        · simp only [hv2, if_true, pure_eq_ok, ok_bind]; rfl
        · simp only [hv2, Bool.false_eq_true, if_false]; rfl
      · simp only [hc, Bool.false_eq_true, if_false, pure_eq_ok, ok_bind]; rfl

/-- the `set` handler after the first expression -/
def setTail (name : Bytes) (e : Expr) (r2 : List Token) : R (Node × List Token) :=
  match r2 with
  | o :: r' =>
    if (o.kind == OPERATOR && o.val != [61]) = true then
      parseExpression (exprFuel r') r' >>= fun x =>
      expectK BLOCK_END "expected block end token after set expression" x.2 >>= fun r4 =>
      pure (Node.setN name (Expr.badBinary e x.1), r4)
    else
      expectK BLOCK_END "expected block end token after set expression" r2 >>= fun r4 => pure (Node.setN name e, r4)
  | [] => expectK BLOCK_END "expected block end token after set expression" r2 >>= fun r4 => pure (Node.setN name e, r4)

def setHdr (ts : List Token) : R (Node × List Token) :=
  match ts with
  | v :: eq :: r1 =>
    if (v.kind != NAME) = true then perr "expected variable name after set"
    else if (!(eq.kind == OPERATOR && eq.val == [61])) = true then perr "expected '=' after variable name"
    else parseExpression (exprFuel r1) r1 >>= fun x => setTail v.val x.1 x.2
  | [v] => if (v.kind != NAME) = true then perr "expected variable name after set" else perr "expected '=' after variable name"
  | [] => perr "expected variable name after set"

theorem parseTag_set (g : Nat) (ts : List Token) : parseTag (g+1) (b "set") ts = setHdr ts := by
  unfold parseTag
  simp only [show (b "set" == b "if") = false from by decide +kernel,
    show (b "set" == b "for") = false from by decide +kernel,
    show (b "set" == b "set") = true from by decide +kernel, Bool.false_eq_true, if_false, if_true]
  cases ts with
  | nil => rfl
  | cons v t =>
    cases t with
    | nil => rfl
    | cons eq r1 =>
      simp only [setHdr]
      by_cases hv : (v.kind != NAME) = true
      · simp only [hv, if_true]
      · simp only [hv, Bool.false_eq_true, if_false]
        by_cases heq : (!(eq.kind == OPERATOR && eq.val == [61])) = true
        · simp only [heq, if_true]
        · simp only [heq, Bool.false_eq_true, if_false]
          apply bind_congr_ok
          intro x _
          obtain ⟨e, r2⟩ := x
          simp only [setTail]
          cases r2 with
          | nil => rfl
          | cons o r' =>
            simp only
            by_cases ho : (o.kind == OPERATOR && o.val != [61]) = true
            · simp only [ho, if_true]
              cases parseExpression (exprFuel r') r' <;> rfl
            · simp only [ho, Bool.false_eq_true, if_false]
              rfl

theorem expectK_end_sim {r : List Token} (hr : WFo r) {u u' : List Token} (hu : TS r (dropEmptyText r) u u')
    (msg : String) (n : Node) (hn : Leaf n) :
    RelR PhiN (fun r2 => extra r2 ≤ extra r) (expectK BLOCK_END msg u >>= fun r4 => pure (n, r4))
      (expectK BLOCK_END msg u' >>= fun r4 => pure (n, r4)) := by
  rcases expectK_TS hu BLOCK_END (by decide) msg with ⟨e1, e2⟩ | ⟨e1, e2⟩
  · rw [e1, e2]; rfl
  · rw [e1, e2]
    exact ⟨n, r, rfl, hn, hr, rfl, Nat.le_refl _⟩

theorem setTail_sim (name : Bytes) (e : Expr) {r : List Token} (hr : WFo r) {u u' : List Token}
    (hu : TS r (dropEmptyText r) u u') (hy : setTail name e u' ≠ fuelErr) :
    RelR PhiN (fun r2 => extra r2 ≤ extra r) (setTail name e u) (setTail name e u') := by
  rcases hu.cases with ⟨d, hd, rfl, rfl⟩ | ⟨o, t, t', ho, rfl, rfl, ht⟩
  · have : (d.kind == OPERATOR && d.val != [61]) = false := by simp [hd.kinds.2.2.2.1]
    simp only [setTail, this, Bool.false_eq_true, if_false]
    exact expectK_end_sim hr (TS.end_ hd) _ _ ⟨rfl, by intro s h; cases h⟩
  · simp only [setTail] at hy ⊢
    by_cases hc : (o.kind == OPERATOR && o.val != [61]) = true
    · simp only [hc, if_true] at hy ⊢
      refine (peX_end ht (D_length r) BLOCK_END (by decide) _ (fun x => Node.setN name (Expr.badBinary e x)) hy).toRelR hr ?_
      rintro n ⟨x, rfl⟩
      exact ⟨rfl, by intro s h; cases h⟩
    · simp only [hc, Bool.false_eq_true, if_false]
      exact expectK_end_sim hr (TS.cons ho ht) _ _ ⟨rfl, by intro s h; cases h⟩

theorem setHdr_end (d : Token) (hd : EndTok d) (l : List Token) :
    setHdr (d :: l) = perr "expected variable name after set" := by
  have : (d.kind != NAME) = true := by simp [hd.kinds.1]
  cases l <;> simp [setHdr, this]

theorem setHdr_sim {r : List Token} (hr : WFo r) {L L' : List Token} (hL : TS r (dropEmptyText r) L L')
    (hy : setHdr L' ≠ fuelErr) :
    RelR PhiN (fun r2 => extra r2 ≤ extra r) (setHdr L) (setHdr L') := by
  rcases hL.cases with ⟨d, hd, rfl, rfl⟩ | ⟨v, t, t', hv, rfl, rfl, ht⟩
  · rw [setHdr_end _ hd, setHdr_end _ hd]; rfl
  · rcases ht.cases with ⟨d, hd, rfl, rfl⟩ | ⟨eq, t2, t2', heq, rfl, rfl, ht2⟩
    · have h2 : (!(d.kind == OPERATOR && d.val == [61])) = true := by simp [hd.kinds.2.2.2.1]
      simp only [setHdr, h2, if_true]
      by_cases hvn : (v.kind != NAME) = true
      · simp only [hvn, if_true]; rfl
      · simp only [hvn, Bool.false_eq_true, if_false]; rfl
    · simp only [setHdr] at hy ⊢
      by_cases hvn : (v.kind != NAME) = true
      · simp only [hvn, if_true]; rfl
      · simp only [hvn, Bool.false_eq_true, if_false] at hy ⊢
        by_cases he : (!(eq.kind == OPERATOR && eq.val == [61])) = true
        · simp only [he, if_true]; rfl
        · simp only [he, Bool.false_eq_true, if_false] at hy ⊢
          have hpe := peX ht2 (D_length r) (bind_ne_fuel hy)
          cases hye : parseExpression (exprFuel t2') t2' with
          | error e =>
            rw [hye] at hpe
            cases hxe : parseExpression (exprFuel t2) t2 with
            | error e' => rw [hxe] at hpe; simp only [RRel] at hpe; subst hpe; rfl
            | ok b => rw [hxe] at hpe; simp [RRel] at hpe
          | ok b' =>
            obtain ⟨e, u'⟩ := b'
            rw [hye] at hpe hy
            cases hxe : parseExpression (exprFuel t2) t2 with
            | error e' => rw [hxe] at hpe; simp [RRel] at hpe
            | ok b =>
              obtain ⟨e2, u⟩ := b
              rw [hxe] at hpe
              simp only [RRel] at hpe
              obtain ⟨rfl, hu⟩ := hpe
              simp only [ok_bind] at hy ⊢
              exact setTail_sim v.val e2 hr hu hy

/-- `parseExpression`, then a continuation that is itself insensitive to what follows the end token -/
theorem peThen_sim {r : List Token} (tail : Expr → List Token → R (Node × List Token))
    (htail : ∀ e u u', TS r (dropEmptyText r) u u' → tail e u' ≠ fuelErr →
      RelR PhiN (fun r2 => extra r2 ≤ extra r) (tail e u) (tail e u'))
    {L L' : List Token} (hL : TS r (dropEmptyText r) L L')
    (hy : (parseExpression (exprFuel L') L' >>= fun x => tail x.1 x.2) ≠ fuelErr) :
    RelR PhiN (fun r2 => extra r2 ≤ extra r) (parseExpression (exprFuel L) L >>= fun x => tail x.1 x.2)
      (parseExpression (exprFuel L') L' >>= fun x => tail x.1 x.2) := by
  have hpe := peX hL (D_length r) (bind_ne_fuel hy)
  cases hye : parseExpression (exprFuel L') L' with
  | error e =>
    rw [hye] at hpe
    cases hxe : parseExpression (exprFuel L) L with
    | error e' => rw [hxe] at hpe; simp only [RRel] at hpe; subst hpe; rfl
    | ok b => rw [hxe] at hpe; simp [RRel] at hpe
  | ok b' =>
    obtain ⟨e, u'⟩ := b'
    rw [hye] at hpe hy
    cases hxe : parseExpression (exprFuel L) L with
    | error e' => rw [hxe] at hpe; simp [RRel] at hpe
    | ok b =>
      obtain ⟨e2, u⟩ := b
      rw [hxe] at hpe
      simp only [RRel] at hpe
      obtain ⟨rfl, hu⟩ := hpe
      simp only [ok_bind] at hy ⊢
      exact htail e2 u u' hu hy

/-- the `import` handler after the template path -/
def importTail (e : Expr) (r1 : List Token) : R (Node × List Token) :=
  match r1 with
  | a :: al :: r2 =>
    if (!isName a "as") = true then perr "expected 'as' after template path"
    else if (al.kind != NAME) = true then perr "expected identifier after 'as'"
    else expectK BLOCK_END "expected block end token after import statement" r2 >>= fun r3 =>
      pure (Node.importN e al.val, r3)
  | [a] => if (!isName a "as") = true then perr "expected 'as' after template path" else perr "expected identifier after 'as'"
  | [] => perr "expected 'as' after template path"

theorem parseTag_import (g : Nat) (ts : List Token) :
    parseTag (g+1) (b "import") ts = (parseExpression (exprFuel ts) ts >>= fun x => importTail x.1 x.2) := by
  unfold parseTag
  simp only [show (b "import" == b "if") = false from by decide +kernel,
    show (b "import" == b "for") = false from by decide +kernel,
    show (b "import" == b "set") = false from by decide +kernel,
    show (b "import" == b "do") = false from by decide +kernel,
    show (b "import" == b "block") = false from by decide +kernel,
    show (b "import" == b "extends") = false from by decide +kernel,
    show (b "import" == b "include") = false from by decide +kernel,
    show (b "import" == b "macro") = false from by decide +kernel,
    show (b "import" == b "import") = true from by decide +kernel, Bool.false_eq_true, if_false, if_true]
  apply bind_congr_ok
  intro x _
  obtain ⟨e, r1⟩ := x
  simp only [importTail]
  cases r1 with
  | nil => rfl
  | cons a t => cases t <;> rfl

theorem importTail_sim (e : Expr) {r : List Token} (hr : WFo r) {u u' : List Token}
    (hu : TS r (dropEmptyText r) u u') :
    RelR PhiN (fun r2 => extra r2 ≤ extra r) (importTail e u) (importTail e u') := by
  rcases hu.cases with ⟨d, hd, rfl, rfl⟩ | ⟨a, t, t', ha, rfl, rfl, ht⟩
  · have hX : ∀ l, importTail e (d :: l) = perr "expected 'as' after template path" := by
      intro l
      have : (!isName d "as") = true := by simp [hd.isName]
      cases l <;> simp [importTail, this]
    rw [hX, hX]; rfl
  · rcases ht.cases with ⟨d, hd, rfl, rfl⟩ | ⟨al, t2, t2', hal, rfl, rfl, ht2⟩
    · have hdn : (d.kind != NAME) = true := by simp [hd.kinds.1]
      simp only [importTail, hdn, if_true]
      by_cases h1 : (!isName a "as") = true
      · simp only [h1, if_true]; rfl
      · simp only [h1, Bool.false_eq_true, if_false]; rfl
    · simp only [importTail]
      by_cases h1 : (!isName a "as") = true
      · simp only [h1, if_true]; rfl
      · simp only [h1, Bool.false_eq_true, if_false]
        by_cases h2 : (al.kind != NAME) = true
        · simp only [h2, if_true]; rfl
        · simp only [h2, Bool.false_eq_true, if_false]
          exact expectK_end_sim hr ht2 _ _ ⟨rfl, by intro s h; cases h⟩

/-- where the `do` handler finds an `=` among the first three tokens -/
def doEqPos (ts : List Token) : Option Nat :=
  match ts with
  | a :: c :: d :: _ =>
    if (a.kind == OPERATOR && a.val == [61]) = true then some 0 else if (a.kind == BLOCK_END) = true then none
    else if (c.kind == OPERATOR && c.val == [61]) = true then some 1 else if (c.kind == BLOCK_END) = true then none
    else if (d.kind == OPERATOR && d.val == [61]) = true then some 2 else none
  | [a, c] =>
    if (a.kind == OPERATOR && a.val == [61]) = true then some 0 else if (a.kind == BLOCK_END) = true then none
    else if (c.kind == OPERATOR && c.val == [61]) = true then some 1 else none
  | [a] => if (a.kind == OPERATOR && a.val == [61]) = true then some 0 else none
  | [] => none

def doExpr (mk : Expr → Node) (ts : List Token) : R (Node × List Token) :=
  parseExpression (exprFuel ts) ts >>= fun x =>
  expectK BLOCK_END "expecting end of do tag" x.2 >>= fun r3 => pure (mk x.1, r3)

def doHdr (ts : List Token) : R (Node × List Token) :=
  match ts with
  | [] => perr "unexpected end of template"
  | t0 :: _ =>
    if (t0.kind == BLOCK_END) = true then perr "do tag cannot be empty"
    else match doEqPos ts with
      | some (p+1) =>
        if (t0.kind != NAME) = true then perr "invalid variable name in do tag assignment"
        else doExpr (Node.setN t0.val) (ts.drop (p + 2))
      | _ => doExpr Node.doN ts

theorem parseTag_do (g : Nat) (ts : List Token) : parseTag (g+1) (b "do") ts = doHdr ts := by
  unfold parseTag
  simp only [show (b "do" == b "if") = false from by decide +kernel,
    show (b "do" == b "for") = false from by decide +kernel,
    show (b "do" == b "set") = false from by decide +kernel,
    show (b "do" == b "do") = true from by decide +kernel, Bool.false_eq_true, if_false, if_true]
  cases ts with
  | nil => rfl
  | cons t0 t =>
    simp only [doHdr]
    by_cases h0 : (t0.kind == BLOCK_END) = true
    · simp only [h0, if_true]
    · simp only [h0, Bool.false_eq_true, if_false]
      rfl


theorem doExpr_sim (mk : Expr → Node) (hmk : ∀ e, Leaf (mk e)) {r : List Token} (hr : WFo r) {L L' : List Token}
    (hL : TS r (dropEmptyText r) L L') (hy : doExpr mk L' ≠ fuelErr) :
    RelR PhiN (fun r2 => extra r2 ≤ extra r) (doExpr mk L) (doExpr mk L') := by
  refine (peX_end hL (D_length r) BLOCK_END (by decide) _ mk hy).toRelR hr ?_
  rintro n ⟨e, rfl⟩
  exact hmk e

theorem isEq_end {d : Token} (hd : EndTok d) : (d.kind == OPERATOR && d.val == [61]) = false := by
  simp [hd.kinds.2.2.2.1]

theorem exprKind_not_blockEnd {x : Token} (h : ExprKind x.kind) : (x.kind == BLOCK_END) = false := by
  have : x.kind ≠ BLOCK_END := by
    intro h2; rw [h2] at h; exact absurd h (by decide)
  simpa using this

theorem doHdr_sim {r : List Token} (hr : WFo r) {xs : List Token} {d : Token} (hx : AllK xs) (hd : IsEnd d)
    (hdk : d.kind = BLOCK_END) (hy : doHdr (xs ++ d :: dropEmptyText r) ≠ fuelErr) :
    RelR PhiN (fun r2 => extra r2 ≤ extra r) (doHdr (xs ++ d :: r)) (doHdr (xs ++ d :: dropEmptyText r)) := by
  have hdb : (d.kind == BLOCK_END) = true := by simp [hdk]
  have hde := isEq_end hd.endTok
  have leafSet : ∀ (nm : Bytes) (e : Expr), Leaf (Node.setN nm e) := fun _ _ => ⟨rfl, by intro s h; cases h⟩
  have leafDo : ∀ (e : Expr), Leaf (Node.doN e) := fun _ => ⟨rfl, by intro s h; cases h⟩
  cases xs with
  | nil =>
    simp only [List.nil_append, doHdr, hdb, if_true]
    rfl
  | cons a xs1 =>
    rw [allK_cons] at hx
    have hab := exprKind_not_blockEnd hx.1
    cases xs1 with
    | nil =>
      -- `a`, then the end token: the position of `=` does not depend on what follows
      have hpos : ∀ l, doEqPos (a :: d :: l) = if (a.kind == OPERATOR && a.val == [61]) = true then some 0 else none := by
        intro l
        cases l <;> simp [doEqPos, hab, hde, hdb]
      simp only [List.cons_append, List.nil_append, doHdr, hab, Bool.false_eq_true, if_false, hpos] at hy ⊢
      by_cases ha : (a.kind == OPERATOR && a.val == [61]) = true
      · simp only [ha, if_true] at hy ⊢
        exact doExpr_sim _ leafDo hr (TS.cons hx.1 (TS.end_ hd.endTok)) hy
      · simp only [ha, Bool.false_eq_true, if_false] at hy ⊢
        exact doExpr_sim _ leafDo hr (TS.cons hx.1 (TS.end_ hd.endTok)) hy
    | cons c xs2 =>
      rw [allK_cons] at hx
      have hcb := exprKind_not_blockEnd hx.2.1
      cases xs2 with
      | nil =>
        have hpos : ∀ l, doEqPos (a :: c :: d :: l) =
            if (a.kind == OPERATOR && a.val == [61]) = true then some 0
            else if (c.kind == OPERATOR && c.val == [61]) = true then some 1 else none := by
          intro l
          simp [doEqPos, hab, hcb, hde]
        simp only [List.cons_append, List.nil_append, doHdr, hab, Bool.false_eq_true, if_false, hpos] at hy ⊢
        by_cases ha : (a.kind == OPERATOR && a.val == [61]) = true
        · simp only [ha, if_true] at hy ⊢
          exact doExpr_sim _ leafDo hr (TS.cons hx.1 (TS.cons hx.2.1 (TS.end_ hd.endTok))) hy
        · simp only [ha, Bool.false_eq_true, if_false] at hy ⊢
          by_cases hc : (c.kind == OPERATOR && c.val == [61]) = true
          · simp only [hc, if_true] at hy ⊢
            by_cases hn : (a.kind != NAME) = true
            · simp only [hn, if_true]; rfl
            · simp only [hn, Bool.false_eq_true, if_false, List.drop_succ_cons, List.drop_zero] at hy ⊢
              exact doExpr_sim _ (leafSet _) hr (TS.end_ hd.endTok) hy
          · simp only [hc, Bool.false_eq_true, if_false] at hy ⊢
            exact doExpr_sim _ leafDo hr (TS.cons hx.1 (TS.cons hx.2.1 (TS.end_ hd.endTok))) hy
      | cons e xs3 =>
        rw [allK_cons] at hx
        have hpos : ∀ l, doEqPos (a :: c :: e :: l) =
            if (a.kind == OPERATOR && a.val == [61]) = true then some 0
            else if (c.kind == OPERATOR && c.val == [61]) = true then some 1
            else if (e.kind == OPERATOR && e.val == [61]) = true then some 2 else none := by
          intro l
          simp [doEqPos, hab, hcb]
        have htail := TS_tail hx.2.2.2 hd r
        simp only [List.cons_append, doHdr, hab, Bool.false_eq_true, if_false, hpos] at hy ⊢
        by_cases ha : (a.kind == OPERATOR && a.val == [61]) = true
        · simp only [ha, if_true] at hy ⊢
          exact doExpr_sim _ leafDo hr (TS.cons hx.1 (TS.cons hx.2.1 (TS.cons hx.2.2.1 htail))) hy
        · simp only [ha, Bool.false_eq_true, if_false] at hy ⊢
          by_cases hc : (c.kind == OPERATOR && c.val == [61]) = true
          · simp only [hc, if_true] at hy ⊢
            by_cases hn : (a.kind != NAME) = true
            · simp only [hn, if_true]; rfl
            · simp only [hn, Bool.false_eq_true, if_false, List.drop_succ_cons, List.drop_zero] at hy ⊢
              exact doExpr_sim _ (leafSet _) hr (TS.cons hx.2.2.1 htail) hy
          · simp only [hc, Bool.false_eq_true, if_false] at hy ⊢
            by_cases he : (e.kind == OPERATOR && e.val == [61]) = true
            · simp only [he, if_true] at hy ⊢
              by_cases hn : (a.kind != NAME) = true
              · simp only [hn, if_true]; rfl
              · simp only [hn, Bool.false_eq_true, if_false, List.drop_succ_cons, List.drop_zero] at hy ⊢
                exact doExpr_sim _ (leafSet _) hr htail hy
            · simp only [he, Bool.false_eq_true, if_false] at hy ⊢
              exact doExpr_sim _ leafDo hr (TS.cons hx.1 (TS.cons hx.2.1 (TS.cons hx.2.2.1 htail))) hy

/-- results of header functions that consume the end token: same error, or same value and the rests `r` / `r'` -/
def RRelV {α} (r r' : List Token) (x y : R (α × List Token)) : Prop :=
  match x, y with
  | .ok (a, u), .ok (a', u') => a = a' ∧ u = r ∧ u' = r'
  | .error e, .error e' => e = e'
  | _, _ => False

theorem RRelV.bindPure {α β} {r r' : List Token} {x y : R (α × List Token)} (g : α → β)
    (h : RRelV r r' x y) :
    RRelV r r' (x >>= fun a => pure (g a.1, a.2)) (y >>= fun a => pure (g a.1, a.2)) := by
  cases x with
  | error e =>
    cases y with
    | error e' => simp only [RRelV] at h; subst h; exact rfl
    | ok b => simp [RRelV] at h
  | ok a =>
    cases y with
    | error e' => simp [RRelV] at h
    | ok b =>
      obtain ⟨a1, u⟩ := a
      obtain ⟨b1, u'⟩ := b
      simp only [RRelV] at h
      obtain ⟨rfl, rfl, rfl⟩ := h
      exact ⟨rfl, rfl, rfl⟩

/-- `parseFromNames` reads up to the block end token and never beyond it -/
theorem fromNames_loc (r r' : List Token) {d : Token} (hdE : EndTok d) (hdk : d.kind = BLOCK_END) : ∀ (g : Nat) (xs : List Token),
    AllK xs → RRelV r r' (parseFromNames g (xs ++ d :: r)) (parseFromNames g (xs ++ d :: r'))
  | 0, xs, _ => by simp only [parseFromNames]; exact rfl
  | g+1, xs, hx => by
    have hdb : (d.kind == BLOCK_END) = true := by simp [hdk]
    cases xs with
    | nil =>
      simp only [List.nil_append, parseFromNames, hdb, if_true]
      exact ⟨rfl, rfl, rfl⟩
    | cons t xs1 =>
      rw [allK_cons] at hx
      have htb := exprKind_not_blockEnd hx.1
      by_cases htn : (t.kind == NAME) = true
      · cases xs1 with
        | nil =>
          have hX : ∀ l, parseFromNames (g+1) (t :: d :: l) =
              (parseFromNames g (d :: l) >>= fun x => pure ((t.val, t.val) :: x.1, x.2)) := by
            intro l
            cases l <;> simp [parseFromNames, htb, htn, hdE.isName]
          simp only [List.cons_append, List.nil_append]
          rw [hX, hX]
          exact (fromNames_loc r r' hdE hdk g [] allK_nil).bindPure _
        | cons a xs2 =>
          rw [allK_cons] at hx
          cases xs2 with
          | nil =>
            simp only [List.cons_append, List.nil_append, parseFromNames, htb, htn, Bool.false_eq_true, if_false, if_true]
            have hdn : (d.kind == NAME) = false := by simp [hdE.kinds.1]
            by_cases has : isName a "as" = true
            · simp only [has, if_true, hdn, Bool.false_eq_true, if_false]
              exact (fromNames_loc r r' hdE hdk g [] allK_nil).bindPure _
            · simp only [has, Bool.false_eq_true, if_false]
              exact (fromNames_loc r r' hdE hdk g [a] ((allK_cons a []).mpr ⟨hx.2.1, allK_nil⟩)).bindPure _
          | cons al xs3 =>
            rw [allK_cons] at hx
            simp only [List.cons_append, parseFromNames, htb, htn, Bool.false_eq_true, if_false, if_true]
            by_cases has : isName a "as" = true
            · simp only [has, if_true]
              by_cases haln : (al.kind == NAME) = true
              · simp only [haln, if_true]
                exact (fromNames_loc r r' hdE hdk g xs3 hx.2.2.2).bindPure _
              · simp only [haln, Bool.false_eq_true, if_false]
                exact (fromNames_loc r r' hdE hdk g (al :: xs3) ((allK_cons al xs3).mpr hx.2.2)).bindPure _
            · simp only [has, Bool.false_eq_true, if_false]
              exact (fromNames_loc r r' hdE hdk g (a :: al :: xs3)
                ((allK_cons a _).mpr ⟨hx.2.1, (allK_cons al xs3).mpr hx.2.2⟩)).bindPure _
      · have hX : ∀ l, parseFromNames (g+1) (t :: l) = parseFromNames g l := by
          intro l
          cases l <;> simp [parseFromNames, htb, htn]
        simp only [List.cons_append]
        rw [hX, hX]
        exact fromNames_loc r r' hdE hdk g xs1 hx.2


theorem parseFromNames_mono {f f' : Nat} {ts : List Token} (hne : parseFromNames f ts ≠ .error .fuel) (hle : f ≤ f') :
    parseFromNames f' ts = parseFromNames f ts :=
  (FLe.chain (parseFromNames · ts) (fun f => (tmonoAt f).names ts) hle).eq_of_ne hne

/-- the `from` handler -/
def fromHdr (g : Nat) (ts : List Token) : R (Node × List Token) :=
  match ts with
  | p :: i :: r1 =>
    if ((p.kind == STRING || p.kind == NAME) && isName i "import") = true then
      match parseFromNames g r1 with
      | .ok (names, r2) =>
        if names.isEmpty = true then perr "expected 'import' after template path"
        else pure (Node.fromN (Expr.str (if (p.kind == NAME) = true then
            dropWhileEnd (fun c => c == 34 || c == 39) (p.val.dropWhile (fun c => c == 34 || c == 39)) else p.val)) names, r2)
      | .error e => .error e
    else perr "expected 'import' after template path"
  | _ => perr "expected 'import' after template path"

theorem parseTag_from (g : Nat) (ts : List Token) : parseTag (g+1) (b "from") ts = fromHdr g ts := by
  unfold parseTag
  simp only [show (b "from" == b "if") = false from by decide +kernel,
    show (b "from" == b "for") = false from by decide +kernel,
    show (b "from" == b "set") = false from by decide +kernel,
    show (b "from" == b "do") = false from by decide +kernel,
    show (b "from" == b "block") = false from by decide +kernel,
    show (b "from" == b "extends") = false from by decide +kernel,
    show (b "from" == b "include") = false from by decide +kernel,
    show (b "from" == b "macro") = false from by decide +kernel,
    show (b "from" == b "import") = false from by decide +kernel,
    show (b "from" == b "from") = true from by decide +kernel, Bool.false_eq_true, if_false, if_true]
  rfl

theorem fromHdr_sim (f k : Nat) {r : List Token} (hr : WFo r) {xs : List Token} {d : Token} (hx : AllK xs)
    (hd : IsEnd d) (hdk : d.kind = BLOCK_END) (hy : fromHdr f (xs ++ d :: dropEmptyText r) ≠ fuelErr) :
    RelR PhiN (fun r2 => extra r2 ≤ extra r) (fromHdr (f + k) (xs ++ d :: r)) (fromHdr f (xs ++ d :: dropEmptyText r)) := by
  have hdE := hd.endTok
  cases xs with
  | nil =>
    have hX : ∀ g l, fromHdr g (d :: l) = perr "expected 'import' after template path" := by
      intro g l
      cases l <;> simp [fromHdr, hdE.kinds.1, hdE.kinds.2.2.1]
    simp only [List.nil_append]
    rw [hX, hX]; rfl
  | cons p xs1 =>
    rw [allK_cons] at hx
    cases xs1 with
    | nil =>
      have hX : ∀ g l, fromHdr g (p :: d :: l) = perr "expected 'import' after template path" := by
        intro g l
        simp [fromHdr, hdE.isName]
      simp only [List.cons_append, List.nil_append]
      rw [hX, hX]; rfl
    | cons i xs2 =>
      rw [allK_cons] at hx
      simp only [List.cons_append, fromHdr] at hy ⊢
      by_cases hc : ((p.kind == STRING || p.kind == NAME) && isName i "import") = true
      · simp only [hc, if_true] at hy ⊢
        have hne : parseFromNames f (xs2 ++ d :: dropEmptyText r) ≠ .error .fuel := by
          intro h; rw [h] at hy; exact hy rfl
        have hloc := fromNames_loc r (dropEmptyText r) hd.endTok hdk (f + k) xs2 hx.2.2
        rw [parseFromNames_mono hne (Nat.le_add_right f k)] at hloc
        cases hY : parseFromNames f (xs2 ++ d :: dropEmptyText r) with
        | error e =>
          rw [hY] at hloc
          cases hXr : parseFromNames (f + k) (xs2 ++ d :: r) with
          | error e' => rw [hXr] at hloc; simp only [RRelV] at hloc; subst hloc; rfl
          | ok b => rw [hXr] at hloc; simp [RRelV] at hloc
        | ok b' =>
          obtain ⟨names, u'⟩ := b'
          rw [hY] at hloc
          cases hXr : parseFromNames (f + k) (xs2 ++ d :: r) with
          | error e' => rw [hXr] at hloc; simp [RRelV] at hloc
          | ok b =>
            obtain ⟨names2, u⟩ := b
            rw [hXr] at hloc
            simp only [RRelV] at hloc
            obtain ⟨rfl, rfl, rfl⟩ := hloc
            simp only
            by_cases hem : names2.isEmpty = true
            · simp only [hem, if_true]; rfl
            · simp only [hem, Bool.false_eq_true, if_false]
              exact ⟨_, u, rfl, ⟨rfl, by intro s h; cases h⟩, hr, rfl, Nat.le_refl _⟩
      · simp only [hc, Bool.false_eq_true, if_false]; rfl

/-- results of `parseMacroParams` on `TS`-related streams -/
def RRel4 (r r' : List Token) (x y : R (List Bytes × List Bytes × List Expr × List Token)) : Prop :=
  match x, y with
  | .ok (a, c, e, u), .ok (a', c', e', u') => a = a' ∧ c = c' ∧ e = e' ∧ TS r r' u u'
  | .error e, .error e' => e = e'
  | _, _ => False

theorem RRel4.perr {r r' : List Token} (m : String) : RRel4 r r' (perr m) (perr m) := rfl

theorem parseMacroParams_mono {f f' : Nat} {ts : List Token} (hne : parseMacroParams f ts ≠ .error .fuel)
    (hle : f ≤ f') : parseMacroParams f' ts = parseMacroParams f ts :=
  (FLe.chain (parseMacroParams · ts) (fun f => (tmonoAt f).params ts) hle).eq_of_ne hne

/-- after a parameter (and its default): `,` and more parameters, or `)` -/
def mpTail (g : Nat) (nm : Bytes) (dn : List Bytes) (de : List Expr) (r1 : List Token) :
    R (List Bytes × List Bytes × List Expr × List Token) :=
  match r1 with
  | c :: r2 =>
    if isP c 44 = true then
      parseMacroParams g r2 >>= fun y => pure (nm :: y.1, dn ++ y.2.1, de ++ y.2.2.1, y.2.2.2)
    else if isP c 41 = true then pure ([nm], dn, de, r2)
    else perr "expected ')' after macro parameters"
  | [] => perr "expected ')' after macro parameters"

def mpStep (g : Nat) (ts : List Token) : R (List Bytes × List Bytes × List Expr × List Token) :=
  match ts with
  | n :: r =>
    if (n.kind != NAME) = true then perr "expected parameter name"
    else match r with
      | eq :: r' =>
        if (eq.kind == OPERATOR && eq.val == [61]) = true then
          parseExpression (exprFuel r') r' >>= fun x => mpTail g n.val [n.val] [x.1] x.2
        else mpTail g n.val [] [] r
      | [] => mpTail g n.val [] [] r
  | [] => perr "expected parameter name"

theorem parseMacroParams_step (g : Nat) (ts : List Token) : parseMacroParams (g+1) ts = mpStep g ts := by
  rw [parseMacroParams.eq_def]
  cases ts with
  | nil => rfl
  | cons n r =>
    simp only [mpStep]
    by_cases hn : (n.kind != NAME) = true
    · simp only [hn, if_true]
    · simp only [hn, Bool.false_eq_true, if_false]
      cases r with
      | nil => rfl
      | cons eq r' =>
        simp only
        by_cases he : (eq.kind == OPERATOR && eq.val == [61]) = true
        · simp only [he, if_true]
          cases parseExpression (exprFuel r') r' with
          | error e => rfl
          | ok x =>
            obtain ⟨e, r1⟩ := x
            simp only [ok_bind, pure_eq_ok, mpTail]
            cases r1 <;> rfl
        · simp only [he, Bool.false_eq_true, if_false, pure_eq_ok, ok_bind]
          rfl


theorem macroParams_loc (r r' : List Token) (hlen : r'.length ≤ r.length) : ∀ (g : Nat) (L L' : List Token),
    TS r r' L L' → parseMacroParams g L' ≠ fuelErr → RRel4 r r' (parseMacroParams g L) (parseMacroParams g L')
  | 0, L, L', _, hy => absurd (by simp [parseMacroParams, fuelErr]) hy
  | g+1, L, L', hL, hy => by
    rw [parseMacroParams_step] at hy ⊢
    rw [parseMacroParams_step]
    -- the tail `, more` / `)` on related streams
    have tailSim : ∀ (nm : Bytes) (dn : List Bytes) (de : List Expr) (u u' : List Token), TS r r' u u' →
        mpTail g nm dn de u' ≠ fuelErr → RRel4 r r' (mpTail g nm dn de u) (mpTail g nm dn de u') := by
      intro nm dn de u u' hu hyt
      rcases hu.cases with ⟨d, hd, rfl, rfl⟩ | ⟨c, t, t', hc, rfl, rfl, ht⟩
      · simp only [mpTail, hd.isP, Bool.false_eq_true, if_false]
        exact RRel4.perr _
      · simp only [mpTail] at hyt ⊢
        by_cases h1 : isP c 44 = true
        · simp only [h1, if_true] at hyt ⊢
          have ih := macroParams_loc r r' hlen g t t' ht (bind_ne_fuel hyt)
          cases hY : parseMacroParams g t' with
          | error e =>
            rw [hY] at ih
            cases hX : parseMacroParams g t with
            | error e' => rw [hX] at ih; simp only [RRel4] at ih; subst ih; exact rfl
            | ok b => rw [hX] at ih; simp [RRel4] at ih
          | ok b' =>
            obtain ⟨a', c', e', w'⟩ := b'
            rw [hY] at ih
            cases hX : parseMacroParams g t with
            | error e' => rw [hX] at ih; simp [RRel4] at ih
            | ok b =>
              obtain ⟨a, c2, e2, w⟩ := b
              rw [hX] at ih
              simp only [RRel4] at ih
              obtain ⟨rfl, rfl, rfl, hw⟩ := ih
              exact ⟨rfl, rfl, rfl, hw⟩
        · simp only [h1, Bool.false_eq_true, if_false]
          by_cases h2 : isP c 41 = true
          · simp only [h2, if_true]
            exact ⟨rfl, rfl, rfl, ht⟩
          · simp only [h2, Bool.false_eq_true, if_false]
            exact RRel4.perr _
    rcases hL.cases with ⟨d, hd, rfl, rfl⟩ | ⟨n, t, t', hn, rfl, rfl, ht⟩
    · have : (d.kind != NAME) = true := by simp [hd.kinds.1]
      simp only [mpStep, this, if_true]
      exact RRel4.perr _
    · simp only [mpStep] at hy ⊢
      by_cases hnn : (n.kind != NAME) = true
      · simp only [hnn, if_true]; exact RRel4.perr _
      · simp only [hnn, Bool.false_eq_true, if_false] at hy ⊢
        rcases ht.cases with ⟨d, hd, rfl, rfl⟩ | ⟨eq, t2, t2', heq, rfl, rfl, ht2⟩
        · simp only [isEq_end hd, Bool.false_eq_true, if_false] at hy ⊢
          exact tailSim _ _ _ _ _ (TS.end_ hd) hy
        · simp only at hy ⊢
          by_cases he : (eq.kind == OPERATOR && eq.val == [61]) = true
          · simp only [he, if_true] at hy ⊢
            have hpe := peX ht2 hlen (bind_ne_fuel hy)
            cases hye : parseExpression (exprFuel t2') t2' with
            | error e =>
              rw [hye] at hpe
              cases hxe : parseExpression (exprFuel t2) t2 with
              | error e' => rw [hxe] at hpe; simp only [RRel] at hpe; subst hpe; exact rfl
              | ok b => rw [hxe] at hpe; simp [RRel] at hpe
            | ok b' =>
              obtain ⟨e, u'⟩ := b'
              rw [hye] at hpe hy
              cases hxe : parseExpression (exprFuel t2) t2 with
              | error e' => rw [hxe] at hpe; simp [RRel] at hpe
              | ok b =>
                obtain ⟨e2, u⟩ := b
                rw [hxe] at hpe
                simp only [RRel] at hpe
                obtain ⟨rfl, hu⟩ := hpe
                simp only [ok_bind] at hy ⊢
                exact tailSim _ _ _ _ _ hu hy
          · simp only [he, Bool.false_eq_true, if_false] at hy ⊢
            exact tailSim _ _ _ _ _ (TS.cons heq ht2) hy


/-- the `macro` handler after the parameter list -/
def macroK (g : Nat) (nm : Bytes) (params dn : List Bytes) (de : List Expr) (r2 : List Token) : R (Node × List Token) :=
  expectK BLOCK_END "expected block end token after macro declaration" r2 >>= fun r3 =>
  parseOuter g r3 >>= fun y =>
  expectTag "endmacro" "missing endmacro tag" y.2 >>= fun r5 =>
  expectK BLOCK_END "expected block end token after endmacro" r5 >>= fun r6 =>
  pure (Node.macro nm params dn de y.1, r6)

def macroHdr (g : Nat) (ts : List Token) : R (Node × List Token) :=
  match ts with
  | n :: p :: r1 =>
    if (n.kind != NAME) = true then perr "expected macro name after macro keyword"
    else if (!isP p 40) = true then perr "expected '(' after macro name"
    else match r1 with
      | c :: r' =>
        if isP c 41 = true then macroK g n.val [] [] [] r'
        else parseMacroParams g r1 >>= fun y => macroK g n.val y.1 y.2.1 y.2.2.1 y.2.2.2
      | [] => perr "expected ')' after macro parameters"
  | [n] =>
    if (n.kind != NAME) = true then perr "expected macro name after macro keyword"
    else perr "expected '(' after macro name"
  | [] => perr "expected macro name after macro keyword"

theorem parseTag_macro (g : Nat) (ts : List Token) : parseTag (g+1) (b "macro") ts = macroHdr g ts := by
  unfold parseTag
  simp only [show (b "macro" == b "if") = false from by decide +kernel,
    show (b "macro" == b "for") = false from by decide +kernel,
    show (b "macro" == b "set") = false from by decide +kernel,
    show (b "macro" == b "do") = false from by decide +kernel,
    show (b "macro" == b "block") = false from by decide +kernel,
    show (b "macro" == b "extends") = false from by decide +kernel,
    show (b "macro" == b "include") = false from by decide +kernel,
    show (b "macro" == b "macro") = true from by decide +kernel, Bool.false_eq_true, if_false, if_true]
  cases ts with
  | nil => rfl
  | cons n t =>
    cases t with
    | nil => rfl
    | cons p r1 =>
      simp only [macroHdr]
      by_cases hn : (n.kind != NAME) = true
      · simp only [hn, if_true]
      · simp only [hn, Bool.false_eq_true, if_false]
        by_cases hp : (!isP p 40) = true
        · simp only [hp, if_true]
        · simp only [hp, Bool.false_eq_true, if_false]
          cases r1 with
          | nil => rfl
          | cons c r' =>
            simp only
            by_cases hc : isP c 41 = true
            · simp only [hc, if_true, pure_eq_ok, ok_bind]; rfl
            · simp only [hc, Bool.false_eq_true, if_false]
              rfl

theorem macroK_sim {f : Nat} (ih : SimAt f) (k : Nat) (nm : Bytes) (params dn : List Bytes) (de : List Expr)
    (r : List Token) (hr : WFo r) (hkr : extra r ≤ k) {u u' : List Token} (hu : TS r (dropEmptyText r) u u')
    (hy : macroK f nm params dn de u' ≠ fuelErr) :
    RelR PhiN (fun r2 => extra r2 ≤ extra r) (macroK (f + k) nm params dn de u) (macroK f nm params dn de u') := by
  unfold macroK at hy ⊢
  rcases expectK_TS hu BLOCK_END (by decide) "expected block end token after macro declaration" with ⟨e1, e2⟩ | ⟨e1, e2⟩
  · rw [e1, e2]; rfl
  · rw [e2] at hy
    rw [e1, e2]
    simp only [ok_bind] at hy ⊢
    exact bodyEnd ih k r hr hkr _ _ _ (Node.macro nm params dn de) (fun bd => ⟨rfl, by intro s h; cases h⟩) hy

theorem macroHdr_sim {f : Nat} (ih : SimAt f) (k : Nat) {r : List Token} (hr : WFo r) (hkr : extra r ≤ k)
    {L L' : List Token} (hL : TS r (dropEmptyText r) L L') (hy : macroHdr f L' ≠ fuelErr) :
    RelR PhiN (fun r2 => extra r2 ≤ extra r) (macroHdr (f + k) L) (macroHdr f L') := by
  rcases hL.cases with ⟨d, hd, rfl, rfl⟩ | ⟨n, t, t', hn, rfl, rfl, ht⟩
  · have hX : ∀ g l, macroHdr g (d :: l) = perr "expected macro name after macro keyword" := by
      intro g l
      have : (d.kind != NAME) = true := by simp [hd.kinds.1]
      cases l <;> simp [macroHdr, this]
    rw [hX, hX]; rfl
  · rcases ht.cases with ⟨d, hd, rfl, rfl⟩ | ⟨p, t2, t2', hp, rfl, rfl, ht2⟩
    · have hdp : (!isP d 40) = true := by simp [hd.isP]
      simp only [macroHdr, hdp, if_true]
      by_cases hnn : (n.kind != NAME) = true
      · simp only [hnn, if_true]; rfl
      · simp only [hnn, Bool.false_eq_true, if_false]; rfl
    · simp only [macroHdr] at hy ⊢
      by_cases hnn : (n.kind != NAME) = true
      · simp only [hnn, if_true]; rfl
      · simp only [hnn, Bool.false_eq_true, if_false] at hy ⊢
        by_cases hpp : (!isP p 40) = true
        · simp only [hpp, if_true]; rfl
        · simp only [hpp, Bool.false_eq_true, if_false] at hy ⊢
          rcases ht2.cases with ⟨d, hd, rfl, rfl⟩ | ⟨c, t3, t3', hc, rfl, rfl, ht3⟩
          · -- `(` directly followed by the end token: `parseMacroParams` fails on both sides
            simp only [hd.isP, Bool.false_eq_true, if_false] at hy ⊢
            have hP : ∀ g l, parseMacroParams (g+1) (d :: l) = perr "expected parameter name" := by
              intro g l
              rw [parseMacroParams_step]
              have : (d.kind != NAME) = true := by simp [hd.kinds.1]
              simp [mpStep, this]
            cases f with
            | zero => exact absurd (by simp [parseMacroParams, fuelErr]) hy
            | succ f' =>
              have : f' + 1 + k = (f' + k) + 1 := by omega
              rw [this, hP, hP]; rfl
          · simp only at hy ⊢
            by_cases hcp : isP c 41 = true
            · simp only [hcp, if_true] at hy ⊢
              exact macroK_sim ih k _ _ _ _ r hr hkr ht3 hy
            · simp only [hcp, Bool.false_eq_true, if_false] at hy ⊢
              have hneY := bind_ne_fuel hy
              have hloc := macroParams_loc r (dropEmptyText r) (D_length r) (f + k) _ _ (TS.cons hc ht3)
                (by rw [parseMacroParams_mono hneY (Nat.le_add_right f k)]; exact hneY)
              rw [parseMacroParams_mono hneY (Nat.le_add_right f k)] at hloc
              cases hY : parseMacroParams f (c :: t3') with
              | error e =>
                rw [hY] at hloc
                cases hX : parseMacroParams (f + k) (c :: t3) with
                | error e' => rw [hX] at hloc; simp only [RRel4] at hloc; subst hloc; rfl
                | ok b => rw [hX] at hloc; simp [RRel4] at hloc
              | ok b' =>
                obtain ⟨a', c', e', w'⟩ := b'
                rw [hY] at hloc hy
                cases hX : parseMacroParams (f + k) (c :: t3) with
                | error e' => rw [hX] at hloc; simp [RRel4] at hloc
                | ok b =>
                  obtain ⟨a, c2, e2, w⟩ := b
                  rw [hX] at hloc
                  simp only [RRel4] at hloc
                  obtain ⟨rfl, rfl, rfl, hw⟩ := hloc
                  simp only [ok_bind] at hy ⊢
                  exact macroK_sim ih k _ _ _ _ r hr hkr hw hy

/-! ## the `include` handler -/

def inclHdr (g : Nat) (ts : List Token) : R (Node × List Token) :=
  parseExpression (exprFuel ts) ts >>= fun x =>
  parseIncludeOpts g {} x.2 >>= fun y =>
  expectK BLOCK_END "expected block end token after include" y.2 >>= fun r3 =>
  pure (Node.include x.1 y.1.names y.1.exprs y.1.ignoreMissing y.1.only y.1.sandboxed, r3)

theorem parseTag_include (g : Nat) (ts : List Token) : parseTag (g+1) (b "include") ts = inclHdr g ts := by
  unfold parseTag
  simp only [show (b "include" == b "if") = false from by decide +kernel,
    show (b "include" == b "for") = false from by decide +kernel,
    show (b "include" == b "set") = false from by decide +kernel,
    show (b "include" == b "do") = false from by decide +kernel,
    show (b "include" == b "block") = false from by decide +kernel,
    show (b "include" == b "extends") = false from by decide +kernel,
    show (b "include" == b "include") = true from by decide +kernel, Bool.false_eq_true, if_false, if_true]
  rfl

/-- the `include` handler reads its expression and options up to the block end token and nothing beyond it
    (`includeSepOk` looks at token values: the end token's value is empty) -/
theorem inclHdr_sim (f k : Nat) {r : List Token} (hr : WFo r) {L L' : List Token} (hL : TS r (dropEmptyText r) L L')
    (hy : inclHdr f L' ≠ fuelErr) :
    RelR PhiN (fun r2 => extra r2 ≤ extra r) (inclHdr (f + k) L) (inclHdr f L') := by
  unfold inclHdr at hy ⊢
  have hlen := D_length r
  have hpe := peX' hL hlen
  cases hye : parseExpression (exprFuel L') L' with
  | error e =>
    rw [hye] at hpe
    cases hxe : parseExpression (exprFuel L) L with
    | error e' => rw [hxe] at hpe; simp only [RRel] at hpe; subst hpe; rfl
    | ok b => rw [hxe] at hpe; simp [RRel] at hpe
  | ok b' =>
    obtain ⟨e, u'⟩ := b'
    rw [hye] at hpe hy
    cases hxe : parseExpression (exprFuel L) L with
    | error e' => rw [hxe] at hpe; simp [RRel] at hpe
    | ok b =>
      obtain ⟨e2, u⟩ := b
      rw [hxe] at hpe
      simp only [RRel] at hpe
      obtain ⟨rfl, hu⟩ := hpe
      simp only [ok_bind] at hy ⊢
      have hneY := bind_ne_fuel hy
      have hloc := (ilocAt hlen (f + k)).opts {} u u' hu
      rw [parseIncludeOpts_mono hneY (Nat.le_add_right f k)] at hloc
      cases hY : parseIncludeOpts f {} u' with
      | error e =>
        rw [hY] at hloc
        cases hX : parseIncludeOpts (f + k) {} u with
        | error e' => rw [hX] at hloc; simp only [Rel2] at hloc; subst hloc; rfl
        | ok c => rw [hX] at hloc; simp [Rel2] at hloc
      | ok c' =>
        obtain ⟨o', w'⟩ := c'
        rw [hY] at hloc
        cases hX : parseIncludeOpts (f + k) {} u with
        | error e' => rw [hX] at hloc; simp [Rel2] at hloc
        | ok c =>
          obtain ⟨o, w⟩ := c
          rw [hX] at hloc
          simp only [Rel2, P2] at hloc
          obtain ⟨rfl, hw⟩ := hloc
          simp only [ok_bind]
          rcases expectK_TS hw BLOCK_END (by decide) "expected block end token after include" with ⟨e1, e2⟩ | ⟨e1, e2⟩
          · rw [e1, e2]; rfl
          · rw [e1, e2]
            exact ⟨_, r, rfl, ⟨rfl, by intro s h; cases h⟩, hr, rfl, Nat.le_refl _⟩

/-! ## the `verbatim` handler: `verbBody` walks the outer stream -/

def vIsEnd (t : Token) (r : List Token) : Bool :=
  match r with
  | n :: _ => t.kind == BLOCK_START && isName n "endverbatim"
  | [] => false

def vStep (t : Token) (r : List Token) : Option (Bytes × List Token) :=
  if t.kind == TEXT then some (t.val, r)
  else if t.kind == VAR_START then (verbInner VAR_END (b "}}") false true r).map fun (s, r') => (b "{{" ++ s, r')
  else if t.kind == BLOCK_START then (verbInner BLOCK_END (b "%}") true true r).map fun (s, r') => (b "{%" ++ s, r')
  else if t.kind == COMMENT_START then (verbInner COMMENT_END (b "#}") false true r).map fun (s, r') => (b "{#" ++ s, r')
  else some ([], r)

theorem verbBody_succ (f : Nat) (t : Token) (r : List Token) :
    verbBody (f+1) (t :: r) =
      if vIsEnd t r then
        expectK BLOCK_END "expected block end after endverbatim" (r.drop 1) >>= fun r' => pure ([], r')
      else
        match vStep t r with
        | none => perr "unexpected end of template, unclosed verbatim tag"
        | some (s, r') =>
          if r'.isEmpty then perr "unexpected end of template, unclosed verbatim tag"
          else verbBody f r' >>= fun x => pure (s ++ x.1, x.2) := by
  rw [verbBody.eq_def]
  rfl

/-- the bytes one token inside a group contributes -/
def vpiece (endK : Nat) (sp first : Bool) (t : Token) : Bytes :=
  if endK == COMMENT_END then (if t.kind == TEXT then t.val else [])
  else if isExprTok t then (if sp && first && t.kind == NAME then t.val ++ [32] else t.val)
  else []

def vpieces (endK : Nat) (sp : Bool) : Bool → List Token → Bytes
  | _, [] => []
  | first, t :: r => vpiece endK sp first t ++ vpieces endK sp false r

theorem verbInner_group (endK : Nat) (ct : Bytes) (sp : Bool) (e : Token) (r : List Token) (he : e.kind = endK) :
    ∀ (first : Bool) (cs : List Token), (∀ c ∈ cs, c.kind ≠ endK) →
      verbInner endK ct sp first (cs ++ e :: r) = some (vpieces endK sp first cs ++ ct, r)
  | first, [], _ => by
    simp [verbInner, he, vpieces]
  | first, c :: cs, h => by
    have hc : (c.kind == endK) = false := by simpa using h c (by simp)
    have ih := verbInner_group endK ct sp e r he false cs (fun x hx => h x (by simp [hx]))
    simp only [List.cons_append, verbInner, hc, Bool.false_eq_true, if_false, ih, vpieces, vpiece, List.append_assoc]

/-- empty TEXT tokens inside a comment contribute nothing -/
theorem vpieces_comment_D (sp : Bool) : ∀ (first first' : Bool) (cs : List Token),
    vpieces COMMENT_END sp first (dropEmptyText cs) = vpieces COMMENT_END sp first' cs
  | _, _, [] => rfl
  | first, first', c :: cs => by
    rw [D_cons]
    by_cases hd : isDrop c = true
    · have h1 : c.kind = TEXT ∧ c.val = [] := by simpa [isDrop] using hd
      simp only [hd, if_true, vpieces, vpiece, h1.1, h1.2]
      simpa using vpieces_comment_D sp first false cs
    · simp only [hd, Bool.false_eq_true, if_false, vpieces, vpiece]
      rw [vpieces_comment_D sp false false cs]
      rfl

theorem WFo.D_ne_nil {ts : List Token} (h : WFo ts) : dropEmptyText ts ≠ [] := by
  induction h with
  | eof t ht => rw [D_cons_keep (isDrop_of_kind (by rw [ht]; decide))]; simp
  | text t r _ _ ih =>
    rw [D_cons]
    split
    · exact ih
    · simp
  | comment s cs e r hs _ _ _ _ => rw [D_cons_keep (isDrop_of_kind (by rw [hs]; decide))]; simp
  | tag s xs d r hs _ _ _ _ _ _ =>
    rw [D_cons_keep (isDrop_of_kind (by rcases hs with h | h <;> rw [h] <;> decide))]; simp

theorem isEmpty_false_of_ne {α} {l : List α} (h : l ≠ []) : l.isEmpty = false := by
  cases l with
  | nil => exact absurd rfl h
  | cons _ _ => rfl

/-- one step of `verbBody` on both sides that is not the end tag: the same bytes, the rests `r` / `D r` -/
theorem verb_cont {fx fy : Nat} {t t' : Token} {l l' : List Token} {s : Bytes} {r : List Token} {N : Nat} (hr : WFo r)
    (hX : vIsEnd t l = false) (hY : vIsEnd t' l' = false) (hsX : vStep t l = some (s, r))
    (hsY : vStep t' l' = some (s, dropEmptyText r)) (hle : extra r ≤ N)
    (IH : RelR (fun (a a' : Bytes) => a = a') (fun r2 => extra r2 ≤ extra r) (verbBody fx r) (verbBody fy (dropEmptyText r))) :
    RelR (fun (a a' : Bytes) => a = a') (fun r2 => extra r2 ≤ N) (verbBody (fx+1) (t :: l)) (verbBody (fy+1) (t' :: l')) := by
  rw [verbBody_succ, verbBody_succ, hX, hY, hsX, hsY]
  simp only [Bool.false_eq_true, if_false, isEmpty_false_of_ne hr.ne_nil, isEmpty_false_of_ne hr.D_ne_nil]
  unfold RelR at IH ⊢
  cases hYv : verbBody fy (dropEmptyText r) with
  | error e => rw [hYv] at IH; simp only at IH; rw [IH]; rfl
  | ok b =>
    obtain ⟨a', r2'⟩ := b
    rw [hYv] at IH
    obtain ⟨a, r2, hx, rfl, hw2, hr2, hp⟩ := IH
    rw [hx]
    exact ⟨s ++ a, r2, rfl, rfl, hw2, hr2, Nat.le_trans hp hle⟩

theorem allK_ne {xs : List Token} (hx : AllK xs) {K : Nat} (hK : ¬ ExprKind K) : ∀ c ∈ xs, c.kind ≠ K := by
  intro c hc h
  exact hK (h ▸ hx c hc)

theorem vIsEnd_of_kind {t : Token} (h : t.kind ≠ BLOCK_START) (l : List Token) : vIsEnd t l = false := by
  cases l with
  | nil => rfl
  | cons n l => simp [vIsEnd, h]

/-- `verbBody` on a well-formed outer stream and on its image without empty TEXT tokens: the same bytes (or the same
    error), related rests.  No fuel hypothesis: every step consumes a token, and the stream ends with EOF on both
    sides, so "stream ended" is never reached. -/
theorem verbBody_sim : ∀ (r : List Token), WFo r → ∀ (fx fy : Nat), r.length + 1 ≤ fx →
    (dropEmptyText r).length + 1 ≤ fy →
    RelR (fun (a a' : Bytes) => a = a') (fun r2 => extra r2 ≤ extra r) (verbBody fx r) (verbBody fy (dropEmptyText r)) := by
  intro r hw
  induction hw with
  | eof t ht =>
    intro fx fy hfx hfy
    have hk : isDrop t = false := isDrop_of_kind (by rw [ht]; decide)
    rw [D_cons_keep hk, D_nil]
    obtain ⟨fx', rfl⟩ : ∃ n, fx = n + 1 := ⟨fx - 1, by omega⟩
    obtain ⟨fy', rfl⟩ : ∃ n, fy = n + 1 := ⟨fy - 1, by omega⟩
    have hs : vStep t [] = some ([], []) := by
      simp [vStep, ht, EOF, TEXT, VAR_START, BLOCK_START, COMMENT_START]
    rw [verbBody_succ, verbBody_succ]
    simp only [vIsEnd, hs, Bool.false_eq_true, if_false, List.isEmpty_nil, if_true]
    rfl
  | text t r ht hr ihr =>
    intro fx fy hfx hfy
    obtain ⟨fx', rfl⟩ : ∃ n, fx = n + 1 := ⟨fx - 1, by omega⟩
    have hXe : vIsEnd t r = false := vIsEnd_of_kind (by rw [ht]; decide) r
    have hXs : vStep t r = some (t.val, r) := by simp [vStep, ht]
    have hfx' : r.length + 1 ≤ fx' := by simp only [List.length_cons] at hfx; omega
    by_cases hdrop : isDrop t = true
    · have htv : t.val = [] := by have := hdrop; simp [isDrop] at this; exact this.2
      rw [D_cons, hdrop, if_pos rfl] at hfy ⊢
      have IH := ihr fx' fy hfx' hfy
      rw [verbBody_succ, hXe, hXs]
      simp only [Bool.false_eq_true, if_false, isEmpty_false_of_ne hr.ne_nil]
      unfold RelR at IH ⊢
      cases hYv : verbBody fy (dropEmptyText r) with
      | error e => rw [hYv] at IH; simp only at IH; rw [IH]; rfl
      | ok b =>
        obtain ⟨a', r2'⟩ := b
        rw [hYv] at IH
        obtain ⟨a, r2, hx, rfl, hw2, hr2, hp⟩ := IH
        rw [hx]
        refine ⟨t.val ++ a, r2, rfl, by rw [htv]; rfl, hw2, hr2, Nat.le_trans hp (extra_le_cons _ r)⟩
    · have hdrop' : isDrop t = false := by simpa using hdrop
      rw [D_cons_keep hdrop'] at hfy ⊢
      obtain ⟨fy', rfl⟩ : ∃ n, fy = n + 1 := ⟨fy - 1, by omega⟩
      have hfy' : (dropEmptyText r).length + 1 ≤ fy' := by simp only [List.length_cons] at hfy; omega
      exact verb_cont hr hXe (vIsEnd_of_kind (by rw [ht]; decide) _) hXs (by simp [vStep, ht])
        (extra_le_cons _ r) (ihr fx' fy' hfx' hfy')
  | comment s cs e r hs hcs he hr ihr =>
    intro fx fy hfx hfy
    rw [D_comment s cs e r hs he] at hfy ⊢
    obtain ⟨fx', rfl⟩ : ∃ n, fx = n + 1 := ⟨fx - 1, by omega⟩
    obtain ⟨fy', rfl⟩ : ∃ n, fy = n + 1 := ⟨fy - 1, by omega⟩
    have hfx' : r.length + 1 ≤ fx' := by
      simp only [List.length_cons, List.length_append] at hfx; omega
    have hfy' : (dropEmptyText r).length + 1 ≤ fy' := by
      simp only [List.length_cons, List.length_append] at hfy; omega
    have hcs' : ∀ c ∈ dropEmptyText cs, c.kind ≠ COMMENT_END := by
      intro c hc
      exact hcs c (List.mem_filter.mp hc).1
    have hne : s.kind ≠ BLOCK_START := by rw [hs]; decide
    have hstep : ∀ (cs0 : List Token) (l : List Token), (∀ c ∈ cs0, c.kind ≠ COMMENT_END) →
        vStep s (cs0 ++ e :: l) = some (b "{#" ++ (vpieces COMMENT_END false true cs0 ++ b "#}"), l) := by
      intro cs0 l h0
      simp only [vStep, hs, COMMENT_START, TEXT, VAR_START, BLOCK_START]
      simp only [show ((5 : Nat) == 0) = false from rfl, show ((5 : Nat) == 1) = false from rfl,
        show ((5 : Nat) == 3) = false from rfl, show ((5 : Nat) == 5) = true from rfl, Bool.false_eq_true, if_false, if_true]
      rw [verbInner_group COMMENT_END _ false e l he true cs0 h0]
      rfl
    have hle : extra r ≤ extra (s :: (cs ++ e :: r)) := by
      have := extra_append cs (e :: r)
      have h2 := extra_le_cons e r
      have h3 := extra_le_cons s (cs ++ e :: r)
      omega
    refine verb_cont hr (vIsEnd_of_kind hne _) (vIsEnd_of_kind hne _) (hstep cs r hcs) ?_ hle (ihr fx' fy' hfx' hfy')
    rw [hstep _ _ hcs', vpieces_comment_D false true true cs]
  | tag s xs d r hs hx hd hvar hpair hr ihr =>
    intro fx fy hfx hfy
    rw [D_tag s xs d r hs hx hd] at hfy ⊢
    obtain ⟨fx', rfl⟩ : ∃ n, fx = n + 1 := ⟨fx - 1, by omega⟩
    obtain ⟨fy', rfl⟩ : ∃ n, fy = n + 1 := ⟨fy - 1, by omega⟩
    have hfx' : r.length + 1 ≤ fx' := by
      simp only [List.length_cons, List.length_append] at hfx; omega
    have hfy' : (dropEmptyText r).length + 1 ≤ fy' := by
      simp only [List.length_cons, List.length_append] at hfy; omega
    have hle := extra_tag_le s xs d r
    rcases hs with hs | hs
    · -- a print tag: copied token by token
      have hne : s.kind ≠ BLOCK_START := by rw [hs]; decide
      have hstep : ∀ (l : List Token),
          vStep s (xs ++ d :: l) = some (b "{{" ++ (vpieces VAR_END false true xs ++ b "}}"), l) := by
        intro l
        simp only [vStep, hs, TEXT, VAR_START]
        simp only [show ((1 : Nat) == 0) = false from rfl, show ((1 : Nat) == 1) = true from rfl,
          Bool.false_eq_true, if_false, if_true]
        rw [verbInner_group VAR_END _ false d l (hvar hs) true xs (allK_ne hx (by decide))]
        rfl
      exact verb_cont hr (vIsEnd_of_kind hne _) (vIsEnd_of_kind hne _) (hstep r) (hstep _) hle (ihr fx' fy' hfx' hfy')
    · -- a block tag: `endverbatim` ends the body, anything else is copied
      have hdk := hpair hs
      have hstep : ∀ (l : List Token),
          vStep s (xs ++ d :: l) = some (b "{%" ++ (vpieces BLOCK_END true true xs ++ b "%}"), l) := by
        intro l
        simp only [vStep, hs, TEXT, VAR_START, BLOCK_START]
        simp only [show ((3 : Nat) == 0) = false from rfl, show ((3 : Nat) == 1) = false from rfl,
          show ((3 : Nat) == 3) = true from rfl, Bool.false_eq_true, if_false, if_true]
        rw [verbInner_group BLOCK_END _ true d l hdk true xs (allK_ne hx (by decide))]
        rfl
      by_cases hend : vIsEnd s (xs ++ d :: r) = true
      · cases xs with
        | nil =>
          simp [vIsEnd, hd.endTok.isName] at hend
        | cons n xs' =>
          rw [allK_cons] at hx
          have hend' : vIsEnd s ((n :: xs') ++ d :: dropEmptyText r) = true := by
            simpa [vIsEnd] using hend
          rw [verbBody_succ, verbBody_succ, hend, hend']
          simp only [if_true, List.cons_append, List.drop_succ_cons, List.drop_zero]
          rcases expectK_TS (TS_tail hx.2 hd r) BLOCK_END (by decide) "expected block end after endverbatim" with
            ⟨e1, e2⟩ | ⟨e1, e2⟩
          · rw [e1, e2]; rfl
          · rw [e1, e2]
            exact ⟨[], r, rfl, rfl, hr, rfl, hle⟩
      · have hend0 : vIsEnd s (xs ++ d :: r) = false := by simpa using hend
        have hend1 : vIsEnd s (xs ++ d :: dropEmptyText r) = false := by
          cases xs with
          | nil => simpa [vIsEnd] using hend0
          | cons n xs' => simpa [vIsEnd] using hend0
        exact verb_cont hr hend0 hend1 (hstep r) (hstep _) hle (ihr fx' fy' hfx' hfy')

/-- the `verbatim` handler -/
theorem verbHdr_sim {r : List Token} (hr : WFo r) {xs : List Token} {d : Token} (hx : AllK xs) (hd : IsEnd d) :
    RelR PhiN (fun r2 => extra r2 ≤ extra r)
      (expectK BLOCK_END "expected block end after verbatim tag" (xs ++ d :: r) >>= fun r1 =>
        verbBody (r1.length + 1) r1 >>= fun x => pure (Node.verbatim x.1, x.2))
      (expectK BLOCK_END "expected block end after verbatim tag" (xs ++ d :: dropEmptyText r) >>= fun r1 =>
        verbBody (r1.length + 1) r1 >>= fun x => pure (Node.verbatim x.1, x.2)) := by
  rcases expectK_TS (TS_tail hx hd r) BLOCK_END (by decide) "expected block end after verbatim tag" with
    ⟨e1, e2⟩ | ⟨e1, e2⟩
  · rw [e1, e2]; rfl
  · rw [e1, e2]
    simp only [ok_bind]
    have h := verbBody_sim r hr (r.length + 1) ((dropEmptyText r).length + 1) (Nat.le_refl _) (Nat.le_refl _)
    unfold RelR at h ⊢
    cases hYv : verbBody ((dropEmptyText r).length + 1) (dropEmptyText r) with
    | error e => rw [hYv] at h; simp only at h; rw [h]; rfl
    | ok b =>
      obtain ⟨a', r2'⟩ := b
      rw [hYv] at h
      obtain ⟨a, r2, hx2, rfl, hw2, hr2, hp⟩ := h
      rw [hx2]
      exact ⟨Node.verbatim a, r2, rfl, ⟨rfl, by intro s h; cases h⟩, hw2, hr2, hp⟩

theorem tag_succ (f : Nat) (ih : SimAt f) (k : Nat) (name : Bytes) (xs : List Token) (d : Token) (r : List Token)
    (hx : AllK xs) (hd : IsEnd d) (hdk : d.kind = BLOCK_END) (hr : WFo r) (hkr : extra r ≤ k)
    (hy : parseTag (f+1) name (xs ++ d :: dropEmptyText r) ≠ fuelErr) :
    RelR PhiN (fun r2 => extra r2 ≤ extra r) (parseTag (f + 1 + k) name (xs ++ d :: r))
      (parseTag (f+1) name (xs ++ d :: dropEmptyText r)) := by
  have hfk : f + 1 + k = (f + k) + 1 := by omega
  rw [hfk]
  by_cases h_for0 : (name == b "for") = true
  · have hname : name = b "for" := by simpa using h_for0
    subst hname
    cases xs with
    | nil =>
      have hdn : (d.kind != NAME) = true := by simp [hd.endTok.kinds.1]
      have hX : ∀ g l, parseTag (g+1) (b "for") (d :: l) = perr "expected variable name after for" := by
        intro g l
        unfold parseTag
        simp [show (b "for" == b "if") = false from by decide +kernel, hdn]
      simp only [List.nil_append]
      rw [hX, hX]; rfl
    | cons v xs1 =>
      rw [allK_cons] at hx
      simp only [List.cons_append] at hy ⊢
      by_cases hv : (v.kind != NAME) = true
      · have hX : ∀ g l, parseTag (g+1) (b "for") (v :: l) = perr "expected variable name after for" := by
          intro g l
          unfold parseTag
          simp [show (b "for" == b "if") = false from by decide +kernel, hv]
        rw [hX, hX]; rfl
      · have hv' : (v.kind != NAME) = false := by simpa using hv
        rw [parseTag_for _ _ _ hv'] at hy ⊢
        rw [parseTag_for _ _ _ hv']
        exact forHdr_sim ih k v r hr hkr (TS_tail hx.2 hd r) hy
  by_cases h_mac0 : (name == b "macro") = true
  · have hname : name = b "macro" := by simpa using h_mac0
    subst hname
    rw [parseTag_macro] at hy ⊢
    rw [parseTag_macro]
    exact macroHdr_sim ih k hr hkr (TS_tail hx hd r) hy
  by_cases h_from0 : (name == b "from") = true
  · have hname : name = b "from" := by simpa using h_from0
    subst hname
    rw [parseTag_from] at hy ⊢
    rw [parseTag_from]
    exact fromHdr_sim f k hr hx hd hdk hy
  by_cases h_do0 : (name == b "do") = true
  · have hname : name = b "do" := by simpa using h_do0
    subst hname
    rw [parseTag_do] at hy ⊢
    rw [parseTag_do]
    exact doHdr_sim hr hx hd hdk hy
  by_cases h_imp0 : (name == b "import") = true
  · have hname : name = b "import" := by simpa using h_imp0
    subst hname
    rw [parseTag_import] at hy ⊢
    rw [parseTag_import]
    exact peThen_sim importTail (fun e u u' hu _ => importTail_sim e hr hu) (TS_tail hx hd r) hy
  by_cases h_set0 : (name == b "set") = true
  · have hname : name = b "set" := by simpa using h_set0
    subst hname
    rw [parseTag_set] at hy ⊢
    rw [parseTag_set]
    exact setHdr_sim hr (TS_tail hx hd r) hy
  by_cases h_inc0 : (name == b "include") = true
  · have hname : name = b "include" := by simpa using h_inc0
    subst hname
    rw [parseTag_include] at hy ⊢
    rw [parseTag_include]
    exact inclHdr_sim f k hr (TS_tail hx hd r) hy
  by_cases h_verb0 : (name == b "verbatim") = true
  · have hname : name = b "verbatim" := by simpa using h_verb0
    subst hname
    rw [parseTag_verbatim, parseTag_verbatim]
    exact verbHdr_sim hr hx hd
  unfold parseTag at hy ⊢
  dsimp only at hy ⊢
  by_cases h_if : (name == b "if") = true
  · simp only [h_if, if_true] at hy ⊢
    refine hdrExpr r hx hd BLOCK_END (by decide) _
      (fun c r2 => parseOuter (f + k) r2 >>= fun y => parseIfTail (f + k) false y.2 >>= fun z =>
        pure (Node.ifN c y.1 z.1, z.2))
      (fun c r2 => parseOuter f r2 >>= fun y => parseIfTail f false y.2 >>= fun z =>
        pure (Node.ifN c y.1 z.1, z.2)) hy ?_
    intro c hy1
    refine RelR.bind hy1 (fun h => ih.outer k r hr hkr h) ?_
    intro body body' r3 hφ hw3 hp3 hy2
    refine RelR.bind hy2 (fun h => ih.ifTail k false r3 hw3 hp3.1 (Nat.le_trans hp3.2 hkr) h) ?_
    intro els els' r4 hφ4 hw4 hp4 _
    refine ⟨.ifN c body els, r4, rfl, ⟨?_, by intro s h; cases h⟩, hw4, rfl, Nat.le_trans hp4 hp3.2⟩
    show Node.ifN c (stripL body) (stripL els) = _
    rw [hφ, hφ4]
  · simp only [h_if, Bool.false_eq_true, if_false] at hy ⊢
    have hts := TS_tail hx hd r
    have hlen := D_length r
    by_cases h_for : (name == b "for") = true
    · exact absurd h_for h_for0
    · simp only [h_for, Bool.false_eq_true, if_false] at hy ⊢
      by_cases h_set : (name == b "set") = true
      · exact absurd h_set h_set0
      · simp only [h_set, Bool.false_eq_true, if_false] at hy ⊢
        have h_do : (name == b "do") = false := by simpa using h_do0
        simp only [h_do, Bool.false_eq_true, if_false] at hy ⊢
        by_cases h_block : (name == b "block") = true
        · simp only [h_block, if_true] at hy ⊢
          cases xs with
          | nil =>
            have hdn : (d.kind != NAME) = true := by simp [hd.endTok.kinds.1]
            simp only [List.nil_append, hdn, if_true]
            rfl
          | cons n xs' =>
            rw [allK_cons] at hx
            simp only [List.cons_append] at hy ⊢
            by_cases hn : (n.kind != NAME) = true
            · simp only [hn, if_true]; rfl
            · simp only [hn, Bool.false_eq_true, if_false] at hy ⊢
              rcases expectK_TS (TS_tail hx.2 hd r) BLOCK_END (by decide)
                "expected block end token after block name" with ⟨e1, e2⟩ | ⟨e1, e2⟩
              · rw [e1, e2]; rfl
              rw [e2] at hy
              rw [e1, e2]
              simp only [ok_bind] at hy ⊢
              refine RelR.bind hy (fun h => ih.outer k r hr hkr h) ?_
              intro body body' r3 hφ hw3 hp3 hy2
              rcases expectTag_sim "endblock" "expected endblock" hw3 hp3.1 with ⟨h1, h2⟩ |
                ⟨xs2, d2, rr, hx2, hd2, hrr, hle2, h1, h2⟩
              · simp only [h1, h2]; rfl
              · simp only [h1, h2, ok_bind] at hy2 ⊢
                have fin : ∀ (u u' : List Token), TS rr (dropEmptyText rr) u u' →
                    RelR PhiN (fun r2 => extra r2 ≤ extra r)
                      (expectK BLOCK_END "expected block end token after endblock" u >>= fun r6 =>
                        pure (Node.block n.val body, r6))
                      (expectK BLOCK_END "expected block end token after endblock" u' >>= fun r6 =>
                        pure (Node.block n.val body', r6)) := by
                  intro u u' hu
                  rcases expectK_TS hu BLOCK_END (by decide) "expected block end token after endblock" with
                    ⟨e1, e2⟩ | ⟨e1, e2⟩
                  · rw [e1, e2]; rfl
                  · rw [e1, e2]
                    refine ⟨Node.block n.val body, rr, rfl, ⟨?_, by intro s h; cases h⟩, hrr, rfl,
                      Nat.le_trans hle2 hp3.2⟩
                    show Node.block n.val (stripL body) = _
                    rw [hφ]
                cases xs2 with
                | nil =>
                  have hdn : (d2.kind == NAME) = false := by simp [hd2.endTok.kinds.1]
                  simp only [List.nil_append, hdn, Bool.false_eq_true, if_false, pure_eq_ok, ok_bind]
                  exact fin _ _ (TS.end_ hd2.endTok)
                | cons m xs3 =>
                  rw [allK_cons] at hx2
                  simp only [List.cons_append]
                  by_cases hm : (m.kind == NAME) = true
                  · simp only [hm, if_true]
                    by_cases hmv : (m.val == n.val) = true
                    · simp only [hmv, if_true, pure_eq_ok, ok_bind]
                      exact fin _ _ (TS_tail hx2.2 hd2 rr)
                    · simp only [hmv]; rfl
                  · simp only [hm, Bool.false_eq_true, if_false, pure_eq_ok, ok_bind]
                    exact fin _ _ (TS.cons hx2.1 (TS_tail hx2.2 hd2 rr))
        · simp only [h_block, Bool.false_eq_true, if_false] at hy ⊢
          by_cases h_ext : (name == b "extends") = true
          · simp only [h_ext, if_true] at hy ⊢
            refine (peX_end hts hlen BLOCK_END (by decide) _ Node.extends hy).toRelR hr ?_
            rintro n ⟨e, rfl⟩
            exact ⟨rfl, by intro s h; cases h⟩
          · simp only [h_ext, Bool.false_eq_true, if_false] at hy ⊢
            have h_inc : (name == b "include") = false := by simpa using h_inc0
            have h_mac : (name == b "macro") = false := by simpa using h_mac0
            have h_imp : (name == b "import") = false := by simpa using h_imp0
            have h_from : (name == b "from") = false := by simpa using h_from0
            have h_verb : (name == b "verbatim") = false := by simpa using h_verb0
            simp only [h_inc, h_mac, h_imp, h_from, h_verb, Bool.false_eq_true, if_false] at hy ⊢
            by_cases h_apply : (name == b "apply") = true
            · simp only [h_apply, if_true] at hy ⊢
              cases xs with
              | nil =>
                have hdn : (d.kind != NAME) = true := by simp [hd.endTok.kinds.1]
                simp only [List.nil_append, hdn, if_true]
                rfl
              | cons n xs' =>
                rw [allK_cons] at hx
                simp only [List.cons_append] at hy ⊢
                by_cases hn : (n.kind != NAME) = true
                · simp only [hn, if_true]; rfl
                · simp only [hn, Bool.false_eq_true, if_false] at hy ⊢
                  refine hdrEnd r hx.2 hd BLOCK_END (by decide) _
                    (fun r2 => parseOuter (f + k) r2 >>= fun y => expectTag "endapply" "expected endapply tag" y.2 >>= fun r4 =>
                      expectK BLOCK_END "expected block end token after endapply" r4 >>= fun r5 => pure (Node.apply n.val y.1, r5))
                    (fun r2 => parseOuter f r2 >>= fun y => expectTag "endapply" "expected endapply tag" y.2 >>= fun r4 =>
                      expectK BLOCK_END "expected block end token after endapply" r4 >>= fun r5 => pure (Node.apply n.val y.1, r5))
                    hy ?_
                  intro hy1
                  exact bodyEnd ih k r hr hkr _ _ _ (Node.apply n.val)
                    (fun bd => ⟨rfl, by intro s h; cases h⟩) hy1
            · simp only [h_apply, Bool.false_eq_true, if_false] at hy ⊢
              by_cases h_sp : (name == b "spaceless") = true
              · simp only [h_sp, if_true] at hy ⊢
                refine hdrEnd r hx hd BLOCK_END (by decide) _
                  (fun r2 => parseOuter (f + k) r2 >>= fun y => expectTag "endspaceless" "expected endspaceless tag" y.2 >>= fun r4 =>
                    expectK BLOCK_END "expected block end token after endspaceless" r4 >>= fun r5 => pure (Node.spaceless y.1, r5))
                  (fun r2 => parseOuter f r2 >>= fun y => expectTag "endspaceless" "expected endspaceless tag" y.2 >>= fun r4 =>
                    expectK BLOCK_END "expected block end token after endspaceless" r4 >>= fun r5 => pure (Node.spaceless y.1, r5))
                  hy ?_
                intro hy1
                exact bodyEnd ih k r hr hkr _ _ _ Node.spaceless (fun bd => ⟨rfl, by intro s h; cases h⟩) hy1
              · simp only [h_sp, Bool.false_eq_true, if_false]
                rfl


theorem simAt : ∀ f, SimAt f
  | 0 => simAt_zero
  | f+1 => by
    have ih := simAt f
    exact ⟨fun k ts hw hk hy => outer_succ f ih ts hw k hk hy,
      fun k name xs d r hx hd hdk hr hkr hy => tag_succ f ih k name xs d r hx hd hdk hr hkr hy,
      fun k he ts hw hh hk hy => ifTail_succ f ih k he ts hw hh hk hy⟩

theorem blockNamesL_strip : ∀ (ns : List Node), blockNamesL (stripL ns) = blockNamesL ns
  | [] => rfl
  | n :: r => by
    have ih := blockNamesL_strip r
    cases n with
    | text s =>
      rw [stripL_text]
      split <;> simp [blockNamesL, blockNames, ih]
    | ifN c t e =>
      rw [stripL_cons _ _ (by intro s h; cases h)]
      simp [stripN, blockNamesL, blockNames, ih, blockNamesL_strip t, blockNamesL_strip e]
    | forN k v s bd e =>
      rw [stripL_cons _ _ (by intro s h; cases h)]
      simp [stripN, blockNamesL, blockNames, ih, blockNamesL_strip bd, blockNamesL_strip e]
    | block nm bd =>
      rw [stripL_cons _ _ (by intro s h; cases h)]
      simp [stripN, blockNamesL, blockNames, ih, blockNamesL_strip bd]
    | «macro» nm ps dn de bd =>
      rw [stripL_cons _ _ (by intro s h; cases h)]
      simp [stripN, blockNamesL, blockNames, ih, blockNamesL_strip bd]
    | apply fl bd =>
      rw [stripL_cons _ _ (by intro s h; cases h)]
      simp [stripN, blockNamesL, blockNames, ih, blockNamesL_strip bd]
    | spaceless bd =>
      rw [stripL_cons _ _ (by intro s h; cases h)]
      simp [stripN, blockNamesL, blockNames, ih, blockNamesL_strip bd]
    | _ =>
      rw [stripL_cons _ _ (by intro s h; cases h)]
      simp [stripN, blockNamesL, blockNames, ih]

theorem extra_eq (ts : List Token) : extra ts + (dropEmptyText ts).length = ts.length := by
  induction ts with
  | nil => rfl
  | cons t r ih =>
    rw [D_cons]
    by_cases h : isDrop t = true
    · simp only [extra, h, if_true, List.length_cons]; omega
    · simp only [extra, h, List.length_cons]; simp; omega

/-- Parsing is insensitive to empty TEXT tokens at outer positions: if the stream without them parses (or fails
    with a genuine parse error), the stream with them parses to the same tree up to `.text []` nodes (or fails with
    the same error). -/
theorem parseTokens_dropEmptyText (X : List Token) (hw : WFo X) (hy : parseTokens (dropEmptyText X) ≠ fuelErr) :
    match parseTokens (dropEmptyText X) with
    | .error e => parseTokens X = .error e
    | .ok ns' => ∃ ns, parseTokens X = .ok ns ∧ stripL ns = ns' := by
  unfold parseTokens at hy ⊢
  have hlen := extra_eq X
  have hfuel : 4 * X.length + 16 = (4 * (dropEmptyText X).length + 16) + 4 * extra X := by omega
  have hsim := (simAt (4 * (dropEmptyText X).length + 16)).outer (4 * extra X) X hw (by omega) (bind_ne_fuel hy)
  rw [← hfuel] at hsim
  unfold RelR at hsim
  cases hY : parseOuter (4 * (dropEmptyText X).length + 16) (dropEmptyText X) with
  | error e => rw [hY] at hsim; simp only at hsim; rw [hsim]; rfl
  | ok b =>
    obtain ⟨ns', r'⟩ := b
    rw [hY] at hsim
    obtain ⟨ns, r2, hx, hφ, _, hr', hhead, _⟩ := hsim
    rw [hx]
    simp only [ok_bind]
    have hdup : hasDup (blockNamesL ns) = hasDup (blockNamesL ns') := by
      rw [← hφ, blockNamesL_strip]
    -- the unread rest: the first token is kept by `dropEmptyText` (it is EOF or a block start), so both sides
    -- see the same stray end tag (or none)
    have hstray : strayEnd r2 = strayEnd r' := by
      subst hr'
      cases r2 with
      | nil => rfl
      | cons t r => rw [D_cons_keep (HeadOK.keep hhead)]; rfl
    rw [hdup, hstray]
    by_cases hse : strayEnd r' = true
    · simp only [hse, if_true]; rfl
    · simp only [hse, Bool.false_eq_true, if_false]
      by_cases hdd : hasDup (blockNamesL ns') = true
      · simp only [hdd, if_true]; rfl
      · simp only [hdd]; exact ⟨ns, rfl, hφ⟩


theorem wfo_plain_tokens (t : Tag) (rest : List Token) (hr : WFo rest) :
    WFo (t.plain.tokens ++ rest) := by
  rcases t with ⟨kind, o, body, c⟩
  cases kind with
  | comment =>
    simp only [Tag.plain, Tag.tokens, Tag.opener, Opener.startKind, endKind, contentTokens, List.cons_append,
      List.append_assoc]
    refine WFo.comment _ _ (tk COMMENT_END) rest rfl ?_ rfl hr
    intro x hx
    by_cases hb : body.isEmpty = true
    · simp [hb] at hx
    · simp only [hb, Bool.false_eq_true, if_false, List.mem_singleton] at hx
      subst hx; simp [tk, TEXT, COMMENT_END]
  | var =>
    simp only [Tag.plain, Tag.tokens, Tag.opener, Opener.startKind, endKind, List.cons_append,
      List.append_assoc]
    exact WFo.tag _ _ (tk VAR_END) rest (.inl rfl) (contentTokens_kinds (by intro h; cases h) body) ⟨.inl rfl, rfl⟩
      (fun _ => rfl) (by intro h; cases h) hr
  | block =>
    simp only [Tag.plain, Tag.tokens, Tag.opener, Opener.startKind, endKind, List.cons_append,
      List.append_assoc]
    exact WFo.tag _ _ (tk BLOCK_END) rest (.inr rfl) (contentTokens_kinds (by intro h; cases h) body) ⟨.inr rfl, rfl⟩
      (by intro h; cases h) (fun _ => rfl) hr

theorem wfo_text_opt (l x : Bytes) (rest : List Token) (hr : WFo rest) :
    WFo ((if l = [] then [] else [(⟨TEXT, x⟩ : Token)]) ++ rest) := by
  split
  · exact hr
  · exact WFo.text _ _ rfl hr

/-- the stream the parser sees for a template spelled as chunks and (supported) tags is well formed -/
theorem wfo_stream (last : Bytes) : ∀ (ps : List (Bytes × Tag)) (tn : Bool),
    WFo (normalise (applyWsAux tn (expected ps last)))
  | [], tn => by
    simp only [expected]
    by_cases hl : last = []
    · subst hl
      exact WFo.eof _ rfl
    · rw [textTok_ne hl, List.singleton_append, applyWsAux_text _ _ _ rfl]
      exact WFo.text _ _ rfl (WFo.eof _ rfl)
  | (l, t) :: ps, tn => by
    simp only [expected]
    rw [normalise_step, List.append_assoc]
    exact wfo_text_opt _ _ _ (wfo_plain_tokens t _ (wfo_stream last ps _))

theorem parseTemplate_tokens {s : Bytes} {ts : List Token} (h : tokenize s = .ok ts) :
    parseTemplate s = parseTokens ts := by
  unfold parseTemplate parseTokens
  rw [h]


/-- the token streams of the dashed and of the hand-trimmed template (no hypothesis on which chunks survive) -/
theorem tokenize_dashed (ps : List (Bytes × Tag)) (last : Bytes)
    (hwf : ∀ lt ∈ ps, WfTag lt.2 ∧ WfTag lt.2.plain)
    (hlit : ∀ lt ∈ undashPairs false ps, Lit lt.1)
    (hlast : NoOpener (undashLast false ps last)) :
    tokenize (spell ps last) = .ok (normalise (applyWs (expected ps last))) ∧
    tokenize (spell (undashPairs false ps) (undashLast false ps last)) =
      .ok (expected (undashPairs false ps) (undashLast false ps last)) ∧
    dropEmptyText (normalise (applyWs (expected ps last))) =
      expected (undashPairs false ps) (undashLast false ps last) := by
  have h1 : scanOpt (spell ps last) = .ok (expected ps last) :=
    scanOpt_chunks ps last
      (fun lt hm => ⟨lit_of_undash false ps hlit lt hm, (hwf lt hm).1⟩)
      (noOpener_of_ltIf hlast)
  have h2 : scanOpt (spell (undashPairs false ps) (undashLast false ps last)) =
      .ok (expected (undashPairs false ps) (undashLast false ps last)) :=
    scanOpt_chunks _ _
      (fun lt hm => ⟨hlit lt hm, wf_of_undash false ps (fun x hx => (hwf x hx).2) lt hm⟩) hlast
  refine ⟨?_, ?_, ?_⟩
  · simp only [tokenize, scan_eq_scanOpt, h1]
  · simp only [tokenize, scan_eq_scanOpt, h2, applyWs]
    rw [plain_stream _ _ (undashPairs_plain false ps)]
  · exact canon_expected false ps last

end Lift
end Twig
